package vmspec

import (
	"bytes"
	"math/big"
	"strconv"
	"strings"
)

// Limits of the reference engine (ExecutionEngineLimits.Default).
const (
	MaxItemSize       = 65535 * 2 // bytes of a ByteString / Buffer
	MaxStackItems     = 2048      // items on all stacks, slots and inside compounds
	MaxIntegerBytes   = 32
	MaxShift          = 256
	MaxKeySize        = 64
	MaxComparableSize = 65536
	MaxInvocations    = 1024
	MaxTryNesting     = 16
)

// Kind is the type of a stack item.
type Kind byte

// Item kinds.
const (
	KNull Kind = iota
	KBool
	KInt
	KBytes // ByteString, immutable
	KBuffer
	KArray
	KStruct
	KMap
	KPointer
)

// Item is a stack item. Identity of reference types (Buffer, Array, Struct,
// Map) is the identity of the *Item. Primitive items are never mutated, so
// sharing them is unobservable.
type Item struct {
	K   Kind
	B   bool
	I   *big.Int
	D   []byte     // ByteString / Buffer content
	L   []*Item    // Array / Struct elements
	M   []MapEntry // Map entries in insertion order
	Pos int        // Pointer position
}

// MapEntry is one key/value pair of a Map.
type MapEntry struct{ K, V *Item }

var (
	two255 = new(big.Int).Lsh(big.NewInt(1), 255)
	maxInt = new(big.Int).Sub(two255, big.NewInt(1))
	minInt = new(big.Int).Neg(two255)

	theNull  = &Item{K: KNull}
	theTrue  = &Item{K: KBool, B: true}
	theFalse = &Item{K: KBool, B: false}
)

func (k Kind) typeCode() byte {
	switch k {
	case KNull:
		return TAny
	case KBool:
		return TBoolean
	case KInt:
		return TInteger
	case KBytes:
		return TByteStr
	case KBuffer:
		return TBuffer
	case KArray:
		return TArray
	case KStruct:
		return TStruct
	case KMap:
		return TMap
	default:
		return TPointer
	}
}

func (it *Item) primitive() bool { return it.K == KBool || it.K == KInt || it.K == KBytes }
func (it *Item) compound() bool  { return it.K == KArray || it.K == KStruct || it.K == KMap }

func mkBool(b bool) *Item {
	if b {
		return theTrue
	}
	return theFalse
}

// mkInt creates an Integer item; the value must fit 32 bytes of two's
// complement, i.e. lie in [-2^255, 2^255-1], otherwise the engine faults.
func mkInt(x *big.Int) *Item {
	if x.Cmp(minInt) < 0 || x.Cmp(maxInt) > 0 {
		fault("integer result out of the 256-bit range")
	}
	return &Item{K: KInt, I: new(big.Int).Set(x)}
}

func mkSmall(n int) *Item { return &Item{K: KInt, I: big.NewInt(int64(n))} }

func mkBytes(d []byte) *Item { return &Item{K: KBytes, D: d} }

func mkBuffer(d []byte) *Item { return &Item{K: KBuffer, D: d} }

// leToInt decodes little-endian two's complement (empty = 0).
func leToInt(d []byte) *big.Int {
	n := len(d)
	if n == 0 {
		return new(big.Int)
	}
	be := make([]byte, n)
	for i := range d {
		be[n-1-i] = d[i]
	}
	x := new(big.Int).SetBytes(be)
	if d[n-1]&0x80 != 0 {
		x.Sub(x, new(big.Int).Lsh(big.NewInt(1), uint(8*n)))
	}
	return x
}

// intToLE encodes x as the shortest little-endian two's complement byte string
// (zero is the empty string), as BigInteger.ToByteArray does except for zero.
func intToLE(x *big.Int) []byte {
	if x.Sign() == 0 {
		return []byte{}
	}
	for n := 1; ; n++ {
		lim := new(big.Int).Lsh(big.NewInt(1), uint(8*n-1))
		if x.Cmp(new(big.Int).Neg(lim)) >= 0 && x.Cmp(lim) < 0 {
			v := new(big.Int).Set(x)
			if v.Sign() < 0 {
				v.Add(v, new(big.Int).Lsh(big.NewInt(1), uint(8*n)))
			}
			be := v.FillBytes(make([]byte, n))
			le := make([]byte, n)
			for i := range be {
				le[n-1-i] = be[i]
			}
			return le
		}
	}
}

// integer is GetInteger(): Integer, Boolean (1/0) and ByteString of at most 32
// bytes. A Buffer is NOT an integer operand (only CONVERT turns it into one);
// Null, compounds and pointers are not either.
func integer(it *Item) *big.Int {
	switch it.K {
	case KInt:
		return it.I
	case KBool:
		if it.B {
			return big.NewInt(1)
		}
		return new(big.Int)
	case KBytes:
		if len(it.D) > MaxIntegerBytes {
			fault("byte string longer than 32 bytes used as integer")
		}
		return leToInt(it.D)
	}
	fault("item is not convertible to integer")
	return nil
}

// boolean is GetBoolean().
func boolean(it *Item) bool {
	switch it.K {
	case KNull:
		return false
	case KBool:
		return it.B
	case KInt:
		return it.I.Sign() != 0
	case KBytes:
		if len(it.D) > MaxIntegerBytes {
			fault("byte string longer than 32 bytes used as boolean")
		}
		for _, c := range it.D {
			if c != 0 {
				return true
			}
		}
		return false
	}
	return true // Buffer, Array, Struct, Map, Pointer
}

// span is GetSpan(): the bytes of a primitive or of a Buffer.
func span(it *Item) []byte {
	switch it.K {
	case KBool:
		if it.B {
			return []byte{1}
		}
		return []byte{0}
	case KInt:
		return intToLE(it.I)
	case KBytes, KBuffer:
		return it.D
	}
	fault("item has no byte representation")
	return nil
}

// int32of is the C# cast (int)BigInteger: faults outside the int32 range.
func int32of(x *big.Int) int {
	if !x.IsInt64() {
		fault("integer does not fit int32")
	}
	v := x.Int64()
	if v < -(1<<31) || v > (1<<31)-1 {
		fault("integer does not fit int32")
	}
	return int(v)
}

// validUTF8 implements strict UTF-8 validation (RFC 3629: no overlong forms,
// no surrogates, nothing above U+10FFFF), which is what the reference's
// StrictUTF8 decoder enforces for ABORTMSG / ASSERTMSG messages.
func validUTF8(d []byte) bool {
	for i := 0; i < len(d); {
		c := d[i]
		switch {
		case c < 0x80:
			i++
		case c >= 0xC2 && c <= 0xDF:
			if i+1 >= len(d) || d[i+1]&0xC0 != 0x80 {
				return false
			}
			i += 2
		case c >= 0xE0 && c <= 0xEF:
			if i+2 >= len(d) || d[i+1]&0xC0 != 0x80 || d[i+2]&0xC0 != 0x80 {
				return false
			}
			if c == 0xE0 && d[i+1] < 0xA0 {
				return false
			}
			if c == 0xED && d[i+1] > 0x9F {
				return false
			}
			i += 3
		case c >= 0xF0 && c <= 0xF4:
			if i+3 >= len(d) || d[i+1]&0xC0 != 0x80 || d[i+2]&0xC0 != 0x80 || d[i+3]&0xC0 != 0x80 {
				return false
			}
			if c == 0xF0 && d[i+1] < 0x90 {
				return false
			}
			if c == 0xF4 && d[i+1] > 0x8F {
				return false
			}
			i += 4
		default:
			return false
		}
	}
	return true
}

// keyOf returns the identity of a map key: keys are equal iff they have the
// same primitive type and the same value.
func keyOf(k *Item) string {
	switch k.K {
	case KBool:
		if k.B {
			return "b1"
		}
		return "b0"
	case KInt:
		return "i" + k.I.String()
	case KBytes:
		return "s" + string(k.D)
	}
	fault("map key is not a primitive")
	return ""
}

// checkKey is what popping a key (Pop<PrimitiveType>) and using it on a Map
// demand: a primitive of at most 64 bytes.
func primitiveKey(k *Item) {
	if !k.primitive() {
		fault("key is not a primitive type")
	}
}

func mapKeySize(k *Item) {
	if len(span(k)) > MaxKeySize {
		fault("map key longer than 64 bytes")
	}
}

func (it *Item) mapIndex(k *Item) int {
	id := keyOf(k)
	for i := range it.M {
		if keyOf(it.M[i].K) == id {
			return i
		}
	}
	return -1
}

// cloneStruct is Struct.Clone(limits): nested structs are copied, everything
// else is shared; at most MaxStackItems-1 sub-items may be visited.
func cloneStruct(s *Item) *Item {
	budget := MaxStackItems - 1
	var rec func(s *Item) *Item
	rec = func(s *Item) *Item {
		r := &Item{K: KStruct, L: make([]*Item, len(s.L))}
		for i, e := range s.L {
			budget--
			if budget < 0 {
				fault("struct clone exceeds the sub-item limit")
			}
			if e.K == KStruct {
				r.L[i] = rec(e)
			} else {
				r.L[i] = e
			}
		}
		return r
	}
	return rec(s)
}

func cloneIfStruct(it *Item) *Item {
	if it.K == KStruct {
		return cloneStruct(it)
	}
	return it
}

type eqOutcome int

const (
	eqFalse eqOutcome = iota
	eqTrue
	eqFault
)

// equalItems is StackItem.Equals(other, limits) of a = x1 with b = x2.
// zone is set when the result depends on the exact value of a comparison
// limit or on the traversal order of a struct comparison (see structEqual).
func equalItems(a, b *Item) (res eqOutcome, zone bool, why string) {
	switch a.K {
	case KNull:
		return eqB(b.K == KNull), false, ""
	case KBool:
		return eqB(b.K == KBool && a.B == b.B), false, ""
	case KInt:
		return eqB(b.K == KInt && a.I.Cmp(b.I) == 0), false, ""
	case KBytes:
		// ByteString.Equals(other, ref limits) with limits = MaxComparableSize:
		// own size first, then the type of the other, then the other's size.
		if len(a.D) > MaxComparableSize {
			return eqFault, false, ""
		}
		if b.K != KBytes {
			return eqFalse, false, ""
		}
		if len(b.D) > MaxComparableSize {
			return eqFault, false, ""
		}
		return eqB(bytes.Equal(a.D, b.D)), false, ""
	case KBuffer, KArray, KMap:
		return eqB(a == b), false, ""
	case KPointer:
		return eqB(b.K == KPointer && a.Pos == b.Pos), false, ""
	case KStruct:
		if b.K != KStruct {
			return eqFalse, false, ""
		}
		prim := structEqual(a, b, MaxStackItems, MaxComparableSize, true, &why)
		if prim == eqFault && why == "struct-equal-comparable-size-exceeded" {
			// Labelling only (never changes the verdict): the fault is named
			// "...-at-one-level" when a comparison that gave every nested struct
			// a budget of its own would overflow as well, i.e. when the overflow
			// does not need nesting to be seen.
			n := MaxStackItems
			if structEqualPerLevel(a, b, &n) == eqFault {
				why = "struct-equal-comparable-size-exceeded-at-one-level"
			}
		}
		// The comparison budget (MaxStackSize visited items, MaxComparableSize
		// comparable units shared by the whole traversal) and the LIFO order are
		// the reference's; whenever the verdict would change with a budget a few
		// units off or with the opposite order, the case is in a zone this
		// specification does not claim to fix and the case is discarded.
		for _, dn := range []int{-3, 3} {
			for _, db := range []int{-3, 3} {
				for _, lifo := range []bool{true, false} {
					var w2 string
					if structEqual(a, b, MaxStackItems+dn, MaxComparableSize+db, lifo, &w2) != prim {
						return prim, true, why
					}
				}
			}
		}
		return prim, false, why
	}
	return eqFalse, false, ""
}

func eqB(b bool) eqOutcome {
	if b {
		return eqTrue
	}
	return eqFalse
}

// structEqual is Struct.Equals(other, limits): an explicit-stack traversal that
// charges one visit per popped pair (at most `count` visits) and comparable
// units (the larger length for a ByteString pair, at least 1; 1 for anything
// else) against one budget for the whole traversal.
func structEqual(a, b *Item, count, budget int, lifo bool, why *string) eqOutcome {
	type pair struct{ a, b *Item }
	st := []pair{{a, b}}
	for len(st) > 0 {
		if count == 0 {
			*why = "struct-equal-visit-count-exceeded"
			return eqFault
		}
		count--
		p := st[len(st)-1]
		st = st[:len(st)-1]
		if p.a.K == KBytes {
			if len(p.a.D) > budget || budget == 0 {
				*why = "struct-equal-comparable-size-exceeded"
				return eqFault
			}
			if p.b.K != KBytes {
				budget--
				return eqFalse
			}
			used := max(len(p.a.D), len(p.b.D), 1)
			if len(p.b.D) > budget {
				*why = "struct-equal-comparable-size-exceeded"
				return eqFault
			}
			if !bytes.Equal(p.a.D, p.b.D) {
				return eqFalse
			}
			budget -= used
			continue
		}
		if budget == 0 {
			*why = "struct-equal-comparable-size-exceeded"
			return eqFault
		}
		budget--
		if p.a.K == KStruct {
			if p.a == p.b {
				continue
			}
			if p.b.K != KStruct || len(p.a.L) != len(p.b.L) {
				return eqFalse
			}
			for i := range p.a.L {
				j := i
				if !lifo { // visit members first to last instead of last to first
					j = len(p.a.L) - 1 - i
				}
				st = append(st, pair{p.a.L[j], p.b.L[j]})
			}
			continue
		}
		r, _, _ := equalItems(p.a, p.b) // non-struct, non-bytestring: plain Equals
		if r != eqTrue {
			return eqFalse
		}
	}
	return eqTrue
}

// structEqualPerLevel is NOT the reference rule: it is the same comparison with
// a fresh comparable-size budget for every nested struct (members first to
// last). It only serves to label size faults, see equalItems.
func structEqualPerLevel(a, b *Item, count *int) eqOutcome {
	if a == b {
		return eqTrue
	}
	if len(a.L) != len(b.L) {
		return eqFalse
	}
	budget := MaxComparableSize
	for i := range a.L {
		*count--
		if *count <= 0 {
			return eqFalse // visit limits are labelled elsewhere
		}
		x, y := a.L[i], b.L[i]
		if x.K == KBytes {
			if len(x.D) > budget || budget == 0 {
				return eqFault
			}
			if y.K != KBytes {
				return eqFalse
			}
			if len(y.D) > budget {
				return eqFault
			}
			if !bytes.Equal(x.D, y.D) {
				return eqFalse
			}
			budget -= max(len(x.D), len(y.D), 1)
			continue
		}
		if budget == 0 {
			return eqFault
		}
		budget--
		if x.K == KStruct && y.K == KStruct {
			if r := structEqualPerLevel(x, y, count); r != eqTrue {
				return r
			}
			continue
		}
		if r, _, _ := equalItems(x, y); r != eqTrue {
			return eqFalse
		}
	}
	return eqTrue
}

// reaches reports whether target is reachable from it through compound members.
func reaches(it, target *Item, seen map[*Item]bool) bool {
	if it == target {
		return true
	}
	if !it.compound() || seen[it] {
		return false
	}
	seen[it] = true
	for _, e := range it.L {
		if reaches(e, target, seen) {
			return true
		}
	}
	for _, e := range it.M {
		if reaches(e.V, target, seen) {
			return true
		}
	}
	return false
}

// Canon renders items (bottom of the stack first) in a canonical text form in
// which reference types carry an identity number assigned at first visit, so
// that aliasing is part of the compared value.
func Canon(items []*Item) string {
	var sb strings.Builder
	ids := map[*Item]int{}
	var w func(it *Item, depth int)
	w = func(it *Item, depth int) {
		if depth > 64 {
			sb.WriteString("<deep>")
			return
		}
		switch it.K {
		case KNull:
			sb.WriteString("null")
		case KBool:
			if it.B {
				sb.WriteString("true")
			} else {
				sb.WriteString("false")
			}
		case KInt:
			sb.WriteString("int:")
			sb.WriteString(it.I.String())
		case KBytes:
			sb.WriteString("bs:")
			hexInto(&sb, it.D)
		case KPointer:
			sb.WriteString("ptr:")
			sb.WriteString(strconv.Itoa(it.Pos))
		default:
			if id, ok := ids[it]; ok {
				sb.WriteString("@")
				sb.WriteString(strconv.Itoa(id))
				return
			}
			id := len(ids) + 1
			ids[it] = id
			switch it.K {
			case KBuffer:
				sb.WriteString("buf#" + strconv.Itoa(id) + ":")
				hexInto(&sb, it.D)
			case KArray, KStruct:
				if it.K == KArray {
					sb.WriteString("arr#")
				} else {
					sb.WriteString("struct#")
				}
				sb.WriteString(strconv.Itoa(id) + "[")
				for i, e := range it.L {
					if i > 0 {
						sb.WriteByte(',')
					}
					w(e, depth+1)
				}
				sb.WriteByte(']')
			case KMap:
				sb.WriteString("map#" + strconv.Itoa(id) + "{")
				for i, e := range it.M {
					if i > 0 {
						sb.WriteByte(',')
					}
					w(e.K, depth+1)
					sb.WriteString("=>")
					w(e.V, depth+1)
				}
				sb.WriteByte('}')
			}
		}
	}
	for i, it := range items {
		if i > 0 {
			sb.WriteString(" | ")
		}
		w(it, 0)
	}
	return sb.String()
}

func hexInto(sb *strings.Builder, d []byte) {
	const hx = "0123456789abcdef"
	if len(d) > 48 { // long strings: length, a digest-free summary of both ends and a checksum
		var sum uint32 = 2166136261
		for _, c := range d {
			sum = (sum ^ uint32(c)) * 16777619
		}
		sb.WriteString("len" + strconv.Itoa(len(d)) + ":")
		for _, c := range d[:8] {
			sb.WriteByte(hx[c>>4])
			sb.WriteByte(hx[c&15])
		}
		sb.WriteString("..")
		for _, c := range d[len(d)-8:] {
			sb.WriteByte(hx[c>>4])
			sb.WriteByte(hx[c&15])
		}
		sb.WriteString("~" + strconv.FormatUint(uint64(sum), 16))
		return
	}
	for _, c := range d {
		sb.WriteByte(hx[c>>4])
		sb.WriteByte(hx[c&15])
	}
}

// CanonBytes exposes the byte rendering used by Canon, so that the harness
// renders the real VM's byte strings identically.
func CanonBytes(d []byte) string {
	var sb strings.Builder
	hexInto(&sb, d)
	return sb.String()
}

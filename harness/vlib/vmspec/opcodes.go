// Package vmspec is an independent executable specification of the effect-free
// part of NeoVM (N3). It is written from the reference (C#) semantics over
// math/big and plain Go slices and shares no code with neo-go's pkg/vm,
// stackitem, opcode, scparser or bigint packages: even the opcode table below is
// typed in from the NeoVM opcode list (the check cross-validates the names and
// numbers against pkg/vm/opcode as a harness sanity test only).
package vmspec

// Op is a NeoVM opcode.
type Op byte

// Opcode numbers of NeoVM (N3).
const (
	PUSHINT8   Op = 0x00
	PUSHINT16  Op = 0x01
	PUSHINT32  Op = 0x02
	PUSHINT64  Op = 0x03
	PUSHINT128 Op = 0x04
	PUSHINT256 Op = 0x05
	PUSHT      Op = 0x08
	PUSHF      Op = 0x09
	PUSHA      Op = 0x0A
	PUSHNULL   Op = 0x0B
	PUSHDATA1  Op = 0x0C
	PUSHDATA2  Op = 0x0D
	PUSHDATA4  Op = 0x0E
	PUSHM1     Op = 0x0F
	PUSH0      Op = 0x10
	PUSH1      Op = 0x11
	PUSH2      Op = 0x12
	PUSH3      Op = 0x13
	PUSH4      Op = 0x14
	PUSH5      Op = 0x15
	PUSH6      Op = 0x16
	PUSH7      Op = 0x17
	PUSH8      Op = 0x18
	PUSH9      Op = 0x19
	PUSH10     Op = 0x1A
	PUSH11     Op = 0x1B
	PUSH12     Op = 0x1C
	PUSH13     Op = 0x1D
	PUSH14     Op = 0x1E
	PUSH15     Op = 0x1F
	PUSH16     Op = 0x20

	NOP        Op = 0x21
	JMP        Op = 0x22
	JMPL       Op = 0x23
	JMPIF      Op = 0x24
	JMPIFL     Op = 0x25
	JMPIFNOT   Op = 0x26
	JMPIFNOTL  Op = 0x27
	JMPEQ      Op = 0x28
	JMPEQL     Op = 0x29
	JMPNE      Op = 0x2A
	JMPNEL     Op = 0x2B
	JMPGT      Op = 0x2C
	JMPGTL     Op = 0x2D
	JMPGE      Op = 0x2E
	JMPGEL     Op = 0x2F
	JMPLT      Op = 0x30
	JMPLTL     Op = 0x31
	JMPLE      Op = 0x32
	JMPLEL     Op = 0x33
	CALL       Op = 0x34
	CALLL      Op = 0x35
	CALLA      Op = 0x36
	CALLT      Op = 0x37
	ABORT      Op = 0x38
	ASSERT     Op = 0x39
	THROW      Op = 0x3A
	TRY        Op = 0x3B
	TRYL       Op = 0x3C
	ENDTRY     Op = 0x3D
	ENDTRYL    Op = 0x3E
	ENDFINALLY Op = 0x3F
	RET        Op = 0x40
	SYSCALL    Op = 0x41

	DEPTH    Op = 0x43
	DROP     Op = 0x45
	NIP      Op = 0x46
	XDROP    Op = 0x48
	CLEAR    Op = 0x49
	DUP      Op = 0x4A
	OVER     Op = 0x4B
	PICK     Op = 0x4D
	TUCK     Op = 0x4E
	SWAP     Op = 0x50
	ROT      Op = 0x51
	ROLL     Op = 0x52
	REVERSE3 Op = 0x53
	REVERSE4 Op = 0x54
	REVERSEN Op = 0x55

	INITSSLOT Op = 0x56
	INITSLOT  Op = 0x57
	LDSFLD0   Op = 0x58
	LDSFLD    Op = 0x5F
	STSFLD0   Op = 0x60
	STSFLD    Op = 0x67
	LDLOC0    Op = 0x68
	LDLOC     Op = 0x6F
	STLOC0    Op = 0x70
	STLOC     Op = 0x77
	LDARG0    Op = 0x78
	LDARG     Op = 0x7F
	STARG0    Op = 0x80
	STARG     Op = 0x87

	NEWBUFFER Op = 0x88
	MEMCPY    Op = 0x89
	CAT       Op = 0x8B
	SUBSTR    Op = 0x8C
	LEFT      Op = 0x8D
	RIGHT     Op = 0x8E

	INVERT   Op = 0x90
	AND      Op = 0x91
	OR       Op = 0x92
	XOR      Op = 0x93
	EQUAL    Op = 0x97
	NOTEQUAL Op = 0x98

	SIGN        Op = 0x99
	ABS         Op = 0x9A
	NEGATE      Op = 0x9B
	INC         Op = 0x9C
	DEC         Op = 0x9D
	ADD         Op = 0x9E
	SUB         Op = 0x9F
	MUL         Op = 0xA0
	DIV         Op = 0xA1
	MOD         Op = 0xA2
	POW         Op = 0xA3
	SQRT        Op = 0xA4
	MODMUL      Op = 0xA5
	MODPOW      Op = 0xA6
	SHL         Op = 0xA8
	SHR         Op = 0xA9
	NOT         Op = 0xAA
	BOOLAND     Op = 0xAB
	BOOLOR      Op = 0xAC
	NZ          Op = 0xB1
	NUMEQUAL    Op = 0xB3
	NUMNOTEQUAL Op = 0xB4
	LT          Op = 0xB5
	LE          Op = 0xB6
	GT          Op = 0xB7
	GE          Op = 0xB8
	MIN         Op = 0xB9
	MAX         Op = 0xBA
	WITHIN      Op = 0xBB

	PACKMAP      Op = 0xBE
	PACKSTRUCT   Op = 0xBF
	PACK         Op = 0xC0
	UNPACK       Op = 0xC1
	NEWARRAY0    Op = 0xC2
	NEWARRAY     Op = 0xC3
	NEWARRAYT    Op = 0xC4
	NEWSTRUCT0   Op = 0xC5
	NEWSTRUCT    Op = 0xC6
	NEWMAP       Op = 0xC8
	SIZE         Op = 0xCA
	HASKEY       Op = 0xCB
	KEYS         Op = 0xCC
	VALUES       Op = 0xCD
	PICKITEM     Op = 0xCE
	APPEND       Op = 0xCF
	SETITEM      Op = 0xD0
	REVERSEITEMS Op = 0xD1
	REMOVE       Op = 0xD2
	CLEARITEMS   Op = 0xD3
	POPITEM      Op = 0xD4

	ISNULL  Op = 0xD8
	ISTYPE  Op = 0xD9
	CONVERT Op = 0xDB

	ABORTMSG  Op = 0xE0
	ASSERTMSG Op = 0xE1
)

// opInfo describes the encoding of one opcode: a fixed operand size, or the
// size of a length prefix (PUSHDATA*).
type opInfo struct {
	name   string
	size   int // fixed operand bytes
	prefix int // length-prefix bytes (PUSHDATA1/2/4)
}

var ops [256]*opInfo

func def(o Op, name string, size int) { ops[o] = &opInfo{name: name, size: size} }

func init() {
	def(PUSHINT8, "PUSHINT8", 1)
	def(PUSHINT16, "PUSHINT16", 2)
	def(PUSHINT32, "PUSHINT32", 4)
	def(PUSHINT64, "PUSHINT64", 8)
	def(PUSHINT128, "PUSHINT128", 16)
	def(PUSHINT256, "PUSHINT256", 32)
	def(PUSHT, "PUSHT", 0)
	def(PUSHF, "PUSHF", 0)
	def(PUSHA, "PUSHA", 4)
	def(PUSHNULL, "PUSHNULL", 0)
	ops[PUSHDATA1] = &opInfo{name: "PUSHDATA1", prefix: 1}
	ops[PUSHDATA2] = &opInfo{name: "PUSHDATA2", prefix: 2}
	ops[PUSHDATA4] = &opInfo{name: "PUSHDATA4", prefix: 4}
	def(PUSHM1, "PUSHM1", 0)
	for i := 0; i <= 16; i++ {
		def(PUSH0+Op(i), "PUSH"+itoa(i), 0)
	}
	def(NOP, "NOP", 0)
	short := []struct {
		o Op
		n string
	}{{JMP, "JMP"}, {JMPIF, "JMPIF"}, {JMPIFNOT, "JMPIFNOT"}, {JMPEQ, "JMPEQ"}, {JMPNE, "JMPNE"},
		{JMPGT, "JMPGT"}, {JMPGE, "JMPGE"}, {JMPLT, "JMPLT"}, {JMPLE, "JMPLE"}, {CALL, "CALL"}}
	for _, s := range short {
		def(s.o, s.n, 1)
		def(s.o+1, s.n+"L", 4)
	}
	def(CALLA, "CALLA", 0)
	def(CALLT, "CALLT", 2)
	def(ABORT, "ABORT", 0)
	def(ASSERT, "ASSERT", 0)
	def(THROW, "THROW", 0)
	def(TRY, "TRY", 2)
	def(TRYL, "TRYL", 8)
	def(ENDTRY, "ENDTRY", 1)
	def(ENDTRYL, "ENDTRYL", 4)
	def(ENDFINALLY, "ENDFINALLY", 0)
	def(RET, "RET", 0)
	def(SYSCALL, "SYSCALL", 4)
	for _, s := range []struct {
		o Op
		n string
	}{{DEPTH, "DEPTH"}, {DROP, "DROP"}, {NIP, "NIP"}, {XDROP, "XDROP"}, {CLEAR, "CLEAR"}, {DUP, "DUP"}, {OVER, "OVER"},
		{PICK, "PICK"}, {TUCK, "TUCK"}, {SWAP, "SWAP"}, {ROT, "ROT"}, {ROLL, "ROLL"}, {REVERSE3, "REVERSE3"},
		{REVERSE4, "REVERSE4"}, {REVERSEN, "REVERSEN"},
		{NEWBUFFER, "NEWBUFFER"}, {MEMCPY, "MEMCPY"}, {CAT, "CAT"}, {SUBSTR, "SUBSTR"}, {LEFT, "LEFT"}, {RIGHT, "RIGHT"},
		{INVERT, "INVERT"}, {AND, "AND"}, {OR, "OR"}, {XOR, "XOR"}, {EQUAL, "EQUAL"}, {NOTEQUAL, "NOTEQUAL"},
		{SIGN, "SIGN"}, {ABS, "ABS"}, {NEGATE, "NEGATE"}, {INC, "INC"}, {DEC, "DEC"}, {ADD, "ADD"}, {SUB, "SUB"},
		{MUL, "MUL"}, {DIV, "DIV"}, {MOD, "MOD"}, {POW, "POW"}, {SQRT, "SQRT"}, {MODMUL, "MODMUL"}, {MODPOW, "MODPOW"},
		{SHL, "SHL"}, {SHR, "SHR"}, {NOT, "NOT"}, {BOOLAND, "BOOLAND"}, {BOOLOR, "BOOLOR"}, {NZ, "NZ"},
		{NUMEQUAL, "NUMEQUAL"}, {NUMNOTEQUAL, "NUMNOTEQUAL"}, {LT, "LT"}, {LE, "LE"}, {GT, "GT"}, {GE, "GE"},
		{MIN, "MIN"}, {MAX, "MAX"}, {WITHIN, "WITHIN"},
		{PACKMAP, "PACKMAP"}, {PACKSTRUCT, "PACKSTRUCT"}, {PACK, "PACK"}, {UNPACK, "UNPACK"}, {NEWARRAY0, "NEWARRAY0"},
		{NEWARRAY, "NEWARRAY"}, {NEWSTRUCT0, "NEWSTRUCT0"}, {NEWSTRUCT, "NEWSTRUCT"}, {NEWMAP, "NEWMAP"},
		{SIZE, "SIZE"}, {HASKEY, "HASKEY"}, {KEYS, "KEYS"}, {VALUES, "VALUES"}, {PICKITEM, "PICKITEM"},
		{APPEND, "APPEND"}, {SETITEM, "SETITEM"}, {REVERSEITEMS, "REVERSEITEMS"}, {REMOVE, "REMOVE"},
		{CLEARITEMS, "CLEARITEMS"}, {POPITEM, "POPITEM"}, {ISNULL, "ISNULL"},
		{ABORTMSG, "ABORTMSG"}, {ASSERTMSG, "ASSERTMSG"}} {
		def(s.o, s.n, 0)
	}
	def(NEWARRAYT, "NEWARRAYT", 1)
	def(ISTYPE, "ISTYPE", 1)
	def(CONVERT, "CONVERT", 1)
	def(INITSSLOT, "INITSSLOT", 1)
	def(INITSLOT, "INITSLOT", 2)
	for _, s := range []struct {
		o Op
		n string
	}{{LDSFLD0, "LDSFLD"}, {STSFLD0, "STSFLD"}, {LDLOC0, "LDLOC"}, {STLOC0, "STLOC"}, {LDARG0, "LDARG"}, {STARG0, "STARG"}} {
		for i := 0; i < 7; i++ {
			def(s.o+Op(i), s.n+itoa(i), 0)
		}
		def(s.o+7, s.n, 1)
	}
}

func itoa(i int) string {
	if i < 10 {
		return string(rune('0' + i))
	}
	return string(rune('0'+i/10)) + string(rune('0'+i%10))
}

// Defined reports whether b is a NeoVM opcode.
func Defined(b byte) bool { return ops[b] != nil }

// Name returns the mnemonic of o ("" if undefined).
func Name(o Op) string {
	if ops[o] == nil {
		return ""
	}
	return ops[o].name
}

func (o Op) String() string {
	if n := Name(o); n != "" {
		return n
	}
	return "0x" + string("0123456789ABCDEF"[o>>4]) + string("0123456789ABCDEF"[o&15])
}

// OperandSize returns the fixed operand size and the length-prefix size of o.
func OperandSize(o Op) (fixed, prefix int) {
	if ops[o] == nil {
		return 0, 0
	}
	return ops[o].size, ops[o].prefix
}

// Stack item type codes (operands of CONVERT / ISTYPE / NEWARRAYT).
const (
	TAny     byte = 0x00
	TPointer byte = 0x10
	TBoolean byte = 0x20
	TInteger byte = 0x21
	TByteStr byte = 0x28
	TBuffer  byte = 0x30
	TArray   byte = 0x40
	TStruct  byte = 0x41
	TMap     byte = 0x48
	TInterop byte = 0x60
)

func typeDefined(t byte) bool {
	switch t {
	case TAny, TPointer, TBoolean, TInteger, TByteStr, TBuffer, TArray, TStruct, TMap, TInterop:
		return true
	}
	return false
}

// Disasm renders a script as text (for witnesses).
func Disasm(s []byte) string {
	out := ""
	for ip := 0; ip < len(s); {
		o := Op(s[ip])
		info := ops[o]
		if info == nil {
			out += itoaN(ip) + ":" + o.String() + " "
			ip++
			continue
		}
		p := ip + 1
		n := info.size
		if info.prefix > 0 {
			if p+info.prefix > len(s) {
				out += itoaN(ip) + ":" + info.name + "<truncated> "
				break
			}
			l := 0
			for i := info.prefix - 1; i >= 0; i-- {
				l = l<<8 | int(s[p+i])
			}
			p += info.prefix
			n = l
		}
		if p+n > len(s) || n < 0 {
			out += itoaN(ip) + ":" + info.name + "<truncated> "
			break
		}
		out += itoaN(ip) + ":" + info.name
		if n > 0 {
			const hx = "0123456789abcdef"
			out += " "
			if n > 40 {
				out += "<" + itoaN(n) + " bytes>"
			} else {
				for _, c := range s[p : p+n] {
					out += string(hx[c>>4]) + string(hx[c&15])
				}
			}
		}
		out += "; "
		ip = p + n
	}
	return out
}

func itoaN(n int) string {
	if n == 0 {
		return "0"
	}
	neg := n < 0
	if neg {
		n = -n
	}
	b := []byte{}
	for n > 0 {
		b = append([]byte{byte('0' + n%10)}, b...)
		n /= 10
	}
	if neg {
		return "-" + string(b)
	}
	return string(b)
}

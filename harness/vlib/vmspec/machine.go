package vmspec

import (
	"fmt"
	"math/big"
)

// State of a specification run.
type State int

// Run states. Discard means the script reached something this specification
// deliberately does not model (item-count limit, cycles, syscalls, CALLT, a
// step bound, a comparison whose verdict depends on the exact limit).
const (
	Running State = iota
	Halt
	Fault
	Discard
)

func (s State) String() string {
	return [...]string{"RUNNING", "HALT", "FAULT", "DISCARD"}[s]
}

type faultErr struct{ msg string }
type discardErr struct{ msg string }

func fault(msg string)   { panic(faultErr{msg}) }
func discard(msg string) { panic(discardErr{msg}) }

const (
	sTry = iota
	sCatch
	sFinally
)

type tryCtx struct {
	catch, finally, end int // -1 = absent
	state               int
}

type frame struct {
	ip     int
	locals []*Item
	args   []*Item
	try    []*tryCtx
}

// Machine executes one script.
type Machine struct {
	Script []byte
	State  State
	Reason string // why it faulted / was discarded
	Steps  int
	// MaxSteps bounds the run (exceeding it discards the case).
	MaxSteps int
	// ItemMargin: the case is discarded once the number of live items exceeds
	// MaxStackItems-ItemMargin (the item limit itself belongs to another check).
	ItemMargin int

	// LastOp/LastIP describe the instruction executed by the last Step; Tag
	// names the rare rule that instruction went through (used to classify
	// disagreements), "" for ordinary paths.
	LastOp Op
	LastIP int
	Tag    string

	frames   []*frame
	stack    []*Item
	static   []*Item
	uncaught *Item
}

// New loads script as the entry context.
func New(script []byte) *Machine {
	return &Machine{Script: script, MaxSteps: 400, ItemMargin: 148, frames: []*frame{{}}}
}

// Stack returns the evaluation stack, bottom first (the result stack after HALT).
func (m *Machine) Stack() []*Item { return m.stack }

// Depth returns the number of frames on the invocation stack.
func (m *Machine) Depth() int { return len(m.frames) }

// Run executes until the machine stops.
func (m *Machine) Run() {
	for m.State == Running {
		m.Step()
	}
}

func (m *Machine) push(it *Item) { m.stack = append(m.stack, it) }

func (m *Machine) pop() *Item {
	n := len(m.stack)
	if n == 0 {
		fault("pop from an empty stack")
	}
	it := m.stack[n-1]
	m.stack = m.stack[:n-1]
	return it
}

// peek returns the n-th item from the top.
func (m *Machine) peek(n int) *Item {
	if n < 0 || n >= len(m.stack) {
		fault("peek beyond the stack")
	}
	return m.stack[len(m.stack)-1-n]
}

// remove deletes and returns the n-th item from the top.
func (m *Machine) remove(n int) *Item {
	if n < 0 || n >= len(m.stack) {
		fault("remove beyond the stack")
	}
	i := len(m.stack) - 1 - n
	it := m.stack[i]
	m.stack = append(m.stack[:i], m.stack[i+1:]...)
	return it
}

func (m *Machine) popInt() *big.Int { return integer(m.pop()) }
func (m *Machine) popBool() bool    { return boolean(m.pop()) }
func (m *Machine) popInt32() int    { return int32of(integer(m.pop())) }

func (m *Machine) top() *frame { return m.frames[len(m.frames)-1] }

// setIP is the InstructionPointer setter: any position in [0, len] is legal
// (len = "past the end", where the implicit RET is executed).
func (m *Machine) setIP(f *frame, pos int) {
	if pos < 0 || pos > len(m.Script) {
		fault("instruction pointer out of range")
	}
	if pos == len(m.Script) {
		m.Tag = "transfer-to-script-end"
	}
	f.ip = pos
}

// jump is ExecuteJump (JMP*): the target must be an existing instruction
// position, the end of the script is not allowed.
func (m *Machine) jump(f *frame, pos int) {
	if pos < 0 || pos >= len(m.Script) {
		fault("jump out of range")
	}
	f.ip = pos
}

func le(d []byte) int64 { // signed little endian
	var v uint64
	for i := len(d) - 1; i >= 0; i-- {
		v = v<<8 | uint64(d[i])
	}
	sh := uint(64 - 8*len(d))
	return int64(v<<sh) >> sh
}

// decode reads the instruction at ip. Past the end of the script the engine
// executes an implicit RET.
func (m *Machine) decode(ip int) (op Op, operand []byte, next int) {
	s := m.Script
	if ip >= len(s) {
		return RET, nil, ip
	}
	op = Op(s[ip])
	info := ops[op]
	if info == nil {
		fault("undefined opcode")
	}
	p := ip + 1
	n := info.size
	if info.prefix > 0 {
		if p+info.prefix > len(s) {
			fault("truncated operand length")
		}
		var l uint64
		for i := info.prefix - 1; i >= 0; i-- {
			l = l<<8 | uint64(s[p+i])
		}
		p += info.prefix
		if l > MaxItemSize {
			fault("PUSHDATA longer than the item size limit")
		}
		n = int(l)
	}
	if p+n > len(s) {
		fault("truncated operand")
	}
	return op, s[p : p+n], p + n
}

// Step executes one instruction.
func (m *Machine) Step() {
	if m.State != Running {
		return
	}
	defer func() {
		if r := recover(); r != nil {
			switch e := r.(type) {
			case faultErr:
				m.State, m.Reason = Fault, e.msg
			case discardErr:
				m.State, m.Reason = Discard, e.msg
			default:
				panic(r)
			}
		}
	}()
	m.Tag = ""
	if m.Steps >= m.MaxSteps {
		discard("step-bound")
	}
	m.Steps++
	f := m.top()
	ip := f.ip
	m.LastIP = ip
	m.LastOp = RET
	if ip < len(m.Script) {
		m.LastOp = Op(m.Script[ip])
	}
	op, arg, next := m.decode(ip)
	f.ip = next
	m.exec(f, ip, op, arg)
	if n := m.itemCount(); n > MaxStackItems-m.ItemMargin {
		discard("item-limit")
	}
}

func (m *Machine) itemCount() int {
	n := len(m.stack) + len(m.static)
	var seen map[*Item]bool
	var walk func(it *Item)
	walk = func(it *Item) {
		if it == nil || !it.compound() {
			return
		}
		if seen == nil {
			seen = map[*Item]bool{}
		}
		if seen[it] {
			return
		}
		seen[it] = true
		n += len(it.L) + 2*len(it.M)
		for _, e := range it.L {
			walk(e)
		}
		for _, e := range it.M {
			walk(e.V)
		}
	}
	for _, it := range m.stack {
		walk(it)
	}
	for _, it := range m.static {
		walk(it)
	}
	for _, f := range m.frames {
		n += len(f.locals) + len(f.args)
		for _, it := range f.locals {
			walk(it)
		}
		for _, it := range f.args {
			walk(it)
		}
	}
	return n
}

// throw is ExecuteThrow.
func (m *Machine) throw(ex *Item) {
	m.uncaught = ex
	pop := 0
	for i := len(m.frames) - 1; i >= 0; i-- {
		f := m.frames[i]
		for len(f.try) > 0 {
			t := f.try[len(f.try)-1]
			if t.state == sFinally || (t.state == sCatch && t.finally < 0) {
				f.try = f.try[:len(f.try)-1]
				continue
			}
			m.frames = m.frames[:len(m.frames)-pop]
			if t.state == sTry && t.catch >= 0 {
				t.state = sCatch
				m.push(m.uncaught)
				m.uncaught = nil
				m.setIP(f, t.catch)
			} else {
				t.state = sFinally
				m.setIP(f, t.finally)
			}
			return
		}
		pop++
	}
	fault("unhandled exception")
}

func (m *Machine) throwMsg(s string) { m.throw(mkBytes([]byte(s))) }

func (m *Machine) call(pos int) {
	if len(m.frames) >= MaxInvocations {
		fault("invocation stack overflow")
	}
	nf := &frame{}
	m.setIP(nf, pos)
	m.frames = append(m.frames, nf)
}

func slotLoad(s []*Item, i int) *Item {
	if s == nil {
		fault("slot not initialised")
	}
	if i < 0 || i >= len(s) {
		fault("slot index out of range")
	}
	return s[i]
}

func (m *Machine) slotStore(s []*Item, i int) {
	if s == nil {
		fault("slot not initialised")
	}
	if i < 0 || i >= len(s) {
		fault("slot index out of range")
	}
	s[i] = m.pop()
}

func nulls(n int) []*Item {
	r := make([]*Item, n)
	for i := range r {
		r[i] = theNull
	}
	return r
}

func (m *Machine) exec(f *frame, ip int, op Op, arg []byte) {
	switch {
	case op <= PUSHINT256:
		m.push(&Item{K: KInt, I: leToInt(arg)})
		return
	case op >= PUSHM1 && op <= PUSH16:
		m.push(mkSmall(int(op) - int(PUSH0)))
		return
	case op >= LDSFLD0 && op < LDSFLD:
		m.push(slotLoad(m.static, int(op-LDSFLD0)))
		return
	case op >= STSFLD0 && op < STSFLD:
		m.slotStore(m.static, int(op-STSFLD0))
		return
	case op >= LDLOC0 && op < LDLOC:
		m.push(slotLoad(f.locals, int(op-LDLOC0)))
		return
	case op >= STLOC0 && op < STLOC:
		m.slotStore(f.locals, int(op-STLOC0))
		return
	case op >= LDARG0 && op < LDARG:
		m.push(slotLoad(f.args, int(op-LDARG0)))
		return
	case op >= STARG0 && op < STARG:
		m.slotStore(f.args, int(op-STARG0))
		return
	}
	switch op {
	case PUSHT:
		m.push(theTrue)
	case PUSHF:
		m.push(theFalse)
	case PUSHNULL:
		m.push(theNull)
	case PUSHDATA1, PUSHDATA2, PUSHDATA4:
		m.push(mkBytes(arg))
	case PUSHA:
		pos := ip + int(le(arg))
		if pos < 0 || pos > len(m.Script) {
			fault("PUSHA position out of range")
		}
		m.push(&Item{K: KPointer, Pos: pos})

	// ---- control
	case NOP:
	case JMP, JMPL:
		m.jump(f, ip+int(le(arg)))
	case JMPIF, JMPIFL, JMPIFNOT, JMPIFNOTL:
		c := m.popBool()
		if op == JMPIFNOT || op == JMPIFNOTL {
			c = !c
		}
		m.condJump(f, ip, arg, c)
	case JMPEQ, JMPEQL, JMPNE, JMPNEL, JMPGT, JMPGTL, JMPGE, JMPGEL, JMPLT, JMPLTL, JMPLE, JMPLEL:
		b := m.popInt()
		a := m.popInt()
		c := a.Cmp(b)
		var t bool
		switch op {
		case JMPEQ, JMPEQL:
			t = c == 0
		case JMPNE, JMPNEL:
			t = c != 0
		case JMPGT, JMPGTL:
			t = c > 0
		case JMPGE, JMPGEL:
			t = c >= 0
		case JMPLT, JMPLTL:
			t = c < 0
		default:
			t = c <= 0
		}
		m.condJump(f, ip, arg, t)
	case CALL, CALLL:
		m.call(ip + int(le(arg)))
	case CALLA:
		p := m.pop()
		if p.K != KPointer {
			fault("CALLA operand is not a pointer")
		}
		m.call(p.Pos) // single-script runs: the pointer always belongs to this script
	case CALLT:
		discard("CALLT")
	case SYSCALL:
		discard("SYSCALL")
	case ABORT:
		fault("ABORT")
	case ABORTMSG:
		msg := m.pop()
		_ = span(msg)
		fault("ABORTMSG")
	case ASSERT:
		if !m.popBool() {
			fault("ASSERT failed")
		}
	case ASSERTMSG:
		msg := m.pop()
		if !validUTF8(span(msg)) { // GetString() is evaluated before the condition
			fault("ASSERTMSG message is not valid UTF-8")
		}
		if !m.popBool() {
			fault("ASSERTMSG failed")
		}
	case THROW:
		m.throw(m.pop())
	case TRY, TRYL:
		var co, fo int
		if op == TRY {
			co, fo = int(int8(arg[0])), int(int8(arg[1]))
		} else {
			co, fo = int(le(arg[:4])), int(le(arg[4:]))
		}
		if co == 0 && fo == 0 {
			fault("TRY without catch and finally")
		}
		if len(f.try) >= MaxTryNesting {
			fault("TRY nesting too deep")
		}
		// The reference does not validate the handler positions here: a bad
		// position faults only when control is transferred to it, and a
		// negative position reads as "no such handler" (HasCatch / HasFinally
		// are "pointer >= 0").
		t := &tryCtx{catch: -1, finally: -1, end: -1}
		if co != 0 {
			t.catch = ip + co
		}
		if fo != 0 {
			t.finally = ip + fo
		}
		if (co != 0 && (t.catch < 0 || t.catch > len(m.Script))) || (fo != 0 && (t.finally < 0 || t.finally > len(m.Script))) {
			m.Tag = "try-handler-position-out-of-range"
		}
		f.try = append(f.try, t)
	case ENDTRY, ENDTRYL:
		if len(f.try) == 0 {
			fault("ENDTRY without TRY")
		}
		t := f.try[len(f.try)-1]
		if t.state == sFinally {
			fault("ENDTRY in a finally block")
		}
		end := ip + int(le(arg))
		if t.finally >= 0 {
			// the end position is only stored here; it is validated when
			// ENDFINALLY transfers control to it
			if end < 0 || end > len(m.Script) {
				m.Tag = "endtry-end-position-out-of-range"
			}
			t.state = sFinally
			t.end = end
			m.setIP(f, t.finally)
		} else {
			f.try = f.try[:len(f.try)-1]
			m.setIP(f, end)
		}
	case ENDFINALLY:
		if len(f.try) == 0 {
			if m.uncaught != nil {
				m.Tag = "endfinally-empty-trystack-pending-exception"
			}
			fault("ENDFINALLY without TRY")
		}
		t := f.try[len(f.try)-1]
		f.try = f.try[:len(f.try)-1]
		if m.uncaught == nil {
			m.setIP(f, t.end)
		} else {
			if t.state != sFinally {
				m.Tag = "endfinally-outside-finally-pending-exception"
			}
			m.throw(m.uncaught)
		}
	case RET:
		m.frames = m.frames[:len(m.frames)-1]
		if len(m.frames) == 0 {
			m.State = Halt
		}

	// ---- stack
	case DEPTH:
		m.push(mkSmall(len(m.stack)))
	case DROP:
		m.pop()
	case NIP:
		m.remove(1)
	case XDROP:
		n := m.popInt32()
		if n < 0 {
			fault("negative index")
		}
		m.remove(n)
	case CLEAR:
		m.stack = m.stack[:0]
	case DUP:
		m.push(m.peek(0))
	case OVER:
		m.push(m.peek(1))
	case PICK:
		n := m.popInt32()
		if n < 0 {
			fault("negative index")
		}
		m.push(m.peek(n))
	case TUCK:
		if len(m.stack) < 2 {
			fault("TUCK needs two items")
		}
		t := m.peek(0)
		i := len(m.stack) - 2
		m.stack = append(m.stack, nil)
		copy(m.stack[i+1:], m.stack[i:])
		m.stack[i] = t
	case SWAP:
		m.push(m.remove(1))
	case ROT:
		m.push(m.remove(2))
	case ROLL:
		n := m.popInt32()
		if n < 0 {
			fault("negative index")
		}
		if n > 0 {
			m.push(m.remove(n))
		} else if len(m.stack) == 0 {
			m.Tag = "roll-0-on-empty-stack" // n == 0 returns before the stack is looked at
		}
	case REVERSE3, REVERSE4, REVERSEN:
		n := 3
		if op == REVERSE4 {
			n = 4
		} else if op == REVERSEN {
			n = m.popInt32()
		}
		if n < 0 || n > len(m.stack) {
			fault("reverse beyond the stack")
		}
		s := m.stack[len(m.stack)-n:]
		for i, j := 0, len(s)-1; i < j; i, j = i+1, j-1 {
			s[i], s[j] = s[j], s[i]
		}

	// ---- slots
	case INITSSLOT:
		if m.static != nil {
			fault("static slot already initialised")
		}
		if arg[0] == 0 {
			fault("INITSSLOT 0")
		}
		m.static = nulls(int(arg[0]))
	case INITSLOT:
		if f.locals != nil || f.args != nil {
			fault("slots already initialised")
		}
		if arg[0] == 0 && arg[1] == 0 {
			fault("INITSLOT 0 0")
		}
		if arg[0] > 0 {
			f.locals = nulls(int(arg[0]))
		}
		if arg[1] > 0 {
			a := make([]*Item, arg[1])
			for i := range a {
				a[i] = m.pop()
			}
			f.args = a
		}
	case LDSFLD:
		m.push(slotLoad(m.static, int(arg[0])))
	case STSFLD:
		m.slotStore(m.static, int(arg[0]))
	case LDLOC:
		m.push(slotLoad(f.locals, int(arg[0])))
	case STLOC:
		m.slotStore(f.locals, int(arg[0]))
	case LDARG:
		m.push(slotLoad(f.args, int(arg[0])))
	case STARG:
		m.slotStore(f.args, int(arg[0]))

	// ---- splice
	case NEWBUFFER:
		n := m.popInt32()
		if n < 0 || n > MaxItemSize {
			fault("buffer size out of range")
		}
		m.push(mkBuffer(make([]byte, n)))
	case MEMCPY:
		n := m.popInt32()
		if n < 0 {
			fault("negative count")
		}
		si := m.popInt32()
		if si < 0 {
			fault("negative source index")
		}
		src := span(m.pop())
		if si+n > len(src) {
			fault("source range beyond the data")
		}
		di := m.popInt32()
		if di < 0 {
			fault("negative destination index")
		}
		dst := m.pop()
		if dst.K != KBuffer {
			fault("destination is not a buffer")
		}
		if di+n > len(dst.D) {
			fault("destination range beyond the buffer")
		}
		copy(dst.D[di:], src[si:si+n])
	case CAT:
		b := span(m.pop())
		a := span(m.pop())
		if len(a)+len(b) > MaxItemSize {
			fault("concatenation too long")
		}
		r := make([]byte, 0, len(a)+len(b))
		r = append(append(r, a...), b...)
		m.push(mkBuffer(r))
	case SUBSTR:
		n := m.popInt32()
		if n < 0 {
			fault("negative count")
		}
		i := m.popInt32()
		if i < 0 {
			fault("negative index")
		}
		s := span(m.pop())
		if i+n > len(s) {
			fault("substring beyond the data")
		}
		m.push(mkBuffer(append([]byte{}, s[i:i+n]...)))
	case LEFT:
		n := m.popInt32()
		if n < 0 {
			fault("negative count")
		}
		s := span(m.pop())
		if n > len(s) {
			fault("count beyond the data")
		}
		m.push(mkBuffer(append([]byte{}, s[:n]...)))
	case RIGHT:
		n := m.popInt32()
		if n < 0 {
			fault("negative count")
		}
		s := span(m.pop())
		if n > len(s) {
			fault("count beyond the data")
		}
		m.push(mkBuffer(append([]byte{}, s[len(s)-n:]...)))

	// ---- bitwise / equality
	case INVERT:
		m.push(mkInt(new(big.Int).Not(m.popInt())))
	case AND, OR, XOR:
		b := m.popInt()
		a := m.popInt()
		r := new(big.Int)
		switch op {
		case AND:
			r.And(a, b)
		case OR:
			r.Or(a, b)
		default:
			r.Xor(a, b)
		}
		m.push(mkInt(r))
	case EQUAL, NOTEQUAL:
		b := m.pop()
		a := m.pop()
		r, zone, why := equalItems(a, b)
		if zone {
			discard("comparison-limit-zone")
		}
		if r == eqFault {
			m.Tag = why
			fault("comparison exceeds the limits")
		}
		m.push(mkBool((r == eqTrue) == (op == EQUAL)))

	// ---- arithmetic
	case SIGN:
		m.push(mkSmall(m.popInt().Sign()))
	case ABS:
		m.push(mkInt(new(big.Int).Abs(m.popInt())))
	case NEGATE:
		m.push(mkInt(new(big.Int).Neg(m.popInt())))
	case INC:
		m.push(mkInt(new(big.Int).Add(m.popInt(), big.NewInt(1))))
	case DEC:
		m.push(mkInt(new(big.Int).Sub(m.popInt(), big.NewInt(1))))
	case ADD, SUB, MUL, DIV, MOD:
		b := m.popInt()
		a := m.popInt()
		r := new(big.Int)
		switch op {
		case ADD:
			r.Add(a, b)
		case SUB:
			r.Sub(a, b)
		case MUL:
			r.Mul(a, b)
		case DIV: // truncated toward zero
			if b.Sign() == 0 {
				fault("division by zero")
			}
			r.Quo(a, b)
		case MOD: // remainder with the sign of the dividend
			if b.Sign() == 0 {
				fault("division by zero")
			}
			r.Rem(a, b)
		}
		m.push(mkInt(r))
	case POW:
		e := m.popInt32()
		if e < 0 || e > MaxShift {
			fault("exponent out of [0,256]")
		}
		a := m.popInt()
		m.push(mkInt(new(big.Int).Exp(a, big.NewInt(int64(e)), nil)))
	case SQRT:
		a := m.popInt()
		if a.Sign() < 0 {
			fault("square root of a negative")
		}
		m.push(mkInt(new(big.Int).Sqrt(a)))
	case MODMUL:
		mod := m.popInt()
		b := m.popInt()
		a := m.popInt()
		if mod.Sign() == 0 {
			fault("division by zero")
		}
		r := new(big.Int).Mul(a, b)
		m.push(mkInt(r.Rem(r, mod)))
	case MODPOW:
		mod := m.popInt()
		e := m.popInt()
		a := m.popInt()
		m.push(mkInt(modPow(a, e, mod)))
	case SHL, SHR:
		s := m.popInt32()
		if s < 0 || s > MaxShift {
			fault("shift out of [0,256]")
		}
		// Since the Gorgon hardfork (neo-vm#543) a zero shift is no longer a
		// no-op: the operand is popped and pushed back as an Integer like for
		// any other shift.
		a := m.popInt()
		r := new(big.Int)
		if op == SHL {
			r.Lsh(a, uint(s))
		} else {
			r.Rsh(a, uint(s)) // arithmetic shift = floor division by 2^s
		}
		m.push(mkInt(r))
	case NOT:
		m.push(mkBool(!m.popBool()))
	case BOOLAND, BOOLOR:
		b := m.popBool()
		a := m.popBool()
		if op == BOOLAND {
			m.push(mkBool(a && b))
		} else {
			m.push(mkBool(a || b))
		}
	case NZ:
		m.push(mkBool(m.popInt().Sign() != 0))
	case NUMEQUAL, NUMNOTEQUAL:
		b := m.popInt()
		a := m.popInt()
		m.push(mkBool((a.Cmp(b) == 0) == (op == NUMEQUAL)))
	case LT, LE, GT, GE:
		b := m.pop()
		a := m.pop()
		if a.K == KNull || b.K == KNull {
			m.push(theFalse)
			break
		}
		c := integer(a).Cmp(integer(b))
		var r bool
		switch op {
		case LT:
			r = c < 0
		case LE:
			r = c <= 0
		case GT:
			r = c > 0
		default:
			r = c >= 0
		}
		m.push(mkBool(r))
	case MIN, MAX:
		b := m.popInt()
		a := m.popInt()
		if (a.Cmp(b) <= 0) == (op == MIN) {
			m.push(mkInt(a))
		} else {
			m.push(mkInt(b))
		}
	case WITHIN:
		b := m.popInt()
		a := m.popInt()
		x := m.popInt()
		m.push(mkBool(a.Cmp(x) <= 0 && x.Cmp(b) < 0))

	// ---- compound
	case PACKMAP:
		n := m.popInt32()
		if n < 0 || n*2 > len(m.stack) {
			fault("PACKMAP size out of range")
		}
		mp := &Item{K: KMap}
		for i := 0; i < n; i++ {
			k := m.pop()
			primitiveKey(k)
			v := m.pop()
			mapKeySize(k)
			if j := mp.mapIndex(k); j >= 0 {
				mp.M[j].V = v
			} else {
				mp.M = append(mp.M, MapEntry{k, v})
			}
		}
		m.push(mp)
	case PACK, PACKSTRUCT:
		n := m.popInt32()
		if n < 0 || n > len(m.stack) {
			fault("PACK size out of range")
		}
		r := &Item{K: KArray, L: make([]*Item, n)}
		if op == PACKSTRUCT {
			r.K = KStruct
		}
		for i := 0; i < n; i++ {
			r.L[i] = m.pop() // no struct copy here
		}
		m.push(r)
	case UNPACK:
		c := m.pop()
		switch c.K {
		case KMap:
			for i := len(c.M) - 1; i >= 0; i-- {
				m.push(c.M[i].V)
				m.push(c.M[i].K)
			}
			m.push(mkSmall(len(c.M)))
		case KArray, KStruct:
			for i := len(c.L) - 1; i >= 0; i-- {
				m.push(c.L[i])
			}
			m.push(mkSmall(len(c.L)))
		default:
			fault("UNPACK of a non-compound")
		}
	case NEWARRAY0:
		m.push(&Item{K: KArray})
	case NEWSTRUCT0:
		m.push(&Item{K: KStruct})
	case NEWMAP:
		m.push(&Item{K: KMap})
	case NEWARRAY, NEWSTRUCT, NEWARRAYT:
		n := m.popInt32()
		if n < 0 || n > MaxStackItems {
			fault("array size out of range")
		}
		fill := theNull
		if op == NEWARRAYT {
			if !typeDefined(arg[0]) {
				fault("undefined item type")
			}
			switch arg[0] {
			case TBoolean:
				fill = theFalse
			case TInteger:
				fill = mkSmall(0)
			case TByteStr:
				fill = mkBytes([]byte{})
			}
		}
		r := &Item{K: KArray, L: make([]*Item, n)}
		if op == NEWSTRUCT {
			r.K = KStruct
		}
		for i := range r.L {
			r.L[i] = fill
		}
		m.push(r)
	case SIZE:
		x := m.pop()
		switch {
		case x.K == KArray || x.K == KStruct:
			m.push(mkSmall(len(x.L)))
		case x.K == KMap:
			m.push(mkSmall(len(x.M)))
		case x.primitive() || x.K == KBuffer:
			m.push(mkSmall(len(span(x))))
		default:
			fault("SIZE of an item without size")
		}
	case HASKEY:
		k := m.pop()
		primitiveKey(k)
		x := m.pop()
		switch x.K {
		case KArray, KStruct, KBuffer, KBytes:
			i := int32of(integer(k))
			// Gorgon: an index beyond the item size limit faults instead of
			// answering false (neo-go docs/node-configuration.md, Gorgon row).
			if i < 0 || i >= MaxItemSize {
				fault("HASKEY index out of range")
			}
			if x.K == KArray || x.K == KStruct {
				m.push(mkBool(i < len(x.L)))
			} else {
				m.push(mkBool(i < len(x.D)))
			}
		case KMap:
			mapKeySize(k)
			m.push(mkBool(x.mapIndex(k) >= 0))
		default:
			fault("HASKEY on a wrong type")
		}
	case KEYS:
		x := m.pop()
		if x.K != KMap {
			fault("KEYS of a non-map")
		}
		r := &Item{K: KArray}
		for _, e := range x.M {
			r.L = append(r.L, e.K)
		}
		m.push(r)
	case VALUES:
		x := m.pop()
		r := &Item{K: KArray}
		switch x.K {
		case KArray, KStruct:
			for _, e := range x.L {
				r.L = append(r.L, cloneIfStruct(e))
			}
		case KMap:
			for _, e := range x.M {
				r.L = append(r.L, cloneIfStruct(e.V))
			}
		default:
			fault("VALUES of a non-collection")
		}
		m.push(r)
	case PICKITEM:
		k := m.pop()
		primitiveKey(k)
		x := m.pop()
		switch {
		case x.K == KArray || x.K == KStruct:
			i := int32of(integer(k))
			if i < 0 || i >= len(x.L) {
				m.throwMsg(fmt.Sprintf("The value %d is out of range.", i))
				return
			}
			m.push(x.L[i])
		case x.K == KMap:
			mapKeySize(k)
			j := x.mapIndex(k)
			if j < 0 {
				m.throwMsg("Key not found in Map")
				return
			}
			m.push(x.M[j].V)
		case x.primitive() || x.K == KBuffer:
			d := span(x)
			i := int32of(integer(k))
			if i < 0 || i >= len(d) {
				m.throwMsg(fmt.Sprintf("The value %d is out of range.", i))
				return
			}
			m.push(mkSmall(int(d[i])))
		default:
			fault("PICKITEM on a wrong type")
		}
	case APPEND:
		v := m.pop()
		x := m.pop()
		if x.K != KArray && x.K != KStruct {
			fault("APPEND to a non-array")
		}
		v = cloneIfStruct(v)
		if v.compound() && reaches(v, x, map[*Item]bool{}) {
			discard("cycle")
		}
		x.L = append(x.L, v)
	case SETITEM:
		v := cloneIfStruct(m.pop())
		k := m.pop()
		primitiveKey(k)
		x := m.pop()
		switch x.K {
		case KArray, KStruct:
			i := int32of(integer(k))
			if i < 0 || i >= len(x.L) {
				m.throwMsg(fmt.Sprintf("The value %d is out of range.", i))
				return
			}
			if v.compound() && reaches(v, x, map[*Item]bool{}) {
				discard("cycle")
			}
			x.L[i] = v
		case KMap:
			mapKeySize(k)
			if v.compound() && reaches(v, x, map[*Item]bool{}) {
				discard("cycle")
			}
			if j := x.mapIndex(k); j >= 0 {
				x.M[j].V = v
			} else {
				x.M = append(x.M, MapEntry{k, v})
			}
		case KBuffer:
			i := int32of(integer(k))
			if i < 0 || i >= len(x.D) {
				m.throwMsg(fmt.Sprintf("The value %d is out of range.", i))
				return
			}
			if !v.primitive() {
				fault("buffer element is not a primitive")
			}
			b := int32of(integer(v))
			if b < -128 || b > 255 {
				fault("buffer element does not fit a byte")
			}
			x.D[i] = byte(b)
		default:
			fault("SETITEM on a wrong type")
		}
	case REVERSEITEMS:
		x := m.pop()
		switch x.K {
		case KArray, KStruct:
			for i, j := 0, len(x.L)-1; i < j; i, j = i+1, j-1 {
				x.L[i], x.L[j] = x.L[j], x.L[i]
			}
		case KBuffer:
			for i, j := 0, len(x.D)-1; i < j; i, j = i+1, j-1 {
				x.D[i], x.D[j] = x.D[j], x.D[i]
			}
		default:
			fault("REVERSEITEMS on a wrong type")
		}
	case REMOVE:
		k := m.pop()
		primitiveKey(k)
		x := m.pop()
		switch x.K {
		case KArray, KStruct:
			i := int32of(integer(k))
			if i < 0 || i >= len(x.L) {
				fault("REMOVE index out of range") // not catchable
			}
			x.L = append(x.L[:i:i], x.L[i+1:]...)
		case KMap:
			mapKeySize(k)
			if j := x.mapIndex(k); j >= 0 {
				x.M = append(x.M[:j:j], x.M[j+1:]...)
			}
		default:
			fault("REMOVE on a wrong type")
		}
	case CLEARITEMS:
		x := m.pop()
		switch x.K {
		case KArray, KStruct:
			x.L = nil
		case KMap:
			x.M = nil
		default:
			fault("CLEARITEMS on a non-compound")
		}
	case POPITEM:
		x := m.pop()
		if x.K != KArray && x.K != KStruct {
			fault("POPITEM on a non-array")
		}
		if len(x.L) == 0 {
			fault("POPITEM on an empty array")
		}
		m.push(x.L[len(x.L)-1])
		x.L = x.L[:len(x.L)-1]

	// ---- types
	case ISNULL:
		m.push(mkBool(m.pop().K == KNull))
	case ISTYPE:
		x := m.pop()
		if arg[0] == TAny || !typeDefined(arg[0]) {
			fault("ISTYPE with Any or an undefined type")
		}
		m.push(mkBool(x.K.typeCode() == arg[0]))
	case CONVERT:
		m.push(convert(m.pop(), arg[0]))
	default:
		fault("unimplemented opcode")
	}
}

// condJump performs a conditional jump. The reference evaluates the target
// only when the jump is taken.
func (m *Machine) condJump(f *frame, ip int, arg []byte, taken bool) {
	pos := ip + int(le(arg))
	if !taken {
		if pos < 0 || pos > len(m.Script) {
			m.Tag = "jump-not-taken-offset-out-of-range"
		}
		return
	}
	m.jump(f, pos)
}

// modPow is MODPOW: exponent -1 is the modular inverse (base > 0, modulus >= 2,
// result in [0, modulus)); otherwise BigInteger.ModPow, i.e. (base^exp) rem
// modulus with the sign of base^exp, exponent >= 0 and modulus != 0.
func modPow(a, e, mod *big.Int) *big.Int {
	if e.Cmp(big.NewInt(-1)) == 0 {
		if a.Sign() <= 0 {
			fault("modular inverse of a non-positive value")
		}
		if mod.Cmp(big.NewInt(2)) < 0 {
			fault("modular inverse with modulus < 2")
		}
		// extended Euclid, written out (no math/big ModInverse)
		r0, r1 := new(big.Int).Set(mod), new(big.Int).Mod(a, mod)
		s0, s1 := big.NewInt(0), big.NewInt(1)
		for r1.Sign() != 0 {
			q := new(big.Int).Quo(r0, r1)
			r0, r1 = r1, new(big.Int).Sub(r0, new(big.Int).Mul(q, r1))
			s0, s1 = s1, new(big.Int).Sub(s0, new(big.Int).Mul(q, s1))
		}
		if r0.Cmp(big.NewInt(1)) != 0 {
			fault("value and modulus are not coprime")
		}
		return s0.Mod(s0, mod)
	}
	if e.Sign() < 0 {
		fault("negative exponent")
	}
	if mod.Sign() == 0 {
		fault("division by zero")
	}
	am := new(big.Int).Abs(mod)
	ab := new(big.Int).Abs(a)
	r := new(big.Int).Exp(ab, e, am) // |a|^e mod |m|
	if a.Sign() < 0 && e.Bit(0) == 1 {
		r.Neg(r)
	}
	return r
}

// convert is StackItem.ConvertTo.
func convert(x *Item, t byte) *Item {
	switch x.K {
	case KNull:
		if t == TAny || !typeDefined(t) {
			fault("Null converted to Any or an undefined type")
		}
		return x
	case KBool, KInt, KBytes:
		if t == x.K.typeCode() {
			return x
		}
		switch t {
		case TInteger:
			return mkInt(integer(x))
		case TByteStr:
			return mkBytes(span(x))
		case TBuffer:
			return mkBuffer(append([]byte{}, span(x)...))
		case TBoolean:
			return mkBool(boolean(x))
		}
	case KBuffer:
		switch t {
		case TBuffer:
			return x
		case TInteger:
			if len(x.D) > MaxIntegerBytes {
				fault("buffer longer than 32 bytes converted to integer")
			}
			return mkInt(leToInt(x.D))
		case TByteStr:
			return mkBytes(append([]byte{}, x.D...))
		case TBoolean:
			return theTrue
		}
	case KArray:
		switch t {
		case TArray:
			return x
		case TStruct:
			return &Item{K: KStruct, L: append([]*Item{}, x.L...)}
		case TBoolean:
			return theTrue
		}
	case KStruct:
		switch t {
		case TStruct:
			return x
		case TArray:
			return &Item{K: KArray, L: append([]*Item{}, x.L...)}
		case TBoolean:
			return theTrue
		}
	case KMap:
		switch t {
		case TMap:
			return x
		case TBoolean:
			return theTrue
		}
	case KPointer:
		switch t {
		case TPointer:
			return x
		case TBoolean:
			return theTrue
		}
	}
	fault("invalid conversion")
	return nil
}

// Package ev is the evidence/verdict recorder shared by all checks.
//
// A check (a go test binary) creates one Run, reports every explored case with
// a coverage signature, reports violations with a *specific* signature and a
// witness, and calls Finish, which writes the result file the ./check driver
// turns into evidence/<id>.json and VIOLATION / KNOWN-FINDING lines.
package ev

import (
	"crypto/sha256"
	"encoding/binary"
	"encoding/json"
	"fmt"
	"os"
	"path/filepath"
	"runtime/pprof"
	"sort"
	"strconv"
	"sync"
	"time"
)

// Violation is one refuted case.
type Violation struct {
	Sig     string `json:"sig"`    // normalised class, matched against known_findings.json
	Detail  string `json:"detail"` // human readable first difference
	Replay  string `json:"replay"` // path of the witness file
	Count   int    `json:"count"`  // how many cases hit this signature
	CaseID  string `json:"case_id"`
	witness any
}

// Result is what the binary hands to the driver.
type Result struct {
	Property     string           `json:"property"`
	Tier         string           `json:"tier"`
	Seed         int64            `json:"seed"`
	Evaluations  int64            `json:"evaluations"`
	Distinct     int              `json:"distinct_nontrivial"`
	Rule         string           `json:"rule"`
	Samples      []any            `json:"samples"`
	Observed     map[string]int64 `json:"observed"`
	Notes        map[string]any   `json:"notes,omitempty"`
	Violations   []*Violation     `json:"violations"`
	Inconclusive []string         `json:"inconclusive"`
	Assumptions  []string         `json:"assumptions"`
	Exhaustive   bool             `json:"exhaustive,omitempty"`
	WallS        float64          `json:"wall_s"`
	Completed    bool             `json:"completed"`
}

// Run accumulates one check execution. All methods are safe for concurrent use.
type Run struct {
	mu       sync.Mutex
	res      Result
	sigs     map[[16]byte]struct{}
	vio      map[string]*Violation
	start    time.Time
	outDir   string
	maxSamp  int
	only     string
	replayIn map[string]any
}

// Tier returns "quick" or "thorough".
func Tier() string {
	t := os.Getenv("VERIF_TIER")
	if t != "thorough" {
		return "quick"
	}
	return t
}

// Seed returns VERIF_SEED (default 1).
func Seed() int64 {
	s, err := strconv.ParseInt(os.Getenv("VERIF_SEED"), 10, 64)
	if err != nil {
		return 1
	}
	return s
}

// Pick returns q for the quick tier and t for thorough.
func Pick(q, t int) int {
	if Tier() == "thorough" {
		return t
	}
	return q
}

// Start begins a run for property prop; rule describes how cases are
// generated and what makes one distinct / non-trivial.
func Start(prop, rule string) *Run {
	r := &Run{sigs: map[[16]byte]struct{}{}, vio: map[string]*Violation{}, start: time.Now(), maxSamp: 6}
	r.res.Property = prop
	r.res.Tier = Tier()
	r.res.Seed = Seed()
	r.res.Rule = rule
	r.res.Observed = map[string]int64{}
	r.res.Notes = map[string]any{}
	r.outDir = os.Getenv("VERIF_OUT")
	if r.outDir == "" {
		r.outDir = os.TempDir()
	}
	if hp := os.Getenv("VERIF_HEAPPROF"); hp != "" { // development aid: heap profile every 20 s
		go func() {
			for i := 0; ; i++ {
				time.Sleep(20 * time.Second)
				if f, err := os.Create(fmt.Sprintf("%s.%d", hp, i%2)); err == nil {
					_ = pprof.WriteHeapProfile(f)
					f.Close()
				}
				if f, err := os.Create(fmt.Sprintf("%s.goroutines.%d", hp, i%2)); err == nil {
					_ = pprof.Lookup("goroutine").WriteTo(f, 1)
					f.Close()
				}
			}
		}()
	}
	r.only = os.Getenv("VERIF_ONLY_CASE")
	if p := os.Getenv("VERIF_REPLAY"); p != "" {
		if b, err := os.ReadFile(p); err == nil {
			var m map[string]any
			if json.Unmarshal(b, &m) == nil {
				r.replayIn = m
				if c, ok := m["case_id"].(string); ok && r.only == "" {
					r.only = c
				}
			}
		}
	}
	return r
}

// Want reports whether case id should be executed (replay filter).
func (r *Run) Want(id string) bool { return r.only == "" || r.only == id }

// Replaying returns the replay file content when the run is a replay.
func (r *Run) Replaying() map[string]any { return r.replayIn }

// Case records one explored case. sig is the coverage signature deciding
// distinctness; nontrivial says whether the monitored mechanism was reached.
func (r *Run) Case(sig string, nontrivial bool) {
	h := sha256.Sum256([]byte(sig))
	var k [16]byte
	copy(k[:], h[:16])
	r.mu.Lock()
	r.res.Evaluations++
	if nontrivial {
		if _, ok := r.sigs[k]; !ok {
			r.sigs[k] = struct{}{}
		}
	}
	r.mu.Unlock()
}

// CaseN records n evaluations sharing one signature (used by workers that
// aggregate locally).
func (r *Run) CaseN(sig string, nontrivial bool, n int64) {
	h := sha256.Sum256([]byte(sig))
	var k [16]byte
	copy(k[:], h[:16])
	r.mu.Lock()
	r.res.Evaluations += n
	if nontrivial {
		r.sigs[k] = struct{}{}
	}
	r.mu.Unlock()
}

// Sample keeps v as one of the written-out cases (first few only).
func (r *Run) Sample(v any) {
	r.mu.Lock()
	if len(r.res.Samples) < r.maxSamp {
		r.res.Samples = append(r.res.Samples, v)
	}
	r.mu.Unlock()
}

// Obs adds n to the named observation counter.
func (r *Run) Obs(name string, n int64) {
	r.mu.Lock()
	r.res.Observed[name] += n
	r.mu.Unlock()
}

// ObsMax keeps the maximum of the named gauge.
func (r *Run) ObsMax(name string, n int64) {
	r.mu.Lock()
	if n > r.res.Observed[name] {
		r.res.Observed[name] = n
	}
	r.mu.Unlock()
}

// Note stores a free-form note in the evidence.
func (r *Run) Note(name string, v any) {
	r.mu.Lock()
	r.res.Notes[name] = v
	r.mu.Unlock()
}

// Assume records an assumption / trusted base entry.
func (r *Run) Assume(s string) {
	r.mu.Lock()
	r.res.Assumptions = append(r.res.Assumptions, s)
	r.mu.Unlock()
}

// Exhaustive marks the run as a complete enumeration of a finite space.
func (r *Run) Exhaustive() { r.mu.Lock(); r.res.Exhaustive = true; r.mu.Unlock() }

// Inconclusive records that part of the run could not decide.
func (r *Run) Inconclusive(format string, a ...any) {
	r.mu.Lock()
	if len(r.res.Inconclusive) < 50 {
		r.res.Inconclusive = append(r.res.Inconclusive, fmt.Sprintf(format, a...))
	}
	r.res.Observed["inconclusive"]++
	r.mu.Unlock()
}

// Violation records a refuted case. sig must identify the *specific* failing
// shape (it is what known_findings.json lists); the first witness per sig is
// written to a replay file.
func (r *Run) Violation(sig, caseID, detail string, witness any) {
	r.mu.Lock()
	defer r.mu.Unlock()
	if v, ok := r.vio[sig]; ok {
		v.Count++
		return
	}
	v := &Violation{Sig: sig, Detail: detail, Count: 1, CaseID: caseID}
	h := sha256.Sum256([]byte(sig))
	name := fmt.Sprintf("%s-%s-seed%d-%x.json", r.res.Property, r.res.Tier, r.res.Seed, h[:4])
	dir := os.Getenv("VERIF_REPLAYS")
	if dir == "" {
		dir = r.outDir
	}
	p := filepath.Join(dir, name)
	b, err := json.MarshalIndent(map[string]any{
		"property": r.res.Property, "tier": r.res.Tier, "seed": r.res.Seed,
		"sig": sig, "case_id": caseID, "detail": detail, "witness": witness,
	}, "", " ")
	if err == nil {
		_ = os.MkdirAll(dir, 0o755)
		_ = os.WriteFile(p, b, 0o644)
	}
	v.Replay = p
	r.vio[sig] = v
	r.res.Violations = append(r.res.Violations, v)
}

// HasViolations reports whether any violation was recorded so far.
func (r *Run) HasViolations() bool { r.mu.Lock(); defer r.mu.Unlock(); return len(r.vio) > 0 }

// BeginCase writes the case about to run to the "last case" file so that the
// driver can attribute a process-fatal error to it.
func (r *Run) BeginCase(id string, input any) {
	p := os.Getenv("VERIF_LASTCASE")
	if p == "" {
		return
	}
	b, _ := json.Marshal(map[string]any{"property": r.res.Property, "tier": r.res.Tier, "seed": r.res.Seed, "case_id": id, "witness": input})
	_ = os.WriteFile(p, b, 0o644)
}

// Finish writes the result file.
func (r *Run) Finish() {
	r.mu.Lock()
	defer r.mu.Unlock()
	r.res.Distinct = len(r.sigs)
	r.res.WallS = time.Since(r.start).Seconds()
	r.res.Completed = true
	sort.Slice(r.res.Violations, func(i, j int) bool { return r.res.Violations[i].Sig < r.res.Violations[j].Sig })
	if r.res.Samples == nil {
		r.res.Samples = []any{}
	}
	if r.res.Violations == nil {
		r.res.Violations = []*Violation{}
	}
	if r.res.Inconclusive == nil {
		r.res.Inconclusive = []string{}
	}
	if r.res.Assumptions == nil {
		r.res.Assumptions = []string{}
	}
	b, _ := json.MarshalIndent(&r.res, "", " ")
	p := os.Getenv("VERIF_RESULT")
	if p == "" {
		p = filepath.Join(r.outDir, r.res.Property+".result.json")
	}
	if err := os.WriteFile(p, b, 0o644); err != nil {
		fmt.Fprintln(os.Stderr, "cannot write result:", err)
	}
	fmt.Printf("%s %s seed=%d: evaluations=%d distinct_nontrivial=%d violations=%d inconclusive=%d wall=%.1fs observed=%v\n",
		r.res.Property, r.res.Tier, r.res.Seed, r.res.Evaluations, r.res.Distinct, len(r.res.Violations), len(r.res.Inconclusive), r.res.WallS, r.res.Observed)
}

// Mix derives a sub-seed from the run seed and a stream id.
func Mix(seed int64, stream uint64) uint64 {
	var b [16]byte
	binary.LittleEndian.PutUint64(b[:], uint64(seed))
	binary.LittleEndian.PutUint64(b[8:], stream)
	h := sha256.Sum256(b[:])
	return binary.LittleEndian.Uint64(h[:8])
}

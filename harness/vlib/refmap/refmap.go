// Package refmap is the reference model of the layered key-value store
// (property C09): a stack of cache layers (maps with tombstones) over a base
// map, and the documented SeekRange semantics evaluated on the net effect of
// all writes. It shares no code with pkg/core/storage.
package refmap

import (
	"sort"
	"strings"
)

// Layer is one cache layer: a nil value is a tombstone.
type Layer map[string][]byte

// Stack is a base map below a list of layers (index 0 is the lowest layer).
type Stack struct {
	Base   map[string][]byte
	Layers []Layer
}

// KV is one answer element.
type KV struct {
	K string
	V []byte
}

// Range mirrors storage.SeekRange.
type Range struct {
	Prefix      []byte
	Start       []byte
	Backwards   bool
	SearchDepth int
}

// New returns an empty stack with n layers.
func New(n int) *Stack {
	s := &Stack{Base: map[string][]byte{}}
	for range n {
		s.Layers = append(s.Layers, Layer{})
	}
	return s
}

// Put records a write (v == nil: deletion) in layer li; li < 0 addresses the base.
func (s *Stack) Put(li int, k string, v []byte) {
	if li < 0 {
		if v == nil {
			delete(s.Base, k)
		} else {
			s.Base[k] = v
		}
		return
	}
	s.Layers[li][k] = v
}

// Flush moves the content of layer li into the layer (or base) below it.
func (s *Stack) Flush(li int) int {
	n := len(s.Layers[li])
	for k, v := range s.Layers[li] {
		s.Put(li-1, k, v)
	}
	s.Layers[li] = Layer{}
	return n
}

// View is the net effect seen from layer top (top < 0: the base alone) by a
// query with search depth depth: depth > 0 and not above the number of layers
// in sight restricts the view to that many topmost layers; anything else sees
// everything down to and including the base.
func (s *Stack) View(top, depth int) map[string][]byte {
	res := map[string][]byte{}
	n := top + 1
	first := 0
	if depth > 0 && depth <= n {
		first = n - depth
	} else {
		for k, v := range s.Base {
			res[k] = v
		}
	}
	for _, l := range s.Layers[first:n] {
		for k, v := range l {
			if v == nil {
				delete(res, k)
			} else {
				res[k] = v
			}
		}
	}
	return res
}

// Own is what SeekGC works on: the live entries of one store alone.
func (s *Stack) Own(li int) map[string][]byte {
	res := map[string][]byte{}
	if li < 0 {
		for k, v := range s.Base {
			res[k] = v
		}
		return res
	}
	for k, v := range s.Layers[li] {
		if v != nil {
			res[k] = v
		}
	}
	return res
}

// Drop removes an entry of one store alone (what SeekGC does for keep=false).
func (s *Stack) Drop(li int, k string) {
	if li < 0 {
		delete(s.Base, k)
		return
	}
	delete(s.Layers[li], k)
}

// Extends reports whether k properly extends Prefix+Start of a backward range
// with a non-empty Start (the keys whose membership the in-memory and the
// persistent backends decide differently in the pinned tree).
func (r Range) Extends(k string) bool {
	if !r.Backwards || len(r.Start) == 0 {
		return false
	}
	ps := string(r.Prefix) + string(r.Start)
	return len(k) > len(ps) && strings.HasPrefix(k, ps)
}

// Seek evaluates r on view. Forward: keys with the prefix that are >=
// Prefix+Start, ascending. Backward: keys with the prefix that are <=
// Prefix+Start, descending; extIncl additionally admits keys that have
// Prefix+Start as a prefix ("start from the last key that begins with
// Prefix+Start" - the behaviour of the persistent backends).
func Seek(view map[string][]byte, r Range, extIncl bool) []KV {
	p := string(r.Prefix)
	ps := p + string(r.Start)
	var keys []string
	for k := range view {
		if !strings.HasPrefix(k, p) {
			continue
		}
		if len(r.Start) > 0 {
			if !r.Backwards {
				if k < ps {
					continue
				}
			} else if k > ps && !(extIncl && strings.HasPrefix(k, ps)) {
				continue
			}
		}
		keys = append(keys, k)
	}
	sort.Strings(keys)
	if r.Backwards {
		for i, j := 0, len(keys)-1; i < j; i, j = i+1, j-1 {
			keys[i], keys[j] = keys[j], keys[i]
		}
	}
	out := make([]KV, len(keys))
	for i, k := range keys {
		out[i] = KV{K: k, V: view[k]}
	}
	return out
}

// Package mptwalk is the independent walker of the stored Merkle-Patricia trie
// nodes (raw DataMPT records) used by the node-store exactness monitors.
package mptwalk

import (
	"encoding/binary"
	"fmt"

	"github.com/nspcc-dev/neo-go/pkg/core/mpt"
	"github.com/nspcc-dev/neo-go/pkg/core/storage"
	"github.com/nspcc-dev/neo-go/pkg/io"
	"github.com/nspcc-dev/neo-go/pkg/util"
)

// Getter reads raw database records.
type Getter interface {
	Get([]byte) ([]byte, error)
}

// Occurrences walks the raw node store from root and counts, for every node
// hash, the number of paths on which it occurs (a sub-trie shared by two
// parents counts twice, and so do its children).
func Occurrences(st Getter, root util.Uint256, suffix bool) (map[util.Uint256]int, error) {
	occ := map[util.Uint256]int{}
	var rec func(h util.Uint256, mult int) error
	memo := map[util.Uint256][]util.Uint256{}
	rec = func(h util.Uint256, mult int) error {
		occ[h] += mult
		chs, ok := memo[h]
		if !ok {
			data, err := st.Get(append([]byte{byte(storage.DataMPT)}, h[:]...))
			if err != nil {
				return fmt.Errorf("node %s is missing", h.StringBE())
			}
			if suffix {
				if len(data) < 6 {
					return fmt.Errorf("node %s is too short", h.StringBE())
				}
				if data[len(data)-5] != 1 {
					return fmt.Errorf("node %s is reachable but marked inactive", h.StringBE())
				}
				data = data[:len(data)-5]
			}
			var n mpt.NodeObject
			r := io.NewBinReaderFromBuf(data)
			n.DecodeBinary(r)
			if r.Err != nil {
				return fmt.Errorf("node %s is undecodable: %w", h.StringBE(), r.Err)
			}
			for ch, paths := range mpt.GetChildrenPaths(nil, n.Node) {
				for range paths {
					chs = append(chs, ch)
				}
			}
			memo[h] = chs
		}
		for _, ch := range chs {
			if err := rec(ch, mult); err != nil {
				return err
			}
		}
		return nil
	}
	if root.Equals(util.Uint256{}) {
		return occ, nil
	}
	return occ, rec(root, 1)
}

// Seeker is a Getter that can also scan a key range.
type Seeker interface {
	Getter
	Seek(storage.SeekRange, func(k, v []byte) bool)
}

// Viol is a violation found by the walker.
type Viol struct{ Sig, Detail string }

// Exactness compares the stored nodes with what the latest root needs.
func Exactness(st Seeker, root util.Uint256, latestOnly, gc bool, height uint32, obs func(active, inactive int)) *Viol {
	occ, err := Occurrences(st, root, true)
	if err != nil {
		return &Viol{"reachable-node-unusable", err.Error()}
	}
	var v *Viol
	active, inactive := 0, 0
	st.Seek(storage.SeekRange{Prefix: []byte{byte(storage.DataMPT)}}, func(k, val []byte) bool {
		var h util.Uint256
		copy(h[:], k[1:])
		if len(val) < 5 {
			v = &Viol{"stored-node-without-counter", h.StringBE()}
			return false
		}
		cnt := int(binary.LittleEndian.Uint32(val[len(val)-4:]))
		if val[len(val)-5] == 1 {
			active++
			if occ[h] != cnt {
				v = &Viol{"stored-count-differs-from-occurrences", fmt.Sprintf("node %s stored=%d occurs=%d", h.StringBE()[:8], cnt, occ[h])}
				return false
			}
			delete(occ, h)
			return true
		}
		inactive++
		switch {
		case occ[h] != 0:
			v = &Viol{"reachable-node-marked-inactive", h.StringBE()}
		case !gc:
			v = &Viol{"inactive-node-kept-without-gc-mode", h.StringBE()}
		case uint32(cnt) > height:
			v = &Viol{"inactive-height-in-the-future", fmt.Sprintf("node %s inactive since %d at height %d", h.StringBE()[:8], cnt, height)}
		}
		return v == nil
	})
	if v != nil {
		return v
	}
	for h, c := range occ {
		if c != 0 {
			return &Viol{"reachable-node-not-stored", h.StringBE()}
		}
	}
	if obs != nil {
		obs(active, inactive)
	}
	return nil
}

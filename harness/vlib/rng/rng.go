// Package rng provides seeded, reproducible generators with boundary bias.
package rng

import (
	"math/big"
	"math/rand/v2"

	"github.com/nspcc-dev/neo-go/verifharness/vlib/ev"
)

// R is a PCG stream.
type R struct{ *rand.Rand }

// New returns stream id of the run seed.
func New(stream uint64) *R {
	return &R{rand.New(rand.NewPCG(ev.Mix(ev.Seed(), stream), stream*0x9e3779b97f4a7c15+1))}
}

// NewSeed returns a stream for an explicit seed.
func NewSeed(seed int64, stream uint64) *R {
	return &R{rand.New(rand.NewPCG(ev.Mix(seed, stream), stream*0x9e3779b97f4a7c15+1))}
}

// Intn returns an int in [0,n).
func (r *R) Intn(n int) int { return r.IntN(n) }

// Bool returns a fair coin.
func (r *R) Bool() bool { return r.IntN(2) == 0 }

// Chance returns true with probability p/q.
func (r *R) Chance(p, q int) bool { return r.IntN(q) < p }

// Bytes returns n random bytes.
func (r *R) Bytes(n int) []byte {
	b := make([]byte, n)
	for i := range b {
		b[i] = byte(r.IntN(256))
	}
	return b
}

// Pick returns a random element index weighted by w.
func (r *R) Weighted(w []int) int {
	t := 0
	for _, x := range w {
		t += x
	}
	k := r.IntN(t)
	for i, x := range w {
		if k < x {
			return i
		}
		k -= x
	}
	return len(w) - 1
}

// BigBoundary returns a boundary-biased big integer around ±2^k, the VM
// integer limits and small values.
func (r *R) BigBoundary() *big.Int {
	one := big.NewInt(1)
	switch r.IntN(10) {
	case 0:
		return big.NewInt(int64(r.IntN(5) - 2))
	case 1:
		return big.NewInt(int64(r.IntN(513) - 256))
	case 2:
		return big.NewInt(r.Int64() >> uint(r.IntN(64)))
	case 3, 4, 5:
		ks := []uint{7, 8, 15, 16, 31, 32, 63, 64, 127, 128, 191, 247, 248, 254, 255, 256}
		k := ks[r.IntN(len(ks))]
		v := new(big.Int).Lsh(one, k)
		v.Add(v, big.NewInt(int64(r.IntN(5)-2)))
		if r.Bool() {
			v.Neg(v)
		}
		return v
	case 6:
		v := new(big.Int).Lsh(one, 255)
		switch r.IntN(4) {
		case 0:
			return v.Sub(v, one) // max
		case 1:
			return v.Neg(v) // min
		case 2:
			return v // max+1
		default:
			v.Neg(v)
			return v.Sub(v, one) // min-1
		}
	default:
		n := 1 + r.IntN(32)
		b := r.Bytes(n)
		v := new(big.Int).SetBytes(b)
		if r.Bool() {
			v.Neg(v)
		}
		return v
	}
}

// Len returns a boundary-biased length not above max.
func (r *R) Len(max int) int {
	c := []int{0, 1, 2, 31, 32, 33, 63, 64, 65, 255, 256, 1024, 65535, 65536, max - 1, max}
	for range 8 {
		v := c[r.IntN(len(c))]
		if v >= 0 && v <= max {
			return v
		}
	}
	return r.IntN(max + 1)
}

package vchain

import (
	"encoding/binary"
	"fmt"

	"github.com/nspcc-dev/neo-go/pkg/core/interop/interopnames"
	"github.com/nspcc-dev/neo-go/pkg/io"
	"github.com/nspcc-dev/neo-go/pkg/neotest"
	"github.com/nspcc-dev/neo-go/pkg/smartcontract"
	"github.com/nspcc-dev/neo-go/pkg/smartcontract/manifest"
	"github.com/nspcc-dev/neo-go/pkg/vm/emit"
	"github.com/nspcc-dev/neo-go/pkg/vm/opcode"
	"github.com/nspcc-dev/neo-go/pkg/vm/stackitem"
)

// The memory probes are hand-assembled methods appended to the helper
// contract. Each one obtains a byte string that the storage layer handed to
// the VM (Storage.Get, an item of Storage.Find) or hands a buffer to the
// storage layer (Storage.Put), derives a Buffer from it with one of the
// instructions that must return fresh memory, changes that Buffer in place and
// then checks inside the VM that the stored value is still what it was: the
// method returns true on a correct node whatever the backend, the flush
// schedule and the layer the value sits in. No storage write is made by the
// get / find probes, so a node whose stored bytes change under them diverges
// from its own state root as well as from the other nodes.

// AliasDerives / AliasMutators are the numbers of ways a probe derives a
// Buffer from a byte string and changes it in place.
const (
	AliasDerives  = 6
	AliasMutators = 3
)

func aliasDerive(w *io.BinWriter, d int) {
	switch d {
	case 0: // v || ""
		emit.Bytes(w, []byte{})
		emit.Opcodes(w, opcode.CAT)
	case 1:
		emit.Instruction(w, opcode.CONVERT, []byte{byte(stackitem.BufferT)})
	case 2:
		emit.Opcodes(w, opcode.DUP, opcode.SIZE, opcode.LEFT)
	case 3:
		emit.Opcodes(w, opcode.DUP, opcode.SIZE, opcode.RIGHT)
	case 4:
		emit.Opcodes(w, opcode.PUSH0, opcode.OVER, opcode.SIZE, opcode.SUBSTR)
	case 5: // "" || v
		emit.Bytes(w, []byte{})
		emit.Opcodes(w, opcode.SWAP, opcode.CAT)
	}
}

// aliasMutate changes the Buffer on top of the stack in place and leaves it there.
func aliasMutate(w *io.BinWriter, m int) {
	switch m {
	case 0: // b[0] ^= 1
		emit.Opcodes(w, opcode.DUP, opcode.PUSH0, opcode.OVER, opcode.PUSH0, opcode.PICKITEM, opcode.PUSH1, opcode.XOR, opcode.SETITEM)
	case 1:
		emit.Opcodes(w, opcode.DUP, opcode.REVERSEITEMS)
	case 2: // b[0] = 0xEE
		emit.Opcodes(w, opcode.DUP, opcode.PUSH0)
		emit.Bytes(w, []byte{0xEE})
		emit.Opcodes(w, opcode.PUSH0, opcode.PUSH1, opcode.MEMCPY)
	}
}

func aliasBS(w *io.BinWriter) {
	emit.Instruction(w, opcode.CONVERT, []byte{byte(stackitem.ByteArrayT)})
}

// aliasTail is "re-read the key on top of the stack, compare with local 0".
func aliasRecheck(w *io.BinWriter, local bool) {
	sysGet(w, local)
	emit.Bytes(w, []byte("x"))
	emit.Opcodes(w, opcode.CAT)
	aliasBS(w)
	emit.Opcodes(w, opcode.LDLOC0)
	aliasBS(w)
	emit.Opcodes(w, opcode.EQUAL, opcode.RET)
}

// sysGet reads the key on top of the stack, through the context-taking or
// the context-free (Faun) flavour of the syscall.
func sysGet(w *io.BinWriter, local bool) {
	if local {
		emit.Syscall(w, interopnames.SystemStorageLocalGet)
		return
	}
	emit.Syscall(w, interopnames.SystemStorageGetContext)
	emit.Syscall(w, interopnames.SystemStorageGet)
}

func jmpL(op opcode.Opcode, body []byte) []byte {
	var off [4]byte
	binary.LittleEndian.PutUint32(off[:], uint32(5+len(body)))
	return append(append([]byte{byte(op)}, off[:]...), body...)
}

func aliasGet(d, m int, local bool) []byte {
	body := io.NewBufBinWriter()
	emit.Opcodes(body.BinWriter, opcode.DUP)
	emit.Bytes(body.BinWriter, []byte("x"))
	emit.Opcodes(body.BinWriter, opcode.CAT, opcode.STLOC0)
	aliasDerive(body.BinWriter, d)
	aliasMutate(body.BinWriter, m)
	emit.Opcodes(body.BinWriter, opcode.DROP, opcode.LDARG0)
	aliasRecheck(body.BinWriter, local)
	w := io.NewBufBinWriter()
	emit.InitSlot(w.BinWriter, 1, 1)
	emit.Opcodes(w.BinWriter, opcode.LDARG0)
	sysGet(w.BinWriter, local)
	emit.Opcodes(w.BinWriter, opcode.DUP, opcode.ISNULL)
	w.WriteBytes(jmpL(opcode.JMPIFL, body.Bytes()))
	emit.Opcodes(w.BinWriter, opcode.DROP, opcode.PUSHT, opcode.RET)
	return w.Bytes()
}

func aliasFind(d, m int, local bool) []byte {
	body := io.NewBufBinWriter()
	emit.Syscall(body.BinWriter, interopnames.SystemIteratorValue)
	emit.Opcodes(body.BinWriter, opcode.DUP, opcode.PUSH0, opcode.PICKITEM, opcode.STLOC1, opcode.PUSH1, opcode.PICKITEM)
	emit.Opcodes(body.BinWriter, opcode.DUP)
	emit.Bytes(body.BinWriter, []byte("x"))
	emit.Opcodes(body.BinWriter, opcode.CAT, opcode.STLOC0)
	aliasDerive(body.BinWriter, d)
	aliasMutate(body.BinWriter, m)
	emit.Opcodes(body.BinWriter, opcode.DROP, opcode.LDLOC1)
	aliasRecheck(body.BinWriter, local)
	w := io.NewBufBinWriter()
	emit.InitSlot(w.BinWriter, 2, 1)
	emit.Opcodes(w.BinWriter, opcode.PUSH0, opcode.LDARG0)
	if local {
		emit.Syscall(w.BinWriter, interopnames.SystemStorageLocalFind)
	} else {
		emit.Syscall(w.BinWriter, interopnames.SystemStorageGetContext)
		emit.Syscall(w.BinWriter, interopnames.SystemStorageFind)
	}
	emit.Opcodes(w.BinWriter, opcode.DUP)
	emit.Syscall(w.BinWriter, interopnames.SystemIteratorNext)
	// JMPIF over the "nothing found" exit
	exit := []byte{byte(opcode.DROP), byte(opcode.PUSHT), byte(opcode.RET)}
	w.WriteBytes(jmpL(opcode.JMPIFL, exit))
	w.WriteBytes(body.Bytes())
	return w.Bytes()
}

func aliasPut(m int, local bool) []byte {
	w := io.NewBufBinWriter()
	emit.InitSlot(w.BinWriter, 0, 2)
	emit.Opcodes(w.BinWriter, opcode.LDARG1)
	emit.Instruction(w.BinWriter, opcode.CONVERT, []byte{byte(stackitem.BufferT)})
	emit.Opcodes(w.BinWriter, opcode.DUP, opcode.LDARG0)
	if local {
		emit.Syscall(w.BinWriter, interopnames.SystemStorageLocalPut)
	} else {
		emit.Syscall(w.BinWriter, interopnames.SystemStorageGetContext)
		emit.Syscall(w.BinWriter, interopnames.SystemStoragePut)
	}
	aliasMutate(w.BinWriter, m)
	emit.Opcodes(w.BinWriter, opcode.DROP, opcode.LDARG0)
	sysGet(w.BinWriter, local)
	aliasBS(w.BinWriter)
	emit.Opcodes(w.BinWriter, opcode.LDARG1)
	aliasBS(w.BinWriter)
	emit.Opcodes(w.BinWriter, opcode.EQUAL, opcode.RET)
	return w.Bytes()
}

// AliasGetName etc. name the probe methods.
// (local: the context-free System.Storage.Local.* syscalls, active from Faun;
// before that these probes fault on every node alike).
func AliasGetName(d, m int, local bool) string {
	return fmt.Sprintf("probe%sGet%d%d", lcl(local), d, m)
}
func AliasFindName(d, m int, local bool) string {
	return fmt.Sprintf("probe%sFind%d%d", lcl(local), d, m)
}
func AliasPutName(m int, local bool) string { return fmt.Sprintf("probe%sPut%d", lcl(local), m) }

func lcl(local bool) string {
	if local {
		return "Local"
	}
	return ""
}

// appendAliasProbes adds the probe methods to a compiled contract.
func appendAliasProbes(c *neotest.Contract) {
	script := append([]byte{}, c.NEF.Script...)
	m := *c.Manifest
	m.ABI.Methods = append([]manifest.Method{}, m.ABI.Methods...)
	add := func(name string, code []byte, params ...string) {
		md := manifest.Method{Name: name, Offset: len(script), ReturnType: smartcontract.BoolType}
		for _, p := range params {
			md.Parameters = append(md.Parameters, manifest.Parameter{Name: p, Type: smartcontract.ByteArrayType})
		}
		m.ABI.Methods = append(m.ABI.Methods, md)
		script = append(script, code...)
	}
	for _, local := range []bool{false, true} {
		for d := 0; d < AliasDerives; d++ {
			for mu := 0; mu < AliasMutators; mu++ {
				add(AliasGetName(d, mu, local), aliasGet(d, mu, local), "key")
				add(AliasFindName(d, mu, local), aliasFind(d, mu, local), "prefix")
			}
		}
		for mu := 0; mu < AliasMutators; mu++ {
			add(AliasPutName(mu, local), aliasPut(mu, local), "key", "value")
		}
	}
	nf := *c.NEF
	nf.Script = script
	nf.Checksum = nf.CalculateChecksum()
	c.NEF = &nf
	c.Manifest = &m
}

package vchain

import (
	"fmt"
	"math"
	"sort"

	"github.com/nspcc-dev/neo-go/pkg/core"
	"github.com/nspcc-dev/neo-go/pkg/core/state"
	"github.com/nspcc-dev/neo-go/pkg/util"
)

// TokenAccounts lists every account that has a GAS or NEO account record.
func TokenAccounts(bc *core.Blockchain) []util.Uint160 {
	seen := map[util.Uint160]bool{}
	for _, n := range bc.GetNatives() {
		if n.Manifest.Name != "GasToken" && n.Manifest.Name != "NeoToken" {
			continue
		}
		bc.SeekStorage(n.ID, []byte{20}, func(k, v []byte) bool {
			if len(k) == 20 {
				u, err := util.Uint160DecodeBytesBE(k)
				if err == nil {
					seen[u] = true
				}
			}
			return true
		})
	}
	var res []util.Uint160
	for u := range seen {
		res = append(res, u)
	}
	sort.Slice(res, func(i, j int) bool { return res[i].Less(res[j]) })
	return res
}

// TransferHistory renders what the node reports about the token history of acc:
// the NEP-17 transfer log (newest first, as served by the RPC) and the
// last-updated heights.
func TransferHistory(bc *core.Blockchain, acc util.Uint160, withTx bool) (string, int) {
	var lines []string
	err := bc.ForEachNEP17Transfer(acc, math.MaxUint64, func(t *state.NEP17Transfer) (bool, error) {
		tx := "nil"
		if !withTx {
			tx = "-"
		} else if t.Tx != (util.Uint256{}) {
			tx = t.Tx.StringLE()[:12]
		}
		lines = append(lines, fmt.Sprintf("asset=%d cp=%s amount=%s block=%d ts=%d tx=%s", t.Asset, t.Counterparty.StringLE()[:10], t.Amount, t.Block, t.Timestamp, tx))
		return true, nil
	})
	if err != nil {
		lines = append(lines, "error: "+err.Error())
	}
	lu, err := bc.GetTokenLastUpdated(acc)
	if err != nil {
		lines = append(lines, "last-updated error: "+err.Error())
	} else {
		var ids []int
		for id := range lu {
			ids = append(ids, int(id))
		}
		sort.Ints(ids)
		for _, id := range ids {
			lines = append(lines, fmt.Sprintf("last-updated asset=%d height=%d", id, lu[int32(id)]))
		}
	}
	s := ""
	for _, l := range lines {
		s += l + "\n"
	}
	return s, len(lines)
}

// DiffTransferHistories compares what two nodes at the same height report about
// the token history of every account with a GAS or NEO record on b. It returns
// the first difference ("" if none; withTx: container hashes are compared too,
// which only makes sense for two nodes on the same chain), the number of accounts compared and how
// many of them had more than one batch of log records.
func DiffTransferHistories(a, b *core.Blockchain, withTx bool) (string, int, int) {
	accs := TokenAccounts(b)
	multi := 0
	for _, acc := range accs {
		ha, na := TransferHistory(a, acc, withTx)
		hb, nb := TransferHistory(b, acc, withTx)
		if nb > 129 {
			multi++
		}
		if ha != hb {
			return fmt.Sprintf("account %s: %d entries on the first node, %d on the second\nfirst node:\n%s\nsecond node:\n%s", acc.StringLE(), na, nb, clipHist(ha), clipHist(hb)), len(accs), multi
		}
	}
	return "", len(accs), multi
}

func clipHist(s string) string {
	if len(s) > 1500 {
		return s[:700] + "\n...\n" + s[len(s)-700:]
	}
	return s
}

package vchain

import (
	"strings"
	"sync"
	"testing"

	"github.com/nspcc-dev/neo-go/pkg/compiler"
	"github.com/nspcc-dev/neo-go/pkg/core/native/nativehashes"
	"github.com/nspcc-dev/neo-go/pkg/crypto/keys"
	"github.com/nspcc-dev/neo-go/pkg/neotest"
	"github.com/nspcc-dev/neo-go/pkg/smartcontract"
	"github.com/nspcc-dev/neo-go/pkg/smartcontract/manifest"
	"github.com/nspcc-dev/neo-go/pkg/util"
)

// StoreSrc is the storage-heavy helper contract. It is written with plain
// for/if only (see DESIGN.md section 6 item 15).
const StoreSrc = `package st

import (
	"github.com/nspcc-dev/neo-go/pkg/interop"
	"github.com/nspcc-dev/neo-go/pkg/interop/iterator"
	"github.com/nspcc-dev/neo-go/pkg/interop/native/gas"
	"github.com/nspcc-dev/neo-go/pkg/interop/native/management"
	"github.com/nspcc-dev/neo-go/pkg/interop/native/oracle"
	"github.com/nspcc-dev/neo-go/pkg/interop/runtime"
	"github.com/nspcc-dev/neo-go/pkg/interop/storage"
)

func _deploy(data any, isUpdate bool) {
	ctx := storage.GetContext()
	if isUpdate {
		storage.Put(ctx, []byte("updated"), []byte{1})
		return
	}
	storage.Put(ctx, []byte("init"), []byte{1})
}

// Run executes steps: [0,k,v] put; [1,k] delete; [2] destroy; [3,x] notify;
// [4] panic; [5,to,amount] send GAS held by the contract; [6,prefix] delete
// every key with the prefix.
func Run(plan []any) int {
	ctx := storage.GetContext()
	n := 0
	for i := 0; i < len(plan); i++ {
		step := plan[i].([]any)
		op := step[0].(int)
		if op == 0 {
			storage.Put(ctx, step[1].([]byte), step[2].([]byte))
		} else if op == 1 {
			storage.Delete(ctx, step[1].([]byte))
		} else if op == 2 {
			management.Destroy()
		} else if op == 3 {
			runtime.Notify("E", step[1])
		} else if op == 4 {
			panic("planned failure")
		} else if op == 5 {
			gas.Transfer(runtime.GetExecutingScriptHash(), step[1].(interop.Hash160), step[2].(int), nil)
		} else if op == 6 {
			it := storage.Find(ctx, step[1].([]byte), storage.KeysOnly)
			for iterator.Next(it) {
				storage.Delete(ctx, iterator.Value(it).([]byte))
			}
		}
		n++
	}
	return n
}

// OnNEP17Payment accepts payments; data [1] makes it throw, [2, plan] runs a plan.
func OnNEP17Payment(from interop.Hash160, amount int, data any) {
	if data == nil {
		return
	}
	d := data.([]any)
	tag := d[0].(int)
	if tag == 1 {
		panic("payment refused")
	}
	if tag == 2 {
		Run(d[1].([]any))
	}
}

// AskOracle files an oracle request whose callback is OracleCB.
func AskOracle(url string, filter []byte, userData any, gasForResponse int) {
	oracle.Request(url, filter, "oracleCB", userData, gasForResponse)
}

// OracleCB is the oracle callback. It records the answer; user data [1]
// makes it throw, [2, plan] runs a plan.
func OracleCB(url string, userData any, code int, result []byte) {
	if string(runtime.GetCallingScriptHash()) != oracle.Hash {
		panic("not the oracle")
	}
	ctx := storage.GetContext()
	storage.Put(ctx, []byte("oracle"), result)
	storage.Put(ctx, []byte("oracle-code"), code)
	if userData == nil {
		return
	}
	d := userData.([]any)
	tag := d[0].(int)
	if tag == 1 {
		panic("answer refused")
	}
	if tag == 2 {
		Run(d[1].([]any))
	}
}

// Update replaces the contract code.
func Update(nef, manifest []byte) {
	management.Update(nef, manifest)
}

// Get reads one key.
func Get(k []byte) []byte {
	return storage.Get(storage.GetReadOnlyContext(), k).([]byte)
}

// Count returns the number of keys under a prefix, forward or backward.
func Count(prefix []byte, backwards bool) int {
	opts := storage.KeysOnly
	if backwards {
		opts = storage.KeysOnly | storage.Backwards
	}
	it := storage.Find(storage.GetReadOnlyContext(), prefix, opts)
	n := 0
	for iterator.Next(it) {
		n++
	}
	return n
}

// Fold concatenates keys and values under a prefix in iteration order.
func Fold(prefix []byte, backwards bool) []byte {
	opts := storage.None
	if backwards {
		opts = storage.Backwards
	}
	it := storage.Find(storage.GetReadOnlyContext(), prefix, opts)
	var r []byte
	for iterator.Next(it) {
		kv := iterator.Value(it).([]any)
		r = append(r, kv[0].([]byte)...)
		r = append(r, 0x3d)
		r = append(r, kv[1].([]byte)...)
		r = append(r, 0x3b)
	}
	return r
}
`

var (
	storeOnce sync.Once
	storeV1   *neotest.Contract
	storeV2   *neotest.Contract
)

func storeOpts(name string) *compiler.Options {
	return &compiler.Options{
		Name:               name,
		NoPermissionsCheck: true,
		NoEventsCheck:      true,
		NoStandardCheck:    true,
		Permissions:        []manifest.Permission{*manifest.NewPermission(manifest.PermissionWildcard)},
		SafeMethods:        []string{"get", "count", "fold"},
		ContractEvents: []compiler.HybridEvent{{Name: "E", Parameters: []compiler.HybridParameter{
			{Parameter: manifest.Parameter{Name: "x", Type: smartcontract.AnyType}}}}},
	}
}

// StoreContract returns a copy of the compiled helper contract (version 1 or
// 2; version 2 has one more method) under the given manifest name, as
// deployed by sender.
func StoreContract(t testing.TB, sender util.Uint160, name string, version int) *neotest.Contract {
	storeOnce.Do(func() {
		storeV1 = neotest.CompileSource(t, util.Uint160{}, strings.NewReader(StoreSrc), storeOpts("st"))
		src2 := StoreSrc + "\n// Version is only present after an update.\nfunc Version() int {\n\treturn 2\n}\n"
		storeV2 = neotest.CompileSource(t, util.Uint160{}, strings.NewReader(src2), storeOpts("st"))
		appendAliasProbes(storeV1)
		appendAliasProbes(storeV2)
	})
	base := storeV1
	if version == 2 {
		base = storeV2
	}
	m := *base.Manifest
	m.Name = name
	c := &neotest.Contract{NEF: base.NEF, Manifest: &m, DebugInfo: base.DebugInfo}
	c.Hash = contractHash(sender, c.NEF.Checksum, name)
	return c
}

// ManifestVariants is the number of manifest shapes StoreContractVariant knows.
const ManifestVariants = 6

var variantKey = func() *keys.PublicKey {
	k, err := keys.NewPrivateKeyFromHex("00000000000000000000000000000000000000000000000000000000000000aa")
	if err != nil {
		panic(err)
	}
	return k.PublicKey()
}()

// StoreContractVariant is StoreContract with one of several manifest shapes
// whose meaning differs (what the contract may call, whom it trusts), so that
// every form of the permission and trust lists goes through deployment, the
// Management cache and a restart:
//
//	0 wildcard permission (may call anything)
//	1 one permission "any contract, no methods" (may call nothing)
//	2 GAS with an empty method list, ContractManagement with a wildcard one
//	3 exact method lists for GAS and ContractManagement, a trust list
//	4 a permission for a group none of the natives belongs to (may call nothing)
//	5 no permissions at all, wildcard trusts
func StoreContractVariant(t testing.TB, sender util.Uint160, name string, version, variant int) *neotest.Contract {
	c := StoreContract(t, sender, name, version)
	m := c.Manifest
	perm := func(d manifest.PermissionDesc, wild bool, methods ...string) manifest.Permission {
		p := manifest.Permission{Contract: d}
		if wild {
			p.Methods.Restrict() // then make it a wildcard again below
			p.Methods = manifest.WildStrings{}
		} else {
			p.Methods.Restrict()
			p.Methods.Value = append([]string{}, methods...)
		}
		return p
	}
	hashDesc := func(h util.Uint160) manifest.PermissionDesc {
		return manifest.PermissionDesc{Type: manifest.PermissionHash, Value: h}
	}
	switch variant % ManifestVariants {
	case 0:
	case 1:
		m.Permissions = []manifest.Permission{perm(manifest.PermissionDesc{Type: manifest.PermissionWildcard}, false)}
	case 2:
		m.Permissions = []manifest.Permission{
			perm(hashDesc(nativehashes.GasToken), false),
			perm(hashDesc(nativehashes.ContractManagement), true),
		}
	case 3:
		m.Permissions = []manifest.Permission{
			perm(hashDesc(nativehashes.GasToken), false, "transfer"),
			perm(hashDesc(nativehashes.ContractManagement), false, "destroy", "update"),
		}
		m.Trusts.Restrict()
		m.Trusts.Value = []manifest.PermissionDesc{hashDesc(nativehashes.GasToken), {Type: manifest.PermissionGroup, Value: variantKey}}
	case 4:
		m.Permissions = []manifest.Permission{perm(manifest.PermissionDesc{Type: manifest.PermissionGroup, Value: variantKey}, true)}
	case 5:
		m.Permissions = []manifest.Permission{}
		m.Trusts = manifest.WildPermissionDescs{Wildcard: true}
	}
	return c
}

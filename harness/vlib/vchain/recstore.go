// Package vchain holds the chain-level machinery shared by the checks that run
// whole nodes: a history producer, replicas over recorded stores, and the
// observation of a node's externally visible state.
package vchain

import (
	"bytes"
	"errors"
	"path/filepath"
	"sort"
	"sync"

	"github.com/nspcc-dev/neo-go/pkg/core/storage"
	"github.com/nspcc-dev/neo-go/pkg/core/storage/dbconfig"
)

// Batch is one atomic write of the lower store: a PutChangeSet or a committed
// SeekGC pass. A nil value is a deletion.
type Batch struct {
	Puts map[string][]byte
	GC   bool
}

// RecStore wraps a storage.Store: it survives Close (so that a MemoryStore can
// be "restarted"), records every atomic batch, and can inject a delay inside
// PutChangeSet.
type RecStore struct {
	Inner storage.Store
	mu    sync.Mutex
	log   []Batch
	// Delay, when set, is called inside PutChangeSet before the data reaches
	// the inner store (the window in which MemCachedStore serves from tempstore).
	Delay func()
	// Stall, when set, is called at the very start of a batch write, before the
	// batch is recorded: a slow disk. What other goroutines write directly
	// (SeekGC) meanwhile is recorded - and lands - ahead of the stalled batch.
	Stall func()
	// Fail, when set, is asked before every batch write; true refuses the batch
	// (nothing written, an error returned), as a disk that is full or failing does.
	Fail func() bool
	// Record turns batch recording on (off by default: it costs memory).
	Record bool
	// OnBatch, when set, is called (under the recorder's lock) with the index of
	// every batch appended to the log.
	OnBatch func(idx int)
}

// NewRecStore wraps inner.
func NewRecStore(inner storage.Store, record bool) *RecStore {
	return &RecStore{Inner: inner, Record: record}
}

func (s *RecStore) Get(k []byte) ([]byte, error) { return s.Inner.Get(k) }
func (s *RecStore) Seek(r storage.SeekRange, f func(k, v []byte) bool) {
	s.Inner.Seek(r, f)
}

// ErrInjectedWriteFailure is what a refused batch write returns.
var ErrInjectedWriteFailure = errors.New("injected write failure: nothing was written")

func (s *RecStore) PutChangeSet(p, st map[string][]byte) error {
	if s.Fail != nil && s.Fail() {
		return ErrInjectedWriteFailure
	}
	if s.Stall != nil {
		s.Stall()
	}
	if s.Record {
		b := Batch{Puts: make(map[string][]byte, len(p)+len(st))}
		// Deep copies: a disk keeps the bytes it was given at write time even
		// if the node later scribbles over the slices it handed in.
		for k, v := range p {
			b.Puts[k] = cloneVal(v)
		}
		for k, v := range st {
			b.Puts[k] = cloneVal(v)
		}
		s.mu.Lock()
		s.log = append(s.log, b)
		if s.OnBatch != nil {
			s.OnBatch(len(s.log) - 1)
		}
		s.mu.Unlock()
	}
	if s.Delay != nil {
		s.Delay()
	}
	return s.Inner.PutChangeSet(p, st)
}

func cloneVal(v []byte) []byte {
	if v == nil {
		return nil
	}
	return append(make([]byte, 0, len(v)), v...)
}

func (s *RecStore) SeekGC(rng storage.SeekRange, keep func(k, v []byte) (bool, bool)) error {
	if !s.Record {
		return s.Inner.SeekGC(rng, keep)
	}
	b := Batch{Puts: map[string][]byte{}, GC: true}
	err := s.Inner.SeekGC(rng, func(k, v []byte) (bool, bool) {
		kp, cont := keep(k, v)
		if !kp {
			b.Puts[string(k)] = nil
		}
		return kp, cont
	})
	if len(b.Puts) > 0 {
		s.mu.Lock()
		s.log = append(s.log, b)
		if s.OnBatch != nil {
			s.OnBatch(len(s.log) - 1)
		}
		s.mu.Unlock()
	}
	return err
}

// Close is a no-op: the store outlives the Blockchain using it.
func (s *RecStore) Close() error { return nil }

// RealClose closes the inner store.
func (s *RecStore) RealClose() error { return s.Inner.Close() }

// Batches returns the number of batches recorded so far.
func (s *RecStore) Batches() int { s.mu.Lock(); defer s.mu.Unlock(); return len(s.log) }

// Log returns a copy of the batch log.
func (s *RecStore) Log() []Batch {
	s.mu.Lock()
	defer s.mu.Unlock()
	return append([]Batch(nil), s.log...)
}

// Flatten returns the key/value content after the first k batches.
func Flatten(log []Batch, k int) map[string][]byte {
	m := map[string][]byte{}
	for _, b := range log[:k] {
		for key, v := range b.Puts {
			if v == nil {
				delete(m, key)
			} else {
				m[key] = v
			}
		}
	}
	return m
}

// Materialize builds a fresh store of the given backend ("mem", "bolt",
// "level"; dir is used by the disk ones) holding content.
func Materialize(content map[string][]byte, backend, dir string) (storage.Store, error) {
	st, err := NewBackend(backend, dir)
	if err != nil {
		return nil, err
	}
	p, s := map[string][]byte{}, map[string][]byte{}
	for k, v := range content {
		v = cloneVal(v) // stores built from one log must not share value memory
		if k[0] == byte(storage.STStorage) || k[0] == byte(storage.STTempStorage) {
			s[k] = v
		} else {
			p[k] = v
		}
	}
	return st, st.PutChangeSet(p, s)
}

// NewBackend opens an empty store of the named backend.
func NewBackend(backend, dir string) (storage.Store, error) {
	switch backend {
	case "bolt":
		return storage.NewBoltDBStore(dbconfig.BoltDBOptions{FilePath: filepath.Join(dir, "db.bolt")})
	case "level":
		return storage.NewLevelDBStore(dbconfig.LevelDBOptions{DataDirectoryPath: filepath.Join(dir, "level")})
	default:
		return storage.NewMemoryStore(), nil
	}
}

// Dump returns the full content of a store.
func Dump(st storage.Store) map[string][]byte {
	m := map[string][]byte{}
	// an empty prefix is not supported by memory layers, so scan per first byte.
	for p := 0; p < 256; p++ {
		st.Seek(storage.SeekRange{Prefix: []byte{byte(p)}}, func(k, v []byte) bool {
			m[string(k)] = bytes.Clone(v)
			return true
		})
	}
	return m
}

// DiffDumps returns a description of the first differing key of two dumps
// (keys for which skip returns true are ignored) or "".
func DiffDumps(a, b map[string][]byte, skip func(k string) bool) string {
	keys := map[string]struct{}{}
	for k := range a {
		keys[k] = struct{}{}
	}
	for k := range b {
		keys[k] = struct{}{}
	}
	ks := make([]string, 0, len(keys))
	for k := range keys {
		ks = append(ks, k)
	}
	sort.Strings(ks)
	for _, k := range ks {
		if skip != nil && skip(k) {
			continue
		}
		va, oka := a[k]
		vb, okb := b[k]
		if oka != okb || !bytes.Equal(va, vb) {
			return sprintf("key %x: a=%x(%v) b=%x(%v)", k, va, oka, vb, okb)
		}
	}
	return ""
}

package vchain

import (
	"fmt"
	"os"
	"testing"

	"github.com/nspcc-dev/neo-go/pkg/config"
	"github.com/nspcc-dev/neo-go/pkg/core"
	"github.com/nspcc-dev/neo-go/pkg/core/storage"
)

// ReplicaCfg describes one node of a farm.
type ReplicaCfg struct {
	Name    string
	Single  bool
	Cfg     func(*config.Blockchain) // protocol settings + node-local options
	Backend string                   // mem | bolt | level
	Record  bool                     // record atomic batches
}

// Replica is a node fed with serialized blocks.
type Replica struct {
	T        testing.TB
	C        ReplicaCfg
	Store    *RecStore
	BC       *core.Blockchain
	dir      string
	SRIH     bool
	Restarts int
	Flushes  int
}

// OpenReplica creates the node on a fresh store.
func OpenReplica(t testing.TB, c ReplicaCfg) (*Replica, error) {
	r := &Replica{T: t, C: c}
	if c.Backend != "" && c.Backend != "mem" {
		d, err := os.MkdirTemp("", "replica-"+c.Name+"-")
		if err != nil {
			return nil, err
		}
		r.dir = d
	}
	st, err := NewBackend(c.Backend, r.dir)
	if err != nil {
		return nil, err
	}
	r.Store = NewRecStore(st, c.Record)
	return r, r.open()
}

// OpenReplicaOn creates the node on an existing store.
func OpenReplicaOn(t testing.TB, c ReplicaCfg, st storage.Store) (*Replica, error) {
	r := &Replica{T: t, C: c}
	if rs, ok := st.(*RecStore); ok {
		r.Store = rs
	} else {
		r.Store = NewRecStore(st, c.Record)
	}
	return r, r.open()
}

func (r *Replica) open() (err error) {
	defer func() {
		if x := recover(); x != nil {
			err = fmt.Errorf("panic while opening: %v", x)
		}
	}()
	bc, _, _, e := OpenChain(r.T, r.C.Single, r.C.Cfg, r.Store)
	if e != nil {
		return e
	}
	r.BC = bc
	r.SRIH = bc.GetConfig().StateRootInHeader
	return nil
}

// AddRaw parses and adds one serialized block.
func (r *Replica) AddRaw(raw []byte) error {
	b, err := DecodeBlock(raw, r.SRIH)
	if err != nil {
		return fmt.Errorf("decode: %w", err)
	}
	return r.BC.AddBlock(b)
}

// AddHeaderRaw records only the header of a serialized block.
func (r *Replica) AddHeaderRaw(raw []byte) error {
	b, err := DecodeBlock(raw, r.SRIH)
	if err != nil {
		return err
	}
	return r.BC.AddHeaders(&b.Header)
}

// Flush persists the in-memory layer (and lets GC run, as the Run loop does).
func (r *Replica) Flush() error { r.Flushes++; return r.BC.VerifPersist() }

// Restart stops the node gracefully and reopens it on the same database. For
// disk backends the database file is closed and reopened as well.
func (r *Replica) Restart() error {
	r.BC.Close()
	r.BC = nil // closed: a failing reopen must not leave it to be closed again
	r.Restarts++
	if r.dir != "" {
		if err := r.Store.RealClose(); err != nil {
			return err
		}
		st, err := NewBackend(r.C.Backend, r.dir)
		if err != nil {
			return err
		}
		r.Store.Inner = st
	}
	return r.open()
}

// Close stops the node and removes its files.
func (r *Replica) Close() {
	if r.BC != nil {
		r.BC.Close()
	}
	_ = r.Store.RealClose()
	if r.dir != "" {
		_ = os.RemoveAll(r.dir)
	}
}

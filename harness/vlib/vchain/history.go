package vchain

import (
	"github.com/nspcc-dev/neo-go/pkg/config"
	"github.com/nspcc-dev/neo-go/pkg/core/block"
	"github.com/nspcc-dev/neo-go/pkg/core/transaction"
	"github.com/nspcc-dev/neo-go/pkg/neotest"
	"github.com/nspcc-dev/neo-go/verifharness/vlib/rng"
	"testing"
)

// Epoch is the committee size (= epoch length in blocks) of the 4-validator test network.
const Epoch = 6

// History is a generated chain history with everything replicas need.
type History struct {
	Idx    int
	Proto  func(*config.Blockchain)
	PName  string
	P      *Producer
	Extras [][]*transaction.Transaction // Extras[i]: never-mined transactions valid when block i+1 is built
	Txs    [][]*transaction.Transaction // Txs[i]: transactions of block i+1
}

// HistoryCfg configures BuildHistory.
type HistoryCfg struct {
	Idx     int
	Blocks  int
	Proto   func(*config.Blockchain) // nil: chosen from Idx (all forks / staged forks, MaxTraceableBlocks 10)
	PName   string
	SRIH    bool
	Replay  *History // seal the same transactions into a new block stream
	Keep    bool
	Weights *Weights
	NoQuiet bool
	Echidna bool // see ProducerConfig.Echidna
	OnBlock func(p *Producer, b *block.Block)
}

// ProtoFor returns the protocol variant used for history idx.
func ProtoFor(idx int) (string, func(*config.Blockchain)) {
	base := func(c *config.Blockchain) {
		c.MaxTraceableBlocks = 10
		c.MaxValidUntilBlockIncrement = 5
	}
	if idx%7 == 5 {
		// only the older hardforks, from genesis
		stage := []string{"none", "Aspidochelone", "Cockatrice", "Echidna"}[(idx/7)%4]
		return "forks-up-to-" + stage, func(c *config.Blockchain) { PartialForks(c, stage); base(c) }
	}
	if idx%3 == 2 {
		return "staged-forks", func(c *config.Blockchain) { StagedForks(c); base(c) }
	}
	return "all-forks", func(c *config.Blockchain) { AllForks(c); base(c) }
}

// BuildHistory generates one rich history: funding, governance bootstrap
// (8 candidates, 8 voters above the turnout threshold), then seeded blocks of
// the producer's operation mix with occasional governance-quiet epochs in
// which only Policy changes candidate eligibility.
func BuildHistory(t testing.TB, hc HistoryCfg) *History {
	pname, proto := hc.PName, hc.Proto
	if proto == nil {
		pname, proto = ProtoFor(hc.Idx)
	}
	pr := proto
	if hc.SRIH {
		pr = func(c *config.Blockchain) { proto(c); c.StateRootInHeader = true }
	}
	h := &History{Idx: hc.Idx, Proto: pr, PName: pname}
	pc := ProducerConfig{Proto: pr, Users: 10, Observe: true, Keep: hc.Keep, Stream: uint64(hc.Idx)*7 + 100, Echidna: hc.Echidna}
	if hc.Weights != nil {
		pc.W = *hc.Weights
	}
	pc.TolerateReject = true
	h.P = NewProducer(t, pc)
	h.P.OnBlock = hc.OnBlock
	if h.P.Rejected != nil {
		return h
	}
	p := h.P
	baseW := p.Cfg.W
	if hc.Replay != nil {
		for i := 1; i < len(hc.Replay.Txs); i++ {
			p.AddBlock(hc.Replay.Txs[i]...)
		}
		return h
	}
	h.Txs = append(h.Txs, p.Blocks[0].Transactions)
	h.Extras = append(h.Extras, nil)
	r := rng.New(uint64(hc.Idx)*7 + 101)
	var txs []*transaction.Transaction
	for i, u := range p.Users {
		if i < 8 {
			txs = append(txs, p.Call("fund-neo-big", []neotest.Signer{p.Val}, p.NeoH, "transfer", p.Val.ScriptHash(), u.Hash(), int64(5_000_000+i*1111), nil))
		}
	}
	p.AddBlock(txs...)
	h.Txs = append(h.Txs, txs)
	h.Extras = append(h.Extras, nil)
	txs = nil
	for i, u := range p.Users {
		if i >= 2 {
			txs = append(txs, p.Call("register-candidate", []neotest.Signer{u.S}, p.NeoH, "registerCandidate", u.Acc.PublicKey().Bytes()))
		}
	}
	p.AddBlock(txs...)
	h.Txs = append(h.Txs, txs)
	h.Extras = append(h.Extras, nil)
	txs = nil
	for i, u := range p.Users {
		if i < 8 {
			txs = append(txs, p.Call("vote", []neotest.Signer{u.S}, p.NeoH, "vote", u.Hash(), p.Users[2+(i*3)%8].Acc.PublicKey().Bytes()))
		}
	}
	// Oracle and P2PNotary nodes from the start (keys the harness holds), so
	// that oracle responses and notary-assisted transactions appear in every
	// history; later designations change them.
	if sg := p.committee(); sg != nil {
		txs = append(txs,
			p.Call("designate-role", sg, p.RoleH, "designateAsRole", int64(8), []any{DetKey("role", 0).PublicKey().Bytes(), DetKey("role", 1).PublicKey().Bytes(), DetKey("role", 2).PublicKey().Bytes()}),
			p.Call("designate-role", sg, p.RoleH, "designateAsRole", int64(32), []any{DetKey("role", 1).PublicKey().Bytes(), DetKey("role", 3).PublicKey().Bytes()}))
	}
	p.AddBlock(txs...)
	h.Txs = append(h.Txs, txs)
	h.Extras = append(h.Extras, nil)
	quiet, quietAt := false, 0
	var churn *Churn
	quietW := baseW
	quietW.Vote, quietW.Candidate, quietW.NeoTransfer, quietW.Block, quietW.Payment, quietW.Fault = 0, 0, 0, 0, 0, 0
	for len(p.Raw) < hc.Blocks && p.Rejected == nil {
		var ex []*transaction.Transaction
		for range r.Intn(3) {
			u := p.Users[r.Intn(len(p.Users))]
			if !u.Blocked {
				ex = append(ex, p.Call("pool-only", []neotest.Signer{u.S}, p.GasH, "transfer", u.Hash(), p.Users[0].Hash(), int64(1+r.Intn(5)), nil))
			}
		}
		next := len(p.Raw) + 1
		if next%Epoch == 1 && !hc.NoQuiet {
			quiet = r.Intn(3) == 0
			if quiet {
				p.Cfg.W = quietW
				quietAt = next + r.Intn(Epoch-1)
			} else {
				p.Cfg.W = baseW
			}
		}
		txs := p.GenTxs()
		if quiet && next == quietAt {
			// exactly one governance-relevant transaction in the quiet epoch
			var tx *transaction.Transaction
			switch r.Intn(5) {
			case 0, 1:
				tx = p.BlockCandidate()
			case 2:
				tx = p.OpVote()
			case 3:
				tx = p.OpNeoTransfer()
			default:
				tx = p.OpCandidate()
			}
			if tx != nil {
				txs = append(txs, tx)
			}
		}
		// candidate churn script: unvote, unregister (dropped), register again,
		// vote again, and later let the voter move NEO (which claims its reward).
		if churn == nil && !quiet && r.Intn(12) == 0 {
			churn = p.NewChurn()
		}
		if churn != nil {
			tx, done := churn.Next(next)
			if tx != nil {
				txs = append(txs, tx)
			}
			if done {
				churn = nil
			}
		}
		p.AddBlock(txs...)
		h.Txs = append(h.Txs, txs)
		h.Extras = append(h.Extras, ex)
	}
	return h
}

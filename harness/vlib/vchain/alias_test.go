package vchain

import (
	"strings"
	"testing"
)

// The memory probes must run to HALT and answer true on the unchanged tree.
func TestAliasProbes(t *testing.T) {
	w := Weights{Deploy: 3, Run: 10, Alias: 12, Update: 1, Fault: 1}
	h := BuildHistory(t, HistoryCfg{Idx: 3, Blocks: 60, Weights: &w})
	defer h.P.Close()
	if h.P.Rejected != nil {
		t.Fatal(h.P.Rejected)
	}
	halt, fault := 0, 0
	for k, n := range h.P.Kinds {
		if strings.HasPrefix(k, "memory-probe:HALT") {
			halt += n
		}
		if strings.HasPrefix(k, "memory-probe:FAULT") {
			fault += n
		}
	}
	t.Logf("memory probes: %d halted, %d faulted", halt, fault)
	if halt < 10 {
		t.Fatalf("too few probes halted: %d (faulted %d)", halt, fault)
	}
}

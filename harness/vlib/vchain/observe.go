package vchain

import (
	"bytes"
	"crypto/sha256"
	"encoding/hex"
	"encoding/json"
	"fmt"
	"sort"
	"strings"

	"github.com/nspcc-dev/neo-go/pkg/core"
	"github.com/nspcc-dev/neo-go/pkg/core/native/nativehashes"
	"github.com/nspcc-dev/neo-go/pkg/core/native/noderoles"
	"github.com/nspcc-dev/neo-go/pkg/core/state"
	"github.com/nspcc-dev/neo-go/pkg/smartcontract/trigger"
	"github.com/nspcc-dev/neo-go/pkg/util"
	"github.com/nspcc-dev/neo-go/pkg/vm/stackitem"
)

func sprintf(f string, a ...any) string { return fmt.Sprintf(f, a...) }

// KV is one storage item.
type KV struct{ K, V []byte }

// ObsOpts selects what Observe collects.
type ObsOpts struct {
	MaxContractID int32          // deployed contract ids 1..MaxContractID are dumped
	KeepStorage   bool           // retain the full dump (not only digests)
	Accounts      []util.Uint160 // accounts whose balances are read through the API
	SkipBlockData bool           // do not read the tip block / AERs (pruned nodes)
}

// Observation is the externally visible state of a node at its tip.
type Observation struct {
	Height  uint32
	Names   []string
	Vals    []string
	Storage map[int32][]KV
}

func (o *Observation) add(name, val string) {
	o.Names = append(o.Names, name)
	o.Vals = append(o.Vals, val)
}

// Diff returns the first field in which the observations differ, or "".
func (o *Observation) Diff(p *Observation) string {
	if o.Height != p.Height {
		return sprintf("height: %d vs %d", o.Height, p.Height)
	}
	for i := range o.Names {
		if i >= len(p.Names) {
			return "field " + o.Names[i] + " missing on the other side"
		}
		if o.Names[i] != p.Names[i] {
			return sprintf("field order: %s vs %s", o.Names[i], p.Names[i])
		}
		if o.Vals[i] != p.Vals[i] {
			return sprintf("%s: %s vs %s", o.Names[i], clip(o.Vals[i]), clip(p.Vals[i]))
		}
	}
	if len(p.Names) > len(o.Names) {
		return "field " + p.Names[len(o.Names)] + " missing on this side"
	}
	return ""
}

// FirstDiffName returns a normalised name of the most specific differing
// field (used for violation signatures): root hashes are skipped when a more
// specific field (a storage area, a getter) differs too; native contract ids
// are kept, deployed contract ids and indices are dropped.
func (o *Observation) FirstDiffName(p *Observation) string {
	if o.Height != p.Height {
		return "height"
	}
	first := ""
	for i := range o.Names {
		if i >= len(p.Names) || o.Names[i] != p.Names[i] {
			return "fields"
		}
		if o.Vals[i] != p.Vals[i] {
			n := o.Names[i]
			if j := strings.IndexByte(n, ':'); j > 0 && !strings.HasPrefix(n[j+1:], "-") {
				n = n[:j]
			}
			if first == "" {
				first = n
			}
			if n != "state_root" && n != "local_state_root" {
				return n
			}
		}
	}
	return first
}

// AllDiffNames lists the names of all differing fields.
func (o *Observation) AllDiffNames(p *Observation) []string {
	var r []string
	for i := range o.Names {
		if i < len(p.Names) && o.Names[i] == p.Names[i] && o.Vals[i] != p.Vals[i] {
			r = append(r, o.Names[i])
		}
	}
	return r
}

func clip(s string) string {
	if len(s) > 300 {
		return s[:300] + "…"
	}
	return s
}

// Digest is a short hash of all fields.
func (o *Observation) Digest() string {
	h := sha256.New()
	for i := range o.Names {
		fmt.Fprintf(h, "%s=%s;", o.Names[i], o.Vals[i])
	}
	return hex.EncodeToString(h.Sum(nil)[:8])
}

// ItemString renders a stack item deterministically.
func ItemString(it stackitem.Item) string {
	b, err := stackitem.ToJSONWithTypes(it)
	if err != nil {
		return "unserializable:" + it.Type().String()
	}
	return string(b)
}

// AERString renders an execution result without the fault text and without
// the (configuration dependent) invocation list.
func AERString(a *state.AppExecResult) string {
	var b strings.Builder
	fmt.Fprintf(&b, "%s/%s/gas=%d/stack=[", a.Trigger, a.VMState, a.GasConsumed)
	for _, it := range a.Stack {
		b.WriteString(ItemString(it))
		b.WriteByte(',')
	}
	b.WriteString("]/events=[")
	for _, e := range a.Events {
		fmt.Fprintf(&b, "%s:%s:%s,", e.ScriptHash.StringLE(), e.Name, ItemString(e.Item))
	}
	b.WriteString("]")
	return b.String()
}

// StorageOf dumps the storage of one contract id, sorted by key.
func StorageOf(bc *core.Blockchain, id int32) []KV {
	var kvs []KV
	bc.SeekStorage(id, nil, func(k, v []byte) bool {
		kvs = append(kvs, KV{bytes.Clone(k), bytes.Clone(v)})
		return true
	})
	sort.SliceStable(kvs, func(i, j int) bool { return bytes.Compare(kvs[i].K, kvs[j].K) < 0 })
	return kvs
}

// Observe collects the observable state of bc at its current height.
func Observe(bc *core.Blockchain, opts ObsOpts) *Observation {
	h := bc.BlockHeight()
	o := &Observation{Height: h}
	if opts.KeepStorage {
		o.Storage = map[int32][]KV{}
	}
	o.add("header_height", fmt.Sprint(bc.HeaderHeight()))
	o.add("current_block_hash", bc.CurrentBlockHash().StringLE())
	o.add("header_hash_at_height", bc.GetHeaderHash(h).StringLE())
	sr, err := bc.GetStateRoot(h)
	if err != nil {
		o.add("state_root", "error")
	} else {
		o.add("state_root", sr.Root.StringLE())
	}
	lsr := bc.GetStateModule().CurrentLocalStateRoot()
	o.add("local_state_root", lsr.StringLE())
	o.add("local_state_height", fmt.Sprint(bc.GetStateModule().CurrentLocalHeight()))
	// storage
	var ids []int32
	natives := bc.GetNatives()
	for _, n := range natives {
		ids = append(ids, n.ID)
	}
	for i := int32(1); i <= opts.MaxContractID; i++ {
		ids = append(ids, i)
	}
	for _, id := range ids {
		kvs := StorageOf(bc, id)
		hs := sha256.New()
		for _, kv := range kvs {
			fmt.Fprintf(hs, "%x=%x;", kv.K, kv.V)
		}
		o.add(sprintf("storage:%d", id), sprintf("%d items %x", len(kvs), hs.Sum(nil)[:10]))
		if opts.KeepStorage {
			o.Storage[id] = kvs
		}
	}
	// contracts
	for _, n := range natives {
		cs := bc.GetContractState(n.Hash)
		if cs == nil {
			o.add("contract:"+n.Manifest.Name, "absent")
			continue
		}
		mb, _ := json.Marshal(cs.Manifest)
		o.add("contract:"+n.Manifest.Name, sprintf("id=%d upd=%d nef=%x man=%x", cs.ID, cs.UpdateCounter, sha256.Sum256(cs.NEF.Script), sha256.Sum256(mb)))
	}
	for i := int32(1); i <= opts.MaxContractID; i++ {
		hsh, err := bc.GetContractScriptHash(i)
		if err != nil {
			o.add(sprintf("contract:%d", i), "absent")
			continue
		}
		cs := bc.GetContractState(hsh)
		if cs == nil {
			o.add(sprintf("contract:%d", i), "hash-without-state "+hsh.StringLE())
			continue
		}
		mb, _ := json.Marshal(cs.Manifest)
		o.add(sprintf("contract:%d", i), sprintf("%s upd=%d nef=%x man=%x", hsh.StringLE(), cs.UpdateCounter, sha256.Sum256(cs.NEF.Script), sha256.Sum256(mb)))
	}
	// governance and policy
	cm, err := bc.GetCommittee()
	o.add("committee", sprintf("%v %v", cm, err))
	nv, err := bc.GetNextBlockValidators()
	o.add("next_block_validators", sprintf("%v %v", nv, err))
	o.add("computed_next_validators", sprintf("%v", bc.ComputeNextBlockValidators()))
	en, err := bc.GetEnrollments()
	o.add("enrollments", sprintf("%v %v", en, err))
	o.add("fee_per_byte", fmt.Sprint(bc.FeePerByte()))
	o.add("base_exec_fee", fmt.Sprint(bc.GetBaseExecFee()))
	o.add("storage_price", fmt.Sprint(bc.GetStoragePrice()))
	o.add("max_traceable_blocks", fmt.Sprint(bc.GetMaxTraceableBlocks()))
	o.add("max_vub_increment", fmt.Sprint(bc.GetMaxValidUntilBlockIncrement()))
	o.add("ms_per_block", fmt.Sprint(bc.GetMillisecondsPerBlock()))
	o.add("max_verification_gas", fmt.Sprint(bc.GetMaxVerificationGAS()))
	d, err := bc.GetMaxNotValidBeforeDelta()
	o.add("max_nvb_delta", sprintf("%d %v", d, err))
	o.add("notary_fee_per_key", fmt.Sprint(bc.GetNotaryServiceFeePerKey()))
	for _, r := range []noderoles.Role{noderoles.StateValidator, noderoles.Oracle, noderoles.NeoFSAlphabet, noderoles.P2PNotary} {
		ks, hh, err := bc.GetDesignatedByRole(r)
		o.add(sprintf("role:%d", r), sprintf("%v %d %v", ks, hh, err))
	}
	for i, a := range opts.Accounts {
		nb, lu := bc.GetGoverningTokenBalance(a)
		o.add(sprintf("account:%d", i), sprintf("neo=%s@%d gas=%s notary=%s exp=%d", nb, lu, bc.GetUtilityTokenBalance(a, util.Uint160{}), bc.GetUtilityTokenBalance(nativehashes.Notary, a), bc.GetNotaryDepositExpiration(a)))
	}
	if !opts.SkipBlockData {
		bh := bc.GetHeaderHash(h)
		blk, err := bc.GetBlock(bh)
		if err != nil {
			o.add("tip_block", "error")
			return o
		}
		o.add("tip_block", sprintf("%s txs=%d merkle=%s ts=%d next=%s", blk.Hash().StringLE(), len(blk.Transactions), blk.MerkleRoot.StringLE(), blk.Timestamp, blk.NextConsensus.StringLE()))
		aers, err := bc.GetAppExecResults(bh, trigger.All)
		var b strings.Builder
		for i := range aers {
			b.WriteString(AERString(&aers[i]))
			b.WriteByte(';')
		}
		o.add("block_aers", sprintf("%s %v", b.String(), err))
		for i, tx := range blk.Transactions {
			as, err := bc.GetAppExecResults(tx.Hash(), trigger.All)
			b.Reset()
			for j := range as {
				b.WriteString(AERString(&as[j]))
				b.WriteByte(';')
			}
			o.add(sprintf("tx_aer:%d", i), sprintf("%s %s %v", tx.Hash().StringLE()[:8], b.String(), err))
			_, th, err := bc.GetTransaction(tx.Hash())
			o.add(sprintf("tx_height:%d", i), sprintf("%d %v", th, err))
		}
	}
	return o
}

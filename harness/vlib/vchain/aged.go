package vchain

import (
	"testing"

	"github.com/nspcc-dev/neo-go/pkg/config"
	"github.com/nspcc-dev/neo-go/pkg/core/transaction"
	"github.com/nspcc-dev/neo-go/pkg/vm/opcode"
)

// AgedConflictCfg describes one scenario of conflict records of different age
// for one transaction hash.
type AgedConflictCfg struct {
	Stream uint64
	MTB    uint32 // MaxTraceableBlocks of the chain (MaxValidUntilBlockIncrement is MTB/2)
	Prior  int    // on-chain conflicts that are out of the traceable window when the victim is offered (>= 1)
	Fresh  int    // on-chain conflicts that are still traceable then (>= 1)
	SRIH   bool
	Proto  func(*config.Blockchain) // further settings, may be nil
}

// AgedConflict is the built scenario: the producer chain stands at the first
// height at which Victim (never sent anywhere) is inside its validity window;
// it is named by Prior+Fresh on-chain transactions of its own signer, the
// first Prior of which have left the traceable window. Twin is a transaction
// of the same shape and signer nobody names. Both stay inside their validity
// window for Offers more blocks.
type AgedConflict struct {
	P            *Producer
	Cfg          func(*config.Blockchain)
	Victim, Twin *transaction.Transaction
	Offers       int
	PriorAt      []uint32
	FreshAt      []uint32
}

// BuildAgedConflict builds the scenario on a fresh producer chain.
func BuildAgedConflict(t testing.TB, c AgedConflictCfg) *AgedConflict {
	cfg := func(b *config.Blockchain) {
		AllForks(b)
		b.MaxTraceableBlocks = c.MTB
		b.MaxValidUntilBlockIncrement = c.MTB / 2
		b.StateRootInHeader = c.SRIH
		if c.Proto != nil {
			c.Proto(b)
		}
	}
	p := NewProducer(t, ProducerConfig{Proto: cfg, Users: 4, Stream: c.Stream, TolerateReject: true})
	s := &AgedConflict{P: p, Cfg: cfg, Offers: 3}
	u := p.Users[0]
	mk := func(vub uint32, attrs ...transaction.Attribute) *transaction.Transaction {
		tx := transaction.New([]byte{byte(opcode.PUSH1)}, 100_0000)
		tx.Nonce = uint32(p.R.Uint32())
		tx.ValidUntilBlock = vub
		tx.NetworkFee = 2_0000_0000
		tx.Attributes = attrs
		tx.Signers = []transaction.Signer{{Account: u.Hash(), Scopes: transaction.CalledByEntry}}
		if err := u.S.SignTx(p.BC.GetConfig().Magic, tx); err != nil {
			t.Fatal(err)
		}
		return tx
	}
	i1 := p.Height() + 1
	// the last prior conflict is in block i1+Prior-1 and is out of the window
	// from height i1+Prior-1+MTB on; the fresh ones follow from there
	firstFresh := i1 + uint32(c.Prior) - 1 + c.MTB
	offerFrom := firstFresh + uint32(c.Fresh) - 1 // chain height when the victim is first offered
	vub := offerFrom + uint32(s.Offers)
	s.Victim = mk(vub)
	s.Twin = mk(vub)
	conflict := func(kind string) bool {
		tx := mk(p.Height()+1, transaction.Attribute{Type: transaction.ConflictsT, Value: &transaction.Conflicts{Hash: s.Victim.Hash()}})
		p.TxKinds[tx.Hash()] = kind
		return p.AddBlock(tx) != nil
	}
	for i := 0; i < c.Prior; i++ {
		if !conflict("aged-conflict") {
			return s
		}
		s.PriorAt = append(s.PriorAt, p.Height())
	}
	for p.Height()+1 < firstFresh {
		// (no governance here: the victim's signer must stay unblocked)
		if tx := p.OpNeoTransfer(); tx != nil && p.R.Intn(3) == 0 {
			if p.AddBlock(tx) == nil {
				return s
			}
		} else if p.AddBlock() == nil {
			return s
		}
	}
	for i := 0; i < c.Fresh; i++ {
		if !conflict("fresh-conflict") {
			return s
		}
		s.FreshAt = append(s.FreshAt, p.Height())
	}
	return s
}

package vchain

import (
	"bytes"
	"crypto/sha256"
	"encoding/json"
	"fmt"
	"math/big"
	"sort"
	"strings"
	"sync"
	"testing"
	"time"

	"github.com/nspcc-dev/neo-go/pkg/config"
	"github.com/nspcc-dev/neo-go/pkg/core"
	"github.com/nspcc-dev/neo-go/pkg/core/block"
	"github.com/nspcc-dev/neo-go/pkg/core/native"
	"github.com/nspcc-dev/neo-go/pkg/core/native/nativehashes"
	"github.com/nspcc-dev/neo-go/pkg/core/native/nativeids"
	"github.com/nspcc-dev/neo-go/pkg/core/native/noderoles"
	"github.com/nspcc-dev/neo-go/pkg/core/state"
	"github.com/nspcc-dev/neo-go/pkg/core/storage"
	"github.com/nspcc-dev/neo-go/pkg/core/transaction"
	"github.com/nspcc-dev/neo-go/pkg/crypto/keys"
	"github.com/nspcc-dev/neo-go/pkg/encoding/bigint"
	"github.com/nspcc-dev/neo-go/pkg/io"
	"github.com/nspcc-dev/neo-go/pkg/neotest"
	"github.com/nspcc-dev/neo-go/pkg/neotest/chain"
	"github.com/nspcc-dev/neo-go/pkg/smartcontract"
	"github.com/nspcc-dev/neo-go/pkg/smartcontract/callflag"
	"github.com/nspcc-dev/neo-go/pkg/smartcontract/trigger"
	"github.com/nspcc-dev/neo-go/pkg/util"
	"github.com/nspcc-dev/neo-go/pkg/vm/emit"
	"github.com/nspcc-dev/neo-go/pkg/vm/opcode"
	"github.com/nspcc-dev/neo-go/pkg/vm/stackitem"
	"github.com/nspcc-dev/neo-go/pkg/vm/vmstate"
	"github.com/nspcc-dev/neo-go/pkg/wallet"
	"github.com/nspcc-dev/neo-go/verifharness/vlib/rng"
	"go.uber.org/zap"
)

func contractHash(sender util.Uint160, checksum uint32, name string) util.Uint160 {
	return state.CreateContractHash(sender, checksum, name)
}

func init() {
	// Flushes are driven explicitly through VerifPersist.
	core.VerifSetPersistInterval(1000 * time.Hour)
}

// AllForks enables every stable hardfork from genesis.
func AllForks(c *config.Blockchain) { c.Hardforks = nil }

// PartialForks enables the stable hardforks from genesis only up to and
// including stage ("none": none of them).
func PartialForks(c *config.Blockchain, stage string) {
	m := map[string]uint32{}
	if stage != "none" {
		for _, hf := range config.StableHardforks {
			m[hf.String()] = 0
			if hf.String() == stage {
				break
			}
		}
	}
	if len(m) == 0 {
		m[config.StableHardforks[0].String()] = 1 << 30
	}
	c.Hardforks = m
}

// StagedForks activates hardforks one by one at small heights.
func StagedForks(c *config.Blockchain) {
	c.Hardforks = map[string]uint32{
		config.HFAspidochelone.String(): 1, config.HFBasilisk.String(): 2, config.HFCockatrice.String(): 3,
		config.HFDomovoi.String(): 4, config.HFEchidna.String(): 5, config.HFFaun.String(): 7, config.HFGorgon.String(): 9,
	}
}

// OpenChain creates a Blockchain (4 validators / 6 committee members, or the
// single-validator variant) over st with a silent logger and starts Run.
func OpenChain(t testing.TB, single bool, cfg func(*config.Blockchain), st storage.Store) (*core.Blockchain, neotest.Signer, neotest.Signer, error) {
	opts := &chain.Options{BlockchainConfigHook: cfg, Store: st, SkipRun: true, Logger: zap.NewNop()}
	if single {
		// NewSingleWithOptions checks the constructor error itself.
		var (
			bc  *core.Blockchain
			s   neotest.Signer
			err error
		)
		func() {
			defer func() {
				if r := recover(); r != nil {
					err = fmt.Errorf("open failed: %v", r)
				}
			}()
			bc, s = chain.NewSingleWithOptions(noFail{t}, opts)
		}()
		if err != nil || bc == nil {
			if err == nil {
				err = fmt.Errorf("open failed")
			}
			return nil, nil, nil, err
		}
		go bc.Run()
		return bc, s, s, nil
	}
	bc, v, c, err := chain.NewMultiWithOptionsNoCheck(t, opts)
	if err != nil {
		return nil, nil, nil, err
	}
	go bc.Run()
	return bc, v, c, nil
}

// OpenChainNoRun is OpenChain without starting Run (needed by Reset, which
// refuses to work on a running chain). Multi-validator network only.
func OpenChainNoRun(t testing.TB, single bool, cfg func(*config.Blockchain), st storage.Store) (*core.Blockchain, neotest.Signer, neotest.Signer, error) {
	opts := &chain.Options{BlockchainConfigHook: cfg, Store: st, SkipRun: true, Logger: zap.NewNop()}
	return chain.NewMultiWithOptionsNoCheck(t, opts)
}

// noFail turns require failures of neotest constructors into panics that
// OpenChain converts to errors.
type noFail struct{ testing.TB }

func (n noFail) FailNow()                          { panic("FailNow") }
func (n noFail) Errorf(format string, args ...any) { panic(fmt.Sprintf(format, args...)) }

// User is an account of the generated history.
type User struct {
	Idx       int
	Acc       *wallet.Account
	S         neotest.SingleSigner
	Candidate bool
	Blocked   bool
	VotedFor  int // index of the candidate user, -1 none
	HasNEO    bool
}

func (u *User) Hash() util.Uint160 { return u.Acc.ScriptHash() }

// Deployed is a live helper contract.
type Deployed struct {
	Hash    util.Uint160
	ID      int32
	Owner   int // user index, -1 = validator
	Version int
	Name    string
	Variant int // manifest shape (see StoreContractVariant)
}

// Weights of operation kinds (see Producer.Step).
type Weights struct {
	GasTransfer, NeoTransfer, Vote, Candidate, Policy, Block, Role, Deploy, Run, Update, Destroy, Notary, Fault, Payment, NotaryAssisted, Oracle, Ledger, Alias int
}

// DefaultWeights is a balanced mix.
var DefaultWeights = Weights{GasTransfer: 10, NeoTransfer: 8, Vote: 10, Candidate: 4, Policy: 5, Block: 3, Role: 2, Deploy: 3, Run: 14, Update: 2, Destroy: 1, Notary: 4, Fault: 5, Payment: 5, NotaryAssisted: 3, Oracle: 4, Ledger: 3, Alias: 4}

// ProducerConfig configures a history producer.
type ProducerConfig struct {
	Single         bool
	Proto          func(*config.Blockchain) // protocol-level settings every node of the farm shares
	Users          int
	W              Weights
	MaxTx          int  // max transactions per block (default 4)
	Observe        bool // record an Observation per height
	Keep           bool // keep storage dumps in observations
	Stream         uint64
	Store          storage.Store
	TolerateReject bool
	Echidna        bool // also issue the Policy setters introduced with Echidna (block time, MaxValidUntilBlockIncrement, MaxTraceableBlocks)
}

// Producer builds a chain and records it as serialized blocks.
type Producer struct {
	T                                       testing.TB
	Cfg                                     ProducerConfig
	BC                                      *core.Blockchain
	E                                       *neotest.Executor
	Val, Com                                neotest.Signer
	Users                                   []*User
	Raw                                     [][]byte
	Blocks                                  []*block.Block
	Obs                                     []*Observation
	Live                                    []*Deployed
	Deploys                                 int32
	R                                       *rng.R
	Kinds                                   map[string]int
	TxKinds                                 map[util.Uint256]string
	KindLog                                 [][]string // per block: kind/result of each tx
	OnBlock                                 func(p *Producer, b *block.Block)
	Rejected                                error
	lastPayer                               *User
	spent                                   map[int]int64
	TolerateReject                          bool
	nonce                                   uint32
	closeOnce                               sync.Once
	guard                                   *closeGuard
	pending                                 map[util.Uint256]func()
	probes                                  map[util.Uint256]string
	names                                   int
	wl                                      []wlEntry
	oracleReqs                              []oracleReq
	OracleMaxAge                            int // answer only requests at most this many blocks old (0: 3)
	GasH, NeoH, PolH, MgmtH, RoleH, NotaryH util.Uint160
}

// MaxDeploys bounds the number of deploy transactions of one history (and so
// the contract ids an observation has to scan).
const MaxDeploys = 20

// Close stops the producer chain (idempotent).
func (p *Producer) Close() {
	p.closeOnce.Do(func() {
		p.BC.Close()
		if p.guard != nil {
			p.guard.mu.Lock()
			p.guard.p = nil
			p.guard.mu.Unlock()
		}
	})
}

type closeGuard struct {
	mu sync.Mutex
	p  *Producer
}

func (g *closeGuard) run() {
	g.mu.Lock()
	p := g.p
	g.mu.Unlock()
	if p != nil {
		p.Close()
	}
}

// DetKey derives a deterministic private key.
func DetKey(label string, i int) *keys.PrivateKey {
	for n := 0; ; n++ {
		h := sha256.Sum256([]byte(fmt.Sprintf("verif-%s-%d-%d", label, i, n)))
		k, err := keys.NewPrivateKeyFromBytes(h[:])
		if err == nil {
			return k
		}
	}
}

// NewProducer creates the producer chain and funds the users (block 1).
func NewProducer(t testing.TB, cfg ProducerConfig) *Producer {
	if cfg.Users == 0 {
		cfg.Users = 8
	}
	if cfg.MaxTx == 0 {
		cfg.MaxTx = 4
	}
	if cfg.W == (Weights{}) {
		cfg.W = DefaultWeights
	}
	st := cfg.Store
	if st == nil {
		st = storage.NewMemoryStore()
	}
	bc, val, com, err := OpenChain(t, cfg.Single, cfg.Proto, st)
	if err != nil {
		t.Fatalf("producer: %v", err)
	}
	p := &Producer{T: t, Cfg: cfg, TolerateReject: cfg.TolerateReject, BC: bc, Val: val, Com: com, R: rng.New(cfg.Stream), Kinds: map[string]int{}, TxKinds: map[util.Uint256]string{}, pending: map[util.Uint256]func(){}}
	// a forgotten producer is closed when the test ends; a closed one must not be
	// kept alive by the test's cleanup list (its chain is several megabytes)
	p.guard = &closeGuard{p: p}
	t.Cleanup(p.guard.run)
	p.E = neotest.NewExecutor(t, bc, val, com)
	p.GasH, p.NeoH, p.PolH, p.MgmtH, p.RoleH, p.NotaryH = nativehashes.GasToken, nativehashes.NeoToken, nativehashes.PolicyContract, nativehashes.ContractManagement, nativehashes.RoleManagement, nativehashes.Notary
	for i := 0; i < cfg.Users; i++ {
		acc := wallet.NewAccountFromPrivateKey(DetKey("user", i))
		p.Users = append(p.Users, &User{Idx: i, Acc: acc, S: neotest.NewSingleSigner(acc), VotedFor: -1})
	}
	if cfg.Observe {
		p.Obs = append(p.Obs, p.observe())
	}
	// funding block
	var txs []*transaction.Transaction
	for i, u := range p.Users {
		txs = append(txs, p.Call("fund-gas", []neotest.Signer{val}, p.GasH, "transfer", val.ScriptHash(), u.Hash(), int64(50000_0000_0000), nil))
		if i%4 != 3 && i < cfg.Users-2 { // the last two users never hold NEO themselves
			txs = append(txs, p.Call("fund-neo", []neotest.Signer{val}, p.NeoH, "transfer", val.ScriptHash(), u.Hash(), int64(1_000_000+i*1000), nil))
			u.HasNEO = true
		}
	}
	p.AddBlock(txs...)
	return p
}

// ObsOpts returns the observation options matching the producer's history.
func (p *Producer) ObsOpts() ObsOpts {
	var accs []util.Uint160
	for _, u := range p.Users {
		accs = append(accs, u.Hash())
	}
	accs = append(accs, p.Val.ScriptHash(), p.Com.ScriptHash())
	return ObsOpts{MaxContractID: MaxDeploys + 2, KeepStorage: p.Cfg.Keep, Accounts: accs}
}

func (p *Producer) observe() *Observation { return Observe(p.BC, p.ObsOpts()) }

// Height returns the producer's chain height.
func (p *Producer) Height() uint32 { return p.BC.BlockHeight() }

// Tx builds and signs a transaction with an explicit system fee (sysFee < 0:
// measured by a test invocation, with a margin).
func (p *Producer) Tx(kind string, signers []neotest.Signer, script []byte, sysFee int64) *transaction.Transaction {
	tx := transaction.New(script, 0)
	p.nonce++
	tx.Nonce = p.nonce
	tx.ValidUntilBlock = p.BC.BlockHeight() + 1
	for _, s := range signers {
		tx.Signers = append(tx.Signers, transaction.Signer{Account: s.ScriptHash(), Scopes: transaction.Global})
	}
	neotest.AddNetworkFee(p.T, p.BC, tx, signers...)
	if sysFee < 0 {
		v, _ := p.E.TestInvoke(tx)
		sysFee = v.GasConsumed()*5/4 + 2000_0000
	}
	tx.SystemFee = sysFee
	for _, s := range signers {
		if err := s.SignTx(p.BC.GetConfig().Magic, tx); err != nil {
			p.T.Fatalf("sign: %v", err)
		}
	}
	p.TxKinds[tx.Hash()] = kind
	return tx
}

// Call builds a transaction calling one contract method.
func (p *Producer) Call(kind string, signers []neotest.Signer, h util.Uint160, method string, args ...any) *transaction.Transaction {
	script, err := smartcontract.CreateCallScript(h, method, args...)
	if err != nil {
		p.T.Fatalf("script %s: %v", method, err)
	}
	return p.Tx(kind, signers, script, -1)
}

// NewBlock builds and signs (but does not add) the next block.
func (p *Producer) NewBlock(txs ...*transaction.Transaction) *block.Block {
	b := p.E.NewUnsignedBlock(p.T, txs...)
	p.E.SignBlock(b)
	return b
}

// EncodeBlock serializes a block as it travels between nodes.
func EncodeBlock(b *block.Block) []byte {
	w := io.NewBufBinWriter()
	b.EncodeBinary(w.BinWriter)
	return w.Bytes()
}

// DecodeBlock parses a serialized block.
func DecodeBlock(raw []byte, stateRootInHeader bool) (*block.Block, error) {
	b := block.New(stateRootInHeader)
	r := io.NewBinReaderFromBuf(raw)
	b.DecodeBinary(r)
	return b, r.Err
}

// AddBlock seals txs into the next block, adds it to the producer chain and
// records it. A rejected block is a harness error.
func (p *Producer) AddBlock(txs ...*transaction.Transaction) *block.Block {
	b := p.NewBlock(txs...)
	if err := p.BC.AddBlock(b); err != nil {
		var ks []string
		for _, tx := range txs {
			ks = append(ks, p.TxKinds[tx.Hash()])
		}
		// The block was built from the node's own answers (fees, validators,
		// state root); its rejection is reported by the checks as a violation.
		p.Rejected = fmt.Errorf("producer block %d rejected by its own node: %w (txs %v)", b.Index, err, ks)
		if !p.TolerateReject {
			p.T.Fatalf("%v", p.Rejected)
		}
		return nil
	}
	p.Raw = append(p.Raw, EncodeBlock(b))
	p.Blocks = append(p.Blocks, b)
	var kl []string
	for _, tx := range txs {
		aer, err := p.BC.GetAppExecResults(tx.Hash(), trigger.Application)
		res := "?"
		if err == nil && len(aer) == 1 {
			res = aer[0].VMState.String()
			if aer[0].VMState == vmstate.Halt {
				if f := p.pending[tx.Hash()]; f != nil {
					f()
				}
				if what, ok := p.probes[tx.Hash()]; ok {
					for _, it := range aer[0].Stack {
						if v, err := it.TryBool(); (err != nil || !v) && p.Rejected == nil {
							// reported by the checks like a block the producer's own node rejects
							p.Rejected = fmt.Errorf("memory probe of block %d (%s) found the stored value changed: bytes the storage layer handed to the VM (or took from it) were changed in place by a later instruction", b.Index, what)
						}
					}
				}
			}
		}
		k := p.TxKinds[tx.Hash()] + ":" + res
		p.Kinds[k]++
		kl = append(kl, k)
		delete(p.pending, tx.Hash())
		delete(p.probes, tx.Hash())
	}
	p.KindLog = append(p.KindLog, kl)
	p.reconcile()
	if p.Cfg.Observe {
		p.Obs = append(p.Obs, p.observe())
	}
	if p.OnBlock != nil {
		p.OnBlock(p, b)
	}
	return b
}

// reconcile refreshes the ledger model from the chain.
func (p *Producer) reconcile() {
	en, _ := p.BC.GetEnrollments()
	reg := map[string]bool{}
	for _, v := range en {
		reg[string(v.Key.Bytes())] = true
	}
	for _, u := range p.Users {
		u.Candidate = reg[string(u.Acc.PublicKey().Bytes())]
		nb, _ := p.BC.GetGoverningTokenBalance(u.Hash())
		u.HasNEO = nb.Sign() > 0
		u.Blocked = p.BC.GetStorageItem(p.BC.NativePolicyID(), append([]byte{15}, u.Hash().BytesBE()...)) != nil
	}
	live := p.Live[:0]
	for _, d := range p.Live {
		if cs := p.BC.GetContractState(d.Hash); cs != nil {
			d.ID = cs.ID
			live = append(live, d)
		}
	}
	p.Live = live
}

func (p *Producer) freeUser() *User {
	for range 20 {
		u := p.Users[p.R.Intn(len(p.Users))]
		if !u.Blocked {
			return u
		}
	}
	return nil
}

var keyUniverse = [][]byte{[]byte("a"), []byte("ab"), []byte("abc"), []byte("ab\x00"), []byte("ab\xff"), []byte("ac"), []byte("b"), {0}, {0xff}, {0xff, 0xff}, []byte("k0"), []byte("k1"), []byte("k2"), []byte("k3"), []byte("kkkkkkkkkkkkkkkkkkkkkkkkkkkkkkkkkkkkkkkk"), bytes.Repeat([]byte("L"), 63), bytes.Repeat([]byte("M"), 64)}
var valUniverse = [][]byte{[]byte("1"), []byte("2"), {}, []byte("same"), []byte("same"), []byte("a-longer-value-a-longer-value-a-longer-value")}

// KeyUniverse returns the storage keys the helper contract plans draw from.
func KeyUniverse() [][]byte { return keyUniverse }

// Plan generates a random plan for the helper contract's Run method.
func (p *Producer) Plan(maxSteps int, allowFail bool) []any {
	r := p.R
	var plan []any
	n := 1 + r.Intn(maxSteps)
	for i := 0; i < n; i++ {
		switch x := r.Intn(20); {
		case x < 10:
			plan = append(plan, []any{0, keyUniverse[r.Intn(len(keyUniverse))], valUniverse[r.Intn(len(valUniverse))]})
		case x < 15:
			plan = append(plan, []any{1, keyUniverse[r.Intn(len(keyUniverse))]})
		case x < 17:
			plan = append(plan, []any{3, int64(r.Intn(100))})
		case x < 18:
			plan = append(plan, []any{6, keyUniverse[r.Intn(3)]})
		case x < 19 && allowFail:
			plan = append(plan, []any{4})
		case x < 20 && r.Intn(3) == 0:
			plan = append(plan, []any{0, keyUniverse[len(keyUniverse)-1-r.Intn(3)], valUniverse[r.Intn(len(valUniverse))]})
		default:
			plan = append(plan, []any{0, []byte(fmt.Sprintf("k%d", r.Intn(4))), []byte{byte(r.Intn(3))}})
		}
	}
	return plan
}

// GenTxs produces the transactions of the next block (possibly none).
func (p *Producer) GenTxs() []*transaction.Transaction {
	r := p.R
	p.spent = map[int]int64{}
	w := p.Cfg.W
	ws := []int{w.GasTransfer, w.NeoTransfer, w.Vote, w.Candidate, w.Policy, w.Block, w.Role, w.Deploy, w.Run, w.Update, w.Destroy, w.Notary, w.Fault, w.Payment, w.NotaryAssisted, w.Oracle, w.Ledger, w.Alias}
	n := r.Intn(p.Cfg.MaxTx + 1)
	var txs []*transaction.Transaction
	policyUsed := false
	for i := 0; i < n; i++ {
		var tx *transaction.Transaction
		switch r.Weighted(ws) {
		case 0:
			tx = p.opGasTransfer()
		case 1:
			tx = p.opNeoTransfer()
		case 2:
			tx = p.opVote()
		case 3:
			tx = p.opCandidate()
		case 4:
			if !policyUsed {
				tx = p.opPolicy()
				policyUsed = tx != nil
			}
		case 5:
			if !policyUsed {
				tx = p.opBlock()
				policyUsed = tx != nil
			}
		case 6:
			if !policyUsed {
				tx = p.opRole()
				policyUsed = tx != nil
			}
		case 7:
			tx = p.opDeploy()
		case 8:
			tx = p.opRun()
		case 9:
			tx = p.opUpdate()
		case 10:
			tx = p.opDestroy()
		case 11:
			tx = p.opNotary()
		case 12:
			tx = p.opFault()
		case 13:
			tx = p.opPayment()
		case 14:
			tx = p.opNotaryAssisted()
		case 15:
			tx = p.opOracle()
			if tx != nil && r.Intn(2) == 0 {
				// a burst of requests, to be answered together later
				for k := 0; k < 2; k++ {
					if t2 := p.opOracle(); t2 != nil {
						txs = append(txs, t2)
					}
				}
			}
		case 16:
			tx = p.opLedger()
		case 17:
			tx = p.opAlias()
		}
		if tx != nil {
			txs = append(txs, tx)
		}
	}
	// pending oracle requests are answered soon (see oracleResponse on why)
	if w.Oracle > 0 && len(p.oracleReqs) > 0 && r.Intn(2) == 0 {
		// up to three answers in one block: PostPersist then rewards several
		// designated nodes at once
		for k := 0; k < 3 && len(p.oracleReqs) > 0; k++ {
			tx := p.oracleResponse()
			if tx == nil {
				break
			}
			txs = append(txs, tx)
		}
	}
	return txs
}

// opLedger queries the native Ledger for blocks and transactions at the edge
// of the traceable window (and outside it on both sides); the answers stay on
// the stack, so they are part of the execution result every replica must
// reproduce whatever it has pruned.
func (p *Producer) opLedger() *transaction.Transaction {
	u := p.freeUser()
	if u == nil {
		return nil
	}
	h := int64(p.BC.BlockHeight()) + 1 // index of the block this transaction goes into
	mtb := int64(p.BC.GetMaxTraceableBlocks())
	cands := []int64{h - mtb - 1, h - mtb, h - mtb + 1, h - mtb + 2, h - 1, h, h + 1, 0, 1, h / 2}
	w := io.NewBufBinWriter()
	n := 2 + p.R.Intn(4)
	// getTransactionVMState answers from stored execution results, which nodes
	// bootstrapped by state synchronisation do not have for older blocks: it
	// gets transactions of its own kind (see C20's known finding)
	vmstateOnly := p.R.Intn(4) == 0
	kind := "ledger-query"
	if vmstateOnly {
		kind = "ledger-query-vmstate"
	}
	for i := 0; i < n; i++ {
		idx := cands[p.R.Intn(len(cands))]
		if idx < 0 {
			idx = 0
		}
		sel := p.R.Intn(6)
		if vmstateOnly {
			sel = 5
		}
		switch sel {
		case 0:
			emit.AppCall(w.BinWriter, nativehashes.LedgerContract, "getBlock", callflag.ReadStates, idx)
		case 1:
			emit.AppCall(w.BinWriter, nativehashes.LedgerContract, "getTransactionFromBlock", callflag.ReadStates, idx, int64(p.R.Intn(2)))
		default:
			// a transaction of that block, if it has one
			var th util.Uint256
			if idx >= 1 && int(idx) <= len(p.Blocks) && len(p.Blocks[idx-1].Transactions) > 0 {
				txs := p.Blocks[idx-1].Transactions
				th = txs[p.R.Intn(len(txs))].Hash()
			} else {
				th = util.Uint256{byte(idx), 0xab}
			}
			m := []string{"getTransactionHeight", "getTransaction", "getTransactionSigners"}[p.R.Intn(3)]
			if vmstateOnly {
				m = "getTransactionVMState"
			}
			emit.AppCall(w.BinWriter, nativehashes.LedgerContract, m, callflag.ReadStates, th)
		}
	}
	emit.AppCall(w.BinWriter, nativehashes.LedgerContract, "currentIndex", callflag.ReadStates)
	return p.Tx(kind, []neotest.Signer{u.S}, w.Bytes(), -1)
}

// NotaryAssistedTx builds a transaction sent by the Notary contract and paid
// from u's deposit on chain bc (nil if no notary node key is known to the
// harness): fees is the total of system and network fee it declares.
func NotaryAssistedTx(t testing.TB, bc *core.Blockchain, u *User, fees int64, vub, nonce uint32) *transaction.Transaction {
	nodes, _, err := bc.GetDesignatedByRole(noderoles.P2PNotary)
	if err != nil || len(nodes) == 0 {
		return nil
	}
	var node *keys.PrivateKey
	for i := 0; i < 6 && node == nil; i++ {
		k := DetKey("role", i)
		for _, n := range nodes {
			if n.Equal(k.PublicKey()) {
				node = k
			}
		}
	}
	if node == nil {
		return nil
	}
	tx := transaction.New([]byte{byte(opcode.PUSH1)}, 100_0000)
	tx.Nonce = nonce
	tx.ValidUntilBlock = vub
	tx.Attributes = []transaction.Attribute{{Type: transaction.NotaryAssistedT, Value: &transaction.NotaryAssisted{NKeys: 1}}}
	tx.Signers = []transaction.Signer{{Account: nativehashes.Notary, Scopes: transaction.None}, {Account: u.Hash(), Scopes: transaction.None}}
	neotest.AddNetworkFee(t, bc, tx, u.S)
	tx.NetworkFee += 100*bc.FeePerByte() + 1000_0000
	if extra := fees - tx.SystemFee - tx.NetworkFee; extra > 0 {
		tx.NetworkFee += extra
	}
	magic := bc.GetConfig().Magic
	tx.Scripts = []transaction.Witness{
		{InvocationScript: append([]byte{byte(opcode.PUSHDATA1), keys.SignatureLen}, node.SignHashable(uint32(magic), tx)...)},
		{InvocationScript: append([]byte{byte(opcode.PUSHDATA1), keys.SignatureLen}, u.Acc.PrivateKey().SignHashable(uint32(magic), tx)...), VerificationScript: u.Acc.Contract.Script},
	}
	return tx
}

// OpLedgerEdges queries the Ledger for every block (and one transaction of it,
// if any) around the older edge of the traceable window.
func (p *Producer) OpLedgerEdges() *transaction.Transaction {
	u := p.freeUser()
	if u == nil {
		return nil
	}
	h := int64(p.BC.BlockHeight()) + 1
	mtb := int64(p.BC.GetMaxTraceableBlocks())
	w := io.NewBufBinWriter()
	for idx := h - mtb - 1; idx <= h-mtb+4; idx++ {
		if idx < 0 {
			continue
		}
		emit.AppCall(w.BinWriter, nativehashes.LedgerContract, "getBlock", callflag.ReadStates, idx)
		if idx >= 1 && int(idx) <= len(p.Blocks) && len(p.Blocks[idx-1].Transactions) > 0 {
			th := p.Blocks[idx-1].Transactions[0].Hash()
			emit.AppCall(w.BinWriter, nativehashes.LedgerContract, "getTransactionHeight", callflag.ReadStates, th)
			emit.AppCall(w.BinWriter, nativehashes.LedgerContract, "getTransaction", callflag.ReadStates, th)
		}
	}
	emit.AppCall(w.BinWriter, nativehashes.LedgerContract, "currentIndex", callflag.ReadStates)
	return p.Tx("ledger-query-edges", []neotest.Signer{u.S}, w.Bytes(), -1)
}

// Step generates and adds one block.
func (p *Producer) Step() *block.Block { return p.AddBlock(p.GenTxs()...) }

func (p *Producer) opGasTransfer() *transaction.Transaction {
	u := p.freeUser()
	if u == nil {
		return nil
	}
	var to util.Uint160
	switch p.R.Intn(4) {
	case 0:
		to = u.Hash() // self
	case 1:
		to = util.Uint160{byte(p.R.Intn(4)), 0xee} // fresh / recurring stranger
		if p.R.Intn(4) == 0 {
			to = util.Uint160{} // the all-zero account: an account like any other, not "nobody"
		}
	default:
		to = p.Users[p.R.Intn(len(p.Users))].Hash()
	}
	amt := p.amount(50_0000_0000)
	if p.R.Intn(8) == 0 {
		// the data argument is something no serializer accepts: a pointer or an
		// array containing itself (only nodes that log invocations look at it)
		w := io.NewBufBinWriter()
		kind := "gas-transfer-pointer-data"
		if p.R.Intn(2) == 0 {
			emit.Instruction(w.BinWriter, opcode.PUSHA, []byte{0, 0, 0, 0})
		} else {
			kind = "gas-transfer-cyclic-data"
			emit.Opcodes(w.BinWriter, opcode.NEWARRAY0, opcode.DUP, opcode.DUP, opcode.APPEND)
		}
		emit.Int(w.BinWriter, amt)
		emit.Bytes(w.BinWriter, to.BytesBE())
		emit.Bytes(w.BinWriter, u.Hash().BytesBE())
		emit.Int(w.BinWriter, 4)
		emit.Opcodes(w.BinWriter, opcode.PACK)
		emit.AppCallNoArgs(w.BinWriter, p.GasH, "transfer", 15)
		return p.Tx(kind, []neotest.Signer{u.S}, w.Bytes(), -1)
	}
	if p.R.Intn(12) == 0 {
		return p.Call("gas-transfer-boundary-amount", []neotest.Signer{u.S}, p.GasH, "transfer", u.Hash(), to, p.boundaryAmount(), nil)
	}
	return p.Call("gas-transfer", []neotest.Signer{u.S}, p.GasH, "transfer", u.Hash(), to, amt, nil)
}

// boundaryAmount returns an amount at a width boundary of the integer types
// token code converts through (int64, uint64, 2^255), or a negative one. A
// transfer of it cannot succeed (nobody holds that much), it must fail or
// fault without moving anything.
func (p *Producer) boundaryAmount() *big.Int {
	one := big.NewInt(1)
	pow := func(k uint) *big.Int { return new(big.Int).Lsh(one, k) }
	switch p.R.Intn(9) {
	case 0:
		return new(big.Int).Sub(pow(63), one)
	case 1:
		return pow(63)
	case 2:
		return new(big.Int).Add(pow(63), one)
	case 3:
		return new(big.Int).Sub(pow(64), one)
	case 4:
		return pow(64)
	case 5:
		return new(big.Int).Sub(pow(255), one)
	case 6:
		return big.NewInt(-1)
	case 7:
		return new(big.Int).Neg(pow(63))
	default:
		return pow(31 + uint(p.R.Intn(3)))
	}
}

// amount returns a varied amount in [0, max]: zero, one, round and odd
// values, small and large.
func (p *Producer) amount(max int64) int64 {
	switch p.R.Intn(7) {
	case 0:
		return 0
	case 1:
		return 1
	case 2:
		return int64(p.R.Intn(2000))
	case 3:
		return 1_0000_0000
	case 4:
		return max
	default:
		return p.R.Int64N(max + 1)
	}
}

func (p *Producer) opNeoTransfer() *transaction.Transaction {
	u := p.freeUser()
	if u == nil || !u.HasNEO {
		return nil
	}
	to := p.Users[p.R.Intn(len(p.Users))]
	nb, _ := p.BC.GetGoverningTokenBalance(u.Hash())
	var amt int64
	switch p.R.Intn(6) {
	case 0:
		amt = 0
	case 1:
		amt = nb.Int64() // empty the voter
	default:
		amt = int64(1 + p.R.Intn(5000))
	}
	if p.R.Intn(10) == 0 {
		return p.Call("neo-transfer-stranger", []neotest.Signer{u.S}, p.NeoH, "transfer", u.Hash(), util.Uint160{byte(p.R.Intn(3)), 0xdd}, int64(1+p.R.Intn(10)), nil)
	}
	if p.R.Intn(12) == 0 {
		return p.Call("neo-transfer-boundary-amount", []neotest.Signer{u.S}, p.NeoH, "transfer", u.Hash(), to.Hash(), p.boundaryAmount(), nil)
	}
	return p.Call("neo-transfer", []neotest.Signer{u.S}, p.NeoH, "transfer", u.Hash(), to.Hash(), amt, nil)
}

func (p *Producer) candidates() []*User {
	var cs []*User
	for _, u := range p.Users {
		if u.Candidate {
			cs = append(cs, u)
		}
	}
	return cs
}

func (p *Producer) opVote() *transaction.Transaction {
	u := p.freeUser()
	if u == nil {
		return nil
	}
	cs := p.candidates()
	if len(cs) == 0 || p.R.Intn(5) == 0 {
		if p.R.Intn(2) == 0 || len(cs) == 0 {
			return p.Call("unvote", []neotest.Signer{u.S}, p.NeoH, "vote", u.Hash(), nil)
		}
		// vote for a key that is not a candidate (must fail cleanly)
		return p.Call("vote-noncandidate", []neotest.Signer{u.S}, p.NeoH, "vote", u.Hash(), DetKey("nobody", p.R.Intn(2)).PublicKey().Bytes())
	}
	c := cs[p.R.Intn(len(cs))]
	return p.Call("vote", []neotest.Signer{u.S}, p.NeoH, "vote", u.Hash(), c.Acc.PublicKey().Bytes())
}

func (p *Producer) opCandidate() *transaction.Transaction {
	u := p.freeUser()
	if u == nil {
		return nil
	}
	if u.Candidate && p.R.Intn(3) != 0 {
		return p.Call("unregister-candidate", []neotest.Signer{u.S}, p.NeoH, "unregisterCandidate", u.Acc.PublicKey().Bytes())
	}
	if p.R.Intn(3) == 0 {
		// registration by payment: GAS sent to the NEO contract with the key as data
		price := int64(1000_0000_0000)
		if v := p.BC.GetStorageItem(nativeids.NeoToken, []byte{13}); v != nil {
			price = bigint.FromBytes(v).Int64()
		}
		return p.Call("register-candidate-by-payment", []neotest.Signer{u.S}, p.GasH, "transfer", u.Hash(), p.NeoH, price, u.Acc.PublicKey().Bytes())
	}
	return p.Call("register-candidate", []neotest.Signer{u.S}, p.NeoH, "registerCandidate", u.Acc.PublicKey().Bytes())
}

// committee returns the signers of a committee-authorised transaction: the
// validators' multisig pays (the committee address holds no GAS) and the
// multisig of the *current* committee (which changes with the votes) witnesses.
func (p *Producer) committee() []neotest.Signer {
	if p.Cfg.Single {
		return []neotest.Signer{p.Val}
	}
	cs := p.CommitteeSigner()
	if cs == nil {
		return nil
	}
	return []neotest.Signer{p.Val, cs}
}

// CommitteeSigner builds the multisig signer of the current committee from
// the private keys the harness holds (standby members and users).
func (p *Producer) CommitteeSigner() neotest.Signer {
	cm, err := p.BC.GetCommittee()
	if err != nil {
		return nil
	}
	known := map[string]*keys.PrivateKey{}
	for _, u := range p.Users {
		known[string(u.Acc.PublicKey().Bytes())] = u.Acc.PrivateKey()
	}
	if ms, ok := p.Com.(neotest.MultiSigner); ok {
		for i := 0; i < 6; i++ {
			a := ms.Single(i).Account()
			known[string(a.PublicKey().Bytes())] = a.PrivateKey()
		}
	}
	pubs := cm.Copy()
	sort.Sort(pubs)
	m := smartcontract.GetMajorityHonestNodeCount(len(pubs))
	var accs []*wallet.Account
	for _, pk := range pubs {
		priv := known[string(pk.Bytes())]
		if priv == nil {
			continue
		}
		a := wallet.NewAccountFromPrivateKey(priv)
		if err := a.ConvertMultisig(m, pubs); err != nil {
			return nil
		}
		accs = append(accs, a)
	}
	if len(accs) < m {
		return nil
	}
	return neotest.NewMultiSigner(accs...)
}

func (p *Producer) opPolicy() *transaction.Transaction {
	r := p.R
	if p.committee() == nil {
		return nil
	}
	if p.Cfg.Echidna && r.Intn(4) == 0 {
		// Policy settings introduced with Echidna; before it the calls fault.
		mtb, vub := int64(p.BC.GetMaxTraceableBlocks()), int64(p.BC.GetMaxValidUntilBlockIncrement())
		switch r.Intn(3) {
		case 0:
			return p.Call("set-ms-per-block", p.committee(), p.PolH, "setMillisecondsPerBlock", int64(1+r.Intn(30000)))
		case 1:
			// any value below MaxTraceableBlocks is legal; one above is refused
			return p.Call("set-max-vub-increment", p.committee(), p.PolH, "setMaxValidUntilBlockIncrement", int64(1)+int64(r.Intn(int(mtb))))
		default:
			// may only shrink and must stay above the increment: shrink by 0..2,
			// never below 6 (sometimes an illegal value: the call faults)
			v := mtb - int64(r.Intn(3))
			if v < 6 {
				v = mtb
			}
			if r.Intn(6) == 0 {
				v = vub
			}
			return p.Call("set-max-traceable-blocks", p.committee(), p.PolH, "setMaxTraceableBlocks", v)
		}
	}
	switch r.Intn(8) {
	case 6, 7:
		return p.opWhitelist()
	case 0:
		return p.Call("set-fee-per-byte", p.committee(), p.PolH, "setFeePerByte", int64(500+r.Intn(1500)))
	case 1:
		return p.Call("set-exec-fee-factor", p.committee(), p.PolH, "setExecFeeFactor", int64(20+r.Intn(20)))
	case 2:
		return p.Call("set-storage-price", p.committee(), p.PolH, "setStoragePrice", int64(50000+r.Intn(100000)))
	case 3:
		return p.Call("set-attribute-fee", p.committee(), p.PolH, "setAttributeFee", int64(transaction.ConflictsT), int64(r.Intn(1000)))
	case 4:
		return p.Call("set-gas-per-block", p.committee(), p.NeoH, "setGasPerBlock", int64((1+r.Intn(9))*1_0000_0000))
	default:
		return p.Call("set-register-price", p.committee(), p.NeoH, "setRegisterPrice", int64((500+r.Intn(1000))*1_0000_0000))
	}
}

// wlEntry is a (contract, method) pair with a whitelisted fixed fee.
type wlEntry struct {
	h      util.Uint160
	method string
	argc   int
}

// opWhitelist sets, changes or removes the fixed execution fee of a contract
// method (Policy, since Faun; before that the call faults, which is part of
// the mix). Half of the time an already whitelisted method gets another fee.
func (p *Producer) opWhitelist() *transaction.Transaction {
	r := p.R
	if len(p.wl) > 0 && r.Intn(4) == 0 {
		i := r.Intn(len(p.wl))
		e := p.wl[i]
		tx := p.Call("whitelist-fee-remove", p.committee(), p.PolH, "removeWhitelistFeeContract", e.h, e.method, int64(e.argc))
		p.pending[tx.Hash()] = func() {
			for j := range p.wl {
				if p.wl[j] == e {
					p.wl = append(p.wl[:j:j], p.wl[j+1:]...)
					break
				}
			}
		}
		return tx
	}
	var e wlEntry
	if len(p.wl) > 0 && r.Intn(2) == 0 {
		e = p.wl[r.Intn(len(p.wl))]
	} else {
		cands := []wlEntry{{p.GasH, "transfer", 4}, {p.NeoH, "transfer", 4}, {p.NeoH, "vote", 2}}
		for _, d := range p.Live {
			cands = append(cands, wlEntry{d.Hash, "run", 1}, wlEntry{d.Hash, "get", 1})
		}
		e = cands[r.Intn(len(cands))]
	}
	fee := int64(r.Intn(3)) * int64(1+r.Intn(200_0000))
	tx := p.Call("whitelist-fee-set", p.committee(), p.PolH, "setWhitelistFeeContract", e.h, e.method, int64(e.argc), fee)
	p.pending[tx.Hash()] = func() {
		for _, x := range p.wl {
			if x == e {
				return
			}
		}
		p.wl = append(p.wl, e)
	}
	return tx
}

func (p *Producer) opBlock() *transaction.Transaction {
	if p.committee() == nil {
		return nil
	}
	u := p.Users[p.R.Intn(len(p.Users))]
	if cs := p.candidates(); len(cs) > 0 && p.R.Intn(2) == 0 {
		u = cs[p.R.Intn(len(cs))] // blocking a (voted) candidate changes committee eligibility
	}
	if u.Blocked {
		return p.Call("unblock-account", p.committee(), p.PolH, "unblockAccount", u.Hash())
	}
	nblocked := 0
	for _, x := range p.Users {
		if x.Blocked {
			nblocked++
		}
	}
	if nblocked >= len(p.Users)/3 {
		return nil
	}
	tx := p.Call("block-account", p.committee(), p.PolH, "blockAccount", u.Hash())
	// Not usable as a sender for the rest of this block's generation; the
	// real status is re-read from the chain after the block (reconcile).
	u.Blocked = true
	return tx
}

// BlockCandidate blocks (or unblocks, if already blocked) a registered
// candidate, preferring one that holds no NEO itself.
func (p *Producer) BlockCandidate() *transaction.Transaction {
	sg := p.committee()
	if sg == nil {
		return nil
	}
	cs := p.candidates()
	if len(cs) == 0 {
		return nil
	}
	u := cs[p.R.Intn(len(cs))]
	for _, c := range cs {
		if !c.HasNEO && p.R.Intn(2) == 0 {
			u = c
		}
	}
	if u.Blocked {
		return p.Call("unblock-candidate", sg, p.PolH, "unblockAccount", u.Hash())
	}
	u.Blocked = true
	return p.Call("block-candidate", sg, p.PolH, "blockAccount", u.Hash())
}

func (p *Producer) opRole() *transaction.Transaction {
	if p.committee() == nil {
		return nil
	}
	roles := []int64{4, 8, 16, 32}
	n := 1 + p.R.Intn(3)
	var ks []any
	for i := 0; i < n; i++ {
		ks = append(ks, DetKey("role", p.R.Intn(6)).PublicKey().Bytes())
	}
	// duplicates make the call fail: that is part of the mix.
	role := roles[p.R.Intn(len(roles))]
	if p.R.Intn(3) == 0 {
		role = 32 // P2PNotary: needed by notary-assisted transactions
	} else if len(p.oracleReqs) > 0 && p.R.Intn(2) == 0 {
		role = 8 // Oracle: needed to answer the pending requests
	}
	return p.Call("designate-role", p.committee(), p.RoleH, "designateAsRole", role, ks)
}

func (p *Producer) opDeploy() *transaction.Transaction {
	if len(p.Live) >= 6 || p.names >= MaxDeploys {
		return nil
	}
	u := p.freeUser()
	if u == nil {
		return nil
	}
	p.names++
	name := fmt.Sprintf("st%d", p.names)
	variant := p.manifestVariant()
	c := StoreContractVariant(p.T, u.Hash(), name, 1, variant)
	mb, _ := json.Marshal(c.Manifest)
	nb, _ := c.NEF.Bytes()
	tx := p.Call("deploy", []neotest.Signer{u.S}, p.MgmtH, "deploy", nb, mb, nil)
	d := &Deployed{Hash: c.Hash, Owner: u.Idx, Version: 1, Name: name, Variant: variant}
	p.pending[tx.Hash()] = func() { p.Live = append(p.Live, d); p.Deploys++ }
	return tx
}

// manifestVariant picks the manifest shape of a deployment or update: the
// plain wildcard half of the time, one of the restricted shapes otherwise.
func (p *Producer) manifestVariant() int {
	if p.R.Intn(2) == 0 {
		return 0
	}
	return 1 + p.R.Intn(ManifestVariants-1)
}

func (p *Producer) opRun() *transaction.Transaction {
	if len(p.Live) == 0 {
		return p.opDeploy()
	}
	u := p.freeUser()
	if u == nil {
		return nil
	}
	d := p.Live[p.R.Intn(len(p.Live))]
	return p.Call("run-plan", []neotest.Signer{u.S}, d.Hash, "run", p.Plan(5, true))
}

// opAlias calls two or three memory probes of a live helper contract (see
// alias.go) in one transaction; every probe leaves true on the stack.
func (p *Producer) opAlias() *transaction.Transaction {
	if len(p.Live) == 0 {
		return p.opDeploy()
	}
	u := p.freeUser()
	if u == nil {
		return nil
	}
	r := p.R
	d := p.Live[r.Intn(len(p.Live))]
	w := io.NewBufBinWriter()
	what := ""
	for i, n := 0, 2+r.Intn(2); i < n; i++ {
		dv, mu, local := r.Intn(AliasDerives), r.Intn(AliasMutators), r.Intn(3) == 0
		switch r.Intn(4) {
		case 0:
			k, v := keyUniverse[r.Intn(len(keyUniverse))], valUniverse[r.Intn(len(valUniverse))]
			if len(v) == 0 {
				v = []byte("probe-value")
			}
			emit.AppCall(w.BinWriter, d.Hash, AliasPutName(mu, local), callflag.All, k, v)
			what += AliasPutName(mu, local) + " "
		case 1:
			emit.AppCall(w.BinWriter, d.Hash, AliasFindName(dv, mu, local), callflag.All, keyUniverse[r.Intn(3)][:r.Intn(2)])
			what += AliasFindName(dv, mu, local) + " "
		default:
			emit.AppCall(w.BinWriter, d.Hash, AliasGetName(dv, mu, local), callflag.All, keyUniverse[r.Intn(len(keyUniverse))])
			what += AliasGetName(dv, mu, local) + " "
		}
	}
	tx := p.Tx("memory-probe", []neotest.Signer{u.S}, w.Bytes(), -1)
	if p.probes == nil {
		p.probes = map[util.Uint256]string{}
	}
	p.probes[tx.Hash()] = strings.TrimSpace(what)
	return tx
}

func (p *Producer) opUpdate() *transaction.Transaction {
	if len(p.Live) == 0 {
		return nil
	}
	d := p.Live[p.R.Intn(len(p.Live))]
	if d.Owner < 0 || p.Users[d.Owner].Blocked {
		return nil
	}
	u := p.Users[d.Owner]
	ver := 3 - d.Version
	variant := p.manifestVariant()
	c := StoreContractVariant(p.T, u.Hash(), d.Name, ver, variant)
	mb, _ := json.Marshal(c.Manifest)
	nb, _ := c.NEF.Bytes()
	tx := p.Call("update", []neotest.Signer{u.S}, d.Hash, "update", nb, mb)
	p.pending[tx.Hash()] = func() { d.Version, d.Variant = ver, variant }
	return tx
}

func (p *Producer) opDestroy() *transaction.Transaction {
	if len(p.Live) < 2 {
		return nil
	}
	u := p.freeUser()
	if u == nil {
		return nil
	}
	d := p.Live[p.R.Intn(len(p.Live))]
	plan := p.Plan(3, false)
	plan = append(plan, []any{2})
	return p.Call("destroy", []neotest.Signer{u.S}, d.Hash, "run", plan)
}

func (p *Producer) opNotary() *transaction.Transaction {
	u := p.freeUser()
	if u == nil {
		return nil
	}
	h := p.BC.BlockHeight()
	switch p.R.Intn(5) {
	case 0, 1:
		var to any
		if p.R.Intn(3) == 0 {
			to = p.Users[p.R.Intn(len(p.Users))].Hash()
		}
		return p.Call("notary-deposit", []neotest.Signer{u.S}, p.GasH, "transfer", u.Hash(), p.NotaryH, 2_0000_0000+p.amount(5_0000_0000), []any{to, int64(h) + int64(2+p.R.Intn(8))})
	case 2:
		return p.Call("notary-lock", []neotest.Signer{u.S}, p.NotaryH, "lockDepositUntil", u.Hash(), int64(h)+int64(2+p.R.Intn(20)))
	default:
		return p.Call("notary-withdraw", []neotest.Signer{u.S}, p.NotaryH, "withdraw", u.Hash(), u.Hash())
	}
}

// NotaryNodeKey is a key the harness designates as a P2PNotary node.
func NotaryNodeKey() *keys.PrivateKey { return DetKey("role", 0) }

// opNotaryAssisted builds a transaction sent by the Notary contract and paid
// from the deposit of a user (as the notary service does for completed
// requests): signers [Notary (None), user], NotaryAssisted attribute, the
// Notary witness signed by a designated notary node whose key the harness has.
func (p *Producer) opNotaryAssisted() *transaction.Transaction {
	nodes, _, err := p.BC.GetDesignatedByRole(noderoles.P2PNotary)
	if err != nil || len(nodes) == 0 {
		return nil
	}
	var node *keys.PrivateKey
	for i := 0; i < 6 && node == nil; i++ {
		k := DetKey("role", i)
		for _, n := range nodes {
			if n.Equal(k.PublicKey()) {
				node = k
			}
		}
	}
	if node == nil {
		return nil
	}
	// payers with a deposit; the same payer is chosen again with high probability
	var payers []*User
	for _, u := range p.Users {
		if !u.Blocked && p.BC.GetUtilityTokenBalance(p.NotaryH, u.Hash()).Cmp(big.NewInt(1_0000_0000)) > 0 {
			payers = append(payers, u)
		}
	}
	if len(payers) == 0 {
		return nil
	}
	u := payers[p.R.Intn(len(payers))]
	if p.lastPayer != nil && !p.lastPayer.Blocked && p.R.Intn(2) == 0 {
		for _, c := range payers {
			if c == p.lastPayer {
				u = c
			}
		}
	}
	p.lastPayer = u
	nKeys := 1 + p.R.Intn(3)
	script := []byte{byte(opcode.PUSH1)}
	if len(p.Live) > 0 && p.R.Intn(2) == 0 {
		script, _ = smartcontract.CreateCallScript(p.Live[p.R.Intn(len(p.Live))].Hash, "run", p.Plan(2, true))
	}
	tx := transaction.New(script, int64(1000_0000+p.R.Intn(3000_0000)))
	p.nonce++
	tx.Nonce = p.nonce
	tx.ValidUntilBlock = p.BC.BlockHeight() + 1
	tx.Attributes = []transaction.Attribute{{Type: transaction.NotaryAssistedT, Value: &transaction.NotaryAssisted{NKeys: uint8(nKeys)}}}
	tx.Signers = []transaction.Signer{{Account: p.NotaryH, Scopes: transaction.None}, {Account: u.Hash(), Scopes: transaction.None}}
	neotest.AddNetworkFee(p.T, p.BC, tx, u.S)
	// room for the Notary witness (size and verification through the native contract)
	tx.NetworkFee += 100*p.BC.FeePerByte() + 1000_0000
	magic := p.BC.GetConfig().Magic
	tx.Scripts = []transaction.Witness{
		{InvocationScript: append([]byte{byte(opcode.PUSHDATA1), keys.SignatureLen}, node.SignHashable(uint32(magic), tx)...)},
		{InvocationScript: append([]byte{byte(opcode.PUSHDATA1), keys.SignatureLen}, u.Acc.PrivateKey().SignHashable(uint32(magic), tx)...), VerificationScript: u.Acc.Contract.Script},
	}
	if dep := p.BC.GetUtilityTokenBalance(p.NotaryH, u.Hash()); dep.Cmp(big.NewInt(tx.SystemFee+tx.NetworkFee+p.spent[u.Idx])) < 0 {
		return nil
	}
	p.spent[u.Idx] += tx.SystemFee + tx.NetworkFee
	p.TxKinds[tx.Hash()] = "notary-assisted"
	return tx
}

// oracleReq is a pending oracle request as learnt from its OracleRequest event.
type oracleReq struct {
	id     uint64
	gas    int64
	height uint32 // block of the request transaction
}

// opOracle files an oracle request through a helper contract or, when
// requests are pending and oracle nodes are designated with keys of this
// harness, answers one of them with a response transaction built the way the
// oracle service builds it (sender: the Oracle contract, which pays with the
// GAS minted for the request; second signer: the oracle nodes' multisignature).
func (p *Producer) opOracle() *transaction.Transaction {
	r := p.R
	if len(p.oracleReqs) > 0 && r.Intn(2) == 0 {
		if tx := p.oracleResponse(); tx != nil {
			return tx
		}
	}
	if len(p.Live) == 0 {
		return p.opDeploy()
	}
	u := p.freeUser()
	if u == nil {
		return nil
	}
	d := p.Live[r.Intn(len(p.Live))]
	if r.Intn(4) != 0 {
		// mostly through a contract that may call the Oracle at all
		for _, c := range p.Live {
			if c.Variant == 0 {
				d = c
				break
			}
		}
	}
	url := fmt.Sprintf("https://example.org/%d", r.Intn(3)) // few URLs: several ids per URL list
	var filter any
	if r.Intn(2) == 0 {
		filter = []byte("$.x")
	}
	var data any
	switch r.Intn(4) {
	case 0:
		data = []any{int64(1)}
	case 1, 2:
		data = []any{int64(2), p.Plan(3, true)}
	}
	gas := int64(1000_0000)
	switch r.Intn(8) {
	case 0:
		gas = 999_9999 // below the minimum: the request faults
	case 1:
		gas = 1000_0000
	default:
		gas = 1_0000_0000 + int64(r.Intn(5000_0000))
	}
	tx := p.Call("oracle-request", []neotest.Signer{u.S}, d.Hash, "askOracle", url, filter, data, gas)
	h := tx.Hash()
	p.pending[h] = func() {
		aer, err := p.BC.GetAppExecResults(h, trigger.Application)
		if err != nil || len(aer) != 1 {
			return
		}
		for _, e := range aer[0].Events {
			if e.Name != "OracleRequest" || e.ScriptHash != nativehashes.OracleContract {
				continue
			}
			if arr, ok := e.Item.Value().([]stackitem.Item); ok && len(arr) > 0 {
				if id, err := arr[0].TryInteger(); err == nil {
					p.oracleReqs = append(p.oracleReqs, oracleReq{id: id.Uint64(), gas: gas, height: p.BC.BlockHeight()})
				}
			}
		}
	}
	return tx
}

func (p *Producer) oracleResponse() *transaction.Transaction {
	r := p.R
	nodes, _, err := p.BC.GetDesignatedByRole(noderoles.Oracle)
	if err != nil || len(nodes) == 0 {
		return nil
	}
	sort.Sort(nodes)
	var accs []*wallet.Account
	for _, n := range nodes {
		var k *keys.PrivateKey
		for i := 0; i < 6; i++ {
			if c := DetKey("role", i); n.Equal(c.PublicKey()) {
				k = c
			}
		}
		if k == nil {
			return nil
		}
		accs = append(accs, wallet.NewAccountFromPrivateKey(k))
	}
	m := smartcontract.GetDefaultHonestNodeCount(len(nodes))
	for _, a := range accs {
		if err := a.ConvertMultisig(m, nodes.Copy()); err != nil {
			return nil
		}
	}
	ms := neotest.NewMultiSigner(accs...)
	// Oracle.finish loads the request's transaction, which nodes that prune or
	// were state-synchronised no longer hold once it is older than the retained
	// window (known finding, pinned by C20's directed scenario): requests
	// older than OracleMaxAge blocks are left unanswered.
	maxAge := uint32(p.OracleMaxAge)
	if maxAge == 0 {
		maxAge = 3
	}
	fresh := p.oracleReqs[:0:0]
	for _, q := range p.oracleReqs {
		if q.height+maxAge >= p.BC.BlockHeight()+1 {
			fresh = append(fresh, q)
		}
	}
	p.oracleReqs = fresh
	if len(p.oracleReqs) == 0 {
		return nil
	}
	i := r.Intn(len(p.oracleReqs))
	req := p.oracleReqs[i]
	p.oracleReqs = append(p.oracleReqs[:i:i], p.oracleReqs[i+1:]...) // a request is answered at most once
	resp := &transaction.OracleResponse{ID: req.id, Code: transaction.Success, Result: []byte(fmt.Sprintf(`{"x":%d}`, r.Intn(1000)))}
	switch r.Intn(5) {
	case 0:
		resp.Code, resp.Result = transaction.Timeout, nil
	case 1:
		resp.Code, resp.Result = transaction.Error, nil
	}
	tx := transaction.New(native.CreateOracleResponseScript(nativehashes.OracleContract), 0)
	tx.Nonce = uint32(req.id)
	tx.ValidUntilBlock = p.BC.BlockHeight() + 1
	tx.Attributes = []transaction.Attribute{{Type: transaction.OracleResponseT, Value: resp}}
	tx.Signers = []transaction.Signer{{Account: nativehashes.OracleContract, Scopes: transaction.None}, {Account: ms.ScriptHash(), Scopes: transaction.None}}
	// The whole GAS of the request is spent: the network fee covers size and
	// both witnesses with a margin, the rest is the system fee of the callback.
	tx.NetworkFee = 600*p.BC.FeePerByte() + 800_0000
	if tx.NetworkFee > req.gas {
		tx.NetworkFee = req.gas
	}
	tx.SystemFee = req.gas - tx.NetworkFee
	tx.Scripts = []transaction.Witness{{}}
	if err := ms.SignTx(p.BC.GetConfig().Magic, tx); err != nil {
		return nil
	}
	p.TxKinds[tx.Hash()] = "oracle-response"
	return tx
}

func (p *Producer) opFault() *transaction.Transaction {
	u := p.freeUser()
	if u == nil {
		return nil
	}
	w := io.NewBufBinWriter()
	switch p.R.Intn(4) {
	case 0:
		emit.Opcodes(w.BinWriter, opcode.ABORT)
		return p.Tx("fault-abort", []neotest.Signer{u.S}, w.Bytes(), 1_0000_0000)
	case 1: // native side effects first, then throw
		emit.AppCall(w.BinWriter, p.GasH, "transfer", 15, u.Hash(), p.Users[(u.Idx+1)%len(p.Users)].Hash(), int64(777), nil)
		emit.AppCall(w.BinWriter, p.NeoH, "vote", 15, u.Hash(), nil)
		emit.Opcodes(w.BinWriter, opcode.PUSH1, opcode.THROW)
		return p.Tx("fault-after-native", []neotest.Signer{u.S}, w.Bytes(), 3_0000_0000)
	case 2: // out of gas in the middle of storage writes
		if len(p.Live) == 0 {
			return nil
		}
		d := p.Live[p.R.Intn(len(p.Live))]
		var plan []any
		for i := 0; i < 30; i++ {
			plan = append(plan, []any{0, []byte(fmt.Sprintf("g%d", i)), []byte("vvvvvvvvvvvvvvvvvvvv")})
		}
		script, _ := smartcontract.CreateCallScript(d.Hash, "run", plan)
		return p.Tx("fault-out-of-gas", []neotest.Signer{u.S}, script, 3000_0000)
	default:
		if len(p.Live) == 0 {
			return nil
		}
		d := p.Live[p.R.Intn(len(p.Live))]
		plan := p.Plan(4, false)
		plan = append(plan, []any{4})
		return p.Call("fault-late-in-contract", []neotest.Signer{u.S}, d.Hash, "run", plan)
	}
}

func (p *Producer) opPayment() *transaction.Transaction {
	if len(p.Live) == 0 {
		return nil
	}
	u := p.freeUser()
	if u == nil {
		return nil
	}
	d := p.Live[p.R.Intn(len(p.Live))]
	var data any
	switch p.R.Intn(4) {
	case 0:
		data = nil
	case 1:
		data = []any{int64(1)} // receiver throws
	default:
		data = []any{int64(2), p.Plan(3, true)} // receiver writes / notifies / may throw
	}
	tok := p.GasH
	kind := "pay-gas-to-contract"
	amt := int64(1 + p.R.Intn(1000))
	if u.HasNEO && p.R.Intn(3) == 0 {
		tok, kind, amt = p.NeoH, "pay-neo-to-contract", int64(1+p.R.Intn(10))
	}
	return p.Call(kind, []neotest.Signer{u.S}, tok, "transfer", u.Hash(), d.Hash, amt, data)
}

// OpVote, OpNeoTransfer and OpCandidate expose single operations.
func (p *Producer) OpVote() *transaction.Transaction        { return p.opVote() }
func (p *Producer) OpNeoTransfer() *transaction.Transaction { return p.opNeoTransfer() }
func (p *Producer) OpCandidate() *transaction.Transaction   { return p.opCandidate() }

// Churn is a scripted sequence over several blocks: a candidate loses its
// only voters, is unregistered (its record is dropped), registers again, is
// voted again, and after an epoch boundary the voter moves NEO.
type Churn struct {
	p      *Producer
	c      *User
	voters []*User
	step   int
	waitTo int
	// unregFirst: the candidate unregisters while still voted for and is dropped
	// when its last voter leaves (the other order drops it at unregistration)
	unregFirst bool
}

// NewChurn picks a candidate with known voters (nil if none fits).
func (p *Producer) NewChurn() *Churn {
	cs := p.candidates()
	if len(cs) == 0 {
		return nil
	}
	c := cs[p.R.Intn(len(cs))]
	ch := &Churn{p: p, c: c, unregFirst: p.R.Intn(2) == 0}
	for _, u := range p.Users {
		st := p.BC.GetStorageItem(nativeids.NeoToken, append([]byte{20}, u.Hash().BytesBE()...))
		if st == nil || u.Blocked {
			continue
		}
		nb, err := state.NEOBalanceFromBytes(st)
		if err == nil && nb.VoteTo != nil && nb.VoteTo.Equal(c.Acc.PublicKey()) {
			ch.voters = append(ch.voters, u)
		}
	}
	if len(ch.voters) == 0 || len(ch.voters) > 2 || c.Blocked {
		return nil
	}
	return ch
}

// Next returns the transaction of the script for block number next.
func (ch *Churn) Next(next int) (*transaction.Transaction, bool) {
	p := ch.p
	defer func() { ch.step++ }()
	nv := len(ch.voters)
	if ch.c.Blocked {
		return nil, true // a blocked account cannot sign: abandon the script
	}
	for _, v := range ch.voters {
		if v.Blocked {
			return nil, true
		}
	}
	switch {
	case ch.unregFirst && ch.step == 0:
		return p.Call("churn-unregister-while-voted", []neotest.Signer{ch.c.S}, p.NeoH, "unregisterCandidate", ch.c.Acc.PublicKey().Bytes()), false
	case ch.unregFirst && ch.step <= nv:
		v := ch.voters[ch.step-1]
		return p.Call("churn-unvote-unregistered", []neotest.Signer{v.S}, p.NeoH, "vote", v.Hash(), nil), false
	case ch.step < nv:
		v := ch.voters[ch.step]
		return p.Call("churn-unvote", []neotest.Signer{v.S}, p.NeoH, "vote", v.Hash(), nil), false
	case ch.step == nv:
		return p.Call("churn-unregister", []neotest.Signer{ch.c.S}, p.NeoH, "unregisterCandidate", ch.c.Acc.PublicKey().Bytes()), false
	case ch.step == nv+1:
		return p.Call("churn-register", []neotest.Signer{ch.c.S}, p.NeoH, "registerCandidate", ch.c.Acc.PublicKey().Bytes()), false
	case ch.step < 2*nv+2:
		v := ch.voters[ch.step-nv-2]
		return p.Call("churn-vote", []neotest.Signer{v.S}, p.NeoH, "vote", v.Hash(), ch.c.Acc.PublicKey().Bytes()), false
	case ch.step == 2*nv+2:
		ch.waitTo = next + 2*Epoch
		return nil, false
	case next < ch.waitTo:
		return nil, false
	default:
		v := ch.voters[0]
		return p.Call("churn-claim", []neotest.Signer{v.S}, p.NeoH, "transfer", v.Hash(), v.Hash(), int64(0), nil), true
	}
}

// KindsSummary returns the sorted kind:result counters.
func (p *Producer) KindsSummary() []string {
	var ks []string
	for k, n := range p.Kinds {
		ks = append(ks, fmt.Sprintf("%s=%d", k, n))
	}
	sort.Strings(ks)
	return ks
}

var _ = big.NewInt

// Package vrpc starts the node's real JSON-RPC server over a Blockchain of the
// harness and gives checks a real RPC client for it (loopback only).
package vrpc

import (
	"context"
	"fmt"
	"testing"

	"github.com/nspcc-dev/neo-go/pkg/config"
	"github.com/nspcc-dev/neo-go/pkg/core"
	"github.com/nspcc-dev/neo-go/pkg/encoding/fixedn"
	"github.com/nspcc-dev/neo-go/pkg/network"
	"github.com/nspcc-dev/neo-go/pkg/rpcclient"
	"github.com/nspcc-dev/neo-go/pkg/services/rpcsrv"
	"go.uber.org/zap"
)

// Node is a running RPC server with a connected client.
type Node struct {
	Srv    *rpcsrv.Server
	Net    *network.Server
	Client *rpcclient.Client
	URL    string
}

// Start wraps bc with a network.Server (never started: no P2P) and an RPC
// server listening on a loopback port chosen by the kernel.
func Start(t testing.TB, bc *core.Blockchain, mod func(*config.RPC)) (*Node, error) {
	cfg := config.Config{ProtocolConfiguration: bc.GetConfig().ProtocolConfiguration}
	cfg.ApplicationConfiguration.P2P.Addresses = []string{"127.0.0.1:0"}
	cfg.ApplicationConfiguration.P2P.MaxPeers = 1
	cfg.ApplicationConfiguration.P2P.AttemptConnPeers = 1
	cfg.ApplicationConfiguration.P2P.MinPeers = 0
	scfg, err := network.NewServerConfig(cfg)
	if err != nil {
		return nil, fmt.Errorf("server config: %w", err)
	}
	scfg.UserAgent = "/verif-harness/"
	log := zap.NewNop()
	ns, err := network.NewServer(scfg, bc, bc.GetStateSyncModule(), log)
	if err != nil {
		return nil, fmt.Errorf("network server: %w", err)
	}
	rc := config.RPC{
		BasicService: config.BasicService{Enabled: true, Addresses: []string{"127.0.0.1:0"}},
		// the network server is never started (no P2P): relay accepted
		// transactions directly to the (absent) peers instead of queueing them
		// for a broadcast loop that is not running
		DirectRelay:               true,
		MaxGasInvoke:              fixedn.Fixed8FromInt64(100),
		MaxIteratorResultItems:    100,
		MaxFindResultItems:        100,
		MaxFindStorageResultItems: 50,
		MaxNEP11Tokens:            100,
		MaxRequestBodyBytes:       5 << 20,
		MaxRequestHeaderBytes:     1 << 20,
		MaxWebSocketClients:       8,
		SessionEnabled:            true,
		MaxWebSocketFeeds:         16,
		SessionPoolSize:           20,
	}
	if mod != nil {
		mod(&rc)
	}
	errCh := make(chan error, 4)
	srv := rpcsrv.New(bc, rc, ns, nil, log, errCh)
	srv.Start()
	addrs := srv.Addresses()
	if len(addrs) == 0 {
		return nil, fmt.Errorf("RPC server has no listening address")
	}
	n := &Node{Srv: srv, Net: ns, URL: "http://" + addrs[0]}
	c, err := rpcclient.New(context.Background(), n.URL, rpcclient.Options{})
	if err != nil {
		srv.Shutdown()
		return nil, err
	}
	if err := c.Init(); err != nil {
		srv.Shutdown()
		return nil, fmt.Errorf("client init: %w", err)
	}
	n.Client = c
	return n, nil
}

// Stop shuts the server down.
func (n *Node) Stop() {
	if n.Client != nil {
		n.Client.Close()
	}
	n.Srv.Shutdown()
}

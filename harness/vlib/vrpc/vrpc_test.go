package vrpc

import (
	"testing"

	"github.com/nspcc-dev/neo-go/verifharness/vlib/vchain"
)

func TestStart(t *testing.T) {
	p := vchain.NewProducer(t, vchain.ProducerConfig{Proto: vchain.AllForks, Users: 3, Stream: 1})
	defer p.Close()
	n, err := Start(t, p.BC, nil)
	if err != nil {
		t.Fatal(err)
	}
	defer n.Stop()
	h, err := n.Client.GetBlockCount()
	if err != nil {
		t.Fatal(err)
	}
	t.Log("block count over RPC:", h, n.URL)
	sr, err := n.Client.GetStateRootByHeight(1)
	t.Log(sr, err)
}

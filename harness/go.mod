module github.com/nspcc-dev/neo-go/verifharness

go 1.25.0

require (
	github.com/anishathalye/porcupine v1.3.0
	github.com/nspcc-dev/neo-go v0.121.0
	github.com/nspcc-dev/neo-go/pkg/interop v0.0.0-20260609115526-14bc7067ea2e
	go.etcd.io/gofail v0.2.0
	go.uber.org/zap v1.27.1
)

require (
	github.com/antlr4-go/antlr/v4 v4.13.1 // indirect
	github.com/beorn7/perks v1.0.1 // indirect
	github.com/bits-and-blooms/bitset v1.24.0 // indirect
	github.com/cespare/xxhash/v2 v2.3.0 // indirect
	github.com/consensys/gnark-crypto v0.19.2 // indirect
	github.com/cpuguy83/go-md2man/v2 v2.0.7 // indirect
	github.com/davecgh/go-spew v1.1.1 // indirect
	github.com/decred/dcrd/crypto/ripemd160 v1.0.2 // indirect
	github.com/decred/dcrd/dcrec/secp256k1/v4 v4.4.1 // indirect
	github.com/golang/snappy v0.0.1 // indirect
	github.com/google/uuid v1.6.0 // indirect
	github.com/gorilla/websocket v1.5.3 // indirect
	github.com/hashicorp/golang-lru/v2 v2.0.7 // indirect
	github.com/holiman/uint256 v1.3.2 // indirect
	github.com/mr-tron/base58 v1.2.0 // indirect
	github.com/munnerz/goautoneg v0.0.0-20191010083416-a7dc8b61c822 // indirect
	github.com/nspcc-dev/bbolt v0.0.0-20260404200350-24f70ceb2bd9 // indirect
	github.com/nspcc-dev/dbft v0.4.0 // indirect
	github.com/nspcc-dev/go-ordered-json v0.0.0-20260302080601-ff7471f924b3 // indirect
	github.com/nspcc-dev/hrw/v2 v2.0.4 // indirect
	github.com/nspcc-dev/neofs-sdk-go v1.0.0-rc.21 // indirect
	github.com/nspcc-dev/rfc6979 v0.2.4 // indirect
	github.com/nspcc-dev/tzhash v1.8.4 // indirect
	github.com/pierrec/lz4 v2.6.1+incompatible // indirect
	github.com/pmezard/go-difflib v1.0.0 // indirect
	github.com/prometheus/client_golang v1.23.2 // indirect
	github.com/prometheus/client_model v0.6.2 // indirect
	github.com/prometheus/common v0.66.1 // indirect
	github.com/prometheus/procfs v0.16.1 // indirect
	github.com/russross/blackfriday/v2 v2.1.0 // indirect
	github.com/stretchr/testify v1.11.1 // indirect
	github.com/syndtr/goleveldb v1.0.1-0.20210305035536-64b5b1c73954 // indirect
	github.com/twmb/murmur3 v1.1.8 // indirect
	github.com/urfave/cli/v2 v2.27.7 // indirect
	github.com/xrash/smetrics v0.0.0-20250705151800-55b8f293f342 // indirect
	go.uber.org/multierr v1.11.0 // indirect
	go.yaml.in/yaml/v2 v2.4.2 // indirect
	golang.org/x/crypto v0.52.0 // indirect
	golang.org/x/exp v0.0.0-20250911091902-df9299821621 // indirect
	golang.org/x/mod v0.35.0 // indirect
	golang.org/x/net v0.55.0 // indirect
	golang.org/x/sync v0.20.0 // indirect
	golang.org/x/sys v0.45.0 // indirect
	golang.org/x/term v0.43.0 // indirect
	golang.org/x/text v0.37.0 // indirect
	golang.org/x/tools v0.44.0 // indirect
	google.golang.org/genproto/googleapis/rpc v0.0.0-20260414002931-afd174a4e478 // indirect
	google.golang.org/grpc v1.82.1 // indirect
	google.golang.org/protobuf v1.36.11 // indirect
	gopkg.in/yaml.v3 v3.0.1 // indirect
)

replace github.com/nspcc-dev/neo-go => /repo

// Package c13 compares the real NeoVM of the code under test with the
// independent executable specification vlib/vmspec (property C13): final state
// class, result stack (with aliasing) and run-twice determinism, over
// per-opcode boundary sweeps, random typed sequences and structured control
// flow programs.
package c13

import (
	"encoding/hex"
	"fmt"
	"math/big"
	"os"
	"runtime"
	"sort"
	"strings"
	"sync"
	"testing"

	"github.com/nspcc-dev/neo-go/pkg/vm/opcode"
	"github.com/nspcc-dev/neo-go/verifharness/vlib/ev"
	"github.com/nspcc-dev/neo-go/verifharness/vlib/rng"
	"github.com/nspcc-dev/neo-go/verifharness/vlib/vmspec"
)

type kase struct {
	script []byte
	cover  string // coverage signature part (what was exercised)
	desc   string
}

type family struct {
	name string
	n    int
	gen  func(i int) kase
}

func mixRadix(i int, radices ...int) []int {
	out := make([]int, len(radices))
	for k, r := range radices {
		out[k] = i % r
		i /= r
	}
	return out
}

func buildFamilies() []family {
	core, full := pools(rng.New(7))
	un, bin, tern := sweepOps()
	binPool := core
	if ev.Tier() == "thorough" {
		binPool = full
	}
	var ints []val
	for _, v := range full {
		if strings.HasPrefix(v.cls, "i") {
			ints = append(ints, v)
		}
	}
	var intsBig []*big.Int
	for _, v := range ints {
		var x big.Int
		x.SetString(strings.TrimPrefix(v.desc, "int "), 10)
		intsBig = append(intsBig, &x)
	}
	// a small integer set for the exhaustive triples
	t3 := []val{}
	want := map[string]bool{"0": true, "1": true, "-1": true, "2": true, "-2": true, "3": true, "-3": true, "7": true, "256": true, "-257": true}
	for _, v := range ints {
		d := strings.TrimPrefix(v.desc, "int ")
		if want[d] {
			t3 = append(t3, v)
			delete(want, d)
		}
	}
	t3 = append(t3, intVal(pow2(255, -1)), intVal(new(big.Int).Neg(pow2(255, 0))), intVal(pow2(128, 1)), intVal(new(big.Int).Neg(pow2(127, 0))))
	if ev.Tier() == "thorough" {
		for _, v := range ints {
			if len(t3) >= 30 {
				break
			}
			dup := false
			for _, u := range t3 {
				if u.desc == v.desc {
					dup = true
				}
			}
			if !dup {
				t3 = append(t3, v)
			}
		}
	}
	var valid []byte
	for b := 0; b < 256; b++ {
		if vmspec.Defined(byte(b)) {
			valid = append(valid, byte(b))
		}
	}
	var rep12 []val
	for _, c := range []string{"null", "true", "i0", "i+255", "i-tiny", "bs1", "bs33", "buf1", "arr0", "struct0", "map0", "ptr"} {
		for _, v := range core {
			if v.cls == c {
				rep12 = append(rep12, v)
				break
			}
		}
	}
	if len(rep12) != 12 {
		panic("rep12")
	}
	eqv := eqValues()
	fams := []family{
		{"un", len(un) * len(full), func(i int) kase {
			x := mixRadix(i, len(full), len(un))
			so, v := un[x[1]], full[x[0]]
			return kase{sweepScript(so, v), so.o.String() + "|" + v.cls, so.o.String() + "(" + v.desc + ")"}
		}},
		{"conv", 2 * len(typeBytes) * len(full), func(i int) kase {
			x := mixRadix(i, len(full), len(typeBytes), 2)
			o := []vmspec.Op{vmspec.CONVERT, vmspec.ISTYPE}[x[2]]
			v := full[x[0]]
			so := sweepOp{o, 1, []byte{typeBytes[x[1]]}}
			return kase{sweepScript(so, v), fmt.Sprintf("%s|%02x|%s", o, typeBytes[x[1]], v.cls), fmt.Sprintf("%s %02x (%s)", o, typeBytes[x[1]], v.desc)}
		}},
		{"convall", 2 * 256 * 12, func(i int) kase {
			x := mixRadix(i, 256, 12, 2)
			o := []vmspec.Op{vmspec.CONVERT, vmspec.ISTYPE}[x[2]]
			v := rep12[x[1]]
			so := sweepOp{o, 1, []byte{byte(x[0])}}
			return kase{sweepScript(so, v), fmt.Sprintf("%s|%02x|%s", o, x[0], v.cls), fmt.Sprintf("%s %02x (%s)", o, x[0], v.desc)}
		}},
		{"newarrayt", 256 * 4, func(i int) kase {
			x := mixRadix(i, 256, 4)
			n := []int64{0, 1, 2, -1}[x[1]]
			return kase{cat(pushI(n), op(vmspec.NEWARRAYT, byte(x[0]))), fmt.Sprintf("NEWARRAYT|%02x|%d", x[0], n), fmt.Sprintf("NEWARRAYT %02x n=%d", x[0], n)}
		}},
		{"bin", len(bin) * len(binPool) * len(binPool), func(i int) kase {
			x := mixRadix(i, len(binPool), len(binPool), len(bin))
			so, a, b := bin[x[2]], binPool[x[1]], binPool[x[0]]
			return kase{sweepScript(so, a, b), so.o.String() + "|" + a.cls + "|" + b.cls, so.o.String() + "(" + a.desc + ", " + b.desc + ")"}
		}},
		{"tern3", 3 * len(t3) * len(t3) * len(t3), func(i int) kase {
			x := mixRadix(i, len(t3), len(t3), len(t3), 3)
			so := tern[x[3]]
			a, b, c := t3[x[2]], t3[x[1]], t3[x[0]]
			return kase{sweepScript(so, a, b, c), so.o.String() + "|" + a.cls + "|" + b.cls + "|" + c.cls, so.o.String() + "(" + a.desc + ", " + b.desc + ", " + c.desc + ")"}
		}},
		{"ternr", ev.Pick(40000, 2400000), func(i int) kase {
			r := rng.New(uint64(i) + 3<<40)
			so := tern[r.Intn(len(tern))]
			pick := func() val {
				if r.Chance(5, 6) {
					return ints[r.Intn(len(ints))]
				}
				return full[r.Intn(len(full))]
			}
			a, b, c := pick(), pick(), pick()
			if so.o == vmspec.MODPOW && r.Chance(1, 2) {
				b = intVal(big.NewInt(int64(r.Intn(12) - 2)))
			}
			if so.o == vmspec.SUBSTR || so.o == vmspec.SETITEM {
				a = full[r.Intn(len(full))]
				if r.Chance(2, 3) {
					b = intVal(big.NewInt(int64(r.Intn(6) - 1)))
				}
				if so.o == vmspec.SUBSTR && r.Chance(2, 3) {
					c = intVal(big.NewInt(int64(r.Intn(6) - 1)))
				}
				if so.o == vmspec.SETITEM {
					c = full[r.Intn(len(full))]
				}
			}
			return kase{sweepScript(so, a, b, c), so.o.String() + "|" + a.cls + "|" + b.cls + "|" + c.cls, so.o.String() + "(" + a.desc + ", " + b.desc + ", " + c.desc + ")"}
		}},
		{"splice", ev.Pick(40000, 1200000), func(i int) kase {
			sc, what := spliceCase(rng.New(uint64(i)+4<<40), i)
			return kase{sc, what + "|" + shape(sc), what}
		}},
		{"seq", ev.Pick(200000, 15000000), func(i int) kase {
			sc, names := genSeq(rng.New(uint64(i)+5<<40), intsBig)
			return kase{sc, strings.Join(names, " "), "typed sequence"}
		}},
		{"compound", ev.Pick(50000, 3000000), func(i int) kase {
			sc, names := genCompound(rng.New(uint64(i) + 6<<40))
			return kase{sc, strings.Join(names, " "), "compound scenario"}
		}},
		{"ctl", ev.Pick(70000, 5000000), func(i int) kase {
			sc, names, mut := genCtl(rng.New(uint64(i) + 7<<40))
			c := strings.Join(names, " ")
			if mut {
				c += " ~" + shape(sc)
			}
			return kase{sc, c, "control-flow program"}
		}},
		{"tryoff", 15 * 15 * 15 * 4, func(i int) kase {
			sc, what := tryOffCase(i)
			return kase{sc, "TRY|" + what, "TRY offsets " + what}
		}},
		{"trystart", 3 * 4 * 3 * 2, func(i int) kase {
			sc, what := tryStartCase(i)
			return kase{sc, "TRY-handler-before-TRY|" + what, "TRY with a handler at the start of the script " + what}
		}},
		{"endfin", 5 * 4 * 2, func(i int) kase {
			sc, what := endfinCase(i)
			return kase{sc, what, what}
		}},
		{"jmpoff", 16 * 9, func(i int) kase {
			sc, what := jmpOffCase(i)
			return kase{sc, "JMP|" + what, "jump offsets " + what}
		}},
		{"alias", 6 * 17 * 8 * 3, func(i int) kase {
			sc, what := aliasCase(i)
			return kase{sc, what, what}
		}},
		{"aliasr", ev.Pick(25000, 1800000), func(i int) kase {
			sc, names := aliasRandom(rng.New(uint64(i) + 9<<40))
			return kase{sc, names, "random derivation chain: " + names}
		}},
		{"sharedeq", 11 * 7 * 2, func(i int) kase {
			sc, what := sharedBudgetCase(i)
			return kase{sc, what, what}
		}},
		{"eq", len(eqv) * len(eqv) * 4, func(i int) kase {
			sc, what := eqCase(i, eqv)
			return kase{sc, what, what}
		}},
		{"slots", 4 * 4 * 5 * 8 * 8, func(i int) kase {
			sc, what := slotCase(i)
			return kase{sc, what, what}
		}},
		{"limits", 3*98 + 8 + 6, func(i int) kase {
			sc, what := limitsCase(i)
			return kase{sc, what, what}
		}},
		{"raw", ev.Pick(35000, 2400000), func(i int) kase {
			sc := genRaw(rng.New(uint64(i)+8<<40), valid)
			return kase{sc, shape(sc), "opcode soup"}
		}},
	}
	return fams
}

// shape is the opcode sequence of a script (operands dropped).
func shape(sc []byte) string {
	var sb strings.Builder
	for ip := 0; ip < len(sc); {
		o := vmspec.Op(sc[ip])
		sb.WriteString(o.String())
		sb.WriteByte(' ')
		fixed, prefix := vmspec.OperandSize(o)
		ip++
		if prefix > 0 {
			l := 0
			for k := prefix - 1; k >= 0; k-- {
				if ip+k < len(sc) {
					l = l<<8 | int(sc[ip+k])
				}
			}
			ip += prefix + l
		} else {
			ip += fixed
		}
	}
	return sb.String()
}

func lastKind(canon string) string {
	if i := strings.LastIndex(canon, " | "); i >= 0 {
		canon = canon[i+3:]
	}
	for i, c := range canon {
		if c == ':' || c == '#' || c == '[' || c == '{' {
			return canon[:i]
		}
	}
	return canon
}

type stats struct {
	ops  [256]int64
	obs  map[string]int64
	tags map[string]int64
}

func (st *stats) add(k string, n int64) { st.obs[k] += n }

func runCase(run *ev.Run, st *stats, fam string, idx int, k kase) {
	id := fmt.Sprintf("%s:%d", fam, idx)
	m := vmspec.New(k.script)
	if strings.HasPrefix(k.cover, "recursion-depth") {
		m.MaxSteps = 20000 // the invocation-depth cases need ~6 steps per level
	}
	for m.State == vmspec.Running {
		m.Step()
		st.ops[m.LastOp]++
		if m.Tag != "" {
			st.tags[m.Tag]++
		}
	}
	st.add(fam+"_cases", 1)
	st.add("spec_steps", int64(m.Steps))
	if m.State == vmspec.Discard {
		st.add("discarded:"+m.Reason, 1)
		run.Case("discard|"+m.Reason, false)
		return
	}
	r1 := runVM(k.script)
	r2 := runVM(k.script)
	st.add("vm_runs", 2)
	wit := func() map[string]any {
		return map[string]any{
			"family": fam, "index": idx, "what": k.desc, "script_hex": hex.EncodeToString(k.script), "script": vmspec.Disasm(k.script),
			"vm":   map[string]any{"state": r1.class, "stack": r1.canon, "gas": r1.gas, "error": r1.err, "panic": r1.pan},
			"spec": map[string]any{"state": m.State.String(), "stack": vmspec.Canon(m.Stack()), "reason": m.Reason, "steps": m.Steps},
		}
	}
	if r1.pan != "" {
		run.Violation("vm-panic-escapes-Run:"+m.LastOp.String(), id, "panic escaped VM.Run: "+r1.pan, wit())
		return
	}
	if r1.scriptChanged || r2.scriptChanged {
		run.Violation("vm-modified-the-loaded-script", id, k.desc+": the program bytes differ after the run (an item aliases the script)", wit())
	}
	if r1.class != r2.class || r1.canon != r2.canon || r1.gas != r2.gas {
		w := wit()
		w["vm_second_run"] = map[string]any{"state": r2.class, "stack": r2.canon, "gas": r2.gas, "error": r2.err}
		what := "stack"
		if r1.class != r2.class {
			what = "state"
		} else if r1.gas != r2.gas {
			what = "gas"
		}
		run.Violation("nondeterministic:"+what+":"+m.LastOp.String(), id, fmt.Sprintf("two runs of the same script differ in %s", what), w)
		return
	}
	r3 := runReused(k.script, idx)
	st.add("vm_runs_on_a_reused_vm", 1)
	if r3.pan != "" || r1.class != r3.class || r1.canon != r3.canon || r1.gas != r3.gas {
		w := wit()
		w["vm_reused_run"] = map[string]any{"state": r3.class, "stack": r3.canon, "gas": r3.gas, "error": r3.err, "panic": r3.pan, "ran_before": vmspec.Disasm(polluters[idx%len(polluters)])}
		what := "stack"
		if r3.pan != "" || r1.class != r3.class {
			what = "state"
		} else if r1.gas != r3.gas {
			what = "gas"
		}
		run.Violation("nondeterministic-on-a-reused-vm:"+what+":"+m.LastOp.String(), id, fmt.Sprintf("the script run on a VM reset after another script differs in %s from its run on a fresh VM", what), w)
		return
	}
	specClass := m.State.String()
	specCanon := ""
	if m.State == vmspec.Halt {
		specCanon = vmspec.Canon(m.Stack())
	}
	if r1.class == specClass && r1.canon == specCanon {
		if specClass == "HALT" {
			st.add("agree_halt", 1)
		} else {
			st.add("agree_fault", 1)
		}
		run.Case(fam+"|"+k.cover+"|"+specClass, true)
		return
	}
	d := locate(k.script)
	w := wit()
	w["first_difference"] = map[string]any{"step": d.step, "op": d.op, "vm_state": d.vmClass, "spec_state": d.specCls, "spec_rule": d.tag,
		"vm_stack": d.vmStack, "spec_stack": d.specStk, "vm_error": d.vmErr, "spec_reason": d.specWhy}
	var sig, detail string
	switch {
	case d.vmClass != d.specCls:
		sig = fmt.Sprintf("state:%s:vm=%s:spec=%s", d.op, d.vmClass, d.specCls)
		detail = fmt.Sprintf("after %s (step %d) the VM is %s (%s) and the specification is %s (%s)", d.op, d.step, d.vmClass, d.vmErr, d.specCls, d.specWhy)
	case d.control:
		sig = fmt.Sprintf("control:%s", d.op)
		detail = fmt.Sprintf("%s (step %d) transfers control differently: vm %s, spec %s", d.op, d.step, d.vmStack, d.specStk)
	case d.stackDif:
		vk, sk := lastKind(d.vmStack), lastKind(d.specStk)
		sig = fmt.Sprintf("stack:%s:vm=%s:spec=%s", d.op, vk, sk)
		detail = fmt.Sprintf("after %s (step %d) the stacks differ: vm [%s] spec [%s]", d.op, d.step, d.vmStack, d.specStk)
	default:
		sig = fmt.Sprintf("final:%s:vm=%s:spec=%s", fam, r1.class, specClass)
		detail = fmt.Sprintf("final results differ: vm %s [%s] spec %s [%s]", r1.class, r1.canon, specClass, specCanon)
	}
	if d.tag != "" {
		// the specification went through a rare, named rule at this
		// instruction: the rule (not the opcode) identifies the root cause
		// (how the difference shows - state class, stack or control transfer -
		// varies with the rest of the script and is in the detail only)
		sig = "rule:" + d.tag
	}
	run.Case(fam+"|"+k.cover+"|DIFF", true)
	run.Violation(sig, id, k.desc+": "+detail, w)
}

func TestCheck(t *testing.T) {
	// harness sanity: the specification's opcode table must name the same
	// instruction set as the code under test (a mismatch is a harness bug).
	for b := 0; b < 256; b++ {
		vmName, specName := "", vmspec.Name(vmspec.Op(b))
		if opcode.IsValid(opcode.Opcode(b)) {
			vmName = strings.ReplaceAll(opcode.Opcode(b).String(), "_", "") // JMP_L vs JMPL: spelling only
		}
		if vmName != specName {
			t.Fatalf("opcode table mismatch at 0x%02x: vm %q spec %q", b, vmName, specName)
		}
	}
	run := ev.Start("C13", "per-opcode sweeps over a boundary value pool (every value for unary opcodes, all ordered pairs for binary ones, "+
		"all triples of a small set plus random triples for ternary ones, all type bytes for CONVERT/ISTYPE/NEWARRAYT, splice index/length boundaries, "+
		"all TRY/ENDTRY/jump offsets of small templates), seeded random typed sequences of at most 12 instructions, compound-type scenarios, "+
		"structured try/catch/finally/call programs and opcode soups; each script is run on the specification, then twice on the real VM; "+
		"a case is distinct by its family, opcode sequence, operand classes and outcome, and non-trivial when the specification defines its result (not discarded)")
	defer run.Finish()
	run.Assume("vmspec is the reference: written from the C# NeoVM semantics (ExecutionEngineLimits.Default, all hardforks up to Gorgon), no code shared with pkg/vm, stackitem, bigint, scparser or opcode")
	run.Assume("cases reaching what the specification does not model are discarded and counted: >1900 live items, cycles, SYSCALL, CALLT, more than 400 steps, struct comparisons whose verdict depends on the exact comparison budget or traversal order")
	run.Assume("FAULT reasons are compared as a class only; gas is not modelled by the specification, it is only compared between two runs of the real VM (default opcode prices, 10 GAS limit)")
	fams := buildFamilies()
	part := os.Getenv("VERIF_PART")
	type job struct{ f, i int }
	ch := make(chan job, 1024)
	var wg sync.WaitGroup
	var mu sync.Mutex
	total := &stats{obs: map[string]int64{}, tags: map[string]int64{}}
	nw := runtime.NumCPU()
	for w := 0; w < nw; w++ {
		wg.Add(1)
		go func() {
			defer wg.Done()
			st := &stats{obs: map[string]int64{}, tags: map[string]int64{}}
			for j := range ch {
				f := fams[j.f]
				runCase(run, st, f.name, j.i, f.gen(j.i))
			}
			mu.Lock()
			for k, v := range st.obs {
				total.obs[k] += v
			}
			for k, v := range st.tags {
				total.tags[k] += v
			}
			for i, v := range st.ops {
				total.ops[i] += v
			}
			mu.Unlock()
		}()
	}
	for fi, f := range fams {
		if part != "" && part != "all" && part != f.name {
			continue
		}
		for i := 0; i < f.n; i++ {
			if !run.Want(fmt.Sprintf("%s:%d", f.name, i)) {
				continue
			}
			ch <- job{fi, i}
		}
	}
	close(ch)
	wg.Wait()
	for k, v := range total.obs {
		run.Obs(k, v)
	}
	for k, v := range total.tags {
		run.Obs("spec_rule:"+k, v)
	}
	distinct := 0
	counts := map[string]int64{}
	var never []string
	for b := 0; b < 256; b++ {
		if !vmspec.Defined(byte(b)) {
			continue
		}
		if total.ops[b] > 0 {
			distinct++
			counts[vmspec.Name(vmspec.Op(b))] = total.ops[b]
		} else {
			never = append(never, vmspec.Name(vmspec.Op(b)))
		}
	}
	sort.Strings(never)
	run.Obs("opcodes_executed_distinct", int64(distinct))
	run.Note("opcode_execution_counts", counts)
	run.Note("opcodes_never_executed", never)
	for _, f := range fams[:1] {
		for i := 0; i < 2; i++ {
			k := f.gen(i * 97)
			m := vmspec.New(k.script)
			m.Run()
			run.Sample(map[string]any{"family": f.name, "what": k.desc, "script": vmspec.Disasm(k.script), "spec": m.State.String() + " " + vmspec.Canon(m.Stack())})
		}
	}
	for _, name := range []string{"seq", "ctl"} {
		for _, f := range fams {
			if f.name == name {
				k := f.gen(1)
				m := vmspec.New(k.script)
				m.Run()
				run.Sample(map[string]any{"family": f.name, "script": vmspec.Disasm(k.script), "spec": m.State.String() + " " + vmspec.Canon(m.Stack())})
			}
		}
	}
}

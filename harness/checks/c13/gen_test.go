package c13

import (
	"bytes"
	"fmt"
	"math/big"

	"github.com/nspcc-dev/neo-go/verifharness/vlib/rng"
	s "github.com/nspcc-dev/neo-go/verifharness/vlib/vmspec"
)

// ---------------------------------------------------------------- assembler

func op(o s.Op, operand ...byte) []byte { return append([]byte{byte(o)}, operand...) }

func cat(parts ...[]byte) []byte {
	var r []byte
	for _, p := range parts {
		r = append(r, p...)
	}
	return r
}

// pushInt encodes x with the shortest PUSHINT* instruction.
func pushInt(x *big.Int) []byte {
	for i, n := range []int{1, 2, 4, 8, 16, 32} {
		lim := new(big.Int).Lsh(big.NewInt(1), uint(8*n-1))
		if x.Cmp(new(big.Int).Neg(lim)) >= 0 && x.Cmp(lim) < 0 {
			v := new(big.Int).Set(x)
			if v.Sign() < 0 {
				v.Add(v, new(big.Int).Lsh(big.NewInt(1), uint(8*n)))
			}
			b := v.FillBytes(make([]byte, n))
			for l, r := 0, n-1; l < r; l, r = l+1, r-1 {
				b[l], b[r] = b[r], b[l]
			}
			return append([]byte{byte(s.PUSHINT8) + byte(i)}, b...)
		}
	}
	panic("pushInt: value does not fit 256 bits")
}

func pushI(n int64) []byte {
	if n >= -1 && n <= 16 {
		return []byte{byte(int(s.PUSH0) + int(n))}
	}
	return pushInt(big.NewInt(n))
}

func pushData(d []byte) []byte {
	switch {
	case len(d) < 256:
		return cat([]byte{byte(s.PUSHDATA1), byte(len(d))}, d)
	case len(d) < 65536:
		return cat([]byte{byte(s.PUSHDATA2), byte(len(d)), byte(len(d) >> 8)}, d)
	}
	return cat([]byte{byte(s.PUSHDATA4), byte(len(d)), byte(len(d) >> 8), byte(len(d) >> 16), byte(len(d) >> 24)}, d)
}

func pushBuf(d []byte) []byte { return cat(pushData(d), op(s.CONVERT, s.TBuffer)) }

// ---------------------------------------------------------------- value pool

type val struct {
	code []byte // instructions leaving the value on the stack
	cls  string // coverage class
	desc string
}

func pow2(k uint, d int64) *big.Int {
	x := new(big.Int).Lsh(big.NewInt(1), k)
	return x.Add(x, big.NewInt(d))
}

func intCls(x *big.Int) string {
	sg := "+"
	if x.Sign() < 0 {
		sg = "-"
	} else if x.Sign() == 0 {
		return "i0"
	}
	bl := x.BitLen()
	switch {
	case bl <= 5:
		return "i" + sg + "tiny"
	case bl <= 9:
		return "i" + sg + "9"
	case bl <= 31:
		return "i" + sg + "31"
	case bl <= 63:
		return "i" + sg + "63"
	case bl <= 254:
		return "i" + sg + "254"
	}
	return "i" + sg + "255"
}

func intVal(x *big.Int) val { return val{pushInt(x), intCls(x), "int " + x.String()} }

func bsVal(d []byte, cls string) val {
	return val{pushData(d), "bs" + cls, fmt.Sprintf("bytes %x", d)}
}

func bufVal(d []byte, cls string) val {
	return val{pushBuf(d), "buf" + cls, fmt.Sprintf("buffer %x", d)}
}

func rep(b byte, n int) []byte {
	d := make([]byte, n)
	for i := range d {
		d[i] = b
	}
	return d
}

// corePool is the boundary set used for the all-ordered-pairs sweeps of the
// quick tier; fullPool extends it for unary sweeps and the thorough tier.
func pools(r *rng.R) (core, full []val) {
	coreInts := []*big.Int{
		big.NewInt(0), big.NewInt(1), big.NewInt(-1), big.NewInt(2), big.NewInt(-2), big.NewInt(3), big.NewInt(-3),
		big.NewInt(7), big.NewInt(-8), big.NewInt(255), big.NewInt(256), big.NewInt(257), big.NewInt(-255), big.NewInt(-256), big.NewInt(-257),
		pow2(31, -1), pow2(31, 0), new(big.Int).Neg(pow2(31, 0)), new(big.Int).Neg(pow2(31, 1)), pow2(32, 0),
		pow2(63, -1), new(big.Int).Neg(pow2(63, 0)), pow2(64, 0),
		pow2(127, 0), pow2(128, 1), new(big.Int).Neg(pow2(128, 0)),
		pow2(254, 0), new(big.Int).Neg(pow2(254, 0)),
		pow2(255, -1), pow2(255, -2), new(big.Int).Neg(pow2(255, 0)), new(big.Int).Neg(pow2(255, -1)),
	}
	for _, x := range coreInts {
		core = append(core, intVal(x))
	}
	neg255 := append(rep(0, 31), 0x80) // -2^255 as a byte string
	coreOther := []val{
		{op(s.PUSHNULL), "null", "null"},
		{op(s.PUSHT), "true", "true"},
		{op(s.PUSHF), "false", "false"},
		bsVal([]byte{}, "0"),
		bsVal([]byte{0x80}, "1"),
		bsVal([]byte{0x01, 0x00}, "2nm"), // non-minimal 1
		bsVal(rep(0xff, 32), "32ff"),     // -1 in 32 bytes
		bsVal(neg255, "32min"),
		bsVal(rep(0, 33), "33"),
		bufVal([]byte{}, "0"),
		bufVal([]byte{5}, "1"),
		{op(s.NEWARRAY0), "arr0", "array[]"},
		{op(s.NEWSTRUCT0), "struct0", "struct[]"},
		{op(s.NEWMAP), "map0", "map{}"},
		{op(s.PUSHA, 0, 0, 0, 0), "ptr", "pointer"},
	}
	core = append(core, coreOther...)
	full = append(full, core...)
	for _, k := range []uint{7, 8, 15, 16, 32, 63, 64, 127, 128, 191, 247, 248, 253} {
		for _, d := range []int64{-1, 0, 1} {
			x := pow2(k, d)
			full = append(full, intVal(x), intVal(new(big.Int).Neg(x)))
		}
	}
	for _, n := range []int64{4, 5, 8, 10, 16, 31, 32, 33, 100, 127, 128, 129, -127, -128, -129, 254, -254, 65535, 65536, 131069, 131070, 131071, 2048, 2049} {
		full = append(full, intVal(big.NewInt(n)))
	}
	full = append(full, intVal(new(big.Int).Neg(pow2(255, -2))), intVal(pow2(254, -1)), intVal(pow2(254, 1)))
	for i := 0; i < 8; i++ { // seed-dependent values
		x := r.BigBoundary()
		for x.Cmp(pow2(255, -1)) > 0 || x.Cmp(new(big.Int).Neg(pow2(255, 0))) < 0 {
			x = r.BigBoundary()
		}
		full = append(full, intVal(x))
	}
	full = append(full,
		bsVal([]byte{0x00}, "1z"), bsVal([]byte{0x7f}, "1"), bsVal([]byte{0xff}, "1"), bsVal([]byte{0x00, 0x80}, "2"),
		bsVal([]byte{0xff, 0xff}, "2nm"), bsVal(rep(0, 32), "32z"), bsVal(append(rep(0xff, 31), 0x7f), "32max"),
		bsVal(r.Bytes(32), "32r"), bsVal(r.Bytes(31), "31r"), bsVal(rep(0xff, 33), "33"), bsVal(append(rep(0, 32), 1), "33"),
		bsVal(rep(0x41, 64), "64"), bsVal(rep(0x41, 65), "65"), bsVal([]byte("hello"), "5"), bsVal([]byte{0xc0, 0x80}, "2bad-utf8"),
		bsVal([]byte{0xc3, 0xa9}, "2utf8"), bsVal([]byte{0xf0, 0x9f, 0x98, 0x80}, "4utf8"), bsVal([]byte{0xed, 0xa0, 0x80}, "3surrogate"),
		bsVal([]byte{0xe0, 0x80, 0x80}, "3overlong"), bsVal([]byte{0xf4, 0x90, 0x80, 0x80}, "4beyond"), bsVal([]byte{0xc2}, "1truncated"),
		bsVal([]byte{0xef, 0xbf, 0xbe}, "3utf8"), bsVal([]byte{0x41, 0x00, 0x42}, "3nul"),
		bufVal(rep(0, 32), "32"), bufVal(rep(0xff, 33), "33"), bufVal([]byte{1, 2, 3}, "3"),
		val{cat(pushI(1), pushI(2), pushI(2), op(s.PACK)), "arr2", "array[2,1]"},
		val{cat(pushI(1), pushI(2), pushI(2), op(s.PACKSTRUCT)), "struct2", "struct[2,1]"},
		val{cat(pushI(1), pushI(2), pushI(1), op(s.PACKMAP)), "map1", "map{2:1}"},
		val{cat(op(s.NEWSTRUCT0), pushI(1), op(s.PACKSTRUCT)), "structS", "struct[struct[]]"},
		val{cat(pushI(10), pushData([]byte("a")), pushI(20), pushI(2), pushI(30), op(s.PUSHT), pushI(3), op(s.PACKMAP)), "map3", "map{true:30,2:20,'a':10}"},
		val{cat(op(s.PUSHNULL), pushData([]byte{7}), pushI(5), op(s.NEWSTRUCT0), pushI(4), op(s.PACK)), "arr4", "array[struct[],5,07,null]"},
		val{cat(pushI(3), op(s.NEWARRAY)), "arr3n", "array[null x3]"},
		val{op(s.PUSHA, 2, 0, 0, 0), "ptr", "pointer+2"},
	)
	return
}

// ---------------------------------------------------------------- sweeps

type sweepOp struct {
	o       s.Op
	arity   int
	operand []byte // fixed operand (type byte ...)
}

func sweepOps() (un, bin, tern []sweepOp) {
	for _, o := range []s.Op{s.INVERT, s.SIGN, s.ABS, s.NEGATE, s.INC, s.DEC, s.SQRT, s.NOT, s.NZ, s.ISNULL, s.SIZE, s.KEYS, s.VALUES,
		s.UNPACK, s.REVERSEITEMS, s.CLEARITEMS, s.POPITEM, s.NEWBUFFER, s.NEWARRAY, s.NEWSTRUCT, s.DROP, s.DUP, s.XDROP, s.PICK, s.ROLL,
		s.REVERSEN, s.PACK, s.PACKSTRUCT, s.PACKMAP, s.THROW, s.ASSERT, s.ABORTMSG, s.CALLA, s.DEPTH, s.NIP, s.CLEAR, s.OVER, s.TUCK, s.SWAP,
		s.ROT, s.REVERSE3, s.REVERSE4} {
		un = append(un, sweepOp{o, 1, nil})
	}
	for _, o := range []s.Op{s.ADD, s.SUB, s.MUL, s.DIV, s.MOD, s.POW, s.SHL, s.SHR, s.AND, s.OR, s.XOR, s.MIN, s.MAX, s.NUMEQUAL,
		s.NUMNOTEQUAL, s.LT, s.LE, s.GT, s.GE, s.BOOLAND, s.BOOLOR, s.EQUAL, s.NOTEQUAL, s.CAT, s.LEFT, s.RIGHT, s.PICKITEM, s.HASKEY,
		s.REMOVE, s.APPEND, s.ASSERTMSG, s.JMPEQ, s.JMPNE, s.JMPGT, s.JMPGE, s.JMPLT, s.JMPLE} {
		bin = append(bin, sweepOp{o, 2, nil})
	}
	bin = append(bin, sweepOp{s.PUSH1, 2, []byte{byte(s.PACKMAP)}}, sweepOp{s.PUSH2, 2, []byte{byte(s.PACKSTRUCT)}})
	for _, o := range []s.Op{s.WITHIN, s.MODMUL, s.MODPOW, s.SUBSTR, s.SETITEM} {
		tern = append(tern, sweepOp{o, 3, nil})
	}
	return
}

// sweepScript: push the operands, duplicate them (so that in-place effects on
// reference operands stay visible in the result stack) and apply the opcode.
func sweepScript(so sweepOp, vals ...val) []byte {
	var sc []byte
	for _, v := range vals {
		sc = append(sc, v.code...)
	}
	switch len(vals) {
	case 1:
		sc = append(sc, byte(s.DUP))
	case 2:
		sc = append(sc, byte(s.OVER), byte(s.OVER))
	case 3:
		sc = append(sc, cat(pushI(2), op(s.PICK), pushI(2), op(s.PICK), pushI(2), op(s.PICK))...)
	}
	if so.o >= s.JMPEQ && so.o <= s.JMPLEL || so.o == s.JMPIF || so.o == s.JMPIFNOT {
		// taken: skip PUSH1; result stack tells which way it went
		return cat(sc, op(so.o, 3), op(s.PUSH1), op(s.PUSH2))
	}
	sc = append(sc, byte(so.o))
	sc = append(sc, so.operand...)
	return sc
}

var typeBytes = []byte{s.TAny, s.TPointer, s.TBoolean, s.TInteger, s.TByteStr, s.TBuffer, s.TArray, s.TStruct, s.TMap, s.TInterop,
	0x01, 0x11, 0x22, 0x29, 0x31, 0x42, 0x49, 0x61, 0x7f, 0x80, 0xff}

// ---------------------------------------------------------------- splice / limits

func spliceCase(r *rng.R, i int) ([]byte, string) {
	datas := [][]byte{{}, {1}, {1, 2}, {1, 2, 3, 4, 5}, rep(7, 32), rep(9, 33)}
	idx := []*big.Int{big.NewInt(-1), big.NewInt(0), big.NewInt(1), big.NewInt(2), big.NewInt(3), big.NewInt(4), big.NewInt(5), big.NewInt(6),
		big.NewInt(31), big.NewInt(32), big.NewInt(33), big.NewInt(34), pow2(31, -1), pow2(31, 0), new(big.Int).Neg(pow2(31, 0)),
		new(big.Int).Neg(pow2(31, 1)), pow2(32, 0), pow2(32, 1), pow2(63, 0), pow2(64, 0)}
	pick := func() *big.Int { return idx[r.Intn(len(idx))] }
	small := func() *big.Int { return idx[r.Intn(12)] }
	data := func() []byte {
		d := datas[r.Intn(len(datas))]
		switch r.Intn(4) {
		case 0:
			return pushBuf(d)
		case 1:
			if len(d) <= 32 && r.Bool() { // an integer or boolean as the data operand
				if r.Bool() {
					return op(s.PUSHT)
				}
				return pushInt(pow2(uint(r.Intn(200)), int64(r.Intn(3))))
			}
		}
		return pushData(d)
	}
	ix := func() []byte {
		if r.Chance(3, 4) {
			return pushInt(small())
		}
		return pushInt(pick())
	}
	switch k := i % 10; k {
	case 0, 1:
		return cat(data(), op(s.DUP), ix(), ix(), op(s.SUBSTR)), "SUBSTR"
	case 2:
		return cat(data(), op(s.DUP), ix(), op(s.LEFT)), "LEFT"
	case 3:
		// (RIGHT used to allocate the requested count - up to 2 GiB - before
		// validating it; repaired in /repo by 7456dc7, so huge counts are swept.)
		c := small()
		if r.Chance(1, 6) {
			c = []*big.Int{big.NewInt(-1), pow2(31, -1), pow2(31, 0), pow2(32, 0), new(big.Int).Neg(pow2(31, 0))}[r.Intn(5)]
		}
		return cat(data(), op(s.DUP), pushInt(c), op(s.RIGHT)), "RIGHT"
	case 4, 5:
		// MEMCPY dst di src si n
		dst := pushBuf(datas[r.Intn(len(datas))])
		if r.Chance(1, 8) {
			dst = pushData([]byte{1, 2, 3})
		}
		if r.Chance(1, 6) { // source = destination (overlap)
			return cat(dst, op(s.DUP), op(s.DUP), ix(), op(s.SWAP), ix(), ix(), op(s.MEMCPY)), "MEMCPY-self"
		}
		return cat(dst, op(s.DUP), ix(), data(), ix(), ix(), op(s.MEMCPY)), "MEMCPY"
	case 6:
		// sizes around the item limit
		sz := []int64{0, 1, 65535, 65536, 131069, 131070, 131071, 131072, -1}
		a, b := sz[r.Intn(len(sz))], sz[r.Intn(len(sz))]
		return cat(pushI(a), op(s.NEWBUFFER), pushI(b), op(s.NEWBUFFER), op(s.CAT), op(s.SIZE)), "CAT-limit"
	case 7:
		// long PUSHDATA2 / PUSHDATA4 and equality of long strings around MaxComparableSize
		ls := []int{65535, 65536, 65537, 300, 70000}
		l1, l2 := ls[r.Intn(len(ls))], ls[r.Intn(len(ls))]
		x, y := pushData(rep(1, l1)), pushData(rep(1, l2))
		if r.Chance(1, 4) {
			y = pushI(int64(r.Intn(3)))
		}
		if r.Bool() {
			x, y = y, x
		}
		o := s.EQUAL
		if r.Bool() {
			o = s.NOTEQUAL
		}
		return cat(x, y, op(o)), "EQUAL-long"
	case 8:
		// buffer element write / read
		d := datas[1+r.Intn(len(datas)-1)]
		v := []*big.Int{big.NewInt(-129), big.NewInt(-128), big.NewInt(-1), big.NewInt(0), big.NewInt(255), big.NewInt(256), pow2(31, 0), pow2(40, 0)}[r.Intn(8)]
		vv := pushInt(v)
		if r.Chance(1, 6) {
			vv = [][]byte{op(s.PUSHNULL), op(s.PUSHT), pushData([]byte{7}), pushData(rep(1, 33)), op(s.NEWARRAY0), pushBuf([]byte{1})}[r.Intn(6)]
		}
		return cat(pushBuf(d), op(s.DUP), ix(), vv, op(s.SETITEM)), "SETITEM-buffer"
	default:
		return cat(data(), op(s.DUP), ix(), op(s.PICKITEM)), "PICKITEM-bytes"
	}
}

// ---------------------------------------------------------------- random typed sequences

type aty byte // abstract type

const (
	aI aty = iota // integer
	aB            // boolean
	aS            // byte string (short)
	aU            // buffer
	aA            // array
	aT            // struct
	aM            // map
	aN            // null
	aP            // pointer
	aX            // unknown
)

type seqGen struct {
	r      *rng.R
	code   []byte
	st     []aty
	n      int // instructions emitted
	max    int
	names  []string
	locals int
	args   int
	static int
	ints   []*big.Int
}

func (g *seqGen) emit(name string, code []byte) {
	g.code = append(g.code, code...)
	g.names = append(g.names, name)
	g.n++
}

func (g *seqGen) pushT(t aty) { g.st = append(g.st, t) }
func (g *seqGen) popT() aty {
	if len(g.st) == 0 {
		return aX
	}
	t := g.st[len(g.st)-1]
	g.st = g.st[:len(g.st)-1]
	return t
}

func (g *seqGen) rndInt() *big.Int {
	switch g.r.Intn(4) {
	case 0:
		return big.NewInt(int64(g.r.Intn(7) - 2))
	case 1:
		return g.ints[g.r.Intn(len(g.ints))]
	}
	return g.r.BigBoundary()
}

// produce emits one instruction (or a tiny group counted per instruction)
// leaving a value of abstract type t.
func (g *seqGen) produce(t aty) {
	r := g.r
	switch t {
	case aI:
		x := g.rndInt()
		for x.Cmp(pow2(255, -1)) > 0 || x.Cmp(new(big.Int).Neg(pow2(255, 0))) < 0 {
			x = g.rndInt()
		}
		if x.IsInt64() && x.Int64() >= -1 && x.Int64() <= 16 && r.Bool() {
			g.emit("PUSH"+x.String(), pushI(x.Int64()))
		} else {
			g.emit("PUSHINT", pushInt(x))
		}
	case aB:
		if r.Bool() {
			g.emit("PUSHT", op(s.PUSHT))
		} else {
			g.emit("PUSHF", op(s.PUSHF))
		}
	case aS:
		n := []int{0, 1, 1, 2, 3, 5, 32, 33}[r.Intn(8)]
		d := r.Bytes(n)
		if r.Chance(1, 3) {
			d = rep([]byte{0, 0xff, 0x80, 1}[r.Intn(4)], n)
		}
		g.emit("PUSHDATA", pushData(d))
	case aU:
		if r.Bool() {
			g.emit("PUSHn", pushI(int64(r.Intn(5))))
			g.emit("NEWBUFFER", op(s.NEWBUFFER))
		} else {
			g.emit("PUSHDATA", pushData(r.Bytes(r.Intn(4))))
			g.emit("CONVERT", op(s.CONVERT, s.TBuffer))
		}
	case aA, aT:
		o0, o1, n0, n1 := s.NEWARRAY0, s.NEWARRAY, "NEWARRAY0", "NEWARRAY"
		if t == aT {
			o0, o1, n0, n1 = s.NEWSTRUCT0, s.NEWSTRUCT, "NEWSTRUCT0", "NEWSTRUCT"
		}
		if r.Bool() {
			g.emit(n0, op(o0))
		} else {
			g.emit("PUSHn", pushI(int64(1+r.Intn(3))))
			g.emit(n1, op(o1))
		}
	case aM:
		g.emit("NEWMAP", op(s.NEWMAP))
	case aN:
		g.emit("PUSHNULL", op(s.PUSHNULL))
	case aP:
		g.emit("PUSHA", op(s.PUSHA, byte(r.Intn(6)), 0, 0, 0))
	default:
		g.produce(aty(r.Intn(int(aX))))
		return
	}
	g.pushT(t)
}

func (g *seqGen) has(n int) bool { return len(g.st) >= n }

// matches reports whether abstract type t satisfies requirement c.
func matches(t aty, c byte) bool {
	if t == aX {
		return true
	}
	switch c {
	case 'i', 'n':
		return t == aI || t == aB || t == aS
	case 'b', 'x':
		return true
	case 's':
		return t == aI || t == aB || t == aS || t == aU
	case 'u':
		return t == aU
	case 'a':
		return t == aA || t == aT
	case 'm':
		return t == aM
	case 'c':
		return t == aA || t == aT || t == aM
	case 'k':
		return t == aI || t == aB || t == aS
	case 'p':
		return t == aP
	}
	return true
}

func (g *seqGen) produceFor(c byte) {
	r := g.r
	switch c {
	case 'i':
		g.produce([]aty{aI, aI, aI, aI, aB, aS}[r.Intn(6)])
	case 'n':
		x := int64(r.Intn(4))
		if r.Chance(1, 8) {
			x = []int64{-1, 4, 5, 255, 256, 2147483647}[r.Intn(6)]
		}
		g.emit("PUSHn", pushI(x))
		g.pushT(aI)
	case 'b', 'x':
		g.produce(aty(r.Intn(int(aX))))
	case 's':
		g.produce([]aty{aS, aS, aU, aI, aB}[r.Intn(5)])
	case 'u':
		g.produce(aU)
	case 'a':
		g.produce([]aty{aA, aT}[r.Intn(2)])
	case 'm':
		g.produce(aM)
	case 'c':
		g.produce([]aty{aA, aT, aM}[r.Intn(3)])
	case 'k':
		g.produce([]aty{aI, aI, aS, aB}[r.Intn(4)])
	case 'p':
		g.produce(aP)
	}
}

type seqOp struct {
	o   s.Op
	in  string // requirements, deepest first
	out string // abstract results
	w   int
}

func outT(c byte) aty {
	switch c {
	case 'I':
		return aI
	case 'B':
		return aB
	case 'S':
		return aS
	case 'U':
		return aU
	case 'A':
		return aA
	case 'T':
		return aT
	case 'M':
		return aM
	case 'N':
		return aN
	case 'P':
		return aP
	}
	return aX
}

var seqMenu = []seqOp{
	{s.ADD, "ii", "I", 3}, {s.SUB, "ii", "I", 3}, {s.MUL, "ii", "I", 3}, {s.DIV, "ii", "I", 3}, {s.MOD, "ii", "I", 3},
	{s.POW, "in", "I", 2}, {s.SQRT, "i", "I", 1}, {s.MODMUL, "iii", "I", 2}, {s.MODPOW, "iii", "I", 2}, {s.SHL, "in", "I", 2}, {s.SHR, "in", "I", 2},
	{s.NEGATE, "i", "I", 1}, {s.ABS, "i", "I", 1}, {s.SIGN, "i", "I", 1}, {s.INC, "i", "I", 1}, {s.DEC, "i", "I", 1},
	{s.INVERT, "i", "I", 1}, {s.AND, "ii", "I", 1}, {s.OR, "ii", "I", 1}, {s.XOR, "ii", "I", 1},
	{s.MIN, "ii", "I", 1}, {s.MAX, "ii", "I", 1}, {s.WITHIN, "iii", "B", 1},
	{s.NOT, "b", "B", 1}, {s.BOOLAND, "bb", "B", 1}, {s.BOOLOR, "bb", "B", 1}, {s.NZ, "i", "B", 1},
	{s.NUMEQUAL, "ii", "B", 1}, {s.NUMNOTEQUAL, "ii", "B", 1}, {s.LT, "ii", "B", 1}, {s.LE, "ii", "B", 1}, {s.GT, "ii", "B", 1}, {s.GE, "ii", "B", 1},
	{s.EQUAL, "xx", "B", 3}, {s.NOTEQUAL, "xx", "B", 1},
	{s.CAT, "ss", "U", 2}, {s.SUBSTR, "snn", "U", 2}, {s.LEFT, "sn", "U", 1}, {s.RIGHT, "sn", "U", 1}, {s.MEMCPY, "unsnn", "", 1},
	{s.SIZE, "x", "I", 2}, {s.ISNULL, "x", "B", 1},
	{s.PACK, "xxn", "A", 2}, {s.PACKSTRUCT, "xxn", "T", 2}, {s.PACKMAP, "xkn", "M", 2}, {s.UNPACK, "c", "XI", 2},
	{s.PICKITEM, "ck", "X", 3}, {s.SETITEM, "ckx", "", 4}, {s.APPEND, "ax", "", 4}, {s.REMOVE, "ck", "", 2}, {s.HASKEY, "ck", "B", 2},
	{s.KEYS, "m", "A", 1}, {s.VALUES, "c", "A", 2}, {s.REVERSEITEMS, "a", "", 1}, {s.CLEARITEMS, "c", "", 1}, {s.POPITEM, "a", "X", 2},
	{s.NEWARRAY, "n", "A", 1}, {s.NEWSTRUCT, "n", "T", 1}, {s.NEWBUFFER, "n", "U", 1},
	{s.THROW, "x", "", 1}, {s.ASSERT, "b", "", 1},
}

// genSeq builds one random typed sequence of at most 12 instructions.
func genSeq(r *rng.R, ints []*big.Int) ([]byte, []string) {
	g := &seqGen{r: r, max: 12, ints: ints}
	if r.Chance(1, 3) {
		g.locals = r.Intn(3)
		g.args = r.Intn(3)
		if g.locals+g.args == 0 {
			g.locals = 1
		}
		for i := 0; i < g.args; i++ {
			if i == 0 && r.Chance(1, 10) {
				continue // one argument short
			}
			g.produce(aX)
		}
		for i := 0; i < g.args; i++ {
			g.popT()
		}
		g.emit("INITSLOT", op(s.INITSLOT, byte(g.locals), byte(g.args)))
	}
	if r.Chance(1, 6) {
		g.static = 1 + r.Intn(2)
		g.emit("INITSSLOT", op(s.INITSSLOT, byte(g.static)))
	}
	total := 0
	for _, m := range seqMenu {
		total += m.w
	}
	limit := 3 + r.Intn(g.max-2)
	for g.n < limit {
		switch k := r.Intn(20); {
		case k < 3: // stack manipulation
			g.stackOp()
		case k < 5 && (g.locals > 0 || g.args > 0 || g.static > 0 || r.Chance(1, 10)): // slots
			g.slotOp()
		case k == 5: // conversion / type test
			if !g.has(1) {
				g.produce(aX)
				continue
			}
			t := typeBytes[r.Intn(10)]
			if r.Chance(1, 12) {
				t = typeBytes[r.Intn(len(typeBytes))]
			}
			if r.Chance(1, 4) {
				g.popT()
				g.emit("ISTYPE", op(s.ISTYPE, t))
				g.pushT(aB)
			} else {
				g.popT()
				g.emit("CONVERT", op(s.CONVERT, t))
				g.pushT(aX)
			}
		case k == 6: // fresh value
			g.produce(aX)
		default:
			x := r.Intn(total)
			var m seqOp
			for _, c := range seqMenu {
				if x < c.w {
					m = c
					break
				}
				x -= c.w
			}
			g.apply(m)
		}
	}
	return g.code, g.names
}

func (g *seqGen) apply(m seqOp) {
	r := g.r
	ok := g.has(len(m.in))
	if ok {
		for i := 0; i < len(m.in); i++ {
			if !matches(g.st[len(g.st)-len(m.in)+i], m.in[i]) {
				ok = false
			}
		}
	}
	if !ok && r.Chance(9, 10) {
		// build the operands; when a reference operand is mutated by the
		// instruction keep a second reference below so the effect stays visible
		keep := len(m.out) == 0 && len(m.in) > 0 && (m.in[0] == 'c' || m.in[0] == 'a' || m.in[0] == 'u')
		for i := 0; i < len(m.in); i++ {
			g.produceFor(m.in[i])
			if i == 0 && keep {
				g.emit("DUP", op(s.DUP))
				g.pushT(g.st[len(g.st)-1])
			}
		}
	}
	for range m.in {
		g.popT()
	}
	g.emit(s.Name(m.o), op(m.o))
	for i := 0; i < len(m.out); i++ {
		g.pushT(outT(m.out[i]))
	}
}

func (g *seqGen) stackOp() {
	r := g.r
	type so struct {
		o    s.Op
		need int
	}
	ops := []so{{s.DUP, 1}, {s.DUP, 1}, {s.DROP, 1}, {s.SWAP, 2}, {s.OVER, 2}, {s.ROT, 3}, {s.NIP, 2}, {s.TUCK, 2}, {s.DEPTH, 0},
		{s.REVERSE3, 3}, {s.REVERSE4, 4}, {s.CLEAR, 0}, {s.PICK, 1}, {s.ROLL, 1}, {s.XDROP, 1}, {s.REVERSEN, 1}}
	c := ops[r.Intn(len(ops))]
	if !g.has(c.need) && r.Chance(4, 5) {
		g.produce(aX)
		return
	}
	n := len(g.st)
	switch c.o {
	case s.DUP:
		if n > 0 {
			g.pushT(g.st[n-1])
		}
	case s.DROP:
		g.popT()
	case s.SWAP:
		if n >= 2 {
			g.st[n-1], g.st[n-2] = g.st[n-2], g.st[n-1]
		}
	case s.OVER:
		if n >= 2 {
			g.pushT(g.st[n-2])
		}
	case s.DEPTH:
		g.pushT(aI)
	case s.CLEAR:
		g.st = g.st[:0]
	case s.PICK, s.ROLL, s.XDROP, s.REVERSEN:
		g.emit("PUSHn", pushI(int64(r.Intn(4))))
		for i := range g.st {
			g.st[i] = aX
		}
		if c.o == s.PICK {
			g.pushT(aX)
		} else if c.o == s.XDROP {
			g.popT()
		}
	default:
		for i := range g.st {
			g.st[i] = aX
		}
		if c.o == s.NIP {
			g.popT()
		}
		if c.o == s.TUCK {
			g.pushT(aX)
		}
	}
	g.emit(s.Name(c.o), op(c.o))
}

func (g *seqGen) slotOp() {
	r := g.r
	i := r.Intn(3)
	switch r.Intn(6) {
	case 4:
		if r.Chance(1, 5) {
			g.emit("LDARG", op(s.LDARG, byte(i)))
		} else {
			g.emit("LDARG", op(s.LDARG0+s.Op(i)))
		}
		g.pushT(aX)
	case 5:
		if !g.has(1) {
			g.produce(aX)
		}
		g.popT()
		g.emit("STARG", op(s.STARG0+s.Op(i)))
	case 0:
		g.emit("LDLOC", op(s.LDLOC0+s.Op(i)))
		g.pushT(aX)
	case 1:
		if !g.has(1) {
			g.produce(aX)
		}
		g.popT()
		if r.Chance(1, 5) {
			g.emit("STLOC", op(s.STLOC, byte(i)))
		} else {
			g.emit("STLOC", op(s.STLOC0+s.Op(i)))
		}
	case 2:
		if r.Chance(1, 5) {
			g.emit("LDSFLD", op(s.LDSFLD, byte(i)))
		} else {
			g.emit("LDSFLD", op(s.LDSFLD0+s.Op(i)))
		}
		g.pushT(aX)
	default:
		if !g.has(1) {
			g.produce(aX)
		}
		g.popT()
		g.emit("STSFLD", op(s.STSFLD0+s.Op(i)))
	}
}

// ---------------------------------------------------------------- structured control flow

type asmItem struct {
	code  []byte
	label string // define label here (before code)
	ref   string // label referenced by this instruction
	ref2  string // second label (TRY: finally)
	long  bool
}

type ctlGen struct {
	r     *rng.R
	items []asmItem
	nlab  int
	funcs []string
	depth int
	n     int
	names []string
	chaos bool // many misplaced ENDTRY / ENDFINALLY / RET
}

func (g *ctlGen) lab() string { g.nlab++; return fmt.Sprint("L", g.nlab) }
func (g *ctlGen) ins(name string, code []byte) {
	g.items = append(g.items, asmItem{code: code})
	g.names = append(g.names, name)
	g.n++
}
func (g *ctlGen) mark(l string) { g.items = append(g.items, asmItem{label: l}) }
func (g *ctlGen) jmp(o s.Op, l string) {
	long := g.r.Chance(1, 8)
	if long {
		o++
	}
	g.items = append(g.items, asmItem{code: []byte{byte(o)}, ref: l, long: long})
	g.names = append(g.names, s.Name(o))
	g.n++
}

func (g *ctlGen) simple() {
	r := g.r
	switch r.Intn(12) {
	case 0, 1, 2:
		g.ins("PUSHn", pushI(int64(r.Intn(17))))
	case 3:
		g.ins("PUSHn", pushI(int64(r.Intn(5))))
		g.ins("ADD", op(s.ADD))
	case 4:
		g.ins("DROP", op(s.DROP))
	case 5:
		g.ins("DUP", op(s.DUP))
	case 6:
		g.ins("DEPTH", op(s.DEPTH))
	case 7: // catchable engine exception
		if r.Bool() {
			g.ins("NEWARRAY0", op(s.NEWARRAY0))
			g.ins("PUSHn", pushI(int64(r.Intn(3))))
			g.ins("PICKITEM", op(s.PICKITEM))
		} else {
			g.ins("NEWMAP", op(s.NEWMAP))
			g.ins("PUSHn", pushI(int64(r.Intn(3))))
			g.ins("PICKITEM", op(s.PICKITEM))
		}
	case 8:
		g.ins("PUSHn", pushI(int64(r.Intn(17))))
		g.ins("THROW", op(s.THROW))
	case 9: // uncatchable fault
		switch r.Intn(4) {
		case 0:
			g.ins("ABORT", op(s.ABORT))
		case 1:
			g.ins("PUSHF", op(s.PUSHF))
			g.ins("ASSERT", op(s.ASSERT))
		case 2:
			g.ins("PUSH0", op(s.PUSH0))
			g.ins("PUSH0", op(s.PUSH0))
			g.ins("DIV", op(s.DIV))
		default:
			g.ins("PUSHT", op(s.PUSHT))
			g.ins("ASSERT", op(s.ASSERT))
		}
	case 10:
		g.ins("NOP", op(s.NOP))
	default:
		g.ins("ISNULL", op(s.ISNULL))
	}
}

func (g *ctlGen) block(budget int) {
	r := g.r
	k := 1 + r.Intn(3)
	for i := 0; i < k && g.n < budget; i++ {
		switch x := r.Intn(16); {
		case x < 6:
			g.simple()
		case x < 10 && g.depth < 3:
			g.try(budget)
		case x == 10 && len(g.funcs) > 0:
			f := g.funcs[r.Intn(len(g.funcs))]
			if r.Chance(1, 4) {
				g.items = append(g.items, asmItem{code: []byte{byte(s.PUSHA)}, ref: f, long: true})
				g.names = append(g.names, "PUSHA")
				g.n++
				g.ins("CALLA", op(s.CALLA))
			} else {
				g.jmp(s.CALL, f)
			}
		case x == 11: // forward jump over something
			l := g.lab()
			switch r.Intn(3) {
			case 0:
				g.jmp(s.JMP, l)
			case 1:
				g.ins("PUSHb", [][]byte{op(s.PUSHT), op(s.PUSHF)}[r.Intn(2)])
				g.jmp(s.JMPIF, l)
			default:
				g.ins("PUSHn", pushI(int64(r.Intn(3))))
				g.ins("PUSHn", pushI(int64(r.Intn(3))))
				g.jmp([]s.Op{s.JMPEQ, s.JMPNE, s.JMPGT, s.JMPGE, s.JMPLT, s.JMPLE}[r.Intn(6)], l)
			}
			g.simple()
			g.mark(l)
		case x == 12 || (g.chaos && x >= 13): // misplaced handler instructions
			switch r.Intn(3) {
			case 0:
				g.ins("ENDFINALLY", op(s.ENDFINALLY))
			case 1:
				l := g.lab()
				g.jmp(s.ENDTRY, l)
				g.mark(l)
			default:
				g.ins("RET", op(s.RET))
			}
		default:
			g.simple()
		}
	}
}

func (g *ctlGen) try(budget int) {
	r := g.r
	g.depth++
	defer func() { g.depth-- }()
	hasCatch := r.Chance(3, 4)
	hasFinally := r.Chance(1, 2)
	if !hasCatch && !hasFinally && r.Chance(9, 10) {
		hasFinally = true
	}
	lc, lf, le := g.lab(), g.lab(), g.lab()
	long := r.Chance(1, 8)
	it := asmItem{code: []byte{byte(s.TRY)}, long: long}
	if long {
		it.code[0] = byte(s.TRYL)
	}
	if hasCatch {
		it.ref = lc
	}
	if hasFinally {
		it.ref2 = lf
	}
	g.items = append(g.items, it)
	g.names = append(g.names, "TRY")
	g.n++
	g.block(budget)
	if r.Chance(14, 15) {
		g.jmp(s.ENDTRY, le)
	}
	if hasCatch {
		g.mark(lc)
		g.block(budget)
		if r.Chance(14, 15) {
			g.jmp(s.ENDTRY, le)
		}
	}
	if hasFinally {
		g.mark(lf)
		g.block(budget)
		if r.Chance(14, 15) {
			g.ins("ENDFINALLY", op(s.ENDFINALLY))
		}
	}
	g.mark(le)
}

// assemble resolves labels; offsets are relative to the instruction start.
func assemble(items []asmItem) []byte {
	size := func(it asmItem) int {
		if it.label != "" {
			return 0
		}
		n := len(it.code)
		if it.ref != "" || it.ref2 != "" || isTry(it) {
			k := 1
			if it.long {
				k = 4
			}
			if isTry(it) {
				n += 2 * k
			} else {
				n += k
			}
		}
		return n
	}
	pos := map[string]int{}
	at := make([]int, len(items))
	p := 0
	for i, it := range items {
		at[i] = p
		if it.label != "" {
			pos[it.label] = p
		}
		p += size(it)
	}
	var out []byte
	enc := func(off int, long bool) []byte {
		if long {
			return []byte{byte(off), byte(off >> 8), byte(off >> 16), byte(off >> 24)}
		}
		return []byte{byte(int8(off))}
	}
	for i, it := range items {
		if it.label != "" {
			continue
		}
		out = append(out, it.code...)
		if isTry(it) {
			c, f := 0, 0
			if it.ref != "" {
				c = pos[it.ref] - at[i]
			}
			if it.ref2 != "" {
				f = pos[it.ref2] - at[i]
			}
			out = append(out, enc(c, it.long)...)
			out = append(out, enc(f, it.long)...)
		} else if it.ref != "" {
			out = append(out, enc(pos[it.ref]-at[i], it.long)...)
		}
	}
	return out
}

func isTry(it asmItem) bool {
	return len(it.code) == 1 && (it.code[0] == byte(s.TRY) || it.code[0] == byte(s.TRYL))
}

// genCtl builds a structured program with try/catch/finally, calls and jumps,
// and sometimes damages one byte of it.
func genCtl(r *rng.R) ([]byte, []string, bool) {
	g := &ctlGen{r: r, chaos: r.Chance(1, 3)}
	nf := r.Intn(3)
	for i := 0; i < nf; i++ {
		g.funcs = append(g.funcs, fmt.Sprint("F", i))
	}
	budget := 6 + r.Intn(14)
	g.block(budget)
	if g.n < 3 {
		g.try(budget)
	}
	if nf > 0 || r.Chance(9, 10) {
		g.ins("RET", op(s.RET))
	}
	for _, f := range g.funcs {
		g.mark(f)
		fb := g.n + 2 + r.Intn(6)
		if r.Chance(1, 2) {
			na := r.Intn(3)
			nl := r.Intn(2)
			if na+nl == 0 {
				nl = 1
			}
			g.ins("INITSLOT", op(s.INITSLOT, byte(nl), byte(na)))
			for k := 0; k < na; k++ {
				g.ins("LDARG", op(s.LDARG0+s.Op(k)))
			}
		}
		g.block(fb)
		if r.Chance(5, 6) {
			g.ins("RET", op(s.RET))
		}
	}
	code := assemble(g.items)
	mutated := false
	if r.Chance(1, 6) && len(code) > 0 {
		mutated = true
		i := r.Intn(len(code))
		switch r.Intn(3) {
		case 0:
			code[i] += byte(1 + r.Intn(3))
		case 1:
			code[i] -= byte(1 + r.Intn(3))
		default:
			ctl := []s.Op{s.ENDFINALLY, s.ENDTRY, s.THROW, s.RET, s.NOP, s.TRY, s.JMP, s.CALL, s.ABORT}
			code[i] = byte(ctl[r.Intn(len(ctl))])
		}
	}
	return code, g.names, mutated
}

// tryOffCase enumerates small TRY / ENDTRY programs over all handler offsets.
func tryOffCase(i int) ([]byte, string) {
	const span = 15 // offsets -3..11
	c := i%span - 3
	i /= span
	f := i%span - 3
	i /= span
	e := i%span - 3
	i /= span
	body := i % 4
	var b []byte
	switch body {
	case 0:
		b = op(s.NOP)
	case 1:
		b = cat(op(s.PUSH7), op(s.THROW))
	case 2:
		b = cat(op(s.NEWARRAY0), op(s.PUSH0), op(s.PICKITEM))
	default:
		b = op(s.ABORT)
	}
	sc := cat(op(s.TRY, byte(int8(c)), byte(int8(f))), op(s.PUSH1), b, op(s.ENDTRY, byte(int8(e))), op(s.PUSH2), op(s.ENDFINALLY), op(s.PUSH3), op(s.RET), op(s.PUSH4))
	return sc, fmt.Sprintf("c%d,f%d,e%d,b%d", c, f, e, body)
}

// tryStartCase: TRY blocks whose catch / finally handler lies BEFORE the TRY
// instruction, at absolute offset 0, 1 or 2 of the script (negative relative
// offsets). The script starts with "DEPTH; JMPIF handler-rest", so the first
// pass (empty stack) falls through to the TRY and the second pass - entered
// through the handler offset with something on the stack - goes on to the
// rest of the handler.
func tryStartCase(i int) ([]byte, string) {
	pad := i % 3 // NOPs before the DEPTH: the handler is at absolute offset pad... or the DEPTH itself
	i /= 3
	kind := i % 4 // 0 catch, 1 finally, 2 both (catch at start), 3 both (finally at start)
	i /= 4
	body := i % 3 // 0 throw, 1 plain, 2 fault
	i /= 3
	target := i % 2 // 0: handler offset points at the first byte of the script, 1: at the DEPTH
	pre := bytes.Repeat(op(s.NOP), pad)
	// layout: pre | DEPTH | JMPIF +x | TRY c f | body | ENDTRY +y | rest...
	var b []byte
	switch body {
	case 0:
		b = cat(op(s.PUSH7), op(s.THROW))
	case 1:
		b = op(s.PUSH5)
	default:
		b = cat(op(s.PUSH5), op(s.NEWARRAY0), op(s.PUSH0), op(s.PICKITEM))
	}
	tryPos := len(pre) + 1 + 2
	back := 0
	if target == 1 {
		back = len(pre)
	}
	toStart := byte(int8(back - tryPos))
	// handler rest H (reached through JMPIF): DROP PUSH9 ENDTRY/ENDFINALLY ...
	var c, f byte
	var rest []byte
	switch kind {
	case 0:
		c, f = toStart, 0
		rest = cat(op(s.DROP), op(s.PUSH9), op(s.ENDTRY, 2), op(s.RET))
	case 1:
		c, f = 0, toStart
		rest = cat(op(s.PUSH9), op(s.ENDFINALLY), op(s.RET))
	case 2:
		c = toStart
		rest = cat(op(s.DROP), op(s.PUSH9), op(s.ENDTRY, 4), op(s.PUSH2), op(s.ENDFINALLY), op(s.RET))
	default:
		f = toStart
		rest = cat(op(s.PUSH9), op(s.ENDFINALLY), op(s.RET), op(s.DROP), op(s.PUSH8), op(s.ENDTRY, 2), op(s.RET))
	}
	mid := cat(b, op(s.ENDTRY, 0)) // ENDTRY offset patched below
	// positions
	jmpifPos := len(pre) + 1
	restPos := tryPos + 3 + len(mid) + 1 // + RET after the ENDTRY target
	sc := cat(pre, op(s.DEPTH), op(s.JMPIF, byte(int8(restPos-jmpifPos))), op(s.TRY, c, f), mid, op(s.RET), rest)
	endtryPos := tryPos + 3 + len(b)
	sc[endtryPos+1] = byte(int8(tryPos + 3 + len(mid) - endtryPos)) // to the RET right after
	switch kind {
	case 2: // finally in the forward direction: at "PUSH2" of rest
		sc[tryPos+2] = byte(int8(restPos + 1 + 1 + 2 - tryPos))
	case 3: // catch in the forward direction: at the second DROP of rest
		sc[tryPos+1] = byte(int8(restPos + 1 + 1 + 1 - tryPos))
	}
	return sc, fmt.Sprintf("pad%d,kind%d,body%d,target%d", pad, kind, body, target)
}

// jmpOffCase enumerates jump / call / pointer offsets around the script bounds.
func jmpOffCase(i int) ([]byte, string) {
	const span = 16 // offsets -5..10
	off := i%span - 5
	i /= span
	kind := i % 9
	o := byte(int8(off))
	tail := cat(op(s.PUSH1), op(s.PUSH2), op(s.RET), op(s.PUSH3))
	var sc []byte
	switch kind {
	case 0:
		sc = cat(op(s.JMP, o), tail)
	case 1:
		sc = cat(op(s.PUSHT), op(s.JMPIF, o), tail)
	case 2:
		sc = cat(op(s.PUSHF), op(s.JMPIF, o), tail)
	case 3:
		sc = cat(op(s.PUSHT), op(s.JMPIFNOT, o), tail)
	case 4:
		sc = cat(op(s.PUSH1), op(s.PUSH2), op(s.JMPLT, o), tail)
	case 5:
		sc = cat(op(s.PUSH1), op(s.PUSH2), op(s.JMPGEL, o, o>>7*0xff, o>>7*0xff, o>>7*0xff), tail)
	case 6:
		sc = cat(op(s.CALL, o), tail)
	case 7:
		sc = cat(op(s.PUSHA, o, o>>7*0xff, o>>7*0xff, o>>7*0xff), op(s.CALLA), tail)
	default:
		sc = cat(op(s.PUSHA, o, o>>7*0xff, o>>7*0xff, o>>7*0xff), op(s.DUP), op(s.PUSHA, o-5, (o-5)>>7*0xff, (o-5)>>7*0xff, (o-5)>>7*0xff), op(s.EQUAL))
	}
	return sc, fmt.Sprintf("k%d,o%d", kind, off)
}

// genRaw: a soup of valid opcodes with random operands.
func genRaw(r *rng.R, valid []byte) []byte {
	var sc []byte
	n := 1 + r.Intn(12)
	for i := 0; i < n; i++ {
		var o s.Op
		if r.Chance(1, 40) {
			o = s.Op(r.Intn(256))
		} else {
			o = s.Op(valid[r.Intn(len(valid))])
		}
		if o == s.SYSCALL || o == s.CALLT {
			if !r.Chance(1, 20) {
				o = s.NOP
			}
		}
		fixed, prefix := s.OperandSize(o)
		sc = append(sc, byte(o))
		if prefix > 0 {
			l := r.Intn(6)
			switch prefix {
			case 1:
				sc = append(sc, byte(l))
			case 2:
				sc = append(sc, byte(l), 0)
			default:
				sc = append(sc, byte(l), 0, 0, 0)
			}
			fixed = l
		}
		if r.Chance(1, 30) && fixed > 0 {
			fixed--
		}
		for j := 0; j < fixed; j++ {
			if r.Chance(2, 3) {
				sc = append(sc, byte(r.Intn(9)))
			} else {
				sc = append(sc, byte(r.Intn(256)))
			}
		}
	}
	return sc
}

// genCompound: compound-type scenarios (reference identity, struct value
// semantics, map ordering) from a small grammar; at most 12 instructions after
// the set-up of the containers.
func genCompound(r *rng.R) ([]byte, []string) {
	var code []byte
	var names []string
	e := func(n string, c []byte) { code = append(code, c...); names = append(names, n) }
	elem := func() {
		switch r.Intn(6) {
		case 0:
			e("PUSHn", pushI(int64(r.Intn(9))))
		case 1:
			e("PUSHDATA", pushData(r.Bytes(r.Intn(3))))
		case 2:
			e("NEWSTRUCT0", op(s.NEWSTRUCT0))
		case 3:
			e("PUSHn", pushI(int64(r.Intn(5))))
			e("PUSHn", pushI(1))
			e("PACKSTRUCT", op(s.PACKSTRUCT))
		case 4:
			e("NEWARRAY0", op(s.NEWARRAY0))
		default:
			e("PUSHNULL", op(s.PUSHNULL))
		}
	}
	// a container in static slot 0 and a second one in slot 1
	e("INITSSLOT", op(s.INITSSLOT, 3))
	for slot := 0; slot < 2; slot++ {
		k := r.Intn(4)
		kind := r.Intn(3)
		for i := 0; i < k; i++ {
			elem()
			if kind == 2 { // map: value below key
				if r.Chance(1, 5) {
					e("PUSHDATA", pushData(r.Bytes(1)))
				} else {
					e("PUSHn", pushI(int64(r.Intn(3))))
				}
			}
		}
		e("PUSHn", pushI(int64(k)))
		switch kind {
		case 0:
			e("PACK", op(s.PACK))
		case 1:
			e("PACKSTRUCT", op(s.PACKSTRUCT))
		default:
			e("PACKMAP", op(s.PACKMAP))
		}
		e("STSFLD", op(s.STSFLD0+s.Op(slot)))
	}
	ld := func() { e("LDSFLD", op(s.LDSFLD0+s.Op(r.Intn(2)))) }
	n := 2 + r.Intn(6)
	for i := 0; i < n; i++ {
		switch r.Intn(14) {
		case 0, 1:
			ld()
			ld()
			e("APPEND", op(s.APPEND))
		case 2:
			ld()
			elem()
			e("APPEND", op(s.APPEND))
		case 3, 4:
			ld()
			e("PUSHn", pushI(int64(r.Intn(4))))
			if r.Bool() {
				ld()
			} else {
				elem()
			}
			e("SETITEM", op(s.SETITEM))
		case 5:
			ld()
			e("PUSHn", pushI(int64(r.Intn(4))))
			e("PICKITEM", op(s.PICKITEM))
			e("STSFLD", op(s.STSFLD0+2))
		case 6:
			ld()
			e("PUSHn", pushI(int64(r.Intn(4))))
			e("REMOVE", op(s.REMOVE))
		case 7:
			ld()
			e("VALUES", op(s.VALUES))
			e("STSFLD", op(s.STSFLD0+s.Op(r.Intn(3))))
		case 8:
			ld()
			e("POPITEM", op(s.POPITEM))
		case 9:
			ld()
			ld()
			e("EQUAL", op(s.EQUAL))
		case 10:
			ld()
			e("CONVERT", op(s.CONVERT, []byte{s.TArray, s.TStruct}[r.Intn(2)]))
			e("STSFLD", op(s.STSFLD0+s.Op(r.Intn(3))))
		case 11:
			ld()
			if r.Bool() {
				e("REVERSEITEMS", op(s.REVERSEITEMS))
			} else {
				e("KEYS", op(s.KEYS))
			}
		case 12:
			ld()
			e("UNPACK", op(s.UNPACK))
		default:
			ld()
			e("PUSHn", pushI(int64(r.Intn(4))))
			e("HASKEY", op(s.HASKEY))
		}
	}
	e("LDSFLD", op(s.LDSFLD0))
	e("LDSFLD", op(s.LDSFLD0+1))
	e("LDSFLD", op(s.LDSFLD0+2))
	return code, names
}

// limitsCase: struct comparison / clone budgets on both sides of their limits.
func limitsCase(i int) ([]byte, string) {
	rpt := func(c []byte, n int) []byte {
		var r []byte
		for k := 0; k < n; k++ {
			r = append(r, c...)
		}
		return r
	}
	// fan builds a struct of n references to one struct of k small integers
	fan := func(n, k int) []byte {
		return cat(rpt(op(s.PUSH1), k), pushI(int64(k)), op(s.PACKSTRUCT), rpt(op(s.DUP), n-1), pushI(int64(n)), op(s.PACKSTRUCT))
	}
	if i >= 3*98 {
		j := i - 3*98
		if j < 8 { // k nested TRYs in one frame (limit 16), optionally 16 more in a callee
			k := 14 + j%4
			sc := rpt(op(s.TRY, 3, 0), k)
			if j >= 4 {
				sc = cat(rpt(op(s.TRY, 3, 0), 16), op(s.CALL, 3), op(s.RET), rpt(op(s.TRY, 3, 0), k), op(s.PUSH1), op(s.RET))
			}
			return cat(sc, op(s.PUSH1)), fmt.Sprintf("TRY-nesting|%d|callee=%v", k, j >= 4)
		}
		// recursion n levels deep (invocation stack limit 1024, entry included)
		n := []int64{10, 1022, 1023, 1024, 1025, 2000}[(j-8)%6]
		// 0: PUSHINT16 n; 3: CALL f(+3); 5: RET; f=6: DEC DUP PUSH0 JMPLE end(+4) CALL f(-5) end: RET
		sc := cat(op(s.PUSHINT16, byte(n), byte(n>>8)), op(s.CALL, 3), op(s.RET),
			op(s.DEC), op(s.DUP), op(s.PUSH0), op(s.JMPLE, 4), op(s.CALL, 0xfb), op(s.RET))
		return sc, fmt.Sprintf("recursion-depth|%d", n)
	}
	switch kind := i % 3; kind {
	case 0:
		// [bs(l1), [bs(l2)]] compared with an equal, separately built value:
		// the comparable-size budget (65536) is one budget for the whole traversal
		ls := []int{100, 30000, 32760, 32770, 40000, 65000, 65535}
		x := mixRadix(i/3, len(ls), len(ls), 2)
		l1, l2 := ls[x[0]], ls[x[1]]
		one := func(fill byte) []byte {
			return cat(pushData(rep(1, l2)), op(s.PUSH1), op(s.PACKSTRUCT), pushData(rep(fill, l1)), op(s.PUSH2), op(s.PACKSTRUCT))
		}
		second := byte(1)
		if x[2] == 1 {
			second = 2 // differs in the outer byte string
		}
		return cat(one(1), one(second), op(s.EQUAL)), fmt.Sprintf("EQUAL-nested-budget|%d|%d|%d", l1, l2, x[2])
	case 1:
		// visits = 1 + n*(k+1) around MaxStackSize (2048)
		nk := [][2]int{{10, 20}, {30, 60}, {22, 91}, {23, 87}, {23, 88}, {31, 65}, {32, 63}, {23, 89}, {24, 86}, {30, 70}, {40, 60}}
		p := nk[(i/3)%len(nk)]
		return cat(fan(p[0], p[1]), fan(p[0], p[1]), op(s.EQUAL)), fmt.Sprintf("EQUAL-visits|%d", 1+p[0]*(p[1]+1))
	default:
		// clone (APPEND of a struct) of n*(k+1) sub-items around the clone limit (2047)
		nk := [][2]int{{10, 20}, {30, 29}, {23, 88}, {32, 63}, {30, 70}, {45, 45}}
		p := nk[(i/3)%len(nk)]
		return cat(op(s.NEWARRAY0), op(s.DUP), fan(p[0], p[1]), op(s.APPEND), op(s.SIZE)), fmt.Sprintf("clone-subitems|%d", p[0]*(p[1]+1))
	}
}

// slotCase enumerates slot initialisation and access: l locals, a arguments,
// p values pushed beforehand, one access kind at index idx.
func slotCase(i int) ([]byte, string) {
	x := mixRadix(i, 4, 4, 5, 8, 8)
	l, a, p, kind, idx := x[0], x[1], x[2], x[3], x[4]
	var sc []byte
	for k := 0; k < p; k++ {
		sc = append(sc, pushI(int64(10+k))...)
	}
	sc = append(sc, op(s.INITSLOT, byte(l), byte(a))...)
	ix := func(base0, gen s.Op) []byte {
		if idx < 7 {
			return op(base0 + s.Op(idx))
		}
		return op(gen, byte(idx))
	}
	switch kind {
	case 0:
		sc = append(sc, ix(s.LDARG0, s.LDARG)...)
	case 1:
		sc = append(sc, ix(s.LDLOC0, s.LDLOC)...)
	case 2:
		sc = cat(sc, op(s.PUSH7), ix(s.STARG0, s.STARG), ix(s.LDARG0, s.LDARG))
	case 3:
		sc = cat(sc, op(s.PUSH7), ix(s.STLOC0, s.STLOC), ix(s.LDLOC0, s.LDLOC))
	case 4: // every argument and local, in order
		for k := 0; k < a; k++ {
			sc = append(sc, op(s.LDARG0+s.Op(k))...)
		}
		for k := 0; k < l; k++ {
			sc = append(sc, op(s.LDLOC0+s.Op(k))...)
		}
	case 5: // static slot
		sc = cat(sc, op(s.INITSSLOT, byte(l)), op(s.PUSH7), ix(s.STSFLD0, s.STSFLD), ix(s.LDSFLD0, s.LDSFLD))
	case 6: // second initialisation
		sc = cat(sc, op(s.INITSLOT, byte(a), byte(l)))
	default: // slots are per frame: a callee sees its own
		sc = cat(sc, op(s.CALL, 3), op(s.RET), op(s.PUSH5), op(s.PUSH6), op(s.INITSLOT, byte(a), byte(l)), ix(s.LDARG0, s.LDARG), op(s.RET))
	}
	return sc, fmt.Sprintf("slots|l%d|a%d|p%d|k%d|i%d", l, a, p, kind, idx)
}

// eqValues are structured values for the all-pairs EQUAL / NOTEQUAL family.
func eqValues() []val {
	st := func(parts ...[]byte) []byte { // struct of the given members (first = index 0)
		var c []byte
		for i := len(parts) - 1; i >= 0; i-- {
			c = append(c, parts[i]...)
		}
		return cat(c, pushI(int64(len(parts))), op(s.PACKSTRUCT))
	}
	i1, i2 := pushI(1), pushI(2)
	a, b := pushData([]byte("a")), pushData([]byte("b"))
	return []val{
		{st(), "", "struct[]"}, {st(i1), "", "struct[1]"}, {st(i2), "", "struct[2]"}, {st(i1, i2), "", "struct[1,2]"}, {st(i2, i1), "", "struct[2,1]"},
		{st(st(i1)), "", "struct[struct[1]]"}, {st(st(i2)), "", "struct[struct[2]]"}, {st(st()), "", "struct[struct[]]"},
		{st(st(st(i1))), "", "struct[struct[struct[1]]]"}, {st(st(st(i2))), "", "struct[struct[struct[2]]]"},
		{st(i1, st(i1, a)), "", "struct[1,struct[1,'a']]"}, {st(i1, st(i1, b)), "", "struct[1,struct[1,'b']]"},
		{st(op(s.NEWARRAY0)), "", "struct[array[]]"}, {st(op(s.NEWMAP)), "", "struct[map{}]"}, {st(pushBuf([]byte("a"))), "", "struct[buffer 'a']"},
		{st(a), "", "struct['a']"}, {st(b), "", "struct['b']"}, {st(pushI(97)), "", "struct[97]"}, {st(op(s.PUSHNULL)), "", "struct[null]"},
		{st(op(s.PUSHT)), "", "struct[true]"}, {st(pushData([]byte{1})), "", "struct[bytes 01]"}, {st(op(s.PUSHA, 0, 0, 0, 0)), "", "struct[pointer]"},
		{cat(i1, pushI(1), op(s.PACK)), "", "array[1]"}, {op(s.NEWARRAY0), "", "array[]"}, {op(s.NEWMAP), "", "map{}"},
		{a, "", "'a'"}, {pushI(97), "", "97"}, {op(s.PUSHT), "", "true"}, {i1, "", "1"}, {op(s.PUSHNULL), "", "null"},
		{cat(st(i1), op(s.CONVERT, s.TArray)), "", "array from struct[1]"},
	}
}

func eqCase(i int, vals []val) ([]byte, string) {
	n := len(vals)
	x := mixRadix(i, n, n, 4)
	a, b := vals[x[1]], vals[x[0]]
	switch x[2] {
	case 0:
		return cat(a.code, b.code, op(s.EQUAL)), "EQUAL(" + a.desc + ", " + b.desc + ")"
	case 1:
		return cat(a.code, b.code, op(s.NOTEQUAL)), "NOTEQUAL(" + a.desc + ", " + b.desc + ")"
	case 2: // two structs sharing the member object a
		return cat(a.code, op(s.DUP), op(s.PUSH1), op(s.PACKSTRUCT), op(s.SWAP), op(s.PUSH1), op(s.PACKSTRUCT), op(s.EQUAL)), "EQUAL(struct[x], struct[x]) x=" + a.desc
	default: // a value against its own APPENDed (struct-copied) member
		return cat(op(s.NEWARRAY0), a.code, op(s.OVER), op(s.OVER), op(s.APPEND), op(s.SWAP), op(s.PUSH0), op(s.PICKITEM), op(s.EQUAL)), "EQUAL(x, copy stored by APPEND) x=" + a.desc
	}
}

// endfinCase enumerates what may be executed inside a finally block that runs
// because of a pending (uncaught) exception: ENDFINALLY / ENDTRY / RET / THROW /
// nothing, placed inline, inside a nested try block, inside a nested catch block
// or in a called function, with and without an outer catch.
func endfinCase(i int) ([]byte, string) {
	x := mixRadix(i, 5, 4, 2)
	what, where, outer := x[0], x[1], x[2] == 1
	var it []asmItem
	ins := func(c []byte) { it = append(it, asmItem{code: c}) }
	ref := func(o s.Op, l string) { it = append(it, asmItem{code: []byte{byte(o)}, ref: l}) }
	try := func(c, f string) { it = append(it, asmItem{code: []byte{byte(s.TRY)}, ref: c, ref2: f}) }
	mark := func(l string) { it = append(it, asmItem{label: l}) }
	X := func() {
		switch what {
		case 0:
			ins(op(s.ENDFINALLY))
		case 1:
			ref(s.ENDTRY, "X")
			mark("X")
		case 2:
			ins(op(s.NOP))
		case 3:
			ins(op(s.RET))
		default:
			ins(op(s.PUSH7))
			ins(op(s.THROW))
		}
	}
	if outer {
		try("Lc1", "")
	}
	try("", "Lf2")
	ins(op(s.PUSH1))
	ins(op(s.THROW))
	mark("Lf2")
	switch where {
	case 0:
		X()
	case 1:
		try("Lc3", "")
		X()
		ref(s.ENDTRY, "Le3")
		mark("Lc3")
		ins(op(s.PUSH5))
		ref(s.ENDTRY, "Le3")
		mark("Le3")
	case 2:
		try("Lc3", "")
		ins(op(s.NEWARRAY0))
		ins(op(s.PUSH0))
		ins(op(s.PICKITEM)) // catchable engine exception replaces the pending one
		mark("Lc3")
		X()
		ref(s.ENDTRY, "Le3")
		mark("Le3")
	default:
		ref(s.CALL, "F")
	}
	ins(op(s.ENDFINALLY))
	ins(op(s.PUSH3))
	if outer {
		ref(s.ENDTRY, "Le1")
		mark("Lc1")
		ins(op(s.PUSH4))
		ref(s.ENDTRY, "Le1")
		mark("Le1")
	}
	ins(op(s.PUSH6))
	ins(op(s.RET))
	mark("F")
	if where == 3 {
		X()
	}
	ins(op(s.RET))
	return assemble(it), fmt.Sprintf("in-finally|what%d|where%d|outercatch=%v", what, where, outer)
}

// ---------------------------------------------------------------- aliasing

// aliasSources leave one byte-carrying value on the stack.
func aliasSources() []val {
	return []val{
		{pushData([]byte("abc")), "", "ByteString constant 'abc'"},
		{pushBuf([]byte{1, 2, 3, 4}), "", "Buffer 01020304"},
		{cat(pushI(3), op(s.NEWBUFFER)), "", "NEWBUFFER 3"},
		{cat(pushBuf([]byte("abc")), op(s.CONVERT, s.TByteStr)), "", "ByteString converted from a Buffer"},
		{pushInt(big.NewInt(0x6261)), "", "Integer 0x6261"},
		{pushData([]byte{0x41}), "", "ByteString constant 'A'"},
		{cat(pushData([]byte("ab")), pushData([]byte("c")), op(s.CAT), op(s.CONVERT, s.TByteStr)), "", "ByteString from CAT"},
		{pushData(rep(0x55, 40)), "", "ByteString constant of 40 bytes"},
		{op(s.PUSHT), "", "Boolean true"},
		{op(s.PUSHF), "", "Boolean false"},
		{pushI(1), "", "Integer 1"},
		{cat(pushI(7), pushI(7), op(s.NUMEQUAL)), "", "Boolean computed by NUMEQUAL"},
	}
}

// aliasReread is appended to every alias case: the byte forms of fresh
// Booleans and small Integers, read after the mutations - an in-place write
// must not have reached memory that other items are built from.
func aliasReread() []byte {
	return cat(op(s.PUSHT), op(s.CONVERT, s.TByteStr), op(s.PUSHF), op(s.CONVERT, s.TByteStr),
		op(s.PUSHT), pushI(0), op(s.PICKITEM), pushI(1), op(s.CONVERT, s.TByteStr), pushI(0), op(s.CONVERT, s.TBuffer))
}

// aliasDerivations turn [x] into [x, y] where y is derived from x.
func aliasDerivations() []val {
	e := pushData([]byte{})
	eb := cat(pushI(0), op(s.NEWBUFFER))
	d := func(c ...[]byte) []byte { return cat(op(s.DUP), cat(c...)) }
	return []val{
		{d(e, op(s.CAT)), "", "x CAT ''"},
		{d(e, op(s.SWAP), op(s.CAT)), "", "'' CAT x"},
		{d(pushI(0), op(s.CAT)), "", "x CAT Integer 0"},
		{d(eb, op(s.CAT)), "", "x CAT empty Buffer"},
		{d(eb, op(s.SWAP), op(s.CAT)), "", "empty Buffer CAT x"},
		{d(pushData([]byte("z")), op(s.CAT)), "", "x CAT 'z'"},
		{d(e, op(s.CAT), e, op(s.CAT)), "", "x CAT '' CAT ''"},
		{d(op(s.PUSHF), op(s.CONVERT, s.TByteStr), pushI(0), op(s.LEFT), op(s.CAT)), "", "x CAT LEFT(..,0)"},
		{d(pushI(0), op(s.OVER), op(s.SIZE), op(s.SUBSTR)), "", "SUBSTR(x,0,size)"},
		{d(op(s.DUP), op(s.SIZE), op(s.LEFT)), "", "LEFT(x,size)"},
		{d(op(s.DUP), op(s.SIZE), op(s.RIGHT)), "", "RIGHT(x,size)"},
		{d(op(s.CONVERT, s.TBuffer)), "", "CONVERT Buffer"},
		{d(op(s.CONVERT, s.TByteStr), op(s.CONVERT, s.TBuffer)), "", "CONVERT ByteString, Buffer"},
		{d(op(s.CONVERT, s.TBuffer), op(s.CONVERT, s.TByteStr), e, op(s.CAT)), "", "CONVERT Buffer, ByteString, CAT ''"},
		{d(), "", "the same item"},
		{d(op(s.DUP), op(s.CAT)), "", "x CAT x"},
		{d(op(s.DUP), op(s.SIZE), op(s.NEWBUFFER), op(s.DUP), op(s.REVERSE3), op(s.SWAP), op(s.PUSH0), op(s.SWAP), op(s.PUSH0), op(s.OVER), op(s.SIZE), op(s.MEMCPY)), "", "MEMCPY into a new buffer"},
	}
}

// aliasMutations change the top item in place and keep it: [.., y] -> [.., y].
func aliasMutations() []val {
	return []val{
		{cat(op(s.DUP), pushI(0), pushI('z'), op(s.SETITEM)), "", "SETITEM 0"},
		{cat(op(s.DUP), op(s.REVERSEITEMS)), "", "REVERSEITEMS"},
		{cat(op(s.DUP), pushI(0), pushData([]byte("Q")), pushI(0), pushI(1), op(s.MEMCPY)), "", "MEMCPY"},
		{cat(op(s.DUP), op(s.DUP), op(s.SIZE), op(s.DEC), pushI(9), op(s.SETITEM)), "", "SETITEM last"},
		{cat(op(s.DUP), pushI(0), op(s.OVER), pushI(0), op(s.PICKITEM), op(s.INC), op(s.SETITEM)), "", "increment byte 0"},
		{nil, "", "no mutation"},
	}
}

// aliasCase: source, derivation, in-place mutation of the derived value, both
// left on the stack; executed once, in a function called twice, or in a loop
// executed three times (re-executing the same PUSHDATA).
func aliasCase(i int) ([]byte, string) {
	src, der, mut := aliasSources(), aliasDerivations(), aliasMutations()
	x := mixRadix(i, len(mut), len(der), len(src), 3)
	body := cat(src[x[2]].code, der[x[1]].code, mut[x[0]].code)
	what := fmt.Sprintf("%s; %s; %s", src[x[2]].desc, der[x[1]].desc, mut[x[0]].desc)
	switch x[3] {
	case 0:
		return cat(body, aliasReread()), "alias once: " + what
	case 1:
		// 0: CALL +5; 2: CALL +3; 4: RET; 5: body RET
		return cat(op(s.CALL, 5), op(s.CALL, 3), op(s.RET), body, op(s.RET)), "alias called twice: " + what
	default:
		// INITSSLOT 1; PUSH0; STSFLD0; L: body; LDSFLD0; INC; DUP; STSFLD0; PUSH3; JMPLT L
		pre := cat(op(s.INITSSLOT, 1), op(s.PUSH0), op(s.STSFLD0))
		tail := cat(op(s.LDSFLD0), op(s.INC), op(s.DUP), op(s.STSFLD0), op(s.PUSH3))
		back := -(len(body) + len(tail))
		var j []byte
		if back >= -128 {
			j = op(s.JMPLT, byte(int8(back)))
		} else {
			j = op(s.JMPLTL, byte(back), byte(back>>8), byte(back>>16), byte(back>>24))
		}
		return cat(pre, body, tail, j), "alias loop x3: " + what
	}
}

// aliasRandom: a random chain of derivations, the source optionally kept in a
// slot or an array, random in-place mutations of some of the derived values.
func aliasRandom(r *rng.R) ([]byte, string) {
	src, der, mut := aliasSources(), aliasDerivations(), aliasMutations()
	sc := cat(op(s.INITSSLOT, 2), src[r.Intn(len(src))].code)
	names := ""
	switch r.Intn(3) {
	case 0:
		sc = cat(sc, op(s.DUP), op(s.STSFLD0))
	case 1:
		sc = cat(sc, op(s.DUP), pushI(1), op(s.PACK), op(s.STSFLD0+1))
	}
	n := 1 + r.Intn(3)
	for k := 0; k < n; k++ {
		d := der[r.Intn(len(der))]
		sc = append(sc, d.code...)
		names += d.desc + "; "
		if r.Chance(2, 3) {
			m := mut[r.Intn(len(mut)-1)]
			sc = append(sc, m.code...)
			names += m.desc + "; "
		}
		if r.Chance(1, 4) {
			sc = cat(sc, pushI(int64(r.Intn(k+2))), op(s.PICK)) // go on from an older value
		}
	}
	sc = cat(sc, op(s.LDSFLD0), op(s.LDSFLD0+1), aliasReread())
	return sc, names
}

// sharedBudgetCase: EQUAL / NOTEQUAL of two different structs whose ByteString
// members are the very same items; every compared pair is charged its length,
// identical or not, so the sum decides.
func sharedBudgetCase(i int) ([]byte, string) {
	sizes := []int64{1000, 20000, 32000, 32760, 32768, 32775, 36768, 50000, 65536, 65540, 22000}
	x := mixRadix(i, len(sizes), 7, 2)
	n := sizes[x[0]]
	bs := cat(op(s.PUSHINT32, byte(n), byte(n>>8), byte(n>>16), byte(n>>24)), op(s.NEWBUFFER), op(s.CONVERT, s.TByteStr))
	var sc []byte
	var what string
	switch x[1] {
	case 0:
		what = "same item packed into two structs [b,b] [b,b]"
		sc = cat(bs, op(s.DUP), op(s.DUP), op(s.DUP), pushI(2), op(s.PACKSTRUCT), op(s.REVERSE3), pushI(2), op(s.PACKSTRUCT))
	case 1:
		what = "struct [b,b] and its APPEND copy"
		sc = cat(bs, op(s.DUP), pushI(2), op(s.PACKSTRUCT), op(s.NEWARRAY0), op(s.DUP), pushI(2), op(s.PICK), op(s.APPEND), pushI(0), op(s.PICKITEM))
	case 2:
		what = "struct [b,b] and its SETITEM copy"
		sc = cat(bs, op(s.DUP), pushI(2), op(s.PACKSTRUCT), pushI(1), op(s.NEWARRAY), op(s.DUP), pushI(0), pushI(3), op(s.PICK), op(s.SETITEM), pushI(0), op(s.PICKITEM))
	case 3:
		what = "struct [b,b] and its VALUES copy"
		sc = cat(bs, op(s.DUP), pushI(2), op(s.PACKSTRUCT), op(s.DUP), pushI(1), op(s.PACK), op(s.VALUES), pushI(0), op(s.PICKITEM))
	case 4:
		what = "three shared members [b,b,b] [b,b,b]"
		sc = cat(bs, op(s.DUP), op(s.DUP), op(s.DUP), op(s.DUP), op(s.DUP), pushI(3), op(s.PACKSTRUCT), op(s.REVERSE4), pushI(3), op(s.PACKSTRUCT))
	case 5:
		what = "shared member next to a separately built equal one [b,c] [b,c']"
		c := cat(op(s.DUP), op(s.CONVERT, s.TBuffer), op(s.CONVERT, s.TByteStr))
		// b c -> [b,c] ; then b c' -> [b,c']
		sc = cat(bs, op(s.DUP), c, op(s.SWAP), pushI(2), op(s.PACKSTRUCT), op(s.SWAP), c, op(s.SWAP), pushI(2), op(s.PACKSTRUCT))
	default:
		what = "nested struct [b,[b]] and its APPEND copy"
		sc = cat(bs, op(s.DUP), pushI(1), op(s.PACKSTRUCT), op(s.SWAP), pushI(2), op(s.PACKSTRUCT), op(s.NEWARRAY0), op(s.DUP), pushI(2), op(s.PICK), op(s.APPEND), pushI(0), op(s.PICKITEM))
	}
	o := s.EQUAL
	if x[2] == 1 {
		o = s.NOTEQUAL
	}
	return cat(sc, op(o)), fmt.Sprintf("%s %s, member size %d", o, what, n)
}

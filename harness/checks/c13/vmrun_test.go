package c13

import (
	"bytes"
	"fmt"
	"strconv"
	"strings"

	"github.com/nspcc-dev/neo-go/pkg/core/fee"
	"github.com/nspcc-dev/neo-go/pkg/smartcontract/trigger"
	"github.com/nspcc-dev/neo-go/pkg/vm"
	"github.com/nspcc-dev/neo-go/pkg/vm/opcode"
	"github.com/nspcc-dev/neo-go/pkg/vm/stackitem"
	"github.com/nspcc-dev/neo-go/verifharness/vlib/vmspec"
)

const (
	// the default on-chain execution fee factor (30) in picoGAS units
	baseExecFee = 30 * vm.ExecFeeFactorMultiplier
	// 10 GAS: more than any run the specification accepts can consume
	// (spec step bound 400 x the dearest opcode 2^15*30 datoshi < 4 GAS), so the
	// limit is only ever hit by a VM that loops where the specification stops.
	gasLimitDatoshi = 10_0000_0000
)

type vmResult struct {
	class string // HALT | FAULT
	canon string // result stack, canonical (HALT only)
	gas   int64
	err   string
	pan   string // panic escaping VM.Run, if any
	// scriptChanged: the loaded program bytes differ after the run
	scriptChanged bool
}

func newVM(script []byte) *vm.VM {
	v := vm.New()
	v.SetPriceGetter(func(op opcode.Opcode, _ []byte) int64 { return fee.Opcode(baseExecFee, op) })
	v.SetGasLimit(gasLimitDatoshi)
	v.Load(script)
	return v
}

func classOf(v *vm.VM) string {
	switch {
	case v.HasFailed():
		return "FAULT"
	case v.HasHalted():
		return "HALT"
	}
	return "RUN"
}

// runVM executes script on a fresh VM of the code under test.
func runVM(script []byte) vmResult { return runOn(script, newVM) }

// The polluters are what a reused VM ran before: each leaves the machine in
// another kind of final state (an unhandled exception of either origin, an
// ABORT inside an armed try block, a HALT with items, static fields and an
// open call), none of which may reach the next script.
var polluters = [][]byte{
	{byte(opcode.PUSH1), byte(opcode.THROW)},
	{byte(opcode.NEWARRAY0), byte(opcode.PUSH5), byte(opcode.PICKITEM)},
	{byte(opcode.TRY), 4, 0, byte(opcode.PUSH2), byte(opcode.ABORT), byte(opcode.RET)},
	{byte(opcode.INITSSLOT), 2, byte(opcode.PUSH3), byte(opcode.NEWARRAY), byte(opcode.DUP), byte(opcode.STSFLD0), byte(opcode.PUSH7), byte(opcode.RET)},
	{byte(opcode.CALL), 3, byte(opcode.RET), byte(opcode.TRY), 0, 4, byte(opcode.PUSH1), byte(opcode.THROW), byte(opcode.PUSH2), byte(opcode.THROW)},
	{byte(opcode.PUSH1), byte(opcode.PUSH0), byte(opcode.DIV)},
}

// runReused executes script on a VM that ran a polluter before and was reset
// for reuse, the way one VM serves all the transactions of a block.
func runReused(script []byte, which int) vmResult {
	return runOn(script, func(own []byte) *vm.VM {
		v := newVM(bytes.Clone(polluters[which%len(polluters)]))
		func() {
			defer func() { _ = recover() }()
			_ = v.Run()
		}()
		v.Reset(trigger.Application)
		v.SetPriceGetter(func(op opcode.Opcode, _ []byte) int64 { return fee.Opcode(baseExecFee, op) })
		v.SetGasLimit(gasLimitDatoshi)
		v.Load(own)
		return v
	})
}

func runOn(script []byte, mk func([]byte) *vm.VM) (res vmResult) {
	// the VM gets a private copy: executing a script must not change it
	own := bytes.Clone(script)
	defer func() { res.scriptChanged = !bytes.Equal(own, script) }()
	v := mk(own)
	func() {
		defer func() {
			if r := recover(); r != nil {
				res.pan = fmt.Sprint(r)
			}
		}()
		if err := v.Run(); err != nil {
			res.err = err.Error()
		}
	}()
	res.class = classOf(v)
	res.gas = v.GasConsumed()
	if res.pan != "" {
		res.class = "PANIC"
		return
	}
	if res.class == "HALT" {
		res.canon = canonVM(v.Estack().ToArray())
	}
	if res.class == "HALT" && res.err != "" || res.class == "FAULT" && res.err == "" {
		res.class += "?" // state and error disagree: never equal to a specification outcome
	}
	return
}

// canonVM renders VM items exactly as vmspec.Canon renders specification items.
func canonVM(items []stackitem.Item) string {
	var sb strings.Builder
	ids := map[stackitem.Item]int{}
	var w func(it stackitem.Item, depth int)
	w = func(it stackitem.Item, depth int) {
		if depth > 64 {
			sb.WriteString("<deep>")
			return
		}
		switch t := it.(type) {
		case stackitem.Null:
			sb.WriteString("null")
		case stackitem.Bool:
			if bool(t) {
				sb.WriteString("true")
			} else {
				sb.WriteString("false")
			}
		case *stackitem.BigInteger:
			sb.WriteString("int:" + t.Big().String())
		case *stackitem.ByteArray:
			sb.WriteString("bs:" + vmspec.CanonBytes([]byte(*t)))
		case *stackitem.Pointer:
			sb.WriteString("ptr:" + strconv.Itoa(t.Position()))
		case *stackitem.Buffer, *stackitem.Array, *stackitem.Struct, *stackitem.Map:
			if id, ok := ids[it]; ok {
				sb.WriteString("@" + strconv.Itoa(id))
				return
			}
			id := len(ids) + 1
			ids[it] = id
			switch c := it.(type) {
			case *stackitem.Buffer:
				sb.WriteString("buf#" + strconv.Itoa(id) + ":" + vmspec.CanonBytes([]byte(*c)))
			case *stackitem.Map:
				sb.WriteString("map#" + strconv.Itoa(id) + "{")
				for i, e := range c.Value().([]stackitem.MapElement) {
					if i > 0 {
						sb.WriteByte(',')
					}
					w(e.Key, depth+1)
					sb.WriteString("=>")
					w(e.Value, depth+1)
				}
				sb.WriteByte('}')
			default:
				if _, ok := it.(*stackitem.Array); ok {
					sb.WriteString("arr#")
				} else {
					sb.WriteString("struct#")
				}
				sb.WriteString(strconv.Itoa(id) + "[")
				for i, e := range it.Value().([]stackitem.Item) {
					if i > 0 {
						sb.WriteByte(',')
					}
					w(e, depth+1)
				}
				sb.WriteByte(']')
			}
		case nil:
			sb.WriteString("<nil>")
		default:
			sb.WriteString("<" + it.String() + ">")
		}
	}
	for i, it := range items {
		if i > 0 {
			sb.WriteString(" | ")
		}
		w(it, 0)
	}
	return sb.String()
}

type divergence struct {
	op       string // instruction at which the two executions first differ
	step     int
	vmClass  string
	specCls  string
	tag      string
	vmStack  string
	specStk  string
	vmErr    string
	specWhy  string
	stackDif bool
	control  bool
}

// locate re-runs the real VM and the specification in lockstep and returns the
// first instruction after which they differ (state class or evaluation stack).
func locate(script []byte) (d divergence) {
	v := newVM(bytes.Clone(script))
	m := vmspec.New(script)
	m.MaxSteps = 100000
	prevOp, prevTag := "start", ""
	for step := 1; step <= 100000; step++ {
		vmIP := -1
		if c := v.Context(); c != nil {
			vmIP = c.NextIP()
		}
		m.Step()
		if vmIP != m.LastIP && m.State != vmspec.Discard {
			// the previous instruction transferred control to different places
			return divergence{op: prevOp, step: step - 1, vmClass: "RUN", specCls: "RUN", tag: prevTag, control: true,
				vmStack: fmt.Sprintf("next ip %d", vmIP), specStk: fmt.Sprintf("next ip %d", m.LastIP)}
		}
		prevOp, prevTag = m.LastOp.String(), m.Tag
		var err error
		var pan string
		func() {
			defer func() {
				if r := recover(); r != nil {
					pan = fmt.Sprint(r)
				}
			}()
			err = v.Step()
		}()
		vc := classOf(v)
		if pan != "" {
			vc = "PANIC"
		}
		sc := m.State.String()
		if sc == "RUNNING" {
			sc = "RUN"
		}
		d = divergence{op: m.LastOp.String(), step: step, vmClass: vc, specCls: sc, tag: m.Tag, specWhy: m.Reason}
		if err != nil {
			d.vmErr = err.Error()
		}
		if pan != "" {
			d.vmErr = "panic: " + pan
		}
		if sc == "DISCARD" {
			return
		}
		if vc != sc {
			return
		}
		if vc == "FAULT" {
			return // both faulted at the same instruction: no divergence here
		}
		d.vmStack = canonVM(v.Estack().ToArray())
		d.specStk = vmspec.Canon(m.Stack())
		if d.vmStack != d.specStk {
			d.stackDif = true
			return
		}
		if vc == "HALT" {
			return
		}
	}
	return
}

// Package c20 decides property C20 (a node syncing from peers converges to
// the same chain and state).
//
// Part "queue" (built with -race): a real bqueue.Queue over a recording fake
// ledger and over a real Blockchain, fed by shuffling producers and a direct
// ("consensus") adder; the recorded AddItem log must obey the ordering /
// exactly-once law and the queue must reach the highest contiguous block.
//
// Part "statesync": a node bootstrapped through statesync.Module from a
// generated source chain with shuffled, batched, duplicated, unsolicited and
// corrupted deliveries and restarts in every stage must end with the source's
// state at the sync point and stay in lockstep afterwards; crash prefixes of
// the recorded database batches (in particular inside the state jump) must
// resume to the same state.
package c20

import (
	"os"
	"testing"

	"github.com/nspcc-dev/neo-go/verifharness/vlib/ev"
)

func TestCheck(t *testing.T) {
	run := ev.Start("C20", "queue: a case is one run of a real bqueue.Queue (cache 1-24 so the ring wraps many times, both operation modes) under 2-5 producer goroutines putting blocks in shuffled order with duplicates, stale and far-ahead indices plus a direct adder, over a delaying fake ledger or a real Blockchain; distinct by (ledger, mode, cache, producers, delay level, whether direct adds / offers at-or-below height / far-ahead puts occurred); non-trivial when the queue itself added blocks. statesync: a case is one bootstrap of a node through statesync.Module from a generated source chain (sync point, storage mode MPT nodes or raw items, delivery order, batch sizes, duplicates, unsolicited and corrupted headers/nodes/blocks, restart points all seeded), or one crash prefix of the recorded database batches of such a bootstrap; distinct by (source, sync point, mode, stages with restarts, kinds of wrong data injected) resp. (run, prefix); non-trivial when the node reached the comparison with the source")
	defer run.Finish()
	run.Assume("queue: the ledger serialises additions (as Blockchain.addLock does) and its height is monotone; the log is recorded inside that serialisation")
	run.Assume("queue progress is restated as bounded progress: after producers stop the missing next block is re-offered; a stall must repeat on three fresh attempts to count")
	run.Assume("statesync: peers are simulated at the statesync.Module API (Init, AddHeaders, GetUnknownMPTNodesBatch/AddMPTNodes, InitContractStorageSync/AddContractStorageItems, AddBlock); the P2P/NeoFS transports are not run")
	run.Assume("statesync: wrong data is injected only where a reference exists to reject it by (headers incl. witness, hashable block/transaction fields, the block's header witness against the already known header, MPT nodes); transaction witnesses and the trusted header's own witness have none; raw storage items carry no hash, a wrong value is always followed by the right one and foreign keys are not injected")
	run.Assume("restarts are graceful (Close, reopen on the same store); crashes are batch prefixes of the recorded store log, backend atomicity trusted")
	part := os.Getenv("VERIF_PART")
	do := func(p string) bool { return part == "" || part == "all" || part == p }
	if do("queue") {
		queuePart(t, run)
	}
	if do("statesync") {
		syncPart(t, run)
	}
}

package c20

import (
	"fmt"
	"os"
	"runtime"
	"strings"
	"sync"
	"testing"

	"github.com/nspcc-dev/neo-go/pkg/core/storage"
	"github.com/nspcc-dev/neo-go/verifharness/vlib/ev"
	"github.com/nspcc-dev/neo-go/verifharness/vlib/rng"
	"github.com/nspcc-dev/neo-go/verifharness/vlib/vchain"
)

// jumpStageName decodes the state change stage marker of a database content.
func jumpStageName(content map[string][]byte) string {
	v, ok := content[string([]byte{byte(storage.SYSStateChangeStage)})]
	if !ok {
		return "none"
	}
	if len(v) != 1 {
		return "malformed"
	}
	names := map[byte]string{1: "none", 2: "started", 4: "newStorageItemsAdded", 8: "staleBlocksRemoved"}
	if n := names[v[0]]; n != "" {
		return "jump-" + n
	}
	return fmt.Sprint(v[0])
}

type syncJob struct {
	id string
	f  func()
}

// onlyCase returns the case a replay is restricted to ("" when none).
func onlyCase(run *ev.Run) string {
	if c := os.Getenv("VERIF_ONLY_CASE"); c != "" {
		return c
	}
	if m := run.Replaying(); m != nil {
		if c, ok := m["case_id"].(string); ok {
			return c
		}
	}
	return ""
}

func runSyncJobs(run *ev.Run, jobs []syncJob) {
	var wg sync.WaitGroup
	ch := make(chan syncJob)
	for w := 0; w < runtime.NumCPU(); w++ {
		wg.Add(1)
		go func() {
			defer wg.Done()
			for j := range ch {
				j.f()
			}
		}()
	}
	only := onlyCase(run)
	for _, j := range jobs {
		// a crash prefix can only be replayed after its recording run
		if run.Want(j.id) || (strings.HasSuffix(j.id, "/recorded-run") && strings.HasPrefix(only, strings.TrimSuffix(j.id, "recorded-run"))) {
			ch <- j
		}
	}
	close(ch)
	wg.Wait()
}

// finish records the case and its verdict.
func (s *syncer) finish(kind string, out *outcome) {
	nontrivial := s.compared > 0 || out != nil || len(s.soft) > 0
	s.run.Case(fmt.Sprintf("%s/src%d/p%d/%s/%s/trusted%d/gc%d/restarts[%s]/wrong[%s]/%s", kind, s.src.idx, s.p, s.sc.Mode, s.sc.Backend, s.sc.Trusted, s.sc.GC, keysOf(s.restarts), keysOf(s.wrong), s.sc.ID), nontrivial)
	s.run.Obs("sync_runs_"+kind+"_"+s.sc.Mode, 1)
	if s.sc.Trusted > 0 {
		s.run.Obs("sync_runs_with_trusted_header", 1)
	}
	if s.sc.GC > 0 {
		s.run.Obs("sync_runs_with_gc_after_sync", 1)
	}
	if s.dir != "" {
		s.run.Obs("sync_runs_on_"+s.sc.Backend, 1)
	}
	for k, v := range s.restarts {
		s.run.Obs("sync_restarts_in_"+k, int64(v))
	}
	for k, v := range s.wrong {
		s.run.Obs("sync_injected_"+k, int64(v))
	}
	s.run.Obs("sync_flushes", int64(s.flushes))
	s.run.Obs("sync_comparisons_with_source", int64(s.compared))
	s.run.Obs("sync_operations", int64(len(s.ops)))
	if out != nil {
		s.soft = append(s.soft, out)
	}
	for _, o := range s.soft {
		s.run.Violation(o.sig, s.sc.ID, o.detail, s.witness())
	}
}

func syncPart(t *testing.T, run *ev.Run) {
	type srcSpec struct{ blocks, interval, mtb int }
	specs := []srcSpec{{44, 4, 10}, {40, 6, 6}, {70, 5, 8}}
	if ev.Tier() == "thorough" {
		specs = []srcSpec{{60, 4, 10}, {56, 6, 6}, {64, 5, 8}, {60, 7, 12}, {50, 8, 5}, {70, 3, 10}, {90, 9, 20}, {66, 4, 6}, {58, 6, 9}, {80, 10, 7}}
	}
	var (
		srcs []*srcChain
		mu   sync.Mutex
		wg   sync.WaitGroup
	)
	srcs = make([]*srcChain, len(specs))
	for i, sp := range specs {
		wg.Add(1)
		go func() {
			defer wg.Done()
			s := buildSource(t, 2000+i, sp.blocks, sp.interval, sp.mtb)
			mu.Lock()
			srcs[i] = s
			mu.Unlock()
		}()
	}
	wg.Wait()
	for _, s := range srcs {
		defer s.h.P.Close()
		if s.h.P.Rejected != nil {
			run.Violation("producer-rejected-own-block", fmt.Sprint("source", s.idx), s.h.P.Rejected.Error(), nil)
			return
		}
		td := s.trie(s.n/uint32(s.I)*uint32(s.I) - uint32(s.I))
		run.Sample(map[string]any{"source": s.idx, "protocol": s.h.PName, "blocks": s.n, "tx_kinds": s.h.P.KindsSummary(), "trie_nodes_at_a_sync_point": len(td.nodes), "of_them_reachable_by_several_paths": td.multi, "branches_with_equal_children": td.twins, "storage_items": len(td.items)})
		run.Obs("source_blocks", int64(s.n))
	}
	perSrc := ev.Pick(12, 80)
	crashPerSrc := ev.Pick(2, 8)
	var jobs []syncJob
	for si, src := range srcs {
		other := srcs[(si+1)%len(srcs)]
		lo, hi := uint32(2*src.I+1), src.n-1
		var edges []uint32
		for q := uint32(2 * src.I); q < src.n; q += uint32(src.I) {
			if (q+1)%vchain.Epoch == 0 {
				edges = append(edges, q)
			}
		}
		for k := 0; k < perSrc; k++ {
			stream := uint64(src.idx)*1000 + uint64(k) + 7
			r := rng.New(stream + 500)
			sc := syncCase{ID: fmt.Sprintf("sync/%d/%d", src.idx, k), Src: src.idx, Mode: "mpt", Stream: stream, Chaos: true, Flush: 30}
			if k%3 == 2 {
				sc.Mode = "storage"
			}
			sc.Remote = lo + uint32(r.Intn(int(hi-lo+1)))
			if k == 0 {
				sc.Remote = hi // the latest point
			}
			if k%4 == 3 && len(edges) > 0 {
				// a sync point that is the last block of a committee epoch
				sc.Remote = edges[(k/4)%len(edges)] + uint32(r.Intn(src.I))
				if sc.Remote > hi {
					sc.Remote = hi
				}
			}
			sc.Restart = map[string]int{"headers": 100, "data": 40, "blocks": 200, "synced": 150}
			// some runs keep a stage free of restarts, so that the stages behind it are reached whatever happens there
			sc.Late = sc.Mode == "mpt" && k%2 == 0
			switch k % 5 {
			case 1:
				sc.Restart["data"] = 0
			case 3:
				sc.Restart["data"], sc.Restart["headers"] = 0, 0
			case 4:
				sc.Restart["blocks"], sc.Restart["synced"] = 0, 0
			}
			p := sc.Remote / uint32(src.I) * uint32(src.I)
			if k%4 == 1 {
				// header synchronisation starts from a trusted header instead of genesis
				if lowest := uint32(max(2*src.I, src.mtb)) + 1; p > uint32(src.mtb) && p-uint32(src.mtb) >= lowest {
					sc.Trusted = max(lowest, p-uint32(src.mtb)-uint32(r.Intn(3)))
				}
			}
			if k%4 == 2 {
				sc.GC = 2 + r.Intn(3)
			}
			sc.KeepAll = k%3 == 1
			switch k % 6 {
			case 4:
				sc.Backend = "bolt"
			case 5:
				sc.Backend = "level"
			default:
				sc.Backend = "mem"
			}
			jobs = append(jobs, syncJob{sc.ID, func() {
				run.BeginCase(sc.ID, sc)
				st, dir, err := newStore(sc)
				if err != nil {
					run.Inconclusive("%s: %v", sc.ID, err)
					return
				}
				s := newSyncer(t, run, sc, src, other, st)
				s.dir = dir
				out := s.open("fresh-node")
				if out == nil {
					out = s.drive("after-sync")
				}
				s.dispose()
				s.finish("sync", out)
				if k < 2 {
					run.Sample(map[string]any{"case": sc, "sync_point": s.p, "restarts": s.restarts, "wrong_data_injected": s.wrong, "operations": len(s.ops), "comparisons_with_source": s.compared})
				}
			}})
		}
		for k := 0; k < crashPerSrc; k++ {
			stream := uint64(src.idx)*1000 + uint64(k) + 700
			r := rng.New(stream + 500)
			mode := "mpt"
			if k%2 == 1 {
				mode = "storage"
			}
			sc := syncCase{ID: fmt.Sprintf("crash/%d/%d-%s/recorded-run", src.idx, k, mode), Src: src.idx, Mode: mode, Stream: stream, Flush: 120, Record: true, Feed: -1,
				Remote: lo + uint32(r.Intn(int(hi-lo+1)))}
			jobs = append(jobs, syncJob{sc.ID, func() { crashRun(t, run, sc, src, other) }})
		}
	}
	// Directed scenario for the known finding about old oracle requests.
	osrc, point := buildOracleSource(t, 2900, 4, 6)
	defer osrc.h.P.Close()
	switch {
	case osrc.h.P.Rejected != nil:
		run.Violation("producer-rejected-own-block", "oracle-source", osrc.h.P.Rejected.Error(), nil)
	case point == 0:
		run.Inconclusive("directed oracle scenario: no response to a request older than MaxTraceableBlocks could be produced")
	default:
		run.Obs("sync_oracle_scenario_built", 1)
		for k, mode := range []string{"mpt", "storage"} {
			sc := syncCase{ID: fmt.Sprintf("oracle/%s", mode), Src: osrc.idx, Mode: mode, Stream: uint64(2900000 + k), Remote: point, Backend: "mem", Flush: 30}
			jobs = append(jobs, syncJob{sc.ID, func() {
				run.BeginCase(sc.ID, sc)
				st, _, err := newStore(sc)
				if err != nil {
					run.Inconclusive("%s: %v", sc.ID, err)
					return
				}
				s := newSyncer(t, run, sc, osrc, nil, st)
				out := s.open("fresh-node")
				if out == nil {
					out = s.drive("after-sync")
				}
				s.dispose()
				s.finish("oracle-scenario", out)
			}})
		}
	}
	runSyncJobs(run, jobs)
}

// crashRun records the atomic database batches of one bootstrap and restarts
// the node from every prefix of that log: each prefix is what a crash between
// two batches leaves behind. The node must come up, finish the bootstrap
// (resuming the state jump where it was interrupted) and equal the source.
func crashRun(t *testing.T, run *ev.Run, sc syncCase, src, other *srcChain) {
	sc.Backend = "mem"
	st := vchain.NewRecStore(storage.NewMemoryStore(), true)
	s := newSyncer(t, run, sc, src, other, st)
	out := s.open("fresh-node")
	if out == nil {
		out = s.drive("after-sync")
	}
	s.close()
	s.finish("crash-recording", out)
	if out != nil {
		return
	}
	log := st.Log()
	base := s.jumpBase
	run.Obs("crash_batches_recorded", int64(len(log)))
	run.Obs("crash_batches_inside_last_block_and_jump", int64(len(log)-base))
	run.Sample(map[string]any{"case": sc, "sync_point": s.p, "atomic_batches": len(log), "batches_of_last_block_and_jump": len(log) - base, "flushes": s.flushes})
	cur := map[string][]byte{}
	var jobs []syncJob
	for k := 1; k < len(log); k++ {
		for key, v := range log[k-1].Puts {
			if v == nil {
				delete(cur, key)
			} else {
				cur[key] = v
			}
		}
		content := make(map[string][]byte, len(cur))
		for a, b := range cur {
			content[a] = b
		}
		where := "during-sync"
		if k > base {
			where = "inside-last-block-and-jump"
		}
		stage := jumpStageName(content)
		c2 := sc
		c2.ID = fmt.Sprintf("%sprefix%d-of-%d/%s", strings.TrimSuffix(sc.ID, "recorded-run"), k, len(log), where)
		c2.Record, c2.Flush, c2.Feed, c2.Chaos = false, 0, 4, false
		c2.Stream = sc.Stream*100 + uint64(k)
		jobs = append(jobs, syncJob{c2.ID, func() {
			inner, err := vchain.Materialize(content, "mem", "")
			if err != nil {
				run.Inconclusive("%s: %v", c2.ID, err)
				return
			}
			n := newSyncer(t, run, c2, src, other, vchain.NewRecStore(inner, false))
			n.op("reopen on the first %d of %d batches (marker %s, %s)", k, len(log), stage, where)
			tag := "crash:" + where + ":marker=" + stage
			out := n.open(tag)
			if out == nil {
				out = n.drive(tag)
			}
			n.close()
			run.Obs("crash_prefixes_"+where, 1)
			run.Obs("crash_prefix_marker_"+stage, 1)
			n.finish("crash-prefix", out)
		}})
	}
	runSyncJobs(run, jobs)
}

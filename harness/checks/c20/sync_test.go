package c20

import (
	"bytes"
	"crypto/sha256"
	"fmt"
	"os"
	"regexp"
	"sort"
	"strings"
	"sync"
	"testing"

	"github.com/nspcc-dev/neo-go/pkg/config"
	"github.com/nspcc-dev/neo-go/pkg/core"
	"github.com/nspcc-dev/neo-go/pkg/core/block"
	"github.com/nspcc-dev/neo-go/pkg/core/mpt"
	"github.com/nspcc-dev/neo-go/pkg/core/native/nativehashes"
	"github.com/nspcc-dev/neo-go/pkg/core/state"
	"github.com/nspcc-dev/neo-go/pkg/core/statesync"
	"github.com/nspcc-dev/neo-go/pkg/core/storage"
	"github.com/nspcc-dev/neo-go/pkg/core/transaction"
	"github.com/nspcc-dev/neo-go/pkg/io"
	"github.com/nspcc-dev/neo-go/pkg/neotest"
	"github.com/nspcc-dev/neo-go/pkg/neotest/chain"
	"github.com/nspcc-dev/neo-go/pkg/smartcontract/trigger"
	"github.com/nspcc-dev/neo-go/pkg/util"
	"github.com/nspcc-dev/neo-go/pkg/vm/stackitem"
	"github.com/nspcc-dev/neo-go/pkg/vm/vmstate"
	"github.com/nspcc-dev/neo-go/verifharness/vlib/ev"
	"github.com/nspcc-dev/neo-go/verifharness/vlib/mptwalk"
	"github.com/nspcc-dev/neo-go/verifharness/vlib/rng"
	"github.com/nspcc-dev/neo-go/verifharness/vlib/vchain"
	"go.uber.org/zap"
	"go.uber.org/zap/zapcore"
	"go.uber.org/zap/zaptest/observer"
)

type outcome struct{ sig, detail string }

func (o *outcome) String() string { return o.sig + ": " + o.detail }

// guard runs f and converts a panic into pv.
func guard(f func() error) (err error, pv any) {
	defer func() {
		if x := recover(); x != nil {
			pv = x
		}
	}()
	return f(), nil
}

var reHex = regexp.MustCompile(`[0-9a-fA-F]{8,}|\d+`)

// normMsg strips numbers and hashes from a panic / error text so that it can
// be part of a signature.
func normMsg(x any) string {
	s := fmt.Sprint(x)
	if i := strings.IndexByte(s, '\n'); i >= 0 {
		s = s[:i]
	}
	s = reHex.ReplaceAllString(s, "N")
	s = strings.Join(strings.Fields(s), "-")
	if len(s) > 90 {
		s = s[:90]
	}
	return s
}

// ---------------------------------------------------------------------------
// Source chains.

type trieData struct {
	root  util.Uint256
	nodes map[util.Uint256][]byte
	list  []util.Uint256 // sorted
	items []storage.KeyValue
	multi int // nodes reachable by more than one path
	twins int // branch nodes with two equal children (the same sub-trie under two nibbles)
}

type srcChain struct {
	idx    int
	h      *vchain.History
	I, mtb int
	proto  func(*config.Blockchain)
	n      uint32
	hdr    []*block.Header
	hdrRaw [][]byte
	mu     sync.Mutex
	tries  map[uint32]*trieData
	states map[uint32]*stateInfo
}

func encodeHeader(h *block.Header) []byte {
	w := io.NewBufBinWriter()
	h.EncodeBinary(w.BinWriter)
	return w.Bytes()
}

func decodeHeader(raw []byte) (*block.Header, error) {
	h := &block.Header{StateRootEnabled: true}
	r := io.NewBinReaderFromBuf(raw)
	h.DecodeBinary(r)
	if r.Err == nil && r.Len() != 0 {
		return nil, fmt.Errorf("trailing bytes")
	}
	return h, r.Err
}

func buildSource(t *testing.T, idx, blocks, interval, mtb int) *srcChain {
	s := &srcChain{idx: idx, I: interval, mtb: mtb, tries: map[uint32]*trieData{}, states: map[uint32]*stateInfo{}}
	s.proto = func(c *config.Blockchain) {
		vchain.AllForks(c)
		c.MaxTraceableBlocks = uint32(mtb)
		c.MaxValidUntilBlockIncrement = 5
		c.StateRootInHeader = true
		c.StateSyncInterval = interval
		c.P2PStateExchangeExtensions = true
	}
	base := blocks * 2 / 5
	s.h = vchain.BuildHistory(t, vchain.HistoryCfg{Idx: idx, Blocks: base, Proto: s.proto, PName: fmt.Sprintf("statesync-I%d-mtb%d", interval, mtb)})
	if s.h.P.Rejected != nil {
		return s
	}
	// Accounts whose keys differ in one nibble and whose balances are equal:
	// the same sub-trie hangs under two nibbles of one branch node, i.e. MPT
	// nodes reachable by more than one path (as with equal values under
	// sibling contract keys, which the generated history also produces).
	p := s.h.P
	for round := 0; round < 2 && p.Rejected == nil; round++ {
		var txs []*transaction.Transaction
		for _, u := range p.Users {
			if u.Blocked || len(txs) >= 3 {
				continue
			}
			to := util.Uint160{byte(0x10 * (len(txs) + 1)), 0xcc + byte(round)}
			txs = append(txs, p.Call("gas-transfer-twin", []neotest.Signer{u.S}, p.GasH, "transfer", u.Hash(), to, int64(4242), nil))
		}
		p.AddBlock(txs...)
	}
	// A registered candidate blocked by Policy: the committee of the next epoch
	// then depends on Policy's list of blocked accounts.
	// Registered candidates blocked by Policy in the three blocks right before a
	// sync point that is the last block of a committee epoch (when the interval
	// admits one): the committee of the next epoch then depends on Policy's list
	// of blocked accounts at exactly the point a node may jump to.
	edge := 0
	for q := (len(p.Raw)/interval + 1) * interval; q < blocks; q += interval {
		if (q+1)%vchain.Epoch == 0 && q-4 >= len(p.Raw) {
			edge = q
			break
		}
	}
	for edge > 0 && len(p.Raw) < edge-4 && p.Rejected == nil {
		p.Step()
	}
	for round := 0; round < 3 && p.Rejected == nil; round++ {
		if tx := p.BlockCandidate(); tx != nil && p.TxKinds[tx.Hash()] == "block-candidate" {
			p.AddBlock(tx)
		}
	}
	for len(p.Raw) < blocks && p.Rejected == nil {
		p.Step()
	}
	if p.Rejected != nil {
		return s
	}
	s.seal(t)
	return s
}

// seal reads the finished chain's headers.
func (s *srcChain) seal(t *testing.T) {
	bc := s.h.P.BC
	s.n = bc.BlockHeight()
	for i := uint32(0); i <= s.n; i++ {
		hd, err := bc.GetHeader(bc.GetHeaderHash(i))
		if err != nil {
			t.Fatalf("source header %d: %v", i, err)
		}
		s.hdr = append(s.hdr, hd)
		s.hdrRaw = append(s.hdrRaw, encodeHeader(hd))
	}
}

// oracleAnswer describes an oracle response transaction of a source block.
type oracleAnswer struct {
	tx         util.Uint256
	request    util.Uint256 // the transaction that filed the request
	reqHeight  uint32
	sourceHALT bool
}

// oracleAnswers lists the oracle responses of source block i.
func (s *srcChain) oracleAnswers(i uint32) []oracleAnswer {
	var res []oracleAnswer
	bc := s.h.P.BC
	for _, tx := range s.h.P.Blocks[i-1].Transactions {
		if !tx.HasAttribute(transaction.OracleResponseT) {
			continue
		}
		a := oracleAnswer{tx: tx.Hash()}
		aers, err := bc.GetAppExecResults(tx.Hash(), trigger.Application)
		if err == nil && len(aers) == 1 {
			a.sourceHALT = aers[0].VMState == vmstate.Halt
			for _, e := range aers[0].Events {
				if e.Name != "OracleResponse" || e.ScriptHash != nativehashes.OracleContract {
					continue
				}
				if arr, ok := e.Item.Value().([]stackitem.Item); ok && len(arr) == 2 {
					if b, err := arr[1].TryBytes(); err == nil {
						if h, err := util.Uint256DecodeBytesBE(b); err == nil {
							a.request = h
							if _, hh, err := bc.GetTransaction(h); err == nil {
								a.reqHeight = hh
							}
						}
					}
				}
			}
		}
		res = append(res, a)
	}
	return res
}

// buildOracleSource builds the directed history that pins the known finding
// "Oracle.finish needs the request's transaction": oracle requests are filed,
// more than MaxTraceableBlocks blocks pass (a sync point lies in between, late
// enough for the request transactions to be outside what a node synchronised
// there stores), then the requests are answered. It returns the sync point.
func buildOracleSource(t *testing.T, idx, interval, mtb int) (*srcChain, uint32) {
	s := &srcChain{idx: idx, I: interval, mtb: mtb, tries: map[uint32]*trieData{}, states: map[uint32]*stateInfo{}}
	s.proto = func(c *config.Blockchain) {
		vchain.AllForks(c)
		c.MaxTraceableBlocks = uint32(mtb)
		c.MaxValidUntilBlockIncrement = 5
		c.StateRootInHeader = true
		c.StateSyncInterval = interval
		c.P2PStateExchangeExtensions = true
	}
	old := func(p *vchain.Producer, _ *block.Block) { p.OracleMaxAge = 1000 }
	s.h = vchain.BuildHistory(t, vchain.HistoryCfg{Idx: idx, Blocks: 14, Proto: s.proto, PName: "statesync-old-oracle-requests", NoQuiet: true, OnBlock: old})
	p := s.h.P
	if p.Rejected != nil {
		return s, 0
	}
	p.OracleMaxAge = 1000
	p.OnBlock = nil
	ask := vchain.Weights{Oracle: 6, Deploy: 1}
	idle := vchain.Weights{GasTransfer: 1}
	point := uint32(0)
	for cycle := 0; cycle < 5 && point == 0 && p.Rejected == nil; cycle++ {
		p.Cfg.W = ask
		for k := 0; k < 4 && p.Rejected == nil; k++ {
			p.Step()
		}
		asked := uint32(len(p.Raw))
		// the sync point: its stored blocks start above the requests
		sp := (asked + uint32(mtb) + uint32(interval)) / uint32(interval) * uint32(interval)
		sp = max(sp, uint32(2*interval))
		p.Cfg.W = idle
		for uint32(len(p.Raw)) < sp+1 && p.Rejected == nil {
			p.Step()
		}
		p.Cfg.W = vchain.Weights{Oracle: 1}
		for k := 0; k < 8 && point == 0 && p.Rejected == nil; k++ {
			p.Step()
			for _, a := range s.oracleAnswersOf(p, uint32(len(p.Raw))) {
				if a.reqHeight > 0 && a.reqHeight+uint32(mtb) <= sp {
					point = sp
				}
			}
		}
	}
	p.Cfg.W = idle
	for k := 0; k < 3 && p.Rejected == nil; k++ {
		p.Step()
	}
	if p.Rejected == nil {
		s.seal(t)
	}
	return s, point
}

// oracleAnswersOf is oracleAnswers for a chain still being built.
func (s *srcChain) oracleAnswersOf(p *vchain.Producer, i uint32) []oracleAnswer {
	if int(i) > len(p.Blocks) || i == 0 {
		return nil
	}
	return s.oracleAnswers(i)
}

func (s *srcChain) block(i uint32) *block.Block {
	b, err := vchain.DecodeBlock(s.h.P.Raw[i-1], true)
	if err != nil {
		panic(err)
	}
	return b
}

// stateInfo is what a node retaining the state of height h must be able to
// read back through its state module.
type stateInfo struct {
	root   util.Uint256
	items  []storage.KeyValue
	digest [32]byte
}

func itemsDigest(items []storage.KeyValue) [32]byte {
	h := sha256.New()
	for _, it := range items {
		fmt.Fprintf(h, "%x=%x;", it.Key, it.Value)
	}
	var d [32]byte
	copy(d[:], h.Sum(nil))
	return d
}

// stateAt returns the full contract storage of the source at height h as its
// own state module reads it from the root of h (the source is an archive).
func (s *srcChain) stateAt(h uint32) *stateInfo {
	s.mu.Lock()
	defer s.mu.Unlock()
	if si := s.states[h]; si != nil {
		return si
	}
	sr, err := s.h.P.BC.GetStateModule().GetStateRoot(h)
	if err != nil {
		panic(fmt.Sprintf("source state root %d: %v", h, err))
	}
	si := &stateInfo{root: sr.Root}
	s.h.P.BC.GetStateModule().SeekStates(sr.Root, nil, func(k, v []byte) bool {
		si.items = append(si.items, storage.KeyValue{Key: bytes.Clone(k), Value: bytes.Clone(v)})
		return true
	})
	si.digest = itemsDigest(si.items)
	s.states[h] = si
	return si
}

// trie collects the MPT nodes and raw items of the state at height p.
func (s *srcChain) trie(p uint32) *trieData {
	s.mu.Lock()
	defer s.mu.Unlock()
	if td := s.tries[p]; td != nil {
		return td
	}
	td := &trieData{root: s.hdr[p+1].PrevStateRoot, nodes: map[util.Uint256][]byte{}}
	visits := map[util.Uint256]int{}
	err := s.h.P.BC.GetStateSyncModule().Traverse(td.root, func(n mpt.Node, nb []byte) bool {
		if _, seen := td.nodes[n.Hash()]; !seen {
			if br, ok := n.(*mpt.BranchNode); ok {
				ch := map[util.Uint256]bool{}
				for _, c := range br.Children {
					if c.Type() == mpt.EmptyT {
						continue
					}
					if ch[c.Hash()] {
						td.twins++
						break
					}
					ch[c.Hash()] = true
				}
			}
		}
		td.nodes[n.Hash()] = bytes.Clone(nb)
		visits[n.Hash()]++
		return false
	})
	if err != nil {
		panic(fmt.Sprintf("source traverse: %v", err))
	}
	for h, v := range visits {
		td.list = append(td.list, h)
		if v > 1 {
			td.multi++
		}
	}
	sort.Slice(td.list, func(i, j int) bool { return td.list[i].Compare(td.list[j]) < 0 })
	s.h.P.BC.GetStateModule().SeekStates(td.root, nil, func(k, v []byte) bool {
		td.items = append(td.items, storage.KeyValue{Key: bytes.Clone(k), Value: bytes.Clone(v)})
		return true
	})
	s.tries[p] = td
	return td
}

// ---------------------------------------------------------------------------
// The syncing node.

func openNode(t testing.TB, cfg func(*config.Blockchain), st storage.Store) (bc *core.Blockchain, logs *observer.ObservedLogs, err error) {
	zc, logs := observer.New(zapcore.ErrorLevel)
	lg := zap.New(zc, zap.WithFatalHook(zapcore.WriteThenPanic))
	bc, _, _, err = chain.NewMultiWithOptionsNoCheck(t, &chain.Options{BlockchainConfigHook: cfg, Store: st, SkipRun: true, Logger: lg})
	if err != nil {
		return nil, logs, err
	}
	go bc.Run()
	return bc, logs, nil
}

type syncCase struct {
	ID      string         `json:"case_id"`
	Src     int            `json:"source_history"`
	Mode    string         `json:"mode"` // mpt | storage
	Remote  uint32         `json:"remote_height"`
	Stream  uint64         `json:"stream"`
	Chaos   bool           `json:"wrong_data"`
	Restart map[string]int `json:"restart_permille"` // per stage, per step
	Flush   int            `json:"flush_permille"`
	Record  bool           `json:"record"`
	Feed    int            `json:"blocks_after_sync"`
	Late    bool           `json:"restart_when_trie_nearly_complete"`
	Backend string         `json:"backend"`        // mem | bolt | level
	Trusted uint32         `json:"trusted_header"` // 0: headers are synchronised from genesis
	GC      int            `json:"gc_period"`      // GarbageCollectionPeriod of the syncing node (0: default)
	KeepAll bool           `json:"keep_only_latest_state_off"`
}

type syncer struct {
	t     testing.TB
	run   *ev.Run
	sc    syncCase
	src   *srcChain
	other *srcChain
	cfg   func(*config.Blockchain)
	st    *vchain.RecStore
	bc    *core.Blockchain
	mod   *statesync.Module
	logs  *observer.ObservedLogs
	r     *rng.R
	ops   []string
	p     uint32
	rem   uint32
	td    *trieData
	alt   *trieData

	restarts map[string]int
	wrong    map[string]int
	flushes  int
	compared int
	jumpBase int // batches recorded before the call that triggered the jump
	stages   []string
	soft     []*outcome // violations after which the run can go on
	lateDone bool
	hdrEdge  bool
	blkEdge  bool
	forged   bool
	dir      string // database directory of a disk backend
}

// newStore creates the store of a syncing node.
func newStore(sc syncCase) (*vchain.RecStore, string, error) {
	dir := ""
	if sc.Backend != "" && sc.Backend != "mem" {
		d, err := os.MkdirTemp("", "c20-node-")
		if err != nil {
			return nil, "", err
		}
		dir = d
	}
	inner, err := vchain.NewBackend(sc.Backend, dir)
	if err != nil {
		return nil, dir, err
	}
	return vchain.NewRecStore(inner, sc.Record), dir, nil
}

// dispose closes the node and removes its database.
func (s *syncer) dispose() {
	s.close()
	_ = s.st.RealClose()
	if s.dir != "" {
		_ = os.RemoveAll(s.dir)
	}
}

func (s *syncer) softViolation(sig, detail string) {
	for _, o := range s.soft {
		if o.sig == sig {
			return
		}
	}
	s.soft = append(s.soft, &outcome{sig, detail})
}

func nodeCfg(src *srcChain, sc syncCase) func(*config.Blockchain) {
	mode := sc.Mode
	return func(c *config.Blockchain) {
		src.proto(c)
		c.KeepOnlyLatestState = !sc.KeepAll
		c.RemoveUntraceableBlocks = true
		if sc.Trusted > 0 {
			c.TrustedHeader = config.HashIndex{Hash: src.hdr[sc.Trusted].Hash(), Index: sc.Trusted}
		}
		if sc.GC > 0 {
			c.GarbageCollectionPeriod = uint32(sc.GC)
		}
		if mode == "storage" {
			c.P2PStateExchangeExtensions = false
			c.NeoFSStateSyncExtensions = true
			c.NeoFSStateFetcher.Enabled = true
			c.NeoFSBlockFetcher.Enabled = true
		}
	}
}

func newSyncer(t testing.TB, run *ev.Run, sc syncCase, src, other *srcChain, st *vchain.RecStore) *syncer {
	s := &syncer{t: t, run: run, sc: sc, src: src, other: other, st: st, r: rng.New(sc.Stream),
		restarts: map[string]int{}, wrong: map[string]int{}, rem: sc.Remote, jumpBase: -1}
	s.cfg = nodeCfg(src, sc)
	s.p = sc.Remote / uint32(src.I) * uint32(src.I)
	s.td = src.trie(s.p)
	s.alt = src.trie(s.p - 1)
	return s
}

func (s *syncer) op(f string, a ...any) {
	if len(s.ops) < 4000 {
		s.ops = append(s.ops, fmt.Sprintf(f, a...))
	}
}

func (s *syncer) witness() map[string]any {
	ops := s.ops
	if len(ops) > 120 {
		ops = append(append([]string{}, ops[:20]...), append([]string{"..."}, ops[len(ops)-100:]...)...)
	}
	var errs []string
	if s.logs != nil {
		for _, e := range s.logs.All() {
			errs = append(errs, fmt.Sprintf("%s %v", e.Message, e.ContextMap()))
		}
	}
	return map[string]any{"case": s.sc, "sync_point": s.p, "interval": s.src.I, "max_traceable": s.src.mtb, "source_height": s.src.n,
		"trie_nodes": len(s.td.nodes), "trie_nodes_with_several_paths": s.td.multi, "branches_with_equal_children": s.td.twins, "operations": ops, "node_error_log": errs}
}

func (s *syncer) stage() string {
	switch {
	case s.mod == nil:
		return "closed"
	case !s.mod.IsActive():
		return "done"
	case !s.mod.IsInitialized():
		return "uninitialized"
	case s.mod.NeedHeaders():
		return "headers"
	case s.mod.NeedStorageData():
		return "data"
	case s.mod.NeedBlocks():
		return "blocks"
	}
	return "unknown"
}

// open (re)creates the node on its store and initialises the module the way
// the server does (tryInitStateSync).
func (s *syncer) open(where string) *outcome {
	var e error
	_, pv := guard(func() error { s.bc, s.logs, e = openNode(s.t, s.cfg, s.st); return nil })
	if pv != nil {
		s.bc = nil
		return &outcome{"sync:node-start-panics:" + normMsg(pv), fmt.Sprintf("%s: %v", where, pv)}
	}
	if e != nil {
		s.bc = nil
		if strings.Contains(e.Error(), "could not get header "+s.src.hdr[0].Hash().StringLE()) {
			// start-up walks the header chain down to the genesis header, which the
			// state jump removed (chains below one header-hash page, sync point
			// above MaxTraceableBlocks)
			return &outcome{"sync:node-cannot-start-after-state-jump:header-walk-needs-the-removed-genesis-header", fmt.Sprintf("%s: %v (header height below 2000, sync point %d > MaxTraceableBlocks %d)", where, e, s.p, s.src.mtb)}
		}
		return &outcome{"sync:node-start-fails:" + normMsg(e), fmt.Sprintf("%s: %v", where, e)}
	}
	s.mod = s.bc.GetStateSyncModule()
	if s.mod.IsActive() && !s.mod.IsInitialized() {
		err, pv := guard(func() error { return s.mod.Init(s.rem) })
		if pv != nil {
			return &outcome{"sync:Init-panics-on-partially-synced-store:" + normMsg(pv), fmt.Sprintf("%s: Module.Init(%d) panics: %v", where, s.rem, pv)}
		}
		if err != nil {
			return &outcome{"sync:Init-fails-on-partially-synced-store:" + normMsg(err), fmt.Sprintf("%s: Module.Init(%d): %v", where, s.rem, err)}
		}
		if s.mod.IsActive() && s.mod.GetStateSyncPoint() != s.p {
			return &outcome{"sync:wrong-sync-point:" + where, fmt.Sprintf("Init(%d) chose point %d, expected %d", s.rem, s.mod.GetStateSyncPoint(), s.p)}
		}
	}
	if s.sc.Mode == "storage" && s.mod.IsActive() && s.mod.NeedStorageData() {
		if o := s.initStorageSync(); o != nil {
			return o
		}
	}
	return nil
}

func (s *syncer) close() {
	if s.bc != nil {
		_, _ = guard(func() error { s.bc.Close(); return nil })
		s.bc = nil
	}
}

// reopenDB closes and reopens the database file of a disk backend.
func (s *syncer) reopenDB() *outcome {
	if s.dir == "" {
		return nil
	}
	if err := s.st.RealClose(); err != nil {
		return &outcome{"sync:database-close-fails", err.Error()}
	}
	inner, err := vchain.NewBackend(s.sc.Backend, s.dir)
	if err != nil {
		return &outcome{"sync:database-reopen-fails", err.Error()}
	}
	s.st.Inner = inner
	return nil
}

func (s *syncer) initStorageSync() *outcome {
	err, pv := guard(func() error {
		return s.mod.InitContractStorageSync(state.MPTRoot{Index: s.p, Root: s.td.root})
	})
	if pv != nil {
		return &outcome{"sync:InitContractStorageSync-panics:" + normMsg(pv), fmt.Sprint(pv)}
	}
	if err != nil {
		return &outcome{"sync:correct-state-root-rejected", err.Error()}
	}
	return nil
}

func (s *syncer) unknown() []util.Uint256 {
	u := s.mod.GetUnknownMPTNodesBatch(1 << 30)
	sort.Slice(u, func(i, j int) bool { return u[i].Compare(u[j]) < 0 })
	return u
}

// maybeRestart closes the node and reopens it on the same store with the
// stage's probability; progress made so far must survive.
func (s *syncer) maybeRestart(stage string) *outcome {
	if s.sc.Flush > 0 && s.r.Intn(1000) < s.sc.Flush {
		s.op("flush")
		s.flushes++
		if err, pv := guard(func() error { return s.bc.VerifPersist() }); err != nil || pv != nil {
			return &outcome{"sync:flush-fails:" + stage, fmt.Sprint(err, pv)}
		}
	}
	if s.r.Intn(1000) >= s.sc.Restart[stage] {
		return nil
	}
	return s.restart(stage)
}

func (s *syncer) restart(stage string) *outcome {
	hh := s.bc.HeaderHeight()
	var (
		bh  uint32
		unk []util.Uint256
	)
	before := s.stage()
	switch before {
	case "blocks":
		bh = s.mod.BlockHeight()
	case "data":
		if s.sc.Mode == "mpt" {
			unk = s.unknown()
		}
	}
	// the network moves on while the node is down
	if max := min(s.src.n, s.p+2*uint32(s.src.I)-1); s.rem < max && s.r.Intn(2) == 0 {
		s.rem += 1 + uint32(s.r.Intn(int(max-s.rem)))
	}
	s.op("restart@%s(remote=%d)", stage, s.rem)
	s.restarts[stage]++
	s.close()
	if o := s.reopenDB(); o != nil {
		return o
	}
	if o := s.open("after-restart-in-" + stage + "-stage"); o != nil {
		return o
	}
	if got := s.bc.HeaderHeight(); got < hh {
		return &outcome{"sync:restart-lost-progress:headers", fmt.Sprintf("header height %d before the restart, %d after", hh, got)}
	}
	if after := s.stage(); after != before {
		return &outcome{"sync:restart-changed-stage:" + before + "->" + after, fmt.Sprintf("stage %s before the restart, %s after (header height %d, sync point %d)", before, after, s.bc.HeaderHeight(), s.p)}
	}
	switch before {
	case "blocks":
		if got := s.mod.BlockHeight(); got != bh {
			return &outcome{"sync:restart-lost-progress:blocks", fmt.Sprintf("module block height %d before the restart, %d after", bh, got)}
		}
	case "data":
		if s.sc.Mode == "mpt" {
			u2 := s.unknown()
			same := len(u2) == len(unk)
			for i := 0; same && i < len(unk); i++ {
				same = unk[i] == u2[i]
			}
			if same {
				s.run.Obs("sync_unknown_set_equal_after_restart", 1)
			} else {
				s.run.Obs("sync_unknown_set_differs_after_restart", 1)
			}
		}
	}
	return nil
}

// ---------------------------------------------------------------------------
// Stage 1: headers.

var headerFaults = []string{"timestamp", "nonce", "prev-hash", "next-consensus", "prev-state-root", "merkle-root", "index-gap", "witness-invocation", "witness-verification", "other-chain", "reversed", "future-gap", "truncated"}

func (s *syncer) mutateHeader(i uint32, kind string) *block.Header {
	h, _ := decodeHeader(s.src.hdrRaw[i])
	switch kind {
	case "timestamp":
		h.Timestamp++
	case "nonce":
		h.Nonce ^= 1 << uint(s.r.Intn(64))
	case "prev-hash":
		h.PrevHash[s.r.Intn(32)] ^= 1 << uint(s.r.Intn(8))
	case "next-consensus":
		h.NextConsensus[s.r.Intn(20)] ^= 1 << uint(s.r.Intn(8))
	case "prev-state-root":
		h.PrevStateRoot[s.r.Intn(32)] ^= 1 << uint(s.r.Intn(8))
	case "merkle-root":
		h.MerkleRoot[s.r.Intn(32)] ^= 1 << uint(s.r.Intn(8))
	case "index-gap":
		h.Index++
	case "witness-invocation":
		if n := len(h.Script.InvocationScript); n > 4 {
			h.Script.InvocationScript = bytes.Clone(h.Script.InvocationScript)
			h.Script.InvocationScript[2+s.r.Intn(n-2)] ^= 1 << uint(s.r.Intn(8))
		}
	case "witness-verification":
		if n := len(h.Script.VerificationScript); n > 4 {
			h.Script.VerificationScript = bytes.Clone(h.Script.VerificationScript)
			h.Script.VerificationScript[2+s.r.Intn(n-2)] ^= 1 << uint(s.r.Intn(8))
		}
	}
	h2, err := decodeHeader(encodeHeader(h))
	if err != nil {
		return nil
	}
	return h2
}

// checkHeaders compares the node's header chain with the source's on (from, to].
func (s *syncer) checkHeaders(from, to uint32, full bool) *outcome {
	for i := from + 1; i <= to; i++ {
		hh := s.bc.GetHeaderHash(i)
		if hh != s.src.hdr[i].Hash() {
			return &outcome{"sync:wrong-header-accepted", fmt.Sprintf("header %d of the node has hash %s, the source's is %s", i, hh.StringLE(), s.src.hdr[i].Hash().StringLE())}
		}
		if full {
			h, err := s.bc.GetHeader(hh)
			if err != nil {
				return &outcome{"sync:accepted-header-not-readable", fmt.Sprintf("header %d: %v", i, err)}
			}
			if !bytes.Equal(encodeHeader(h), s.src.hdrRaw[i]) {
				return &outcome{"sync:wrong-header-accepted:same-hash-different-bytes", fmt.Sprintf("stored header %d differs from the source's bytes", i)}
			}
			s.compared++
		}
	}
	return nil
}

func (s *syncer) headersStage() *outcome {
	steps := 0
	for s.mod.NeedHeaders() {
		steps++
		hh := s.bc.HeaderHeight()
		if steps > 3000 || hh >= s.src.n {
			return &outcome{"sync:headers-stage-never-completes", fmt.Sprintf("header height %d, sync point %d, source height %d, %d steps", hh, s.p, s.src.n, steps)}
		}
		x := s.r.Intn(10)
		if s.sc.Chaos && s.sc.Trusted > 0 && hh+1 == s.sc.Trusted && !s.forged {
			// once: a header with another hash at the trusted index, preceded by
			// headers the node considers known (an ordinary overlapping reply)
			s.forged = true
			kinds := []string{"timestamp", "nonce", "prev-hash", "next-consensus", "prev-state-root", "merkle-root", "other-chain"}
			kind := kinds[s.r.Intn(len(kinds))]
			var forgedH *block.Header
			if kind == "other-chain" && s.other != nil && int(s.sc.Trusted) < len(s.other.hdr) && s.other.hdr[s.sc.Trusted].Hash() != s.src.hdr[s.sc.Trusted].Hash() {
				forgedH = s.other.hdr[s.sc.Trusted]
			} else {
				if kind == "other-chain" {
					kind = "nonce"
				}
				forgedH = s.mutateHeader(s.sc.Trusted, kind)
			}
			if forgedH != nil {
				var chunk []*block.Header
				for i := s.sc.Trusted - min(s.sc.Trusted-1, uint32(1+s.r.Intn(3))); i < s.sc.Trusted; i++ {
					chunk = append(chunk, s.src.hdr[i])
				}
				nKnown := len(chunk)
				chunk = append(chunk, forgedH)
				for i := s.sc.Trusted + 1; i <= min(s.src.n, s.sc.Trusted+uint32(s.r.Intn(3))); i++ {
					chunk = append(chunk, s.src.hdr[i])
				}
				s.wrong["header:forged-trusted-after-known:"+kind]++
				s.op("AddHeaders(%d known headers, forged trusted header %d (%s), %d more)", nKnown, s.sc.Trusted, kind, len(chunk)-nKnown-1)
				_, pv := guard(func() error { return s.mod.AddHeaders(chunk...) })
				if pv != nil {
					return &outcome{"sync:AddHeaders-panics:" + normMsg(pv), fmt.Sprint(pv)}
				}
				if got := s.bc.HeaderHeight(); got >= s.sc.Trusted {
					if o := s.checkHeaders(s.sc.Trusted-1, got, false); o != nil {
						o.sig += ":at-the-trusted-index-after-known-headers"
						return o
					}
				}
				continue
			}
		}
		if s.sc.Restart["headers"] > 0 && !s.hdrEdge && hh < s.p && hh+8 >= s.p && max(1, s.sc.Trusted) <= hh+1 {
			// stage boundary: stop exactly at the sync point (one header short of
			// the end of the stage) and restart there
			s.hdrEdge = true
			s.op("AddHeaders(%d..%d)", hh+1, s.p)
			err, pv := guard(func() error { return s.mod.AddHeaders(s.src.hdr[hh+1 : s.p+1]...) })
			if pv != nil {
				return &outcome{"sync:AddHeaders-panics:" + normMsg(pv), fmt.Sprint(pv)}
			}
			if err != nil {
				return &outcome{"sync:correct-headers-rejected", fmt.Sprintf("AddHeaders(%d..%d) at header height %d: %v", hh+1, s.p, hh, err)}
			}
			if o := s.restart("headers"); o != nil {
				return o
			}
			continue
		}
		if !s.sc.Chaos || x < 6 {
			// correct chunk with overlap (duplicates of known headers)
			from := hh + 1
			if ov := uint32(s.r.Intn(4)); ov < from {
				from -= ov // known headers, also ones below a trusted index
			}
			to := min(s.src.n, hh+1+uint32(s.r.Intn(9)))
			s.op("AddHeaders(%d..%d)", from, to)
			err, pv := guard(func() error { return s.mod.AddHeaders(s.src.hdr[from : to+1]...) })
			if pv != nil {
				return &outcome{"sync:AddHeaders-panics:" + normMsg(pv), fmt.Sprint(pv)}
			}
			if err != nil {
				return &outcome{"sync:correct-headers-rejected", fmt.Sprintf("AddHeaders(%d..%d) at header height %d: %v", from, to, hh, err)}
			}
			if got := s.bc.HeaderHeight(); got != to {
				return &outcome{"sync:correct-headers-not-applied", fmt.Sprintf("AddHeaders(%d..%d) at header height %d returned nil, header height is %d", from, to, hh, got)}
			}
		} else {
			kind := headerFaults[s.r.Intn(len(headerFaults))]
			n := 1 + s.r.Intn(6)
			to := min(s.src.n, hh+uint32(n))
			var chunk []*block.Header
			for i := hh + 1; i <= to; i++ {
				chunk = append(chunk, s.src.hdr[i])
			}
			pos := s.r.Intn(len(chunk))
			switch kind {
			case "other-chain":
				if s.other == nil || int(hh)+1+pos >= len(s.other.hdr) {
					continue
				}
				chunk[pos] = s.other.hdr[int(hh)+1+pos]
			case "reversed":
				if len(chunk) < 2 {
					continue
				}
				for i, j := 0, len(chunk)-1; i < j; i, j = i+1, j-1 {
					chunk[i], chunk[j] = chunk[j], chunk[i]
				}
			case "future-gap":
				if hh+2 > s.src.n {
					continue
				}
				chunk = chunk[:0]
				for i := hh + 2 + uint32(s.r.Intn(3)); i <= min(s.src.n, hh+6); i++ {
					chunk = append(chunk, s.src.hdr[i])
				}
				if len(chunk) == 0 {
					continue
				}
			case "truncated":
				raw := s.src.hdrRaw[hh+1+uint32(pos)]
				h, err := decodeHeader(raw[:len(raw)-1-s.r.Intn(len(raw)/2)])
				if err != nil || h == nil {
					s.run.Obs("sync_wrong_data_undecodable", 1)
					continue
				}
				chunk[pos] = h
			default:
				if strings.HasPrefix(kind, "witness") && hh+1+uint32(pos) == s.sc.Trusted {
					// the trusted header is identified by its hash alone and its
					// predecessor is unknown: nothing to check its witness against
					continue
				}
				m := s.mutateHeader(hh+1+uint32(pos), kind)
				if m == nil {
					continue
				}
				chunk[pos] = m
			}
			if pre := uint32(s.r.Intn(4)); pre > 0 && kind != "reversed" && hh >= 1 {
				// an overlapping reply: headers the node already has (or, below a
				// trusted index, considers known) in front
				pre = min(pre, hh)
				var known []*block.Header
				for i := hh + 1 - pre; i <= hh; i++ {
					known = append(known, s.src.hdr[i])
				}
				chunk = append(known, chunk...)
				pos += int(pre)
				s.wrong["header:fault-after-known-headers"]++
			}
			s.wrong["header:"+kind]++
			s.op("AddHeaders(bad %s at +%d of %d)", kind, pos, len(chunk))
			err, pv := guard(func() error { return s.mod.AddHeaders(chunk...) })
			if pv != nil {
				return &outcome{"sync:AddHeaders-panics:" + normMsg(pv), fmt.Sprintf("fault %s: %v", kind, pv)}
			}
			if err != nil {
				s.run.Obs("sync_wrong_headers_rejected_with_error", 1)
			}
		}
		got := s.bc.HeaderHeight()
		if got < hh {
			return &outcome{"sync:header-height-decreased", fmt.Sprintf("%d -> %d", hh, got)}
		}
		if o := s.checkHeaders(hh, got, false); o != nil {
			return o
		}
		if s.mod.NeedHeaders() {
			if o := s.maybeRestart("headers"); o != nil {
				return o
			}
		}
	}
	if s.bc.HeaderHeight() <= s.p {
		return &outcome{"sync:headers-stage-left-early", fmt.Sprintf("header height %d, sync point %d", s.bc.HeaderHeight(), s.p)}
	}
	return s.checkHeaders(s.firstHeader(), s.bc.HeaderHeight(), true)
}

// firstHeader is the height below the first header the node has to hold.
func (s *syncer) firstHeader() uint32 {
	if s.sc.Trusted > 0 {
		return s.sc.Trusted - 1
	}
	return 0
}

// ---------------------------------------------------------------------------
// Stage 2 (MPT mode): trie nodes.

var nodeFaults = []string{"bit-flip", "truncated", "hash-node-of-requested-hash", "empty-node", "other-trie", "garbage", "child-inlined", "child-inlined"}

func (s *syncer) badNode(kind string, need []util.Uint256) []byte {
	target := need[s.r.Intn(len(need))]
	good := s.td.nodes[target]
	switch kind {
	case "bit-flip":
		c := bytes.Clone(good)
		c[s.r.Intn(len(c))] ^= 1 << uint(s.r.Intn(8))
		return c
	case "truncated":
		return bytes.Clone(good[:s.r.Intn(len(good))])
	case "hash-node-of-requested-hash":
		return append([]byte{byte(mpt.HashT)}, target.BytesBE()...)
	case "empty-node":
		return []byte{byte(mpt.EmptyT)}
	case "child-inlined":
		// the requested branch / extension node with one child written out in full
		// instead of by its hash: the same content, the same node hash, another
		// (non-canonical) form - the child would never be asked for
		for _, h := range need {
			raw := s.td.nodes[h]
			if len(raw) == 0 {
				continue
			}
			var at []int // offsets of hash children
			switch mpt.NodeType(raw[0]) {
			case mpt.BranchT:
				off := 1
				for off < len(raw) {
					if mpt.NodeType(raw[off]) == mpt.HashT && off+33 <= len(raw) {
						at = append(at, off)
						off += 33
					} else {
						off++
					}
				}
			case mpt.ExtensionT:
				if len(raw) > 34 && mpt.NodeType(raw[len(raw)-33]) == mpt.HashT {
					at = append(at, len(raw)-33)
				}
			}
			if len(at) == 0 {
				continue
			}
			off := at[s.r.Intn(len(at))]
			ch, err := util.Uint256DecodeBytesBE(raw[off+1 : off+33])
			if err != nil {
				continue
			}
			child, ok := s.td.nodes[ch]
			if !ok {
				continue
			}
			out := append([]byte{}, raw[:off]...)
			out = append(out, child...)
			return append(out, raw[off+33:]...)
		}
		return nil
	case "other-trie":
		for range 20 {
			h := s.alt.list[s.r.Intn(len(s.alt.list))]
			if _, ok := s.td.nodes[h]; !ok {
				return s.alt.nodes[h]
			}
		}
		return nil
	default:
		return s.r.Bytes(1 + s.r.Intn(40))
	}
}

func (s *syncer) mptStage() *outcome {
	steps, maxSteps := 0, 80*len(s.td.nodes)+500
	for s.mod.NeedStorageData() {
		steps++
		need := s.unknown()
		if steps > maxSteps {
			return &outcome{"sync:mpt-stage-never-completes", fmt.Sprintf("%d steps, %d nodes still unknown of %d", steps, len(need), len(s.td.nodes))}
		}
		if len(need) == 0 {
			return &outcome{"sync:no-unknown-nodes-but-state-not-complete", "GetUnknownMPTNodesBatch is empty while NeedStorageData is true"}
		}
		for _, h := range need {
			if _, ok := s.td.nodes[h]; !ok {
				return &outcome{"sync:node-outside-the-trie-requested", fmt.Sprintf("hash %s is not a node of the state at the sync point", h.StringBE())}
			}
		}
		if s.r.Intn(8) == 0 {
			k := 1 + s.r.Intn(5)
			sub := s.mod.GetUnknownMPTNodesBatch(k)
			ok := len(sub) == min(k, len(need))
			for _, h := range sub {
				if i := sort.Search(len(need), func(i int) bool { return need[i].Compare(h) >= 0 }); i >= len(need) || need[i] != h {
					ok = false
				}
			}
			if !ok {
				return &outcome{"sync:unknown-batch-inconsistent", fmt.Sprintf("limit %d gave %d hashes of %d unknown", k, len(sub), len(need))}
			}
		}
		if s.sc.Chaos && s.r.Intn(4) == 0 {
			kind := nodeFaults[s.r.Intn(len(nodeFaults))]
			if b := s.badNode(kind, need); b != nil {
				s.wrong["node:"+kind]++
				s.op("AddMPTNodes(bad %s)", kind)
				batch := [][]byte{b}
				if kind != "empty-node" && s.r.Intn(2) == 0 { // in front of a requested node: the rest of a failed batch may be dropped
					batch = append(batch, s.td.nodes[need[s.r.Intn(len(need))]])
				}
				err, pv := guard(func() error { return s.mod.AddMPTNodes(batch) })
				if pv != nil {
					if strings.Contains(fmt.Sprint(pv), "hash of an EmptyNode") && batch[0][0] == byte(mpt.EmptyT) {
						// the panic is raised before the module touches anything: go on
						s.softViolation("sync:AddMPTNodes-panics:peer-sends-an-EmptyNode:"+normMsg(pv), fmt.Sprintf("AddMPTNodes with a node whose bytes are %x (type EmptyT): panic: %v", batch[0], pv))
						continue
					}
					return &outcome{"sync:AddMPTNodes-panics:wrong-data:" + kind + ":" + normMsg(pv), fmt.Sprint(pv)}
				}
				if err != nil {
					s.run.Obs("sync_wrong_nodes_rejected_with_error", 1)
				}
				if !s.mod.NeedStorageData() {
					break
				}
				need = s.unknown()
				if len(need) == 0 {
					continue
				}
			}
		}
		if s.sc.Chaos && s.r.Intn(12) == 0 {
			// data of another stage, nobody asked for it
			i := max(1, s.sc.Trusted) + uint32(s.r.Intn(int(s.src.n-max(1, s.sc.Trusted)+1)))
			s.op("unsolicited AddHeaders(%d)/AddBlock(%d)", i, i)
			hh := s.bc.HeaderHeight()
			_, pv := guard(func() error { _ = s.mod.AddHeaders(s.src.hdr[i]); return s.mod.AddBlock(s.src.block(i)) })
			if pv != nil {
				return &outcome{"sync:unsolicited-data-panics:data-stage:" + normMsg(pv), fmt.Sprint(pv)}
			}
			if s.bc.HeaderHeight() != hh || s.bc.BlockHeight() != 0 {
				return &outcome{"sync:unsolicited-data-accepted:data-stage", fmt.Sprintf("header height %d -> %d, block height %d", hh, s.bc.HeaderHeight(), s.bc.BlockHeight())}
			}
			s.wrong["unsolicited-stage-data"]++
		}
		// a correct answer: a subset of what was asked, duplicates, nodes nobody asked for
		m := 1 + s.r.Intn(min(len(need), 12))
		idx := s.r.Perm(len(need))[:m]
		var batch [][]byte
		chosen := map[util.Uint256]bool{}
		for _, i := range idx {
			batch = append(batch, s.td.nodes[need[i]])
			chosen[need[i]] = true
		}
		if s.r.Intn(3) == 0 {
			batch = append(batch, batch[s.r.Intn(len(batch))])
			s.wrong["node:duplicate"]++
		}
		if s.r.Intn(3) == 0 {
			batch = append(batch, s.td.nodes[s.td.list[s.r.Intn(len(s.td.list))]])
			s.wrong["node:unsolicited"]++
		}
		if s.sc.Chaos && s.r.Intn(5) == 0 {
			if b := s.badNode("other-trie", need); b != nil {
				batch = append(batch, b)
				s.wrong["node:other-trie"]++
			}
		}
		s.r.Shuffle(len(batch), func(i, j int) { batch[i], batch[j] = batch[j], batch[i] })
		s.op("AddMPTNodes(%d of %d unknown, batch %d)", m, len(need), len(batch))
		err, pv := guard(func() error { return s.mod.AddMPTNodes(batch) })
		if pv != nil {
			return &outcome{"sync:AddMPTNodes-panics:correct-data:" + normMsg(pv), fmt.Sprint(pv)}
		}
		if err != nil {
			return &outcome{"sync:correct-mpt-nodes-rejected", fmt.Sprintf("batch of %d valid nodes (%d requested): %v", len(batch), m, err)}
		}
		if s.mod.NeedStorageData() {
			for _, h := range s.mod.GetUnknownMPTNodesBatch(1 << 30) {
				if chosen[h] {
					return &outcome{"sync:delivered-node-still-requested", fmt.Sprintf("node %s was delivered without error and is requested again", h.StringBE())}
				}
			}
			if s.sc.Late && !s.lateDone && len(need)-m <= 3 {
				// once, when nearly the whole trie is stored
				s.lateDone = true
				if o := s.restart("data"); o != nil {
					return o
				}
			} else if o := s.maybeRestart("data"); o != nil {
				return o
			}
		}
	}
	return nil
}

// ---------------------------------------------------------------------------
// Stage 2 (storage mode): raw contract storage items.

func (s *syncer) storageStage() *outcome {
	if s.sc.Chaos {
		// a root that is not the one the headers commit to
		bad := s.td.root
		bad[s.r.Intn(32)] ^= 0x10
		err, pv := guard(func() error { return s.mod.InitContractStorageSync(state.MPTRoot{Index: s.p, Root: bad}) })
		if pv != nil {
			return &outcome{"sync:InitContractStorageSync-panics:" + normMsg(pv), fmt.Sprint(pv)}
		}
		if err == nil {
			return &outcome{"sync:wrong-state-root-accepted", "InitContractStorageSync accepted a root that differs from the header's PrevStateRoot"}
		}
		s.wrong["storage:wrong-root"]++
		err, pv = guard(func() error { return s.mod.InitContractStorageSync(state.MPTRoot{Index: s.p + 1, Root: s.td.root}) })
		if pv != nil || err == nil {
			return &outcome{"sync:wrong-state-root-accepted:wrong-index", fmt.Sprint(err, pv)}
		}
	}
	if o := s.initStorageSync(); o != nil {
		return o
	}
	items := s.td.items
	pending := s.r.Perm(len(items))
	var delivered []int
	steps := 0
	for s.mod.NeedStorageData() {
		steps++
		if len(pending) == 0 || steps > 50*len(items)+100 {
			return &outcome{"sync:storage-stage-never-completes", fmt.Sprintf("all %d items delivered with their right values last, %d steps, state still incomplete", len(items), steps)}
		}
		m := min(len(pending), 1+s.r.Intn(24))
		take := pending[:m]
		pending = pending[m:]
		var batch []storage.KeyValue
		for _, i := range take {
			batch = append(batch, items[i])
		}
		if len(delivered) > 0 && s.r.Intn(3) == 0 {
			d := delivered[s.r.Intn(len(delivered))]
			batch = append(batch, items[d])
			s.wrong["item:duplicate"]++
		}
		if s.sc.Chaos && s.r.Intn(4) == 0 {
			// a wrong value now, the right one later
			j := s.r.Intn(m)
			v := bytes.Clone(batch[j].Value)
			if len(v) == 0 || s.r.Intn(3) == 0 {
				v = append(v, 0x5a)
			} else {
				v[s.r.Intn(len(v))] ^= 1 << uint(s.r.Intn(8))
			}
			batch[j] = storage.KeyValue{Key: batch[j].Key, Value: v}
			at := s.r.Intn(len(pending) + 1)
			pending = append(pending[:at], append([]int{take[j]}, pending[at:]...)...)
			take = append(append([]int{}, take[:j]...), take[j+1:]...)
			s.wrong["item:wrong-value-then-right"]++
		}
		delivered = append(delivered, take...)
		s.r.Shuffle(len(batch), func(i, j int) { batch[i], batch[j] = batch[j], batch[i] })
		s.op("AddContractStorageItems(%d, %d pending)", len(batch), len(pending))
		err, pv := guard(func() error { return s.mod.AddContractStorageItems(batch) })
		if pv != nil {
			return &outcome{"sync:AddContractStorageItems-panics:" + normMsg(pv), fmt.Sprint(pv)}
		}
		if err != nil {
			return &outcome{"sync:correct-storage-items-rejected", err.Error()}
		}
		if s.mod.NeedStorageData() {
			if o := s.maybeRestart("data"); o != nil {
				return o
			}
		}
	}
	return nil
}

// ---------------------------------------------------------------------------
// Stage 3: blocks up to the sync point, then the jump.

var blockFaults = []string{"timestamp", "nonce", "prev-hash", "next-consensus", "prev-state-root", "drop-tx", "swap-tx", "tx-script", "tx-nonce", "no-txs", "other-chain", "future", "past", "state-root-flag", "witness-garbage", "witness-emptied", "witness-signature-dropped", "witness-verification-script"}

func (s *syncer) badBlock(next uint32, kind string) *block.Block {
	b := s.src.block(next)
	switch kind {
	case "timestamp":
		b.Timestamp++
	case "nonce":
		b.Nonce ^= 1 << uint(s.r.Intn(64))
	case "prev-hash":
		b.PrevHash[s.r.Intn(32)] ^= 1 << uint(s.r.Intn(8))
	case "next-consensus":
		b.NextConsensus[s.r.Intn(20)] ^= 1 << uint(s.r.Intn(8))
	case "prev-state-root":
		b.PrevStateRoot[s.r.Intn(32)] ^= 1 << uint(s.r.Intn(8))
	case "drop-tx":
		if len(b.Transactions) == 0 {
			return nil
		}
		i := s.r.Intn(len(b.Transactions))
		b.Transactions = append(b.Transactions[:i:i], b.Transactions[i+1:]...)
	case "swap-tx":
		if len(b.Transactions) < 2 {
			return nil
		}
		b.Transactions[0], b.Transactions[1] = b.Transactions[1], b.Transactions[0]
	case "tx-script":
		if len(b.Transactions) == 0 {
			return nil
		}
		tx := b.Transactions[s.r.Intn(len(b.Transactions))]
		tx.Script = bytes.Clone(tx.Script)
		tx.Script[s.r.Intn(len(tx.Script))] ^= 1 << uint(s.r.Intn(8))
	case "tx-nonce":
		if len(b.Transactions) == 0 {
			return nil
		}
		b.Transactions[s.r.Intn(len(b.Transactions))].Nonce++
	case "no-txs":
		if len(b.Transactions) == 0 {
			return nil
		}
		b.Transactions = nil
	case "other-chain":
		if s.other == nil || next > s.other.n {
			return nil
		}
		return s.other.block(next)
	case "future":
		if next+1 > s.p {
			return nil
		}
		return s.src.block(next + 1 + uint32(s.r.Intn(int(s.p-next))))
	case "past":
		if next < 2 {
			return nil
		}
		return s.src.block(1 + uint32(s.r.Intn(int(next-1))))
	case "witness-garbage":
		// same hash (the witness is not hashed): the already known, verified
		// header is the reference the block's witness is checked against
		if s.r.Intn(2) == 0 {
			b.Script.InvocationScript = s.r.Bytes(1 + s.r.Intn(len(b.Script.InvocationScript)+8))
		} else {
			b.Script.InvocationScript = bytes.Clone(b.Script.InvocationScript)
			b.Script.InvocationScript[s.r.Intn(len(b.Script.InvocationScript))] ^= 1 << uint(s.r.Intn(8))
		}
	case "witness-emptied":
		b.Script.InvocationScript = []byte{}
	case "witness-signature-dropped":
		// a multisignature invocation script is a sequence of PUSHDATA1 64 <signature>
		if len(b.Script.InvocationScript) < 2*66 {
			return nil
		}
		k := s.r.Intn(len(b.Script.InvocationScript) / 66)
		inv := bytes.Clone(b.Script.InvocationScript)
		b.Script.InvocationScript = append(inv[:k*66:k*66], inv[(k+1)*66:]...)
	case "witness-verification-script":
		b.Script.VerificationScript = bytes.Clone(b.Script.VerificationScript)
		b.Script.VerificationScript[s.r.Intn(len(b.Script.VerificationScript))] ^= 1 << uint(s.r.Intn(8))
	case "state-root-flag":
		b2, err := vchain.DecodeBlock(vchain.EncodeBlock(b), false)
		if err != nil {
			return nil
		}
		return b2
	}
	b2, err := vchain.DecodeBlock(vchain.EncodeBlock(b), true)
	if err != nil {
		return nil
	}
	return b2
}

func (s *syncer) blocksStage() *outcome {
	steps := 0
	for s.mod.NeedBlocks() {
		steps++
		bh := s.mod.BlockHeight()
		if steps > 2000 || bh >= s.p {
			return &outcome{"sync:blocks-stage-never-completes", fmt.Sprintf("module block height %d, sync point %d, %d steps", bh, s.p, steps)}
		}
		next := bh + 1
		if s.sc.Chaos && s.r.Intn(3) == 0 {
			kind := blockFaults[s.r.Intn(len(blockFaults))]
			b := s.badBlock(next, kind)
			if b == nil || (b.Index == next && bytes.Equal(vchain.EncodeBlock(b), s.src.h.P.Raw[next-1])) {
				continue
			}
			s.wrong["block:"+kind]++
			s.op("AddBlock(bad %s, index %d, next %d)", kind, b.Index, next)
			err, pv := guard(func() error { return s.mod.AddBlock(b) })
			if pv != nil {
				return &outcome{"sync:AddBlock-panics:wrong-data:" + kind + ":" + normMsg(pv), fmt.Sprint(pv)}
			}
			if err != nil {
				s.run.Obs("sync_wrong_blocks_rejected_with_error", 1)
			}
			if !s.mod.NeedBlocks() || s.mod.BlockHeight() != bh {
				return &outcome{"sync:wrong-block-accepted:" + kind, fmt.Sprintf("module block height %d -> %d after a wrong block (%s)", bh, s.mod.BlockHeight(), kind)}
			}
			continue
		}
		if next == s.p && s.sc.Restart["blocks"] > 0 && !s.blkEdge {
			// stage boundary: restart with only the last block missing
			s.blkEdge = true
			if o := s.restart("blocks"); o != nil {
				return o
			}
			continue
		}
		if next == s.p {
			s.jumpBase = s.st.Batches()
		}
		s.op("AddBlock(%d)", next)
		err, pv := guard(func() error { return s.mod.AddBlock(s.src.block(next)) })
		if pv != nil {
			return &outcome{"sync:AddBlock-panics:correct-data:" + normMsg(pv), fmt.Sprintf("block %d (sync point %d): %v", next, s.p, pv)}
		}
		if err != nil {
			return &outcome{"sync:correct-block-rejected", fmt.Sprintf("block %d at module height %d: %v", next, bh, err)}
		}
		if s.mod.BlockHeight() != next {
			return &outcome{"sync:correct-block-not-applied", fmt.Sprintf("AddBlock(%d) returned nil, module block height is %d", next, s.mod.BlockHeight())}
		}
		if s.mod.NeedBlocks() {
			if o := s.maybeRestart("blocks"); o != nil {
				return o
			}
		}
	}
	return nil
}

// ---------------------------------------------------------------------------
// Comparison with the source.

// obsDiff compares the fields the node observation has with the source's
// (header height may legitimately differ: headers run ahead of blocks).
func obsDiff(src, node *vchain.Observation) (string, string) {
	if src.Height != node.Height {
		return "height", fmt.Sprintf("height %d vs %d", src.Height, node.Height)
	}
	for i, n := range node.Names {
		if n == "header_height" {
			continue
		}
		if i >= len(src.Names) || src.Names[i] != n {
			return "fields", "field lists differ at " + n
		}
		if src.Vals[i] != node.Vals[i] {
			short := n
			if j := strings.IndexByte(n, ':'); j > 0 && !strings.HasPrefix(n[j+1:], "-") {
				short = n[:j]
			}
			return short, fmt.Sprintf("%s: source %.200s, synced node %.200s", n, src.Vals[i], node.Vals[i])
		}
	}
	return "", ""
}

func (s *syncer) observe(skipBlockData bool) (o *vchain.Observation, out *outcome) {
	opts := s.src.h.P.ObsOpts()
	opts.SkipBlockData = skipBlockData
	_, pv := guard(func() error { o = vchain.Observe(s.bc, opts); return nil })
	if pv != nil {
		return nil, &outcome{"sync:reading-state-panics:" + normMsg(pv), fmt.Sprint(pv)}
	}
	return o, nil
}

func (s *syncer) compareAtSyncPoint(where string) *outcome {
	if s.mod.IsActive() {
		return &outcome{"sync:module-active-after-last-block:" + where, "stage " + s.stage()}
	}
	if got := s.bc.BlockHeight(); got != s.p {
		return &outcome{"sync:height-after-sync:" + where, fmt.Sprintf("node height %d, sync point %d", got, s.p)}
	}
	o, out := s.observe(true)
	if out != nil {
		return out
	}
	if n, d := obsDiff(s.src.h.P.Obs[s.p], o); n != "" {
		tag := ""
		if strings.HasPrefix(where, "crash:") {
			tag = where + ":"
		}
		return &outcome{"sync:state-differs-at-sync-point:" + tag + n, where + ": " + d}
	}
	s.compared++
	// the blocks the node stored are the source's, byte for byte
	first := uint32(1)
	if s.p > uint32(s.src.mtb) {
		first = s.p - uint32(s.src.mtb) + 1
	}
	for i := first; i <= s.p; i++ {
		b, err := s.bc.GetBlock(s.src.hdr[i].Hash())
		if err != nil {
			return &outcome{"sync:block-missing-after-sync", fmt.Sprintf("block %d: %v", i, err)}
		}
		if !bytes.Equal(vchain.EncodeBlock(b), s.src.h.P.Raw[i-1]) {
			bodies := 0
			for _, tx := range b.Transactions {
				if len(tx.Script) > 0 {
					bodies++
				}
			}
			if i == s.p && len(b.Transactions) > 0 && bodies == 0 {
				s.softViolation("sync:tip-block-read-after-state-jump-has-hash-only-transactions", fmt.Sprintf("GetBlock of the sync point block %d right after the jump returns %d transactions without bodies (the cached top block is the trimmed block)", i, len(b.Transactions)))
				continue
			}
			return &outcome{"sync:wrong-block-accepted:stored-bytes-differ", fmt.Sprintf("stored block %d differs from the source's bytes", i)}
		}
	}
	return nil
}

// oracleFinding recognises the known finding behind a divergence at block i:
// the block holds an oracle response that halts on the source, the transaction
// that filed the request is not among those the synchronised node stores
// (it is older than the blocks the node received), and - when the node did
// accept the block - every other transaction of it ran with an equal result.
func (s *syncer) oracleFinding(i uint32, rejected bool, symptom string) *outcome {
	var hit *oracleAnswer
	answers := s.src.oracleAnswers(i)
	isAnswer := map[util.Uint256]bool{}
	for k := range answers {
		a := &answers[k]
		isAnswer[a.tx] = true
		if a.request == (util.Uint256{}) || a.reqHeight == 0 {
			continue
		}
		if _, _, err := s.bc.GetTransaction(a.request); err != nil && hit == nil {
			hit = a
		}
	}
	if hit == nil {
		return nil
	}
	if !rejected {
		for _, tx := range s.src.h.P.Blocks[i-1].Transactions {
			if isAnswer[tx.Hash()] {
				continue
			}
			a, e1 := s.src.h.P.BC.GetAppExecResults(tx.Hash(), trigger.Application)
			b, e2 := s.bc.GetAppExecResults(tx.Hash(), trigger.Application)
			if e1 != nil || e2 != nil || len(a) != 1 || len(b) != 1 || vchain.AERString(&a[0]) != vchain.AERString(&b[0]) {
				return nil // something else differs as well: not (only) the known finding
			}
		}
		// the response itself: the source got past the request lookup (it halts, or
		// faults later, in the callback), the node faults at the lookup
		a, e1 := s.src.h.P.BC.GetAppExecResults(hit.tx, trigger.Application)
		b, e2 := s.bc.GetAppExecResults(hit.tx, trigger.Application)
		if e1 != nil || e2 != nil || len(a) != 1 || len(b) != 1 || b[0].VMState == vmstate.Halt || vchain.AERString(&a[0]) == vchain.AERString(&b[0]) {
			return nil
		}
	}
	how := "the node's execution of the response faults at the request lookup (less gas than on the source), every other transaction of the block ran equally"
	if rejected {
		how = "the node rejected the block: its state root after the block is not the one the next (already known) header commits to"
	}
	s.run.Obs("sync_oracle_response_without_retained_request_seen", 1)
	return &outcome{"sync:oracle-response-faults-without-retained-request-transaction",
		fmt.Sprintf("block %d (sync point %d, MaxTraceableBlocks %d): oracle response %s gets past the request lookup on the source (halt: %v); the request was filed by transaction %s at height %d, which the synchronised node does not store (GetTransaction fails); %s (%s)", i, s.p, s.src.mtb, hit.tx.StringLE(), hit.sourceHALT, hit.request.StringLE(), hit.reqHeight, how, symptom)}
}

// vmstateFinding recognises the second symptom of the same limitation: the
// node stores the blocks up to the sync point without execution results, so
// Ledger.getTransactionVMState of a transaction in one of them answers NONE
// where a fully synchronised node answers HALT / FAULT. It applies only if
// nothing but the execution results of "ledger-query-vmstate" transactions
// (which call nothing else) differs, and one of them asked about a block at or
// below the sync point.
func (s *syncer) vmstateFinding(i uint32, src, node *vchain.Observation, symptom string) *outcome {
	p := s.src.h.P
	kinds := map[string]string{}
	for j, tx := range p.Blocks[i-1].Transactions {
		kinds[fmt.Sprintf("tx_aer:%d", j)] = p.TxKinds[tx.Hash()]
	}
	hit := false
	for _, n := range src.AllDiffNames(node) {
		if n == "header_height" {
			continue
		}
		if kinds[n] != "ledger-query-vmstate" {
			return nil
		}
		hit = true
	}
	if !hit || i > s.p+uint32(s.src.mtb) {
		return nil
	}
	s.run.Obs("sync_vmstate_of_transaction_below_sync_point_seen", 1)
	return &outcome{"sync:ledger-vmstate-unknown-for-transactions-stored-without-execution-results",
		fmt.Sprintf("block %d (sync point %d, MaxTraceableBlocks %d): only the results of transactions calling Ledger.getTransactionVMState differ (%s)", i, s.p, s.src.mtb, symptom)}
}

// checkHistoric reads back, through the node's state module, the state of every
// height the node has to retain: the node removes untraceable blocks, so its
// trie works in the garbage-collecting mode and keeps the states of the last
// MaxTraceableBlocks heights (nodes dropped by later blocks are only marked
// inactive until GC passes them); states below the sync point were never there.
func (s *syncer) checkHistoric(i uint32, when string) *outcome {
	lo := s.p
	if m := uint32(s.src.mtb); i+1 > m && i+1-m > lo {
		lo = i + 1 - m
	}
	sm := s.bc.GetStateModule()
	full := map[uint32]bool{lo: true, lo + uint32(s.r.Intn(int(i-lo)+1)): true}
	for h := lo; h <= i; h++ {
		want := s.src.stateAt(h)
		sr, err := sm.GetStateRoot(h)
		if err != nil {
			return &outcome{"sync:retained-state-root-missing", fmt.Sprintf("%s: node at %d (sync point %d): GetStateRoot(%d): %v", when, i, s.p, h, err)}
		}
		if sr.Root != want.root {
			return &outcome{"sync:retained-state-root-differs", fmt.Sprintf("%s: node at %d: root of %d is %s, the source's %s", when, i, h, sr.Root.StringLE(), want.root.StringLE())}
		}
		var got []storage.KeyValue
		_, pv := guard(func() error {
			sm.SeekStates(sr.Root, nil, func(k, v []byte) bool {
				got = append(got, storage.KeyValue{Key: bytes.Clone(k), Value: bytes.Clone(v)})
				return true
			})
			return nil
		})
		age := "older"
		if h == i {
			age = "latest"
		}
		if pv != nil {
			return &outcome{"sync:retained-state-unreadable:" + age + ":" + normMsg(pv), fmt.Sprintf("%s: node at %d (sync point %d): SeekStates over the root of %d panics: %v", when, i, s.p, h, pv)}
		}
		if itemsDigest(got) != want.digest {
			return &outcome{"sync:retained-state-unreadable:" + age + ":items-differ", fmt.Sprintf("%s: node at %d (sync point %d, MaxTraceableBlocks %d): the state of height %d read from its root has %d items, the source's has %d", when, i, s.p, s.src.mtb, h, len(got), len(want.items))}
		}
		s.run.Obs("sync_retained_states_read_back", 1)
		if !full[h] {
			continue
		}
		// the whole key set one by one, and a prefix search per contract
		for _, it := range want.items {
			v, err := sm.GetState(sr.Root, it.Key)
			if err != nil || !bytes.Equal(v, it.Value) {
				return &outcome{"sync:retained-state-unreadable:" + age + ":GetState", fmt.Sprintf("%s: node at %d (sync point %d): GetState(root of %d, %x): %x %v, the source has %x", when, i, s.p, h, it.Key, v, err, it.Value)}
			}
		}
		seen := map[string]bool{}
		for _, it := range want.items {
			pfx := string(it.Key[:4])
			if seen[pfx] {
				continue
			}
			seen[pfx] = true
			n := 0
			for _, x := range want.items {
				if string(x.Key[:4]) == pfx && len(x.Key) > 4 {
					n++
				}
			}
			kvs, err := sm.FindStates(sr.Root, []byte(pfx), []byte{}, len(want.items)+1)
			if n > 0 && (err != nil || len(kvs) != n) {
				return &outcome{"sync:retained-state-unreadable:" + age + ":FindStates", fmt.Sprintf("%s: node at %d: FindStates(root of %d, contract %x) gives %d items (%v), the source has %d", when, i, h, pfx, len(kvs), err, n)}
			}
		}
		s.run.Obs("sync_retained_states_read_key_by_key", 1)
	}
	return nil
}

func (s *syncer) lockstep() *outcome {
	end := s.src.n
	if s.sc.Feed < 0 {
		return nil
	}
	if s.sc.Feed > 0 {
		end = min(end, s.p+uint32(s.sc.Feed))
	}
	for i := s.p + 1; i <= end; i++ {
		s.op("bc.AddBlock(%d)", i)
		err, pv := guard(func() error { return s.bc.AddBlock(s.src.block(i)) })
		if pv != nil {
			return &outcome{"sync:block-after-sync-panics:" + normMsg(pv), fmt.Sprintf("block %d: %v", i, pv)}
		}
		if err != nil {
			if strings.Contains(err.Error(), "PrevStateRoot mismatch") {
				if o := s.oracleFinding(i, true, err.Error()); o != nil {
					return o
				}
			}
			return &outcome{"sync:block-after-sync-rejected", fmt.Sprintf("block %d (sync point %d): %v", i, s.p, err)}
		}
		o, out := s.observe(false)
		if out != nil {
			return out
		}
		if n, d := obsDiff(s.src.h.P.Obs[i], o); n != "" {
			if o := s.oracleFinding(i, false, d); o != nil {
				return o
			}
			if o := s.vmstateFinding(i, s.src.h.P.Obs[i], o, d); o != nil {
				// nothing but stack contents differs: the node stays comparable,
				// the finding is reported and the run goes on
				s.run.Violation(o.sig, s.sc.ID, o.detail, s.witness())
				continue
			}
			return &outcome{"sync:diverged-after-sync:" + n, fmt.Sprintf("height %d (sync point %d): %s", i, s.p, d)}
		}
		s.compared++
		when := "after the block"
		if (s.sc.GC > 0 && s.r.Intn(2) == 0) || s.r.Intn(1000) < s.sc.Flush {
			s.op("flush")
			s.flushes++
			when = "after the block and a flush (with GC)"
			if err, pv := guard(func() error { return s.bc.VerifPersist() }); err != nil || pv != nil {
				return &outcome{"sync:flush-fails:synced", fmt.Sprint(err, pv)}
			}
		}
		if o := s.checkHistoric(i, when); o != nil {
			return o
		}
		if i < end && s.r.Intn(1000) < s.sc.Restart["synced"] {
			s.op("restart@synced")
			s.restarts["synced"]++
			s.close()
			if o := s.reopenDB(); o != nil {
				return o
			}
			if o := s.open("after-restart-of-synced-node"); o != nil {
				return o
			}
			if s.mod.IsActive() {
				return &outcome{"sync:module-active-on-synced-node", "stage " + s.stage()}
			}
			o, out := s.observe(false)
			if out != nil {
				return out
			}
			if n, d := obsDiff(s.src.h.P.Obs[i], o); n != "" {
				return &outcome{"sync:state-differs-after-restart-of-synced-node:" + n, d}
			}
			if o := s.checkHistoric(i, "after a restart"); o != nil {
				return o
			}
		}
	}
	if o := s.txHeights(); o != nil {
		return o
	}
	return s.nodeStoreExact(end)
}

// txHeights: every transaction of the blocks the node fetched below the sync
// point (and of those it processed afterwards) is recorded at the height of
// its block, as on the source node - the Ledger contract answers from these
// records.
func (s *syncer) txHeights() *outcome {
	tip := s.bc.BlockHeight()
	for i := uint32(1); i <= tip && int(i) <= len(s.src.h.P.Blocks); i++ {
		for _, tx := range s.src.h.P.Blocks[i-1].Transactions {
			_, hs, errS := s.src.h.P.BC.GetTransaction(tx.Hash())
			_, hd, errD := s.bc.GetTransaction(tx.Hash())
			if errS != nil {
				continue
			}
			if errD != nil {
				// blocks below the retained window are not fetched
				continue
			}
			s.run.Obs("sync_transaction_heights_compared", 1)
			if hs != hd {
				return &outcome{"sync:transaction-recorded-at-another-height", fmt.Sprintf("transaction %s of block %d: the synchronised node has it at height %d (sync point %d)", tx.Hash().StringLE(), hs, hd, s.p)}
			}
		}
	}
	return nil
}

// nodeStoreExact: once the synchronised node has processed the blocks after
// the sync point, its trie node records must be exactly what the latest state
// needs (reference counters = occurrences, nothing active that is unreachable,
// nothing reachable that is missing or inactive) - a node synchronised from
// peers is an ordinary reference-counting node from then on.
func (s *syncer) nodeStoreExact(tip uint32) *outcome {
	if s.bc.BlockHeight() != tip || tip <= s.p {
		return nil
	}
	if _, pv := guard(func() error { return s.bc.VerifPersist() }); pv != nil {
		return &outcome{"sync:flush-panics:" + normMsg(pv), fmt.Sprint(pv)}
	}
	sr, err := s.bc.GetStateRoot(tip)
	if err != nil {
		return nil
	}
	cfg := s.bc.GetConfig()
	var act, inact int
	v := mptwalk.Exactness(s.st.Inner, sr.Root, cfg.KeepOnlyLatestState, cfg.RemoveUntraceableBlocks, tip, func(a, ia int) { act, inact = a, ia })
	s.run.Obs("sync_node_store_walks_after_sync", 1)
	s.run.Obs("sync_node_store_active_nodes_walked", int64(act))
	s.run.Obs("sync_node_store_inactive_nodes_seen", int64(inact))
	if v != nil {
		return &outcome{"sync:node-store-not-exact-after-sync:" + v.Sig, fmt.Sprintf("height %d (sync point %d, mode %s): %s", tip, s.p, s.sc.Mode, v.Detail)}
	}
	return nil
}

// drive runs the node from its current stage to the end.
func (s *syncer) drive(where string) *outcome {
	for guardN := 0; s.mod.IsActive(); guardN++ {
		if guardN > 10 {
			return &outcome{"sync:stages-loop", "stage " + s.stage()}
		}
		st := s.stage()
		s.stages = append(s.stages, st)
		var o *outcome
		switch st {
		case "headers":
			o = s.headersStage()
		case "data":
			if s.sc.Mode == "storage" {
				o = s.storageStage()
			} else {
				o = s.mptStage()
			}
		case "blocks":
			o = s.blocksStage()
		default:
			o = &outcome{"sync:module-in-unexpected-stage:" + st, where}
		}
		if o != nil {
			return o
		}
	}
	if o := s.compareAtSyncPoint(where); o != nil {
		return o
	}
	return s.lockstep()
}

func keysOf(m map[string]int) string {
	var ks []string
	for k, v := range m {
		if v > 0 {
			ks = append(ks, k)
		}
	}
	sort.Strings(ks)
	return strings.Join(ks, ",")
}

package c20

import (
	"errors"
	"fmt"
	"runtime"
	"strings"
	"sync"
	"sync/atomic"
	"testing"
	"time"

	"github.com/nspcc-dev/neo-go/pkg/config"
	"github.com/nspcc-dev/neo-go/pkg/core"
	"github.com/nspcc-dev/neo-go/pkg/core/block"
	"github.com/nspcc-dev/neo-go/pkg/core/storage"
	"github.com/nspcc-dev/neo-go/pkg/network/bqueue"
	"github.com/nspcc-dev/neo-go/verifharness/vlib/ev"
	"github.com/nspcc-dev/neo-go/verifharness/vlib/rng"
	"github.com/nspcc-dev/neo-go/verifharness/vlib/vchain"
	"go.uber.org/zap"
)

// ---------------------------------------------------------------------------
// The recorded log and its law.

// addRec is one AddItem call as the ledger saw it: the index offered, the
// ledger height at the moment the call was serialised, who called, the result.
type addRec struct {
	Idx    uint32 `json:"idx"`
	Height uint32 `json:"height"`
	Direct bool   `json:"direct,omitempty"` // the "consensus" goroutine, not the queue
	OK     bool   `json:"ok"`
}

type addLog struct {
	mu   sync.Mutex
	recs []addRec
}

func (l *addLog) add(r addRec) { l.mu.Lock(); l.recs = append(l.recs, r); l.mu.Unlock() }
func (l *addLog) snapshot() []addRec {
	l.mu.Lock()
	defer l.mu.Unlock()
	return append([]addRec(nil), l.recs...)
}

type logStats struct {
	queueCalls, queueOK, directOK, atOrBelow int
}

// checkLog applies the log law: the queue never offers an index above
// height+1 (offers at or below the height are legitimate and only counted),
// and the successful additions are exactly 1, 2, 3, ... It returns the
// position of the offending record.
func checkLog(recs []addRec, cache int) (sig, detail string, at int, st logStats) {
	next := uint32(1)
	lastQueue := -1
	for i, r := range recs {
		if !r.Direct {
			st.queueCalls++
			if r.Idx > r.Height+1 {
				// Known shape: the queue reads the ledger height, another adder
				// (consensus) moves the ledger past the slot's index, a producer
				// refills that ring slot with index+cache, the queue then takes the
				// slot's content for the block it computed the slot for.
				hq, directs := uint32(0), 0
				if lastQueue >= 0 {
					hq = recs[lastQueue].Height
					if recs[lastQueue].OK {
						hq++
					}
				}
				for _, d := range recs[lastQueue+1 : i] {
					if d.Direct && d.OK {
						directs++
					}
				}
				hr := int64(r.Idx) - 1 - int64(cache) // the height the queue must have read
				if directs > 0 && hr >= int64(hq) && hr < int64(r.Height) {
					return "future-block-offered:ring-slot-refilled-after-direct-add-moved-the-height", fmt.Sprintf("call #%d: AddItem(%d) while the height was %d: the queue read height %d, %d direct addition(s) followed, slot %d (cache %d) was refilled with block %d", i, r.Idx, r.Height, hr, directs, int(r.Idx)%cache, cache, r.Idx), i, st
				}
				return "additem-above-height+1", fmt.Sprintf("call #%d: AddItem(%d) while the height was %d (cache %d)", i, r.Idx, r.Height, cache), i, st
			}
			if r.Idx <= r.Height {
				st.atOrBelow++
			}
			lastQueue = i
		}
		if r.OK {
			if r.Idx != next {
				kind := "gap"
				if r.Idx < next {
					kind = "repeat"
				}
				return "successful-adds-not-sequential:" + kind, fmt.Sprintf("call #%d: block %d added successfully, expected %d", i, r.Idx, next), i, st
			}
			next++
			if r.Direct {
				st.directOK++
			} else {
				st.queueOK++
			}
		}
	}
	return "", "", -1, st
}

// around returns the records near position at (or the log's tail).
func around(recs []addRec, at int) []addRec {
	if at < 0 {
		return tail(recs, 40)
	}
	return recs[max(0, at-30):min(len(recs), at+4)]
}

func tail(recs []addRec, n int) []addRec {
	if len(recs) > n {
		return recs[len(recs)-n:]
	}
	return recs
}

// ---------------------------------------------------------------------------
// Ledgers under the queue.

type ledger[Q bqueue.Queueable] interface {
	bqueue.Queuer[Q]
	direct(Q) error
	// setHook installs a function called inside a successful addition, after
	// the height has advanced and before the call returns (additions are still
	// serialised, so the height is exactly idx while it runs).
	setHook(func(idx uint32))
}

type addHook struct{ f atomic.Pointer[func(uint32)] }

func (h *addHook) setHook(f func(uint32)) { h.f.Store(&f) }
func (h *addHook) fire(idx uint32) {
	if f := h.f.Load(); f != nil && *f != nil {
		(*f)(idx)
	}
}

// fblk is the element of the fake ledger.
type fblk struct {
	idx uint32
	bad bool // an invalid copy of block idx (what a faulty peer sends): the ledger refuses it
}

var invalidCopiesPut, invalidCopiesRefused atomic.Int64

func (b *fblk) GetIndex() uint32 { return b.idx }

// fakeChain accepts exactly the next index. Additions are serialised (as
// Blockchain.addLock does); Height is an atomic read. Both delay by seeded
// amounts to widen the windows between the queue's Height and AddItem calls.
type fakeChain struct {
	addHook
	addLock sync.Mutex
	h       atomic.Uint32
	log     *addLog
	dmu     sync.Mutex
	dr      *rng.R
	level   int // 0: no delays, 1: yields, 2: yields and microsleeps
}

func (c *fakeChain) delay() {
	if c.level == 0 {
		return
	}
	c.dmu.Lock()
	k := c.dr.Intn(12)
	c.dmu.Unlock()
	switch {
	case k < 5:
	case k < 9:
		runtime.Gosched()
	default:
		if c.level > 1 {
			time.Sleep(time.Duration(1+k) * 5 * time.Microsecond)
		} else {
			runtime.Gosched()
		}
	}
}

func (c *fakeChain) Height() uint32 {
	c.delay()
	h := c.h.Load()
	c.delay()
	return h
}

func (c *fakeChain) add(b *fblk, direct bool) error {
	c.addLock.Lock()
	defer c.addLock.Unlock()
	h := c.h.Load()
	c.delay()
	if b.idx != h+1 {
		c.log.add(addRec{Idx: b.idx, Height: h, Direct: direct})
		return errors.New("not the next block")
	}
	if b.bad {
		c.log.add(addRec{Idx: b.idx, Height: h, Direct: direct})
		invalidCopiesRefused.Add(1)
		return errors.New("invalid block")
	}
	c.log.add(addRec{Idx: b.idx, Height: h, Direct: direct, OK: true})
	c.delay()
	c.h.Store(b.idx)
	c.fire(b.idx)
	return nil
}

func (c *fakeChain) AddItem(b *fblk) error { return c.add(b, false) }
func (c *fakeChain) AddItems(bs ...*fblk) error {
	panic("AddItems is not used by the queue")
}
func (c *fakeChain) direct(b *fblk) error { return c.add(b, true) }

// realChain is a real Blockchain behind the adapter the server uses, plus the
// record of every AddBlock call.
type realChain struct {
	addHook
	addLock sync.Mutex
	bc      *core.Blockchain
	log     *addLog
}

func (c *realChain) Height() uint32 { return c.bc.BlockHeight() }
func (c *realChain) add(b *block.Block, direct bool) error {
	c.addLock.Lock()
	defer c.addLock.Unlock()
	h := c.bc.BlockHeight()
	err := c.bc.AddBlock(b)
	c.log.add(addRec{Idx: b.Index, Height: h, Direct: direct, OK: err == nil})
	if err == nil && c.bc.BlockHeight() != b.Index {
		return fmt.Errorf("AddBlock(%d) returned nil but the height is %d", b.Index, c.bc.BlockHeight())
	}
	if err == nil {
		c.fire(b.Index)
	}
	return err
}
func (c *realChain) AddItem(b *block.Block) error { return c.add(b, false) }
func (c *realChain) AddItems(bs ...*block.Block) error {
	panic("AddItems is not used by the queue")
}
func (c *realChain) direct(b *block.Block) error { return c.add(b, true) }

// ---------------------------------------------------------------------------
// One queue run.

type queueCase struct {
	ID        string `json:"case_id"`
	Ledger    string `json:"ledger"`
	Mode      string `json:"mode"`
	Cache     int    `json:"cache_size"`
	N         int    `json:"blocks"`
	Producers int    `json:"producers"`
	Delay     int    `json:"delay_level"`
	Stream    uint64 `json:"stream"`
}

type queueResult struct {
	sig, detail string
	stalled     bool
	quiet       bool
	lostByHook  bool
	hookPuts    int
	stallAt     uint32
	recs        []addRec
	st          logStats
	puts        int
	farAhead    int
	wraps       int
	drift       int
	lastQ       uint32
	at          int
}

// driveQueue runs producers and the direct adder against q over led, then the
// re-offer phase, and returns the recorded log's verdict.
func driveQueue[Q bqueue.Queueable](qc queueCase, led ledger[Q], log *addLog, mk func(i uint32, fresh bool) Q) (res queueResult) {
	mode := bqueue.NonBlocking
	if qc.Mode == "blocking" {
		mode = bqueue.Blocking
	}
	q := bqueue.New[Q](led, zap.NewNop(), nil, qc.Cache, nil, mode)
	var panickedHook atomic.Value
	runDone := make(chan any, 1)
	go func() {
		defer func() { runDone <- recover() }()
		q.Run()
	}()
	// The last window of blocks is kept for the quiet phase at the end; the
	// concurrent phase works on 1..N.
	total := uint32(qc.N)
	K := uint32(min(qc.Cache, qc.N/4))
	N := total - 2*K
	// Turn-ahead producer: from inside a successful addition of block i (the
	// height is i and cannot move meanwhile) it puts block i+cache, which is the
	// last index of the window and lands in the very ring slot the queue is
	// about to release for block i. In the concurrent phase it fires now and
	// then, in the quiet phase always.
	var (
		hookLimit atomic.Uint32
		hookProb  atomic.Int32 // fires when a draw of 0..99 is below it
		hookPuts  atomic.Int64
		hmu       sync.Mutex
		hr        = rng.New(qc.Stream*64 + 62)
	)
	hookLimit.Store(N)
	hookProb.Store(30)
	led.setHook(func(idx uint32) {
		i := idx + uint32(qc.Cache)
		if i > hookLimit.Load() {
			return
		}
		hmu.Lock()
		d := hr.Intn(100)
		hmu.Unlock()
		if int32(d) >= hookProb.Load() {
			return
		}
		defer func() {
			if x := recover(); x != nil {
				panickedHook.CompareAndSwap(nil, fmt.Sprintf("Put from inside AddItem: %v", x))
			}
		}()
		_ = q.Put(mk(i, false)) // always a genuine copy: the quiet phase counts on this very put
		hookPuts.Add(1)
	})
	defer led.setHook(nil)
	var (
		wg       sync.WaitGroup
		puts     atomic.Int64
		far      atomic.Int64
		panicked atomic.Value
		stop     atomic.Bool
	)
	guard := func(where string) {
		if x := recover(); x != nil {
			panicked.CompareAndSwap(nil, fmt.Sprintf("%s: %v", where, x))
		}
	}
	for p := 0; p < qc.Producers; p++ {
		wg.Add(1)
		go func(p int) {
			defer wg.Done()
			defer guard("Put")
			pr := rng.New(qc.Stream*64 + uint64(p) + 1)
			farBudget := 1
			if mode == bqueue.NonBlocking {
				farBudget = 1 << 30
			}
			for k := 0; k < qc.N*3; k++ {
				h := led.Height()
				if h >= N {
					return
				}
				var i uint32
				switch x := pr.Intn(20); {
				case x < 12: // inside the window, shuffled
					i = h + 1 + uint32(pr.Intn(qc.Cache))
				case x < 14: // the window's last slots and just beyond (ring wrap / far ahead)
					i = h + uint32(qc.Cache) - 1 + uint32(pr.Intn(4))
				case x < 16: // anywhere: stale or far ahead
					i = 1 + uint32(pr.Intn(int(N)))
				case x < 18: // the next block
					i = h + 1
				default: // stale duplicate
					if h > 0 {
						i = 1 + uint32(pr.Intn(int(h)))
					} else {
						i = 1
					}
				}
				if i > N {
					i = N
				}
				if i > h+uint32(qc.Cache) {
					if farBudget == 0 {
						continue
					}
					farBudget--
					far.Add(1)
				}
				_ = q.Put(mk(i, pr.Intn(3) == 0))
				puts.Add(1)
				if pr.Intn(8) == 0 {
					time.Sleep(time.Microsecond)
				} else if pr.Intn(3) == 0 {
					runtime.Gosched()
				}
			}
		}(p)
	}
	// "consensus": adds the next block directly now and then, and keeps the
	// chain moving while producers are parked in a blocking Put.
	cdone := make(chan struct{})
	go func() {
		defer close(cdone)
		defer guard("direct add")
		pr := rng.New(qc.Stream*64 + 50)
		budget := qc.N / 4
		lastH, lastMove := led.Height(), time.Now()
		for !stop.Load() {
			h := led.Height()
			if h != lastH {
				lastH, lastMove = h, time.Now()
			}
			switch {
			case h >= N:
			case budget > 0 && pr.Intn(3) == 0:
				budget--
				_ = led.direct(mk(h+1, true))
			case time.Since(lastMove) > 30*time.Millisecond:
				// nothing moves (all producers parked in a blocking Put, or the
				// next block is in nobody's hands): consensus produces it
				_ = led.direct(mk(h+1, true))
			}
			time.Sleep(time.Duration(20+pr.Intn(200)) * time.Microsecond)
		}
	}()
	wg.Wait()
	stop.Store(true)
	<-cdone
	// Producers have stopped: re-offer the missing next block until the height
	// reaches N (every block up to N has then been offered at least once).
	const stepWait = 2 * time.Second
	for {
		h := led.Height()
		if h >= N || panicked.Load() != nil {
			break
		}
		func() {
			defer guard("Put")
			_ = q.Put(mk(h+1, false))
		}()
		puts.Add(1)
		deadline := time.Now().Add(stepWait)
		for led.Height() == h && time.Now().Before(deadline) {
			time.Sleep(30 * time.Microsecond)
		}
		if led.Height() == h {
			res.stalled, res.stallAt = true, h
			break
		}
	}
	// Quiet phase: nobody else touches the ledger. The next window N+1..N+K
	// is put in shuffled order with duplicates, the next block last; the window
	// after it (up to total) is supplied only by the turn-ahead producer from
	// inside the additions. Every element is inside the window when it is put
	// and none is stale, so each Put must keep it, and after the missing next
	// block has been offered the queue must drain to the last block without
	// anything being offered a second time.
	if !res.stalled && panicked.Load() == nil && total > N {
		hookLimit.Store(total)
		hookProb.Store(100)
		qr := rng.New(qc.Stream*64 + 61)
		var order []uint32
		for i := N + 2; i <= N+K; i++ {
			order = append(order, i)
			if qr.Intn(4) == 0 {
				order = append(order, i)
			}
		}
		qr.Shuffle(len(order), func(i, j int) { order[i], order[j] = order[j], order[i] })
		order = append(order, N+1)
		func() {
			defer guard("Put")
			for _, i := range order {
				_ = q.Put(mk(i, qr.Intn(3) == 0))
				puts.Add(1)
			}
		}()
		// with cache above N/4 the turn-ahead producer cannot reach every block
		// of the second window: those are put once the first window is drained
		if K < uint32(qc.Cache) {
			deadline := time.Now().Add(stepWait)
			for led.Height() < N+K && time.Now().Before(deadline) {
				time.Sleep(50 * time.Microsecond)
			}
			if led.Height() >= N+K { // otherwise the first window is stuck (and a blocking Put would wait forever)
				func() {
					defer guard("Put")
					for i := total; i > N+K; i-- {
						_ = q.Put(mk(i, false))
						puts.Add(1)
					}
				}()
			}
		}
		deadline := time.Now().Add(stepWait)
		for led.Height() < total && time.Now().Before(deadline) && panicked.Load() == nil {
			time.Sleep(50 * time.Microsecond)
		}
		if h := led.Height(); h < total && panicked.Load() == nil {
			res.stalled, res.stallAt, res.quiet = true, h, true
			res.lostByHook = h+1 > N+K
		}
	}
	res.hookPuts = int(hookPuts.Load())
	if x := panickedHook.Load(); x != nil {
		panicked.CompareAndSwap(nil, x)
	}
	// let the queue goroutine finish the elements it still holds, then read
	// the bookkeeping of an idle queue
	if !res.stalled {
		for w := 0; w < 200; w++ {
			_, left := q.LastQueued()
			if left == qc.Cache {
				break
			}
			time.Sleep(50 * time.Microsecond)
		}
		lq, left := q.LastQueued()
		res.lastQ = lq
		res.drift = qc.Cache - left
	}
	q.Discard()
	select {
	case x := <-runDone:
		if x != nil {
			panicked.CompareAndSwap(nil, fmt.Sprintf("Run: %v", x))
		}
	case <-time.After(10 * time.Second):
	}
	res.recs = log.snapshot()
	res.puts, res.farAhead = int(puts.Load()), int(far.Load())
	res.wraps = qc.N / qc.Cache
	if x := panicked.Load(); x != nil {
		res.sig, res.detail, res.at = "panic", fmt.Sprint(x), -1
		return
	}
	res.sig, res.detail, res.at, res.st = checkLog(res.recs, qc.Cache)
	return
}

func runFakeQueue(qc queueCase) queueResult {
	log := &addLog{}
	c := &fakeChain{log: log, dr: rng.New(qc.Stream*64 + 60), level: qc.Delay}
	blocks := make([]*fblk, qc.N+1)
	for i := range blocks {
		blocks[i] = &fblk{idx: uint32(i)}
	}
	return driveQueue[*fblk](qc, c, log, func(i uint32, fresh bool) *fblk {
		if fresh {
			return &fblk{idx: i} // another peer's copy of the same block
		}
		return blocks[i]
	})
}

// invalidCopyRun: a faulty peer's invalid copy of the next block reaches the
// queue before the genuine one. The ledger refuses it when its turn comes; the
// queue must then let go of it, so that the genuine copy (offered again, as the
// network layer does after a failure) and the blocks behind it get through.
// Returns "" or what went wrong; stalled tells that the height stopped moving
// (decided by the caller's three-attempt rule).
func invalidCopyRun(stream uint64, cache, n int, blocking bool) (problem string, stalled bool) {
	log := &addLog{}
	c := &fakeChain{log: log, dr: rng.New(stream*64 + 61), level: int(stream % 3)}
	mode := bqueue.NonBlocking
	if blocking {
		mode = bqueue.Blocking
	}
	q := bqueue.New[*fblk](c, zap.NewNop(), nil, cache, nil, mode)
	done := make(chan any, 1)
	go func() {
		defer func() { done <- recover() }()
		q.Run()
	}()
	defer q.Discard()
	r := rng.New(stream*64 + 63)
	next := uint32(1)
	for next <= uint32(n) {
		// a window of blocks, the first of them preceded by an invalid copy
		w := uint32(1 + r.Intn(min(cache, 6)))
		if next+w-1 > uint32(n) {
			w = uint32(n) - next + 1
		}
		before := invalidCopiesRefused.Load()
		invalidCopiesPut.Add(1)
		_ = q.Put(&fblk{idx: next, bad: true})
		// blocks behind it may already be there
		for i := next + w - 1; i > next; i-- {
			if r.Intn(2) == 0 {
				_ = q.Put(&fblk{idx: i})
			}
		}
		deadline := time.Now().Add(8 * time.Second)
		for invalidCopiesRefused.Load() == before {
			if time.Now().After(deadline) {
				return fmt.Sprintf("the invalid copy of block %d was never offered to the ledger", next), true
			}
			time.Sleep(200 * time.Microsecond)
		}
		// the genuine blocks are (re)sent until the window is through
		for c.h.Load() < next+w-1 {
			for i := next; i < next+w; i++ {
				_ = q.Put(&fblk{idx: i})
			}
			if time.Now().After(deadline) {
				return fmt.Sprintf("block %d refused as invalid, genuine copies of %d..%d offered repeatedly afterwards, the height stays at %d (cache %d)", next, next, next+w-1, c.h.Load(), cache), true
			}
			time.Sleep(300 * time.Microsecond)
		}
		next += w
	}
	recs := log.snapshot()
	if sig, detail, _, _ := checkLog(recs, cache); sig != "" {
		return sig + ": " + detail, false
	}
	select {
	case x := <-done:
		if x != nil {
			return fmt.Sprintf("queue.Run panicked: %v", x), false
		}
	default:
	}
	return "", false
}

// directInterleaveRun: blocks ahead of the tip are parked in the idle queue, the
// missing next block is then added to the ledger directly (as consensus does,
// bypassing the queue), and the network goes on delivering only newer blocks -
// none of them "the next one" at the moment it is put. Every such Put must
// still get the parked blocks through: the ledger has to reach the highest
// contiguous block it was given. Returns "" or what went wrong; stalled tells
// that the height stopped moving (decided by the caller's three-attempt rule).
func directInterleaveRun(stream uint64, cache, rounds int, blocking bool) (problem string, stalled bool, parked int) {
	log := &addLog{}
	c := &fakeChain{log: log, dr: rng.New(stream*64 + 59), level: int(stream % 3)}
	mode := bqueue.NonBlocking
	if blocking {
		mode = bqueue.Blocking
	}
	q := bqueue.New[*fblk](c, zap.NewNop(), nil, cache, nil, mode)
	done := make(chan any, 1)
	go func() {
		defer func() { done <- recover() }()
		q.Run()
	}()
	defer q.Discard()
	r := rng.New(stream*64 + 58)
	for round := 0; round < rounds; round++ {
		h := c.h.Load()
		k := uint32(1 + r.Intn(min(cache-1, 4))) // parked blocks h+2..h+1+k (all inside the window)
		var order []uint32
		for i := h + 2; i <= h+1+k; i++ {
			order = append(order, i)
		}
		r.Shuffle(len(order), func(i, j int) { order[i], order[j] = order[j], order[i] })
		for _, i := range order {
			_ = q.Put(&fblk{idx: i})
			parked++
		}
		// let the queue goroutine look at them and go back to sleep
		time.Sleep(time.Duration(50+r.Intn(400)) * time.Microsecond)
		if c.h.Load() != h {
			return fmt.Sprintf("height moved from %d to %d although block %d was never given", h, c.h.Load(), h+1), false, parked
		}
		if err := c.direct(&fblk{idx: h + 1}); err != nil {
			return fmt.Sprintf("direct add of block %d: %v", h+1, err), false, parked
		}
		// the network delivers a newer block: contiguous with the parked ones, or
		// further ahead (inside the window where there is room)
		want := h + 1 + k
		newer := want + 1
		if r.Intn(2) == 0 && newer+1 <= h+1+uint32(cache) {
			newer++
		} else if newer <= h+1+uint32(cache) {
			want = newer
		}
		if newer <= h+1+uint32(cache) {
			_ = q.Put(&fblk{idx: newer})
		} else {
			_ = q.Put(&fblk{idx: h + 1 + k}) // a duplicate of the last parked block
		}
		deadline := time.Now().Add(8 * time.Second)
		for c.h.Load() < want {
			if time.Now().After(deadline) {
				return fmt.Sprintf("blocks %d..%d were parked in the queue, block %d was added directly, block %d was put afterwards: the height stays at %d instead of reaching %d (cache %d)", h+2, h+1+k, h+1, newer, c.h.Load(), want, cache), true, parked
			}
			time.Sleep(200 * time.Microsecond)
		}
		// bring the chain to a clean point: everything up to the newest given block
		for {
			// one reading of the height per turn: a second one may already be past
			// the newest block and would hand over a block the round never meant to give
			cur := c.h.Load()
			if cur >= newer {
				break
			}
			_ = q.Put(&fblk{idx: cur + 1})
			if time.Now().After(deadline) {
				return fmt.Sprintf("re-offered next blocks do not get through, height %d", c.h.Load()), true, parked
			}
			time.Sleep(200 * time.Microsecond)
		}
	}
	recs := log.snapshot()
	if sig, detail, _, _ := checkLog(recs, cache); sig != "" {
		return sig + ": " + detail, false, parked
	}
	select {
	case x := <-done:
		if x != nil {
			return fmt.Sprintf("queue.Run panicked: %v", x), false, parked
		}
	default:
	}
	return "", false, parked
}

// chainSource is a pre-built chain the real-ledger runs draw blocks from.
type chainSource struct {
	proto func(*config.Blockchain)
	raw   [][]byte
}

func buildQueueSource(t *testing.T, n int) *chainSource {
	proto := func(c *config.Blockchain) { vchain.AllForks(c) }
	h := vchain.BuildHistory(t, vchain.HistoryCfg{Idx: 2900, Blocks: n, Proto: proto, PName: "queue-source", NoQuiet: true})
	defer h.P.Close()
	if h.P.Rejected != nil {
		t.Fatalf("queue source: %v", h.P.Rejected)
	}
	return &chainSource{proto: proto, raw: h.P.Raw}
}

func runRealQueue(t *testing.T, qc queueCase, src *chainSource) (queueResult, error) {
	bc, _, _, err := vchain.OpenChain(t, false, src.proto, storage.NewMemoryStore())
	if err != nil {
		return queueResult{}, err
	}
	defer bc.Close()
	log := &addLog{}
	c := &realChain{bc: bc, log: log}
	blocks := make([]*block.Block, qc.N+1)
	for i := 1; i <= qc.N; i++ {
		b, err := vchain.DecodeBlock(src.raw[i-1], false)
		if err != nil {
			return queueResult{}, err
		}
		blocks[i] = b
	}
	res := driveQueue[*block.Block](qc, c, log, func(i uint32, fresh bool) *block.Block {
		if fresh {
			b, _ := vchain.DecodeBlock(src.raw[i-1], false)
			return b
		}
		return blocks[i]
	})
	if res.sig == "" && !res.stalled {
		// the ledger really holds the source's chain
		for _, i := range []int{1, qc.N / 2, qc.N} {
			if bc.BlockHeight() != uint32(qc.N) {
				res.sig, res.detail = "chain-height-differs-from-ledger-log", fmt.Sprintf("height %d, expected %d", bc.BlockHeight(), qc.N)
				break
			}
			if bc.GetHeaderHash(uint32(i)) != blocks[i].Hash() {
				res.sig, res.detail = "chain-differs-from-offered-blocks", fmt.Sprintf("hash at %d differs", i)
			}
		}
	}
	return res, nil
}

// queuePart runs the queue cases of the tier.
func queuePart(t *testing.T, run *ev.Run) {
	nFake := ev.Pick(300, 10000)
	nReal := ev.Pick(10, 120)
	type job struct {
		qc   queueCase
		real bool
	}
	var jobs []job
	for i := 0; i < nFake; i++ {
		r := rng.New(uint64(i) + 1000)
		qc := queueCase{ID: fmt.Sprintf("queue/fake/%d", i), Ledger: "fake", Mode: "nonblocking", Stream: uint64(i) + 1000}
		if i%4 == 3 {
			qc.Mode = "blocking"
		}
		qc.Cache = []int{1, 2, 3, 4, 5, 7, 8, 12, 16, 24}[r.Intn(10)]
		qc.N = 50 + r.Intn(100)
		qc.Producers = 2 + r.Intn(4)
		qc.Delay = r.Intn(3)
		jobs = append(jobs, job{qc: qc})
	}
	var src *chainSource
	if nReal > 0 {
		src = buildQueueSource(t, 48)
	}
	for i := 0; i < nReal; i++ {
		r := rng.New(uint64(i) + 500000)
		qc := queueCase{ID: fmt.Sprintf("queue/chain/%d", i), Ledger: "chain", Mode: "nonblocking", Stream: uint64(i) + 500000}
		if i%4 == 3 {
			qc.Mode = "blocking"
		}
		qc.Cache = []int{2, 3, 4, 6, 8, 12}[r.Intn(6)]
		qc.N = len(src.raw) - r.Intn(8)
		qc.Producers = 2 + r.Intn(3)
		jobs = append(jobs, job{qc: qc, real: true})
	}
	exec := func(j job) (queueResult, error) {
		if j.real {
			return runRealQueue(t, j.qc, src)
		}
		return runFakeQueue(j.qc), nil
	}
	var (
		wg              sync.WaitGroup
		confirmedStalls atomic.Int32
	)
	ch := make(chan job)
	workers := 2 * runtime.NumCPU() // blocking-mode runs mostly sleep in the queue's one-second ticker
	for w := 0; w < workers; w++ {
		wg.Add(1)
		go func() {
			defer wg.Done()
			for j := range ch {
				res, err := exec(j)
				if err != nil {
					run.Inconclusive("%s: harness: %v", j.qc.ID, err)
					continue
				}
				attempts := 1
				if res.stalled && res.sig == "" && confirmedStalls.Load() >= 3 {
					// the three-attempt rule has already confirmed stalls in this run:
					// further ones are only counted
					run.Obs("queue_stalls_after_confirmed_ones", 1)
					res.stalled = false
				}
				if res.stalled && res.sig == "" {
					// bounded progress: a single stall is inconclusive, three fresh
					// attempts that all stall are a violation.
					stalls := 1
					for attempts < 3 {
						attempts++
						r2, err := exec(j)
						if err != nil {
							break
						}
						res = r2
						if !r2.stalled || r2.sig != "" {
							break
						}
						stalls++
					}
					if stalls == 3 {
						confirmedStalls.Add(1)
					}
					if stalls == 3 && res.quiet {
						res.sig = "accepted-block-lost"
						who := "the producer"
						if res.lostByHook {
							who = "the turn-ahead producer (from inside the addition of the block one ring turn below, into the slot being released)"
						}
						res.detail = fmt.Sprintf("three fresh attempts: block %d was put by %s while inside the window and not stale, nothing else touched the ledger, and the queue never offered it: height stays at %d of %d (cache %d)", res.stallAt+1, who, res.stallAt, j.qc.N, j.qc.Cache)
					} else if stalls == 3 {
						res.sig = "stall-below-highest-contiguous-block"
						res.detail = fmt.Sprintf("three fresh attempts: height stays at %d of %d after the next block was re-offered (cache %d, quiet phase with the whole window queued: %v)", res.stallAt, j.qc.N, j.qc.Cache, res.quiet)
					} else {
						run.Inconclusive("%s: one attempt stalled, a fresh attempt progressed", j.qc.ID)
						run.Obs("queue_single_stalls", 1)
					}
				}
				nontrivial := res.st.queueOK > 0
				run.Case(fmt.Sprintf("%s/%s/c%d/p%d/d%d/direct%v/below%v/far%v", j.qc.Ledger, j.qc.Mode, j.qc.Cache, j.qc.Producers, j.qc.Delay, res.st.directOK > 0, res.st.atOrBelow > 0, res.farAhead > 0), nontrivial)
				run.Obs("queue_runs_"+j.qc.Ledger+"_"+j.qc.Mode, 1)
				run.Obs("queue_puts", int64(res.puts))
				run.Obs("queue_puts_far_ahead", int64(res.farAhead))
				run.Obs("queue_puts_one_ring_turn_ahead_from_inside_additem", int64(res.hookPuts))
				run.Obs("queue_additem_calls", int64(res.st.queueCalls))
				run.Obs("queue_additem_ok", int64(res.st.queueOK))
				run.Obs("queue_additem_at_or_below_height", int64(res.st.atOrBelow))
				run.Obs("queue_direct_adds_ok", int64(res.st.directOK))
				run.Obs("queue_ring_wraps", int64(res.wraps))
				if res.drift > j.qc.Cache {
					// LastQueued reports a negative capacity: the length counter drifted
					run.Obs("queue_runs_ending_with_len_above_capacity", 1)
					run.ObsMax("queue_max_len_minus_capacity", int64(res.drift-j.qc.Cache))
				}
				if j.qc.Stream%97 == 0 {
					run.Sample(map[string]any{"case": j.qc, "puts": res.puts, "additem_calls": res.st.queueCalls, "added_by_queue": res.st.queueOK, "added_directly": res.st.directOK, "offers_at_or_below_height": res.st.atOrBelow, "idle_len": res.drift})
				}
				if res.sig != "" {
					run.Violation("queue:"+res.sig, j.qc.ID, res.detail,
						map[string]any{"case": j.qc, "attempts": attempts, "log_around_the_call": around(res.recs, res.at), "log_len": len(res.recs)})
				}
			}
		}()
	}
	for _, j := range jobs {
		if run.Want(j.qc.ID) {
			ch <- j
		}
	}
	close(ch)
	wg.Wait()
	// invalid copies of the next block ahead of the genuine ones (sequential:
	// the runs share the refusal counter)
	confirmed := 0
	for i := 0; i < ev.Pick(24, 400) && confirmed < 2; i++ {
		id := fmt.Sprintf("queue/invalid-copy/%d", i)
		if !run.Want(id) {
			continue
		}
		r := rng.New(uint64(i) + 700000)
		cache := []int{1, 2, 3, 4, 8, 16}[r.Intn(6)]
		n := 20 + r.Intn(40)
		var problem string
		stalled := true
		attempts := 0
		for stalled && attempts < 3 {
			attempts++
			problem, stalled = invalidCopyRun(uint64(i)+700000+uint64(attempts)*100000, cache, n, i%4 == 3)
		}
		run.Case(fmt.Sprintf("invalid-copy/cache=%d/blocking=%v", cache, i%4 == 3), true)
		run.Obs("queue_invalid_copy_runs", 1)
		switch {
		case stalled:
			run.Violation("queue:invalid-copy-of-next-block-wedges-the-queue", id, "three attempts: "+problem, map[string]any{"cache": cache, "blocks": n, "attempts": attempts})
			confirmed++
		case problem != "":
			run.Violation("queue:invalid-copy:"+strings.SplitN(problem, ":", 2)[0], id, problem, map[string]any{"cache": cache, "blocks": n})
		case attempts > 1:
			run.Inconclusive("%s: %d stalled attempt(s) before a clean one", id, attempts-1)
		}
	}
	// parked blocks, the missing one added directly, only newer blocks afterwards
	confirmed = 0
	for i := 0; i < ev.Pick(24, 400) && confirmed < 2; i++ {
		id := fmt.Sprintf("queue/direct-interleave/%d", i)
		if !run.Want(id) {
			continue
		}
		r := rng.New(uint64(i) + 800000)
		cache := []int{2, 3, 4, 8, 16}[r.Intn(5)]
		var problem string
		stalled := true
		attempts, parked := 0, 0
		for stalled && attempts < 3 {
			attempts++
			problem, stalled, parked = directInterleaveRun(uint64(i)+800000+uint64(attempts)*100000, cache, 6+r.Intn(10), i%4 == 3)
		}
		run.Case(fmt.Sprintf("direct-interleave/cache=%d/blocking=%v", cache, i%4 == 3), true)
		run.Obs("queue_direct_interleave_runs", 1)
		run.Obs("queue_blocks_parked_before_a_direct_add", int64(parked))
		switch {
		case stalled:
			run.Violation("queue:parked-blocks-stuck-after-direct-add-of-the-missing-one", id, "three attempts: "+problem, map[string]any{"cache": cache, "attempts": attempts})
			confirmed++
		case problem != "":
			run.Violation("queue:direct-interleave:"+strings.SplitN(problem, ":", 2)[0], id, problem, map[string]any{"cache": cache})
		case attempts > 1:
			run.Inconclusive("%s: %d stalled attempt(s) before a clean one", id, attempts-1)
		}
	}
	run.Obs("queue_invalid_copies_put", invalidCopiesPut.Swap(0))
	run.Obs("queue_invalid_copies_refused_by_the_ledger", invalidCopiesRefused.Swap(0))
}

// Package c11 decides property C11 (trie node storage stays exact under
// reference counting and garbage collection) with a structural walk of the
// raw node store after every block.
package c11

import (
	"bytes"
	"encoding/binary"
	"fmt"
	"os"
	"runtime"
	"sort"
	"strings"
	"sync"
	"testing"

	"github.com/nspcc-dev/neo-go/pkg/config"
	"github.com/nspcc-dev/neo-go/pkg/core/mpt"
	"github.com/nspcc-dev/neo-go/pkg/core/stateroot"
	"github.com/nspcc-dev/neo-go/pkg/core/storage"
	"github.com/nspcc-dev/neo-go/pkg/io"
	"github.com/nspcc-dev/neo-go/pkg/util"
	"github.com/nspcc-dev/neo-go/verifharness/vlib/ev"
	"github.com/nspcc-dev/neo-go/verifharness/vlib/rng"
	"github.com/nspcc-dev/neo-go/verifharness/vlib/vchain"
	"go.uber.org/zap"
)

var tkeys = [][]byte{{0x12}, {0x12, 0x34}, {0x12, 0x35}, {0x12, 0x34, 0x56}, {0x13}, {0x20}, {0x21, 0x00}, {0x21, 0x0f}, {0xff}, {0xff, 0xff}, {0x12, 0x34, 0x57}, {0x00}, {0x12, 0x34, 0x56, 0x78, 0x9a}, {0x21}}
var tvals = [][]byte{{1}, {2}, {}, {1}, {3, 3}, {1}, {2}}

// boundary-size values: the longest storage value (65535 bytes) and one below,
// and the lengths around the width change of the length prefix.
var tbig = [][]byte{bytes.Repeat([]byte{7}, 65535), bytes.Repeat([]byte{8}, 65534), bytes.Repeat([]byte{9}, 253), bytes.Repeat([]byte{9}, 252), bytes.Repeat([]byte{7}, 65535)}

// tval picks a value: small ones shared by many keys, now and then a boundary-size one.
func tval(r *rng.R) []byte {
	if r.Intn(40) == 0 {
		return tbig[r.Intn(len(tbig))]
	}
	return tvals[r.Intn(len(tvals))]
}

type getter interface {
	Get([]byte) ([]byte, error)
}

// occurrences walks the raw node store from root and counts, for every node
// hash, the number of paths on which it occurs (a sub-trie shared by two
// parents counts twice, and so do its children).
func occurrences(st getter, root util.Uint256, suffix bool) (map[util.Uint256]int, error) {
	occ := map[util.Uint256]int{}
	var rec func(h util.Uint256, mult int) error
	memo := map[util.Uint256][]util.Uint256{}
	rec = func(h util.Uint256, mult int) error {
		occ[h] += mult
		chs, ok := memo[h]
		if !ok {
			data, err := st.Get(append([]byte{byte(storage.DataMPT)}, h[:]...))
			if err != nil {
				return fmt.Errorf("node %s is missing", h.StringBE())
			}
			if suffix {
				if len(data) < 6 {
					return fmt.Errorf("node %s is too short", h.StringBE())
				}
				if data[len(data)-5] != 1 {
					return fmt.Errorf("node %s is reachable but marked inactive", h.StringBE())
				}
				data = data[:len(data)-5]
			}
			var n mpt.NodeObject
			r := io.NewBinReaderFromBuf(data)
			n.DecodeBinary(r)
			if r.Err != nil {
				return fmt.Errorf("node %s is undecodable: %w", h.StringBE(), r.Err)
			}
			for ch, paths := range mpt.GetChildrenPaths(nil, n.Node) {
				for range paths {
					chs = append(chs, ch)
				}
			}
			memo[h] = chs
		}
		for _, ch := range chs {
			if err := rec(ch, mult); err != nil {
				return err
			}
		}
		return nil
	}
	if root.Equals(util.Uint256{}) {
		return occ, nil
	}
	return occ, rec(root, 1)
}

type seeker interface {
	getter
	Seek(storage.SeekRange, func(k, v []byte) bool)
}

type viol struct{ sig, detail string }

// exactness compares the stored nodes with what the latest root needs.
func exactness(st seeker, root util.Uint256, latestOnly, gc bool, height uint32, obs func(active, inactive int)) *viol {
	occ, err := occurrences(st, root, true)
	if err != nil {
		return &viol{"reachable-node-unusable", err.Error()}
	}
	var v *viol
	active, inactive := 0, 0
	st.Seek(storage.SeekRange{Prefix: []byte{byte(storage.DataMPT)}}, func(k, val []byte) bool {
		var h util.Uint256
		copy(h[:], k[1:])
		if len(val) < 5 {
			v = &viol{"stored-node-without-counter", h.StringBE()}
			return false
		}
		cnt := int(binary.LittleEndian.Uint32(val[len(val)-4:]))
		if val[len(val)-5] == 1 {
			active++
			if occ[h] != cnt {
				v = &viol{"stored-count-differs-from-occurrences", fmt.Sprintf("node %s stored=%d occurs=%d", h.StringBE()[:8], cnt, occ[h])}
				return false
			}
			delete(occ, h)
			return true
		}
		inactive++
		switch {
		case occ[h] != 0:
			v = &viol{"reachable-node-marked-inactive", h.StringBE()}
		case !gc:
			v = &viol{"inactive-node-kept-without-gc-mode", h.StringBE()}
		case uint32(cnt) > height:
			v = &viol{"inactive-height-in-the-future", fmt.Sprintf("node %s inactive since %d at height %d", h.StringBE()[:8], cnt, height)}
		}
		return v == nil
	})
	if v != nil {
		return v
	}
	for h, c := range occ {
		if c != 0 {
			return &viol{"reachable-node-not-stored", h.StringBE()}
		}
	}
	if obs != nil {
		obs(active, inactive)
	}
	return nil
}

func freshRoot(content map[string][]byte) util.Uint256 {
	tr := mpt.NewTrie(nil, mpt.ModeAll, storage.NewMemCachedStore(storage.NewMemoryStore()))
	keys := make([]string, 0, len(content))
	for k := range content {
		keys = append(keys, k)
	}
	sort.Strings(keys)
	for _, k := range keys {
		if err := tr.Put([]byte(k), content[k]); err != nil {
			panic(err)
		}
	}
	return tr.StateRoot()
}

// readBack reads everything under root and compares with content.
// It returns "ok", "clean-failure" or a description of wrong data.
func readBack(st storage.Store, root util.Uint256, content map[string][]byte) string {
	tr := mpt.NewTrie(mpt.NewHashNode(root), mpt.ModeAll, storage.NewMemCachedStore(st))
	keys := make([]string, 0, len(content))
	for k := range content {
		keys = append(keys, k)
	}
	sort.Strings(keys)
	failed, okc := 0, 0
	for _, k := range keys {
		v, err := tr.Get([]byte(k))
		if err != nil {
			failed++
			continue
		}
		if !bytes.Equal(v, content[k]) {
			return fmt.Sprintf("key %x: got %x want %x", k, v, content[k])
		}
		okc++
	}
	for _, k := range tkeys {
		if _, in := content[string(k)]; in {
			continue
		}
		if v, err := tr.Get(k); err == nil {
			return fmt.Sprintf("absent key %x returned %x", k, v)
		}
	}
	if failed == 0 {
		return "ok"
	}
	if okc == 0 || true {
		return "clean-failure"
	}
	return ""
}

// moduleSeq drives stateroot.Module with per-block batches.
func moduleSeq(run *ev.Run, idx int, nblocks int) (*viol, []string, bool) {
	r := rng.New(uint64(idx) + 20000)
	var cfg config.Blockchain
	mode := idx % 3 // 0 latest, 1 gc, 2 gc+latest
	cfg.KeepOnlyLatestState = mode != 1
	cfg.RemoveUntraceableBlocks = mode != 0
	mem := storage.NewMemoryStore()
	base := storage.NewMemCachedStore(mem)
	mod := stateroot.NewModule(cfg, nil, zap.NewNop(), base)
	if err := mod.Init(0); err != nil {
		return &viol{"module-init-failed", err.Error()}, nil, false
	}
	content := map[string][]byte{}
	hist := map[uint32]map[string][]byte{}
	roots := map[uint32]util.Uint256{}
	var log []string
	discarded := false
	mkBatch := func(apply bool) map[string][]byte {
		b := map[string][]byte{}
		for i := 0; i < 1+r.Intn(5); i++ {
			k := tkeys[r.Intn(len(tkeys))]
			if r.Intn(3) == 0 {
				b["\x70"+string(k)] = nil
			} else {
				b["\x70"+string(k)] = tval(r)
			}
		}
		if apply {
			for k, v := range b {
				if v == nil {
					delete(content, k[1:])
				} else {
					content[k[1:]] = v
				}
			}
		}
		return b
	}
	gcDone := uint32(0)
	for blk := uint32(1); blk <= uint32(nblocks); blk++ {
		if r.Intn(4) == 0 && os.Getenv("C11_NO_DISCARD") == "" {
			// a block computed and never committed
			cache := storage.NewPrivateMemCachedStore(base)
			b := mkBatch(false)
			var err error
			func() {
				defer func() {
					if x := recover(); x != nil {
						err = fmt.Errorf("panic: %v", x)
					}
				}()
				_, _, err = mod.AddMPTBatch(blk, mpt.MapToMPTBatch(b), cache)
			}()
			log = append(log, fmt.Sprintf("block %d computed and discarded %x err=%v", blk, b, err))
			discarded = true
			run.Obs("discarded_blocks", 1)
		}
		cache := storage.NewPrivateMemCachedStore(base)
		b := mkBatch(true)
		var (
			tr  *mpt.Trie
			err error
			rt  util.Uint256
		)
		func() {
			defer func() {
				if x := recover(); x != nil {
					err = fmt.Errorf("panic: %v", x)
				}
			}()
			t2, sr, e := mod.AddMPTBatch(blk, mpt.MapToMPTBatch(b), cache)
			if e != nil {
				err = e
				return
			}
			base.PersistPrivate(cache)
			t2.Store = base
			mod.UpdateCurrentLocal(t2, sr)
			tr, rt = t2, sr.Root
		}()
		log = append(log, fmt.Sprintf("block %d committed %x", blk, b))
		sfx := ""
		if discarded {
			sfx = ":after-discarded-block"
		}
		if err != nil {
			return &viol{"commit-failed" + sfx, err.Error()}, log, discarded
		}
		_ = tr
		run.Obs("blocks_committed", 1)
		if want := freshRoot(content); rt != want {
			return &viol{"root-differs-from-fresh-trie" + sfx, fmt.Sprintf("block %d: %s vs %s", blk, rt.StringBE(), want.StringBE())}, log, discarded
		}
		cp := map[string][]byte{}
		for k, v := range content {
			cp[k] = v
		}
		hist[blk], roots[blk] = cp, rt
		if v := exactness(base, rt, cfg.KeepOnlyLatestState, cfg.RemoveUntraceableBlocks, blk, func(a, i int) {
			run.Obs("nodes_walked", int64(a))
			run.Obs("inactive_nodes_seen", int64(i))
		}); v != nil {
			v.sig += sfx
			v.detail = fmt.Sprintf("block %d: %s", blk, v.detail)
			return v, log, discarded
		}
		// garbage collection up to G, then every retained root must read back
		if cfg.RemoveUntraceableBlocks && r.Intn(3) == 0 && blk > 2 {
			if _, err := base.Persist(); err != nil {
				return &viol{"persist-failed", err.Error()}, log, discarded
			}
			g := gcDone + uint32(r.Intn(int(blk-gcDone)))
			mod.GC(g, mem)
			gcDone = g
			log = append(log, fmt.Sprintf("GC(%d) at block %d", g, blk))
			run.Obs("gc_runs", 1)
			for h := uint32(1); h <= blk; h++ {
				if cfg.KeepOnlyLatestState && h != blk {
					continue
				}
				res := readBack(mem, roots[h], hist[h])
				switch {
				case res == "ok":
					run.Obs("old_roots_read_back", 1)
				case res == "clean-failure" && h < g:
					run.Obs("unretained_roots_failing_cleanly", 1)
				case res == "clean-failure":
					return &viol{"retained-root-unreadable-after-gc" + sfx, fmt.Sprintf("GC(%d) at block %d: state of height %d cannot be read", g, blk, h)}, log, discarded
				default:
					return &viol{"old-root-returns-wrong-data" + sfx, fmt.Sprintf("GC(%d) at block %d, height %d: %s", g, blk, h, res)}, log, discarded
				}
			}
		}
	}
	return nil, log, discarded
}

// trieSeq drives mpt.Trie directly (single Put / Delete as well as batches)
// in the reference-counting modes.
func trieSeq(run *ev.Run, idx int, nblocks int) (*viol, []string) {
	r := rng.New(uint64(idx) + 23000)
	mode := []mpt.TrieMode{mpt.ModeLatest, mpt.ModeGC, mpt.ModeLatest | mpt.ModeGC}[idx%3]
	st := storage.NewMemCachedStore(storage.NewMemoryStore())
	tr := mpt.NewTrie(nil, mode, st)
	content := map[string][]byte{}
	var log []string
	for blk := 1; blk <= nblocks; blk++ {
		nops := 1 + r.Intn(5)
		if r.Intn(2) == 0 {
			b := map[string][]byte{}
			for i := 0; i < nops; i++ {
				k := tkeys[r.Intn(len(tkeys))]
				if r.Intn(3) == 0 {
					b["\x70"+string(k)] = nil
				} else {
					b["\x70"+string(k)] = tval(r)
				}
			}
			for k, v := range b {
				if v == nil {
					delete(content, k[1:])
				} else {
					content[k[1:]] = v
				}
			}
			log = append(log, fmt.Sprintf("block %d batch %x", blk, b))
			if _, err := tr.PutBatch(mpt.MapToMPTBatch(b)); err != nil {
				return &viol{"trie:batch-failed", err.Error()}, log
			}
		} else {
			for i := 0; i < nops; i++ {
				k := tkeys[r.Intn(len(tkeys))]
				if r.Intn(3) == 0 {
					_ = tr.Delete(k)
					delete(content, string(k))
					log = append(log, fmt.Sprintf("block %d delete %x", blk, k))
				} else {
					v := tval(r)
					if err := tr.Put(k, v); err != nil {
						return &viol{"trie:put-failed", err.Error()}, log
					}
					content[string(k)] = v
					log = append(log, fmt.Sprintf("block %d put %x=%x", blk, k, v))
				}
			}
		}
		var perr error
		func() {
			defer func() {
				if x := recover(); x != nil {
					perr = fmt.Errorf("panic: %v", x)
				}
			}()
			tr.Flush(uint32(blk))
		}()
		if perr != nil {
			return &viol{"trie:flush-panicked", perr.Error()}, log
		}
		if r.Intn(3) == 0 {
			tr.Collapse(r.Intn(3))
			log = append(log, "collapse")
		}
		if r.Intn(5) == 0 {
			tr = mpt.NewTrie(mpt.NewHashNode(tr.StateRoot()), mode, st)
			if len(content) == 0 {
				tr = mpt.NewTrie(nil, mode, st)
			}
			log = append(log, "reopen from root")
		}
		run.Obs("trie_blocks", 1)
		if got, want := tr.StateRoot(), freshRoot(content); got != want {
			return &viol{"trie:root-differs-from-fresh-trie", fmt.Sprintf("block %d", blk)}, log
		}
		if v := exactness(st, tr.StateRoot(), mode&mpt.ModeLatest != 0, mode.GC(), uint32(blk), func(a, i int) { run.Obs("nodes_walked", int64(a)) }); v != nil {
			v.sig = "trie:" + v.sig
			v.detail = fmt.Sprintf("block %d: %s", blk, v.detail)
			return v, log
		}
	}
	return nil, log
}

// chainRun checks the same on whole nodes fed a generated history.
func chainRun(t *testing.T, run *ev.Run, idx, nblocks int) {
	w := vchain.DefaultWeights
	w.Run, w.Payment, w.GasTransfer = 30, 8, 14
	h := vchain.BuildHistory(t, vchain.HistoryCfg{Idx: 1200 + idx, Blocks: nblocks, Keep: true, Weights: &w, Echidna: idx%2 == 1})
	defer h.P.Close()
	if h.P.Rejected != nil {
		run.Violation("producer-rejected-own-block", fmt.Sprint("chain", idx), h.P.Rejected.Error(), nil)
		return
	}
	content := func(hh int) map[string][]byte {
		m := map[string][]byte{}
		for id, kvs := range h.P.Obs[hh].Storage {
			for _, kv := range kvs {
				b := make([]byte, 4, 4+len(kv.K))
				binary.LittleEndian.PutUint32(b, uint32(id))
				m[string(append(b, kv.K...))] = kv.V
			}
		}
		return m
	}
	latestM := func(c *config.Blockchain) { c.KeepOnlyLatestState = true }
	gcM := func(c *config.Blockchain) { c.RemoveUntraceableBlocks = true; c.GarbageCollectionPeriod = 4 }
	gcLatestM := func(c *config.Blockchain) {
		c.RemoveUntraceableBlocks = true
		c.KeepOnlyLatestState = true
		c.GarbageCollectionPeriod = 3
	}
	modes := []struct {
		name    string
		cfg     func(*config.Blockchain)
		backend string
	}{
		{"latest", latestM, "mem"},
		{"gc", gcM, "mem"},
		{"gc+latest", gcLatestM, "mem"},
		// the same modes on the persistent backends (their iterators, key / value
		// memory and transactions differ from the in-memory store's)
		{"gc@level", func(c *config.Blockchain) {
			c.RemoveUntraceableBlocks = true
			c.GarbageCollectionPeriod = uint32(2 + idx%3)
		}, "level"},
		{"gc+latest@bolt", gcLatestM, "bolt"},
		{[]string{"latest@level", "gc@bolt", "gc+latest@level"}[idx%3], []func(*config.Blockchain){latestM, gcM, gcLatestM}[idx%3], []string{"level", "bolt", "level"}[idx%3]},
	}
	var wg sync.WaitGroup
	for mi, m := range modes {
		id := fmt.Sprintf("chain%d/%s", idx, m.name)
		if !run.Want(id) {
			continue
		}
		wg.Add(1)
		go func() {
			defer wg.Done()
			r := rng.New(uint64(idx)*10 + uint64(mi) + 21000)
			cfg := func(c *config.Blockchain) { h.Proto(c); m.cfg(c) }
			rep, err := vchain.OpenReplica(t, vchain.ReplicaCfg{Name: strings.ReplaceAll(m.name, "@", "-"), Cfg: cfg, Backend: m.backend})
			if err != nil {
				t.Error(err)
				return
			}
			defer rep.Close()
			report := func(v *viol, at int) {
				run.Violation("chain:"+v.sig, id, fmt.Sprintf("height %d: %s", at, v.detail), map[string]any{"history": 1200 + idx, "mode": m.name, "height": at})
			}
			bad := false
			for i := range h.P.Raw {
				if err := rep.AddRaw(h.P.Raw[i]); err != nil {
					report(&viol{"block-rejected", err.Error()}, i+1)
					bad = true
					break
				}
				if r.Intn(2) == 0 {
					_ = rep.Flush()
				}
				if (i+1)%5 != 0 && i != len(h.P.Raw)-1 {
					continue
				}
				_ = rep.Flush()
				tip := i + 1
				sr, err := rep.BC.GetStateRoot(uint32(tip))
				if err != nil {
					report(&viol{"tip-root-unavailable", err.Error()}, tip)
					bad = true
					break
				}
				latest := rep.BC.GetConfig().KeepOnlyLatestState
				gcm := rep.BC.GetConfig().RemoveUntraceableBlocks
				if v := exactness(rep.Store.Inner, sr.Root, latest, gcm, uint32(tip), func(a, ia int) {
					run.Obs("nodes_walked", int64(a))
					run.Obs("inactive_nodes_seen", int64(ia))
				}); v != nil {
					report(v, tip)
					bad = true
					break
				}
				run.Obs("chain_walks", 1)
				// retained roots: [tip-MaxTraceableBlocks, tip] must read back; older ones
				// either read back or fail cleanly
				mtb := int(rep.BC.GetMaxTraceableBlocks())
				for hh := 1; hh <= tip; hh++ {
					if latest && hh != tip {
						continue
					}
					srh, err := rep.BC.GetStateRoot(uint32(hh))
					if err != nil {
						if hh >= tip-mtb && !latest && false {
							report(&viol{"retained-root-record-missing", err.Error()}, hh)
						}
						continue
					}
					want := content(hh)
					got := map[string][]byte{}
					panicked := false
					func() {
						defer func() {
							if x := recover(); x != nil {
								panicked = true
							}
						}()
						rep.BC.GetStateModule().SeekStates(srh.Root, nil, func(k, v []byte) bool { got[string(k)] = bytes.Clone(v); return true })
					}()
					same := !panicked && len(got) == len(want)
					if same {
						for k, v := range want {
							if g, ok := got[k]; !ok || !bytes.Equal(g, v) {
								same = false
								break
							}
						}
					}
					switch {
					case same:
						run.Obs("old_roots_read_back", 1)
					case hh >= tip-mtb:
						report(&viol{"retained-root-unreadable", fmt.Sprintf("state of height %d (tip %d, MaxTraceableBlocks %d): %d of %d items, panicked=%v", hh, tip, mtb, len(got), len(want), panicked)}, tip)
						bad = true
					case panicked || len(got) < len(want):
						// an un-retained root may fail, but what it returns must be a subset of the truth
						for k, v := range got {
							if w, ok := want[k]; !ok || !bytes.Equal(w, v) {
								report(&viol{"old-root-returns-wrong-data", fmt.Sprintf("height %d key %x", hh, k)}, tip)
								bad = true
								break
							}
						}
						run.Obs("unretained_roots_failing_cleanly", 1)
					default:
						report(&viol{"old-root-returns-wrong-data", fmt.Sprintf("height %d: %d items vs %d", hh, len(got), len(want))}, tip)
						bad = true
					}
					if bad {
						break
					}
				}
				if bad {
					break
				}
			}
			run.Case(id, true)
		}()
	}
	wg.Wait()
}

func TestCheck(t *testing.T) {
	run := ev.Start("C11", "package level: a case is one sequence of per-block change batches fed to stateroot.Module (modes latest / gc / gc+latest; values shared by many keys, delete-then-recreate, blocks computed and never committed, GC at seeded heights): after every committed block the root must equal a fresh trie's, an independent walk of the raw DataMPT records from the latest root must find every node present, decodable and active with a stored count equal to its number of path occurrences, no unreachable active node, inactive nodes only in GC mode with a past height; after GC(G) every root >= G reads back completely, older ones read back or fail cleanly. chain level: the same walk and read-back on nodes with KeepOnlyLatestState / RemoveUntraceableBlocks fed generated histories, GC driven by the persist hook; distinct by sequence / (history, mode); non-trivial if a block was discarded or GC ran")
	defer run.Finish()
	run.Assume("the walker uses exported API only (mpt.NodeObject.DecodeBinary, mpt.GetChildrenPaths) and counts path occurrences, which is what the per-node counter accumulates")
	part := os.Getenv("VERIF_PART")
	if part == "" || part == "all" || part == "module" {
		n := ev.Pick(8000, 200000)
		nb := ev.Pick(12, 30)
		var wg sync.WaitGroup
		ch := make(chan int, 64)
		for w := 0; w < runtime.NumCPU(); w++ {
			wg.Add(1)
			go func() {
				defer wg.Done()
				for i := range ch {
					id := fmt.Sprint("seq", i)
					if !run.Want(id) {
						continue
					}
					v, log, disc := moduleSeq(run, i, nb)
					run.Case(id, disc || i%3 != 0)
					if i < 3 {
						run.Sample(map[string]any{"case": id, "mode": []string{"latest", "gc", "gc+latest"}[i%3], "log": log})
					}
					if v != nil {
						run.Violation(v.sig, id, v.detail, map[string]any{"mode": []string{"latest", "gc", "gc+latest"}[i%3], "log": log})
					}
				}
			}()
		}
		for i := 0; i < n; i++ {
			ch <- i
		}
		close(ch)
		wg.Wait()
	}
	if part == "" || part == "all" || part == "trie" {
		n := ev.Pick(8000, 200000)
		var wg sync.WaitGroup
		ch := make(chan int, 64)
		for w := 0; w < runtime.NumCPU(); w++ {
			wg.Add(1)
			go func() {
				defer wg.Done()
				for i := range ch {
					id := fmt.Sprint("trie", i)
					if !run.Want(id) {
						continue
					}
					v, log := trieSeq(run, i, 8)
					run.Case(id, true)
					if v != nil {
						run.Violation(v.sig, id, v.detail, map[string]any{"log": log})
					}
				}
			}()
		}
		for i := 0; i < n; i++ {
			ch <- i
		}
		close(ch)
		wg.Wait()
	}
	if part == "" || part == "all" || part == "chain" {
		for i := 0; i < ev.Pick(3, 24); i++ {
			chainRun(t, run, i, ev.Pick(60, 120))
		}
	}
}

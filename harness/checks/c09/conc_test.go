package c09

import (
	"context"
	"crypto/sha256"
	"errors"
	"fmt"
	"path/filepath"
	"runtime"
	"sort"
	"strconv"
	"strings"
	"sync"
	"sync/atomic"
	"testing"
	"time"

	"github.com/anishathalye/porcupine"
	"github.com/nspcc-dev/neo-go/pkg/core/storage"
	"github.com/nspcc-dev/neo-go/verifharness/vlib/ev"
	"github.com/nspcc-dev/neo-go/verifharness/vlib/rng"
)

// slowStore widens the window in which an upper MemCachedStore has swapped its
// maps out (readable only through its temporary layer) and the lower store has
// not been written yet: it pauses before and after delegating PutChangeSet.
type slowStore struct {
	storage.Store
	pauses   []time.Duration // 0 = runtime.Gosched
	fails    []bool          // write k fails (nothing written) iff fails[k%len]; nil = never
	failed   atomic.Int64
	n        atomic.Int64
	inWindow atomic.Int32
	windows  atomic.Int64
}

func pause(d time.Duration) {
	if d == 0 {
		runtime.Gosched()
		return
	}
	time.Sleep(d)
}

func (s *slowStore) PutChangeSet(p, st map[string][]byte) error {
	i := int(s.n.Add(2))
	s.inWindow.Add(1)
	s.windows.Add(1)
	pause(s.pauses[i%len(s.pauses)])
	var err error
	if len(s.fails) > 0 && s.fails[(i/2)%len(s.fails)] {
		// a transient write failure of the backend (disk full, I/O error):
		// atomic, so nothing of the batch is written
		err = errInjectedWriteFailure
		s.failed.Add(1)
	} else {
		err = s.Store.PutChangeSet(p, st)
	}
	pause(s.pauses[(i+1)%len(s.pauses)])
	s.inWindow.Add(-1)
	return err
}

var errInjectedWriteFailure = errors.New("injected write failure of the lower store")

type regIn struct {
	key  string
	kind int // 0 read, 1 put, 2 delete
	val  string
	via  string
}

var registerModel = porcupine.Model{
	Partition: func(h []porcupine.Operation) [][]porcupine.Operation {
		m := map[string][]porcupine.Operation{}
		var keys []string
		for _, o := range h {
			k := o.Input.(regIn).key
			if _, ok := m[k]; !ok {
				keys = append(keys, k)
			}
			m[k] = append(m[k], o)
		}
		sort.Strings(keys)
		out := make([][]porcupine.Operation, 0, len(keys))
		for _, k := range keys {
			out = append(out, m[k])
		}
		return out
	},
	Init: func() any { return "" },
	Step: func(st, in, out any) (bool, any) {
		i := in.(regIn)
		switch i.kind {
		case 1:
			return true, i.val
		case 2:
			return true, ""
		}
		return out.(string) == st.(string), st
	},
	DescribeOperation: func(in, out any) string {
		i := in.(regIn)
		switch i.kind {
		case 1:
			return fmt.Sprintf("Put(%x,%s)", i.key, i.val)
		case 2:
			return fmt.Sprintf("Delete(%x)", i.key)
		}
		return fmt.Sprintf("%s(%x)->%q", i.via, i.key, out)
	},
}

var registerKeys = []string{"\x01ra", "\x01rb", "\x70r1", "\x70r1x"}

const (
	nBatchKeys  = 3 // per map
	nStable     = 3
	nChurn      = 2
	batchMemPre = "\x01g"
	batchStPre  = "\x70g"
	stablePre   = "\x02s"
	churnPre    = "\x02c"
	growPre     = "\x70w"
	padPre      = "\x01q" // filler of the two-layer batches, read by nobody
)

// present tells whether batch key i carries a value in generation g (the first
// key of either map always does, so that every generation is recognisable).
func present(g, i int) bool {
	if g == 0 {
		return false
	}
	return i%nBatchKeys == 0 || (uint32(g)*2654435761>>(uint(i)+7))&1 == 1
}

func batchMaps(g int) (map[string][]byte, map[string][]byte) {
	mem, st := map[string][]byte{}, map[string][]byte{}
	for i := 0; i < nBatchKeys; i++ {
		var v []byte
		if present(g, i) {
			v = []byte("g" + strconv.Itoa(g))
		}
		mem[batchMemPre+strconv.Itoa(i)] = v
		var w []byte
		if present(g, i+nBatchKeys) {
			w = []byte("g" + strconv.Itoa(g))
		}
		st[batchStPre+strconv.Itoa(i)] = w
	}
	return mem, st
}

type concCase struct {
	id      string
	kind    string
	run     *ev.Run
	top     *storage.MemCachedStore
	layers  []*storage.MemCachedStore
	slows   []*slowStore
	shape   string
	clock   atomic.Int64
	mu      sync.Mutex
	ops     []porcupine.Operation
	notes   []string
	nvio    atomic.Int64
	inWin   atomic.Int64
	issued  atomic.Int64 // last batch generation handed to PutChangeSet
	commit  atomic.Int64 // last batch generation whose PutChangeSet returned
	grown   atomic.Int64 // growth keys whose Put returned
	churned [nChurn]atomic.Int64
}

func (c *concCase) windowOpen() bool {
	for _, s := range c.slows {
		if s.inWindow.Load() > 0 {
			return true
		}
	}
	return false
}

func (c *concCase) rec(cid int, in regIn, f func() string) {
	call := c.clock.Add(1)
	w := c.windowOpen()
	out := f()
	ret := c.clock.Add(1)
	if in.kind == 0 && (w || c.windowOpen()) {
		c.inWin.Add(1)
	}
	c.mu.Lock()
	c.ops = append(c.ops, porcupine.Operation{ClientId: cid, Input: in, Call: call, Output: out, Return: ret})
	c.mu.Unlock()
}

func (c *concCase) violation(sig, detail string) {
	c.nvio.Add(1)
	if c.kind != "mem" {
		// the lower store is a real database here: name it, a fault of the
		// backend and a fault of the cache layer must not share a signature
		sig += ":over-" + c.kind
	}
	c.mu.Lock()
	notes := append([]string(nil), c.notes...)
	c.mu.Unlock()
	c.run.Violation(sig, c.id, detail, map[string]any{"shape": c.shape, "detail": detail, "notes": notes})
}

// seekAll collects a whole range through Seek or SeekAsync.
func (c *concCase) seekAll(rg storage.SeekRange, async bool) (keys, vals []string) {
	if async {
		ctx, cancel := context.WithCancel(context.Background())
		for kv := range c.top.SeekAsync(ctx, rg, false) {
			keys = append(keys, string(kv.Key))
			vals = append(vals, string(kv.Value))
		}
		cancel()
		return
	}
	c.top.Seek(rg, func(k, v []byte) bool {
		keys = append(keys, string(k))
		vals = append(vals, string(v))
		return true
	})
	return
}

func checkOrder(keys []string, backwards bool) string {
	for i := 1; i < len(keys); i++ {
		cmp := strings.Compare(keys[i-1], keys[i])
		if cmp == 0 {
			return "duplicate-key"
		}
		if (cmp > 0) != backwards {
			return "out-of-order"
		}
	}
	return ""
}

// writer issues register writes, generation batches, growth and churn keys.
func (c *concCase) writer(cid int, r *rng.R, n int, batches bool) {
	seq := 0
	for i := 0; i < n; i++ {
		switch x := r.Intn(20); {
		case x < 8:
			k := registerKeys[r.Intn(len(registerKeys))]
			seq++
			v := fmt.Sprintf("c%d-%d", cid, seq)
			c.rec(cid, regIn{key: k, kind: 1, val: v}, func() string { c.top.Put([]byte(k), []byte(v)); return "" })
		case x < 11:
			k := registerKeys[r.Intn(len(registerKeys))]
			c.rec(cid, regIn{key: k, kind: 2}, func() string { c.top.Delete([]byte(k)); return "" })
		case x < 15 && batches:
			g := int(c.issued.Add(1))
			mem, st := batchMaps(g)
			if g%3 == 0 {
				// the same batch through two private layers merged by one
				// PersistPrivate call (as block storing does with its execution
				// results and state changes): the first key of either map, and some
				// padding that makes the first merge long, in one layer, the rest in
				// the other - still one batch for every reader
				p1, p2 := storage.NewPrivateMemCachedStore(c.top), storage.NewPrivateMemCachedStore(c.top)
				put := func(l *storage.MemCachedStore, k string, v []byte) {
					if v == nil {
						l.Delete([]byte(k))
					} else {
						l.Put([]byte(k), v)
					}
				}
				for k, v := range mem {
					if k == batchMemPre+"0" {
						put(p1, k, v)
					} else {
						put(p2, k, v)
					}
				}
				for k, v := range st {
					if k == batchStPre+"0" {
						put(p1, k, v)
					} else {
						put(p2, k, v)
					}
				}
				for j := 0; j < 400; j++ {
					p1.Put([]byte(padPre+strconv.Itoa(j)), []byte{byte(g)})
				}
				c.top.PersistPrivate(p1, p2)
				c.run.Obs("conc_batches_written_through_two_private_layers", 1)
			} else {
				_ = c.top.PutChangeSet(mem, st)
			}
			c.commit.Store(int64(g))
			c.run.Obs("conc_batches_written", 1)
		case x < 18 && batches:
			g := int(c.grown.Load()) + 1
			c.top.Put([]byte(fmt.Sprintf("%s%04d", growPre, g)), []byte("w"+strconv.Itoa(g)))
			c.grown.Store(int64(g))
		case batches:
			j := r.Intn(nChurn)
			v := c.churned[j].Load() + 1
			c.top.Put([]byte(churnPre+strconv.Itoa(j)), []byte("u"+strconv.FormatInt(v, 10)))
			c.churned[j].Store(v)
		}
		if r.Intn(4) == 0 {
			runtime.Gosched()
		}
	}
}

// reader issues register reads through Get and through a one-key Seek.
func (c *concCase) reader(cid int, r *rng.R, n int) {
	for i := 0; i < n; i++ {
		k := registerKeys[r.Intn(len(registerKeys))]
		if r.Intn(4) == 0 {
			c.rec(cid, regIn{key: k, via: "Seek"}, func() string {
				out := ""
				c.top.Seek(storage.SeekRange{Prefix: []byte(k), Backwards: r.Bool()}, func(kk, v []byte) bool {
					if string(kk) == k {
						out = string(v)
					}
					return true
				})
				return out
			})
			continue
		}
		c.rec(cid, regIn{key: k, via: "Get"}, func() string {
			v, err := c.top.Get([]byte(k))
			if err != nil {
				if err != storage.ErrKeyNotFound {
					c.violation("conc:get-error", err.Error())
				}
				return ""
			}
			return string(v)
		})
		if r.Intn(4) == 0 {
			runtime.Gosched()
		}
	}
}

func genOf(v string) int {
	g, _ := strconv.Atoi(strings.TrimLeft(v, "gwu"))
	return g
}

// batchSeeker checks all-or-nothing visibility of generation batches in range
// scans: every scan of a batch prefix shows exactly the key set of one
// generation, not older than the last one committed before the scan began nor
// than one seen earlier by the same reader.
func (c *concCase) batchSeeker(r *rng.R, n int) {
	last := map[string]int{}
	for i := 0; i < n; i++ {
		pre, off := batchMemPre, 0
		if r.Bool() {
			pre, off = batchStPre, nBatchKeys
		}
		back := r.Bool()
		floor := int(c.commit.Load())
		w := c.windowOpen()
		keys, vals := c.seekAll(storage.SeekRange{Prefix: []byte(pre), Backwards: back}, r.Intn(3) == 0)
		if w || c.windowOpen() {
			c.inWin.Add(1)
		}
		ceil := int(c.issued.Load())
		c.run.Obs("conc_batch_scans", 1)
		desc := fmt.Sprintf("scan of %x (backwards=%v) -> keys %q values %q; committed before=%d issued after=%d", pre, back, keys, vals, floor, ceil)
		if o := checkOrder(keys, back); o != "" {
			c.violation("conc:batch-scan:"+o, desc)
			continue
		}
		g := 0
		mixed := false
		for _, v := range vals {
			if g != 0 && genOf(v) != g {
				mixed = true
			}
			g = genOf(v)
		}
		if mixed {
			c.violation("conc:batch-scan:half-of-a-batch:mixed-generations", desc)
			continue
		}
		if len(keys) == 0 {
			if floor > 0 {
				c.violation("conc:batch-scan:committed-batch-missing", desc)
			}
			continue
		}
		want := []string{}
		for j := 0; j < nBatchKeys; j++ {
			if present(g, j+off) {
				want = append(want, pre+strconv.Itoa(j))
			}
		}
		got := append([]string(nil), keys...)
		sort.Strings(got)
		if fmt.Sprint(got) != fmt.Sprint(want) {
			c.violation("conc:batch-scan:half-of-a-batch:key-set-differs-from-generation", desc+fmt.Sprintf("; generation %d holds %q", g, want))
			continue
		}
		if g < floor || g < last[pre] {
			c.violation("conc:batch-scan:stale-generation", desc+fmt.Sprintf("; earlier scan saw %d", last[pre]))
		}
		if g > ceil {
			c.violation("conc:batch-scan:generation-from-the-future", desc)
		}
		last[pre] = g
	}
}

// batchGetter reads all batch keys one after another: the generations seen
// must not go backwards, and an absent key must be absent in some generation
// between its neighbours.
func (c *concCase) batchGetter(r *rng.R, n int) {
	for i := 0; i < n; i++ {
		floor := int(c.commit.Load())
		type rd struct {
			key   string
			idx   int
			gen   int // 0 = absent
			exact bool
		}
		var rds []rd
		for j := 0; j < 2*nBatchKeys; j++ {
			k := batchMemPre + strconv.Itoa(j)
			if j >= nBatchKeys {
				k = batchStPre + strconv.Itoa(j-nBatchKeys)
			}
			w := c.windowOpen()
			v, err := c.top.Get([]byte(k))
			if w || c.windowOpen() {
				c.inWin.Add(1)
			}
			x := rd{key: k, idx: j}
			if err == nil {
				x.gen, x.exact = genOf(string(v)), true
			}
			rds = append(rds, x)
		}
		ceil := int(c.issued.Load())
		c.run.Obs("conc_batch_point_read_rounds", 1)
		desc := fmt.Sprintf("sequential Gets %+v; committed before=%d issued after=%d", rds, floor, ceil)
		lo := floor
		bad := ""
		for j, x := range rds {
			if x.exact {
				if !present(x.gen, x.idx) {
					bad = "value-of-a-generation-that-deleted-the-key"
				}
				if x.gen < lo {
					bad = "older-generation-after-newer"
				}
				if x.gen > ceil {
					bad = "generation-from-the-future"
				}
				lo = x.gen
				continue
			}
			hi := ceil
			for _, y := range rds[j+1:] {
				if y.exact {
					hi = y.gen
					break
				}
			}
			ok := false
			for g := lo; g <= hi; g++ {
				if !present(g, x.idx) {
					ok = true
					break
				}
			}
			if !ok && lo <= hi {
				bad = "key-missing-though-present-in-every-possible-generation"
			}
		}
		if bad != "" {
			c.violation("conc:batch-gets:"+bad, desc)
		}
	}
}

// keySeeker checks that range scans never miss a committed key: stable keys
// (written before the clients start), churn keys (rewritten all the time,
// never deleted) and growth keys (added one by one, never deleted).
func (c *concCase) keySeeker(r *rng.R, n int) {
	for i := 0; i < n; i++ {
		back := r.Bool()
		async := r.Intn(3) == 0
		which := r.Intn(3)
		w := c.windowOpen()
		switch which {
		case 0:
			keys, vals := c.seekAll(storage.SeekRange{Prefix: []byte(stablePre), Backwards: back}, async)
			if o := checkOrder(keys, back); o != "" {
				c.violation("conc:stable-scan:"+o, fmt.Sprintf("scan of stable keys -> %q %q", keys, vals))
			} else if len(keys) != nStable {
				c.violation("conc:scan-misses-committed-key:stable", fmt.Sprintf("scan of stable keys -> %q %q", keys, vals))
			}
		case 1:
			var floor [nChurn]int64
			for j := range floor {
				floor[j] = c.churned[j].Load()
			}
			keys, vals := c.seekAll(storage.SeekRange{Prefix: []byte(churnPre), Backwards: back}, async)
			desc := fmt.Sprintf("scan of rewritten keys -> %q %q, versions committed before %v", keys, vals, floor)
			if o := checkOrder(keys, back); o != "" {
				c.violation("conc:rewritten-scan:"+o, desc)
				break
			}
			if len(keys) != nChurn {
				c.violation("conc:scan-misses-committed-key:rewritten", desc)
				break
			}
			for j, k := range keys {
				idx, _ := strconv.Atoi(strings.TrimPrefix(k, churnPre))
				if int64(genOf(vals[j])) < floor[idx] {
					c.violation("conc:scan-returns-stale-value:rewritten", desc)
				}
			}
		default:
			floor := int(c.grown.Load())
			start := []byte{}
			if r.Intn(3) == 0 && floor > 2 && !back {
				start = []byte(fmt.Sprintf("%04d", 1+r.Intn(floor)))
			}
			first := 1
			if len(start) > 0 {
				first, _ = strconv.Atoi(string(start))
			}
			keys, vals := c.seekAll(storage.SeekRange{Prefix: []byte(growPre), Start: start, Backwards: back}, async)
			desc := fmt.Sprintf("scan of growing keys from %q (backwards=%v) -> %d keys %q, committed before: 1..%d", start, back, len(keys), keys, floor)
			if o := checkOrder(keys, back); o != "" {
				c.violation("conc:growing-scan:"+o, desc)
				break
			}
			seen := map[int]bool{}
			for j, k := range keys {
				g, _ := strconv.Atoi(strings.TrimPrefix(k, growPre))
				seen[g] = true
				if vals[j] != "w"+strconv.Itoa(g) {
					c.violation("conc:growing-scan:wrong-value", desc)
				}
			}
			for g := first; g <= floor; g++ {
				if !seen[g] {
					c.violation("conc:scan-misses-committed-key:growing", desc+fmt.Sprintf("; key %d missing", g))
					break
				}
			}
		}
		if w || c.windowOpen() {
			c.inWin.Add(1)
		}
		c.run.Obs("conc_key_scans", 1)
	}
}

func runConcCase(run *ev.Run, idx int, tmp string) {
	id := fmt.Sprint("hist", idx)
	r := rng.New(uint64(idx) + 19_000_000)
	c := &concCase{id: id, run: run, kind: "mem"}
	kind := "mem"
	switch r.Intn(10) {
	case 0:
		kind = "bolt"
	case 1:
		kind = "leveldb"
	}
	c.kind = kind
	depth := 1 + r.Intn(2)
	nWriters := 1
	if r.Intn(4) == 0 {
		nWriters = 2
	}
	maxPause := []int{0, 20, 100, 300, 1000}[r.Intn(5)]
	failPct := []int{0, 0, 0, 15, 40}[r.Intn(5)]
	dir := filepath.Join(tmp, id)
	base, err := openBase(kind, dir)
	if err != nil {
		run.Inconclusive("cannot open %s backend for %s: %v", kind, id, err)
		return
	}
	rp := &replica{base: base, dir: dir}
	defer rp.close()
	var lower storage.Store = base
	for d := 0; d < depth; d++ {
		sl := &slowStore{Store: lower}
		for i := 0; i < 16; i++ {
			p := time.Duration(0)
			if maxPause > 0 && r.Intn(3) != 0 {
				p = time.Duration(1+r.Intn(maxPause)) * time.Microsecond
			}
			sl.pauses = append(sl.pauses, p)
		}
		if failPct > 0 {
			for i := 0; i < 23; i++ {
				sl.fails = append(sl.fails, r.Intn(100) < failPct)
			}
		}
		c.slows = append(c.slows, sl)
		l := storage.NewMemCachedStore(sl)
		c.layers = append(c.layers, l)
		lower = l
	}
	c.top = c.layers[depth-1]
	c.shape = fmt.Sprintf("backend=%s layers=%d writers=%d max-pause=%dus write-failures=%d%%", kind, depth, nWriters, maxPause, failPct)
	c.notes = append(c.notes, c.shape)
	for i := 0; i < nStable; i++ {
		c.top.Put([]byte(stablePre+strconv.Itoa(i)), []byte("s"))
	}
	for j := 0; j < nChurn; j++ {
		c.top.Put([]byte(churnPre+strconv.Itoa(j)), []byte("u0"))
	}

	var clients, flushers sync.WaitGroup
	stop := make(chan struct{})
	var flushes, flushErr atomic.Int64
	seedOf := func(k int) *rng.R { return rng.New(uint64(idx)*64 + uint64(k) + 29_000_000) }
	// two flushers, as on a node where the periodic persist and the state-sync
	// module's own flushes meet: flushes of one layer may overlap in time
	for fk := 0; fk < 2; fk++ {
		flushers.Add(1)
		go func() {
			defer flushers.Done()
			fr := seedOf(0)
			if fk == 1 {
				fr = rng.New(uint64(idx)*64 + 29_900_000)
			}
			for {
				select {
				case <-stop:
					return
				default:
				}
				l := c.layers[fr.Intn(depth)]
				var n int
				var err error
				if fr.Intn(8) == 0 {
					n, err = l.PersistSync()
				} else {
					n, err = l.Persist()
				}
				if err != nil && !errors.Is(err, errInjectedWriteFailure) {
					flushErr.Add(1)
				}
				if n > 0 {
					flushes.Add(1)
				}
				if fr.Intn(2) == 0 {
					time.Sleep(time.Duration(fr.Intn(60)) * time.Microsecond)
				} else {
					runtime.Gosched()
				}
			}
		}()
	}
	nW, nR := ev.Pick(90, 120), ev.Pick(60, 80)
	spawn := func(f func()) {
		clients.Add(1)
		go func() { defer clients.Done(); f() }()
	}
	for w := 0; w < nWriters; w++ {
		spawn(func() { c.writer(w, seedOf(1+w), nW/nWriters, w == 0) })
	}
	for k := 0; k < 3; k++ {
		spawn(func() { c.reader(10+k, seedOf(10+k), nR) })
	}
	spawn(func() { c.batchSeeker(seedOf(20), nR/2) })
	spawn(func() { c.batchGetter(seedOf(21), nR/4) })
	spawn(func() { c.keySeeker(seedOf(22), nR/2) })
	done := make(chan struct{})
	go func() { clients.Wait(); close(done) }()
	select {
	case <-done:
	case <-time.After(120 * time.Second):
		run.Inconclusive("%s: clients did not finish within 120 s (%s)", id, c.shape)
		close(stop)
		return
	}
	close(stop)
	flushers.Wait()
	if flushErr.Load() > 0 {
		c.violation("conc:persist-error", fmt.Sprint(flushErr.Load(), " Persist calls failed"))
	}
	// After the last flush the store is quiescent: final reads must see the last writes.
	for _, sl := range c.slows {
		sl.fails = nil
	}
	for _, l := range c.layers[1:] {
		_, _ = l.Persist()
	}
	_, _ = c.layers[0].Persist()

	c.mu.Lock()
	ops := append([]porcupine.Operation(nil), c.ops...)
	c.mu.Unlock()
	res, info := porcupine.CheckOperationsVerbose(registerModel, ops, 30*time.Second)
	switch res {
	case porcupine.Illegal:
		// Write out the offending key's history.
		var lines []string
		for pi, part := range info.PartialLinearizationsOperations() {
			if pi > 3 {
				break
			}
			longest := 0
			for _, p := range part {
				longest = max(longest, len(p))
			}
			lines = append(lines, fmt.Sprintf("partition %d: longest linearizable prefix %d ops", pi, longest))
		}
		sort.Slice(ops, func(i, j int) bool { return ops[i].Call < ops[j].Call })
		for _, o := range ops {
			lines = append(lines, fmt.Sprintf("[%d,%d] client %d %s", o.Call, o.Return, o.ClientId, registerModel.DescribeOperation(o.Input, o.Output)))
		}
		c.mu.Lock()
		c.notes = append(c.notes, lines...)
		c.mu.Unlock()
		c.violation("conc:register-history-not-linearizable", fmt.Sprintf("%d Get/Put/Delete events on %d keys under continuous Persist (%s) have no linearization", len(ops), len(registerKeys), c.shape))
	case porcupine.Unknown:
		run.Inconclusive("%s: porcupine timed out on %d events", id, len(ops))
	}
	var wins, failed int64
	for _, s := range c.slows {
		wins += s.windows.Load()
		failed += s.failed.Load()
	}
	run.Obs("conc_injected_lower_store_write_failures", failed)
	run.Obs("conc_register_events", int64(len(ops)))
	run.Obs("conc_flushes_of_nonempty_layers", flushes.Load())
	run.Obs("conc_lower_store_write_windows", wins)
	run.Obs("conc_reads_overlapping_a_write_window", c.inWin.Load())
	run.Obs("conc_histories_checked_by_porcupine", 1)
	h := sha256.New()
	for _, o := range ops {
		fmt.Fprintf(h, "%d %v %v|", o.ClientId, o.Input, o.Output)
	}
	run.Case(fmt.Sprintf("%s %x", c.shape, h.Sum(nil)[:8]), c.inWin.Load() > 0 && flushes.Load() > 0)
	if idx < 2 {
		run.Sample(map[string]any{"case": id, "shape": c.shape, "register_events": len(ops), "flushes": flushes.Load(), "reads_overlapping_write_window": c.inWin.Load()})
	}
}

func runConcPart(t *testing.T, run *ev.Run) {
	tmp := t.TempDir()
	n := ev.Pick(200, 5000)
	par := max(2, runtime.NumCPU()/4)
	var wg sync.WaitGroup
	ch := make(chan int)
	for w := 0; w < par; w++ {
		wg.Add(1)
		go func() {
			defer wg.Done()
			for i := range ch {
				if run.Want(fmt.Sprint("hist", i)) {
					runConcCase(run, i, tmp)
				}
			}
		}()
	}
	for i := 0; i < n; i++ {
		ch <- i
	}
	close(ch)
	wg.Wait()
}

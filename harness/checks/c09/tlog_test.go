package c09

import (
	"encoding/binary"
	"fmt"
	"math/big"
	"path/filepath"
	"runtime"

	"github.com/nspcc-dev/neo-go/pkg/core/state"
	"github.com/nspcc-dev/neo-go/pkg/core/storage"
	"github.com/nspcc-dev/neo-go/pkg/util"
	"github.com/nspcc-dev/neo-go/verifharness/vlib/ev"
	"github.com/nspcc-dev/neo-go/verifharness/vlib/refmap"
	"github.com/nspcc-dev/neo-go/verifharness/vlib/rng"
)

// The transfer-log scenario observes the same store through its production
// dao-level caller: dao.SeekNEP17TransferLog / SeekNEP11TransferLog issue a
// backward Seek with Prefix = kind|account and Start = 8-byte timestamp over
// keys kind|account|timestamp|4-byte batch index - every batch of the newest
// timestamp is a key that extends Prefix+Start.

var tlogTimes = []uint64{0, 1, 2, 255, 256, 257, 1<<32 - 1, 1 << 32, 1 << 63, ^uint64(0) - 1, ^uint64(0)}

type tlogCase struct {
	*seqCase
	accs     []util.Uint160
	times    []uint64
	version  int
	keyOf    map[int]string // version -> batch key
	sizeOf   map[int]int    // version -> transfers in the batch
	ntlogAsk int
}

func tlogKey(nep11 bool, acc util.Uint160, ts uint64, idx uint32) []byte {
	k := make([]byte, 1+util.Uint160Size+12)
	k[0] = byte(storage.STNEP17Transfers)
	if nep11 {
		k[0] = byte(storage.STNEP11Transfers)
	}
	copy(k[1:], acc.BytesBE())
	binary.BigEndian.PutUint64(k[1+util.Uint160Size:], ts)
	binary.BigEndian.PutUint32(k[1+util.Uint160Size+8:], idx)
	return k
}

func txOf(version, pos int) util.Uint256 {
	var h util.Uint256
	binary.LittleEndian.PutUint32(h[:], uint32(version))
	binary.LittleEndian.PutUint32(h[4:], uint32(pos))
	return h
}

func (c *tlogCase) ask(target int, nep11 bool, acc util.Uint160, ts uint64) ([][]string, []string) {
	pre := tlogKey(nep11, acc, 0, 0)[:1+util.Uint160Size]
	var start [8]byte
	binary.BigEndian.PutUint64(start[:], ts)
	q := &query{api: apiTlog, target: target, rng: refmap.Range{Prefix: pre, Start: start[:], Backwards: true}}
	view := c.m.View(target, 0)
	answers := make([][]string, len(c.reps))
	classes := make([]string, len(c.reps))
	fails := map[string]string{}
	knownSig := ""
	var want []refmap.KV
	shown := map[string]any{"query": fmt.Sprintf("dao.Seek%sTransferLog(acc=%x, newestTimestamp=%d) on L%d", map[bool]string{false: "NEP17", true: "NEP11"}[nep11], acc.BytesBE()[:2], ts, target)}
	for i, rp := range c.reps {
		if rp.dead {
			continue
		}
		type tr struct{ v, p int }
		var trs []tr
		var err error
		if nep11 {
			err = rp.daos[target].SeekNEP11TransferLog(acc, ts, func(t *state.NEP11Transfer) (bool, error) {
				trs = append(trs, tr{int(binary.LittleEndian.Uint32(t.Tx[:])), int(binary.LittleEndian.Uint32(t.Tx[4:]))})
				return true, nil
			})
		} else {
			err = rp.daos[target].SeekNEP17TransferLog(acc, ts, func(t *state.NEP17Transfer) (bool, error) {
				trs = append(trs, tr{int(binary.LittleEndian.Uint32(t.Tx[:])), int(binary.LittleEndian.Uint32(t.Tx[4:]))})
				return true, nil
			})
		}
		if err != nil {
			fails[rp.kind] = "dao-transfer-log:error"
			shown[rp.kind+"-error"] = err.Error()
			continue
		}
		// Regroup the transfers into batches (each batch is delivered newest first).
		var got []refmap.KV
		garbled := false
		for j := 0; j < len(trs); {
			v := trs[j].v
			n, ok := c.sizeOf[v]
			if !ok || j+n > len(trs) {
				garbled = true
				break
			}
			for p := 0; p < n; p++ {
				if trs[j+p].v != v || trs[j+p].p != n-1-p {
					garbled = true
				}
			}
			got = append(got, refmap.KV{K: c.keyOf[v], V: []byte(fmt.Sprint("b", v))})
			j += n
		}
		answers[i] = append([]string{}, canon(got, cmpBoth)...)
		shown[rp.kind] = answers[i]
		if garbled {
			fails[rp.kind] = "dao-transfer-log:batch-content-garbled"
			shown[rp.kind+"-transfers"] = fmt.Sprint(trs)
			continue
		}
		var sig string
		var known bool
		sig, known, want = classify(q, got, view)
		if sig == "" {
			continue
		}
		if known {
			classes[i] = sig
			knownSig = worse(knownSig, sig)
			continue
		}
		fails[rp.kind] = "dao-transfer-log-differs-from-ordered-map|" + sig
	}
	if want == nil {
		want = refmap.Seek(view, q.rng, true)
	}
	c.run.Obs("transfer_log_answers_compared_with_model", int64(len(c.reps)))
	c.run.Obs("queries_"+apiNames[apiTlog], 1)
	for _, kv := range want {
		if q.rng.Extends(kv.K) {
			c.run.Obs("transfer_log_queries_at_a_batch_timestamp", 1)
			break
		}
	}
	c.observeMerge(q, want)
	shown["model"] = canon(want, cmpBoth)
	if knownSig != "" {
		c.violation(knownSig, fmt.Sprintf("%s (keys are kind|account|timestamp|index, values batch versions): model=%v mem=%v bolt=%v leveldb=%v", shown["query"], shown["model"], shown["mem"], shown["bolt"], shown["leveldb"]), shown)
	}
	c.suspect(fails)
	if len(fails) > 0 {
		var first string
		for _, k := range backendKinds {
			if s, ok := fails[k]; ok {
				first = s
				break
			}
		}
		sg, how := splitSig(first)
		c.violation(sg+":"+kindsOf(fails), fmt.Sprintf("[%s] %v", how, shown), shown)
	}
	return answers, classes
}

type tlogQ struct {
	target int
	nep11  bool
	acc    util.Uint160
	ts     uint64
}

func (c *tlogCase) genQ(minTarget int) tlogQ {
	r := c.r
	top := c.sh.depth - 1
	q := tlogQ{target: top, nep11: r.Intn(4) == 0, acc: c.accs[r.Intn(len(c.accs))], ts: c.times[r.Intn(len(c.times))]}
	if r.Intn(4) == 0 {
		q.target = minTarget + r.Intn(top-minTarget+1)
	}
	switch r.Intn(6) {
	case 0:
		q.ts++
	case 1:
		q.ts--
	}
	return q
}

func (c *tlogCase) step() {
	r := c.r
	top := c.sh.depth - 1
	li := top
	if r.Intn(3) == 0 {
		li = r.Intn(c.sh.depth)
	}
	nep11 := r.Intn(4) == 0
	acc := c.accs[r.Intn(len(c.accs))]
	ts := c.times[r.Intn(len(c.times))]
	idx := uint32(r.Intn(3))
	if r.Intn(8) == 0 {
		idx = ^uint32(0) - uint32(r.Intn(2))
	}
	key := tlogKey(nep11, acc, ts, idx)
	switch x := r.Intn(10); {
	case x < 6:
		c.version++
		n := 1 + r.Intn(3)
		c.keyOf[c.version] = string(key)
		c.sizeOf[c.version] = n
		c.log = append(c.log, fmt.Sprintf("PutTokenTransferLog L%d nep11=%v acc=%x ts=%d index=%d: batch version %d with %d transfers (key %x)", li, nep11, acc.BytesBE()[:2], ts, idx, c.version, n, key))
		c.kinds = append(c.kinds, "putlog")
		for _, rp := range c.live() {
			lg := new(state.TokenTransferLog)
			for p := 0; p < n; p++ {
				t17 := state.NEP17Transfer{Asset: 1, Counterparty: util.Uint160{9}, Amount: big.NewInt(int64(p + 1)), Block: uint32(c.version), Timestamp: ts, Tx: txOf(c.version, p)}
				var err error
				if nep11 {
					err = lg.Append(&state.NEP11Transfer{NEP17Transfer: t17, ID: []byte{byte(p)}})
				} else {
					err = lg.Append(&t17)
				}
				if err != nil {
					panic(err)
				}
			}
			rp.daos[li].PutTokenTransferLog(acc, ts, idx, nep11, lg)
		}
		c.m.Put(li, string(key), []byte(fmt.Sprint("b", c.version)))
	case x < 7:
		c.log = append(c.log, fmt.Sprintf("Delete L%d key %x", li, key))
		c.kinds = append(c.kinds, "del")
		for _, rp := range c.live() {
			rp.stores[li].Delete(key)
		}
		c.m.Put(li, string(key), nil)
	default:
		pl := r.Intn(c.sh.depth)
		mode := "Persist"
		if c.sh.priv && pl == top && r.Bool() {
			mode = "PersistPrivate"
		}
		c.persistTlog(pl, mode)
	}
	c.run.Obs("operations", 1)
	for i := 0; i < 6; i++ {
		q := c.genQ(0)
		c.ask(q.target, q.nep11, q.acc, q.ts)
	}
}

func (c *tlogCase) persistTlog(li int, mode string) {
	var qs []tlogQ
	for i := 0; i < 6; i++ {
		qs = append(qs, c.genQ(li))
	}
	before := make([][][]string, len(qs))
	beforeCls := make([][]string, len(qs))
	for i, q := range qs {
		before[i], beforeCls[i] = c.ask(q.target, q.nep11, q.acc, q.ts)
	}
	n := len(c.m.Layers[li])
	c.log = append(c.log, fmt.Sprintf("%s L%d (%d entries)", mode, li, n))
	c.kinds = append(c.kinds, mode)
	pre := c.dumpBases(li == 0)
	for _, rp := range c.live() {
		var err error
		if mode == "Persist" {
			_, err = rp.stores[li].Persist()
		} else {
			rp.stores[li-1].PersistPrivate(rp.stores[li])
		}
		if err != nil {
			c.violation("persist-error:"+rp.kind, err.Error(), nil)
		}
		if c.sh.priv && li == c.sh.depth-1 {
			rp.renewPrivateTop()
		}
	}
	c.m.Flush(li)
	c.audit(li == 0, "persist", pre)
	if n > 0 {
		c.flushed = true
		c.run.Obs("flushes_of_nonempty_layers", 1)
	}
	for i, q := range qs {
		after, afterCls := c.ask(q.target, q.nep11, q.acc, q.ts)
		for j := range after {
			if before[i][j] == nil || after[j] == nil {
				continue
			}
			c.run.Obs("flush_invariance_pairs", 1)
			if !eqStrs(before[i][j], after[j]) {
				sig := "flush-changes-answer"
				if worse(beforeCls[i][j], afterCls[j]) != "" {
					sig = sigExtDepends
				}
				c.violation(sig, fmt.Sprintf("dao transfer log query (acc=%x ts=%d nep11=%v L%d) on %s: before %s of L%d %v, after %v", q.acc.BytesBE()[:2], q.ts, q.nep11, q.target, c.reps[j].kind, mode, li, before[i][j], after[j]),
					map[string]any{"backend": c.reps[j].kind, "before": before[i][j], "after": after[j]})
			}
		}
	}
}

func runTlogCase(run *ev.Run, idx int, tmp string) {
	id := fmt.Sprint("tlog", idx)
	r := rng.New(uint64(idx) + 39_000_000)
	sh := shape{depth: 1 + r.Intn(3), viaDAO: true, stPref: storage.STStorage}
	if sh.depth >= 2 && r.Intn(3) == 0 {
		sh.priv = true
	}
	sh.h = [2]int{5, 6}
	c := &tlogCase{seqCase: &seqCase{id: id, sh: sh, r: r, m: refmap.New(sh.depth), run: run, cover: []byte{byte(storage.STNEP11Transfers), byte(storage.STNEP17Transfers)}}, keyOf: map[int]string{}, sizeOf: map[int]int{}}
	c.valOf = func(v []byte) string {
		if len(v) < 9 {
			return "malformed"
		}
		return fmt.Sprint("b", binary.LittleEndian.Uint32(v[5:9]))
	}
	c.accs = []util.Uint160{{1, 2, 3}, {0xff, 0xff, 0xff, 0xff, 0xff, 0xff, 0xff, 0xff, 0xff, 0xff, 0xff, 0xff, 0xff, 0xff, 0xff, 0xff, 0xff, 0xff, 0xff, 0xff}}
	for len(c.times) < 4 {
		t := tlogTimes[r.Intn(len(tlogTimes))]
		dup := false
		for _, x := range c.times {
			dup = dup || x == t
		}
		if !dup {
			c.times = append(c.times, t)
		}
	}
	c.log = append(c.log, fmt.Sprintf("transfer-log scenario, stack: depth=%d privateTop=%v, timestamps %v", sh.depth, sh.priv, c.times))
	defer func() {
		for _, rp := range c.reps {
			rp.close()
		}
	}()
	for _, kind := range backendKinds {
		dir := ""
		if kind != "mem" {
			dir = filepath.Join(tmp, fmt.Sprintf("%s-%s", id, kind))
		}
		rp, err := newReplica(kind, sh, dir)
		if err != nil {
			run.Inconclusive("cannot open %s backend for %s: %v", kind, id, err)
			return
		}
		c.reps = append(c.reps, rp)
	}
	func() {
		defer func() {
			if p := recover(); p != nil {
				buf := make([]byte, 4096)
				buf = buf[:runtime.Stack(buf, false)]
				c.violation("panic-in-store-api", fmt.Sprint(p), map[string]any{"stack": string(buf)})
			}
		}()
		for op := 0; op < ev.Pick(25, 30); op++ {
			c.step()
		}
		for li := sh.depth - 1; li >= 0; li-- {
			mode := "Persist"
			if sh.priv && li == sh.depth-1 {
				mode = "PersistPrivate"
			}
			c.persistTlog(li, mode)
		}
	}()
	run.Case(fmt.Sprint("tlog", sh.depth, sh.priv, c.kinds), c.flushed && (c.merged || c.hidden))
	if idx < 1 {
		run.Sample(map[string]any{"case": id, "ops": c.log})
	}
}

package c09

import (
	"fmt"
	"testing"

	"github.com/nspcc-dev/neo-go/pkg/core/storage"
	"github.com/nspcc-dev/neo-go/pkg/core/storage/dbconfig"
	"github.com/nspcc-dev/neo-go/verifharness/vlib/ev"
)

type call struct {
	kind string
	key  []byte
	rng  storage.SeekRange
	m, s map[string][]byte
	keep []bool
	cont []bool
}

type tracer struct {
	storage.Store
	calls []call
}

func (t *tracer) Get(k []byte) ([]byte, error) {
	t.calls = append(t.calls, call{kind: "get", key: append([]byte{}, k...)})
	return t.Store.Get(k)
}
func (t *tracer) PutChangeSet(m, s map[string][]byte) error {
	cp := func(x map[string][]byte) map[string][]byte {
		o := map[string][]byte{}
		for k, v := range x {
			o[k] = v
		}
		return o
	}
	t.calls = append(t.calls, call{kind: "put", m: cp(m), s: cp(s)})
	return t.Store.PutChangeSet(m, s)
}
func (t *tracer) SeekGC(r storage.SeekRange, f func(k, v []byte) (bool, bool)) error {
	c := call{kind: "gc", rng: r}
	err := t.Store.SeekGC(r, func(k, v []byte) (bool, bool) {
		a, b := f(k, v)
		c.keep = append(c.keep, a)
		c.cont = append(c.cont, b)
		return a, b
	})
	t.calls = append(t.calls, c)
	return err
}

func replay(t *testing.T, calls []call, quiet bool) string {
	l, err := storage.NewLevelDBStore(dbconfig.LevelDBOptions{DataDirectoryPath: t.TempDir()})
	if err != nil {
		t.Fatal(err)
	}
	defer l.Close()
	for _, c := range calls {
		switch c.kind {
		case "get":
			l.Get(c.key)
		case "put":
			if err := l.PutChangeSet(c.m, c.s); err != nil {
				t.Fatal(err)
			}
		case "gc":
			i := 0
			if err := l.SeekGC(c.rng, func(k, v []byte) (bool, bool) { i++; return c.keep[i-1], c.cont[i-1] }); err != nil {
				t.Fatal(err)
			}
		}
	}
	s := ""
	l.Seek(storage.SeekRange{Prefix: []byte{0x70}}, func(k, v []byte) bool { s += fmt.Sprintf(" %x=%s", k, v); return true })
	return s
}

func TestExp(t *testing.T) {
	run := ev.Start("C09X", "x")
	debugSkip = func(q *query) bool { return true }
	var tr *tracer
	debugWrap = func(kind string, s storage.Store) storage.Store {
		if kind == "leveldb" {
			tr = &tracer{Store: s}
			return tr
		}
		return s
	}
	var cut []call
	debugStep = func(c *seqCase) {
		if len(c.log) == 19 {
			cut = append([]call{}, tr.calls...)
			x := ""
			tr.Store.Seek(storage.SeekRange{Prefix: []byte{0x70}}, func(k, v []byte) bool { x += fmt.Sprintf(" %x=%s", k, v); return true })
			fmt.Println("harness state after lossy persist:", x)
		}
	}
	runSeqCase(run, 777, t.TempDir())
	fmt.Println("calls", len(cut))
	bad := replay(t, cut, false)
	fmt.Println("replayed:", bad)
	return
	// minimise: drop calls one at a time while the final content stays the same (the lossy one)
	cur := cut
	for i := 0; i < len(cur); {
		cand := append(append([]call{}, cur[:i]...), cur[i+1:]...)
		if replay(t, cand, true) == bad {
			cur = cand
		} else {
			i++
		}
	}
	fmt.Println("minimal calls", len(cur))
	for _, c := range cur {
		switch c.kind {
		case "get":
			fmt.Printf("  Get %x\n", c.key)
		case "put":
			fmt.Printf("  PutChangeSet mem=%d stor=", len(c.m))
			for k, v := range c.s {
				fmt.Printf("%x=%q ", k, v)
			}
			fmt.Println()
		case "gc":
			fmt.Printf("  SeekGC %x %x back=%v keep=%v cont=%v\n", c.rng.Prefix, c.rng.Start, c.rng.Backwards, c.keep, c.cont)
		}
	}
}

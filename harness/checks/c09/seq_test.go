package c09

import (
	"bytes"
	"context"
	"encoding/hex"
	"fmt"
	"github.com/nspcc-dev/bbolt"
	"hash/fnv"
	"os"
	"path/filepath"
	"runtime"
	"sort"
	"strings"
	"sync"
	"sync/atomic"
	"testing"

	"github.com/nspcc-dev/neo-go/pkg/core/dao"
	istorage "github.com/nspcc-dev/neo-go/pkg/core/interop/storage"
	"github.com/nspcc-dev/neo-go/pkg/core/storage"
	"github.com/nspcc-dev/neo-go/pkg/core/storage/dbconfig"
	"github.com/nspcc-dev/neo-go/pkg/vm/stackitem"
	"github.com/nspcc-dev/neo-go/verifharness/vlib/ev"
	"github.com/nspcc-dev/neo-go/verifharness/vlib/refmap"
	"github.com/nspcc-dev/neo-go/verifharness/vlib/rng"
)

// Signatures of the one defect class of the pinned tree this check is expected
// to re-find (DESIGN.md section 6, items 2 and 6): a backward Seek with a
// non-empty Start treats keys that properly extend Prefix+Start differently in
// the in-memory layers (excluded, tombstones included) and in BoltDB/LevelDB
// (included).
const (
	sigExtDepends    = "backward-seek-with-start:keys-extending-prefix+start:answer-depends-on-flush-state-or-backend"
	sigExtResurfaces = "backward-seek-with-start:keys-extending-prefix+start:tombstoned-key-resurfaces"
	sigExtStale      = "backward-seek-with-start:keys-extending-prefix+start:overwritten-key-returns-stale-value"
)

// Signature of a second defect class found by this check: when a scan trims
// the prefix (SeekAsync with cutPrefix - dao.SeekAsync, System.Storage.Find),
// the merge keeps comparing lower-layer keys with the last in-memory key after
// that key has been trimmed and the in-memory items are exhausted, so a
// lower-layer key K is dropped when Prefix+K was the last in-memory key.
const sigCutGhost = "seek-with-prefix-trimming:lower-layer-key-equal-to-trimmed-last-memory-key-omitted"

var backendKinds = []string{"mem", "bolt", "leveldb"}

// boltOpens counts BoltDB opens: every second one uses a bucket of its own.
var boltOpens atomic.Int64

// Key universe: heads select the map inside the memory layers (0x70/0x71 go to
// the contract-storage map, everything else to the generic one) and, for the
// five-byte ones, form a dao-level storage item prefix; suffixes are prefixes
// and extensions of one another and touch the 0x00 / 0xff byte boundaries.
var heads = [][]byte{
	{0x70, 1, 0, 0, 0}, {0x70, 2, 0, 0, 0}, {0x70, 0xff, 0xff, 0xff, 0xff},
	{0x71, 1, 0, 0, 0}, {0x70}, {0x01}, {0x73}, {0xff}, {0x6f}, {0x72, 0xff},
}

var suffixes = [][]byte{{}, []byte("a"), []byte("ab"), []byte("abc"), []byte("ab\x00"), []byte("ab\xff"), []byte("ac"),
	[]byte("b"), []byte("b\xff\xff"), {0}, {0xff}, {0xff, 0xff}}

var moreStarts = [][]byte{[]byte("abd"), []byte("a\xff"), []byte("abc\x00"), []byte("c"), {0xff, 0xff, 0xff}, []byte("aa"), []byte("bb"), {0, 0}}

var seekPres = [][]byte{{}, {}, []byte("a"), []byte("ab"), []byte("abc"), []byte("b"), {0xff}, []byte("b\xff"), []byte("ab\xff"), {0}}

const (
	apiSeek = iota
	apiSeekStop
	apiAsync
	apiAsyncCut
	apiAsyncCancel
	apiDaoSeek
	apiDaoAsync
	apiFind
	apiTlog
	apiDaoStep
	apiFindStep
	apiCount
)

var apiNames = []string{"Seek", "Seek-early-stop", "SeekAsync", "SeekAsync-cut", "SeekAsync-cancel", "dao.Seek", "dao.SeekAsync", "Storage.Find-iterator", "dao.SeekNEPxxTransferLog",
	"dao.SeekAsync-stepwise-with-interleaved-dao-use", "Storage.Find-iterator-stepwise-with-interleaved-dao-use"}

const (
	cmpBoth = iota
	cmpKeys
	cmpVals
)

type shape struct {
	depth  int
	priv   bool
	viaDAO bool
	stPref storage.KeyPrefix
	h      [2]int
}

func (s shape) String() string {
	return fmt.Sprintf("depth=%d privateTop=%v viaDAO=%v heads=%x,%x", s.depth, s.priv, s.viaDAO, heads[s.h[0]], heads[s.h[1]])
}

type query struct {
	api    int
	target int // layer index, -1 = the backend itself
	rng    refmap.Range
	stop   int
	opts   int64
	cmp    int
	head   []byte // five-byte dao head for the dao-level APIs
	// diskOnly marks a range with an empty Prefix, which is documented as
	// unsupported by MemoryStore / MemCachedStore: asked of BoltDB and LevelDB only.
	diskOnly bool
	// script[i] lists what else is done with the same dao before the i-th
	// item is pulled from a stepwise iterator (script[0]: right after opening).
	script [][]inter
}

// inter is one use of the dao between two steps of an open iterator.
type inter struct {
	kind int // 0 GetStorageItem, 1 PutStorageItem / DeleteStorageItem, 2 full dao.Seek, 3 open a second iterator and pull one item
	head []byte
	sfx  []byte
	val  []byte
}

func (a inter) String() string {
	return fmt.Sprintf("%s(%x|%x %q)", []string{"GetStorageItem", "Put/DeleteStorageItem", "dao.Seek", "second-SeekAsync"}[a.kind], a.head, a.sfx, a.val)
}

func headID(h []byte) int32 {
	return int32(uint32(h[1]) | uint32(h[2])<<8 | uint32(h[3])<<16 | uint32(h[4])<<24)
}

// interleave uses dao d for something else while an iterator over it is open.
func interleave(d *dao.Simple, acts []inter, cleanup *[]func()) {
	for _, a := range acts {
		id := headID(a.head)
		switch a.kind {
		case 0:
			_ = d.GetStorageItem(id, a.sfx)
		case 1:
			if a.val == nil {
				d.DeleteStorageItem(id, a.sfx)
			} else {
				d.PutStorageItem(id, a.sfx, a.val)
			}
		case 2:
			d.Seek(id, storage.SeekRange{Prefix: bytes.Clone(a.sfx)}, func(k, v []byte) bool { return true })
		default:
			ctx, cancel := context.WithCancel(context.Background())
			ch := d.SeekAsync(ctx, id, storage.SeekRange{Prefix: bytes.Clone(a.sfx)})
			<-ch
			*cleanup = append(*cleanup, func() {
				cancel()
				for range ch { //nolint:revive // drain
				}
			})
		}
	}
}

func (q *query) String() string {
	dir := "fwd"
	if q.rng.Backwards {
		dir = "bwd"
	}
	s := fmt.Sprintf("%s target=L%d prefix=%x start=%x %s depth=%d", apiNames[q.api], q.target, q.rng.Prefix, q.rng.Start, dir, q.rng.SearchDepth)
	if q.stop > 0 {
		s += fmt.Sprint(" stop-after=", q.stop)
	}
	if q.api == apiFind || q.api == apiFindStep {
		s += fmt.Sprintf(" opts=%#x", q.opts)
	}
	for i, acts := range q.script {
		for _, a := range acts {
			s += fmt.Sprintf(" | before pull %d: %s", i, a)
		}
	}
	return s
}

type replica struct {
	kind   string
	sh     shape
	base   storage.Store
	stores []*storage.MemCachedStore
	daos   []*dao.Simple
	dir    string
	// dead is set once the backend's content was found to differ from the
	// model right after a write: the divergence is reported once, under its own
	// signature, and the replica takes no further part in the case.
	dead bool
}

func openBase(kind, dir string) (storage.Store, error) {
	switch kind {
	case "mem":
		return storage.NewMemoryStore(), nil
	case "bolt":
		if boltOpens.Add(1)%2 == 0 {
			// a store of its own bucket in a database file whose default bucket
			// belongs to another store (and holds decoy keys that must never show)
			def, err := storage.NewBoltDBStore(dbconfig.BoltDBOptions{FilePath: filepath.Join(dir, "bolt.db")})
			if err != nil {
				return nil, err
			}
			decoy := map[string][]byte{}
			for i := 0; i < 40; i++ {
				decoy[string([]byte{byte(i * 6), byte(i), 0x7f})] = []byte{0xde, 0xc0, byte(i)}
			}
			if err := def.PutChangeSet(decoy, map[string][]byte{"\x70decoy": {1}, "\x70": {2}}); err != nil {
				return nil, err
			}
			if err := def.Close(); err != nil {
				return nil, err
			}
			db, err := bbolt.Open(filepath.Join(dir, "bolt.db"), 0o600, nil)
			if err != nil {
				return nil, err
			}
			return storage.NewBoltDBStoreFromBucket(db, []byte("side"))
		}
		return storage.NewBoltDBStore(dbconfig.BoltDBOptions{FilePath: filepath.Join(dir, "bolt.db")})
	default:
		return storage.NewLevelDBStore(dbconfig.LevelDBOptions{DataDirectoryPath: filepath.Join(dir, "ldb")})
	}
}

func newReplica(kind string, sh shape, dir string) (*replica, error) {
	base, err := openBase(kind, dir)
	if err != nil {
		return nil, err
	}
	rp := &replica{kind: kind, sh: sh, base: base, dir: dir}
	if sh.viaDAO {
		d := dao.NewSimple(base, false)
		d.Version.StoragePrefix = sh.stPref
		for i := 0; i < sh.depth; i++ {
			if i > 0 {
				if sh.priv && i == sh.depth-1 {
					d = d.GetPrivate()
				} else {
					d = d.GetWrapped()
				}
			}
			rp.daos = append(rp.daos, d)
			rp.stores = append(rp.stores, d.Store)
		}
		return rp, nil
	}
	var lower storage.Store = base
	for i := 0; i < sh.depth; i++ {
		var s *storage.MemCachedStore
		if sh.priv && i == sh.depth-1 {
			s = storage.NewPrivateMemCachedStore(lower)
		} else {
			s = storage.NewMemCachedStore(lower)
		}
		rp.stores = append(rp.stores, s)
		lower = s
	}
	return rp, nil
}

func (rp *replica) close() {
	_ = rp.base.Close()
	if rp.dir != "" {
		_ = os.RemoveAll(rp.dir)
	}
}

// renewPrivateTop replaces the private top layer, which is disposed by its Persist.
func (rp *replica) renewPrivateTop() {
	t := rp.sh.depth - 1
	if rp.sh.viaDAO {
		rp.daos[t] = rp.daos[t-1].GetPrivate()
		rp.stores[t] = rp.daos[t].Store
		return
	}
	rp.stores[t] = storage.NewPrivateMemCachedStore(rp.stores[t-1])
}

func (rp *replica) store(li int) storage.Store {
	if li < 0 {
		return rp.base
	}
	return rp.stores[li]
}

func isStor(k string) bool {
	return k[0] == byte(storage.STStorage) || k[0] == byte(storage.STTempStorage)
}

func splitMaps(kvs []refmap.KV) (map[string][]byte, map[string][]byte) {
	mem, stor := map[string][]byte{}, map[string][]byte{}
	for _, kv := range kvs {
		if isStor(kv.K) {
			stor[kv.K] = kv.V
		} else {
			mem[kv.K] = kv.V
		}
	}
	return mem, stor
}

func toSR(r refmap.Range) storage.SeekRange {
	return storage.SeekRange{Prefix: bytes.Clone(r.Prefix), Start: bytes.Clone(r.Start), Backwards: r.Backwards, SearchDepth: r.SearchDepth}
}

// exec runs one query against the real stores; keys are returned in full.
func (rp *replica) exec(q *query) (res []refmap.KV, broken string) {
	add := func(k, v []byte) { res = append(res, refmap.KV{K: string(k), V: bytes.Clone(v)}) }
	switch q.api {
	case apiSeek, apiSeekStop:
		rp.store(q.target).Seek(toSR(q.rng), func(k, v []byte) bool {
			add(k, v)
			return q.stop == 0 || len(res) < q.stop
		})
	case apiAsync, apiAsyncCut, apiAsyncCancel:
		ctx, cancel := context.WithCancel(context.Background())
		cut := q.api != apiAsync
		ch := rp.stores[q.target].SeekAsync(ctx, toSR(q.rng), cut)
		stopped := false
		for kv := range ch {
			if stopped {
				continue
			}
			k := kv.Key
			if cut {
				k = append(bytes.Clone(q.rng.Prefix), k...)
			}
			add(k, kv.Value)
			if q.stop > 0 && len(res) == q.stop {
				cancel()
				stopped = true
			}
		}
		cancel()
	case apiDaoSeek, apiDaoAsync, apiFind, apiDaoStep, apiFindStep:
		d := rp.daos[q.target]
		id := headID(q.head)
		rel := q.rng.Prefix[len(q.head):]
		sr := toSR(q.rng)
		sr.Prefix = bytes.Clone(rel)
		full := func(trimmed []byte) []byte { return append(bytes.Clone(q.rng.Prefix), trimmed...) }
		var cleanup []func()
		step := 0
		between := func() { // what happens to the dao before the next item is pulled
			if step < len(q.script) {
				interleave(d, q.script[step], &cleanup)
			}
			step++
		}
		switch q.api {
		case apiDaoSeek:
			d.Seek(id, sr, func(k, v []byte) bool {
				add(full(k), v)
				return q.stop == 0 || len(res) < q.stop
			})
		case apiDaoAsync, apiDaoStep:
			ctx, cancel := context.WithCancel(context.Background())
			ch := d.SeekAsync(ctx, id, sr)
			stopped := false
			for {
				if !stopped {
					between()
				}
				kv, ok := <-ch
				if !ok {
					break
				}
				if stopped {
					continue
				}
				add(full(kv.Key), kv.Value)
				if q.stop > 0 && len(res) == q.stop {
					cancel()
					stopped = true
				}
			}
			cancel()
		default:
			ctx, cancel := context.WithCancel(context.Background())
			it := istorage.NewIterator(d.SeekAsync(ctx, id, sr), rel, q.opts)
			stopped := false
			var items []stackitem.Item
			for {
				if !stopped {
					between()
				}
				if !it.Next() {
					break
				}
				if stopped {
					continue
				}
				// items are kept and decoded only after the iteration is over, the
				// way a contract collecting them into an array (or the RPC server
				// expanding an iterator) uses them: an item must not change once
				// it has been handed out
				items = append(items, it.Value())
				if q.stop > 0 && len(res)+len(items) == q.stop {
					cancel() // what the interop layer does when the execution ends with the iterator open
					stopped = true
				}
			}
			for _, item := range items {
				var k, v []byte
				var err error
				switch {
				case q.opts&istorage.FindKeysOnly != 0:
					k, err = item.TryBytes()
				case q.opts&istorage.FindValuesOnly != 0:
					v, err = item.TryBytes()
				default:
					st, ok := item.Value().([]stackitem.Item)
					if !ok || len(st) != 2 {
						broken = "iterator value is not a pair"
						break
					}
					k, err = st[0].TryBytes()
					if err == nil {
						v, err = st[1].TryBytes()
					}
				}
				if err != nil {
					broken = "iterator value: " + err.Error()
				}
				if q.opts&istorage.FindValuesOnly == 0 {
					if q.opts&istorage.FindRemovePrefix != 0 {
						k = full(k)
					} else {
						k = append(bytes.Clone(q.head), k...)
					}
				}
				add(k, v)
			}
			cancel()
		}
		for _, f := range cleanup {
			f()
		}
	}
	return res, broken
}

func canon(kvs []refmap.KV, mode int) []string {
	out := make([]string, len(kvs))
	for i, kv := range kvs {
		switch mode {
		case cmpKeys:
			out[i] = hex.EncodeToString([]byte(kv.K))
		case cmpVals:
			out[i] = "=" + string(kv.V)
		default:
			out[i] = hex.EncodeToString([]byte(kv.K)) + "=" + string(kv.V)
		}
	}
	return out
}

func eqStrs(a, b []string) bool {
	if len(a) != len(b) {
		return false
	}
	for i := range a {
		if a[i] != b[i] {
			return false
		}
	}
	return true
}

// diffKind names the first way got departs from want (both already cut to the
// requested length).
func diffKind(q *query, got, want []refmap.KV, view map[string][]byte) string {
	if q.cmp == cmpVals {
		return "wrong-values"
	}
	seen := map[string]bool{}
	for i, kv := range got {
		if seen[kv.K] {
			return "duplicate-key"
		}
		seen[kv.K] = true
		if i > 0 {
			c := strings.Compare(got[i-1].K, kv.K)
			if (!q.rng.Backwards && c > 0) || (q.rng.Backwards && c < 0) {
				return "out-of-order"
			}
		}
	}
	wantSet := map[string][]byte{}
	for _, kv := range want {
		wantSet[kv.K] = kv.V
	}
	for _, kv := range got {
		wv, ok := wantSet[kv.K]
		if !ok {
			if _, live := view[kv.K]; !live {
				return "absent-or-deleted-key-returned"
			}
			return "key-outside-range-returned"
		}
		if q.cmp == cmpBoth && !bytes.Equal(wv, kv.V) {
			return "wrong-value"
		}
	}
	for _, kv := range want {
		if !seen[kv.K] {
			return "key-missing"
		}
	}
	return "wrong-order-or-length"
}

// isCut tells whether the API asks the store to trim the prefix off the keys.
func isCut(api int) bool {
	return api == apiAsyncCut || api == apiAsyncCancel || api == apiDaoAsync || api == apiFind || api == apiDaoStep || api == apiFindStep
}

// ghostCands marks the elements of want (in iteration order) whose full key
// equals the *trimmed* form of a key delivered earlier: prefix+K[i] == K[j],
// j < i. These are the keys the second defect class of the pinned tree drops
// (see sigCutGhost).
func ghostCands(want []refmap.KV, prefix []byte) []bool {
	out := make([]bool, len(want))
	for i := range want {
		for j := 0; j < i; j++ {
			if want[j].K == string(prefix)+want[i].K {
				out[i] = true
			}
		}
	}
	return out
}

// dropGhosts removes from want the ghost candidates that got does not contain
// and reports how many were removed.
func dropGhosts(q *query, got, want []refmap.KV) ([]refmap.KV, int) {
	if !isCut(q.api) || len(q.rng.Prefix) == 0 {
		return want, 0
	}
	cands := ghostCands(want, q.rng.Prefix)
	var out []refmap.KV
	n := 0
	if q.cmp == cmpVals {
		// keys are not delivered: align by position
		j := 0
		for i, kv := range want {
			if j < len(got) && bytes.Equal(got[j].V, kv.V) {
				out = append(out, kv)
				j++
			} else if cands[i] {
				n++
			} else {
				out = append(out, kv)
			}
		}
		return out, n
	}
	have := map[string]bool{}
	for _, kv := range got {
		have[kv.K] = true
	}
	for i, kv := range want {
		if cands[i] && !have[kv.K] {
			n++
			continue
		}
		out = append(out, kv)
	}
	return out, n
}

// classify compares one answer with the model. It returns "" when they agree,
// the signature of a known defect class of the pinned tree when the answer
// differs in exactly that way (known = true), and a generic shape otherwise.
func classify(q *query, got []refmap.KV, view map[string][]byte) (sig string, known bool, want []refmap.KV) {
	full := refmap.Seek(view, q.rng, true)
	cut := func(w []refmap.KV) []refmap.KV {
		if q.stop > 0 && len(w) > q.stop {
			return w[:q.stop]
		}
		return w
	}
	want = cut(full)
	if eqStrs(canon(got, q.cmp), canon(want, q.cmp)) {
		return "", false, want
	}
	less, ghosts := dropGhosts(q, got, full)
	if ghosts > 0 && eqStrs(canon(got, q.cmp), canon(cut(less), q.cmp)) {
		return sigCutGhost, true, want
	}
	if q.rng.Backwards && len(q.rng.Start) > 0 && q.stop == 0 && q.cmp == cmpBoth {
		var gotRest, wantRest, gotExt []refmap.KV
		extFirst := true
		for _, kv := range got {
			if q.rng.Extends(kv.K) {
				if len(gotRest) > 0 {
					extFirst = false
				}
				gotExt = append(gotExt, kv)
			} else {
				gotRest = append(gotRest, kv)
			}
		}
		for _, kv := range less {
			if !q.rng.Extends(kv.K) {
				wantRest = append(wantRest, kv)
			}
		}
		ordered := true
		for i := 1; i < len(gotExt); i++ {
			if gotExt[i-1].K <= gotExt[i].K {
				ordered = false
			}
		}
		if extFirst && ordered && eqStrs(canon(gotRest, cmpBoth), canon(wantRest, cmpBoth)) {
			res, stale := false, false
			for _, kv := range gotExt {
				if v, ok := view[kv.K]; !ok {
					res = true
				} else if !bytes.Equal(v, kv.V) {
					stale = true
				}
			}
			switch {
			case res:
				return sigExtResurfaces, true, want
			case stale:
				return sigExtStale, true, want
			default:
				return sigExtDepends, true, want
			}
		}
	}
	dir, st, kind := "forward", "no-start", "scan"
	if q.rng.Backwards {
		dir = "backward"
	}
	if len(q.rng.Start) > 0 {
		st = "with-start"
	}
	if isCut(q.api) {
		kind = "trimming-scan"
	}
	// The part after '|' (how the answer departs) goes to the detail, not to the signature.
	return fmt.Sprintf("seek-differs-from-ordered-map:%s:%s:%s|%s", kind, dir, st, diffKind(q, got, want, view)), false, want
}

// splitSig separates the signature proper from the detail suffix added by classify.
func splitSig(s string) (string, string) {
	if i := strings.IndexByte(s, '|'); i >= 0 {
		return s[:i], s[i+1:]
	}
	return s, ""
}

// worse orders the known-class signatures so that one query reports the most
// telling one.
func worse(a, b string) string {
	rank := func(s string) int {
		switch s {
		case sigExtResurfaces:
			return 4
		case sigExtStale:
			return 3
		case sigCutGhost:
			return 2
		case sigExtDepends:
			return 1
		}
		return 0
	}
	if rank(b) > rank(a) {
		return b
	}
	return a
}

type seqCase struct {
	id      string
	sh      shape
	r       *rng.R
	m       *refmap.Stack
	reps    []*replica
	log     []string
	kinds   []string
	run     *ev.Run
	nvio    int
	flushed bool
	merged  bool
	hidden  bool
	nval    int
	cover   []byte                // one-byte prefixes covering the key universe (nil: derive from heads)
	valOf   func(v []byte) string // how a stored value is shown / compared in backend audits (nil: as is)
	// sfx is the suffix universe of the case: the common list plus two suffixes
	// that repeat the first head, so that some keys equal prefix+otherKey (a
	// key whose trimmed form is another full key).
	sfx [][]byte
}

func (c *seqCase) key() []byte {
	h := heads[c.sh.h[c.r.Intn(2)]]
	return append(bytes.Clone(h), c.sfx[c.r.Intn(len(c.sfx))]...)
}

func (c *seqCase) val() []byte {
	c.nval++
	if c.r.Intn(16) == 0 {
		return []byte{}
	}
	return []byte(fmt.Sprintf("v%d", c.nval))
}

func (c *seqCase) violation(sig, detail string, extra map[string]any) {
	c.nvio++
	w := map[string]any{"shape": c.sh.String(), "ops": append([]string(nil), c.log...), "detail": detail}
	for k, v := range extra {
		w[k] = v
	}
	c.run.Violation(sig, c.id, detail, w)
}

func (c *seqCase) live() []*replica {
	var out []*replica
	for _, rp := range c.reps {
		if !rp.dead {
			out = append(out, rp)
		}
	}
	return out
}

// firstBytes are the one-byte prefixes that cover the case's key universe.
func (c *seqCase) firstBytes() []byte {
	if c.cover != nil {
		return c.cover
	}
	a, b := heads[c.sh.h[0]][0], heads[c.sh.h[1]][0]
	if a == b {
		return []byte{a}
	}
	return []byte{min(a, b), max(a, b)}
}

func (c *seqCase) dumpBase(rp *replica) []string {
	var out []string
	for _, b := range c.firstBytes() {
		rp.base.Seek(storage.SeekRange{Prefix: []byte{b}}, func(k, v []byte) bool {
			sv := string(v)
			if c.valOf != nil {
				sv = c.valOf(v)
			}
			out = append(out, hex.EncodeToString(k)+"="+sv)
			return true
		})
	}
	return out
}

// dumpBases returns the content of every live backend (only when the coming
// operation writes to the backends).
func (c *seqCase) dumpBases(writesBase bool) [][]string {
	if !writesBase {
		return nil
	}
	out := make([][]string, len(c.reps))
	for i, rp := range c.reps {
		if !rp.dead {
			out[i] = c.dumpBase(rp)
		}
	}
	return out
}

// audit compares every backend's content with the model right after an
// operation that wrote to the backends. A backend that differs is reported once
// and dropped from the case, so that one lost write does not show up again as
// dozens of differently shaped wrong answers.
func (c *seqCase) audit(wroteBase bool, op string, pre [][]string) {
	if !wroteBase {
		return
	}
	var want []string
	for _, b := range c.firstBytes() {
		for _, kv := range refmap.Seek(c.m.Base, refmap.Range{Prefix: []byte{b}}, true) {
			want = append(want, hex.EncodeToString([]byte(kv.K))+"="+string(kv.V))
		}
	}
	for i, rp := range c.reps {
		if rp.dead {
			continue
		}
		c.run.Obs("backend_content_audits_after_write", 1)
		got := c.dumpBase(rp)
		if eqStrs(got, want) {
			continue
		}
		rp.dead = true
		c.run.Obs("replicas_dropped_after_backend_divergence", 1)
		sig := sigBackendContent + rp.kind
		how := "differs from both the model and the previous content"
		if eqStrs(got, pre[i]) {
			how = "is unchanged, the write is not visible at all"
		}
		_ = op
		c.violation(sig, fmt.Sprintf("after %q the %s backend holds %v, the model %v (before the operation the backend held %v: the content %s)", c.log[len(c.log)-1], rp.kind, got, want, pre[i], how),
			map[string]any{"backend": rp.kind, "content": got, "model": want, "content_before": pre[i]})
	}
}

// sigBackendContent (+ backend kind): the backend itself, scanned directly,
// does not hold what was written to it - right after an acknowledged write, or
// found later when an answer of that backend alone differed.
const sigBackendContent = "backend-content-differs-from-ordered-map:"

// suspect re-audits the backends whose answers differed: if the backend's own
// content differs from the model the divergence is filed under the backend
// signature (once), the replica is dropped and its entry removed from fails.
func (c *seqCase) suspect(fails map[string]string) {
	if len(fails) == 0 || len(fails) == len(c.live()) && len(fails) > 1 {
		return // a difference shared by all backends is not a backend's fault
	}
	var want []string
	for _, b := range c.firstBytes() {
		for _, kv := range refmap.Seek(c.m.Base, refmap.Range{Prefix: []byte{b}}, true) {
			v := string(kv.V)
			want = append(want, hex.EncodeToString([]byte(kv.K))+"="+v)
		}
	}
	for _, rp := range c.reps {
		if _, bad := fails[rp.kind]; !bad || rp.dead {
			continue
		}
		c.run.Obs("backend_content_audits_on_suspicion", 1)
		got := c.dumpBase(rp)
		if eqStrs(got, want) {
			continue
		}
		rp.dead = true
		delete(fails, rp.kind)
		c.run.Obs("replicas_dropped_after_backend_divergence", 1)
		c.violation(sigBackendContent+rp.kind, fmt.Sprintf("an answer of the %s backend alone differed; scanned directly it holds %v, the model %v (every write since the last successful audit went to the cache layers only: the content changed without a write)", rp.kind, got, want),
			map[string]any{"backend": rp.kind, "content": got, "model": want})
	}
}

func kindsOf(fails map[string]string) string {
	var ks []string
	for k := range fails {
		ks = append(ks, k)
	}
	sort.Strings(ks)
	if len(ks) == len(backendKinds) {
		return "all-backends"
	}
	return strings.Join(ks, "+")
}

// genRange draws a seek range over the sequence's key universe.
func (c *seqCase) genRange(target int) refmap.Range {
	r := c.r
	h := heads[c.sh.h[r.Intn(2)]]
	var p []byte
	if r.Intn(8) == 0 {
		p = bytes.Clone(h[:1])
	} else {
		p = append(bytes.Clone(h), seekPres[r.Intn(len(seekPres))]...)
	}
	rg := refmap.Range{Prefix: p, Backwards: r.Bool()}
	switch x := r.Intn(10); {
	case x < 3:
	case x < 8:
		rg.Start = bytes.Clone(suffixes[1+r.Intn(len(suffixes)-1)])
	default:
		rg.Start = bytes.Clone(moreStarts[r.Intn(len(moreStarts))])
	}
	if target >= 0 && r.Intn(3) == 0 {
		rg.SearchDepth = 1 + r.Intn(target+2)
	}
	return rg
}

func (c *seqCase) genQuery(target int, depth0 bool) *query {
	r := c.r
	q := &query{target: target, rng: c.genRange(target)}
	if depth0 {
		q.rng.SearchDepth = 0
	}
	if target < 0 {
		q.api = apiSeek
		if r.Intn(4) == 0 {
			q.api = apiSeekStop
		}
		if r.Intn(6) == 0 {
			// An empty prefix is documented as supported by the persistent backends only.
			q.rng.Prefix = nil
			q.diskOnly = true
			if r.Bool() {
				q.rng.Start = c.key()
			} else {
				q.rng.Start = nil
			}
		}
	} else {
		q.api = r.Weighted([]int{6, 2, 2, 2, 1, 0, 0, 0})
		if c.sh.viaDAO {
			// dao-level APIs need a range below a five-byte storage item head.
			for _, hi := range c.sh.h {
				h := heads[hi]
				if len(h) == 5 && h[0] == byte(c.sh.stPref) && bytes.HasPrefix(q.rng.Prefix, h) && r.Intn(2) == 0 {
					q.head = h
					q.api = []int{apiDaoSeek, apiDaoAsync, apiFind, apiDaoStep, apiFindStep}[r.Weighted([]int{2, 2, 2, 3, 3})]
				}
			}
		}
	}
	ambiguous := q.rng.Backwards && len(q.rng.Start) > 0
	switch q.api {
	case apiSeekStop, apiAsyncCancel:
		q.stop = 1 + r.Intn(3)
		if ambiguous {
			q.stop = 0
			q.api--
		}
	case apiDaoSeek:
		if r.Intn(4) == 0 && !ambiguous {
			q.stop = 1 + r.Intn(3)
		}
	case apiDaoStep:
		if r.Intn(3) == 0 && !ambiguous {
			q.stop = 1 + r.Intn(3)
		}
		c.genScript(q)
	case apiFind, apiFindStep:
		if q.api == apiFindStep {
			if r.Intn(3) == 0 {
				q.stop = 1 + r.Intn(3)
			}
			if r.Intn(2) == 0 {
				// Find-style scans are mostly wide: the whole contract or one short prefix
				q.rng.Prefix = append(bytes.Clone(q.head), seekPres[r.Intn(3)]...)
			}
			c.genScript(q)
		}
		q.rng.Start = nil
		q.rng.SearchDepth = 0
		q.opts = []int64{istorage.FindDefault, istorage.FindRemovePrefix, istorage.FindKeysOnly, istorage.FindKeysOnly | istorage.FindRemovePrefix, istorage.FindValuesOnly}[r.Intn(5)]
		if q.opts&istorage.FindKeysOnly != 0 {
			q.cmp = cmpKeys
		}
		if q.opts&istorage.FindValuesOnly != 0 {
			q.cmp = cmpVals
		}
		if q.rng.Backwards {
			q.opts |= istorage.FindBackwards
		}
	}
	return q
}

// scratchHead is a contract id outside the case's heads, written to between
// the steps of an open iterator.
func (c *seqCase) scratchHead() []byte {
	return []byte{byte(c.sh.stPref), 0xee, 0xee, 0xee, 0x7e}
}

// genScript draws what is done with the same dao while the iterator of q is
// open: reads, scans and second iterators on other prefixes / contract ids, and
// writes to a scratch contract (apart from the first step they never touch the
// range being iterated).
func (c *seqCase) genScript(q *query) {
	r := c.r
	for i := 0; i < 6; i++ {
		var acts []inter
		n := r.Weighted([]int{2, 5, 2})
		if i == 0 && r.Bool() {
			n = 0 // half of the iterators are left alone until the first item has been pulled
		}
		if i == 0 && r.Intn(3) == 0 {
			// a write INTO the iterated range right after the call, before the first
			// item is pulled: the iterator shows the content as of the call (whatever
			// a background goroutine is doing by then), the write lands in the store
			a := inter{kind: 1, head: q.head, sfx: bytes.Clone(c.sfx[r.Intn(len(c.sfx))])}
			if r.Intn(3) != 0 {
				a.val = c.val()
			}
			acts = append(acts, a)
		}
		for j := 0; j < n; j++ {
			a := inter{kind: r.Weighted([]int{4, 2, 3, 1}), sfx: bytes.Clone(c.sfx[r.Intn(len(c.sfx))])}
			switch {
			case a.kind == 1:
				a.head = c.scratchHead()
				if r.Intn(4) != 0 {
					a.val = c.val()
				}
			case r.Intn(3) == 0:
				a.head = c.scratchHead()
			default:
				a.head = q.head
				for _, hi := range c.sh.h { // the other contract of the case when there is one
					if h := heads[hi]; len(h) == 5 && h[0] == byte(c.sh.stPref) && !bytes.Equal(h, q.head) && r.Bool() {
						a.head = h
					}
				}
			}
			acts = append(acts, a)
		}
		q.script = append(q.script, acts)
	}
}

// applyScript records the scratch writes of a stepwise query in the model (the
// replicas performed them while the iterator was open). Only the steps that
// every replica reaches are written: the generator keeps writes out of steps
// whose execution depends on the length of the answer.
func (c *seqCase) applyScript(q *query, steps int) {
	for i, acts := range q.script {
		if i >= steps {
			break
		}
		for _, a := range acts {
			if a.kind == 1 {
				c.m.Put(q.target, string(append(bytes.Clone(a.head), a.sfx...)), a.val)
			}
		}
	}
}

// observeMerge notes whether the wanted answer is assembled from several
// levels or hides a lower value behind a tombstone (what makes a case non-trivial).
func (c *seqCase) observeMerge(q *query, want []refmap.KV) {
	if q.target < 0 || q.rng.SearchDepth != 0 {
		return
	}
	levels := map[int]bool{}
	for _, kv := range want {
		lv := -1
		for li := q.target; li >= 0; li-- {
			if _, ok := c.m.Layers[li][kv.K]; ok {
				lv = li
				break
			}
		}
		levels[lv] = true
	}
	if len(levels) > 1 {
		c.merged = true
		c.run.Obs("seeks_merged_from_several_levels", 1)
	}
	for li := q.target; li >= 0; li-- {
		for k, v := range c.m.Layers[li] {
			if v != nil || !bytes.HasPrefix([]byte(k), q.rng.Prefix) {
				continue
			}
			below := c.m.View(li-1, 0)
			if _, ok := below[k]; ok {
				c.hidden = true
				c.run.Obs("seeks_with_tombstone_over_lower_value", 1)
				return
			}
		}
	}
}

// ask runs q on every replica, compares each answer with the model and the
// answers with each other; it returns the canonical answers per replica and
// the known-class signature (if any) each answer was filed under.
func (c *seqCase) ask(q *query) ([][]string, []string) {
	view := c.m.View(q.target, q.rng.SearchDepth)
	answers := make([][]string, len(c.reps))
	classes := make([]string, len(c.reps))
	fails := map[string]string{}
	knownSig := ""
	var want []refmap.KV
	shown := map[string]any{}
	asked := 0
	for i, rp := range c.reps {
		if rp.dead || (q.diskOnly && rp.kind == "mem") {
			continue
		}
		asked++
		got, broken := rp.exec(q)
		if broken != "" {
			c.violation("api-result-malformed:"+apiNames[q.api], broken, map[string]any{"query": q.String(), "backend": rp.kind})
		}
		answers[i] = append([]string{}, canon(got, q.cmp)...)
		shown[rp.kind] = answers[i]
		var sig string
		var known bool
		sig, known, want = classify(q, got, view)
		if sig == "" {
			continue
		}
		if known {
			classes[i] = sig
			knownSig = worse(knownSig, sig)
			continue
		}
		fails[rp.kind] = sig
	}
	if want == nil {
		want = refmap.Seek(view, q.rng, true)
	}
	if len(q.script) > 0 {
		// One script step runs before every pull, the one that finds the
		// iterator exhausted included, and none after a cancellation.
		n := len(refmap.Seek(view, q.rng, true))
		steps := n + 1
		if q.stop > 0 && n >= q.stop {
			steps = q.stop
		}
		c.applyScript(q, steps)
		c.run.Obs("stepwise_iterations_with_interleaved_dao_use", 1)
		for i, acts := range q.script {
			if i < steps {
				c.run.Obs("dao_uses_interleaved_between_iterator_steps", int64(len(acts)))
			}
		}
		if q.stop > 0 && n > q.stop {
			c.run.Obs("stepwise_iterations_cancelled_midway", 1)
		}
	}
	c.run.Obs("seek_answers_compared_with_model", int64(asked))
	if q.diskOnly {
		c.run.Obs("empty_prefix_queries_on_persistent_backends", 1)
	}
	c.run.Obs("queries_"+apiNames[q.api], 1)
	if q.rng.Backwards && len(q.rng.Start) > 0 {
		for k := range view {
			if q.rng.Extends(k) {
				c.run.Obs("backward_start_queries_with_extension_keys_in_view", 1)
				break
			}
		}
	}
	if len(c.reps) > 1 {
		c.run.Obs("cross_backend_answer_comparisons", 1)
	}
	c.observeMerge(q, want)
	shown["query"] = q.String()
	shown["model"] = canon(want, q.cmp)
	if isCut(q.api) {
		for _, g := range ghostCands(want, q.rng.Prefix) {
			if g {
				c.run.Obs("trimming_scans_with_a_key_equal_to_a_trimmed_earlier_key", 1)
				break
			}
		}
	}
	if knownSig != "" {
		c.violation(knownSig, fmt.Sprintf("%s: model=%v mem=%v bolt=%v leveldb=%v", q, shown["model"], shown["mem"], shown["bolt"], shown["leveldb"]), shown)
	}
	c.suspect(fails)
	if len(fails) > 0 {
		var first string
		for _, k := range backendKinds {
			if s, ok := fails[k]; ok {
				first = s
				break
			}
		}
		sg, how := splitSig(first)
		c.violation(sg+":"+kindsOf(fails), fmt.Sprintf("%s [%s]: model=%v mem=%v bolt=%v leveldb=%v", q, how, shown["model"], shown["mem"], shown["bolt"], shown["leveldb"]), shown)
	} else if knownSig == "" {
		for i := 1; i < len(answers); i++ {
			if answers[i] == nil || answers[i-1] == nil {
				continue
			}
			if !eqStrs(answers[i-1], answers[i]) { // cannot happen when all agree with the model; kept as an independent oracle
				c.violation("backends-disagree", q.String(), shown)
			}
		}
	}
	return answers, classes
}

// gets compares point reads of the whole key universe on one target.
func (c *seqCase) gets(target int) {
	view := c.m.View(target, 0)
	for _, hi := range c.sh.h {
		for _, sfx := range c.sfx {
			k := append(bytes.Clone(heads[hi]), sfx...)
			want, live := view[string(k)]
			fails := map[string]string{}
			shown := map[string]any{"key": hex.EncodeToString(k), "model": fmt.Sprintf("%q live=%v", want, live), "target": target}
			for _, rp := range c.reps {
				if rp.dead {
					continue
				}
				v, err := rp.store(target).Get(k)
				shown[rp.kind] = fmt.Sprintf("%q err=%v", v, err)
				switch {
				case err != nil && err != storage.ErrKeyNotFound:
					fails[rp.kind] = "error"
				case live && err != nil:
					fails[rp.kind] = "committed-key-missing"
				case !live && err == nil:
					fails[rp.kind] = "absent-or-deleted-key-returned"
				case live && !bytes.Equal(v, want):
					fails[rp.kind] = "wrong-value"
				}
				if target >= 0 && c.sh.viaDAO && len(heads[hi]) == 5 && heads[hi][0] == byte(c.sh.stPref) {
					h := heads[hi]
					id := int32(uint32(h[1]) | uint32(h[2])<<8 | uint32(h[3])<<16 | uint32(h[4])<<24)
					si := rp.daos[target].GetStorageItem(id, sfx)
					if (si != nil) != live || (live && !bytes.Equal(si, want)) {
						fails[rp.kind] = "dao.GetStorageItem-differs"
					}
					c.run.Obs("dao_point_reads", 1)
				}
			}
			c.run.Obs("point_reads_compared_with_model", int64(len(c.reps)))
			c.suspect(fails)
			if len(fails) > 0 {
				var first string
				for _, kd := range backendKinds {
					if s, ok := fails[kd]; ok {
						first = s
						break
					}
				}
				c.violation("get-differs-from-ordered-map:"+first+":"+kindsOf(fails), fmt.Sprint(shown), shown)
			}
		}
	}
}

func dropRule(salt uint32, k string) bool {
	h := fnv.New32a()
	h.Write([]byte(k))
	return (h.Sum32()+salt)%3 == 0
}

// seekGC runs SeekGC on one store of every replica with a deterministic
// keep/drop rule and compares the visited pairs and (through later reads) the
// result with the model.
func (c *seqCase) seekGC(li int) {
	r := c.r
	rg := c.genRange(-1)
	rg.SearchDepth = 0
	switch r.Intn(4) { // mostly wide ranges, so that the scan has something to visit
	case 0, 1:
		rg.Prefix = bytes.Clone(heads[c.sh.h[r.Intn(2)]])
	case 2:
		rg.Prefix = bytes.Clone(heads[c.sh.h[r.Intn(2)]][:1])
	}
	salt := uint32(r.Intn(1000))
	stopAt := 0
	if r.Intn(3) == 0 {
		stopAt = 1 + r.Intn(3)
	}
	ambiguous := rg.Backwards && len(rg.Start) > 0
	if ambiguous {
		// Keys extending Prefix+Start are kept and the scan is not cut short,
		// so that the state stays defined whichever way they are treated.
		stopAt = 0
	}
	keep := func(k string) bool { return (ambiguous && rg.Extends(k)) || !dropRule(salt, k) }
	own := c.m.Own(li)
	want := refmap.Seek(own, rg, true)
	if stopAt > 0 && len(want) > stopAt {
		want = want[:stopAt]
	}
	q := &query{api: apiSeek, target: li, rng: rg, stop: stopAt}
	c.log = append(c.log, fmt.Sprintf("SeekGC L%d prefix=%x start=%x backwards=%v drop-salt=%d stop-after=%d", li, rg.Prefix, rg.Start, rg.Backwards, salt, stopAt))
	c.kinds = append(c.kinds, "gc")
	fails := map[string]string{}
	knownSig := ""
	shown := map[string]any{"model": canon(want, cmpBoth), "op": c.log[len(c.log)-1]}
	pre := c.dumpBases(li < 0)
	for _, rp := range c.reps {
		if rp.dead {
			continue
		}
		var got []refmap.KV
		err := rp.store(li).SeekGC(toSR(rg), func(k, v []byte) (bool, bool) {
			got = append(got, refmap.KV{K: string(k), V: bytes.Clone(v)})
			return keep(string(k)), stopAt == 0 || len(got) < stopAt
		})
		shown[rp.kind] = canon(got, cmpBoth)
		if err != nil {
			fails[rp.kind] = "error"
			shown[rp.kind+"-error"] = err.Error()
			continue
		}
		sig, known, _ := classify(q, got, own)
		if known {
			knownSig = sig
		} else if sig != "" {
			fails[rp.kind] = strings.Replace(sig, "seek-differs-from-ordered-map:scan", "seekgc-visits-differ-from-ordered-map", 1)
		}
	}
	for _, kv := range want {
		if !keep(kv.K) {
			c.m.Drop(li, kv.K)
			c.run.Obs("seekgc_pairs_dropped", 1)
		}
	}
	c.audit(li < 0, "seekgc", pre)
	c.run.Obs("seekgc_runs", 1)
	c.run.Obs("seekgc_pairs_visited", int64(len(want)))
	if knownSig != "" {
		c.violation(knownSig, fmt.Sprintf("SeekGC visits: %v", shown), shown)
	}
	c.suspect(fails)
	if len(fails) > 0 {
		var first string
		for _, kd := range backendKinds {
			if s, ok := fails[kd]; ok {
				first = s
				break
			}
		}
		sg, how := splitSig(first)
		c.violation(sg+":"+kindsOf(fails), fmt.Sprintf("SeekGC visits [%s]: %v", how, shown), shown)
	}
}

func (c *seqCase) battery(n int) {
	top := c.sh.depth - 1
	for i := 0; i < n; i++ {
		target := top
		switch c.r.Intn(8) {
		case 0:
			target = -1
		case 1:
			target = c.r.Intn(c.sh.depth)
		}
		c.ask(c.genQuery(target, false))
	}
	c.gets(top)
	if c.r.Intn(3) == 0 {
		c.gets(c.r.Intn(c.sh.depth+1) - 1)
	}
}

// persist flushes layer li of every replica and checks that no depth-0 answer
// obtained at or above it changes.
func (c *seqCase) persist(li int, mode string) {
	top := c.sh.depth - 1
	var qs []*query
	for i := 0; i < 8; i++ {
		target := top
		if c.r.Intn(4) == 0 {
			target = li + c.r.Intn(top-li+1)
		}
		q := c.genQuery(target, true)
		for _, acts := range q.script {
			for k := range acts {
				if acts[k].kind == 1 {
					acts[k].kind, acts[k].val = 0, nil // the same battery is asked twice: it must not write
				}
			}
		}
		qs = append(qs, q)
	}
	before := make([][][]string, len(qs))
	beforeCls := make([][]string, len(qs))
	for i, q := range qs {
		before[i], beforeCls[i] = c.ask(q)
	}
	n := len(c.m.Layers[li])
	c.log = append(c.log, fmt.Sprintf("%s L%d (%d entries)", mode, li, n))
	c.kinds = append(c.kinds, mode)
	pre := c.dumpBases(li == 0)
	for _, rp := range c.reps {
		if rp.dead {
			continue
		}
		var err error
		var cnt int
		switch mode {
		case "Persist":
			cnt, err = rp.stores[li].Persist()
		case "PersistSync":
			cnt, err = rp.stores[li].PersistSync()
		default:
			cnt = rp.stores[li-1].PersistPrivate(rp.stores[li])
		}
		if err != nil {
			c.violation("persist-error:"+rp.kind, err.Error(), nil)
		}
		if cnt != n {
			c.violation("persist-count-differs", fmt.Sprintf("%s on %s reported %d keys, layer held %d", mode, rp.kind, cnt, n), nil)
		}
		if c.sh.priv && li == top {
			rp.renewPrivateTop()
		}
	}
	c.m.Flush(li)
	c.audit(li == 0, "persist", pre)
	if n > 0 {
		c.flushed = true
		c.run.Obs("flushes_of_nonempty_layers", 1)
	}
	for i, q := range qs {
		after, afterCls := c.ask(q)
		for j := range after {
			if before[i][j] == nil || after[j] == nil {
				continue
			}
			c.run.Obs("flush_invariance_pairs", 1)
			if eqStrs(before[i][j], after[j]) {
				continue
			}
			// The model's answer does not depend on the flush, so one of the two
			// answers differs from it and has been classified by ask already.
			sig := "flush-changes-answer"
			switch worse(beforeCls[i][j], afterCls[j]) {
			case sigExtDepends, sigExtStale, sigExtResurfaces:
				sig = sigExtDepends
			case sigCutGhost:
				sig = sigCutGhost
			}
			c.violation(sig, fmt.Sprintf("%s on %s: before %s of L%d %v, after %v", q, c.reps[j].kind, mode, li, before[i][j], after[j]),
				map[string]any{"query": q.String(), "backend": c.reps[j].kind, "before": before[i][j], "after": after[j]})
		}
	}
}

func (c *seqCase) step(opIdx int) {
	r := c.r
	top := c.sh.depth - 1
	// Writes go mostly to the top layer, sometimes to a lower one or the backend.
	li := top
	if r.Intn(3) == 0 {
		li = r.Intn(c.sh.depth)
	}
	switch x := r.Intn(20); {
	case x < 8:
		k, v := c.key(), c.val()
		c.log = append(c.log, fmt.Sprintf("Put L%d %x=%q", li, k, v))
		c.kinds = append(c.kinds, "put")
		for _, rp := range c.live() {
			rp.stores[li].Put(k, v)
		}
		c.m.Put(li, string(k), v)
	case x < 12:
		k := c.key()
		c.log = append(c.log, fmt.Sprintf("Delete L%d %x", li, k))
		c.kinds = append(c.kinds, "del")
		for _, rp := range c.live() {
			rp.stores[li].Delete(k)
		}
		c.m.Put(li, string(k), nil)
	case x < 14:
		if r.Intn(4) == 0 {
			li = -1
		}
		var kvs []refmap.KV
		desc := ""
		for i := 0; i < 1+r.Intn(4); i++ {
			kv := refmap.KV{K: string(c.key())}
			if r.Intn(3) != 0 {
				kv.V = c.val()
			}
			kvs = append(kvs, kv)
		}
		mem, stor := splitMaps(kvs) // later duplicates win in both the maps and the model
		for _, kv := range kvs {
			desc += fmt.Sprintf(" %x=%q", kv.K, kv.V)
		}
		c.log = append(c.log, fmt.Sprintf("PutChangeSet L%d%s (nil value = deletion)", li, desc))
		c.kinds = append(c.kinds, "batch")
		pre := c.dumpBases(li < 0)
		for _, rp := range c.live() {
			cp := func(m map[string][]byte) map[string][]byte {
				o := map[string][]byte{}
				for k, v := range m {
					o[k] = v
				}
				return o
			}
			if err := rp.store(li).PutChangeSet(cp(mem), cp(stor)); err != nil {
				c.violation("putchangeset-error:"+rp.kind, err.Error(), nil)
			}
		}
		for _, kv := range kvs {
			c.m.Put(li, kv.K, kv.V)
		}
		c.audit(li < 0, "putchangeset", pre)
	case x < 18:
		pl := r.Intn(c.sh.depth)
		mode := "Persist"
		if c.sh.priv && pl == top {
			if r.Bool() {
				mode = "PersistPrivate"
			}
		} else if r.Intn(4) == 0 {
			mode = "PersistSync"
		}
		c.persist(pl, mode)
	default:
		c.seekGC(r.Intn(c.sh.depth+1) - 1)
	}
	c.run.Obs("operations", 1)
	c.battery(ev.Pick(8, 10))
}

// sweep asks the top of the stack the whole grid prefix x start x direction
// (x search depth in the thorough tier), alternating plain and trimming scans.
func (c *seqCase) sweep() {
	top := c.sh.depth - 1
	starts := append([][]byte{nil}, suffixes[1:]...)
	starts = append(starts, moreStarts...)
	depths := []int{0}
	if ev.Tier() == "thorough" && c.r.Intn(3) == 0 {
		depths = []int{0, 1, 2}
	}
	n := 0
	for _, hi := range c.sh.h {
		for pi, pre := range seekPres[1:] {
			for _, st := range starts {
				for _, back := range []bool{false, true} {
					for _, d := range depths {
						q := &query{api: apiSeek, target: top, rng: refmap.Range{Prefix: append(bytes.Clone(heads[hi]), pre...), Start: bytes.Clone(st), Backwards: back, SearchDepth: d}}
						if (n+pi)%3 == 0 {
							q.api = apiAsyncCut
						}
						n++
						c.ask(q)
					}
				}
			}
		}
		if c.sh.h[0] == c.sh.h[1] {
			break
		}
	}
	c.run.Obs("grid_sweep_queries", int64(n))
}

func runSeqCase(run *ev.Run, idx int, tmp string) {
	id := fmt.Sprint("seq", idx)
	r := rng.New(uint64(idx) + 9_000_000)
	sh := shape{depth: 1 + r.Intn(4), viaDAO: r.Bool(), stPref: storage.STStorage}
	if sh.depth >= 2 && r.Intn(3) == 0 {
		sh.priv = true
	}
	if r.Intn(4) == 0 {
		sh.stPref = storage.STTempStorage
	}
	sh.h[0] = r.Intn(len(heads))
	sh.h[1] = r.Intn(len(heads))
	if sh.viaDAO && r.Intn(4) != 0 {
		// make dao-level queries possible: a head under the dao's storage prefix
		if sh.stPref == storage.STStorage {
			sh.h[0] = r.Intn(3)
		} else {
			sh.h[0] = 3
		}
	}
	c := &seqCase{id: id, sh: sh, r: r, m: refmap.New(sh.depth), run: run}
	c.sfx = append(append([][]byte{}, suffixes...), bytes.Clone(heads[sh.h[0]]), append(bytes.Clone(heads[sh.h[0]]), 'a'))
	c.log = append(c.log, "stack: "+sh.String())
	defer func() {
		for _, rp := range c.reps {
			rp.close()
		}
	}()
	for _, kind := range backendKinds {
		dir := ""
		if kind != "mem" {
			dir = filepath.Join(tmp, fmt.Sprintf("%s-%s", id, kind))
		}
		rp, err := newReplica(kind, sh, dir)
		if err != nil {
			run.Inconclusive("cannot open %s backend for %s: %v", kind, id, err)
			return
		}
		c.reps = append(c.reps, rp)
	}
	func() {
		defer func() {
			if p := recover(); p != nil {
				buf := make([]byte, 4096)
				buf = buf[:runtime.Stack(buf, false)]
				c.violation("panic-in-store-api", fmt.Sprint(p), map[string]any{"stack": string(buf)})
			}
		}()
		nops := ev.Pick(30, 40)
		for op := 0; op < nops; op++ {
			c.step(op)
		}
		c.sweep()
		// Flush everything top-down: no answer of the top may change on the way.
		for li := sh.depth - 1; li >= 0; li-- {
			mode := "Persist"
			if sh.priv && li == sh.depth-1 {
				mode = "PersistPrivate"
			}
			c.persist(li, mode)
		}
		c.battery(ev.Pick(8, 10))
	}()
	run.Case(fmt.Sprint(sh, c.kinds), c.flushed && (c.merged || c.hidden))
	if idx < 2 {
		run.Sample(map[string]any{"case": id, "ops": c.log})
	}
}

func runSeqPart(t *testing.T, run *ev.Run) {
	tmp := t.TempDir()
	nseq := ev.Pick(1500, 30000)
	ntl := ev.Pick(300, 5000)
	var wg sync.WaitGroup
	ch := make(chan int, 64)
	for w := 0; w < runtime.NumCPU(); w++ {
		wg.Add(1)
		go func() {
			defer wg.Done()
			for i := range ch {
				if i < nseq {
					if run.Want(fmt.Sprint("seq", i)) {
						runSeqCase(run, i, tmp)
					}
				} else if run.Want(fmt.Sprint("tlog", i-nseq)) {
					runTlogCase(run, i-nseq, tmp)
				}
			}
		}()
	}
	for i := 0; i < nseq+ntl; i++ {
		ch <- i
	}
	close(ch)
	wg.Wait()
}

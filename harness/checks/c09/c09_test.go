// Package c09 checks property C09: whatever stack of in-memory cache layers
// sits on whichever backend, point reads and range scans answer like one
// ordered map holding the net effect of all writes; flushing changes no
// answer; concurrent readers never miss a committed key, see a stale value or
// half of a batch.
//
// Part "seq" (no race detector) is a reference-model differential over
// MemoryStore / BoltDB / LevelDB; part "conc" (built with -race) records
// concurrent histories against a continuously flushing MemCachedStore whose
// lower store pauses inside PutChangeSet.
package c09

import (
	"os"
	"testing"

	"github.com/nspcc-dev/neo-go/verifharness/vlib/ev"
)

func TestCheck(t *testing.T) {
	part := os.Getenv("VERIF_PART")
	if part == "" {
		part = "all"
	}
	rule := ""
	if part == "seq" || part == "all" {
		rule += "seq: a case is one seeded sequence of Put/Delete/PutChangeSet/Persist/PersistSync/PersistPrivate/SeekGC on a stack of 1-4 MemCachedStore layers (shared, private top, built directly or through dao.Simple) executed identically on MemoryStore, BoltDB and LevelDB, with a battery of Seek/SeekAsync/dao.Seek/dao.SeekAsync/Find-iterator queries and point reads after every step, every answer compared with the reference ordered map, across the three backends and before/after every flush (plus transfer-log cases through dao.SeekNEPxxTransferLog); distinct by stack shape and operation sequence, non-trivial if a non-empty layer was flushed and some answer was merged from several levels or hid a lower value behind a tombstone. "
	}
	if part == "conc" || part == "all" {
		rule += "conc: a case is one concurrent history (1-2 writers, one flusher, six readers) on 1-2 MemCachedStore layers over a lower store pausing inside PutChangeSet; register events checked by porcupine per key, generation batches for all-or-nothing visibility, scans for committed keys; distinct by configuration and recorded history, non-trivial if reads overlapped a lower-store write window and a non-empty layer was flushed."
	}
	run := ev.Start("C09", rule)
	defer run.Finish()
	run.Assume("the reference model (vlib/refmap) is the specification: layers are maps with tombstones over a base map; search depth d>0 not above the number of layers in sight restricts a scan to the top d layers; forward Start = first key >= Prefix+Start; backward Start = last key that is <= Prefix+Start or begins with it (the behaviour of the persistent backends, relied on by the transfer-log callers)")
	run.Assume("BoltDB / LevelDB internals are trusted; an empty Prefix is asked of the persistent backends only (documented as unsupported by the memory stores); private layers are used from one goroutine and recreated after their Persist")
	run.Assume("concurrent part: monitor state is recorded at the client boundary with call/return stamps from one atomic counter; wall-clock is used only for pauses and watchdogs")
	if part == "seq" || part == "all" {
		runSeqPart(t, run)
	}
	if part == "conc" || part == "all" {
		runConcPart(t, run)
	}
}

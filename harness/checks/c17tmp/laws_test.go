package c17tmp

import (
	"bytes"
	"crypto/sha256"
	"encoding/binary"
	"encoding/hex"
	"encoding/json"
	"fmt"

	"strings"

	"github.com/nspcc-dev/neo-go/pkg/core/block"
	"github.com/nspcc-dev/neo-go/pkg/core/dao"
	"github.com/nspcc-dev/neo-go/pkg/core/storage"
	"github.com/nspcc-dev/neo-go/pkg/core/transaction"
	"github.com/nspcc-dev/neo-go/pkg/io"
	"github.com/nspcc-dev/neo-go/pkg/network"
	"github.com/nspcc-dev/neo-go/pkg/util"
	"github.com/nspcc-dev/neo-go/verifharness/vlib/rng"
	"github.com/pierrec/lz4"
)

// viol is one refuted law instance.
type viol struct {
	Sig     string         `json:"sig"`
	Detail  string         `json:"detail"`
	Witness map[string]any `json:"witness"`
}

func hexCap(b []byte) string {
	if len(b) > 4096 {
		return hex.EncodeToString(b[:4096]) + fmt.Sprintf("…(%d bytes)", len(b))
	}
	return hex.EncodeToString(b)
}

func mkViol(sig, detail string, c *codec, input []byte, extra map[string]any) viol {
	w := map[string]any{"codec": c.name, "entry": c.entry, "input_hex": hexCap(input), "input_len": len(input)}
	if c.text && len(input) < 4096 {
		w["input_text"] = string(input)
	}
	for k, v := range extra {
		w[k] = v
	}
	return viol{Sig: sig, Detail: detail, Witness: w}
}

func identSig(c *codec) string { return "identity-not-from-content:" + c.typ + ":" + c.entry }

// identityViolSig names an identity violation. When the evidence shows the
// mechanism - the reported hash is the SHA-256 of a prefix of the *received*
// bytes, or the reported size is the received length - the signature names
// that mechanism (one root cause, whichever entry point shows it); otherwise
// it names the type and the entry point.
func identityViolSig(typ, entry string, input []byte, reported, canonical identity) string {
	if reported.hash != canonical.hash && len(reported.hash) == 64 {
		for k := 1; k <= len(input); k++ {
			h := sha256.Sum256(input[:k])
			if util.Uint256(h).StringLE() == reported.hash {
				return "identity-from-received-bytes:" + typ
			}
		}
	} else if reported.hash == canonical.hash && reported.subhash == canonical.subhash && reported.size != canonical.size && reported.size == len(input) {
		return "identity-from-received-bytes:" + typ
	}
	return "identity-not-from-content:" + typ + ":" + entry
}

// sn is the codec name used in signatures: the "+sr" variants differ only in
// a context flag, not in the code under test.
func sn(c *codec) string { return strings.TrimSuffix(c.name, "+sr") }

// decodeErrSig names a rejected well-formed encoding; a compressed P2P frame
// that the node's own decoder refuses gets one signature wherever it shows.
func decodeErrSig(c *codec, clause string, err string) string {
	if strings.HasPrefix(err, "lz4:") {
		return "p2p-compressed-frame-rejected:lz4-decoder"
	}
	if clause == "canon" {
		return "canon:" + sn(c) + ":redecode-error"
	}
	return clause + ":" + sn(c) + ":decode-error"
}

func redecodeSuffix(error) string { return "" }

// guard runs f and converts a panic into a violation.
func guard(c *codec, stage string, input []byte, f func()) (v *viol) {
	defer func() {
		if x := recover(); x != nil {
			sig, top := panicSig(x)
			vv := mkViol(sig, fmt.Sprintf("%s of %s panicked: %v (top frames: %s)", stage, c.name, x, top), c, input, nil)
			v = &vv
		}
	}()
	f()
	return nil
}

// checkAccepted evaluates clause (b): input decoded to v without error, so
// the re-encoding of v must decode to an equal value with equal hash and size
// and must be a fixpoint. canon is true when input is the generator's own
// encoding.
func checkAccepted(c *codec, input []byte, v any, canon bool) []viol {
	var out []viol
	var e1 []byte
	var err error
	id1 := c.ident(v)
	if p := guard(c, "re-encoding", input, func() { e1, err = c.enc(v) }); p != nil {
		return append(out, *p)
	}
	if err != nil && c.idempotentOnly {
		return out // lossy by specification: not every decodable value has this form
	}
	if err != nil {
		return append(out, mkViol("canon:"+sn(c)+":reencode-error", fmt.Sprintf("%s accepted the input but the value does not re-encode: %v", c.entry, err), c, input, nil))
	}
	var v2 any
	if p := guard(c, "decoding of the re-encoding", e1, func() { v2, err = c.dec(e1) }); p != nil {
		return append(out, *p)
	}
	if err != nil {
		return append(out, mkViol(decodeErrSig(c, "canon", err.Error())+redecodeSuffix(err), fmt.Sprintf("the re-encoding of an accepted value is rejected: %v", err), c, input, map[string]any{"reencoded_hex": hexCap(e1)}))
	}
	if !c.idempotentOnly {
		if d := c.diff(v, v2); d != "" {
			return append(out, mkViol("canon:"+sn(c)+":value", "decode(encode(v)) differs from v at "+d, c, input, map[string]any{"reencoded_hex": hexCap(e1)}))
		}
	}
	id2 := c.ident(v2)
	if id1 != id2 {
		return append(out, mkViol(identityViolSig(c.typ, c.entry, input, id1, id2), fmt.Sprintf("the value decoded from the received bytes reports hash=%s size=%d txs=%s, the same content decoded from its own encoding reports hash=%s size=%d txs=%s (received %d bytes, canonical %d bytes)",
			id1.hash, id1.size, id1.subhash, id2.hash, id2.size, id2.subhash, len(input), len(e1)), c, input, map[string]any{"reencoded_hex": hexCap(e1)}))
	}
	var e2 []byte
	if p := guard(c, "second re-encoding", e1, func() { e2, err = c.enc(v2) }); p != nil {
		return append(out, *p)
	}
	if err != nil || !bytes.Equal(c.normalise(e1), c.normalise(e2)) {
		return append(out, mkViol("canon:"+sn(c)+":encoding-not-fixpoint", fmt.Sprintf("encode(decode(encode(v))) != encode(v) (err=%v)", err), c, input, map[string]any{"reencoded_hex": hexCap(e1), "second_hex": hexCap(e2)}))
	}
	if canon && !bytes.Equal(c.normalise(e1), c.normalise(input)) {
		return append(out, mkViol("roundtrip:"+sn(c)+":reencoding", "encode(decode(encode(v))) != encode(v)", c, input, map[string]any{"second_hex": hexCap(e1)}))
	}
	if c.post != nil {
		var cb []byte
		if canon {
			cb = input
		}
		var d string
		if p := guard(c, "type-specific law", input, func() { d = c.post(v, cb) }); p != nil {
			out = append(out, *p)
		} else if d != "" {
			out = append(out, mkViol("law:"+sn(c)+":"+firstWords(d, 4), d, c, input, nil))
		}
	}
	return out
}

func firstWords(s string, n int) string {
	out := []byte{}
	w := 0
	for i := 0; i < len(s) && w < n; i++ {
		ch := s[i]
		if ch == ' ' {
			w++
			out = append(out, '-')
			continue
		}
		if ch == ':' {
			break
		}
		out = append(out, ch)
	}
	return string(bytes.TrimRight(out, "-"))
}

// wireBytes returns the canonical binary encoding whose length the value's
// reported size has to equal (nil: the type reports no size).
func wireBytes(c *codec, v any) []byte {
	switch x := v.(type) {
	case *transaction.Transaction:
		if c.name == "tx.hashable" {
			return nil
		}
		return encode(x)
	case *block.Block:
		if c.typ != "block" || c.entry == "NewTrimmedFromReader" {
			return nil
		}
		return encode(x)
	case *nodeBox:
		if nodeEmpty(x.n) {
			return []byte{}
		}
		w := io.NewBufBinWriter()
		x.n.EncodeBinary(w.BinWriter)
		return w.Bytes()
	}
	return nil
}

// checkGenerated evaluates clause (a) on the g-th generated value of codec c
// and then clauses (b) and (c) on its encoding.
func checkGenerated(c *codec, stream uint64) (out []viol, shape string, enc []byte) {
	var v1, v0 any
	v1, shape = c.gen(rng.New(stream))
	v0, _ = c.gen(rng.New(stream)) // pristine twin: never handed to an encoder
	var b []byte
	var err error
	if p := guard(c, "encoding", nil, func() { b, err = c.enc(v1) }); p != nil {
		return append(out, *p), shape, nil
	}
	if err != nil {
		return append(out, mkViol("roundtrip:"+sn(c)+":encode-error", "a well-formed value does not encode: "+err.Error(), c, nil, map[string]any{"shape": shape})), shape, nil
	}
	var v2 any
	if p := guard(c, "decoding", b, func() { v2, err = c.dec(b) }); p != nil {
		return append(out, *p), shape, b
	}
	if err != nil {
		return append(out, mkViol(decodeErrSig(c, "roundtrip", err.Error()), "the encoding of a well-formed value is rejected: "+err.Error(), c, b, map[string]any{"shape": shape})), shape, b
	}
	if !c.idempotentOnly {
		var d string
		if p := guard(c, "comparison", b, func() { d = c.diff(v0, v2) }); p != nil {
			out = append(out, *p)
		} else if d != "" {
			out = append(out, mkViol("roundtrip:"+sn(c)+":value", "decode(encode(v)) differs from v at "+d, c, b, map[string]any{"shape": shape}))
		}
	}
	id0, id2 := c.ident(v0), c.ident(v2)
	if id0.hash != id2.hash || id0.subhash != id2.subhash {
		out = append(out, mkViol("roundtrip:"+sn(c)+":hash", fmt.Sprintf("hash %s (constructed) vs %s (decoded); txs %s vs %s", id0.hash, id2.hash, id0.subhash, id2.subhash), c, b, map[string]any{"shape": shape}))
	}
	if wb := wireBytes(c, v2); wb != nil {
		wl := len(wb)
		sizeSig := "size:" + c.typ
		if bytes.Contains(wb, []byte{0xfe, 0xff, 0xff, 0x00, 0x00}) {
			// the encoding holds the 5-byte form of 65535: the disagreement of
			// WriteVarUint and io.GetVarSize at that boundary, seen from here
			sizeSig = primSig
		}
		if id2.size != wl {
			out = append(out, mkViol(sizeSig, fmt.Sprintf("decoded value reports size %d, its binary encoding has %d bytes", id2.size, wl), c, b, map[string]any{"shape": shape}))
		}
		if id0.size != wl {
			out = append(out, mkViol(sizeSig, fmt.Sprintf("constructed value reports size %d, its binary encoding has %d bytes", id0.size, wl), c, b, map[string]any{"shape": shape}))
		}
	}
	if len(out) == 0 {
		out = append(out, checkAccepted(c, b, v2, true)...)
	}
	out = append(out, checkPaths(c, b)...)
	return out, shape, b
}

// ---- clause (c): path independence ------------------------------------------------

type pathResult struct {
	Path string `json:"path"`
	Err  string `json:"err,omitempty"`
	Hash string `json:"hash,omitempty"`
	Size int    `json:"size"`
	Sub  string `json:"txs,omitempty"`
}

func lz4Frame(cmd network.CommandType, p []byte) []byte {
	dst := make([]byte, 4+lz4.CompressBlockBound(len(p)))
	n, err := lz4.CompressBlock(p, dst[4:], nil)
	if err != nil || n == 0 {
		return nil
	}
	binary.LittleEndian.PutUint32(dst[:4], uint32(len(p)))
	var w wbuf
	w.b(byte(network.Compressed))
	w.b(byte(cmd))
	w.varbytes(dst[:4+n])
	return w.Bytes()
}

func protect(path string, f func() pathResult) (res pathResult) {
	defer func() {
		if x := recover(); x != nil {
			res = pathResult{Path: path, Err: fmt.Sprint("PANIC: ", x)}
		}
	}()
	res = f()
	res.Path = path
	return
}

func txRes(tx *transaction.Transaction) pathResult {
	return pathResult{Hash: hx(tx.Hash()), Size: tx.Size()}
}

func msgPayload(frame []byte, sr bool) (any, error) {
	m := &network.Message{StateRootInHeader: sr}
	if err := m.Decode(io.NewBinReaderFromBuf(frame)); err != nil {
		return nil, err
	}
	return m.Payload, nil
}

var fixedHeader = &block.Header{Index: 7, Timestamp: 1, Script: transaction.Witness{InvocationScript: []byte{1}, VerificationScript: []byte{2}}}

// txPaths pushes the same transaction bytes through every entry point.
func txPaths(b []byte) []pathResult {
	var res []pathResult
	ref := new(transaction.Transaction)
	r0 := io.NewBinReaderFromBuf(b)
	ref.DecodeBinary(r0)
	if r0.Err != nil || r0.Len() != 0 {
		return nil // not (exactly) a transaction for the reference decoder
	}
	res = append(res, protect("Transaction.DecodeBinary", func() pathResult { return txRes(ref) }))
	var fromBytes *transaction.Transaction
	res = append(res, protect("NewTransactionFromBytes", func() pathResult {
		tx, err := transaction.NewTransactionFromBytes(b)
		if err != nil {
			return pathResult{Err: err.Error()}
		}
		fromBytes = tx
		return txRes(tx)
	}))
	res = append(res, protect("block-body", func() pathResult {
		blk := block.New(false)
		if err := decodeAll(blk, wrapTxInBlock(fixedHeader, b)); err != nil {
			return pathResult{Err: err.Error()}
		}
		return txRes(blk.Transactions[0])
	}))
	res = append(res, protect("p2p-message", func() pathResult {
		p, err := msgPayload(wrapInMessage(network.CMDTX, b), false)
		if err != nil {
			return pathResult{Err: err.Error()}
		}
		return txRes(p.(*transaction.Transaction))
	}))
	if fr := lz4Frame(network.CMDTX, b); fr != nil {
		res = append(res, protect("p2p-message-compressed", func() pathResult {
			p, err := msgPayload(fr, false)
			if err != nil {
				return pathResult{Err: err.Error()}
			}
			return txRes(p.(*transaction.Transaction))
		}))
	}
	res = append(res, protect("p2p-message-block", func() pathResult {
		p, err := msgPayload(wrapInMessage(network.CMDBlock, wrapTxInBlock(fixedHeader, b)), false)
		if err != nil {
			return pathResult{Err: err.Error()}
		}
		return txRes(p.(*block.Block).Transactions[0])
	}))
	res = append(res, protect("database", func() pathResult {
		d := dao.NewSimple(storage.NewMemoryStore(), false)
		tx := fromBytes // what a node pools and later stores when it seals the block itself
		if tx == nil {
			tx = ref
		}
		key := tx.Hash()
		if err := d.StoreAsTransaction(tx, 1, nil); err != nil {
			return pathResult{Err: err.Error()}
		}
		got, _, err := d.GetTransaction(key)
		if err != nil {
			return pathResult{Err: err.Error()}
		}
		return txRes(got)
	}))
	js := func(name string, tx *transaction.Transaction) {
		if tx == nil {
			return
		}
		res = append(res, protect(name, func() pathResult {
			j, err := json.Marshal(tx)
			if err != nil {
				return pathResult{Err: "marshal: " + err.Error()}
			}
			back := new(transaction.Transaction)
			if err := json.Unmarshal(j, back); err != nil {
				// reserved attributes have no JSON form by design
				for _, a := range tx.Attributes {
					if a.Type >= transaction.ReservedLowerBound {
						return txRes(tx)
					}
				}
				return pathResult{Err: "unmarshal: " + err.Error()}
			}
			return txRes(back)
		}))
	}
	js("json-of-DecodeBinary", ref)
	js("json-of-NewTransactionFromBytes", fromBytes)
	return res
}

func blockRes(b *block.Block) pathResult {
	return pathResult{Hash: hx(b.Hash()), Size: -1, Sub: txHashes(b.Transactions)}
}

func hashesOnly(txs []*transaction.Transaction) string {
	var sb bytes.Buffer
	for _, t := range txs {
		fmt.Fprintf(&sb, "%s,", t.Hash().StringLE()[:16])
	}
	return sb.String()
}

// blockPaths pushes the same block bytes through every entry point.
func blockPaths(b []byte, sr bool) []pathResult {
	var res []pathResult
	ref := block.New(sr)
	if err := decodeAll(ref, b); err != nil {
		return nil
	}
	res = append(res, protect("Block.DecodeBinary", func() pathResult {
		r := blockRes(ref)
		r.Size = ref.GetExpectedBlockSize()
		return r
	}))
	res = append(res, protect("p2p-message", func() pathResult {
		p, err := msgPayload(wrapInMessage(network.CMDBlock, b), sr)
		if err != nil {
			return pathResult{Err: err.Error()}
		}
		r := blockRes(p.(*block.Block))
		r.Size = p.(*block.Block).GetExpectedBlockSize()
		return r
	}))
	if fr := lz4Frame(network.CMDBlock, b); fr != nil {
		res = append(res, protect("p2p-message-compressed", func() pathResult {
			p, err := msgPayload(fr, sr)
			if err != nil {
				return pathResult{Err: err.Error()}
			}
			r := blockRes(p.(*block.Block))
			r.Size = p.(*block.Block).GetExpectedBlockSize()
			return r
		}))
	}
	res = append(res, protect("header-prefix", func() pathResult {
		h := &block.Header{StateRootEnabled: sr}
		r := io.NewBinReaderFromBuf(b)
		h.DecodeBinary(r)
		if r.Err != nil {
			return pathResult{Err: r.Err.Error()}
		}
		return pathResult{Hash: hx(h.Hash()), Size: res[0].Size, Sub: res[0].Sub}
	}))
	res = append(res, protect("database", func() pathResult {
		d := dao.NewSimple(storage.NewMemoryStore(), sr)
		if err := d.StoreAsBlock(ref, nil, nil); err != nil {
			return pathResult{Err: err.Error()}
		}
		got, err := d.GetBlock(ref.Hash())
		if err != nil {
			return pathResult{Err: err.Error()}
		}
		// the record is trimmed: header + transaction hashes
		if hashesOnly(got.Transactions) != hashesOnly(ref.Transactions) {
			return pathResult{Hash: hx(got.Hash()), Size: res[0].Size, Sub: "tx hashes " + hashesOnly(got.Transactions)}
		}
		return pathResult{Hash: hx(got.Hash()), Size: res[0].Size, Sub: res[0].Sub}
	}))
	res = append(res, protect("json", func() pathResult {
		for _, tx := range ref.Transactions {
			for _, a := range tx.Attributes {
				if a.Type >= transaction.ReservedLowerBound {
					return res[0] // no JSON form by design
				}
			}
		}
		j, err := json.Marshal(ref)
		if err != nil {
			return pathResult{Err: "marshal: " + err.Error()}
		}
		back := block.New(sr)
		if err := json.Unmarshal(j, back); err != nil {
			return pathResult{Err: "unmarshal: " + err.Error()}
		}
		r := blockRes(back)
		r.Size = back.GetExpectedBlockSize()
		return r
	}))
	return res
}

// checkPaths evaluates clause (c) for transaction and block bytes.
func checkPaths(c *codec, b []byte) []viol {
	var res []pathResult
	typ := ""
	switch c.name {
	case "tx.bin", "tx.frombytes":
		res, typ = txPaths(b), "tx"
	case "block.bin":
		res, typ = blockPaths(b, false), "block"
	case "block.bin+sr":
		res, typ = blockPaths(b, true), "block"
	}
	if len(res) < 2 {
		return nil
	}
	ref := res[0]
	for _, p := range res[1:] {
		if p.Err == "" && p.Hash == ref.Hash && p.Size == ref.Size && p.Sub == ref.Sub {
			continue
		}
		sig := identityViolSig(typ, p.Path, b, identity{hash: p.Hash, size: p.Size, subhash: p.Sub}, identity{hash: ref.Hash, size: ref.Size, subhash: ref.Sub})
		detail := fmt.Sprintf("same %s bytes: %s gives hash=%s size=%d %s, %s gives hash=%s size=%d %s", typ, ref.Path, ref.Hash, ref.Size, ref.Sub, p.Path, p.Hash, p.Size, p.Sub)
		if strings.HasPrefix(p.Err, "lz4:") {
			sig = "p2p-compressed-frame-rejected:lz4-decoder"
			detail = fmt.Sprintf("%s bytes accepted by %s, framed as a compressed P2P message with the library call the node's encoder uses, are rejected by Message.Decode: %s", typ, ref.Path, p.Err)
		} else if p.Err != "" {
			sig = "path-dependence:" + typ + ":" + p.Path + ":rejected"
			detail = fmt.Sprintf("%s bytes accepted by %s are rejected through %s: %s", typ, ref.Path, p.Path, p.Err)
		}
		return []viol{mkViol(sig, detail, c, b, map[string]any{"paths": res})}
	}
	return nil
}

// ---- primitive laws of pkg/io -------------------------------------------------------

type primCase struct {
	name string
	n    uint64
}

// checkPrimitives: var-int and var-bytes round trip, and the size formula
// (io.GetVarSize) against the length actually written, at and around every
// boundary.
const primSig = "varint-boundary:WriteVarUint-not-minimal-vs-GetVarSize"

func checkPrimitives() (out []viol, cases int) {
	c := &codec{name: "io.varint", entry: "BinReader.ReadVarUint", typ: "varint"}
	vals := []uint64{}
	for _, base := range []uint64{0, 0xfc, 0xfd, 0xfe, 0xff, 0x100, 0xfffe, 0xffff, 0x10000, 0x10001, 0xfffffe, 0xffffff, 0x1000000, 0xfffffffe, 0xffffffff, 0x100000000, 0x100000001, 1 << 62, ^uint64(0) - 1, ^uint64(0)} {
		vals = append(vals, base)
	}
	for _, n := range vals {
		cases++
		w := io.NewBufBinWriter()
		w.WriteVarUint(n)
		b := w.Bytes()
		r := io.NewBinReaderFromBuf(b)
		got := r.ReadVarUint()
		if r.Err != nil || got != n || r.Len() != 0 {
			out = append(out, mkViol("roundtrip:io.varint:value", fmt.Sprintf("WriteVarUint(%d) = %x reads back as %d (err=%v)", n, b, got, r.Err), c, b, nil))
		}
		var canon wbuf
		canon.varint(n)
		if !bytes.Equal(canon.Bytes(), b) {
			out = append(out, mkViol(primSig, fmt.Sprintf("WriteVarUint(%d) writes %x; the minimal encoding (and the one io.GetVarSize assumes) is %x", n, b, canon.Bytes()), c, b, map[string]any{"value": n}))
		}
		if n <= 1<<31 {
			if sz := io.GetVarSize(int(n)); sz != len(b) {
				out = append(out, mkViol(primSig, fmt.Sprintf("io.GetVarSize(%d) = %d but WriteVarUint writes %d bytes (%x)", n, sz, len(b), b), c, b, map[string]any{"value": n}))
			}
		}
	}
	for _, n := range []int{0, 1, 0xfc, 0xfd, 0xffff - 1, 0xffff, 0x10000, 0x10001} {
		cases++
		data := bytes.Repeat([]byte{0xab}, n)
		w := io.NewBufBinWriter()
		w.WriteVarBytes(data)
		b := w.Bytes()
		r := io.NewBinReaderFromBuf(b)
		got := r.ReadVarBytes()
		if r.Err != nil || !bytes.Equal(got, data) || r.Len() != 0 {
			out = append(out, mkViol("roundtrip:io.varbytes:value", fmt.Sprintf("WriteVarBytes of %d bytes does not read back (err=%v)", n, r.Err), c, nil, nil))
		}
		if sz := io.GetVarSize(data); sz != len(b) {
			out = append(out, mkViol(primSig, fmt.Sprintf("io.GetVarSize([%d]byte) = %d but WriteVarBytes writes %d bytes", n, sz, len(b)), c, nil, map[string]any{"length": n}))
		}
		if sz := io.GetVarSize(string(data)); sz != len(b) {
			out = append(out, mkViol(primSig, fmt.Sprintf("io.GetVarSize(string of %d) = %d but WriteString writes %d bytes", n, sz, len(b)), c, nil, map[string]any{"length": n}))
		}
	}
	// slices of serializable values: reported size against WriteArray
	for _, n := range []int{0, 1, 3} {
		cases++
		hs := make([]util.Uint256, n)
		w := io.NewBufBinWriter()
		w.WriteArray(hs)
		if sz, wl := io.GetVarSize(hs), len(w.Bytes()); sz != wl {
			out = append(out, mkViol("size:io.GetVarSize:slice-of-non-pointer-serializable", fmt.Sprintf("io.GetVarSize([]util.Uint256 of %d) = %d but WriteArray writes %d bytes", n, sz, wl), c, nil, nil))
		}
		ws := make([]transaction.Witness, n)
		w = io.NewBufBinWriter()
		w.WriteArray(ws)
		if sz, wl := io.GetVarSize(ws), len(w.Bytes()); sz != wl {
			out = append(out, mkViol("size:io.GetVarSize:slice-of-non-pointer-serializable", fmt.Sprintf("io.GetVarSize([]transaction.Witness of %d) = %d but WriteArray writes %d bytes", n, sz, wl), c, nil, nil))
		}
		ps := make([]*transaction.Witness, n)
		for i := range ps {
			ps[i] = &transaction.Witness{InvocationScript: []byte{1, 2}}
		}
		w = io.NewBufBinWriter()
		w.WriteArray(ps)
		if sz, wl := io.GetVarSize(ps), len(w.Bytes()); sz != wl {
			out = append(out, mkViol("size:io.GetVarSize:slice-of-pointers", fmt.Sprintf("io.GetVarSize([]*transaction.Witness of %d) = %d but WriteArray writes %d bytes", n, sz, wl), c, nil, nil))
		}
	}
	return out, cases
}

// normalise maps an encoding to the form in which encodings are compared.
func (c *codec) normalise(b []byte) []byte {
	if c.norm != nil {
		return c.norm(b)
	}
	return b
}

// lz4Reference is a block decoder written from the LZ4 block format
// description; it shares nothing with the library under the node.
func lz4Reference(src []byte, n int) ([]byte, bool) {
	out := make([]byte, 0, n)
	i := 0
	for i < len(src) {
		tok := src[i]
		i++
		ll := int(tok >> 4)
		if ll == 15 {
			for {
				if i >= len(src) {
					return nil, false
				}
				x := src[i]
				i++
				ll += int(x)
				if x != 255 {
					break
				}
			}
		}
		if i+ll > len(src) || len(out)+ll > n {
			return nil, false
		}
		out = append(out, src[i:i+ll]...)
		i += ll
		if i >= len(src) {
			break
		}
		if i+2 > len(src) {
			return nil, false
		}
		off := int(src[i]) | int(src[i+1])<<8
		i += 2
		if off == 0 || off > len(out) {
			return nil, false
		}
		ml := int(tok & 15)
		if ml == 15 {
			for {
				if i >= len(src) {
					return nil, false
				}
				x := src[i]
				i++
				ml += int(x)
				if x != 255 {
					break
				}
			}
		}
		ml += 4
		if len(out)+ml > n {
			return nil, false
		}
		for k := 0; k < ml; k++ {
			out = append(out, out[len(out)-off])
		}
	}
	return out, len(out) == n
}

// plainFrame rewrites a compressed P2P frame as the equivalent uncompressed
// one (the compressor's output is not a function of its input alone: it
// reuses pooled match tables), leaving any other input untouched.
func plainFrame(b []byte) []byte {
	if len(b) < 3 || b[0]&byte(network.Compressed) == 0 {
		return b
	}
	r := io.NewBinReaderFromBuf(b[2:])
	p := r.ReadVarBytes(0x02000000 + 16)
	if r.Err != nil || r.Len() != 0 || len(p) < 4 {
		return b
	}
	n := int(binary.LittleEndian.Uint32(p[:4]))
	if n > 0x02000000 {
		return b
	}
	raw, ok := lz4Reference(p[4:], n)
	if !ok {
		return b
	}
	var w wbuf
	w.b(b[0] &^ byte(network.Compressed))
	w.b(b[1])
	w.varbytes(raw)
	return w.Bytes()
}

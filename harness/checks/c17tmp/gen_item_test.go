package c17tmp

import (
	"fmt"
	"math/big"

	"github.com/nspcc-dev/neo-go/pkg/core/state"
	"github.com/nspcc-dev/neo-go/pkg/smartcontract/trigger"
	"github.com/nspcc-dev/neo-go/pkg/vm/stackitem"
	"github.com/nspcc-dev/neo-go/pkg/vm/vmstate"
	"github.com/nspcc-dev/neo-go/verifharness/vlib/rng"
)

var (
	maxVMInt = new(big.Int).Sub(new(big.Int).Lsh(big.NewInt(1), 255), big.NewInt(1))
	minVMInt = new(big.Int).Neg(new(big.Int).Lsh(big.NewInt(1), 255))
)

func vmInt(r *rng.R) *big.Int {
	for {
		v := r.BigBoundary()
		if v.Cmp(maxVMInt) <= 0 && v.Cmp(minVMInt) >= 0 {
			return v
		}
	}
}

// itemOpts steers the stack item generator.
type itemOpts struct {
	protected bool // Interop / Pointer allowed (execution result stacks)
	plainJSON bool // restrict to what the lossy plain JSON form keeps stable
	maxBytes  int  // per byte string
	bin       bool // binary serialization only: items near the size limit allowed
	plain     bool // no special (maximal / deep / shared) shapes
}

type itemGen struct {
	r      *rng.R
	o      itemOpts
	items  int // remaining item budget
	bytes  int // remaining byte budget
	shape  map[string]bool
	maxDep int
	keyN   int
}

func (g *itemGen) prim() stackitem.Item {
	r := g.r
	switch r.Intn(5) {
	case 0:
		g.shape["Bool"] = true
		return stackitem.NewBool(r.Bool())
	case 1:
		g.shape["Int"] = true
		if g.o.plainJSON {
			// safe range of the plain JSON form
			return stackitem.NewBigInteger(big.NewInt(r.Int64() >> uint(11+r.Intn(53))))
		}
		return stackitem.NewBigInteger(vmInt(r))
	case 2:
		g.shape["Null"] = true
		return stackitem.Null{}
	case 3:
		if !g.o.plainJSON {
			g.shape["Buffer"] = true
			return stackitem.NewBuffer(g.data())
		}
		fallthrough
	default:
		g.shape["ByteString"] = true
		if g.o.plainJSON {
			return stackitem.NewByteArray([]byte(text(r, 24)))
		}
		return stackitem.NewByteArray(g.data())
	}
}

func (g *itemGen) data() []byte {
	n := blen(g.r, g.o.maxBytes)
	if n > g.bytes {
		n = max(g.bytes, 0)
	}
	g.bytes -= n + 6
	return g.r.Bytes(n)
}

func (g *itemGen) key() stackitem.Item {
	r := g.r
	g.keyN++
	if g.o.plainJSON {
		return stackitem.NewByteArray([]byte(fmt.Sprintf("k%d%s", g.keyN, text(r, 6))))
	}
	switch r.Intn(3) {
	case 0:
		return stackitem.NewBigInteger(big.NewInt(int64(g.keyN)*1000 + int64(r.Intn(1000))))
	case 1:
		if g.keyN <= 2 {
			return stackitem.NewBool(g.keyN == 1)
		}
		fallthrough
	default:
		b := append([]byte(fmt.Sprintf("%04d", g.keyN)), r.Bytes(r.Intn(stackitem.MaxKeySize-4+1))...)
		return stackitem.NewByteArray(b)
	}
}

func (g *itemGen) item(depth int) stackitem.Item {
	r := g.r
	g.items--
	if depth > g.maxDep {
		g.maxDep = depth
	}
	if g.items <= 0 || g.bytes <= 16 || r.Chance(3, 5) || g.o.plainJSON && depth >= 8 {
		if g.o.protected && r.Chance(1, 10) {
			if r.Bool() {
				g.shape["Interop"] = true
				return stackitem.NewInterop(nil)
			}
			g.shape["Pointer"] = true
			return stackitem.NewPointer(r.Intn(70000), nil)
		}
		return g.prim()
	}
	g.bytes -= 4
	n := r.Intn(5)
	if r.Chance(1, 12) {
		n = r.Intn(40)
	}
	switch r.Intn(3) {
	case 0, 1:
		arr := make([]stackitem.Item, 0, n)
		for i := 0; i < n && g.items > 0; i++ {
			arr = append(arr, g.item(depth+1))
		}
		if r.Bool() {
			g.shape["Array"] = true
			return stackitem.NewArray(arr)
		}
		g.shape["Struct"] = true
		return stackitem.NewStruct(arr)
	default:
		g.shape["Map"] = true
		m := stackitem.NewMap()
		for i := 0; i < n && g.items > 1; i++ {
			g.items--
			m.Add(g.key(), g.item(depth+1))
		}
		return m
	}
}

// genItem returns a serializable stack item and a shape description. Special
// shapes (chosen with small probability): the maximal item count, the
// maximal total size, a deep chain, a sub-item referenced twice.
func genItem(r *rng.R, o itemOpts) (stackitem.Item, string) {
	if o.maxBytes == 0 {
		o.maxBytes = 300
	}
	g := &itemGen{r: r, o: o, items: 1 + r.Intn(40), bytes: 4000, shape: map[string]bool{}}
	special := ""
	if !o.plainJSON && !o.plain {
		switch r.Intn(40) {
		case 0: // exactly MaxDeserialized items
			arr := make([]stackitem.Item, stackitem.MaxDeserialized-1)
			for i := range arr {
				arr[i] = stackitem.Null{}
			}
			return stackitem.NewArray(arr), "special:max-items"
		case 1: // close to MaxSize bytes in one string
			if o.bin {
				n := stackitem.MaxSize - 8 - r.Intn(3)
				return stackitem.NewArray([]stackitem.Item{stackitem.NewByteArray(r.Bytes(n))}), "special:max-size"
			}
		case 2: // deep chain
			d := 50 + r.Intn(1900)
			var it stackitem.Item = stackitem.NewBool(true)
			for i := 0; i < d; i++ {
				if i%2 == 0 {
					it = stackitem.NewArray([]stackitem.Item{it})
				} else {
					it = stackitem.NewStruct([]stackitem.Item{it})
				}
			}
			return it, "special:deep"
		case 3: // shared sub-item
			sub := stackitem.NewArray([]stackitem.Item{stackitem.NewBigInteger(vmInt(r)), stackitem.NewBuffer(r.Bytes(5))})
			return stackitem.NewArray([]stackitem.Item{sub, stackitem.NewStruct([]stackitem.Item{sub}), sub}), "special:shared"
		case 4:
			g.items = 300 + r.Intn(1500)
			g.bytes = 100000
			special = ":large"
		}
	}
	it := g.item(0)
	s := special
	keys := make([]string, 0, len(g.shape))
	for k := range g.shape {
		keys = append(keys, k)
	}
	return it, shapeSig(fmt.Sprintf("item%s:d%d", s, min(g.maxDep, 6)), keys)
}

func genArrayItem(r *rng.R, o itemOpts) *stackitem.Array {
	n := r.Intn(4)
	arr := make([]stackitem.Item, n)
	for i := range arr {
		arr[i], _ = genItem(r, o)
	}
	return stackitem.NewArray(arr)
}

// genAER returns an execution result (as stored in the database and returned
// by RPC).
func genAER(r *rng.R, invocations bool, shape *[]string) *state.AppExecResult {
	o := itemOpts{protected: true, maxBytes: 100, plain: true}
	a := &state.AppExecResult{Container: u256(r)}
	a.Trigger = []trigger.Type{trigger.OnPersist, trigger.PostPersist, trigger.Verification, trigger.Application}[r.Intn(4)]
	a.VMState = []vmstate.State{vmstate.Halt, vmstate.Fault}[r.Intn(2)]
	a.GasConsumed = int64(r.Uint64() >> uint(1+r.Intn(60)))
	for range r.Intn(4) {
		it, s := genItem(r, o)
		*shape = append(*shape, s)
		a.Stack = append(a.Stack, it)
	}
	for range r.Intn(4) {
		a.Events = append(a.Events, state.NotificationEvent{ScriptHash: u160(r), Name: text(r, 32), Item: genArrayItem(r, itemOpts{maxBytes: 60, plain: true})})
	}
	if a.VMState == vmstate.Fault || r.Chance(1, 5) {
		a.FaultException = text(r, 80)
	}
	if invocations && r.Chance(1, 3) {
		for range 1 + r.Intn(3) {
			var args []byte
			if r.Chance(3, 4) {
				args, _ = stackitem.Serialize(genArrayItem(r, itemOpts{maxBytes: 40, plain: true}))
			}
			a.Invocations = append(a.Invocations, *state.NewContractInvocation(u160(r), ident(r, 20), args, bu32(r)))
		}
		*shape = append(*shape, "invocations")
	}
	*shape = append(*shape, fmt.Sprintf("stack%d,ev%d,exc%v,%s", len(a.Stack), len(a.Events), a.FaultException != "", a.VMState))
	return a
}

// Package c10 monitors property C10: the state trie is a canonical
// authenticated map.
//
// Part "hist": seeded operation sequences (Put / Delete / PutBatch / Flush /
// Collapse / reopen-from-root-hash / reads that expand hash nodes) run against
// the real mpt.Trie in every trie mode. After every operation the root is
// compared with (a) the root of a fresh trie built from the final contents by
// single Puts and (b) an independent computation of the canonical form written
// from doc.go (three structural invariants). At flushed points Get, Find,
// TrieStore.Get/Seek and GetProof/VerifyProof answers are compared with a
// reference sorted map.
//
// Part "proof": proof tampering fuzz. VerifyProof may return (v, true) only
// when the key is present under that root and v is the stored value.
package c10

import (
	"bytes"
	"crypto/sha256"
	"encoding/binary"
	"encoding/hex"
	"errors"
	"fmt"
	"os"
	"regexp"
	"runtime"
	"sort"
	"strings"
	"sync"
	"testing"

	"github.com/nspcc-dev/neo-go/pkg/core/mpt"
	"github.com/nspcc-dev/neo-go/pkg/core/storage"
	"github.com/nspcc-dev/neo-go/pkg/util"
	"github.com/nspcc-dev/neo-go/verifharness/vlib/ev"
	"github.com/nspcc-dev/neo-go/verifharness/vlib/rng"
)

const stPrefix = byte(storage.STStorage)

type violation struct{ sig, detail string }

func hx(b []byte) string {
	if len(b) > 80 {
		h := sha256.Sum256(b)
		return fmt.Sprintf("<%d bytes %x.. sha=%x>", len(b), b[:4], h[:4])
	}
	if b == nil {
		return "nil"
	}
	return "0x" + hex.EncodeToString(b)
}

// ---------------------------------------------------------------------------
// Independent canonical form (doc.go: branch has >1 child, extension key is
// non-empty, no extension under an extension) and node serialisation.

type item struct {
	path []byte // nibbles
	val  []byte
}

func varBytes(b []byte) []byte {
	n := len(b)
	var out []byte
	switch {
	case n < 0xfd:
		out = []byte{byte(n)}
	case n <= 0xffff: // the protocol's minimal form (io.PutVarUint wrote 0xffff in the 5-byte form before fix ced8071)
		out = []byte{0xfd, 0, 0}
		binary.LittleEndian.PutUint16(out[1:], uint16(n))
	default:
		out = []byte{0xfe, 0, 0, 0, 0}
		binary.LittleEndian.PutUint32(out[1:], uint32(n))
	}
	return append(out, b...)
}

func dsha(b []byte) [32]byte {
	h := sha256.Sum256(b)
	return sha256.Sum256(h[:])
}

func leafBytes(v []byte) []byte { return append([]byte{0x02}, varBytes(v)...) }

func extBytes(key []byte, next [32]byte) []byte {
	b := append([]byte{0x01}, varBytes(key)...)
	b = append(b, 0x03)
	return append(b, next[:]...)
}

// shape counts the node kinds of the canonical form (evidence only).
type shape struct{ branch, ext, leaf, valueChild, depth int }

// specNode returns the serialised canonical node for the sorted, distinct,
// non-empty item list.
func specNode(items []item, sh *shape, depth int) []byte {
	if depth > sh.depth {
		sh.depth = depth
	}
	if len(items) == 1 && len(items[0].path) == 0 {
		sh.leaf++
		return leafBytes(items[0].val)
	}
	a, z := items[0].path, items[len(items)-1].path
	p := 0
	for p < len(a) && p < len(z) && a[p] == z[p] {
		p++
	}
	if len(items) == 1 {
		p = len(a)
	}
	if p > 0 {
		sub := make([]item, len(items))
		for i, it := range items {
			sub[i] = item{it.path[p:], it.val}
		}
		sh.ext++
		return extBytes(a[:p], dsha(specNode(sub, sh, depth+1)))
	}
	sh.branch++
	out := []byte{0x00}
	var children [17][]byte
	if len(items[0].path) == 0 {
		sh.valueChild++
		sh.leaf++
		h := dsha(leafBytes(items[0].val))
		children[16] = h[:]
		items = items[1:]
	}
	for i := 0; i < len(items); {
		c := items[i].path[0]
		j := i
		var sub []item
		for j < len(items) && items[j].path[0] == c {
			sub = append(sub, item{items[j].path[1:], items[j].val})
			j++
		}
		h := dsha(specNode(sub, sh, depth+1))
		children[c] = h[:]
		i = j
	}
	for _, c := range children {
		if c == nil {
			out = append(out, 0x04)
		} else {
			out = append(out, 0x03)
			out = append(out, c...)
		}
	}
	return out
}

func nibbles(k []byte) []byte {
	p := make([]byte, 0, 2*len(k))
	for _, b := range k {
		p = append(p, b>>4, b&0x0f)
	}
	return p
}

func sortedKeys(content map[string][]byte) []string {
	ks := make([]string, 0, len(content))
	for k := range content {
		ks = append(ks, k)
	}
	sort.Strings(ks)
	return ks
}

func specRoot(content map[string][]byte, sh *shape) util.Uint256 {
	if len(content) == 0 {
		return util.Uint256{}
	}
	var items []item
	for _, k := range sortedKeys(content) {
		items = append(items, item{nibbles([]byte(k)), content[k]})
	}
	if sh == nil {
		sh = &shape{}
	}
	return util.Uint256(dsha(specNode(items, sh, 1)))
}

func newStore() *storage.MemCachedStore {
	return storage.NewMemCachedStore(storage.NewMemoryStore())
}

// freshRoot is the oracle the property names: an empty trie filled by single
// Puts (in key order).
func freshRoot(content map[string][]byte) (root util.Uint256, err error) {
	defer func() {
		if p := recover(); p != nil {
			err = fmt.Errorf("panic: %v", p)
		}
	}()
	tr := mpt.NewTrie(nil, mpt.ModeAll, newStore())
	for _, k := range sortedKeys(content) {
		if err := tr.Put([]byte(k), content[k]); err != nil {
			return util.Uint256{}, err
		}
	}
	return tr.StateRoot(), nil
}

// ---------------------------------------------------------------------------
// Key / value universe.

var alphabet = []byte{0x00, 0x01, 0x0f, 0x10, 0x11, 0x12, 0x34, 0xf0, 0xff, 0xa5}

func genUniverse(r *rng.R) [][]byte {
	n := 5 + r.Intn(10)
	stemLens := []int{0, 0, 1, 1, 2, 3, 4, 8, 20, 33, 60, 65, 66, 67}
	sl := stemLens[r.Intn(len(stemLens))]
	stem := make([]byte, sl)
	for i := range stem {
		stem[i] = alphabet[r.Intn(len(alphabet))]
	}
	set := map[string]bool{}
	var keys [][]byte
	add := func(k []byte) {
		if len(k) == 0 || len(k) > mpt.MaxKeyLength || set[string(k)] {
			return
		}
		set[string(k)] = true
		keys = append(keys, k)
	}
	ab := func() byte { return alphabet[r.Intn(len(alphabet))] }
	if sl > 0 && r.Bool() {
		add(bytes.Clone(stem))
	}
	add(append(bytes.Clone(stem), ab()))
	for tries := 0; len(keys) < n && tries < 300; tries++ {
		base := bytes.Clone(keys[r.Intn(len(keys))])
		switch r.Intn(10) {
		case 0: // extension: base becomes a prefix of the new key
			for i := 1 + r.Intn(3); i > 0; i-- {
				base = append(base, ab())
			}
			add(base)
		case 1: // differs in the very last nibble
			base[len(base)-1] ^= byte(1 + r.Intn(15))
			add(base)
		case 2: // differs in the high nibble of the last byte
			base[len(base)-1] ^= byte(1+r.Intn(15)) << 4
			add(base)
		case 3: // differs in the middle
			i := r.Intn(len(base))
			if r.Bool() {
				base[i] ^= byte(1 + r.Intn(15))
			} else {
				base[i] ^= byte(1+r.Intn(15)) << 4
			}
			add(base)
		case 4: // maximum length key sharing everything with base
			f := ab()
			for len(base) < mpt.MaxKeyLength {
				base = append(base, f)
			}
			add(base)
		case 5: // proper prefix of base
			if len(base) > 1 {
				add(base[:1+r.Intn(len(base)-1)])
			}
		case 6: // short unrelated key
			if r.Bool() {
				add([]byte{ab()})
			} else {
				add([]byte{ab(), ab()})
			}
		case 7: // two maximum length keys differing in the last nibble only
			f := ab()
			for len(base) < mpt.MaxKeyLength {
				base = append(base, f)
			}
			add(bytes.Clone(base))
			base[len(base)-1] ^= byte(1 + r.Intn(15))
			add(base)
		case 8:
			add(append(bytes.Clone(stem), ab()))
		case 9: // extension by a zero byte / 0xff byte (ordering corner)
			if r.Bool() {
				add(append(base, 0x00))
			} else {
				add(append(base, 0xff))
			}
		}
	}
	return keys
}

// genNear returns keys that are never stored: neighbours of universe keys
// (truncations, extensions, one nibble changed). Over-long ones are returned
// separately (only VerifyProof takes them).
func genNear(r *rng.R, uni [][]byte) (near, overlong [][]byte) {
	in := map[string]bool{}
	for _, k := range uni {
		in[string(k)] = true
	}
	add := func(k []byte) {
		if len(k) == 0 || in[string(k)] {
			return
		}
		in[string(k)] = true
		if len(k) > mpt.MaxKeyLength {
			overlong = append(overlong, k)
		} else {
			near = append(near, k)
		}
	}
	for i := 0; i < 14; i++ {
		k := bytes.Clone(uni[r.Intn(len(uni))])
		switch r.Intn(6) {
		case 0:
			add(k[:len(k)-1])
		case 1:
			add(append(k, 0x00))
		case 2:
			add(append(k, alphabet[r.Intn(len(alphabet))]))
		case 3:
			j := r.Intn(len(k))
			if r.Bool() {
				k[j] ^= byte(1 + r.Intn(15))
			} else {
				k[j] ^= byte(1+r.Intn(15)) << 4
			}
			add(k)
		case 4:
			add(k[:r.Intn(len(k))])
		case 5:
			add([]byte{byte(r.Intn(256))})
		}
	}
	return
}

func genVals(r *rng.R) [][]byte {
	vals := [][]byte{{}, {0x01}, {0x02}, {0x01, 0x02}, r.Bytes(1 + r.Intn(40))}
	if r.Intn(4) == 0 {
		sizes := []int{0xfc, 0xfd, 300, 1000}
		vals = append(vals, bytes.Repeat([]byte{byte(r.Intn(256))}, sizes[r.Intn(len(sizes))]))
	}
	if r.Intn(60) == 0 {
		sizes := []int{0xffff, 0x10000, mpt.MaxValueLength}
		vals = append(vals, bytes.Repeat([]byte{byte(r.Intn(256))}, sizes[r.Intn(len(sizes))]))
	}
	return vals
}

// ---------------------------------------------------------------------------
// Reference answers.

func refFind(content map[string][]byte, prefix, from []byte, max int) []storage.KeyValue {
	var res []storage.KeyValue
	lim := append(bytes.Clone(prefix), from...)
	for _, k := range sortedKeys(content) {
		if !bytes.HasPrefix([]byte(k), prefix) {
			continue
		}
		if from != nil && bytes.Compare([]byte(k), lim) <= 0 {
			continue
		}
		if len(res) >= max {
			break
		}
		res = append(res, storage.KeyValue{Key: []byte(k), Value: content[k]})
	}
	return res
}

func kvString(l []storage.KeyValue) string {
	var b strings.Builder
	b.WriteString("[")
	for i, e := range l {
		if i > 0 {
			b.WriteString(" ")
		}
		b.WriteString(hx(e.Key)[2:] + "=" + hx(e.Value))
	}
	b.WriteString("]")
	return b.String()
}

func kvEqual(a, b []storage.KeyValue) bool {
	if len(a) != len(b) {
		return false
	}
	for i := range a {
		if !bytes.Equal(a[i].Key, b[i].Key) || !bytes.Equal(a[i].Value, b[i].Value) {
			return false
		}
	}
	return true
}

// refSeek returns the admissible answers of a TrieStore.Seek over trie keys
// (without the storage prefix byte). Forward: keys with the prefix that are
// >= prefix+start, ascending. Backward: keys with the prefix that are <=
// prefix+start, descending; for a non-empty start the documentation leaves
// open whether keys that extend prefix+start belong to the answer (the
// persistent backends include them, the memory store does not), so both
// answers are admissible.
func refSeek(content map[string][]byte, prefix, start []byte, backwards bool) [][]storage.KeyValue {
	lim := append(bytes.Clone(prefix), start...)
	var base, ext []storage.KeyValue
	ks := sortedKeys(content)
	for _, k := range ks {
		kb := []byte(k)
		if !bytes.HasPrefix(kb, prefix) {
			continue
		}
		e := storage.KeyValue{Key: kb, Value: content[k]}
		if !backwards {
			if len(start) == 0 || bytes.Compare(kb, lim) >= 0 {
				base = append(base, e)
			}
			continue
		}
		switch {
		case len(start) == 0 || bytes.Compare(kb, lim) <= 0:
			base = append(base, e)
			ext = append(ext, e)
		case bytes.HasPrefix(kb, lim):
			ext = append(ext, e)
		}
	}
	if !backwards {
		return [][]storage.KeyValue{base}
	}
	rev := func(l []storage.KeyValue) []storage.KeyValue {
		o := make([]storage.KeyValue, len(l))
		for i := range l {
			o[len(l)-1-i] = l[i]
		}
		return o
	}
	if len(ext) == len(base) {
		return [][]storage.KeyValue{rev(base)}
	}
	return [][]storage.KeyValue{rev(ext), rev(base)}
}

// divergesBelowPrefix reports whether all keys under prefix continue with a
// common nibble path R (an extension below the prefix) such that neither R nor
// start's nibbles is a prefix of the other.
func divergesBelowPrefix(content map[string][]byte, prefix, start []byte) bool {
	var first, last []byte
	for _, k := range sortedKeys(content) {
		if bytes.HasPrefix([]byte(k), prefix) {
			if first == nil {
				first = []byte(k)
			}
			last = []byte(k)
		}
	}
	if first == nil || len(start) == 0 {
		return false
	}
	a, z := nibbles(first), nibbles(last)
	n := 0
	for n < len(a) && n < len(z) && a[n] == z[n] {
		n++
	}
	r := a[2*len(prefix) : n]
	f := nibbles(start)
	m := min(len(r), len(f))
	return !bytes.Equal(r[:m], f[:m])
}

// ---------------------------------------------------------------------------
// One history.

type seq struct {
	run     *ev.Run
	r       *rng.R
	mode    mpt.TrieMode
	st      *storage.MemCachedStore
	tr      *mpt.Trie
	content map[string][]byte
	uni     [][]byte
	near    [][]byte
	over    [][]byte
	vals    [][]byte
	blk     uint32
	flushed bool // no mutation since the last Flush
	hashed  bool // the live trie was collapsed / reopened and not fully expanded since
	ops     []*op
	viols   []*violation // non-fatal violations (reads on reopened tries)
	blocks  bool         // "block profile": only what a node does to its live trie (PutBatch; Flush; sometimes Collapse(10))
	log     []string
	kinds   []string
	nontri  bool
	obs     map[string]int64
}

func modeName(m mpt.TrieMode) string {
	switch m {
	case mpt.ModeAll:
		return "ModeAll"
	case mpt.ModeLatest:
		return "ModeLatest"
	case mpt.ModeGC:
		return "ModeGC"
	case mpt.ModeGCFlag:
		return "ModeGCFlag"
	}
	return fmt.Sprint("mode", byte(m))
}

var reNum = regexp.MustCompile(`[0-9a-f]{8,}|\d+`)

func normPanic(p any) string {
	s := fmt.Sprint(p)
	s = reNum.ReplaceAllString(s, "N")
	if len(s) > 80 {
		s = s[:80]
	}
	return s
}

// guard runs f and converts a panic escaping from neo-go into a violation.
func guard(op string, f func()) (v *violation) {
	defer func() {
		if p := recover(); p != nil {
			buf := make([]byte, 4096)
			buf = buf[:runtime.Stack(buf, false)]
			v = &violation{"panic:" + op + ":" + normPanic(p), fmt.Sprintf("%v\n%s", p, buf)}
		}
	}()
	f()
	return nil
}

// report records a violation that does not end the history (wrong answer of a
// read on a reopened trie); one per signature and history.
func (s *seq) report(v *violation) {
	if v == nil {
		return
	}
	for _, o := range s.viols {
		if o.sig == v.sig {
			return
		}
	}
	s.logf("VIOLATION %s: %s", v.sig, v.detail)
	s.viols = append(s.viols, v)
}

func (s *seq) logf(format string, a ...any) { s.log = append(s.log, fmt.Sprintf(format, a...)) }

func (s *seq) anyKey() []byte {
	if s.r.Intn(5) == 0 && len(s.near) > 0 {
		return s.near[s.r.Intn(len(s.near))]
	}
	return s.uni[s.r.Intn(len(s.uni))]
}

func (s *seq) val() []byte { return s.vals[s.r.Intn(len(s.vals))] }

func (s *seq) rootNode(root util.Uint256) mpt.Node {
	if root.Equals(util.Uint256{}) {
		return nil
	}
	return mpt.NewHashNode(root)
}

// checkRoot compares the live root with the fresh-trie root and the canonical form.
func (s *seq) checkRoot(op string) *violation {
	var got util.Uint256
	if v := guard("StateRoot", func() { got = s.tr.StateRoot() }); v != nil {
		return v
	}
	want, err := freshRoot(s.content)
	if err != nil {
		return &violation{"fresh-trie-build-failed", err.Error()}
	}
	s.obs["root_comparisons"]++
	spec := specRoot(s.content, nil)
	if want != spec {
		return &violation{"fresh-trie-differs-from-canonical-form", fmt.Sprintf("fresh trie (single Puts in key order) root %s, canonical form %s, %d keys", want.StringBE(), spec.StringBE(), len(s.content))}
	}
	if got != want {
		sfx := ""
		if s.hashed {
			sfx = ":with-hash-nodes"
		}
		if s.blocks {
			sfx = ":putbatch-flush-collapse-only"
		}
		return &violation{"root-differs-from-fresh-trie:after-" + op + sfx, fmt.Sprintf("mode %s: root %s, fresh trie of the same %d pairs %s", modeName(s.mode), got.StringBE(), len(s.content), want.StringBE())}
	}
	return nil
}

func (s *seq) flush() *violation {
	s.blk++
	v := guard("Flush", func() { s.tr.Flush(s.blk) })
	s.flushed = true
	return v
}

func (s *seq) contentString() string {
	var b strings.Builder
	for _, k := range sortedKeys(s.content) {
		b.WriteString(hx([]byte(k))[2:] + "=" + hx(s.content[k]) + " ")
	}
	return b.String()
}

// checkGet compares one Get with the content.
func (s *seq) checkGet(tr *mpt.Trie, who string, k []byte) *violation {
	var got []byte
	var err error
	if v := guard("Get", func() { got, err = tr.Get(k) }); v != nil {
		return v
	}
	s.obs["gets"]++
	want, present := s.content[string(k)]
	switch {
	case present && err != nil:
		return &violation{"get-differs-from-content:present-key-not-returned", fmt.Sprintf("%s Get(%s) = error %v, content has %s", who, hx(k), err, hx(want))}
	case present && !bytes.Equal(got, want):
		return &violation{"get-differs-from-content:wrong-value", fmt.Sprintf("%s Get(%s) = %s, content has %s", who, hx(k), hx(got), hx(want))}
	case !present && err == nil:
		return &violation{"get-differs-from-content:absent-key-returned", fmt.Sprintf("%s Get(%s) = %s, key is absent", who, hx(k), hx(got))}
	case !present && !errors.Is(err, mpt.ErrNotFound):
		return &violation{"get-differs-from-content:absent-key-other-error", fmt.Sprintf("%s Get(%s) = error %v, expected ErrNotFound", who, hx(k), err)}
	}
	if present {
		s.obs["gets_present"]++
	}
	return nil
}

func (s *seq) genPrefix() []byte {
	k := s.anyKey()
	p := bytes.Clone(k[:s.r.Intn(len(k)+1)])
	if len(p) > 0 && s.r.Intn(8) == 0 {
		p[len(p)-1] ^= byte(1 + s.r.Intn(15))
	}
	return p
}

// genFrom makes a start/from value for prefix: the rest of a key, a proper
// prefix or an extension of it, a neighbour, something beyond the last key.
func (s *seq) genFrom(prefix []byte) []byte {
	var cands [][]byte
	for _, k := range s.uni {
		if bytes.HasPrefix(k, prefix) && len(k) > len(prefix) {
			cands = append(cands, k[len(prefix):])
		}
	}
	for _, k := range s.near {
		if bytes.HasPrefix(k, prefix) && len(k) > len(prefix) {
			cands = append(cands, k[len(prefix):])
		}
	}
	room := mpt.MaxKeyLength - len(prefix)
	var f []byte
	if len(cands) == 0 || s.r.Intn(6) == 0 {
		f = []byte{alphabet[s.r.Intn(len(alphabet))]}
		if s.r.Bool() {
			f = append(f, alphabet[s.r.Intn(len(alphabet))])
		}
	} else {
		f = bytes.Clone(cands[s.r.Intn(len(cands))])
		switch s.r.Intn(7) {
		case 0:
			f = f[:1+s.r.Intn(len(f))]
		case 1:
			f = append(f, 0x00)
		case 2:
			f = append(f, alphabet[s.r.Intn(len(alphabet))])
		case 3:
			f[len(f)-1]++
		case 4:
			f[len(f)-1]--
		case 5:
			f[len(f)-1] ^= byte(1+s.r.Intn(15)) << 4
		}
	}
	if len(f) > room {
		f = f[:room]
	}
	if len(f) == 0 {
		return nil
	}
	return f
}

func (s *seq) checkFind(tr *mpt.Trie, who string) *violation {
	prefix := s.genPrefix()
	var from []byte
	if s.r.Intn(3) != 0 {
		from = s.genFrom(prefix)
	}
	max := 1 + s.r.Intn(4)
	if s.r.Bool() {
		max = 100
	}
	return s.checkFindQ(tr, who, prefix, from, max)
}

func (s *seq) checkFindQ(tr *mpt.Trie, who string, prefix, from []byte, max int) *violation {
	want := refFind(s.content, prefix, from, max)
	var got []storage.KeyValue
	var err error
	if v := guard("Find", func() { got, err = tr.Find(prefix, from, max) }); v != nil {
		v.detail = fmt.Sprintf("%s Find(prefix=%s, from=%s, max=%d): %s", who, hx(prefix), hx(from), max, v.detail)
		return v
	}
	s.obs["finds"]++
	kind := "from-nil"
	if from != nil {
		kind = "from-set"
		s.obs["finds_with_from"]++
	}
	if err != nil {
		if len(want) == 0 && errors.Is(err, mpt.ErrNotFound) {
			return nil
		}
		return &violation{"find-differs-from-content:error:" + kind, fmt.Sprintf("%s Find(prefix=%s, from=%s, max=%d) = error %v, content gives %s", who, hx(prefix), hx(from), max, err, kvString(want))}
	}
	if len(want) > 0 {
		s.obs["finds_nonempty"]++
	}
	if !kvEqual(got, want) {
		return &violation{"find-differs-from-content:" + kind, fmt.Sprintf("%s Find(prefix=%s, from=%s, max=%d) = %s, content gives %s", who, hx(prefix), hx(from), max, kvString(got), kvString(want))}
	}
	return nil
}

func (s *seq) checkSeek(ts *mpt.TrieStore, who string) *violation {
	prefix := s.genPrefix()
	var start []byte
	if s.r.Intn(3) != 0 {
		start = s.genFrom(prefix)
	}
	back := s.r.Bool()
	limit := -1
	if s.r.Intn(3) == 0 {
		limit = 1 + s.r.Intn(3)
	}
	wants := refSeek(s.content, prefix, start, back)
	var got []storage.KeyValue
	badPrefix := false
	v := guard("TrieStore.Seek", func() {
		ts.Seek(storage.SeekRange{Prefix: append([]byte{stPrefix}, prefix...), Start: start, Backwards: back}, func(k, val []byte) bool {
			if len(k) == 0 || k[0] != stPrefix {
				badPrefix = true
				return false
			}
			got = append(got, storage.KeyValue{Key: bytes.Clone(k[1:]), Value: bytes.Clone(val)})
			return limit < 0 || len(got) < limit
		})
	})
	dir, st := "forward", "start-empty"
	if back {
		dir = "backward"
	}
	if len(start) > 0 {
		st = "start-set"
	}
	desc := fmt.Sprintf("%s Seek(prefix=%s, start=%s, backwards=%v, stop after %d)", who, hx(prefix), hx(start), back, limit)
	if v != nil {
		v.detail = desc + ": " + v.detail
		return v
	}
	s.obs["seeks_"+dir+"_"+st]++
	if badPrefix {
		return &violation{"seek-differs-from-content:key-without-storage-prefix", desc}
	}
	ok := false
	for _, w := range wants {
		if limit >= 0 && len(w) > limit {
			w = w[:limit]
		}
		if kvEqual(got, w) {
			ok = true
		}
	}
	if len(wants[0]) > 0 {
		s.obs["seeks_nonempty"]++
	}
	if !ok {
		alt := ""
		if len(wants) > 1 {
			alt = " or (without keys extending prefix+start) " + kvString(wants[1])
		}
		sig := "seek-differs-from-content:" + dir + ":" + st
		if divergesBelowPrefix(s.content, prefix, start) {
			// the keys under Prefix continue with one common path that differs
			// from Start (neither is a prefix of the other)
			sig = "seek-differs-from-content:start-diverges-from-common-path-below-prefix"
		}
		return &violation{sig, fmt.Sprintf("%s = %s, content gives %s%s", desc, kvString(got), kvString(wants[0]), alt)}
	}
	return nil
}

// checkProof: the proof of a present key verifies to its value; whatever
// GetProof returns for an absent key must not verify.
func (s *seq) checkProof(tr *mpt.Trie, who string, root util.Uint256, k []byte) *violation {
	var proof [][]byte
	var err error
	if v := guard("GetProof", func() { proof, err = tr.GetProof(k) }); v != nil {
		return v
	}
	want, present := s.content[string(k)]
	if present && err != nil {
		return &violation{"proof-of-present-key:getproof-failed", fmt.Sprintf("%s GetProof(%s) = error %v", who, hx(k), err)}
	}
	var got []byte
	var ok bool
	if v := guard("VerifyProof", func() { got, ok = mpt.VerifyProof(root, k, proof) }); v != nil {
		return v
	}
	s.obs["proofs_checked"]++
	if present {
		s.obs["proofs_of_present_keys"]++
		if !ok {
			return &violation{"proof-of-present-key:rejected", fmt.Sprintf("%s key %s value %s proof %s", who, hx(k), hx(want), proofString(proof))}
		}
		if !bytes.Equal(got, want) {
			return &violation{"proof-of-present-key:wrong-value", fmt.Sprintf("%s key %s stored %s verified %s", who, hx(k), hx(want), hx(got))}
		}
		return nil
	}
	if ok {
		return &violation{"proof-accepted:absent-key:from-getproof", fmt.Sprintf("%s key %s is absent, GetProof err=%v, VerifyProof returned %s", who, hx(k), err, hx(got))}
	}
	return nil
}

func proofString(p [][]byte) string {
	var l []string
	for _, e := range p {
		l = append(l, hx(e))
	}
	return "[" + strings.Join(l, ", ") + "]"
}

// trieReaderModes / storeReaderModes list the modes production code uses to
// read a store written in mode m: stateroot.Module's GetState / FindStates /
// GetStateProof / SeekStates clear the GC flag; Blockchain.GetTestHistoricVM
// and the state reset path create a TrieStore with ModeAll|ModeGCFlag.
func trieReaderModes(m mpt.TrieMode) []mpt.TrieMode {
	if m == mpt.ModeGC {
		return []mpt.TrieMode{mpt.ModeGC, mpt.ModeLatest}
	}
	return []mpt.TrieMode{m}
}

func storeReaderModes(m mpt.TrieMode) []mpt.TrieMode {
	if m == mpt.ModeGC {
		return []mpt.TrieMode{mpt.ModeGC, mpt.ModeLatest, mpt.ModeGCFlag}
	}
	return []mpt.TrieMode{m}
}

// battery runs the read checks at a flushed point on tries / a TrieStore
// reopened from the root hash (and a few on the live trie).
func (s *seq) battery(full bool) *violation {
	// Everything below reads through tries / a TrieStore reopened from the root
	// hash; a wrong answer there does not disturb the live trie, so it is
	// recorded and the history goes on.
	var root util.Uint256
	if v := guard("StateRoot", func() { root = s.tr.StateRoot() }); v != nil {
		return v
	}
	s.obs["batteries"]++
	rms := trieReaderModes(s.mode)
	rm := rms[s.r.Intn(len(rms))]
	sms := storeReaderModes(s.mode)
	sm := sms[s.r.Intn(len(sms))]
	who := "reopened(" + modeName(rm) + ")"
	reader := mpt.NewTrie(s.rootNode(root), rm, s.st)
	keys := append(append([][]byte{}, s.uni...), s.near...)
	for _, k := range keys {
		if !full && s.r.Intn(3) != 0 {
			continue
		}
		s.report(s.checkGet(reader, who, k))
	}
	nq := 4
	if full {
		nq = 10
	}
	for i := 0; i < nq; i++ {
		// a fresh trie per query, as FindStates does, or the same (already
		// partly collapsed by earlier traversals) one
		fr := reader
		if s.r.Bool() {
			fr = mpt.NewTrie(s.rootNode(root), rm, s.st)
		}
		s.report(s.checkFind(fr, who))
	}
	var ts *mpt.TrieStore
	if v := guard("NewTrieStore", func() { ts = mpt.NewTrieStore(root, sm, s.st) }); v != nil {
		return v
	}
	for i := 0; i < nq; i++ {
		s.report(s.checkSeek(ts, "TrieStore("+modeName(sm)+")"))
	}
	for i := 0; i < 3; i++ {
		k := s.anyKey()
		var got []byte
		var err error
		if v := guard("TrieStore.Get", func() { got, err = ts.Get(append([]byte{stPrefix}, k...)) }); v != nil {
			s.report(v)
			continue
		}
		s.obs["triestore_gets"]++
		want, present := s.content[string(k)]
		if present && (err != nil || !bytes.Equal(got, want)) {
			s.report(&violation{"get-differs-from-content:triestore", fmt.Sprintf("TrieStore.Get(%s) = %s, %v; content has %s", hx(k), hx(got), err, hx(want))})
		}
		if !present && !errors.Is(err, storage.ErrKeyNotFound) {
			s.report(&violation{"get-differs-from-content:triestore", fmt.Sprintf("TrieStore.Get(%s) = %s, %v; key is absent", hx(k), hx(got), err)})
		}
	}
	preader := mpt.NewTrie(s.rootNode(root), rm, s.st)
	for _, k := range keys {
		if !full && s.r.Intn(3) != 0 {
			continue
		}
		s.report(s.checkProof(preader, who, root, k))
	}
	return nil
}

// op is one recorded operation of a history (enough to re-execute it).
type op struct {
	kind    string // put del batch flush collapse reopen get proof find getall
	key     []byte
	val     []byte
	batch   map[string][]byte // trie key -> value, nil = delete
	note    string
	d       int
	persist bool
	prefix  []byte
	from    []byte
	max     int
}

func (o *op) String() string {
	switch o.kind {
	case "put":
		return fmt.Sprintf("Put %s = %s", hx(o.key), hx(o.val))
	case "del":
		return "Delete " + hx(o.key)
	case "batch":
		var d []string
		for _, k := range sortedKeys(o.batch) {
			if o.batch[k] == nil {
				d = append(d, "del "+hx([]byte(k)))
			} else {
				d = append(d, hx([]byte(k))+"="+hx(o.batch[k]))
			}
		}
		n := ""
		if o.note != "" {
			n = " (" + o.note + ")"
		}
		return "PutBatch {" + strings.Join(d, ", ") + "}" + n
	case "flush":
		return "Flush"
	case "collapse":
		return fmt.Sprintf("Flush; Collapse(%d)", o.d)
	case "reopen":
		return fmt.Sprintf("Flush; reopen from root hash (persist=%v)", o.persist)
	case "get":
		return "Get " + hx(o.key)
	case "proof":
		return "GetProof " + hx(o.key)
	case "find":
		return fmt.Sprintf("Flush; Find(prefix=%s, from=%s, max=%d) on the live trie", hx(o.prefix), hx(o.from), o.max)
	case "getall":
		return "Get every universe key on the live trie"
	}
	return o.kind
}

// gen draws the next operation.
func (s *seq) gen() *op {
	r := s.r
	w := []int{22, 12, 24, 7, 9, 6, 5, 4, 4, 3}
	if s.blocks {
		w = []int{0, 0, 1, 0, 0, 0, 0, 0, 0, 0}
		if n := len(s.ops); n > 0 && s.ops[n-1].kind == "batch" {
			if r.Intn(3) == 0 {
				return &op{kind: "collapse", d: 10}
			}
			return &op{kind: "flush"}
		}
	}
	switch r.Weighted(w) {
	case 0:
		return &op{kind: "put", key: s.uni[r.Intn(len(s.uni))], val: s.val()}
	case 1:
		k := s.anyKey()
		if len(s.content) > 0 && r.Intn(3) != 0 {
			ks := sortedKeys(s.content)
			k = []byte(ks[r.Intn(len(ks))])
		}
		return &op{kind: "del", key: k}
	case 2:
		o := &op{kind: "batch", batch: map[string][]byte{}}
		switch r.Intn(6) {
		case 0: // delete a whole sub-trie (all present keys under a prefix) and put a few
			p := s.genPrefix()
			for _, k := range sortedKeys(s.content) {
				if bytes.HasPrefix([]byte(k), p) {
					o.batch[k] = nil
					o.note = "deletes the sub-trie under " + hx(p)
				}
			}
		case 1: // delete everything but one / everything
			ks := sortedKeys(s.content)
			keep := -1
			if len(ks) > 0 && r.Bool() {
				keep = r.Intn(len(ks))
			}
			for i, k := range ks {
				if i != keep {
					o.batch[k] = nil
				}
			}
			o.note = "clears the trie"
		}
		n := 1 + r.Intn(8)
		for i := 0; i < n; i++ {
			if r.Intn(3) == 0 {
				o.batch[string(s.anyKey())] = nil
			} else {
				o.batch[string(s.uni[r.Intn(len(s.uni))])] = s.val()
			}
		}
		return o
	case 3:
		return &op{kind: "flush"}
	case 4:
		d := r.Intn(5)
		if r.Intn(6) == 0 {
			d = 10 + r.Intn(200)
		}
		return &op{kind: "collapse", d: d}
	case 5:
		return &op{kind: "reopen", persist: r.Bool()}
	case 6:
		return &op{kind: "get", key: s.anyKey()}
	case 7:
		return &op{kind: "proof", key: s.anyKey()}
	case 8:
		o := &op{kind: "find", prefix: s.genPrefix()}
		if r.Intn(3) != 0 {
			o.from = s.genFrom(o.prefix)
		}
		o.max = 1 + r.Intn(4)
		if r.Bool() {
			o.max = 100
		}
		return o
	default:
		return &op{kind: "getall"}
	}
}

func (s *seq) markMutation() {
	s.flushed = false
	if s.hashed {
		s.obs["mutations_through_hash_nodes"]++
		s.nontri = true
	}
}

// exec performs one operation on the live trie and checks what can be checked
// right after it; it returns the op kind/outcome (for the coverage signature)
// and a violation if any. With s.r == nil (re-execution by the shrinker) the
// randomised read batteries are skipped.
func (s *seq) exec(o *op) (string, *violation) {
	switch o.kind {
	case "put":
		_, had := s.content[string(o.key)]
		s.markMutation()
		var err error
		if v := guard("Put", func() { err = s.tr.Put(o.key, o.val) }); v != nil {
			return "put", v
		}
		if err != nil {
			return "put", &violation{"operation-failed:Put", fmt.Sprintf("Put(%s, %s): %v", hx(o.key), hx(o.val), err)}
		}
		s.content[string(o.key)] = o.val
		if had {
			s.obs["puts_overwriting"]++
		}
		s.obs["puts"]++
		return "put", s.checkRoot("put")
	case "del":
		_, had := s.content[string(o.key)]
		s.markMutation()
		var err error
		if v := guard("Delete", func() { err = s.tr.Delete(o.key) }); v != nil {
			return "del", v
		}
		if err != nil {
			return "del", &violation{"operation-failed:Delete", fmt.Sprintf("Delete(%s): %v", hx(o.key), err)}
		}
		delete(s.content, string(o.key))
		if had {
			s.obs["deletes_of_present_keys"]++
		} else {
			s.obs["deletes_of_absent_keys"]++
		}
		return fmt.Sprint("del:", had), s.checkRoot("delete")
	case "batch":
		var puts, delP, delA int
		bk := map[string][]byte{}
		for k, val := range o.batch {
			bk[string(stPrefix)+k] = val
			if val == nil {
				if _, ok := s.content[k]; ok {
					delP++
				} else {
					delA++
				}
			} else {
				puts++
			}
		}
		wasEmpty := len(s.content) == 0
		s.markMutation()
		var err error
		if v := guard("PutBatch", func() { _, err = s.tr.PutBatch(mpt.MapToMPTBatch(bk)) }); v != nil {
			return "batch", v
		}
		if err != nil {
			return "batch", &violation{"operation-failed:PutBatch", fmt.Sprintf("%s: %v", o, err)}
		}
		for k, val := range o.batch {
			if val == nil {
				delete(s.content, k)
			} else {
				s.content[k] = val
			}
		}
		s.obs["batches"]++
		s.obs["batch_entries"] += int64(len(o.batch))
		s.obs["batch_deletes_of_present_keys"] += int64(delP)
		s.obs["batch_deletes_of_absent_keys"] += int64(delA)
		if delP > 0 && puts > 0 {
			s.obs["batches_mixing_puts_and_deletes"]++
		}
		if strings.HasPrefix(o.note, "deletes the sub-trie") {
			s.obs["batches_deleting_a_subtrie"]++
		}
		if !wasEmpty && len(s.content) == 0 {
			s.obs["batches_emptying_the_trie"]++
		}
		if !wasEmpty && delP > 0 {
			s.nontri = true
		}
		return fmt.Sprintf("batch:%d/%d/%d", puts, delP, delA), s.checkRoot("batch")
	case "flush":
		if v := s.flush(); v != nil {
			return "flush", v
		}
		s.obs["flushes"]++
		if v := s.checkRoot("flush"); v != nil {
			return "flush", v
		}
		if s.r != nil && s.r.Bool() {
			if v := s.battery(false); v != nil {
				return "flush", v
			}
		}
		return "flush", nil
	case "collapse":
		if v := s.flush(); v != nil {
			return "collapse", v
		}
		if v := guard("Collapse", func() { s.tr.Collapse(o.d) }); v != nil {
			return "collapse", v
		}
		s.hashed = true
		s.obs["collapses"]++
		return fmt.Sprint("collapse", o.d), s.checkRoot("collapse")
	case "reopen":
		if v := s.flush(); v != nil {
			return "reopen", v
		}
		root := s.tr.StateRoot()
		if o.persist {
			if _, err := s.st.Persist(); err != nil {
				return "reopen", &violation{"operation-failed:Persist", err.Error()}
			}
		}
		s.tr = mpt.NewTrie(s.rootNode(root), s.mode, s.st)
		s.hashed = true
		s.obs["reopens"]++
		if v := s.checkRoot("reopen"); v != nil {
			return "reopen", v
		}
		if s.r != nil && s.r.Intn(3) == 0 {
			if v := s.battery(false); v != nil {
				return "reopen", v
			}
		}
		return "reopen", nil
	case "get": // expands the hash nodes on the path
		if v := s.checkGet(s.tr, "live", o.key); v != nil {
			return "get", v
		}
		return "get", s.checkRoot("get")
	case "proof": // also expands hash nodes; works on unflushed tries too
		root := s.tr.StateRoot()
		if v := s.checkProof(s.tr, "live", root, o.key); v != nil {
			return "proof", v
		}
		return "proof", s.checkRoot("getproof")
	case "find": // the traversal replaces visited sub-tries of the live trie by hash nodes
		if v := s.flush(); v != nil {
			return "find", v
		}
		if v := s.checkFindQ(s.tr, "live", o.prefix, o.from, o.max); v != nil {
			return "find", v
		}
		s.hashed = true
		return "find", s.checkRoot("find")
	case "getall":
		for _, k := range s.uni {
			if v := s.checkGet(s.tr, "live", k); v != nil {
				return "getall", v
			}
		}
		s.hashed = false
		return "getall", s.checkRoot("get")
	}
	panic("unknown op " + o.kind)
}

func newSeq(run *ev.Run, mode mpt.TrieMode) *seq {
	s := &seq{run: run, mode: mode, st: newStore(), content: map[string][]byte{}, obs: map[string]int64{}}
	s.tr = mpt.NewTrie(nil, mode, s.st)
	s.flushed = true
	return s
}

// finalChecks: flush, root, one batch into an empty trie, reads of every key.
func (s *seq) finalChecks() *violation {
	if v := s.flush(); v != nil {
		return v
	}
	if v := s.checkRoot("flush"); v != nil {
		return v
	}
	if len(s.content) > 0 {
		// the same content put by one batch into an empty trie (batch path vs single path)
		bt := mpt.NewTrie(nil, s.mode, newStore())
		bk := map[string][]byte{}
		for k, val := range s.content {
			bk[string(stPrefix)+k] = val
		}
		var err error
		if v := guard("PutBatch", func() { _, err = bt.PutBatch(mpt.MapToMPTBatch(bk)) }); v != nil {
			return v
		}
		if err != nil {
			return &violation{"operation-failed:PutBatch", "batch into empty trie: " + err.Error()}
		}
		if got, want := bt.StateRoot(), s.tr.StateRoot(); got != want {
			return &violation{"root-differs-from-fresh-trie:one-batch-into-empty-trie", fmt.Sprintf("batch root %s, single-put root %s", got.StringBE(), want.StringBE())}
		}
		s.obs["root_comparisons"]++
	}
	if s.r != nil {
		return s.battery(true)
	}
	// deterministic reads for re-executions
	root := s.tr.StateRoot()
	reader := mpt.NewTrie(s.rootNode(root), s.mode, s.st)
	for _, k := range append(append([][]byte{}, s.uni...), s.near...) {
		if v := s.checkGet(reader, "reopened", k); v != nil {
			return v
		}
		if v := s.checkGet(s.tr, "live", k); v != nil {
			return v
		}
		if v := s.checkProof(reader, "reopened", root, k); v != nil {
			return v
		}
	}
	if len(s.content) > 0 {
		return s.checkFindQ(mpt.NewTrie(s.rootNode(root), s.mode, s.st), "reopened", nil, nil, 1000)
	}
	return nil
}

// reexec runs a recorded history without randomised reads; it returns the first violation.
func reexec(mode mpt.TrieMode, uni, near [][]byte, ops []*op) *violation {
	s := newSeq(nil, mode)
	s.uni, s.near = uni, near
	for _, o := range ops {
		if _, v := s.exec(o); v != nil {
			return v
		}
	}
	return s.finalChecks()
}

// withReopens returns the history with a Flush + reopen-from-root-hash after
// every PutBatch: no in-memory node built by a batch survives it.
func withReopens(ops []*op) []*op {
	var out []*op
	for _, o := range ops {
		out = append(out, o)
		if o.kind == "batch" {
			out = append(out, &op{kind: "reopen"})
		}
	}
	return out
}

// shrink greedily removes operations and batch entries while the history
// still violates the same clause (same signature up to the first ':').
func shrink(mode mpt.TrieMode, uni, near [][]byte, ops []*op, sig string) []*op {
	class := strings.SplitN(sig, ":", 2)[0]
	fails := func(l []*op) bool {
		v := reexec(mode, uni, near, l)
		return v != nil && strings.SplitN(v.sig, ":", 2)[0] == class
	}
	if !fails(ops) {
		return nil
	}
	cur := append([]*op{}, ops...)
	for changed, rounds := true, 0; changed && rounds < 6; rounds++ {
		changed = false
		for i := len(cur) - 1; i >= 0; i-- {
			cand := append(append([]*op{}, cur[:i]...), cur[i+1:]...)
			if fails(cand) {
				cur = cand
				changed = true
			}
		}
		for i, o := range cur {
			if o.kind != "batch" {
				continue
			}
			for _, k := range sortedKeys(o.batch) {
				if len(cur[i].batch) <= 1 {
					break
				}
				nb := map[string][]byte{}
				for k2, v2 := range cur[i].batch {
					if k2 != k {
						nb[k2] = v2
					}
				}
				no := *cur[i]
				no.batch = nb
				no.note = ""
				cand := append([]*op{}, cur...)
				cand[i] = &no
				if fails(cand) {
					cur = cand
					changed = true
				}
			}
		}
	}
	return cur
}

func runSeq(run *ev.Run, idx, nops int) (*violation, *seq) {
	r := rng.New(uint64(idx) + 10_000)
	modes := []mpt.TrieMode{mpt.ModeAll, mpt.ModeLatest, mpt.ModeGC}
	s := newSeq(run, modes[idx%3])
	s.r = r
	s.blocks = idx%4 == 3
	s.uni = genUniverse(r)
	s.near, s.over = genNear(r, s.uni)
	s.vals = genVals(r)
	var ul []string
	for _, k := range s.uni {
		ul = append(ul, hx(k))
	}
	s.logf("mode=%s block-profile=%v universe=%s", modeName(s.mode), s.blocks, strings.Join(ul, " "))
	do := func(o *op) *violation {
		s.ops = append(s.ops, o)
		s.logf("%s", o)
		kind, v := s.exec(o)
		s.kinds = append(s.kinds, kind)
		s.obs["ops"]++
		return v
	}
	// start from a populated trie in half of the cases (built by one batch or by single puts)
	if r.Bool() && !s.blocks {
		b := map[string][]byte{}
		for _, k := range s.uni {
			if r.Intn(3) != 0 {
				b[string(k)] = s.val()
			}
		}
		if r.Bool() {
			if len(b) > 0 {
				if v := do(&op{kind: "batch", batch: b, note: "initial content"}); v != nil {
					return v, s
				}
			}
		} else {
			for _, k := range sortedKeys(b) {
				if v := do(&op{kind: "put", key: []byte(k), val: b[k]}); v != nil {
					return v, s
				}
			}
		}
	}
	for i := 0; i < nops; i++ {
		if v := do(s.gen()); v != nil {
			return v, s
		}
	}
	s.logf("final Flush and read battery")
	var sh shape
	specRoot(s.content, &sh)
	s.obs["final_keys"] += int64(len(s.content))
	s.obs["final_branch_nodes"] += int64(sh.branch)
	s.obs["final_extension_nodes"] += int64(sh.ext)
	s.obs["final_value_children"] += int64(sh.valueChild)
	s.obs["max_depth"] = int64(sh.depth)
	return s.finalChecks(), s
}

// ---------------------------------------------------------------------------
// Proof tampering.

type proofCase struct {
	r       *rng.R
	content map[string][]byte
	root    util.Uint256
	proofs  map[string][][]byte // of present keys
	other   [][][]byte          // proofs from an unrelated trie
	nodes   [][]byte            // every node on some proof path of the trie
	obs     map[string]int64
	depth   int
}

func cloneProof(p [][]byte) [][]byte {
	q := make([][]byte, len(p))
	for i := range p {
		q[i] = bytes.Clone(p[i])
	}
	return q
}

var tamperNames = []string{"bitflip", "drop", "shuffle", "splice-same-trie", "pad", "unchanged-other-key", "node-from-other-trie",
	"proof-from-other-trie", "random-bytes", "truncate-node", "forged-leaf", "forged-extension", "duplicate", "all-nodes", "hash-wrapped", "empty-node", "forged-branch"}

func (c *proofCase) tamper(kind int, base [][]byte, target []byte) [][]byte {
	r := c.r
	q := cloneProof(base)
	pick := func() int { return r.Intn(len(q)) }
	switch kind {
	case 0:
		if len(q) > 0 {
			i := pick()
			if len(q[i]) > 0 {
				q[i][r.Intn(len(q[i]))] ^= byte(1 << r.Intn(8))
			}
		}
	case 1:
		if len(q) > 0 {
			i := pick()
			if r.Bool() {
				i = len(q) - 1
			}
			q = append(q[:i], q[i+1:]...)
		}
	case 2:
		r.Shuffle(len(q), func(i, j int) { q[i], q[j] = q[j], q[i] })
	case 3:
		for _, k := range sortedKeys(c.content) {
			if r.Intn(2) == 0 {
				q = append(q, cloneProof(c.proofs[k])...)
			}
		}
	case 4:
		if len(q) > 0 {
			i := pick()
			q[i] = append(q[i], r.Bytes(1+r.Intn(3))...)
		}
	case 5:
	case 6:
		if len(q) > 0 && len(c.other) > 0 {
			o := c.other[r.Intn(len(c.other))]
			if len(o) > 0 {
				i := pick()
				if r.Bool() {
					i = len(q) - 1
					q[i] = bytes.Clone(o[len(o)-1])
				} else {
					q[i] = bytes.Clone(o[r.Intn(len(o))])
				}
			}
		}
	case 7:
		if len(c.other) > 0 {
			q = cloneProof(c.other[r.Intn(len(c.other))])
			if r.Bool() {
				q = append(q, cloneProof(base)...)
			}
		}
	case 8:
		n := 1 + r.Intn(4)
		q = nil
		for i := 0; i < n; i++ {
			b := r.Bytes(r.Intn(80))
			if len(b) > 0 && r.Bool() {
				b[0] = byte(r.Intn(5)) // a valid node type
			}
			q = append(q, b)
		}
		if r.Bool() {
			q = append(cloneProof(base), q...)
		}
	case 9:
		if len(q) > 0 {
			i := pick()
			q[i] = q[i][:r.Intn(len(q[i])+1)]
		}
	case 10: // a well-formed leaf with another value in place of / next to the real one
		v := r.Bytes(r.Intn(4))
		if len(q) > 0 && r.Bool() {
			q[len(q)-1] = leafBytes(v)
		} else {
			q = append(q, leafBytes(v))
		}
	case 11: // a well-formed extension leading from the target's path to a real node
		if len(c.nodes) > 0 {
			tn := nibbles(target)
			cut := 0
			if len(tn) > 0 {
				cut = r.Intn(len(tn))
			}
			key := tn[cut:]
			if len(key) > 0 && r.Bool() {
				key = key[:1+r.Intn(len(key))]
			}
			q = append(q, extBytes(key, dsha(c.nodes[r.Intn(len(c.nodes))])))
		}
	case 12:
		if len(q) > 0 {
			q = append(q, bytes.Clone(q[pick()]))
		}
	case 13:
		q = cloneProof(c.nodes)
		if r.Bool() {
			r.Shuffle(len(q), func(i, j int) { q[i], q[j] = q[j], q[i] })
		}
	case 14: // a hash node naming a real node, in place of that node
		if len(q) > 0 {
			i := pick()
			h := dsha(q[i])
			w := append([]byte{0x03}, h[:]...)
			if r.Bool() {
				q[i] = w
			} else {
				q = append(q, w)
			}
		}
	case 15:
		i := 0
		if len(q) > 0 {
			i = r.Intn(len(q) + 1)
		}
		q = append(q[:i], append([][]byte{{0x04}}, q[i:]...)...)
	case 16: // a well-formed branch whose children name real nodes
		if len(c.nodes) > 0 {
			b := []byte{0x00}
			for i := 0; i < 17; i++ {
				if r.Intn(3) == 0 {
					h := dsha(c.nodes[r.Intn(len(c.nodes))])
					b = append(b, 0x03)
					b = append(b, h[:]...)
				} else {
					b = append(b, 0x04)
				}
			}
			if len(q) > 0 && r.Bool() {
				q[pick()] = b
			} else {
				q = append(q, b)
			}
		}
	}
	return q
}

func runProofCase(run *ev.Run, idx, attempts int) (*violation, *proofCase, string) {
	r := rng.New(uint64(idx) + 50_000_000)
	c := &proofCase{r: r, content: map[string][]byte{}, proofs: map[string][][]byte{}, obs: map[string]int64{}}
	uni := genUniverse(r)
	near, over := genNear(r, uni)
	vals := genVals(r)
	if len(vals) > 6 { // keep the fuzz fast: no 64K values here
		vals = vals[:6]
	}
	mode := []mpt.TrieMode{mpt.ModeAll, mpt.ModeLatest, mpt.ModeGC}[idx%3]
	st := newStore()
	tr := mpt.NewTrie(nil, mode, st)
	otherContent := map[string][]byte{}
	for _, k := range uni {
		if r.Intn(4) != 0 {
			c.content[string(k)] = vals[r.Intn(len(vals))]
		}
		switch r.Intn(3) {
		case 0:
			if v, ok := c.content[string(k)]; ok {
				otherContent[string(k)] = v
			}
		case 1:
			otherContent[string(k)] = vals[r.Intn(len(vals))]
		}
	}
	for _, k := range near {
		if r.Intn(3) == 0 { // the unrelated trie holds keys absent from the attacked one
			otherContent[string(k)] = vals[r.Intn(len(vals))]
		}
	}
	var log []string
	for _, k := range sortedKeys(c.content) {
		log = append(log, hx([]byte(k))[2:]+"="+hx(c.content[k]))
	}
	desc := fmt.Sprintf("mode=%s content={%s}", modeName(mode), strings.Join(log, " "))
	var err error
	v := guard("build", func() {
		ks := sortedKeys(c.content)
		r.Shuffle(len(ks), func(i, j int) { ks[i], ks[j] = ks[j], ks[i] })
		for _, k := range ks {
			if err = tr.Put([]byte(k), c.content[k]); err != nil {
				return
			}
		}
		tr.Flush(1)
		if r.Bool() {
			tr = mpt.NewTrie(mpt.NewHashNode(tr.StateRoot()), mode, st)
		}
	})
	if v != nil {
		return v, c, desc
	}
	if err != nil {
		return &violation{"operation-failed:Put", err.Error()}, c, desc
	}
	if len(c.content) == 0 {
		tr = mpt.NewTrie(nil, mode, st)
	}
	c.root = tr.StateRoot()
	if spec := specRoot(c.content, nil); spec != c.root {
		return &violation{"root-differs-from-fresh-trie:after-put", fmt.Sprintf("root %s canonical %s", c.root.StringBE(), spec.StringBE())}, c, desc
	}
	seen := map[string]bool{}
	for _, k := range sortedKeys(c.content) {
		var p [][]byte
		var got []byte
		var ok bool
		if v := guard("GetProof", func() { p, err = tr.GetProof([]byte(k)) }); v != nil {
			return v, c, desc
		}
		if err != nil {
			return &violation{"proof-of-present-key:getproof-failed", fmt.Sprintf("GetProof(%s): %v", hx([]byte(k)), err)}, c, desc
		}
		if v := guard("VerifyProof", func() { got, ok = mpt.VerifyProof(c.root, []byte(k), p) }); v != nil {
			return v, c, desc
		}
		c.obs["proofs_of_present_keys"]++
		c.obs["proofs_checked"]++
		if !ok {
			return &violation{"proof-of-present-key:rejected", fmt.Sprintf("key %s value %s proof %s", hx([]byte(k)), hx(c.content[k]), proofString(p))}, c, desc
		}
		if !bytes.Equal(got, c.content[k]) {
			return &violation{"proof-of-present-key:wrong-value", fmt.Sprintf("key %s stored %s verified %s", hx([]byte(k)), hx(c.content[k]), hx(got))}, c, desc
		}
		c.proofs[k] = p
		if len(p) > c.depth {
			c.depth = len(p)
		}
		for _, n := range p {
			if !seen[string(n)] {
				seen[string(n)] = true
				c.nodes = append(c.nodes, n)
			}
		}
	}
	// unrelated trie over an overlapping key set
	ot := mpt.NewTrie(nil, mpt.ModeAll, newStore())
	for _, k := range sortedKeys(otherContent) {
		_ = ot.Put([]byte(k), otherContent[k])
	}
	for _, k := range sortedKeys(otherContent) {
		if p, err := ot.GetProof([]byte(k)); err == nil {
			c.other = append(c.other, p)
		}
	}
	targets := append(append(append([][]byte{}, uni...), near...), over...)
	targets = append(targets, []byte{}, bytes.Repeat([]byte{0x11}, 100))
	present := sortedKeys(c.content)
	for a := 0; a < attempts; a++ {
		t := targets[r.Intn(len(targets))]
		var base [][]byte
		if p, ok := c.proofs[string(t)]; ok && r.Intn(4) != 0 {
			base = p
		} else if len(present) > 0 {
			// the proof of the present key sharing the longest prefix, or any
			best, bl := present[r.Intn(len(present))], -1
			if r.Bool() {
				tn := nibbles(t)
				for _, k := range present {
					kn := nibbles([]byte(k))
					l := 0
					for l < len(kn) && l < len(tn) && kn[l] == tn[l] {
						l++
					}
					if l > bl {
						best, bl = k, l
					}
				}
			}
			base = c.proofs[best]
		}
		kind := r.Intn(len(tamperNames))
		q := c.tamper(kind, base, t)
		var got []byte
		var ok bool
		if v := guard("VerifyProof", func() { got, ok = mpt.VerifyProof(c.root, t, q) }); v != nil {
			v.sig = "verifyproof-panic:" + tamperNames[kind] + ":" + normPanicTail(v.sig)
			v.detail = fmt.Sprintf("key %s proof %s\n%s", hx(t), proofString(q), v.detail)
			return v, c, desc
		}
		c.obs["tampered_verifications"]++
		c.obs["tamper_"+tamperNames[kind]]++
		want, isPresent := c.content[string(t)]
		if isPresent {
			c.obs["tampered_against_present_key"]++
		} else {
			c.obs["tampered_against_absent_key"]++
		}
		if !ok {
			c.obs["tampered_rejected"]++
			continue
		}
		if !isPresent {
			return &violation{"proof-accepted:absent-key:" + tamperNames[kind], fmt.Sprintf("root %s key %s is absent, VerifyProof returned (%s, true) for proof %s", c.root.StringBE(), hx(t), hx(got), proofString(q))}, c, desc
		}
		if !bytes.Equal(got, want) {
			return &violation{"proof-accepted:wrong-value:" + tamperNames[kind], fmt.Sprintf("root %s key %s stores %s, VerifyProof returned (%s, true) for proof %s", c.root.StringBE(), hx(t), hx(want), hx(got), proofString(q))}, c, desc
		}
		c.obs["tampered_accepted_with_stored_value"]++
	}
	return nil, c, desc
}

func normPanicTail(sig string) string {
	if i := strings.LastIndex(sig, ":"); i >= 0 {
		return sig[i+1:]
	}
	return sig
}

// ---------------------------------------------------------------------------

var (
	sigMu   sync.Mutex
	sigSeen = map[string]bool{}
)

// firstOfSig reports whether sig is seen for the first time (only the first
// witness of a signature is kept, so only that one is minimised).
func firstOfSig(sig string) bool {
	sigMu.Lock()
	defer sigMu.Unlock()
	if sigSeen[sig] {
		return false
	}
	sigSeen[sig] = true
	return true
}

func parallel(n int, f func(i int)) {
	var wg sync.WaitGroup
	ch := make(chan int, 256)
	for w := 0; w < runtime.NumCPU(); w++ {
		wg.Add(1)
		go func() {
			defer wg.Done()
			for i := range ch {
				f(i)
			}
		}()
	}
	for i := 0; i < n; i++ {
		ch <- i
	}
	close(ch)
	wg.Wait()
}

func TestCheck(t *testing.T) {
	run := ev.Start("C10", "hist: seeded sequences of Put/Delete/PutBatch (mixed puts and deletes, deletes of absent keys and of whole sub-tries)/Flush/Collapse(d)/reopen-from-root-hash/Get/GetProof/Find on tries in ModeAll, ModeLatest and ModeGC over 5-14 keys built to share long nibble prefixes, be prefixes of each other, reach the maximum length and carry empty, equal and large values; every 4th sequence uses only what a node applies to its live trie (PutBatch; Flush; sometimes Collapse(10)); the root is compared with a fresh trie after every operation and reads (Get, Find, TrieStore.Get/Seek, proofs) with a reference sorted map at flushed points; a case is one sequence, distinct by (mode, operation/outcome sequence), non-trivial if a batch deleted present keys from a non-empty trie or a mutation went through hash nodes. proof: one trie per case, proofs of all present keys plus seeded tamperings verified against present, absent, neighbouring, empty and over-long keys; distinct by (mode, key count, proof depths), non-trivial if some proof has >= 3 nodes")
	defer run.Finish()
	run.Assume("the reference is a Go map plus sorting; the canonical form (doc.go invariants, node serialisation, double SHA-256) is re-implemented in the harness and must agree with the fresh trie built by single Puts")
	run.Assume("Collapse, reopen and Find on the live trie are always preceded by Flush (documented precondition); batches never contain the empty key or over-long keys/values (Put rejects them, production never produces them)")
	run.Assume("for backward TrieStore.Seek with a non-empty Start both documented readings (with or without keys extending Prefix+Start) are accepted")
	run.Assume("proof soundness rests on SHA-256; the fuzz looks for structural acceptance paths only")
	run.Note("signatures", "a wrong root / live read that disappears when the same history is re-executed with Flush + reopen-from-root-hash after every PutBatch is reported as history-dependence:in-memory-nodes-left-by-putbatch (symptom kept in the witness); wrong answers of reads on reopened tries do not end the history")
	part := os.Getenv("VERIF_PART")
	if part == "" {
		part = "all"
	}
	if part == "all" || part == "hist" {
		nseq := ev.Pick(6000, 400000)
		nops := 25
		parallel(nseq, func(i int) {
			id := fmt.Sprint("seq", i)
			if !run.Want(id) {
				return
			}
			v, s := runSeq(run, i, nops)
			run.Case("hist "+modeName(s.mode)+" "+strings.Join(s.kinds, ","), s.nontri)
			for k, n := range s.obs {
				if k == "max_depth" {
					run.ObsMax(k, n)
				} else {
					run.Obs(k, n)
				}
			}
			run.Obs("sequences_"+modeName(s.mode), 1)
			if s.blocks {
				run.Obs("sequences_putbatch_flush_collapse_only", 1)
			}
			if i < 2 {
				run.Sample(map[string]any{"case": id, "ops": s.log})
			}
			for _, nv := range s.viols {
				run.Violation(nv.sig, id, nv.detail, map[string]any{"mode": modeName(s.mode), "ops": s.log, "detail": nv.detail})
			}
			if v != nil {
				s.logf("content now: %s", s.contentString())
				w := map[string]any{"mode": modeName(s.mode), "ops": s.log, "detail": v.detail}
				symptom := v.sig
				if !strings.HasPrefix(v.sig, "seek-") && !strings.HasPrefix(v.sig, "panic:") {
					// Same history without random reads: still wrong? And with every
					// PutBatch followed by Flush + reopen from the root hash?
					cls := func(x *violation) string {
						if x == nil {
							return ""
						}
						return strings.SplitN(x.sig, ":", 2)[0]
					}
					v1 := reexec(s.mode, s.uni, s.near, s.ops)
					if v1 != nil && cls(reexec(s.mode, s.uni, s.near, withReopens(s.ops))) != cls(v1) {
						w["symptom"] = v.sig
						w["note"] = "the same history does not show this when the trie is flushed and reopened from its root hash after every PutBatch"
						v.detail = v.sig + ": " + v.detail
						v.sig = "history-dependence:in-memory-nodes-left-by-putbatch"
						if s.blocks {
							v.sig += ":putbatch-flush-collapse-only"
						}
					}
				}
				if firstOfSig(v.sig) {
					if m := shrink(s.mode, s.uni, s.near, s.ops, symptom); m != nil {
						var l []string
						for _, o := range m {
							l = append(l, o.String())
						}
						mv := reexec(s.mode, s.uni, s.near, m)
						w["minimized_ops"] = l
						w["minimized_outcome"] = mv.sig + ": " + mv.detail
					}
				}
				run.Violation(v.sig, id, v.detail, w)
			}
		})
	}
	if part == "all" || part == "proof" {
		ncase := ev.Pick(2000, 120000)
		attempts := 120
		parallel(ncase, func(i int) {
			id := fmt.Sprint("proof", i)
			if !run.Want(id) {
				return
			}
			v, c, desc := runProofCase(run, i, attempts)
			var depths []int
			for _, k := range sortedKeys(c.content) {
				depths = append(depths, len(c.proofs[k]))
			}
			run.Case(fmt.Sprint("proof ", i%3, len(c.content), depths), c.depth >= 3)
			for k, n := range c.obs {
				run.Obs(k, n)
			}
			run.ObsMax("max_proof_nodes", int64(c.depth))
			if i < 2 {
				run.Sample(map[string]any{"case": id, "trie": desc, "tampered_verifications": c.obs["tampered_verifications"], "accepted_with_stored_value": c.obs["tampered_accepted_with_stored_value"]})
			}
			if v != nil {
				run.Violation(v.sig, id, v.detail, map[string]any{"trie": desc, "detail": v.detail})
			}
		})
	}
}

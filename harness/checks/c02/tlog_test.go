package c02

import (
	"fmt"
	"math"
	"sort"
	"testing"

	"github.com/nspcc-dev/neo-go/pkg/config"
	"github.com/nspcc-dev/neo-go/pkg/core"
	"github.com/nspcc-dev/neo-go/pkg/core/state"
	"github.com/nspcc-dev/neo-go/pkg/core/transaction"
	"github.com/nspcc-dev/neo-go/pkg/neotest"
	"github.com/nspcc-dev/neo-go/pkg/util"
	"github.com/nspcc-dev/neo-go/verifharness/vlib/ev"
	"github.com/nspcc-dev/neo-go/verifharness/vlib/vchain"
)

// tokenAccounts lists every account that has a GAS or NEO account record.
func tokenAccounts(bc *core.Blockchain) []util.Uint160 {
	seen := map[util.Uint160]bool{}
	for _, n := range bc.GetNatives() {
		if n.Manifest.Name != "GasToken" && n.Manifest.Name != "NeoToken" {
			continue
		}
		bc.SeekStorage(n.ID, []byte{20}, func(k, v []byte) bool {
			if len(k) == 20 {
				u, err := util.Uint160DecodeBytesBE(k)
				if err == nil {
					seen[u] = true
				}
			}
			return true
		})
	}
	var res []util.Uint160
	for u := range seen {
		res = append(res, u)
	}
	sort.Slice(res, func(i, j int) bool { return res[i].Less(res[j]) })
	return res
}

// transferHistory renders what the node reports about the token history of acc:
// the NEP-17 transfer log (newest first, as served by the RPC) and the
// last-updated heights.
func transferHistory(bc *core.Blockchain, acc util.Uint160) (string, int) {
	var lines []string
	err := bc.ForEachNEP17Transfer(acc, math.MaxUint64, func(t *state.NEP17Transfer) (bool, error) {
		tx := "nil"
		if t.Tx != (util.Uint256{}) {
			tx = t.Tx.StringLE()[:12]
		}
		lines = append(lines, fmt.Sprintf("asset=%d cp=%s amount=%s block=%d ts=%d tx=%s", t.Asset, t.Counterparty.StringLE()[:10], t.Amount, t.Block, t.Timestamp, tx))
		return true, nil
	})
	if err != nil {
		lines = append(lines, "error: "+err.Error())
	}
	lu, err := bc.GetTokenLastUpdated(acc)
	if err != nil {
		lines = append(lines, "last-updated error: "+err.Error())
	} else {
		var ids []int
		for id := range lu {
			ids = append(ids, int(id))
		}
		sort.Ints(ids)
		for _, id := range ids {
			lines = append(lines, fmt.Sprintf("last-updated asset=%d height=%d", id, lu[int32(id)]))
		}
	}
	s := ""
	for _, l := range lines {
		s += l + "\n"
	}
	return s, len(lines)
}

// compareTransferHistories: what two nodes at the same height report about the
// token history of every account must be the same. Returns the first
// difference.
func compareTransferHistories(run *ev.Run, a, b *core.Blockchain) string {
	accs := tokenAccounts(b)
	for _, acc := range accs {
		ha, na := transferHistory(a, acc)
		hb, nb := transferHistory(b, acc)
		run.Obs("transfer_histories_compared", 1)
		if nb > 129 {
			run.Obs("transfer_histories_compared_with_more_than_one_log_batch", 1)
		}
		if ha != hb {
			return fmt.Sprintf("account %s: %d entries on the reset node, %d on the fresh one\nreset node:\n%s\nfresh node:\n%s", acc.StringLE(), na, nb, clip(ha), clip(hb))
		}
	}
	return ""
}

func clip(s string) string {
	if len(s) > 1500 {
		return s[:700] + "\n...\n" + s[len(s)-700:]
	}
	return s
}

// pred returns the account that sorts immediately before acc in the key order
// of the transfer log (big-endian bytes).
func pred(acc util.Uint160) util.Uint160 {
	b := acc.BytesBE()
	for i := len(b) - 1; i >= 0; i-- {
		if b[i] != 0 {
			b[i]--
			break
		}
		b[i] = 0xff
	}
	u, _ := util.Uint160DecodeBytesBE(b)
	return u
}

// longReset: a reset on a chain long enough for accounts to have several
// batches of transfer log records, with fresh accounts sorting right before the
// busy ones receiving their first tokens above the reset height. The reset
// node must report the same token history as a node that only ever
// synchronised to the target.
func longReset(t *testing.T, run *ev.Run, idx int, p *vchain.Producer, proto func(*config.Blockchain), lateFrom int) {
	for ti, target := range []int{lateFrom - 2, len(p.Raw) - 1, lateFrom - 140} {
		id := fmt.Sprintf("page%d/long-reset/to%d", idx, target)
		if target < 1 || !run.Want(id) {
			continue
		}
		run.Case(id, true)
		full, err := vchain.OpenReplica(t, vchain.ReplicaCfg{Name: "full", Cfg: proto})
		if err != nil {
			t.Fatal(err)
		}
		for i := range p.Raw {
			if err := full.AddRaw(p.Raw[i]); err != nil {
				t.Fatalf("long reset: full node: %v", err)
			}
			if i%500 == 499 {
				_ = full.Flush()
			}
		}
		full.BC.Close()
		bc, _, _, err := vchain.OpenChainNoRun(t, false, proto, full.Store)
		if err != nil {
			run.Violation("reset:reopen-before-reset-failed", id, err.Error(), nil)
			continue
		}
		var rerr error
		func() {
			defer func() {
				if x := recover(); x != nil {
					rerr = fmt.Errorf("panic: %v", x)
				}
			}()
			rerr = bc.Reset(uint32(target))
		}()
		if rerr != nil {
			run.Violation("reset:uninterrupted-reset-failed", id, rerr.Error(), map[string]any{"target": target, "height": len(p.Raw)})
			continue
		}
		fresh, err := vchain.OpenReplica(t, vchain.ReplicaCfg{Name: "fresh", Cfg: proto})
		if err != nil {
			t.Fatal(err)
		}
		for i := 0; i < target; i++ {
			if err := fresh.AddRaw(p.Raw[i]); err != nil {
				t.Fatalf("long reset: fresh node: %v", err)
			}
		}
		run.Obs("long_resets", 1)
		if d := compareTransferHistories(run, bc, fresh.BC); d != "" {
			run.Violation("reset:token-transfer-history-differs-from-fresh-node", id, d, map[string]any{"target": target, "from": len(p.Raw), "kind": "long", "n": ti})
		}
		fresh.Close()
		_ = full.Store.RealClose()
	}
}

// lateNeighbours builds transfers of one GAS fraction to the accounts sorting
// right before every account that already has token records.
func lateNeighbours(p *vchain.Producer) []*transaction.Transaction {
	var txs []*transaction.Transaction
	for _, acc := range tokenAccounts(p.BC) {
		txs = append(txs, p.Call("gas-to-neighbour", []neotest.Signer{p.Val}, p.GasH, "transfer", p.Val.ScriptHash(), pred(acc), int64(1), nil))
	}
	return txs
}

package c02

import (
	"fmt"
	"testing"

	"github.com/nspcc-dev/neo-go/pkg/config"
	"github.com/nspcc-dev/neo-go/pkg/core"
	"github.com/nspcc-dev/neo-go/pkg/core/transaction"
	"github.com/nspcc-dev/neo-go/pkg/neotest"
	"github.com/nspcc-dev/neo-go/pkg/util"
	"github.com/nspcc-dev/neo-go/verifharness/vlib/ev"
	"github.com/nspcc-dev/neo-go/verifharness/vlib/vchain"
)

// compareTransferHistories: what two nodes at the same height report about the
// token history of every account must be the same. Returns the first
// difference.
func compareTransferHistories(run *ev.Run, a, b *core.Blockchain) string {
	d, n, multi := vchain.DiffTransferHistories(a, b, true)
	run.Obs("transfer_histories_compared", int64(n))
	run.Obs("transfer_histories_compared_with_more_than_one_log_batch", int64(multi))
	return d
}

// pred returns the account that sorts immediately before acc in the key order
// of the transfer log (big-endian bytes).
func pred(acc util.Uint160) util.Uint160 {
	b := acc.BytesBE()
	for i := len(b) - 1; i >= 0; i-- {
		if b[i] != 0 {
			b[i]--
			break
		}
		b[i] = 0xff
	}
	u, _ := util.Uint160DecodeBytesBE(b)
	return u
}

// longReset: a reset on a chain long enough for accounts to have several
// batches of transfer log records, with fresh accounts sorting right before the
// busy ones receiving their first tokens above the reset height. The reset
// node must report the same token history as a node that only ever
// synchronised to the target.
func longReset(t *testing.T, run *ev.Run, idx int, p *vchain.Producer, proto func(*config.Blockchain), lateFrom int) {
	for ti, target := range []int{lateFrom - 2, len(p.Raw) - 1, lateFrom - 140} {
		id := fmt.Sprintf("page%d/long-reset/to%d", idx, target)
		if target < 1 || !run.Want(id) {
			continue
		}
		run.Case(id, true)
		full, err := vchain.OpenReplica(t, vchain.ReplicaCfg{Name: "full", Cfg: proto})
		if err != nil {
			t.Fatal(err)
		}
		for i := range p.Raw {
			if err := full.AddRaw(p.Raw[i]); err != nil {
				t.Fatalf("long reset: full node: %v", err)
			}
			if i%500 == 499 {
				_ = full.Flush()
			}
		}
		full.BC.Close()
		bc, _, _, err := vchain.OpenChainNoRun(t, false, proto, full.Store)
		if err != nil {
			run.Violation("reset:reopen-before-reset-failed", id, err.Error(), nil)
			continue
		}
		var rerr error
		func() {
			defer func() {
				if x := recover(); x != nil {
					rerr = fmt.Errorf("panic: %v", x)
				}
			}()
			rerr = bc.Reset(uint32(target))
		}()
		if rerr != nil {
			run.Violation("reset:uninterrupted-reset-failed", id, rerr.Error(), map[string]any{"target": target, "height": len(p.Raw)})
			continue
		}
		fresh, err := vchain.OpenReplica(t, vchain.ReplicaCfg{Name: "fresh", Cfg: proto})
		if err != nil {
			t.Fatal(err)
		}
		for i := 0; i < target; i++ {
			if err := fresh.AddRaw(p.Raw[i]); err != nil {
				t.Fatalf("long reset: fresh node: %v", err)
			}
		}
		run.Obs("long_resets", 1)
		// what the two nodes report about the header chain, for every index up
		// to beyond the height the chain had before the reset
		if bc.HeaderHeight() != fresh.BC.HeaderHeight() || bc.BlockHeight() != fresh.BC.BlockHeight() {
			run.Violation("reset:height-differs-from-fresh-node", id, fmt.Sprintf("reset node at %d/%d, fresh node at %d/%d", bc.BlockHeight(), bc.HeaderHeight(), fresh.BC.BlockHeight(), fresh.BC.HeaderHeight()), map[string]any{"target": target, "from": len(p.Raw)})
		}
		for i := 0; i <= len(p.Raw)+3; i++ {
			a, b := bc.GetHeaderHash(uint32(i)), fresh.BC.GetHeaderHash(uint32(i))
			run.Obs("long_reset_header_hashes_compared", 1)
			if a != b {
				run.Violation("reset:header-hash-differs-from-fresh-node", id, fmt.Sprintf("index %d: reset node %s, fresh node %s (reset from %d to %d)", i, a.StringLE(), b.StringLE(), len(p.Raw), target), map[string]any{"target": target, "from": len(p.Raw), "index": i})
				break
			}
		}
		if d := compareTransferHistories(run, bc, fresh.BC); d != "" {
			run.Violation("reset:token-transfer-history-differs-from-fresh-node", id, d, map[string]any{"target": target, "from": len(p.Raw), "kind": "long", "n": ti})
		}
		fresh.Close()
		_ = full.Store.RealClose()
	}
}

// lateNeighbours builds transfers of one GAS fraction to the accounts sorting
// right before every account that already has token records.
func lateNeighbours(p *vchain.Producer) []*transaction.Transaction {
	var txs []*transaction.Transaction
	for _, acc := range vchain.TokenAccounts(p.BC) {
		txs = append(txs, p.Call("gas-to-neighbour", []neotest.Signer{p.Val}, p.GasH, "transfer", p.Val.ScriptHash(), pred(acc), int64(1), nil))
	}
	return txs
}

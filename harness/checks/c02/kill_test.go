package c02

import (
	"bytes"
	"encoding/json"
	"fmt"
	"os"
	"os/exec"
	"path/filepath"
	"strconv"
	"strings"
	"syscall"
	"testing"
	"time"

	"github.com/nspcc-dev/neo-go/verifharness/vlib/ev"
	"github.com/nspcc-dev/neo-go/verifharness/vlib/rng"
	"github.com/nspcc-dev/neo-go/verifharness/vlib/vchain"
)

// The kill part checks the premise of the property on the real persistent
// backends: a batch handed to the database (one PutChangeSet, i.e. everything a
// flush writes) is all-or-nothing when the process dies. A child process
// writes deterministic batches of very different sizes to a real BoltDB /
// LevelDB; the parent kills it (SIGKILL) at seeded moments, reopens the
// database and compares its whole content with the net effect of the first g
// batches, g being the generation marker found in it.

type killSpec struct {
	Backend string `json:"backend"`
	Dir     string `json:"dir"`
	Seed    uint64 `json:"seed"`
	Ack     string `json:"ack"`
	Max     int    `json:"max"`
}

const killMarker = "\x02generation"

var killSizes = []int{3, 60, 900, 4095, 4096, 4097, 9000, 20000, 1, 12000}

// killBatch returns batch g of the sequence: the two maps a flush passes to
// the backend (generic keys, contract storage keys). Keys are drawn from a
// small universe so that later batches overwrite and delete earlier data.
func killBatch(seed uint64, g int) (map[string][]byte, map[string][]byte) {
	r := rng.New(seed*1_000_003 + uint64(g))
	n := killSizes[r.Intn(len(killSizes))]
	mem, st := map[string][]byte{}, map[string][]byte{}
	for j := 0; j < n; j++ {
		id := r.Intn(40000)
		var m map[string][]byte
		var k string
		if id%2 == 0 {
			m, k = mem, "\x01k"+strconv.Itoa(id)
		} else {
			m, k = st, "\x70k"+strconv.Itoa(id)
		}
		if r.Intn(6) == 0 {
			m[k] = nil // delete
		} else {
			m[k] = []byte(fmt.Sprintf("g%d-%d-%s", g, j, strings.Repeat("v", r.Intn(40))))
		}
	}
	mem[killMarker] = []byte(strconv.Itoa(g))
	return mem, st
}

func applyBatch(model map[string][]byte, mem, st map[string][]byte) {
	for _, m := range []map[string][]byte{mem, st} {
		for k, v := range m {
			if v == nil {
				delete(model, k)
			} else {
				model[k] = v
			}
		}
	}
}

// killChild is the writer process.
func killChild(specPath string) {
	var sp killSpec
	b, err := os.ReadFile(specPath)
	if err != nil || json.Unmarshal(b, &sp) != nil {
		fmt.Println("kill child: bad spec")
		os.Exit(3)
	}
	st, err := vchain.NewBackend(sp.Backend, sp.Dir)
	if err != nil {
		fmt.Println("kill child: open:", err)
		os.Exit(3)
	}
	g := 0
	if v, err := st.Get([]byte(killMarker)); err == nil {
		g, _ = strconv.Atoi(string(v))
	}
	ack, err := os.OpenFile(sp.Ack, os.O_APPEND|os.O_CREATE|os.O_WRONLY, 0o644)
	if err != nil {
		os.Exit(3)
	}
	for g < sp.Max {
		g++
		mem, stor := killBatch(sp.Seed, g)
		fmt.Fprintf(ack, "start %d\n", g)
		if err := st.PutChangeSet(mem, stor); err != nil {
			fmt.Fprintf(ack, "error %d %v\n", g, err)
			os.Exit(4)
		}
		fmt.Fprintf(ack, "ack %d\n", g)
	}
	_ = st.Close()
	os.Exit(0)
}

func killPart(t *testing.T, run *ev.Run) {
	bin := os.Getenv("VERIF_BIN")
	if bin == "" {
		bin = os.Args[0]
	}
	if abs, err := filepath.Abs(bin); err == nil {
		bin = abs
	}
	kills := ev.Pick(14, 120)
	for bi, backend := range []string{"bolt", "level"} {
		id := "kill/" + backend
		if !run.Want(id) {
			continue
		}
		dir := t.TempDir()
		seed := uint64(ev.Seed())*10 + uint64(bi)
		r := rng.New(seed + 2_000_000)
		sp := killSpec{Backend: backend, Dir: dir, Seed: seed, Ack: filepath.Join(dir, "ack.log"), Max: 100000}
		specPath := filepath.Join(dir, "spec.json")
		sb, _ := json.Marshal(&sp)
		if err := os.WriteFile(specPath, sb, 0o644); err != nil {
			t.Fatal(err)
		}
		model := map[string][]byte{}
		modelGen := 0
		inside := 0
		var vio string
		var vioDetail string
		for k := 0; k < kills && vio == ""; k++ {
			logf, _ := os.Create(filepath.Join(dir, "child.log"))
			cmd := exec.Command(bin, "-test.run", "^TestCheck$", "-test.timeout", "0")
			cmd.Env = append(os.Environ(), "C02_KILL_CHILD="+specPath, "GOMAXPROCS=2")
			cmd.Stdout, cmd.Stderr = logf, logf
			cmd.Dir = dir
			if err := cmd.Start(); err != nil {
				t.Fatalf("cannot start the writer process: %v", err)
			}
			delay := time.Duration(20+r.Intn(380)) * time.Millisecond
			if k%5 == 4 {
				delay = time.Duration(400+r.Intn(1200)) * time.Millisecond
			}
			time.Sleep(delay)
			_ = cmd.Process.Signal(syscall.SIGKILL)
			_ = cmd.Wait()
			logf.Close()
			run.Obs("writer_processes_killed", 1)
			// what the writer had been told before it died
			acked, started := 0, 0
			if ab, err := os.ReadFile(sp.Ack); err == nil {
				for _, l := range strings.Split(string(ab), "\n") {
					f := strings.Fields(l)
					if len(f) == 2 && f[0] == "ack" {
						acked, _ = strconv.Atoi(f[1])
					}
					if len(f) == 2 && f[0] == "start" {
						started, _ = strconv.Atoi(f[1])
					}
					if len(f) >= 2 && f[0] == "error" {
						vio, vioDetail = "kill:write-failed", l
					}
				}
			}
			if started > acked {
				inside++
				run.Obs("kills_landed_inside_a_batch_write", 1)
			}
			st, err := vchain.NewBackend(backend, dir)
			if err != nil {
				vio, vioDetail = "kill:database-cannot-be-reopened-after-crash", fmt.Sprintf("kill %d: %v", k, err)
				break
			}
			dump := vchain.Dump(st)
			_ = st.Close()
			gdb := 0
			if v, ok := dump[killMarker]; ok {
				gdb, _ = strconv.Atoi(string(v))
			}
			if gdb < acked {
				vio, vioDetail = "kill:acknowledged-batch-lost-by-crash", fmt.Sprintf("kill %d: batch %d was acknowledged, the database is at %d", k, acked, gdb)
				break
			}
			// the database must be exactly the net effect of batches 1..g for
			// g = acked or acked+1 (the batch in flight)
			ok := false
			var firstDiff string
			for _, g := range []int{acked, acked + 1} {
				for modelGen < g {
					modelGen++
					m, s := killBatch(seed, modelGen)
					applyBatch(model, m, s)
				}
				if modelGen != g {
					continue // the model is already one ahead: only that one can be compared
				}
				if d := diffModel(model, dump); d == "" {
					ok = true
					break
				} else if firstDiff == "" {
					firstDiff = fmt.Sprintf("against batches 1..%d: %s", g, d)
				}
			}
			if modelGen == acked+1 && !ok {
				// compare with 1..acked as well: rebuild the smaller model
				small := map[string][]byte{}
				for g := 1; g <= acked; g++ {
					m, s := killBatch(seed, g)
					applyBatch(small, m, s)
				}
				if d := diffModel(small, dump); d == "" {
					ok = true
					// the in-flight batch did not make it: the writer will redo it
					model, modelGen = small, acked
				} else {
					firstDiff = fmt.Sprintf("against batches 1..%d: %s; %s", acked, d, firstDiff)
				}
			}
			run.Obs("databases_compared_after_crash", 1)
			run.Obs("keys_compared_after_crash", int64(len(dump)))
			if !ok {
				vio = "kill:batch-torn-by-crash"
				vioDetail = fmt.Sprintf("kill %d after %v: last acknowledged batch %d, last started %d (%d keys), marker in the database %d; content equals neither prefix: %s", k, delay, acked, started, batchLen(seed, started), gdb, firstDiff)
			}
		}
		run.Case(id, inside > 0)
		if vio != "" {
			run.Violation(vio+":"+backend, id, vioDetail, map[string]any{"backend": backend, "seed": seed, "detail": vioDetail})
		}
	}
}

func batchLen(seed uint64, g int) int {
	if g <= 0 {
		return 0
	}
	m, s := killBatch(seed, g)
	return len(m) + len(s)
}

func diffModel(model, dump map[string][]byte) string {
	for k, v := range model {
		d, ok := dump[k]
		if !ok {
			return fmt.Sprintf("key %q missing", k)
		}
		if !bytes.Equal(d, v) {
			return fmt.Sprintf("key %q = %q, want %q", k, d, v)
		}
	}
	for k := range dump {
		if _, ok := model[k]; !ok {
			return fmt.Sprintf("extra key %q = %q", k, dump[k])
		}
	}
	return ""
}

// Package c02 decides property C02 (a crash at any flush boundary leaves a
// consistent, resumable prefix) by recording every atomic batch a node writes
// to its database and reopening the database at every prefix of that log.
package c02

import (
	"fmt"
	"os"
	"reflect"
	"runtime"
	"sort"
	"strconv"
	"strings"
	"sync"
	"sync/atomic"
	"testing"
	"time"

	"github.com/nspcc-dev/neo-go/pkg/config"
	"github.com/nspcc-dev/neo-go/pkg/core"
	"github.com/nspcc-dev/neo-go/pkg/core/block"
	"github.com/nspcc-dev/neo-go/pkg/core/native/noderoles"
	"github.com/nspcc-dev/neo-go/pkg/core/state"
	"github.com/nspcc-dev/neo-go/pkg/core/stateroot"
	"github.com/nspcc-dev/neo-go/pkg/core/storage"
	"github.com/nspcc-dev/neo-go/pkg/core/transaction"
	"github.com/nspcc-dev/neo-go/pkg/crypto/keys"
	"github.com/nspcc-dev/neo-go/pkg/io"
	"github.com/nspcc-dev/neo-go/pkg/neotest"
	"github.com/nspcc-dev/neo-go/pkg/smartcontract"
	"github.com/nspcc-dev/neo-go/pkg/vm/emit"
	"github.com/nspcc-dev/neo-go/pkg/vm/opcode"
	"github.com/nspcc-dev/neo-go/verifharness/vlib/ev"
	"github.com/nspcc-dev/neo-go/verifharness/vlib/rng"
	"github.com/nspcc-dev/neo-go/verifharness/vlib/vchain"
)

type outcome struct{ sig, detail string }

// observe guards Observe against panics of a badly initialised node.
func observe(rep *vchain.Replica, opts vchain.ObsOpts) (o *vchain.Observation, err error) {
	defer func() {
		if x := recover(); x != nil {
			err = fmt.Errorf("panic while reading the node's state: %v", x)
		}
	}()
	return vchain.Observe(rep.BC, opts), nil
}

// skip lists observation fields that may legitimately differ on a reopened
// prefix: headers may have been persisted ahead of blocks.
func obsDiff(a, b *vchain.Observation) (string, string) {
	for i := range a.Names {
		n := a.Names[i]
		if n == "header_height" {
			continue
		}
		if i >= len(b.Names) || b.Names[i] != n {
			return "fields", "field lists differ at " + n
		}
		if a.Vals[i] != b.Vals[i] {
			short := n
			if j := strings.IndexByte(n, ':'); j > 0 && !strings.HasPrefix(n[j+1:], "-") {
				short = n[:j]
			}
			return short, fmt.Sprintf("%s: %.200s vs %.200s", n, a.Vals[i], b.Vals[i])
		}
	}
	return "", ""
}

// recordedRun is the batch log of one node run plus, per batch, the highest
// block the node had accepted when the batch was issued.
type recordedRun struct {
	log      []vchain.Batch
	accepted []int
	sched    []string
	scribble string
}

func stageName(content map[string][]byte) string {
	v, ok := content[string([]byte{byte(storage.SYSStateChangeStage)})]
	if !ok {
		return "none"
	}
	if len(v) != 1 {
		return "malformed"
	}
	names := map[byte]string{1: "none", 2: "started", 4: "newStorageItemsAdded", 8: "staleBlocksRemoved", 16: "headersReset", 32: "transfersReset"}
	s := names[v[0]&0x7f]
	if s == "" {
		s = fmt.Sprint(v[0] & 0x7f)
	}
	if v[0]&0x80 != 0 {
		return "reset-" + s
	}
	return "jump-" + s
}

// record runs history h on a recording replica with a seeded flush schedule.
func record(t *testing.T, h *vchain.History, cfg func(*config.Blockchain), stream uint64, upTo int) (*recordedRun, *vchain.Replica, error) {
	r := rng.New(stream)
	rep, err := vchain.OpenReplica(t, vchain.ReplicaCfg{Name: "rec", Cfg: cfg, Backend: "mem", Record: true})
	if err != nil {
		return nil, nil, err
	}
	rr := &recordedRun{}
	mark := func() {
		for len(rr.accepted) < rep.Store.Batches() {
			rr.accepted = append(rr.accepted, int(rep.BC.BlockHeight()))
		}
	}
	mark()
	// Between flushes the database must stay exactly what the batches wrote
	// (the recorder keeps its own copy of every value): a difference means the
	// node modified a stored value in place while processing later blocks,
	// i.e. before those blocks are committed to the database.
	applied := 0
	cur := map[string][]byte{}
	verify := func(where string) {
		log := rep.Store.Log()
		for ; applied < len(log); applied++ {
			for k, v := range log[applied].Puts {
				if v == nil {
					delete(cur, k)
				} else {
					cur[k] = v
				}
			}
		}
		if rr.scribble == "" {
			if d := vchain.DiffDumps(cur, vchain.Dump(rep.Store.Inner), nil); d != "" {
				rr.scribble = where + ": " + d
			}
		}
	}
	for i := 0; i < upTo; i++ {
		if r.Intn(3) == 0 {
			if err := rep.AddHeaderRaw(h.P.Raw[i]); err != nil {
				return nil, nil, fmt.Errorf("header %d: %w", i+1, err)
			}
			if r.Intn(2) == 0 {
				verify(fmt.Sprintf("before flush after header %d", i+1))
				_ = rep.Flush()
				rr.sched = append(rr.sched, fmt.Sprintf("h%d:flush-after-header", i+1))
				mark()
			}
		}
		if err := rep.AddRaw(h.P.Raw[i]); err != nil {
			return nil, nil, fmt.Errorf("block %d: %w", i+1, err)
		}
		if r.Intn(2) == 0 {
			verify(fmt.Sprintf("before flush at %d", i+1))
			_ = rep.Flush()
			rr.sched = append(rr.sched, fmt.Sprintf("h%d:flush", i+1))
			mark()
		}
	}
	_ = rep.Flush()
	mark()
	rr.log = rep.Store.Log()
	verify("after the last flush")
	return rr, rep, nil
}

// reopen opens a node on the given content with a chosen backend.
func reopen(t *testing.T, content map[string][]byte, backend string, cfg func(*config.Blockchain)) (*vchain.Replica, string, error) {
	dir := ""
	if backend != "mem" {
		d, err := os.MkdirTemp("", "c02-")
		if err != nil {
			return nil, "", err
		}
		dir = d
	}
	st, err := vchain.Materialize(content, backend, dir)
	if err != nil {
		return nil, dir, err
	}
	rep, err := vchain.OpenReplicaOn(t, vchain.ReplicaCfg{Name: "crash", Cfg: cfg, Backend: backend}, st)
	if err != nil {
		_ = st.Close()
	}
	return rep, dir, err
}

// checkPrefix reopens the database prefix and checks the statement's clauses.
func checkPrefix(t *testing.T, run *ev.Run, h *vchain.History, cfg func(*config.Blockchain), content map[string][]byte, backend string, accepted int, kind string, feedMax int) *outcome {
	stage := stageName(content)
	rep, dir, err := reopen(t, content, backend, cfg)
	if dir != "" {
		defer os.RemoveAll(dir)
	}
	if err != nil {
		return &outcome{kind + ":reopen-failed:stage=" + stage, err.Error()}
	}
	defer rep.Close()
	run.Obs("reopens", 1)
	hh := int(rep.BC.BlockHeight())
	if hh > accepted {
		return &outcome{kind + ":height-above-last-accepted", fmt.Sprintf("reopened at %d, last accepted %d", hh, accepted)}
	}
	o, err := observe(rep, h.P.ObsOpts())
	if err != nil {
		return &outcome{kind + ":panic-reading-state-after-reopen:stage=" + stage, err.Error()}
	}
	if n, d := obsDiff(h.P.Obs[hh], o); n != "" {
		return &outcome{kind + ":state-differs-after-reopen:" + n, fmt.Sprintf("height %d: %s", hh, d)}
	}
	run.Obs("observations_compared", 1)
	if c := rep.BC.GetConfig(); c.RemoveUntraceableBlocks && !c.KeepOnlyLatestState {
		// a pruning node: the states of heights hh-MaxTraceableBlocks and above (GC's
		// target for a database of height hh is hh-MaxTraceableBlocks at most, and the
		// state of the target height itself is kept) must still be complete in the
		// reopened database - whatever garbage collection had done before the crash
		// MaxTraceableBlocks may be lowered by the chain itself (Echidna), and GC takes
		// the value of the in-memory chain, which may be ahead of the database: the
		// window demanded here is that of the lowest value between the reopened height
		// and the last block offered before the crash.
		mtb := int(rep.BC.GetMaxTraceableBlocks())
		for hq := hh; hq <= accepted && hq < len(h.P.Obs); hq++ {
			o := h.P.Obs[hq]
			for i, name := range o.Names {
				if name == "max_traceable_blocks" {
					if v, err := strconv.Atoi(o.Vals[i]); err == nil && v < mtb {
						mtb = v
					}
				}
			}
		}
		for q := hh; q >= hh-mtb && q >= 1; q-- {
			var n int
			var perr any
			func() {
				defer func() { perr = recover() }()
				sr, err := rep.BC.GetStateRoot(uint32(q))
				if err != nil {
					perr = err
					return
				}
				if sr.Root.StringLE() != h.P.Obs[q].Vals[3] {
					perr = "state root differs from the producer's"
					return
				}
				rep.BC.GetStateModule().SeekStates(sr.Root, nil, func(k, v []byte) bool { n++; return true })
			}()
			run.Obs("retained_states_traversed_after_reopen", 1)
			if perr != nil || n == 0 {
				if sr, err := rep.BC.GetStateRoot(uint32(q)); err == nil {
					v, gerr := rep.Store.Get(append([]byte{byte(storage.DataMPT)}, sr.Root.BytesBE()...))
					perr = fmt.Sprintf("%v; root node record: %x (%v)", perr, v, gerr)
				}
				return &outcome{kind + ":retained-state-unreadable-after-reopen:stage=" + stage, fmt.Sprintf("reopened at %d (MaxTraceableBlocks %d): state of height %d: %v (%d items read)", hh, mtb, q, perr, n)}
			}
		}
	}
	end := len(h.P.Raw)
	if feedMax > 0 && hh+feedMax < end {
		end = hh + feedMax
	}
	for i := hh; i < end; i++ {
		var err error
		func() {
			defer func() {
				if x := recover(); x != nil {
					err = fmt.Errorf("panic: %v", x)
				}
			}()
			err = rep.AddRaw(h.P.Raw[i])
		}()
		if err != nil {
			sig := kind + ":remaining-block-rejected"
			if strings.HasPrefix(err.Error(), "panic") {
				sig = kind + ":panic-on-remaining-block"
			}
			return &outcome{sig + ":stage=" + stage, fmt.Sprintf("reopened at %d, block %d: %v", hh, i+1, err)}
		}
		sr, err := rep.BC.GetStateRoot(uint32(i + 1))
		if err != nil || sr.Root.StringLE() != h.P.Obs[i+1].Vals[3] {
			return &outcome{kind + ":diverged-after-reopen", fmt.Sprintf("reopened at %d, root differs at %d", hh, i+1)}
		}
		run.Obs("blocks_replayed_after_reopen", 1)
	}
	if end > hh {
		o := vchain.Observe(rep.BC, h.P.ObsOpts())
		if n, d := obsDiff(h.P.Obs[end], o); n != "" {
			return &outcome{kind + ":state-differs-after-replay:" + n, fmt.Sprintf("reopened at %d, height %d: %s", hh, end, d)}
		}
	}
	return nil
}

type job struct {
	id      string
	content map[string][]byte
	backend string
	acc     int
	kind    string
	f       func() *outcome
}

func runJobs(run *ev.Run, jobs []job, witness func(j job) any) {
	var wg sync.WaitGroup
	ch := make(chan job)
	for w := 0; w < runtime.NumCPU(); w++ {
		wg.Add(1)
		go func() {
			defer wg.Done()
			for j := range ch {
				out := j.f()
				run.Case(j.id, true)
				if out != nil {
					run.Violation(out.sig, j.id, out.detail, witness(j))
				}
			}
		}()
	}
	for _, j := range jobs {
		if run.Want(j.id) {
			ch <- j
		}
	}
	close(ch)
	wg.Wait()
}

// prefixes returns the content after each batch prefix k=1..n (copy-on-step).
func prefixes(log []vchain.Batch, from int) []map[string][]byte {
	cur := vchain.Flatten(log, from)
	var res []map[string][]byte
	for k := from; k < len(log); k++ {
		for key, v := range log[k].Puts {
			if v == nil {
				delete(cur, key)
			} else {
				cur[key] = v
			}
		}
		cp := make(map[string][]byte, len(cur))
		for a, b := range cur {
			cp[a] = b
		}
		res = append(res, cp)
	}
	return res
}

func backendFor(r *rng.R) string {
	switch r.Intn(10) {
	case 0:
		return "bolt"
	case 1:
		return "level"
	}
	return "mem"
}

// persistRun: ordinary persistence (and GC when gc is set).
func persistRun(t *testing.T, run *ev.Run, idx, nblocks int, gc bool) {
	h := vchain.BuildHistory(t, vchain.HistoryCfg{Idx: idx, Blocks: nblocks, Echidna: idx%2 == 1})
	defer h.P.Close()
	if h.P.Rejected != nil {
		run.Violation("producer-rejected-own-block", fmt.Sprint("run", idx), h.P.Rejected.Error(), nil)
		return
	}
	kind := "persist"
	cfg := h.Proto
	if gc {
		kind = "gc"
		cfg = func(c *config.Blockchain) {
			h.Proto(c)
			c.RemoveUntraceableBlocks = true
			c.GarbageCollectionPeriod = 3
		}
	}
	rr, rep, err := record(t, h, cfg, uint64(idx)*13+7, len(h.P.Raw))
	if err != nil {
		run.Violation(kind+":recording-node-failed", fmt.Sprint("run", idx), err.Error(), nil)
		return
	}
	rep.Close()
	run.Case(fmt.Sprintf("%s%d/db-equals-batches", kind, idx), true)
	if rr.scribble != "" {
		run.Violation(kind+":stored-value-modified-in-place:prefix="+scribblePrefix(rr.scribble), fmt.Sprintf("%s%d/db-equals-batches", kind, idx), rr.scribble, map[string]any{"run": idx, "kind": kind})
	}
	r := rng.New(uint64(idx)*13 + 8)
	ngc := 0
	for _, b := range rr.log {
		if b.GC {
			ngc++
		}
	}
	run.Obs("batches_recorded", int64(len(rr.log)))
	run.Obs("gc_batches_recorded", int64(ngc))
	run.Sample(map[string]any{"run": idx, "kind": kind, "protocol": h.PName, "blocks": len(h.P.Raw), "atomic_batches": len(rr.log), "gc_batches": ngc, "schedule_head": head(rr.sched, 12), "tx_kinds": h.P.KindsSummary()})
	ps := prefixes(rr.log, 0)
	var jobs []job
	for k, content := range ps {
		be := backendFor(r)
		acc := rr.accepted[k]
		id := fmt.Sprintf("%s%d/prefix%d/%s", kind, idx, k+1, be)
		jobs = append(jobs, job{id: id, content: content, backend: be, acc: acc, kind: kind, f: func() *outcome {
			return checkPrefix(t, run, h, cfg, content, be, acc, kind, 0)
		}})
	}
	runJobs(run, jobs, func(j job) any {
		return map[string]any{"run": idx, "kind": kind, "protocol": h.PName, "prefix_batches": j.id, "schedule": rr.sched, "db_keys": len(j.content)}
	})
}

// concurrentRun: the persist loop runs in its own goroutine while blocks are
// added (as on a real node), so a batch can be cut at any point of block
// processing; every prefix must still be a consistent, resumable state.
func concurrentRun(t *testing.T, run *ev.Run, idx, nblocks int) {
	h := vchain.BuildHistory(t, vchain.HistoryCfg{Idx: idx, Blocks: nblocks, Echidna: idx%2 == 1})
	defer h.P.Close()
	if h.P.Rejected != nil {
		run.Violation("producer-rejected-own-block", fmt.Sprint("run", idx), h.P.Rejected.Error(), nil)
		return
	}
	cfg := h.Proto
	kind := "concurrent-persist"
	if idx%2 == 1 {
		// a pruning node: garbage collection runs from the flushing goroutine too,
		// with blocks being accepted between its persist and its GC step
		cfg = func(c *config.Blockchain) {
			h.Proto(c)
			c.RemoveUntraceableBlocks = true
			c.GarbageCollectionPeriod = uint32(1 + (idx+1)%3)
		}
		kind = "concurrent-persist-gc"
	}
	rep, err := vchain.OpenReplica(t, vchain.ReplicaCfg{Name: "rec", Cfg: cfg, Backend: "mem", Record: true})
	if err != nil {
		t.Fatal(err)
	}
	if kind == "concurrent-persist-gc" {
		// a slow disk: several blocks are accepted while one flush is being written,
		// so the GC step that follows it sees a chain ahead of the persisted one
		rep.Store.Delay = func() { time.Sleep(3 * time.Millisecond) }
	}
	var offered atomic.Int64
	var mu sync.Mutex
	var accepted []int
	rep.Store.OnBatch = func(i int) {
		mu.Lock()
		for len(accepted) <= i {
			accepted = append(accepted, int(offered.Load()))
		}
		mu.Unlock()
	}
	stop := make(chan struct{})
	var wg sync.WaitGroup
	wg.Add(1)
	go func() {
		defer wg.Done()
		for {
			select {
			case <-stop:
				return
			default:
				_ = rep.BC.VerifPersist()
				run.Obs("concurrent_flushes", 1)
			}
		}
	}()
	for i := range h.P.Raw {
		offered.Store(int64(i + 1))
		if err := rep.AddRaw(h.P.Raw[i]); err != nil {
			close(stop)
			wg.Wait()
			rep.Close()
			run.Violation(kind+":recording-node-failed", fmt.Sprint("run", idx), err.Error(), nil)
			return
		}
	}
	close(stop)
	wg.Wait()
	_ = rep.Flush()
	log := rep.Store.Log()
	rep.Close()
	run.Obs("batches_recorded", int64(len(log)))
	run.Sample(map[string]any{"run": idx, "kind": kind, "blocks": len(h.P.Raw), "atomic_batches": len(log)})
	ps := prefixes(log, 0)
	r := rng.New(uint64(idx)*13 + 12)
	var jobs []job
	for k, content := range ps {
		_ = r
		acc := len(h.P.Raw)
		if k < len(accepted) {
			acc = accepted[k]
		}
		id := fmt.Sprintf("%s%d/prefix%d", kind, idx, k+1)
		jobs = append(jobs, job{id: id, content: content, backend: "mem", acc: acc, kind: kind, f: func() *outcome {
			return checkPrefix(t, run, h, cfg, content, "mem", acc, kind, 3)
		}})
	}
	runJobs(run, jobs, func(j job) any {
		return map[string]any{"run": idx, "kind": kind, "prefix_batches": j.id, "db_keys": len(j.content)}
	})
}

func head(s []string, n int) []string {
	if len(s) > n {
		return s[:n]
	}
	return s
}

// resetRun: Blockchain.Reset(target) interrupted after every batch.
func resetRun(t *testing.T, run *ev.Run, idx, nblocks int) {
	h := vchain.BuildHistory(t, vchain.HistoryCfg{Idx: idx, Blocks: nblocks, Echidna: idx%2 == 1})
	defer h.P.Close()
	if h.P.Rejected != nil {
		run.Violation("producer-rejected-own-block", fmt.Sprint("run", idx), h.P.Rejected.Error(), nil)
		return
	}
	cfg := h.Proto
	r := rng.New(uint64(idx)*13 + 9)
	targets := []int{nblocks - 1 - r.Intn(3), nblocks / 2, 3 + r.Intn(5)}
	for _, target := range targets {
		// a fully synced, cleanly stopped node
		rr, rep, err := record(t, h, cfg, uint64(idx)*13+10, len(h.P.Raw))
		if err != nil {
			run.Violation("reset:recording-node-failed", fmt.Sprint("run", idx), err.Error(), nil)
			return
		}
		rep.BC.Close()
		base := rep.Store.Batches()
		_ = rr
		// uninterrupted reset on a node that is not running
		bc, _, _, err := vchain.OpenChainNoRun(t, false, cfg, rep.Store)
		if err != nil {
			run.Violation("reset:reopen-before-reset-failed", fmt.Sprint("run", idx), err.Error(), nil)
			return
		}
		if target%2 == 0 {
			// a slow disk: the first batch of the reset takes 40 ms to land; whatever
			// the reset does meanwhile must wait for it (the order of what reaches
			// the disk is what the crash prefixes below are cut from)
			var once sync.Once
			rep.Store.Stall = func() { once.Do(func() { time.Sleep(40 * time.Millisecond) }) }
		}
		var rerr error
		func() {
			defer func() {
				if x := recover(); x != nil {
					rerr = fmt.Errorf("panic: %v", x)
				}
			}()
			rerr = bc.Reset(uint32(target))
		}()
		rep.Store.Stall = nil
		if rerr != nil {
			run.Case(fmt.Sprintf("reset%d/to%d", idx, target), true)
			run.Violation("reset:uninterrupted-reset-failed", fmt.Sprintf("reset%d/to%d", idx, target), rerr.Error(), map[string]any{"target": target, "height": nblocks})
			continue
		}
		final := vchain.Dump(rep.Store.Inner)
		log := rep.Store.Log()
		run.Obs("reset_batches_recorded", int64(len(log)-base))
		run.Sample(map[string]any{"run": idx, "kind": "reset", "from": nblocks, "to": target, "atomic_batches_of_reset": len(log) - base})
		// the completed reset behaves like a node that only ever synced to target
		{
			o := vchain.Observe(bc, h.P.ObsOpts())
			id := fmt.Sprintf("reset%d/to%d/completed", idx, target)
			run.Case(id, true)
			if n, d := obsDiff(h.P.Obs[target], o); n != "" {
				run.Violation("reset:completed-reset-state-differs:"+n, id, d, map[string]any{"target": target})
			}
		}
		var jobs []job
		ps := prefixes(log, base)
		for k, content := range ps {
			if k == len(ps)-1 {
				break // the full log is the uninterrupted reset itself
			}
			be := backendFor(r)
			id := fmt.Sprintf("reset%d/to%d/prefix%d/%s", idx, target, k+1, be)
			jobs = append(jobs, job{id: id, content: content, backend: be, kind: "reset", f: func() *outcome {
				return checkResetPrefix(t, run, h, cfg, content, be, target, final)
			}})
		}
		runJobs(run, jobs, func(j job) any {
			return map[string]any{"run": idx, "kind": "reset", "target": target, "from": nblocks, "prefix": j.id, "stage": stageName(j.content)}
		})
		// indistinguishability under an alternative continuation
		forkCheck(t, run, h, cfg, rep.Store.Inner, target, fmt.Sprintf("reset%d/to%d/fork", idx, target))
		_ = rep.Store.RealClose()
		// the node that was reset goes on synchronising without being restarted:
		// the very instance that did the reset is given the blocks above the target
		// again and must produce the recorded states
		if id := fmt.Sprintf("reset%d/to%d/same-process", idx, target); run.Want(id) {
			run.Case(id, true)
			if v := resetThenContinue(t, run, h, cfg, target); v != nil {
				run.Violation(v.sig, id, v.detail, map[string]any{"target": target, "from": nblocks})
			}
		}
	}
}

// resetThenContinue syncs a node, reopens it (as `neo-go db reset` does), resets
// it to target and then starts it and feeds it the remaining blocks in the same
// process.
func resetThenContinue(t *testing.T, run *ev.Run, h *vchain.History, cfg func(*config.Blockchain), target int) *outcome {
	rep, err := vchain.OpenReplica(t, vchain.ReplicaCfg{Name: "sameproc", Cfg: cfg, Backend: "mem"})
	if err != nil {
		t.Fatal(err)
	}
	for i := range h.P.Raw {
		if err := rep.AddRaw(h.P.Raw[i]); err != nil {
			rep.Close()
			return &outcome{"reset:recording-node-failed", err.Error()}
		}
	}
	rep.BC.Close()
	defer func() { _ = rep.Store.RealClose() }()
	bc, _, _, err := vchain.OpenChainNoRun(t, false, cfg, rep.Store)
	if err != nil {
		return &outcome{"reset:reopen-before-reset-failed", err.Error()}
	}
	if err := bc.Reset(uint32(target)); err != nil {
		return &outcome{"reset:uninterrupted-reset-failed", err.Error()}
	}
	go bc.Run()
	defer bc.Close()
	for i := target; i < len(h.P.Raw); i++ {
		b, err := vchain.DecodeBlock(h.P.Raw[i], false)
		if err != nil {
			t.Fatal(err)
		}
		var aerr error
		func() {
			defer func() {
				if x := recover(); x != nil {
					aerr = fmt.Errorf("panic: %v", x)
				}
			}()
			aerr = bc.AddBlock(b)
		}()
		if aerr != nil {
			return &outcome{"reset:block-rejected-by-the-instance-that-was-reset", fmt.Sprintf("reset to %d, block %d: %v", target, i+1, aerr)}
		}
		o := vchain.Observe(bc, h.P.ObsOpts())
		if n, d := obsDiff(h.P.Obs[i+1], o); n != "" {
			return &outcome{"reset:state-differs-on-the-instance-that-was-reset:" + n, fmt.Sprintf("reset to %d, height %d: %s", target, i+1, d)}
		}
		run.Obs("blocks_added_to_the_instance_that_was_reset", 1)
	}
	return nil
}

// resetAheadRun: the node being reset knows headers above its block height
// (header-first synchronisation, or a crash between the header and the block
// flush); the reset target is the block height itself or a few blocks lower.
// The completed reset must leave no trace of those headers: the node is
// compared with one that only ever synchronised to the target, both are fed an
// alternative continuation.
func resetAheadRun(t *testing.T, run *ev.Run, idx, nblocks int) {
	h := vchain.BuildHistory(t, vchain.HistoryCfg{Idx: idx, Blocks: nblocks, Echidna: idx%2 == 1})
	defer h.P.Close()
	if h.P.Rejected != nil {
		run.Violation("producer-rejected-own-block", fmt.Sprint("run", idx), h.P.Rejected.Error(), nil)
		return
	}
	cfg := h.Proto
	r := rng.New(uint64(idx)*13 + 14)
	ahead := 1 + r.Intn(4)
	have := len(h.P.Raw) - ahead
	for _, target := range []int{have, have - 1 - r.Intn(3)} {
		id := fmt.Sprintf("reset-ahead%d/blocks%d/headers%d/to%d", idx, have, have+ahead, target)
		if !run.Want(id) {
			continue
		}
		_, rep, err := record(t, h, cfg, uint64(idx)*13+15, have)
		if err != nil {
			run.Violation("reset:recording-node-failed", fmt.Sprint("run", idx), err.Error(), nil)
			return
		}
		var hdrs []*block.Header
		for i := have; i < have+ahead; i++ {
			b, err := vchain.DecodeBlock(h.P.Raw[i], false)
			if err != nil {
				t.Fatal(err)
			}
			hdrs = append(hdrs, &b.Header)
		}
		if err := rep.BC.AddHeaders(hdrs...); err != nil {
			rep.Close()
			run.Violation("reset:headers-refused", id, err.Error(), nil)
			return
		}
		rep.BC.Close()
		bc, _, _, err := vchain.OpenChainNoRun(t, false, cfg, rep.Store)
		if err != nil {
			run.Violation("reset:reopen-before-reset-failed", id, err.Error(), nil)
			return
		}
		if int(bc.HeaderHeight()) != have+ahead || int(bc.BlockHeight()) != have {
			t.Fatalf("%s: reopened at block %d header %d", id, bc.BlockHeight(), bc.HeaderHeight())
		}
		var rerr error
		func() {
			defer func() {
				if x := recover(); x != nil {
					rerr = fmt.Errorf("panic: %v", x)
				}
			}()
			rerr = bc.Reset(uint32(target))
		}()
		run.Case(id, true)
		if rerr != nil {
			run.Violation("reset:uninterrupted-reset-failed", id, rerr.Error(), map[string]any{"target": target, "height": have})
			_ = rep.Store.RealClose()
			continue
		}
		run.Obs("resets_with_headers_ahead", 1)
		o := vchain.Observe(bc, h.P.ObsOpts())
		if n, d := obsDiff(h.P.Obs[target], o); n != "" {
			run.Violation("reset:completed-reset-state-differs:"+n, id, d, map[string]any{"target": target, "headers_ahead": ahead})
			_ = rep.Store.RealClose()
			continue
		}
		forkCheck(t, run, h, cfg, rep.Store.Inner, target, id+"/fork")
		_ = rep.Store.RealClose()
	}
}

// resetValidatedRun: the node has accepted state roots signed by the designated
// state validators (the state service of a network without state roots in
// headers) for some heights; it is then reset below some or all of them. The
// validated height of the reset node - read right after the reset and again
// after a reopen - is the highest signed root at or below the target, or none,
// exactly as on a node that only ever synchronised to the target and was given
// the same signed roots.
func resetValidatedRun(t *testing.T, run *ev.Run, idx, nblocks int) {
	proto := func(c *config.Blockchain) { vchain.AllForks(c); c.MaxTraceableBlocks = 1000 }
	w := vchain.DefaultWeights
	w.Role = 0
	p := vchain.NewProducer(t, vchain.ProducerConfig{Proto: proto, Users: 6, W: w, Stream: uint64(idx) + 950, TolerateReject: true})
	defer p.Close()
	var sk []*keys.PrivateKey
	var pubs []any
	for i := 0; i < 1+idx%3; i++ {
		sk = append(sk, vchain.DetKey("role", i))
		pubs = append(pubs, sk[i].PublicKey().Bytes())
	}
	sort.Slice(sk, func(i, j int) bool { return sk[i].PublicKey().Cmp(sk[j].PublicKey()) < 0 })
	p.AddBlock(p.Call("designate-state-validators", []neotest.Signer{p.Val, p.CommitteeSigner()}, p.RoleH, "designateAsRole", int64(noderoles.StateValidator), pubs))
	for len(p.Raw) < nblocks && p.Rejected == nil {
		p.Step()
	}
	if p.Rejected != nil {
		run.Violation("producer-rejected-own-block", fmt.Sprint("run", idx), p.Rejected.Error(), nil)
		return
	}
	var spk keys.PublicKeys
	for _, k := range sk {
		spk = append(spk, k.PublicKey())
	}
	verif, err := smartcontract.CreateDefaultMultiSigRedeemScript(spk)
	if err != nil {
		t.Fatal(err)
	}
	r := rng.New(uint64(idx)*13 + 16)
	tip := len(p.Raw)
	target := 6 + r.Intn(tip-10)
	// heights with signed roots: always some above the target, in half of the runs one at or below it
	signed := map[int]bool{target + 1 + r.Intn(tip-target-1): true, tip - r.Intn(2): true}
	if idx%2 == 0 {
		signed[4+r.Intn(target-3)] = true
	}
	var hs []int
	want := 0
	for h := range signed {
		hs = append(hs, h)
		if h <= target && h > want {
			want = h
		}
	}
	sort.Ints(hs)
	id := fmt.Sprintf("reset-validated%d/from%d/to%d/signed%v", idx, tip, target, hs)
	if !run.Want(id) {
		return
	}
	run.Case(id, true)
	rep, err := vchain.OpenReplica(t, vchain.ReplicaCfg{Name: "rec", Cfg: proto, Backend: "mem", Record: true})
	if err != nil {
		t.Fatal(err)
	}
	for i := range p.Raw {
		if err := rep.AddRaw(p.Raw[i]); err != nil {
			rep.Close()
			run.Violation("reset:recording-node-failed", id, err.Error(), nil)
			return
		}
	}
	magic := uint32(rep.BC.GetConfig().Magic)
	mod := rep.BC.GetStateModule().(*stateroot.Module)
	for _, h := range hs {
		local, err := mod.GetStateRoot(uint32(h))
		if err != nil {
			t.Fatalf("%s: state root %d: %v", id, h, err)
		}
		sr := &state.MPTRoot{Version: local.Version, Index: local.Index, Root: local.Root}
		inv := io.NewBufBinWriter()
		for _, k := range sk {
			emit.Bytes(inv.BinWriter, k.SignHashable(magic, sr))
		}
		sr.Witness = []transaction.Witness{{InvocationScript: inv.Bytes(), VerificationScript: verif}}
		if err := mod.AddStateRoot(sr); err != nil {
			rep.Close()
			run.Violation("reset:signed-state-root-refused", id, fmt.Sprintf("height %d: %v", h, err), nil)
			return
		}
		run.Obs("signed_state_roots_accepted", 1)
	}
	if got := int(mod.CurrentValidatedHeight()); got != hs[len(hs)-1] {
		t.Fatalf("%s: validated height %d before the reset", id, got)
	}
	rep.BC.Close()
	check := func(stage string, bc *core.Blockchain) bool {
		m := bc.GetStateModule()
		if int(bc.BlockHeight()) != target {
			run.Violation("reset:wrong-height-after-reset", id, fmt.Sprintf("%s: height %d", stage, bc.BlockHeight()), nil)
			return false
		}
		if got := int(m.CurrentValidatedHeight()); got != want {
			run.Violation("reset:validated-state-height-differs-from-a-node-synced-to-the-target", id, fmt.Sprintf("%s: reset from %d to %d, signed state roots at %v: the validated height reads %d, a node that only ever synchronised to %d and got the same roots has %d", stage, tip, target, hs, got, target, want), map[string]any{"target": target, "signed": hs})
			return false
		}
		for _, h := range hs {
			sr, err := m.GetStateRoot(uint32(h))
			switch {
			case h <= target && (err != nil || len(sr.Witness) != 1):
				run.Violation("reset:signed-state-root-below-the-target-lost", id, fmt.Sprintf("%s: height %d: %v", stage, h, err), nil)
				return false
			case h > target && err == nil:
				run.Violation("reset:state-root-above-the-target-kept", id, fmt.Sprintf("%s: height %d still has a state root record", stage, h), nil)
				return false
			}
		}
		run.Obs("validated_heights_compared_after_reset", 1)
		return true
	}
	bc, _, _, err := vchain.OpenChainNoRun(t, false, proto, rep.Store)
	if err != nil {
		run.Violation("reset:reopen-before-reset-failed", id, err.Error(), nil)
		return
	}
	var rerr error
	func() {
		defer func() {
			if x := recover(); x != nil {
				rerr = fmt.Errorf("panic: %v", x)
			}
		}()
		rerr = bc.Reset(uint32(target))
	}()
	if rerr != nil {
		run.Violation("reset:uninterrupted-reset-failed", id, rerr.Error(), nil)
		_ = rep.Store.RealClose()
		return
	}
	if check("right after the reset", bc) {
		bc2, _, _, err := vchain.OpenChainNoRun(t, false, proto, rep.Store)
		if err != nil {
			run.Violation("reset:reopen-after-completed-reset-failed", id, err.Error(), nil)
		} else {
			check("after a reopen", bc2)
		}
	}
	_ = rep.Store.RealClose()
}

// resetConflictsRun: blocks above the reset target carry transactions whose
// Conflicts attributes name a transaction V that was never mined (one signed by
// V's own signer, one by another account). On the full chain V is invalid; a
// node that only ever synchronised to the target knows nothing of those blocks
// and accepts V - so must the reset node: the alternative continuation starts
// with a block containing V.
func resetConflictsRun(t *testing.T, run *ev.Run, idx, nblocks int) {
	proto := func(c *config.Blockchain) { vchain.AllForks(c); c.MaxTraceableBlocks = 1000 }
	w := vchain.DefaultWeights
	w.Block = 0 // the accounts used below must stay unblocked
	p := vchain.NewProducer(t, vchain.ProducerConfig{Proto: proto, Users: 6, W: w, Observe: true, Stream: uint64(idx) + 960, TolerateReject: true})
	defer p.Close()
	r := rng.New(uint64(idx)*13 + 17)
	for len(p.Raw) < nblocks/2 && p.Rejected == nil {
		p.Step()
	}
	target := len(p.Raw)
	mk := func(u *vchain.User, nonce uint32, push byte, attrs ...transaction.Attribute) *transaction.Transaction {
		tx := transaction.New([]byte{push}, 100_0000)
		tx.Nonce = nonce
		tx.ValidUntilBlock = uint32(target) + 100
		tx.Signers = []transaction.Signer{{Account: u.Hash(), Scopes: transaction.CalledByEntry}}
		tx.Attributes = attrs
		neotest.AddNetworkFee(t, p.BC, tx, u.S)
		// fee policy differs between the tip (where this is computed) and the reset
		// target (where the continuation is verified): pay generously
		tx.NetworkFee = tx.NetworkFee*8 + 5000_0000
		tx.SystemFee = 1000_0000
		if err := u.S.SignTx(p.BC.GetConfig().Magic, tx); err != nil {
			t.Fatal(err)
		}
		return tx
	}
	ua, ub := p.Users[idx%3], p.Users[3+idx%3]
	victim := mk(ua, uint32(0x6a000000+idx), byte(opcode.PUSH1))
	conf := transaction.Attribute{Type: transaction.ConflictsT, Value: &transaction.Conflicts{Hash: victim.Hash()}}
	order := [][2]*vchain.User{{ua, ub}, {ub, ua}, {ua, ua}}[idx%3]
	for k, u := range order {
		if p.AddBlock(mk(u, uint32(0x6b000000+idx*4+k), byte(opcode.PUSH2), conf)) == nil {
			break
		}
		if r.Intn(2) == 0 {
			p.Step()
		}
	}
	for len(p.Raw) < nblocks && p.Rejected == nil {
		p.Step()
	}
	if p.Rejected != nil {
		run.Violation("producer-rejected-own-block", fmt.Sprint("run", idx), p.Rejected.Error(), nil)
		return
	}
	id := fmt.Sprintf("reset-conflicts%d/from%d/to%d", idx, len(p.Raw), target)
	if !run.Want(id) {
		return
	}
	if err := p.BC.VerifyTx(victim); err == nil {
		t.Fatalf("%s: the victim is valid on the full chain", id)
	}
	h := &vchain.History{Idx: idx, Proto: proto, PName: "all-forks", P: p}
	_, rep, err := record(t, h, proto, uint64(idx)*13+18, len(p.Raw))
	if err != nil {
		run.Violation("reset:recording-node-failed", id, err.Error(), nil)
		return
	}
	rep.BC.Close()
	bc, _, _, err := vchain.OpenChainNoRun(t, false, proto, rep.Store)
	if err != nil {
		run.Violation("reset:reopen-before-reset-failed", id, err.Error(), nil)
		return
	}
	var rerr error
	func() {
		defer func() {
			if x := recover(); x != nil {
				rerr = fmt.Errorf("panic: %v", x)
			}
		}()
		rerr = bc.Reset(uint32(target))
	}()
	run.Case(id, true)
	if rerr != nil {
		run.Violation("reset:uninterrupted-reset-failed", id, rerr.Error(), nil)
		_ = rep.Store.RealClose()
		return
	}
	run.Obs("resets_below_blocks_with_conflicts_attributes", 1)
	// the continuation: one more conflicting transaction of a third account (it
	// cannot harm the victim, but rewrites the shared conflict stub), then the victim
	third := mk(p.Users[(idx+1)%3], uint32(0x6c000000+idx), byte(opcode.PUSH3), conf)
	if third.Signers[0].Account == ua.Hash() {
		third = mk(p.Users[(idx+2)%3], uint32(0x6c000000+idx), byte(opcode.PUSH3), conf)
	}
	forkCheck(t, run, h, proto, rep.Store.Inner, target, id+"/fork", []*transaction.Transaction{third}, []*transaction.Transaction{victim})
	_ = rep.Store.RealClose()
}

// resetGCRun: a pruning node (RemoveUntraceableBlocks) below MaxTraceableBlocks
// blocks, where a reset is still permitted, is reset and then goes on in the
// same process and after a reopen.
func resetGCRun(t *testing.T, run *ev.Run, idx, nblocks int) {
	proto := func(c *config.Blockchain) { vchain.AllForks(c); c.MaxTraceableBlocks = 1000 }
	h := vchain.BuildHistory(t, vchain.HistoryCfg{Idx: idx, Blocks: nblocks, Proto: proto, PName: "all-forks-mtb1000"})
	defer h.P.Close()
	if h.P.Rejected != nil {
		run.Violation("producer-rejected-own-block", fmt.Sprint("run", idx), h.P.Rejected.Error(), nil)
		return
	}
	cfg := func(c *config.Blockchain) {
		proto(c)
		c.RemoveUntraceableBlocks = true
		c.GarbageCollectionPeriod = uint32(1 + idx%4)
	}
	r := rng.New(uint64(idx)*13 + 19)
	target := 4 + r.Intn(len(h.P.Raw)-6)
	id := fmt.Sprintf("reset-gc%d/from%d/to%d", idx, len(h.P.Raw), target)
	if !run.Want(id) {
		return
	}
	run.Case(id, true)
	var v *outcome
	func() {
		defer func() {
			if x := recover(); x != nil {
				v = &outcome{"reset:panic-on-a-pruning-node-below-MaxTraceableBlocks", fmt.Sprint(x)}
			}
		}()
		v = resetThenContinue(t, run, h, cfg, target)
	}()
	if v != nil {
		run.Violation(v.sig+":pruning-node", id, v.detail, map[string]any{"target": target, "from": len(h.P.Raw)})
		return
	}
	run.Obs("resets_of_pruning_nodes", 1)
}

func checkResetPrefix(t *testing.T, run *ev.Run, h *vchain.History, cfg func(*config.Blockchain), content map[string][]byte, backend string, target int, final map[string][]byte) *outcome {
	stage := stageName(content)
	rep, dir, err := reopen(t, content, backend, cfg)
	if dir != "" {
		defer os.RemoveAll(dir)
	}
	if err != nil {
		return &outcome{"reset:reopen-failed:stage=" + stage, err.Error()}
	}
	defer rep.Close()
	run.Obs("reopens", 1)
	if hh := int(rep.BC.BlockHeight()); hh != target {
		return &outcome{"reset:resumed-reset-wrong-height:stage=" + stage, fmt.Sprintf("height %d, target %d", hh, target)}
	}
	o, err := observe(rep, h.P.ObsOpts())
	if err != nil {
		return &outcome{"reset:panic-reading-state-after-resumed-reset", fmt.Sprintf("stage %s: %v", stage, err)}
	}
	if n, d := obsDiff(h.P.Obs[target], o); n != "" {
		return &outcome{"reset:state-differs-after-resumed-reset:" + n, fmt.Sprintf("stage %s: %s", stage, d)}
	}
	_ = rep.Flush()
	got := vchain.Dump(rep.Store.Inner)
	// TokenTransferInfo serialises a Go map in iteration order: equal content may
	// have different bytes, so those records are compared after decoding.
	sameInfo := func(k string) bool {
		if k[0] != byte(storage.STTokenTransferInfo) {
			return false
		}
		a, b := new(state.TokenTransferInfo), new(state.TokenTransferInfo)
		ra, rb := io.NewBinReaderFromBuf(final[k]), io.NewBinReaderFromBuf(got[k])
		a.DecodeBinary(ra)
		b.DecodeBinary(rb)
		return ra.Err == nil && rb.Err == nil && reflect.DeepEqual(a, b)
	}
	if d := vchain.DiffDumps(final, got, sameInfo); d != "" {
		pfx := "?"
		if i := strings.Index(d, "key "); i >= 0 && len(d) > i+6 {
			pfx = d[i+4 : i+6]
		}
		return &outcome{"reset:resumed-db-differs-from-uninterrupted:prefix=" + pfx, fmt.Sprintf("stage %s: %s", stage, d)}
	}
	run.Obs("raw_dumps_compared", 1)
	for i := target; i < len(h.P.Raw); i++ {
		var err error
		func() {
			defer func() {
				if x := recover(); x != nil {
					err = fmt.Errorf("panic: %v", x)
				}
			}()
			err = rep.AddRaw(h.P.Raw[i])
		}()
		if err != nil {
			sig := "reset:remaining-block-rejected"
			if strings.HasPrefix(err.Error(), "panic") {
				sig = "reset:panic-on-remaining-block"
			}
			return &outcome{sig + ":stage=" + stage, fmt.Sprintf("block %d: %v", i+1, err)}
		}
		sr, err := rep.BC.GetStateRoot(uint32(i + 1))
		if err != nil || sr.Root.StringLE() != h.P.Obs[i+1].Vals[3] {
			return &outcome{"reset:diverged-after-resumed-reset", fmt.Sprintf("root differs at %d", i+1)}
		}
		run.Obs("blocks_replayed_after_reopen", 1)
	}
	return nil
}

// forkCheck feeds the reset node and a fresh node synced to target the same
// alternative continuation and compares them at every height.
func forkCheck(t *testing.T, run *ev.Run, h *vchain.History, cfg func(*config.Blockchain), resetStore storage.Store, target int, id string, extra ...[]*transaction.Transaction) {
	if !run.Want(id) {
		return
	}
	run.Case(id, true)
	a, err := vchain.OpenReplicaOn(t, vchain.ReplicaCfg{Name: "reset", Cfg: cfg}, vchain.NewRecStore(resetStore, false))
	if err != nil {
		run.Violation("reset:reopen-after-completed-reset-failed", id, err.Error(), nil)
		return
	}
	defer a.BC.Close()
	b, err := vchain.OpenReplica(t, vchain.ReplicaCfg{Name: "fresh", Cfg: cfg})
	if err != nil {
		t.Fatal(err)
	}
	defer b.Close()
	for i := 0; i < target; i++ {
		if err := b.AddRaw(h.P.Raw[i]); err != nil {
			t.Fatalf("fresh node: %v", err)
		}
	}
	if d := compareTransferHistories(run, a.BC, b.BC); d != "" {
		run.Violation("reset:token-transfer-history-differs-from-fresh-node", id, d, map[string]any{"target": target, "kind": "short"})
		return
	}
	// the alternative continuation is produced on the fresh node itself
	e := neotest.NewExecutor(t, b.BC, h.P.Val, h.P.Com)
	opts := h.P.ObsOpts()
	for n := 0; n < 8; n++ {
		var txs []*transaction.Transaction
		for j := 0; j <= n%3; j++ {
			txs = append(txs, e.NewTx(t, []neotest.Signer{h.P.Val}, h.P.GasH, "transfer", h.P.Val.ScriptHash(), h.P.Users[(n+j)%len(h.P.Users)].Hash(), int64(1000+n*7+j), nil))
		}
		if n < len(extra) {
			txs = append(txs, extra[n]...)
		}
		blk := e.NewUnsignedBlock(t, txs...)
		e.SignBlock(blk)
		raw := vchain.EncodeBlock(blk)
		if err := b.AddRaw(raw); err != nil {
			t.Fatalf("fresh node rejected fork block: %v", err)
		}
		var aerr error
		func() {
			defer func() {
				if x := recover(); x != nil {
					aerr = fmt.Errorf("panic: %v", x)
				}
			}()
			aerr = a.AddRaw(raw)
		}()
		if aerr != nil {
			run.Violation("reset:fork-block-rejected-after-completed-reset", id, fmt.Sprintf("fork block %d: %v", target+n+1, aerr), map[string]any{"target": target})
			return
		}
		oa, ob := vchain.Observe(a.BC, opts), vchain.Observe(b.BC, opts)
		if nme, d := obsDiff(ob, oa); nme != "" {
			run.Violation("reset:reset-node-distinguishable-from-fresh:"+nme, id, fmt.Sprintf("fork height %d: %s", target+n+1, d), map[string]any{"target": target})
			return
		}
		run.Obs("fork_observations_compared", 1)
	}
}

// pageRun: a long chain of mostly empty blocks crossing the 2000-header page
// boundaries of the header hash index, crash points sampled around them.
func pageRun(t *testing.T, run *ev.Run, idx, nblocks int) {
	proto := func(c *config.Blockchain) { vchain.AllForks(c) }
	p := vchain.NewProducer(t, vchain.ProducerConfig{Proto: proto, Users: 4, Observe: false, Stream: uint64(idx) + 900, TolerateReject: true})
	defer p.Close()
	r := rng.New(uint64(idx)*13 + 11)
	roots := map[int]string{}
	for i := 1; i <= len(p.Raw); i++ {
		sr, _ := p.BC.GetStateRoot(uint32(i))
		roots[i] = sr.Root.StringLE()
	}
	lateFrom := nblocks - 12
	for len(p.Raw) < nblocks && p.Rejected == nil {
		var txs []*transaction.Transaction
		if len(p.Raw) == lateFrom {
			// fresh accounts sorting right before the busy ones get their first tokens late
			txs = append(txs, lateNeighbours(p)...)
		}
		if r.Intn(40) == 0 {
			u := p.Users[r.Intn(len(p.Users))]
			txs = append(txs, p.Call("gas-transfer", []neotest.Signer{u.S}, p.GasH, "transfer", u.Hash(), p.Users[0].Hash(), int64(1+r.Intn(9)), nil))
		}
		p.AddBlock(txs...)
		sr, _ := p.BC.GetStateRoot(uint32(len(p.Raw)))
		roots[len(p.Raw)] = sr.Root.StringLE()
	}
	if p.Rejected != nil {
		run.Violation("producer-rejected-own-block", fmt.Sprint("page", idx), p.Rejected.Error(), nil)
		return
	}
	// recording node: flush often around page boundaries, rarely elsewhere
	rep, err := vchain.OpenReplica(t, vchain.ReplicaCfg{Name: "rec", Cfg: proto, Backend: "mem", Record: true})
	if err != nil {
		t.Fatal(err)
	}
	var accepted []int
	mark := func() {
		for len(accepted) < rep.Store.Batches() {
			accepted = append(accepted, int(rep.BC.BlockHeight()))
		}
	}
	near := func(h int) bool { m := h % 2000; return m >= 1990 || m <= 10 }
	for i := range p.Raw {
		hgt := i + 1
		if near(hgt) && r.Intn(2) == 0 {
			_ = rep.AddHeaderRaw(p.Raw[i])
			if r.Intn(2) == 0 {
				_ = rep.Flush()
				mark()
			}
		}
		if err := rep.AddRaw(p.Raw[i]); err != nil {
			run.Violation("page:recording-node-rejected-block", fmt.Sprint("page", idx), fmt.Sprintf("block %d: %v", hgt, err), nil)
			rep.Close()
			return
		}
		if near(hgt) || r.Intn(300) == 0 {
			_ = rep.Flush()
			mark()
		}
	}
	_ = rep.Flush()
	mark()
	log := rep.Store.Log()
	rep.Close()
	run.Obs("batches_recorded", int64(len(log)))
	run.Sample(map[string]any{"run": idx, "kind": "page-boundary", "blocks": len(p.Raw), "atomic_batches": len(log)})
	ps := prefixes(log, 0)
	var jobs []job
	for k, content := range ps {
		acc := accepted[k]
		if !near(acc) && !near(acc+1) {
			continue
		}
		id := fmt.Sprintf("page%d/prefix%d/h%d", idx, k+1, acc)
		jobs = append(jobs, job{id: id, content: content, backend: "mem", acc: acc, kind: "page", f: func() *outcome {
			rp, _, err := reopen(t, content, "mem", proto)
			if err != nil {
				return &outcome{"page:reopen-failed", fmt.Sprintf("last accepted %d: %v", acc, err)}
			}
			defer rp.Close()
			run.Obs("reopens", 1)
			hh := int(rp.BC.BlockHeight())
			if hh > acc {
				return &outcome{"page:height-above-last-accepted", fmt.Sprintf("reopened at %d, last accepted %d", hh, acc)}
			}
			// every header hash the node reports must be the producer's
			for _, q := range []int{0, 1, hh / 2, 1999, 2000, 2001, 3999, 4000, 4001, hh - 1, hh, int(rp.BC.HeaderHeight())} {
				if q < 0 || q > int(rp.BC.HeaderHeight()) || q > len(p.Blocks) {
					continue
				}
				want := p.BC.GetHeaderHash(uint32(q))
				if got := rp.BC.GetHeaderHash(uint32(q)); got != want {
					return &outcome{"page:header-hash-differs-after-reopen", fmt.Sprintf("reopened at %d (headers %d): hash of %d is %s, want %s", hh, rp.BC.HeaderHeight(), q, got.StringLE(), want.StringLE())}
				}
				run.Obs("header_hashes_compared", 1)
			}
			// Most reopened nodes get the next 25 blocks; those reopened in the first
			// blocks of a page that has a complete page before it go on to the end
			// of the chain (across the next page boundary) and must then still
			// report the producer's hash for every index of every page.
			full := hh >= 2000 && hh%2000 <= 12 && len(p.Raw) >= hh+2000 && k%3 == 0
			end := hh + 25
			if full || end > len(p.Raw) {
				end = len(p.Raw)
			}
			for i := hh; i < end; i++ {
				if err := rp.AddRaw(p.Raw[i]); err != nil {
					return &outcome{"page:remaining-block-rejected", fmt.Sprintf("reopened at %d, block %d: %v", hh, i+1, err)}
				}
				sr, err := rp.BC.GetStateRoot(uint32(i + 1))
				if err != nil || sr.Root.StringLE() != roots[i+1] {
					return &outcome{"page:diverged-after-reopen", fmt.Sprintf("root differs at %d", i+1)}
				}
				run.Obs("blocks_replayed_after_reopen", 1)
			}
			if full {
				run.Obs("reopened_nodes_driven_across_next_page_boundary", 1)
				for q := 0; q <= int(rp.BC.HeaderHeight()); q++ {
					want := p.BC.GetHeaderHash(uint32(q))
					if got := rp.BC.GetHeaderHash(uint32(q)); got != want {
						return &outcome{"page:header-hash-differs-after-reopen-and-next-page", fmt.Sprintf("reopened at %d, now at %d: hash of %d is %s, want %s", hh, rp.BC.BlockHeight(), q, got.StringLE(), want.StringLE())}
					}
					run.Obs("header_hashes_compared", 1)
				}
				for _, q := range []uint32{0, 5, 1999, 2000, uint32(hh), uint32(hh) + 1} {
					b, err := rp.BC.GetBlock(rp.BC.GetHeaderHash(q))
					if err != nil || b.Index != q {
						return &outcome{"page:block-by-index-differs-after-reopen-and-next-page", fmt.Sprintf("reopened at %d: block by index %d: %v", hh, q, err)}
					}
				}
			}
			return nil
		}})
	}
	runJobs(run, jobs, func(j job) any { return map[string]any{"run": idx, "kind": "page", "prefix": j.id} })
	longReset(t, run, idx, p, proto, lateFrom+1)
}

func TestCheck(t *testing.T) {
	if sp := os.Getenv("C02_KILL_CHILD"); sp != "" {
		killChild(sp)
		return
	}
	run := ev.Start("C02", "a case is one crash point: the database content after the first k atomic batches (PutChangeSet / SeekGC commits) of a recorded node run, materialised into a fresh store (memory; BoltDB/LevelDB for a seeded 20%), reopened with core.NewBlockchain, observed, and fed the remaining blocks; runs cover ordinary persistence with flushes between header and block, GC, Blockchain.Reset (every batch of the reset, resumed on restart, final raw database compared with the uninterrupted reset, plus an alternative continuation on the reset node and a fresh node) and header-hash page boundaries; every prefix of every recorded log is enumerated (page run: those around the boundaries); distinct by (run, prefix length, backend)")
	defer run.Finish()
	run.Assume("crash points are batch boundaries: the backend's own atomicity is trusted, as the property states")
	run.Assume("batch boundaries are observed, not predicted: each run enumerates the prefixes of the log it recorded")
	run.Assume("the state-sync jump is exercised by C20's harness; here only persistence, GC, reset and page boundaries")
	part := os.Getenv("VERIF_PART")
	if sp := os.Getenv("VERIF_SUBPART"); sp != "" && part == "all" { // development aid
		part = sp
	}
	if part == "kill" {
		run.Assume("kill part: SIGKILL of the writing process stands for the node dying; what the operating system had accepted survives (no power loss)")
		killPart(t, run)
		return
	}
	do := func(p string) bool { return part == "" || part == "all" || part == p }
	nb := ev.Pick(40, 100)
	if do("persist") {
		for i := 0; i < ev.Pick(2, 6); i++ {
			persistRun(t, run, 200+i, nb, false)
		}
	}
	if do("gc") {
		for i := 0; i < ev.Pick(2, 5); i++ {
			persistRun(t, run, 300+i, nb, true)
		}
	}
	if do("concurrent") {
		for i := 0; i < ev.Pick(2, 4); i++ {
			concurrentRun(t, run, 700+i, ev.Pick(500, 2500))
		}
	}
	if do("reset") {
		for i := 0; i < ev.Pick(2, 5); i++ {
			resetRun(t, run, 400+i, ev.Pick(24, 60))
		}
		for i := 0; i < ev.Pick(2, 8); i++ {
			resetAheadRun(t, run, 450+i, ev.Pick(20, 40))
		}
		for i := 0; i < ev.Pick(4, 40); i++ {
			resetValidatedRun(t, run, 470+i, ev.Pick(24, 50))
		}
		for i := 0; i < ev.Pick(3, 30); i++ {
			resetConflictsRun(t, run, 520+i, ev.Pick(20, 40))
		}
		for i := 0; i < ev.Pick(3, 24); i++ {
			resetGCRun(t, run, 560+i, ev.Pick(24, 50))
		}
	}
	if do("page") {
		pageRun(t, run, 500, ev.Pick(4030, 6030))
	}
	_ = sort.Strings
}

func scribblePrefix(d string) string {
	if i := strings.Index(d, "key "); i >= 0 && len(d) > i+6 {
		return d[i+4 : i+6]
	}
	return "?"
}

// Package c01 decides property C01 (deterministic, restart-transparent state
// transition) by feeding the serialized blocks of generated histories to a
// farm of differently configured replicas and comparing the observable state
// of every replica with the producer's at every height.
package c01

import (
	"fmt"
	"os"
	"sort"
	"strings"
	"sync"
	"sync/atomic"
	"testing"
	"time"

	"github.com/nspcc-dev/neo-go/pkg/config"
	"github.com/nspcc-dev/neo-go/verifharness/vlib/ev"
	"github.com/nspcc-dev/neo-go/verifharness/vlib/rng"
	"github.com/nspcc-dev/neo-go/verifharness/vlib/vchain"
)

const epoch = vchain.Epoch

type history = vchain.History

func build(t *testing.T, idx, nblocks int, srih bool, replay *history) *history {
	return vchain.BuildHistory(t, vchain.HistoryCfg{Idx: idx, Blocks: nblocks, SRIH: srih, Replay: replay, Echidna: idx%2 == 1})
}

type repCfg struct {
	name     string
	backend  string
	local    func(*config.Blockchain)
	flush    string // every | k | end | headers
	restarts string // none | random | epoch
	mempool  bool
}

func farm(tier string) []repCfg {
	f := []repCfg{
		{"mem-latest-k-random", "mem", func(c *config.Blockchain) { c.KeepOnlyLatestState = true }, "k", "random", false},
		{"mem-gc-every-epoch", "mem", func(c *config.Blockchain) { c.RemoveUntraceableBlocks = true; c.GarbageCollectionPeriod = 4 }, "every", "epoch", false},
		{"mem-gc-latest-k-random", "mem", func(c *config.Blockchain) {
			c.RemoveUntraceableBlocks = true
			c.KeepOnlyLatestState = true
			c.GarbageCollectionPeriod = 3
		}, "k", "random", true},
		{"bolt-archive-headers-epoch", "bolt", func(c *config.Blockchain) {}, "headers", "epoch", false},
		{"level-gc-k-random", "level", func(c *config.Blockchain) { c.RemoveUntraceableBlocks = true; c.GarbageCollectionPeriod = 5 }, "k", "random", true},
		{"mem-noverify-batch-end-epoch", "mem", func(c *config.Blockchain) { c.VerifyTransactions = false; c.SaveStorageBatch = true }, "end", "epoch", false},
		{"mem-archive-mempool-headers-none", "mem", func(c *config.Blockchain) { c.SaveInvocations = true }, "headers", "none", true},
		{"mem-archive-end-random", "mem", func(c *config.Blockchain) {}, "end", "random", false},
	}
	if tier == "thorough" {
		f = append(f,
			repCfg{"bolt-gc-latest-every-random", "bolt", func(c *config.Blockchain) {
				c.RemoveUntraceableBlocks = true
				c.KeepOnlyLatestState = true
				c.GarbageCollectionPeriod = 2
			}, "every", "random", true},
			repCfg{"level-archive-end-epoch", "level", func(c *config.Blockchain) {}, "end", "epoch", false},
			repCfg{"level-latest-headers-random", "level", func(c *config.Blockchain) { c.KeepOnlyLatestState = true }, "headers", "random", true},
			repCfg{"bolt-noverify-k-epoch", "bolt", func(c *config.Blockchain) { c.VerifyTransactions = false }, "k", "epoch", true},
			repCfg{"mem-gc1-every-epoch", "mem", func(c *config.Blockchain) { c.RemoveUntraceableBlocks = true; c.GarbageCollectionPeriod = 1 }, "every", "epoch", true},
			repCfg{"mem-latest-every-epoch", "mem", func(c *config.Blockchain) { c.KeepOnlyLatestState = true }, "every", "epoch", false},
		)
	}
	return f
}

type outcome struct {
	sig, detail string
	height      int
	log         []string
}

// feed replays history h on one replica and returns the first divergence.
func feed(t *testing.T, run *ev.Run, h *history, rc repCfg, stream uint64, concurrentFlush bool) *outcome {
	r := rng.New(stream)
	p := h.P
	cfg := func(c *config.Blockchain) { h.Proto(c); rc.local(c) }
	rep, err := vchain.OpenReplica(t, vchain.ReplicaCfg{Name: rc.name, Cfg: cfg, Backend: rc.backend})
	if err != nil {
		return &outcome{sig: "replica-open-failed", detail: err.Error()}
	}
	defer rep.Close()
	opts := p.ObsOpts()
	var log []string
	stop := make(chan struct{})
	var wg sync.WaitGroup
	if concurrentFlush && strings.Contains(rc.name, "failing-flushes") {
		// a disk that refuses every third batch after a short while: the node logs
		// the error and tries again later; nothing of its state may change meanwhile
		var n atomic.Int64
		rep.Store.Fail = func() bool {
			if n.Add(1)%3 != 0 {
				return false
			}
			time.Sleep(12 * time.Millisecond) // blocks are accepted during the failing write
			run.Obs("flushes_refused_by_the_disk", 1)
			return true
		}
	}
	if concurrentFlush {
		wg.Add(1)
		go func() {
			defer wg.Done()
			for {
				select {
				case <-stop:
					return
				default:
					_ = rep.BC.VerifPersist()
					run.Obs("concurrent_flushes", 1)
					time.Sleep(30 * time.Microsecond)
				}
			}
		}()
	}
	defer func() { close(stop); wg.Wait() }()
	k := 2 + r.Intn(5)
	for i := range p.Raw {
		height := i + 1
		if rc.mempool {
			for _, tx := range h.Txs[i] {
				if r.Intn(2) == 0 {
					tc := *tx // a node pools its own parsed copy
					if rep.BC.PoolTx(&tc) == nil {
						run.Obs("mempool_block_txs_pooled", 1)
					}
				}
			}
			for _, tx := range h.Extras[i] {
				tc := *tx
				if rep.BC.PoolTx(&tc) == nil {
					run.Obs("mempool_stale_txs_pooled", 1)
				}
			}
		}
		if rc.flush == "headers" && r.Intn(2) == 0 {
			if err := rep.AddHeaderRaw(p.Raw[i]); err != nil {
				return &outcome{sig: "header-rejected", detail: fmt.Sprintf("height %d: %v", height, err), height: height, log: log}
			}
			if r.Intn(2) == 0 && !concurrentFlush {
				_ = rep.Flush()
				log = append(log, fmt.Sprintf("h%d:flush-between-header-and-block", height))
				run.Obs("flushes_between_header_and_block", 1)
			}
		}
		var aerr error
		func() {
			defer func() {
				if x := recover(); x != nil {
					aerr = fmt.Errorf("panic: %v", x)
				}
			}()
			aerr = rep.AddRaw(p.Raw[i])
		}()
		if aerr != nil {
			sig := "block-rejected"
			if strings.HasPrefix(aerr.Error(), "panic") {
				sig = "panic-while-adding-block"
			}
			return &outcome{sig: sig, detail: fmt.Sprintf("height %d: %v", height, aerr), height: height, log: log}
		}
		o := vchain.Observe(rep.BC, opts)
		run.Obs("observations_compared", 1)
		if d := p.Obs[height].Diff(o); d != "" {
			return &outcome{sig: "diverged:" + p.Obs[height].FirstDiffName(o), detail: fmt.Sprintf("height %d (%v): producer vs replica: %s; all differing fields: %v", height, p.KindLog[i], d, p.Obs[height].AllDiffNames(o)), height: height, log: log}
		}
		if !concurrentFlush {
			switch rc.flush {
			case "every":
				_ = rep.Flush()
			case "k", "headers":
				if height%k == 0 || r.Intn(5) == 0 {
					_ = rep.Flush()
					log = append(log, fmt.Sprintf("h%d:flush", height))
				}
			}
		}
		restart := false
		switch rc.restarts {
		case "random":
			restart = r.Intn(7) == 0
		case "epoch":
			m := height % epoch
			restart = (m == epoch-1 || m == 0 || m == 1) && r.Intn(2) == 0
		}
		if restart && !concurrentFlush {
			if err := rep.Restart(); err != nil {
				return &outcome{sig: "restart-failed", detail: fmt.Sprintf("height %d: %v", height, err), height: height, log: log}
			}
			log = append(log, fmt.Sprintf("h%d:restart", height))
			run.Obs("restarts", 1)
			if height%epoch == 0 || height%epoch == epoch-1 || height%epoch == 1 {
				run.Obs("restarts_at_epoch_boundary", 1)
			}
			o := vchain.Observe(rep.BC, opts)
			run.Obs("observations_compared", 1)
			if d := p.Obs[height].Diff(o); d != "" {
				return &outcome{sig: "diverged-after-restart:" + p.Obs[height].FirstDiffName(o), detail: fmt.Sprintf("height %d right after restart: %s; all differing fields: %v", height, d, p.Obs[height].AllDiffNames(o)), height: height, log: log}
			}
		}
	}
	run.Obs("flushes", int64(rep.Flushes))
	return nil
}

func skipHashFields(name string) bool {
	switch {
	case name == "current_block_hash", name == "header_hash_at_height", name == "tip_block":
		return true
	}
	return false
}

func diffSkip(a, b *vchain.Observation, skip map[string]bool) string {
	for i := range a.Names {
		if skipHashFields(a.Names[i]) || skip[a.Names[i]] {
			continue
		}
		if i >= len(b.Names) || a.Names[i] != b.Names[i] {
			return "field lists differ at " + a.Names[i]
		}
		if a.Vals[i] != b.Vals[i] {
			return fmt.Sprintf("%s: %.300s vs %.300s", a.Names[i], a.Vals[i], b.Vals[i])
		}
	}
	return ""
}

func TestCheck(t *testing.T) {
	run := ev.Start("C01", "a case is one (history, replica configuration) pair: the history's serialized blocks are fed to the replica, which is flushed / restarted / mempool-stuffed by a seeded schedule, and its full observation (state root, every contract's storage, execution results, governance and policy getters, contract states) is compared with the producer's after every block and after every restart; distinct by (history, protocol variant, replica configuration); non-trivial if the replica restarted or flushed at least once and the history contained votes, policy changes and contract storage changes")
	defer run.Finish()
	run.Assume("histories are those the generator builds (no oracle service / NeoFS / state sync here)")
	run.Assume("MaxTraceableBlocks is protocol state and therefore equal (10) on every node of a farm")
	part := os.Getenv("VERIF_PART")
	if part == "long" {
		longPart(t, run)
		return
	}
	tier := ev.Tier()
	nh := ev.Pick(5, 40)
	nb := ev.Pick(100, 200)
	race := part == "race"
	if race {
		nh, nb = ev.Pick(1, 4), ev.Pick(60, 80)
	}
	for hi := 0; hi < nh; hi++ {
		hidx := hi
		if race {
			hidx += 100
		} else if tier == "quick" && hi == nh-1 {
			// the quick tier's last history is one on which only older
			// hardforks are enabled (seed-dependent stage); the thorough tier
			// reaches those indices by itself
			hidx = 5 + 7*(int(ev.Seed())%4)
		}
		h := build(t, hidx, nb, false, nil)
		if h.P.Rejected != nil {
			run.Case(fmt.Sprint(hidx, "producer"), true)
			run.Violation("producer-rejected-own-block", fmt.Sprintf("h%d/producer", hidx), h.P.Rejected.Error(), map[string]any{"history": hidx, "height": len(h.P.Raw) + 1, "tx_kinds_at_height": kindAt(h, len(h.P.Raw))})
			h.P.Close()
			continue
		}
		sum := h.P.KindsSummary()
		kinds := strings.Join(sum, " ")
		rich := strings.Contains(kinds, "vote:HALT") && strings.Contains(kinds, "run-plan:HALT") && strings.Contains(kinds, "set-")
		run.Sample(map[string]any{"history": hidx, "protocol": h.PName, "blocks": len(h.P.Raw), "tx_kinds": sum, "final_root": h.P.Obs[len(h.P.Obs)-1].Vals[3]})
		run.Obs("blocks_produced", int64(len(h.P.Raw)))
		for k, n := range h.P.Kinds {
			if strings.HasSuffix(k, ":HALT") {
				run.Obs("txs_halted", int64(n))
			} else {
				run.Obs("txs_faulted", int64(n))
			}
		}
		cfgs := farm(tier)
		if race {
			// disk backends read the value bytes while writing them: a slice that
			// block processing modifies in place races with the flush.
			cfgs = []repCfg{cfgs[1], cfgs[3],
				{"bolt-gc-latest-concurrent", "bolt", func(c *config.Blockchain) {
					c.RemoveUntraceableBlocks = true
					c.KeepOnlyLatestState = true
					c.GarbageCollectionPeriod = 2
				}, "k", "none", true},
				{"level-gc-concurrent", "level", func(c *config.Blockchain) { c.RemoveUntraceableBlocks = true; c.GarbageCollectionPeriod = 3 }, "k", "none", false},
				{"level-latest-concurrent", "level", func(c *config.Blockchain) { c.KeepOnlyLatestState = true }, "k", "none", true},
				{"mem-archive-failing-flushes-concurrent", "mem", func(c *config.Blockchain) {}, "k", "none", false},
				{"level-gc-failing-flushes-concurrent", "level", func(c *config.Blockchain) { c.RemoveUntraceableBlocks = true; c.GarbageCollectionPeriod = 3 }, "k", "none", true},
			}
		}
		var wg sync.WaitGroup
		var mu sync.Mutex
		for ri, rc := range cfgs {
			id := fmt.Sprintf("h%d/%s", hidx, rc.name)
			if !run.Want(id) {
				continue
			}
			wg.Add(1)
			go func() {
				defer wg.Done()
				out := feed(t, run, h, rc, uint64(hidx)*1000+uint64(ri)+5000, race)
				mu.Lock()
				defer mu.Unlock()
				run.Case(fmt.Sprint(hidx, h.PName, rc.name, race), rich)
				if out != nil {
					run.Violation(out.sig+":"+rc.restarts, id, out.detail, map[string]any{"history": hidx, "protocol": h.PName, "replica": rc.name, "height": out.height, "schedule": out.log, "tx_kinds_at_height": kindAt(h, out.height)})
				}
			}()
		}
		wg.Wait()
		// second class: the same transactions sealed with StateRootInHeader.
		if !race && run.Want(fmt.Sprintf("h%d/srih", hidx)) {
			h2 := build(t, hidx, nb, true, h)
			if h2.P.Rejected != nil {
				run.Violation("producer-rejected-own-block:state-root-in-header", fmt.Sprintf("h%d/srih", hidx), h2.P.Rejected.Error(), map[string]any{"history": hidx})
				h2.P.Close()
				h.P.Close()
				continue
			}
			bad := ""
			at := 0
			for i := range h.P.Obs {
				// Ledger queries return block hashes, which legitimately differ
				// between the two block streams: their results are not compared.
				hashDependent := map[string]bool{}
				if i >= 1 && i <= len(h.P.Blocks) {
					for j, tx := range h.P.Blocks[i-1].Transactions {
						if strings.HasPrefix(h.P.TxKinds[tx.Hash()], "ledger-query") {
							hashDependent[fmt.Sprintf("tx_aer:%d", j)] = true
						}
					}
				}
				if d := diffSkip(h.P.Obs[i], h2.P.Obs[i], hashDependent); d != "" {
					bad, at = d, i
					break
				}
				run.Obs("observations_compared", 1)
			}
			run.Case(fmt.Sprint(hidx, h.PName, "srih-twin"), rich)
			if bad != "" {
				run.Violation("state-root-in-header-twin-diverged", fmt.Sprintf("h%d/srih", hidx), fmt.Sprintf("height %d: %s", at, bad), map[string]any{"history": hidx, "height": at})
			}
			// the StateRootInHeader stream on its own small farm (restarts, flushes
			// between header and block: the header check needs the local state root)
			h2.Txs, h2.Extras = h.Txs, h.Extras
			var wg2 sync.WaitGroup
			for ri, rc := range []repCfg{cfgs[0], cfgs[3], cfgs[4], cfgs[6]} {
				id := fmt.Sprintf("h%d/srih/%s", hidx, rc.name)
				if !run.Want(id) {
					continue
				}
				wg2.Add(1)
				go func() {
					defer wg2.Done()
					out := feed(t, run, h2, rc, uint64(hidx)*1000+uint64(ri)+7000, false)
					mu.Lock()
					defer mu.Unlock()
					run.Case(fmt.Sprint(hidx, h.PName, "srih", rc.name), rich)
					if out != nil {
						run.Violation("srih:"+out.sig+":"+rc.restarts, id, out.detail, map[string]any{"history": hidx, "replica": rc.name, "height": out.height, "schedule": out.log})
					}
				}()
			}
			wg2.Wait()
			h2.P.Close()
		}
		h.P.Close()
	}
}

func kindAt(h *history, height int) []string {
	var r []string
	for i := height - 3; i <= height; i++ {
		if i >= 1 && i <= len(h.P.KindLog) {
			r = append(r, fmt.Sprintf("%d:%v", i, h.P.KindLog[i-1]))
		}
	}
	sort.Strings(r)
	return r
}

package c01

import (
	"fmt"
	"sync"
	"testing"

	"github.com/nspcc-dev/neo-go/pkg/config"
	"github.com/nspcc-dev/neo-go/verifharness/vlib/ev"
	"github.com/nspcc-dev/neo-go/verifharness/vlib/rng"
	"github.com/nspcc-dev/neo-go/verifharness/vlib/vchain"
)

// longPart: a chain that crosses the 2000-header page of the header hash index,
// which is where garbage-collecting nodes really start to delete blocks,
// transactions and header hashes. Most blocks are empty; the last ones are
// busy and full of Ledger queries at both edges of the traceable window, whose
// answers every replica - whatever it has pruned - must reproduce.
func longPart(t *testing.T, run *ev.Run) {
	nblocks := ev.Pick(4120, 6150)
	proto := func(c *config.Blockchain) {
		vchain.AllForks(c)
		c.MaxTraceableBlocks = 10
		c.MaxValidUntilBlockIncrement = 5
	}
	w := vchain.DefaultWeights
	w.Ledger = 14
	p := vchain.NewProducer(t, vchain.ProducerConfig{Proto: proto, Users: 8, Observe: true, Stream: 61_000, TolerateReject: true, W: w})
	defer p.Close()
	for len(p.Raw) < nblocks && p.Rejected == nil {
		n := len(p.Raw)
		if n > nblocks-90 || n%2000 > 1985 || n%2000 < 16 || n%50 < 2 {
			txs := p.GenTxs()
			if n%2000 > 1985 || n%2000 < 16 || n%7 == 0 {
				// around the page boundary (where pruning nodes first delete
				// blocks) every block asks for the oldest traceable ones
				if tx := p.OpLedgerEdges(); tx != nil {
					txs = append(txs, tx)
				}
			}
			p.AddBlock(txs...)
		} else {
			p.AddBlock()
		}
	}
	if p.Rejected != nil {
		run.Violation("producer-rejected-own-block:long", "long", p.Rejected.Error(), nil)
		return
	}
	run.Sample(map[string]any{"part": "long", "blocks": len(p.Raw), "tx_kinds": p.KindsSummary()})
	type lcfg struct {
		name, backend string
		local         func(*config.Blockchain)
		flushEvery    int
		restarts      bool
	}
	cfgs := []lcfg{
		{"mem-gc3-flush-every", "mem", func(c *config.Blockchain) { c.RemoveUntraceableBlocks = true; c.GarbageCollectionPeriod = 3 }, 1, false},
		{"level-gc7-flush-k", "level", func(c *config.Blockchain) { c.RemoveUntraceableBlocks = true; c.GarbageCollectionPeriod = 7 }, 5, false},
		{"bolt-gc4-latest-restarts", "bolt", func(c *config.Blockchain) {
			c.RemoveUntraceableBlocks = true
			c.KeepOnlyLatestState = true
			c.GarbageCollectionPeriod = 4
		}, 3, true},
	}
	near := func(h int) bool { m := h % 2000; return m >= 1988 || m <= 12 }
	var wg sync.WaitGroup
	var mu sync.Mutex
	for ci, lc := range cfgs {
		id := "long/" + lc.name
		if !run.Want(id) {
			continue
		}
		wg.Add(1)
		go func() {
			defer wg.Done()
			r := rng.New(uint64(ci) + 62_000)
			cfg := func(c *config.Blockchain) { proto(c); lc.local(c) }
			rep, err := vchain.OpenReplica(t, vchain.ReplicaCfg{Name: lc.name, Cfg: cfg, Backend: lc.backend})
			if err != nil {
				t.Error(err)
				return
			}
			defer rep.Close()
			opts := p.ObsOpts()
			var out *outcome
			compared := 0
			for i := range p.Raw {
				height := i + 1
				var aerr error
				func() {
					defer func() {
						if x := recover(); x != nil {
							aerr = fmt.Errorf("panic: %v", x)
						}
					}()
					aerr = rep.AddRaw(p.Raw[i])
				}()
				if aerr != nil {
					out = &outcome{sig: "long:block-rejected", detail: fmt.Sprintf("height %d: %v", height, aerr), height: height}
					break
				}
				if height%lc.flushEvery == 0 || r.Intn(9) == 0 {
					_ = rep.Flush()
				}
				if lc.restarts && (height%2000 == 1999 || height%2000 == 0 || height%2000 == 1 || height == nblocks-40 || r.Intn(400) == 0) {
					if err := rep.Restart(); err != nil {
						out = &outcome{sig: "long:restart-failed", detail: fmt.Sprintf("height %d: %v", height, err), height: height}
						break
					}
					run.Obs("long_restarts", 1)
				}
				if height > nblocks-100 || near(height) || height%61 == 0 {
					o := vchain.Observe(rep.BC, opts)
					compared++
					if d := p.Obs[height].Diff(o); d != "" {
						out = &outcome{sig: "long:diverged:" + p.Obs[height].FirstDiffName(o), detail: fmt.Sprintf("height %d (%v): producer vs replica: %s; all differing fields: %v", height, p.KindLog[i], d, p.Obs[height].AllDiffNames(o)), height: height}
						break
					}
				}
			}
			mu.Lock()
			defer mu.Unlock()
			run.Obs("long_observations_compared", int64(compared))
			run.Obs("long_flushes", int64(rep.Flushes))
			run.Case(id, compared > 100)
			if out != nil {
				run.Violation(out.sig, id, out.detail, map[string]any{"replica": lc.name, "height": out.height, "blocks": len(p.Raw)})
			}
		}()
	}
	wg.Wait()
}

package c17

import (
	"encoding/json"
	"fmt"

	"github.com/nspcc-dev/neo-go/pkg/core/state"
	"github.com/nspcc-dev/neo-go/pkg/smartcontract/trigger"
	"github.com/nspcc-dev/neo-go/pkg/vm/stackitem"
	"github.com/nspcc-dev/neo-go/pkg/vm/vmstate"
	"github.com/nspcc-dev/neo-go/verifharness/vlib/ev"
	"github.com/nspcc-dev/neo-go/verifharness/vlib/rng"
)

// Execution results whose stack holds an item that has no JSON form (a
// recursive array or map, a nil read back from the database): the
// encoder writes a placeholder string for that item only, so the decoded stack
// keeps its length, the other items come back equal, and the placeholder's
// slot is empty - wherever in the stack it stands.
func checkAERPlaceholders(run *ev.Run, n int) {
	for i := 0; i < n; i++ {
		id := fmt.Sprintf("law:aer.json.placeholder:%d", i)
		if !run.Want(id) {
			continue
		}
		r := rng.New(lawStream + 77<<24 + uint64(i))
		size := 1 + r.Intn(5)
		pos := []int{0, size - 1, r.Intn(size)}[i%3]
		kind := i / 3 % 3
		var stack []stackitem.Item
		for k := 0; k < size; k++ {
			if k != pos {
				it, _ := genItem(r, itemOpts{maxBytes: 40, plain: true})
				stack = append(stack, it)
				continue
			}
			switch kind {
			case 0:
				a := stackitem.NewArray(nil)
				a.Append(a)
				stack = append(stack, a)
			case 1:
				m := stackitem.NewMap()
				m.Add(stackitem.Make(1), stackitem.NewArray([]stackitem.Item{m}))
				stack = append(stack, m)
			default:
				stack = append(stack, nil)
			}
		}
		where := "middle"
		if pos == size-1 {
			where = "last"
		}
		if pos == 0 && size > 1 {
			where = "first"
		}
		what := []string{"recursive-array", "recursive-map", "nil"}[kind]
		run.Case(fmt.Sprintf("aer.json.placeholder|%s|%s|stack%d", what, where, size), true)
		run.Obs("execution_results_with_an_unrepresentable_stack_item", 1)
		e := &state.Execution{Trigger: trigger.Application, VMState: vmstate.Halt, GasConsumed: int64(r.Intn(1000)), Stack: stack}
		viol := func(sig, detail string) {
			run.Violation("roundtrip:aer.json.placeholder:"+sig, id, fmt.Sprintf("stack of %d items, %s item at position %d (%s): %s", size, what, pos, where, detail), map[string]any{"position": pos, "size": size, "kind": what})
		}
		var data []byte
		var err error
		func() {
			defer func() {
				if x := recover(); x != nil {
					err = fmt.Errorf("panic: %v", x)
				}
			}()
			data, err = json.Marshal(e)
		}()
		if err != nil {
			viol("encode-error", err.Error())
			continue
		}
		var back state.Execution
		if err := json.Unmarshal(data, &back); err != nil {
			viol("decode-error", err.Error())
			continue
		}
		if len(back.Stack) != size {
			viol("stack-length", fmt.Sprintf("decoded stack has %d items", len(back.Stack)))
			continue
		}
		for k := range stack {
			switch {
			case k == pos && back.Stack[k] != nil:
				viol("placeholder-slot-not-empty", fmt.Sprintf("got %v", back.Stack[k]))
			case k != pos && (back.Stack[k] == nil || itemDiff("", stack[k], back.Stack[k], 0) != ""):
				viol("other-item-changed", fmt.Sprintf("item %d came back different", k))
			}
		}
	}
}

package c17

import (
	"bytes"
	"encoding/json"
	"errors"
	"fmt"
	"github.com/nspcc-dev/neo-go/pkg/crypto/hash"
	"reflect"

	"github.com/nspcc-dev/neo-go/pkg/config/netmode"
	"github.com/nspcc-dev/neo-go/pkg/consensus"
	"github.com/nspcc-dev/neo-go/pkg/core/block"
	"github.com/nspcc-dev/neo-go/pkg/core/mpt"
	"github.com/nspcc-dev/neo-go/pkg/core/state"
	"github.com/nspcc-dev/neo-go/pkg/core/transaction"
	"github.com/nspcc-dev/neo-go/pkg/io"
	"github.com/nspcc-dev/neo-go/pkg/network"
	"github.com/nspcc-dev/neo-go/pkg/network/payload"
	"github.com/nspcc-dev/neo-go/pkg/smartcontract/manifest"
	"github.com/nspcc-dev/neo-go/pkg/smartcontract/nef"
	"github.com/nspcc-dev/neo-go/pkg/util"
	"github.com/nspcc-dev/neo-go/pkg/vm/stackitem"
	"github.com/nspcc-dev/neo-go/verifharness/vlib/rng"
)

// ident is the identity a value reports about itself.
type identity struct {
	hash    string // hex, "" when the type has none
	size    int    // -1 when the type reports none
	subhash string // hashes of contained transactions (blocks, messages)
}

// codec is one (type, format, entry point) triple under test.
type codec struct {
	name  string
	typ   string // value type, used in signatures
	entry string // decoding entry point, used in identity signatures
	text  bool   // JSON: use text-level mutations as well
	maxIn int    // inputs longer than this are not fed (documented caller limit); 0 = no limit
	// gen returns a well-formed value and its shape; called twice with equal
	// streams to obtain a pristine twin of the value that gets encoded.
	gen func(r *rng.R) (any, string)
	enc func(v any) ([]byte, error)
	dec func(b []byte) (any, error)
	// diff returns "" if the two values are equal, else the first difference.
	diff func(a, b any) string
	// ident returns what the value reports as its hash and size.
	ident func(v any) identity
	// idempotentOnly marks lossy-by-specification formats: only
	// enc(dec(enc(x))) == enc(x) is demanded.
	idempotentOnly bool
	// post is an extra type-specific law run on every decoded value; canon is
	// the generator's encoding when the input was exactly that, else nil.
	post func(v any, canon []byte) string
	// norm, if set, normalises an encoding before encodings are compared
	norm func([]byte) []byte
	// weight in the fuzz schedule
	weight int
	// fix, if set, repairs the integrity fields of a mutated encoding (a trailing
	// checksum): every mutant is also offered in its repaired form, the way a
	// crafted input would come
	fix func([]byte) []byte
}

func encode(s io.Serializable) []byte {
	w := io.NewBufBinWriter()
	s.EncodeBinary(w.BinWriter)
	if w.Err != nil {
		panic(w.Err)
	}
	return w.Bytes()
}

func encodeErr(s io.Serializable) ([]byte, error) {
	w := io.NewBufBinWriter()
	s.EncodeBinary(w.BinWriter)
	if w.Err != nil {
		return nil, w.Err
	}
	return w.Bytes(), nil
}

var errTrailing = errors.New("harness: trailing bytes after the value")

// decodeAll decodes b into s and demands that every byte is consumed (a
// database record or a P2P payload holds exactly one value).
func decodeAll(s io.Serializable, b []byte) error {
	r := io.NewBinReaderFromBuf(b)
	s.DecodeBinary(r)
	if r.Err != nil {
		return r.Err
	}
	if r.Len() != 0 {
		return errTrailing
	}
	return nil
}

func noIdent(any) identity { return identity{size: -1} }

func ptrDiff(a, b any) string { return valueDiff(a, b) }

func hx(h util.Uint256) string { return h.StringLE() }

func txIdent(v any) identity {
	tx := v.(*transaction.Transaction)
	return identity{hash: hx(tx.Hash()), size: tx.Size()}
}

func txHashes(txs []*transaction.Transaction) string {
	var sb bytes.Buffer
	for _, t := range txs {
		fmt.Fprintf(&sb, "%s/%d,", t.Hash().StringLE()[:16], t.Size())
	}
	return sb.String()
}

func blockIdent(v any) identity {
	b := v.(*block.Block)
	return identity{hash: hx(b.Hash()), size: b.GetExpectedBlockSize(), subhash: txHashes(b.Transactions)}
}

// jsonCodec builds the JSON companion of a binary codec.
func jsonCodec[T any](name, typ string, gen func(r *rng.R) (any, string), prep func(*T), ident func(any) identity) *codec {
	if ident == nil {
		ident = noIdent
	}
	return &codec{
		name: name, typ: typ, entry: "UnmarshalJSON", text: true, gen: gen, weight: 1,
		enc: func(v any) ([]byte, error) { return json.Marshal(v.(*T)) },
		dec: func(b []byte) (any, error) {
			x := new(T)
			if prep != nil {
				prep(x)
			}
			if err := json.Unmarshal(b, x); err != nil {
				return nil, err
			}
			return x, nil
		},
		diff: ptrDiff, ident: ident,
	}
}

// binCodec builds a codec over io.Serializable.
func binCodec[T any, PT interface {
	*T
	io.Serializable
}](name, typ, entry string, gen func(r *rng.R) (any, string), prep func(*T), ident func(any) identity) *codec {
	if ident == nil {
		ident = noIdent
	}
	return &codec{
		name: name, typ: typ, entry: entry, gen: gen, weight: 2,
		enc: func(v any) ([]byte, error) { return encodeErr(PT(v.(*T))) },
		dec: func(b []byte) (any, error) {
			x := new(T)
			if prep != nil {
				prep(x)
			}
			if err := decodeAll(PT(x), b); err != nil {
				return nil, err
			}
			return x, nil
		},
		diff: ptrDiff, ident: ident,
	}
}

type itemBox struct{ it stackitem.Item }

type nodeBox struct{ n mpt.Node }

type consBox struct {
	spec *consensusSpec     // set for generated values
	p    *consensus.Payload // set for decoded values
}

type msgBox struct {
	m *network.Message
}

const testMagic = netmode.UnitTestNet

func allCodecs() []*codec {
	var cs []*codec
	add := func(c *codec) { cs = append(cs, c) }

	// ---- transactions and their parts ----
	genTxAny := func(o txOpts) func(r *rng.R) (any, string) {
		return func(r *rng.R) (any, string) {
			var sh []string
			tx := genTx(r, o, &sh)
			return tx, shapeSig("tx", sh)
		}
	}
	c := binCodec[transaction.Transaction]("tx.bin", "tx", "Transaction.DecodeBinary", genTxAny(txOpts{reserved: true}), nil, txIdent)
	c.weight = 8
	add(c)
	add(&codec{
		name: "tx.frombytes", typ: "tx", entry: "NewTransactionFromBytes", gen: genTxAny(txOpts{reserved: true}), weight: 8,
		enc:  func(v any) ([]byte, error) { return encodeErr(v.(*transaction.Transaction)) },
		dec:  func(b []byte) (any, error) { return transaction.NewTransactionFromBytes(b) },
		diff: ptrDiff, ident: txIdent,
	})
	add(&codec{
		name: "tx.hashable", typ: "tx", entry: "Transaction.DecodeHashableFields", gen: genTxAny(txOpts{reserved: true, small: true}), weight: 3,
		enc: func(v any) ([]byte, error) { return v.(*transaction.Transaction).EncodeHashableFields() },
		dec: func(b []byte) (any, error) {
			tx := new(transaction.Transaction)
			if err := tx.DecodeHashableFields(b); err != nil {
				return nil, err
			}
			return tx, nil
		},
		diff: func(a, b any) string {
			// the signed part carries no witnesses
			x, y := *a.(*transaction.Transaction), *b.(*transaction.Transaction)
			x.Scripts, y.Scripts = nil, nil
			return valueDiff(&x, &y)
		},
		ident: func(v any) identity { return identity{hash: hx(v.(*transaction.Transaction).Hash()), size: -1} },
	})
	c = jsonCodec[transaction.Transaction]("tx.json", "tx", genTxAny(txOpts{}), nil, txIdent)
	c.weight = 3
	add(c)
	genSignerAny := func(r *rng.R) (any, string) {
		var sh []string
		s := genSigner(r, &sh)
		return &s, shapeSig("signer", sh)
	}
	add(binCodec[transaction.Signer]("signer.bin", "signer", "Signer.DecodeBinary", genSignerAny, nil, nil))
	add(jsonCodec[transaction.Signer]("signer.json", "signer", genSignerAny, nil, nil))
	genWitnessAny := func(r *rng.R) (any, string) {
		w := genWitness(r)
		return &w, fmt.Sprintf("witness:%d,%d", vclass(len(w.InvocationScript)), vclass(len(w.VerificationScript)))
	}
	add(binCodec[transaction.Witness]("witness.bin", "witness", "Witness.DecodeBinary", genWitnessAny, nil, nil))
	add(jsonCodec[transaction.Witness]("witness.json", "witness", genWitnessAny, nil, nil))
	genRuleAny := func(r *rng.R) (any, string) {
		var sh []string
		w := genRule(r, &sh)
		return &w, shapeSig("rule", sh)
	}
	add(binCodec[transaction.WitnessRule]("rule.bin", "witness-rule", "WitnessRule.DecodeBinary", genRuleAny, nil, nil))
	add(jsonCodec[transaction.WitnessRule]("rule.json", "witness-rule", genRuleAny, nil, nil))
	genAttrAny := func(reserved bool) func(r *rng.R) (any, string) {
		return func(r *rng.R) (any, string) {
			for {
				var sh []string
				as := genAttrs(r, 3, reserved, &sh)
				if len(as) > 0 {
					return &as[0], shapeSig("attr", sh[:1])
				}
			}
		}
	}
	add(binCodec[transaction.Attribute]("attr.bin", "attribute", "Attribute.DecodeBinary", genAttrAny(true), nil, nil))
	add(jsonCodec[transaction.Attribute]("attr.json", "attribute", genAttrAny(false), nil, nil))

	// ---- headers and blocks ----
	for _, sr := range []bool{false, true} {
		sfx := ""
		if sr {
			sfx = "+sr"
		}
		genHdr := func(r *rng.R) (any, string) {
			return genHeader(r, sr), fmt.Sprint("header:sr", sr)
		}
		hdrIdent := func(v any) identity { return identity{hash: hx(v.(*block.Header).Hash()), size: -1} }
		prepH := func(h *block.Header) { h.StateRootEnabled = sr }
		add(binCodec[block.Header]("header.bin"+sfx, "header", "Header.DecodeBinary", genHdr, prepH, hdrIdent))
		add(jsonCodec[block.Header]("header.json"+sfx, "header", genHdr, prepH, hdrIdent))
		genBlk := func(reserved bool) func(r *rng.R) (any, string) {
			return func(r *rng.R) (any, string) {
				var sh []string
				b := genBlock(r, sr, reserved, &sh)
				return b, shapeSig("block", sh)
			}
		}
		prepB := func(b *block.Block) { b.StateRootEnabled = sr }
		c = binCodec[block.Block]("block.bin"+sfx, "block", "Block.DecodeBinary", genBlk(true), prepB, blockIdent)
		c.weight = 4
		add(c)
		add(jsonCodec[block.Block]("block.json"+sfx, "block", genBlk(false), prepB, blockIdent))
		add(&codec{
			name: "block.trimmed" + sfx, typ: "block", entry: "NewTrimmedFromReader", gen: genBlk(true), weight: 1,
			enc: func(v any) ([]byte, error) {
				w := io.NewBufBinWriter()
				v.(*block.Block).EncodeTrimmed(w.BinWriter)
				if w.Err != nil {
					return nil, w.Err
				}
				return w.Bytes(), nil
			},
			dec: func(b []byte) (any, error) {
				r := io.NewBinReaderFromBuf(b)
				blk, err := block.NewTrimmedFromReader(sr, r)
				if err != nil {
					return nil, err
				}
				if r.Len() != 0 {
					return nil, errTrailing
				}
				return blk, nil
			},
			diff: func(a, b any) string {
				x, y := a.(*block.Block), b.(*block.Block)
				if d := valueDiff(&x.Header, &y.Header); d != "" {
					return d
				}
				if len(x.Transactions) != len(y.Transactions) {
					return fmt.Sprintf("tx count %d vs %d", len(x.Transactions), len(y.Transactions))
				}
				for i := range x.Transactions {
					if x.Transactions[i].Hash() != y.Transactions[i].Hash() {
						return fmt.Sprintf("tx[%d] hash", i)
					}
				}
				return ""
			},
			ident: func(v any) identity { return identity{hash: hx(v.(*block.Block).Hash()), size: -1} },
		})
	}

	// ---- P2P ----
	for _, sr := range []bool{false, true} {
		sfx := ""
		if sr {
			sfx = "+sr"
		}
		add(&codec{
			name: "p2p.message" + sfx, typ: "p2p-message", entry: "Message.Decode", weight: 6, norm: plainFrame,
			gen: func(r *rng.R) (any, string) {
				for {
					var sh []string
					m := genMessage(r, &sh)
					if m.StateRootInHeader == sr {
						return &msgBox{m}, shapeSig("msg", sh)
					}
				}
			},
			enc: func(v any) ([]byte, error) { return v.(*msgBox).m.Bytes() },
			dec: func(b []byte) (any, error) {
				m := &network.Message{StateRootInHeader: sr}
				r := io.NewBinReaderFromBuf(b)
				if err := m.Decode(r); err != nil {
					return nil, err
				}
				if r.Len() != 0 {
					return nil, errTrailing
				}
				return &msgBox{m}, nil
			},
			diff: func(a, b any) string {
				x, y := a.(*msgBox).m, b.(*msgBox).m
				if x.Command != y.Command {
					return fmt.Sprintf("command %s vs %s", x.Command, y.Command)
				}
				return valueDiff(&x.Payload, &y.Payload)
			},
			ident: func(v any) identity {
				// transaction and block payloads: see the path laws (clause c)
				switch p := v.(*msgBox).m.Payload.(type) {
				case *payload.Extensible:
					return identity{hash: hx(p.Hash()), size: -1}
				case *payload.P2PNotaryRequest:
					return identity{hash: hx(p.Hash()), size: -1, subhash: txHashes([]*transaction.Transaction{p.MainTransaction, p.FallbackTransaction})}
				}
				return identity{size: -1}
			},
		})
	}
	// list-bearing payloads on their own (inside p2p.message they are one command
	// of twenty and often compressed, so their count fields were seldom hit)
	add(binCodec[payload.MPTData]("mptdata.bin", "p2p-payload", "MPTData.DecodeBinary", func(r *rng.R) (any, string) {
		d := &payload.MPTData{}
		for range 1 + countN(r, 20) {
			d.Nodes = append(d.Nodes, r.Bytes(1+blen(r, 2000)))
		}
		return d, fmt.Sprintf("mptdata:%d", vclass(len(d.Nodes)))
	}, nil, nil))
	add(binCodec[payload.MPTInventory]("mptinventory.bin", "p2p-payload", "MPTInventory.DecodeBinary", func(r *rng.R) (any, string) {
		d := &payload.MPTInventory{Hashes: hashes(r, 1+r.Intn(payload.MaxMPTHashesCount))}
		return d, fmt.Sprintf("mptinv:%d", vclass(len(d.Hashes)))
	}, nil, nil))
	add(binCodec[payload.Inventory]("inventory.bin", "p2p-payload", "Inventory.DecodeBinary", func(r *rng.R) (any, string) {
		typ := []payload.InventoryType{payload.TXType, payload.BlockType, payload.ExtensibleType, payload.P2PNotaryRequestType}[r.Intn(4)]
		d := &payload.Inventory{Type: typ, Hashes: hashes(r, 1+r.Intn(60))}
		return d, fmt.Sprintf("inv:%d:%d", typ, vclass(len(d.Hashes)))
	}, nil, nil))
	add(binCodec[payload.AddressList]("addrlist.bin", "p2p-payload", "AddressList.DecodeBinary", func(r *rng.R) (any, string) {
		al := &payload.AddressList{}
		for range 1 + r.Intn(12) {
			a := &payload.AddressAndTime{Timestamp: bu32(r), Capabilities: genCaps(r)}
			copy(a.IP[:], r.Bytes(16))
			al.Addrs = append(al.Addrs, a)
		}
		return al, fmt.Sprintf("addrs:%d", vclass(len(al.Addrs)))
	}, nil, nil))
	add(binCodec[payload.Headers]("headers.bin", "p2p-payload", "Headers.DecodeBinary", func(r *rng.R) (any, string) {
		hs := &payload.Headers{}
		for range 1 + r.Intn(12) {
			hs.Hdrs = append(hs.Hdrs, genHeader(r, false))
		}
		return hs, fmt.Sprintf("headers:%d", vclass(len(hs.Hdrs)))
	}, nil, nil))
	add(binCodec[payload.MerkleBlock]("merkleblock.bin", "p2p-payload", "MerkleBlock.DecodeBinary", func(r *rng.R) (any, string) {
		n := 1 + r.Intn(20)
		mb := &payload.MerkleBlock{Header: genHeader(r, false), TxCount: n, Hashes: hashes(r, n), Flags: r.Bytes((n + 7) / 8)}
		return mb, fmt.Sprintf("merkleblock:%d", vclass(n))
	}, nil, nil))
	extIdent := func(v any) identity { return identity{hash: hx(v.(*payload.Extensible).Hash()), size: -1} }
	add(binCodec[payload.Extensible]("extensible.bin", "extensible", "Extensible.DecodeBinary", func(r *rng.R) (any, string) {
		e := genExtensible(r)
		return e, fmt.Sprintf("ext:%d,%d", vclass(len(e.Data)), vclass(len(e.Category)))
	}, nil, extIdent))
	add(&codec{
		name: "notaryrequest.bin", typ: "notary-request", entry: "NewP2PNotaryRequestFromBytes", weight: 3,
		gen: func(r *rng.R) (any, string) {
			var sh []string
			n := genNotaryRequest(r, &sh)
			return n, shapeSig("notary", sh)
		},
		enc:  func(v any) ([]byte, error) { return v.(*payload.P2PNotaryRequest).Bytes() },
		dec:  func(b []byte) (any, error) { return payload.NewP2PNotaryRequestFromBytes(b) },
		diff: ptrDiff,
		ident: func(v any) identity {
			n := v.(*payload.P2PNotaryRequest)
			return identity{hash: hx(n.Hash()), size: -1, subhash: txHashes([]*transaction.Transaction{n.MainTransaction, n.FallbackTransaction})}
		},
	})

	// ---- consensus ----
	for _, sr := range []bool{false, true} {
		sfx := ""
		if sr {
			sfx = "+sr"
		}
		add(&codec{
			name: "consensus.bin" + sfx, typ: "consensus-payload", entry: "consensus.Payload.DecodeBinary", weight: 6,
			gen: func(r *rng.R) (any, string) {
				var sh []string
				return &consBox{spec: genConsensusSpec(r, sr, &sh)}, shapeSig("consensus", sh)
			},
			enc: func(v any) ([]byte, error) {
				cb := v.(*consBox)
				if cb.spec != nil {
					return encodeErr(&cb.spec.ext)
				}
				// a received payload is relayed with its retained Data bytes
				return encodeErr(cb.p)
			},
			dec: func(b []byte) (any, error) {
				p := consensus.NewPayload(testMagic, sr)
				if err := decodeAll(p, b); err != nil {
					return nil, err
				}
				return &consBox{p: p}, nil
			},
			diff:  consDiff,
			ident: func(v any) identity { return consIdent(v.(*consBox)) },
			post:  func(v any, canon []byte) string { return consPost(v.(*consBox), sr, canon) },
		})
	}

	// ---- state roots, MPT nodes ----
	srIdent := func(v any) identity { return identity{hash: hx(v.(*state.MPTRoot).Hash()), size: -1} }
	genSR := func(r *rng.R) (any, string) {
		s := genStateRoot(r)
		return s, fmt.Sprint("stateroot:w", len(s.Witness))
	}
	add(binCodec[state.MPTRoot]("stateroot.bin", "state-root", "MPTRoot.DecodeBinary", genSR, nil, srIdent))
	add(jsonCodec[state.MPTRoot]("stateroot.json", "state-root", genSR, nil, srIdent))
	genNodeAny := func(r *rng.R) (any, string) {
		var sh []string
		n := genNode(r, 0, &sh)
		return &nodeBox{n}, shapeSig("mpt", sh)
	}
	nodeIdent := func(v any) identity {
		n := v.(*nodeBox).n
		if nodeEmpty(n) {
			return identity{size: 0}
		}
		return identity{hash: hx(n.Hash()), size: n.Size()}
	}
	nodeBoxDiff := func(a, b any) string { return nodeDiff("", a.(*nodeBox).n, b.(*nodeBox).n, true) }
	add(&codec{
		name: "mptnode.bin", typ: "mpt-node", entry: "mpt.NodeObject.DecodeBinary", gen: genNodeAny, weight: 4,
		enc: func(v any) ([]byte, error) { return encodeErr(&mpt.NodeObject{Node: v.(*nodeBox).n}) },
		dec: func(b []byte) (any, error) {
			var no mpt.NodeObject
			if err := decodeAll(&no, b); err != nil {
				return nil, err
			}
			return &nodeBox{no.Node}, nil
		},
		diff: nodeBoxDiff, ident: nodeIdent,
	})
	add(&codec{
		name: "mptnode.json", typ: "mpt-node", entry: "mpt.NodeObject.UnmarshalJSON", gen: genNodeAny, text: true, weight: 1,
		enc: func(v any) ([]byte, error) { return json.Marshal(v.(*nodeBox).n) },
		dec: func(b []byte) (any, error) {
			var no mpt.NodeObject
			if err := json.Unmarshal(b, &no); err != nil {
				return nil, err
			}
			return &nodeBox{no.Node}, nil
		},
		diff: nodeBoxDiff, ident: nodeIdent,
	})

	// ---- NEF, manifest, contract state ----
	genNEFAny := func(r *rng.R) (any, string) {
		var sh []string
		f := genNEF(r, &sh)
		return f, shapeSig("nef", sh)
	}
	nefIdent := func(v any) identity { return identity{hash: fmt.Sprintf("%08x", v.(*nef.File).Checksum), size: -1} }
	add(&codec{
		name: "nef.bin", typ: "nef", entry: "nef.FileFromBytes", gen: genNEFAny, weight: 4,
		enc: func(v any) ([]byte, error) { return v.(*nef.File).Bytes() },
		dec: func(b []byte) (any, error) {
			f, err := nef.FileFromBytes(b)
			if err != nil {
				return nil, err
			}
			return &f, nil
		},
		diff: ptrDiff, ident: nefIdent,
		fix: func(b []byte) []byte {
			if len(b) < 8 {
				return nil
			}
			f := bytes.Clone(b)
			copy(f[len(f)-4:], hash.Checksum(f[:len(f)-4]))
			return f
		},
	})
	add(jsonCodec[nef.File]("nef.json", "nef", genNEFAny, nil, nefIdent))
	genMfAny := func(r *rng.R) (any, string) {
		var sh []string
		m := genManifest(r, &sh)
		return m, shapeSig("manifest", sh)
	}
	add(jsonCodec[manifest.Manifest]("manifest.json", "manifest", genMfAny, nil, nil))
	add(&codec{
		name: "manifest.item", typ: "manifest", entry: "Manifest.FromStackItem", gen: genMfAny, weight: 2,
		enc: func(v any) ([]byte, error) {
			it, err := v.(*manifest.Manifest).ToStackItem()
			if err != nil {
				return nil, err
			}
			return stackitem.Serialize(it)
		},
		dec: func(b []byte) (any, error) {
			it, err := stackitem.Deserialize(b)
			if err != nil {
				return nil, err
			}
			m := new(manifest.Manifest)
			if err := m.FromStackItem(it); err != nil {
				return nil, err
			}
			return m, nil
		},
		diff: ptrDiff, ident: noIdent, maxIn: stackitem.MaxSize,
	})
	add(&codec{
		name: "contract.item", typ: "contract-state", entry: "state.Contract.FromStackItem", weight: 2,
		gen: func(r *rng.R) (any, string) {
			var sh []string
			c := genContract(r, &sh)
			return c, shapeSig("contract", sh)
		},
		enc: func(v any) ([]byte, error) { return stackitem.SerializeConvertible(v.(*state.Contract)) },
		dec: func(b []byte) (any, error) {
			c := new(state.Contract)
			if err := stackitem.DeserializeConvertible(b, c); err != nil {
				return nil, err
			}
			return c, nil
		},
		diff: ptrDiff, ident: noIdent, maxIn: stackitem.MaxSize,
	})

	// ---- stack items ----
	itemDiffBox := func(a, b any) string { return itemDiff("", a.(*itemBox).it, b.(*itemBox).it, 0) }
	genItemAny := func(o itemOpts) func(r *rng.R) (any, string) {
		return func(r *rng.R) (any, string) {
			it, sh := genItem(r, o)
			return &itemBox{it}, sh
		}
	}
	add(&codec{
		name: "item.bin", typ: "stack-item", entry: "stackitem.Deserialize", gen: genItemAny(itemOpts{bin: true}), weight: 8, maxIn: stackitem.MaxSize,
		enc: func(v any) ([]byte, error) { return stackitem.Serialize(v.(*itemBox).it) },
		dec: func(b []byte) (any, error) {
			it, err := stackitem.Deserialize(b)
			if err != nil {
				return nil, err
			}
			return &itemBox{it}, nil
		},
		diff: itemDiffBox, ident: noIdent,
	})
	add(&codec{
		name: "item.json", typ: "stack-item", entry: "stackitem.FromJSONWithTypes", gen: genItemAny(itemOpts{protected: true}), text: true, weight: 4, maxIn: stackitem.MaxSize,
		enc: func(v any) ([]byte, error) { return stackitem.ToJSONWithTypes(v.(*itemBox).it) },
		dec: func(b []byte) (any, error) {
			it, err := stackitem.FromJSONWithTypes(b)
			if err != nil {
				return nil, err
			}
			return &itemBox{it}, nil
		},
		diff: itemDiffBox, ident: noIdent,
	})
	add(&codec{
		name: "item.plainjson", typ: "stack-item", entry: "stackitem.FromJSON", gen: genItemAny(itemOpts{plainJSON: true}), text: true, weight: 3, maxIn: stackitem.MaxSize,
		idempotentOnly: true,
		enc:            func(v any) ([]byte, error) { return stackitem.ToJSON(v.(*itemBox).it) },
		dec: func(b []byte) (any, error) {
			it, err := stackitem.FromJSON(b, stackitem.MaxDeserialized, true)
			if err != nil {
				return nil, err
			}
			return &itemBox{it}, nil
		},
		diff: itemDiffBox, ident: noIdent,
	})

	// ---- execution results ----
	genAERAny := func(invocations bool) func(r *rng.R) (any, string) {
		return func(r *rng.R) (any, string) {
			var sh []string
			a := genAER(r, invocations, &sh)
			return a, shapeSig("aer", sh)
		}
	}
	c = binCodec[state.AppExecResult]("aer.bin", "exec-result", "AppExecResult.DecodeBinary", genAERAny(true), nil, nil)
	c.weight = 6
	c.enc = func(v any) ([]byte, error) {
		// EncodeBinary records "has invocations" in a spare bit of the VMState
		// field of the value it is given; encode a shallow copy so that the
		// value under comparison stays what was decoded / constructed.
		cp := *v.(*state.AppExecResult)
		return encodeErr(&cp)
	}
	add(c)
	add(jsonCodec[state.AppExecResult]("aer.json", "exec-result", genAERAny(false), nil, nil))
	// contract invocations have their own JSON codec (laws only)
	c = jsonCodec[state.ContractInvocation]("invocation.json", "contract-invocation", func(r *rng.R) (any, string) {
		var args []byte
		if r.Chance(3, 4) {
			args, _ = stackitem.Serialize(genArrayItem(r, itemOpts{maxBytes: 40, plain: true}))
		}
		return state.NewContractInvocation(u160(r), ident(r, 20), args, bu32(r)), fmt.Sprint("invocation:args", args != nil)
	}, nil, nil)
	c.weight = 0
	c.diff = invocationDiff
	add(c)
	return cs
}

// vclass maps a length to its var-int size class boundary neighbourhood.
func vclass(n int) int {
	switch {
	case n == 0:
		return 0
	case n < 0xfc:
		return 1
	case n <= 0xfe:
		return n
	case n < 0xffff:
		return 3
	case n <= 0x10000:
		return n
	default:
		return 5
	}
}

// ---- consensus comparison ------------------------------------------------------

func consIdent(cb *consBox) identity {
	if cb.p != nil {
		return identity{hash: hx(cb.p.Hash()), size: -1}
	}
	e := cb.spec.ext
	return identity{hash: hx(e.Hash()), size: -1}
}

// consDiff compares a generated specification with a decoded payload, or two
// decoded payloads.
func consDiff(a, b any) string {
	x, y := a.(*consBox), b.(*consBox)
	if x.p != nil && y.p != nil {
		p, q := *x.p, *y.p
		// Data is the retained encoding of the message; the message itself is
		// compared field by field below through the struct walk.
		p.Data, q.Data = nil, nil
		return valueDiff(&p, &q)
	}
	if x.spec == nil {
		x, y = y, x
	}
	s, p := x.spec, y.p
	if s == nil || p == nil {
		return "harness: consDiff needs a spec and a payload"
	}
	if byte(p.Type()) != s.typ {
		return fmt.Sprintf("type %x vs %x", p.Type(), s.typ)
	}
	if p.Height() != s.blockIndex || p.ValidatorIndex() != uint16(s.validator) || p.ViewNumber() != s.view {
		return fmt.Sprintf("header fields: height %d/%d validator %d/%d view %d/%d", p.Height(), s.blockIndex, p.ValidatorIndex(), s.validator, p.ViewNumber(), s.view)
	}
	if p.Category != s.ext.Category || p.ValidBlockStart != s.ext.ValidBlockStart || p.ValidBlockEnd != s.ext.ValidBlockEnd || p.Sender != s.ext.Sender {
		return "envelope fields"
	}
	if !bytes.Equal(p.Data, s.ext.Data) || !bytes.Equal(p.Witness.InvocationScript, s.ext.Witness.InvocationScript) || !bytes.Equal(p.Witness.VerificationScript, s.ext.Witness.VerificationScript) {
		return "envelope data/witness"
	}
	switch s.typ {
	case cmChangeView:
		cv := p.GetChangeView()
		if byte(cv.Reason()) != s.cvReason || cv.NewViewNumber() != s.view+1 {
			return fmt.Sprintf("change view: reason %d/%d new view %d/%d", cv.Reason(), s.cvReason, cv.NewViewNumber(), s.view+1)
		}
	case cmPrepareRequest:
		pr := p.GetPrepareRequest()
		if pr.Timestamp() != s.prTimestamp*1_000_000 || pr.Nonce() != s.prNonce {
			return "prepare request: timestamp/nonce"
		}
		hs := pr.TransactionHashes()
		if len(hs) != len(s.prHashes) {
			return fmt.Sprintf("prepare request: %d hashes vs %d", len(hs), len(s.prHashes))
		}
		for i := range hs {
			if hs[i] != s.prHashes[i] {
				return fmt.Sprintf("prepare request: hash %d", i)
			}
		}
	case cmPrepareResponse:
		if p.GetPrepareResponse().PreparationHash() != s.respHash {
			return "prepare response: hash"
		}
	case cmCommit:
		if !bytes.Equal(p.GetCommit().Signature(), s.commitSig) {
			return "commit: signature"
		}
	case cmRecoveryRequest:
		if p.GetRecoveryRequest().Timestamp() != s.rrTimestamp*1_000_000 {
			return "recovery request: timestamp"
		}
	case cmRecoveryMessage:
		rm := p.GetRecoveryMessage()
		ph := rm.PreparationHash()
		if (ph == nil) != (s.recPrepHash == nil) || ph != nil && *ph != *s.recPrepHash {
			return "recovery message: preparation hash"
		}
	}
	return ""
}

// consPost re-encodes the consensus message from the decoded fields (as a
// node does for a payload it builds itself) and demands that (1) for a
// canonical input the bytes are reproduced exactly - the generator's encoder
// is written independently from the wire format - and (2) the re-encoding
// decodes to an equal message.
func consPost(cb *consBox, sr bool, canon []byte) string {
	if cb.p == nil {
		return ""
	}
	cp := *cb.p
	cp.Data = nil
	w := io.NewBufBinWriter()
	cp.EncodeBinary(w.BinWriter)
	if w.Err != nil {
		return "message re-encoding failed: " + w.Err.Error()
	}
	if canon != nil && !bytes.Equal(cp.Data, cb.p.Data) {
		return fmt.Sprintf("message re-encoded from fields differs from the canonical bytes: %x vs %x", truncB(cp.Data), truncB(cb.p.Data))
	}
	q := consensus.NewPayload(testMagic, sr)
	if err := decodeAll(q, w.Bytes()); err != nil {
		return "re-encoded message does not decode: " + err.Error()
	}
	a, b := reflect.ValueOf(cb.p).Elem().FieldByName("message"), reflect.ValueOf(q).Elem().FieldByName("message")
	if d := deq("message", clean(a), clean(b), 0); d != "" {
		return "re-encoded message decodes to a different message: " + d
	}
	return ""
}

// invocationDiff compares contract invocations by content: the arguments are
// held as serialized bytes on the node side and as an item on the client side.
func invocationDiff(a, b any) string {
	x, y := a.(*state.ContractInvocation), b.(*state.ContractInvocation)
	if x.Hash != y.Hash || x.Method != y.Method || x.ArgumentsCount != y.ArgumentsCount || x.Truncated != y.Truncated {
		return "hash/method/count/truncated"
	}
	args := func(ci *state.ContractInvocation) stackitem.Item {
		if ci.Arguments != nil {
			return ci.Arguments
		}
		raw := clean(reflect.ValueOf(ci).Elem().FieldByName("argumentsBytes")).Bytes()
		if raw == nil {
			return nil
		}
		it, err := stackitem.Deserialize(raw)
		if err != nil {
			return nil
		}
		return it
	}
	return itemDiff(".Arguments", args(x), args(y), 0)
}

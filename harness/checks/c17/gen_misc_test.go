package c17

import (
	"encoding/json"
	"fmt"

	"github.com/nspcc-dev/neo-go/pkg/core/mpt"
	"github.com/nspcc-dev/neo-go/pkg/core/state"
	"github.com/nspcc-dev/neo-go/pkg/core/transaction"
	"github.com/nspcc-dev/neo-go/pkg/smartcontract"
	"github.com/nspcc-dev/neo-go/pkg/smartcontract/callflag"
	"github.com/nspcc-dev/neo-go/pkg/smartcontract/manifest"
	"github.com/nspcc-dev/neo-go/pkg/smartcontract/nef"
	"github.com/nspcc-dev/neo-go/verifharness/vlib/rng"
)

// ---- MPT nodes ----------------------------------------------------------------

const mptMaxPath = (64 + 4) * 2 // (limits.MaxStorageKeyLen + 4) * 2, the unexported maxPathLength

func nibbles(r *rng.R, n int) []byte {
	b := make([]byte, n)
	for i := range b {
		b[i] = byte(r.Intn(16))
	}
	return b
}

// genNode returns an MPT node; inline says whether children are kept as full
// nodes (as in memory) or as hash nodes (as decoded from the database).
func genNode(r *rng.R, depth int, shape *[]string) mpt.Node {
	child := func() mpt.Node {
		if depth < 2 && r.Chance(1, 3) {
			n := genNode(r, depth+1, shape)
			if _, ok := n.(mpt.EmptyNode); !ok {
				return n
			}
		}
		return mpt.NewHashNode(u256(r))
	}
	switch k := r.Intn(10); {
	case k < 3:
		*shape = append(*shape, "leaf")
		return mpt.NewLeafNode(r.Bytes(blen(r, mpt.MaxValueLength)))
	case k < 6:
		*shape = append(*shape, "ext")
		n := 1 + r.Intn(8)
		if r.Chance(1, 6) {
			n = mptMaxPath
		}
		return mpt.NewExtensionNode(nibbles(r, n), child())
	case k < 8:
		*shape = append(*shape, "branch")
		b := mpt.NewBranchNode()
		for i := range b.Children {
			if r.Chance(1, 3) {
				b.Children[i] = child()
			}
		}
		return b
	case k < 9:
		*shape = append(*shape, "hash")
		return mpt.NewHashNode(u256(r))
	default:
		*shape = append(*shape, "empty")
		return mpt.EmptyNode{}
	}
}

func genStateRoot(r *rng.R) *state.MPTRoot {
	s := &state.MPTRoot{Version: byte(r.Intn(256)), Index: bu32(r), Root: u256(r)}
	if r.Bool() {
		s.Witness = []transaction.Witness{genWitness(r)}
	} else {
		s.Witness = []transaction.Witness{}
	}
	return s
}

// ---- NEF ----------------------------------------------------------------------

func genNEF(r *rng.R, shape *[]string) *nef.File {
	f := &nef.File{
		Header: nef.Header{Magic: nef.Magic, Compiler: ident(r, 64)},
		Source: text(r, nef.MaxSourceURLLength),
		Tokens: []nef.MethodToken{},
		Script: r.Bytes(1 + blen(r, 3000)),
	}
	n := r.Intn(4)
	if r.Chance(1, 10) {
		n = 128
	}
	for range n {
		f.Tokens = append(f.Tokens, nef.MethodToken{
			Hash:       u160(r),
			Method:     ident(r, 32),
			ParamCount: uint16(r.Intn(65536)),
			HasReturn:  r.Bool(),
			CallFlag:   callflag.CallFlag(r.Intn(int(callflag.All) + 1)),
		})
	}
	f.Checksum = f.CalculateChecksum()
	*shape = append(*shape, fmt.Sprintf("tokens%d", min(n, 4)))
	return f
}

// ---- manifests ----------------------------------------------------------------

var paramTypes = []smartcontract.ParamType{
	smartcontract.AnyType, smartcontract.BoolType, smartcontract.IntegerType, smartcontract.ByteArrayType,
	smartcontract.StringType, smartcontract.Hash160Type, smartcontract.Hash256Type, smartcontract.PublicKeyType,
	smartcontract.SignatureType, smartcontract.ArrayType, smartcontract.MapType, smartcontract.InteropInterfaceType,
}

func genParams(r *rng.R) []manifest.Parameter {
	ps := make([]manifest.Parameter, r.Intn(4))
	for i := range ps {
		ps[i] = manifest.Parameter{Name: fmt.Sprintf("p%d%s", i, ident(r, 6)), Type: paramTypes[r.Intn(len(paramTypes))]}
	}
	return ps
}

func genDesc(r *rng.R, wildcard bool) manifest.PermissionDesc {
	k := r.Intn(3)
	if !wildcard && k == 0 {
		k = 1
	}
	switch k {
	case 0:
		return manifest.PermissionDesc{Type: manifest.PermissionWildcard}
	case 1:
		return manifest.PermissionDesc{Type: manifest.PermissionHash, Value: u160(r)}
	default:
		return manifest.PermissionDesc{Type: manifest.PermissionGroup, Value: genKey(r)}
	}
}

func genManifest(r *rng.R, shape *[]string) *manifest.Manifest {
	m := &manifest.Manifest{
		Name:               "c" + text(r, 30),
		Features:           json.RawMessage(`{}`),
		Groups:             []manifest.Group{},
		Permissions:        []manifest.Permission{},
		SupportedStandards: []string{},
		ABI:                manifest.ABI{Methods: []manifest.Method{}, Events: []manifest.Event{}},
	}
	for i := range r.Intn(3) {
		g := manifest.Group{PublicKey: pubKeys()[(i*7+r.Intn(7))%len(pubKeys())], Signature: r.Bytes(64)}
		m.Groups = append(m.Groups, g)
	}
	for i := range r.Intn(3) {
		m.SupportedStandards = append(m.SupportedStandards, fmt.Sprintf("NEP-%d%s", 11+i, ident(r, 3)))
	}
	for i := range 1 + r.Intn(4) {
		rt := smartcontract.VoidType
		if r.Bool() {
			rt = paramTypes[r.Intn(len(paramTypes))]
		}
		m.ABI.Methods = append(m.ABI.Methods, manifest.Method{Name: fmt.Sprintf("m%d%s", i, ident(r, 8)), Offset: r.Intn(70000), Parameters: genParams(r), ReturnType: rt, Safe: r.Bool()})
	}
	for i := range r.Intn(3) {
		m.ABI.Events = append(m.ABI.Events, manifest.Event{Name: fmt.Sprintf("E%d%s", i, text(r, 8)), Parameters: genParams(r)})
	}
	for range r.Intn(4) {
		p := manifest.Permission{Contract: genDesc(r, true)}
		if r.Bool() {
			p.Methods.Value = []string{} // restricted, possibly empty
			for i := range r.Intn(3) {
				p.Methods.Value = append(p.Methods.Value, fmt.Sprintf("f%d%s", i, ident(r, 5)))
			}
			*shape = append(*shape, "perm-methods-list")
		} else {
			*shape = append(*shape, "perm-methods-wild")
		}
		*shape = append(*shape, fmt.Sprintf("perm%d", p.Contract.Type))
		m.Permissions = append(m.Permissions, p)
	}
	if r.Bool() {
		m.Trusts = manifest.WildPermissionDescs{Wildcard: true}
		*shape = append(*shape, "trusts-wild")
	} else {
		m.Trusts = manifest.WildPermissionDescs{Value: []manifest.PermissionDesc{}}
		for range r.Intn(3) {
			m.Trusts.Value = append(m.Trusts.Value, genDesc(r, false))
		}
		*shape = append(*shape, fmt.Sprintf("trusts%d", len(m.Trusts.Value)))
	}
	switch r.Intn(3) {
	case 0:
		m.Extra = json.RawMessage(`null`)
	case 1:
		m.Extra = json.RawMessage(fmt.Sprintf(`{"b":%d,"a":"%s","z":[1,2.5,{"q":null}],"n":12345678901234567890}`, r.Intn(1000), ident(r, 6)))
	default:
		// characters the standard encoder spells as escapes when it writes the text out again
		m.Extra = json.RawMessage(fmt.Sprintf(`"%s%s"`, ident(r, 10), []string{"", "<", "&>", "\u2028"}[r.Intn(4)]))
	}
	return m
}

func genContract(r *rng.R, shape *[]string) *state.Contract {
	c := &state.Contract{UpdateCounter: uint16(r.Intn(65536))}
	c.ID = int32(r.Uint32())
	c.Hash = u160(r)
	c.NEF = *genNEF(r, shape)
	c.Manifest = *genManifest(r, shape)
	return c
}

package c17

import (
	"bufio"
	"bytes"
	"encoding/binary"
	"encoding/json"
	"fmt"
	"os"
	"regexp"
	"runtime"
	"sort"
	"strconv"
	"strings"
	"syscall"
	"time"

	"github.com/nspcc-dev/neo-go/verifharness/vlib/ev"
	"github.com/nspcc-dev/neo-go/verifharness/vlib/rng"
)

// ---- bounds of clause (d) -----------------------------------------------------

const (
	allocFloor   = 64 << 20 // bytes a single decode call may always allocate
	allocPerByte = 64       // … or this many bytes per input byte, whichever is larger
	cpuBound     = 3 * time.Second
	fuzzStream   = 1 << 40
)

func allocBound(n int) uint64 { return uint64(max(allocFloor, allocPerByte*n)) }

func cpuTime() time.Duration {
	var ru syscall.Rusage
	if syscall.Getrusage(syscall.RUSAGE_SELF, &ru) != nil {
		return 0
	}
	return time.Duration(ru.Utime.Nano() + ru.Stime.Nano())
}

// ---- panic classification --------------------------------------------------------

var reNum = regexp.MustCompile(`0x[0-9a-fA-F]+|\d+`)

func shortFn(fn string) string {
	fn = strings.TrimPrefix(fn, "github.com/nspcc-dev/neo-go/pkg/")
	if i := strings.LastIndex(fn, "/"); i >= 0 {
		fn = fn[i+1:]
	}
	return fn
}

func repoFrames(skipHarness bool, pcs []uintptr) []string {
	var out []string
	fr := runtime.CallersFrames(pcs)
	for {
		f, more := fr.Next()
		if strings.HasPrefix(f.Function, "github.com/nspcc-dev/neo-go/") && !(skipHarness && strings.Contains(f.Function, "/verifharness/")) {
			out = append(out, shortFn(f.Function))
		}
		if !more || len(out) >= 16 {
			break
		}
	}
	return out
}

func panicMsg(x any) string {
	s := fmt.Sprint(x)
	if strings.HasPrefix(s, "runtime error: ") {
		s = strings.TrimPrefix(s, "runtime error: ")
		if i := strings.IndexAny(s, "[0123456789"); i > 0 {
			s = s[:i]
		}
	} else if strings.HasPrefix(s, "runtime: ") || strings.HasPrefix(s, "signal: ") {
		if p := strings.SplitN(s, ":", 3); len(p) == 3 {
			s = p[0] + ":" + p[1]
		}
	} else if i := strings.Index(s, ":"); i > 0 {
		s = s[:i]
	}
	s = strings.NewReplacer("`", "", "\n", " ").Replace(reNum.ReplaceAllString(s, "N"))
	s = strings.TrimSpace(s)
	if len(s) > 60 {
		s = s[:60]
	}
	return s
}

var reDecoderFn = regexp.MustCompile(`(?i)decode|unmarshal|fromjson|frombytes|deserialize|fromstackitem|fromreader|readarray`)

// panicSig must be called from a deferred function while panicking. The
// signature names the innermost decoding function on the stack and what it
// called (or, if it panicked itself, the normalised message), so that one
// unchecked call is one signature whatever value made it panic.
func panicSig(x any) (sig, frames string) {
	pcs := make([]uintptr, 96)
	n := runtime.Callers(2, pcs)
	fr := repoFrames(true, pcs[:n])
	frames = strings.Join(fr[:min(len(fr), 6)], " <- ")
	for i, f := range fr {
		if reDecoderFn.MatchString(f) {
			if i == 0 {
				return "decode-panic:" + f + ":" + panicMsg(x), frames
			}
			return "decode-panic:" + f + "->" + fr[i-1], frames
		}
	}
	top := "unknown"
	if len(fr) > 0 {
		top = fr[0]
	}
	return "decode-panic:" + top + ":" + panicMsg(x), frames
}

// ---- mutations ------------------------------------------------------------------

func widen(b byte, form int) []byte {
	switch form {
	case 0:
		return []byte{0xfd, b, 0}
	case 1:
		return []byte{0xfe, b, 0, 0, 0}
	default:
		return []byte{0xff, b, 0, 0, 0, 0, 0, 0, 0}
	}
}

func splice(s []byte, at, del int, ins []byte) []byte {
	out := make([]byte, 0, len(s)-del+len(ins))
	out = append(out, s[:at]...)
	out = append(out, ins...)
	return append(out, s[at+del:]...)
}

var bigCounts = [][]byte{
	{0xfd, 0xff, 0xff},
	{0xfe, 0xff, 0xff, 0xff, 0x00},                             // 2^24-1
	{0xfe, 0x00, 0x00, 0x00, 0x01},                             // 2^24
	{0xfe, 0x01, 0x00, 0x00, 0x01},                             // 2^24+1
	{0xfe, 0xff, 0xff, 0xff, 0xff},                             // 2^32-1
	{0xff, 0xff, 0xff, 0xff, 0xff, 0xff, 0xff, 0xff, 0x7f},     // 2^63-1
	{0xff, 0xff, 0xff, 0xff, 0xff, 0xff, 0xff, 0xff, 0xff},     // 2^64-1
	{0xfe, 0x00, 0x00, 0x10, 0x00}, {0xfd, 0x00, 0x08}, {0xfc}, // 2^20, 2048, 252
}

var interesting = []byte{0, 1, 2, 0x7f, 0x80, 0xfc, 0xfd, 0xfe, 0xff, 0x20, 0x21, 0x28, 0x40, 0x41, 0x48}

func byteMutant(r *rng.R, s, other []byte) (string, []byte) {
	c := bytes.Clone(s)
	kind := ""
	for k := 0; k < 1+r.Intn(3); k++ {
		if len(c) == 0 {
			c = append(c, byte(r.Intn(256)))
			kind += "grow,"
			continue
		}
		p := r.Intn(len(c))
		switch r.Intn(10) {
		case 0:
			c[p] ^= 1 << uint(r.Intn(8))
			kind += "bitflip,"
		case 1:
			c[p] = byte(r.Intn(256))
			kind += "byte,"
		case 2:
			c[p] = interesting[r.Intn(len(interesting))]
			kind += "interesting,"
		case 3:
			c = c[:p]
			kind += "truncate,"
		case 4:
			c = splice(c, p, 0, r.Bytes(1+r.Intn(4)))
			kind += "insert,"
		case 5:
			c = splice(c, p, min(len(c)-p, 1+r.Intn(8)), nil)
			kind += "delete,"
		case 6:
			n := min(len(c)-p, 1+r.Intn(40))
			c = splice(c, p, 0, c[p:p+n])
			kind += "duplicate,"
		case 7:
			if len(other) > 0 {
				q := r.Intn(len(other))
				c = append(c[:p:p], other[q:]...)
				kind += "crossover,"
			}
		case 8:
			c = splice(c, p, 1, bigCounts[r.Intn(len(bigCounts))])
			kind += "bigcount-anywhere,"
		default:
			c = append(c, r.Bytes(1+r.Intn(8))...)
			kind += "append,"
		}
	}
	return "bytes:" + strings.TrimRight(kind, ","), c
}

var (
	reJNum = regexp.MustCompile(`-?\d+`)
	reJStr = regexp.MustCompile(`"[^"\\]*"`)
)

func textMutant(r *rng.R, s []byte) (string, []byte) {
	pick := func(re *regexp.Regexp) []int {
		all := re.FindAllIndex(s, -1)
		if len(all) == 0 {
			return nil
		}
		return all[r.Intn(len(all))]
	}
	switch r.Intn(9) {
	case 0:
		if loc := pick(reJNum); loc != nil {
			nums := []string{"0", "-1", "1e3", "1e400", "9007199254740993", "18446744073709551616", "-9223372036854775809", "0.5", "1" + strings.Repeat("0", 90), "4294967296", "65536", "256"}
			return "json:number", splice(s, loc[0], loc[1]-loc[0], []byte(nums[r.Intn(len(nums))]))
		}
	case 1:
		if loc := pick(reJStr); loc != nil {
			strs := []string{`""`, `"*"`, `"\u0000"`, `"` + strings.Repeat("A", 1+r.Intn(300)) + `"`, `"AQ=="`, `"!!!"`, `"0x` + strings.Repeat("0", 40) + `"`, `null`, `[]`, `{}`, `true`, `7`}
			return "json:string", splice(s, loc[0], loc[1]-loc[0], []byte(strs[r.Intn(len(strs))]))
		}
	case 2:
		types := []string{"Any", "Boolean", "Integer", "ByteString", "Buffer", "Array", "Struct", "Map", "Pointer", "InteropInterface", "Not", "And", "Or", "Boolean", "ScriptHash", "Group", "CalledByEntry", "CalledByContract", "CalledByGroup", "HighPriority", "OracleResponse", "NotValidBefore", "Conflicts", "NotaryAssisted"}
		if loc := pick(reJStr); loc != nil {
			return "json:typename", splice(s, loc[0], loc[1]-loc[0], []byte(`"`+types[r.Intn(len(types))]+`"`))
		}
	case 3:
		// duplicate a key/value region
		if i := bytes.IndexByte(s, ','); i > 0 {
			all := []int{}
			for j, ch := range s {
				if ch == ',' {
					all = append(all, j)
				}
			}
			a := all[r.Intn(len(all))]
			b := a + 1 + r.Intn(max(1, min(60, len(s)-a-1)))
			return "json:duplicate", splice(s, a, 0, s[a:b])
		}
	case 4:
		if loc := pick(reJStr); loc != nil && loc[1] < len(s) && s[loc[1]] == ':' {
			return "json:rename-key", splice(s, loc[0], loc[1]-loc[0], []byte(`"x`+strconv.Itoa(r.Intn(9))+`"`))
		}
	case 5:
		toks := []string{"null", "true", "false", "[]", "{}", "[[]]", `""`, "0", "[", "]", "{", "}", ",", ":"}
		p := r.Intn(len(s) + 1)
		return "json:token", splice(s, p, 0, []byte(toks[r.Intn(len(toks))]))
	case 6:
		return "json:whitespace", bytes.ReplaceAll(s, []byte(","), []byte(" ,\n\t"))
	}
	k, m := byteMutant(r, s, nil)
	return "json-" + k, m
}

// deepInput builds a deeply nested input for the codecs that recurse.
func deepInput(r *rng.R, c *codec) (string, []byte) {
	limit := c.maxIn
	if limit == 0 {
		limit = 200000
	}
	rep := func(pre, mid, post string, maxN int) []byte {
		n := 1 + r.Intn(maxN)
		if r.Chance(1, 3) {
			n = maxN
		}
		for (len(pre)+len(post))*n+len(mid) > limit {
			n /= 2
		}
		return []byte(strings.Repeat(pre, n) + mid + strings.Repeat(post, n))
	}
	switch c.name {
	case "item.bin", "manifest.item", "contract.item":
		if r.Bool() {
			return "deep:array", rep("\x40\x01", "\x20\x01", "", 2100)
		}
		return "deep:map", rep("\x48\x01\x20\x01", "\x00", "", 1100)
	case "aer.bin":
		hdr := append(bytes.Repeat([]byte{7}, 32), 0x40, 0x01, 1, 0, 0, 0, 0, 0, 0, 0, 0x01)
		return "deep:array", append(hdr, append(rep("\x40\x01", "\x20\x01", "", 2100), 0, 0)...)
	case "item.json":
		switch r.Intn(3) {
		case 0:
			return "deep:array", rep(`{"type":"Array","value":[`, `{"type":"Any"}`, `]}`, 6000)
		case 1:
			return "deep:map", rep(`{"type":"Map","value":[{"key":{"type":"Boolean","value":true},"value":`, `{"type":"Any"}`, `}]}`, 2000)
		}
		return "deep:unclosed", rep(`{"type":"Struct","value":[`, ``, ``, 5000)
	case "item.plainjson":
		if r.Bool() {
			return "deep:array", rep("[", "1", "]", 12000)
		}
		return "deep:object", rep(`{"a":`, "1", "}", 8000)
	case "mptnode.bin":
		if r.Bool() {
			return "deep:extension", rep("\x01\x01\x0a", "\x02\x01\x00", "", 400)
		}
		return "deep:branch", rep("\x00", "\x04", strings.Repeat("\x04", 16), 400)
	case "mptnode.json":
		return "deep:extension", rep(`{"key":"0a","next":`, `{"value":"00"}`, `}`, 4000)
	case "rule.bin", "signer.bin":
		pre := ""
		if c.name == "signer.bin" {
			pre = strings.Repeat("\x11", 20) + "\x40\x01"
		}
		return "deep:not", append([]byte(pre+"\x01"), rep("\x01", "\x00\x01", "", 300)...)
	case "rule.json", "signer.json":
		body := rep(`{"type":"Not","expression":`, `{"type":"Boolean","expression":true}`, `}`, 3000)
		if c.name == "signer.json" {
			return "deep:not", []byte(`{"account":"0x` + strings.Repeat("11", 20) + `","scopes":"WitnessRules","rules":[{"action":"Allow","condition":` + string(body) + `}]}`)
		}
		return "deep:not", []byte(`{"action":"Allow","condition":` + string(body) + `}`)
	case "manifest.json":
		return "deep:extra", []byte(`{"name":"c","abi":{"methods":[{"name":"m","offset":0,"parameters":[],"returntype":"Void","safe":false}],"events":[]},"features":{},"groups":[],"permissions":[],"supportedstandards":[],"trusts":[],"extra":` + string(rep("[", "1", "]", 9000)) + `}`)
	}
	return "", nil
}

// ---- child: one batch of case groups ------------------------------------------------

type childRec struct {
	T      string           `json:"t"` // "v" violation, "g" group done, "done"
	Case   string           `json:"case,omitempty"`
	V      *viol            `json:"v,omitempty"`
	G      int              `json:"g,omitempty"`
	Counts map[string]int64 `json:"counts,omitempty"`
	Obs    map[string]int64 `json:"obs,omitempty"`
	Sample map[string]any   `json:"sample,omitempty"`
}

type child struct {
	out      *bufio.Writer
	outF     *os.File
	last     *os.File
	counts   map[string]int64
	obs      map[string]int64
	only     string
	codecs   []*codec
	sched    []*codec
	samples  int
	curGroup int
	sites    map[string][2]string
	// allocHits counts allocation-bound violations per codec in this child;
	// once a codec is refuted often enough the (seconds-long) maximum-count
	// mutations against it are skipped and counted as such.
	allocHits map[string]int
}

func (ch *child) emit(r childRec) {
	b, _ := json.Marshal(r)
	ch.out.Write(b)
	ch.out.WriteByte('\n')
	ch.out.Flush()
}

// persist writes the case about to run so that the parent can attribute a
// process-fatal error to it.
func (ch *child) persist(id string, c *codec, kind string, input []byte) {
	var hdr [12]byte
	binary.LittleEndian.PutUint32(hdr[0:], uint32(len(id)))
	binary.LittleEndian.PutUint32(hdr[4:], uint32(len(c.name)+1+len(kind)))
	binary.LittleEndian.PutUint32(hdr[8:], uint32(len(input)))
	buf := make([]byte, 0, 12+len(id)+len(c.name)+1+len(kind)+len(input))
	buf = append(buf, hdr[:]...)
	buf = append(buf, id...)
	buf = append(buf, c.name...)
	buf = append(buf, '|')
	buf = append(buf, kind...)
	buf = append(buf, input...)
	ch.last.WriteAt(buf, 0)
}

func readLast(path string) (id, codecKind string, input []byte, ok bool) {
	b, err := os.ReadFile(path)
	if err != nil || len(b) < 12 {
		return
	}
	a, c, d := int(binary.LittleEndian.Uint32(b[0:])), int(binary.LittleEndian.Uint32(b[4:])), int(binary.LittleEndian.Uint32(b[8:]))
	if 12+a+c+d > len(b) {
		return
	}
	return string(b[12 : 12+a]), string(b[12+a : 12+a+c]), b[12+a+c : 12+a+c+d], true
}

var reErrNorm = regexp.MustCompile(`0x[0-9a-fA-F]+|[0-9a-f]{8,}|\d+`)

func errClass(err error) string {
	s := reErrNorm.ReplaceAllString(err.Error(), "N")
	w := strings.Fields(s)
	if len(w) > 5 {
		w = w[:5]
	}
	s = strings.Join(w, " ")
	if len(s) > 48 {
		s = s[:48]
	}
	return s
}

// allocSite re-runs f under the heap profiler and returns the neo-go frames
// of the stack that allocated most.
func allocSite(f func()) (site, stack string) {
	type key [32]uintptr
	snap := func() map[key]int64 {
		runtime.GC()
		runtime.GC()
		n, _ := runtime.MemProfile(nil, true)
		recs := make([]runtime.MemProfileRecord, n+64)
		n, ok := runtime.MemProfile(recs, true)
		m := map[key]int64{}
		if !ok {
			return m
		}
		for _, rc := range recs[:n] {
			m[key(rc.Stack0)] += rc.AllocBytes
		}
		return m
	}
	before := snap()
	func() {
		defer func() { _ = recover() }()
		f()
	}()
	after := snap()
	var best key
	var bestD int64
	for k, v := range after {
		if d := v - before[k]; d > bestD {
			best, bestD = k, d
		}
	}
	if bestD == 0 {
		return "", ""
	}
	n := 0
	for n < len(best) && best[n] != 0 {
		n++
	}
	fr := repoFrames(true, best[:n])
	if len(fr) == 0 {
		return "", ""
	}
	site = fr[0]
	if strings.HasPrefix(site, "io.(*BinWriter)") || site == "io.(*BinReader).ReadBytes" {
		// a generic primitive: say on whose behalf it allocated
		for _, f := range fr[1:] {
			if !strings.HasPrefix(f, "io.") {
				site += "<-" + f
				break
			}
		}
	}
	return site, strings.Join(fr[:min(len(fr), 6)], " <- ")
}

// runCase executes one fuzz case: decode under the panic / allocation / CPU
// bounds, then clauses (b) and (c) on accepted input.
func (ch *child) runCase(id string, c *codec, kind string, input, seed []byte) (accepted bool, sameAsSeed bool) {
	if c.maxIn > 0 && len(input) > c.maxIn {
		ch.counts[c.name+"|"+kind+"|skipped:over-caller-limit"]++
		return false, false
	}
	ch.persist(id, c, kind, input)
	report := ch.only == "" || ch.only == id
	var (
		v      any
		err    error
		pv     *viol
		m0, m1 runtime.MemStats
	)
	runtime.ReadMemStats(&m0)
	t0 := cpuTime()
	func() {
		defer func() {
			if x := recover(); x != nil {
				sig, frames := panicSig(x)
				vv := mkViol(sig, fmt.Sprintf("%s panicked on a %d-byte input: %v (frames: %s)", c.entry, len(input), x, frames), c, input, map[string]any{"mutation": kind})
				pv = &vv
			}
		}()
		v, err = c.dec(input)
	}()
	cpu := cpuTime() - t0
	runtime.ReadMemStats(&m1)
	alloc := m1.TotalAlloc - m0.TotalAlloc
	ch.obs["decode_calls"]++
	if alloc > uint64(ch.obs["max_alloc_bytes_one_call"]) {
		ch.obs["max_alloc_bytes_one_call"] = int64(alloc)
	}
	if int64(cpu/time.Millisecond) > ch.obs["max_cpu_ms_one_call"] {
		ch.obs["max_cpu_ms_one_call"] = int64(cpu / time.Millisecond)
	}
	outcome := ""
	switch {
	case pv != nil:
		outcome = "panic"
		ch.obs["panics"]++
		if report {
			ch.emit(childRec{T: "v", Case: id, V: pv})
		}
	case alloc > allocBound(len(input)):
		ch.obs["alloc_bound_exceeded"]++
		ch.allocHits[c.name]++
		// attribute the allocation by re-running under the heap profiler, once
		// per codec and mutation class in this child (the re-run costs as much
		// as the offending call)
		ck := c.name + "|" + kindClass(kind)
		ss, ok := ch.sites[ck]
		if !ok {
			ss[0], ss[1] = allocSite(func() { _, _ = c.dec(input) })
			if ss[0] == "" {
				ss[0] = c.entry
			}
			ch.sites[ck] = ss
		}
		site, stack := ss[0], ss[1]
		vv := mkViol("alloc-bound:"+site, fmt.Sprintf("%s allocated %d MiB (bound %d MiB = max(64 MiB, 64 x %d bytes)) and used %v CPU for one call, result err=%v; dominant allocation stack: %s",
			c.entry, alloc>>20, allocBound(len(input))>>20, len(input), cpu.Round(time.Millisecond), err, stack), c, input, map[string]any{"mutation": kind, "alloc_bytes": alloc, "cpu_ms": cpu.Milliseconds(), "site_key": ck, "site": site, "site_stack": stack})
		if report {
			ch.emit(childRec{T: "v", Case: id, V: &vv})
		}
	case cpu > cpuBound:
		ch.obs["cpu_bound_exceeded"]++
		vv := mkViol("time-bound:"+c.entry, fmt.Sprintf("%s used %v CPU on a %d-byte input (bound %v), allocated %d MiB", c.entry, cpu.Round(time.Millisecond), len(input), cpuBound, alloc>>20), c, input, map[string]any{"mutation": kind})
		if report {
			ch.emit(childRec{T: "v", Case: id, V: &vv})
		}
	}
	if pv == nil {
		if err != nil {
			outcome = "rejected:" + errClass(err)
		} else {
			accepted = true
			vs := checkAccepted(c, input, v, false)
			vs = append(vs, checkPaths(c, input)...)
			var re []byte
			func() {
				defer func() { _ = recover() }()
				re, _ = c.enc(v)
			}()
			sameAsSeed = bytes.Equal(c.normalise(re), c.normalise(seed))
			if bytes.Equal(re, input) {
				outcome = "accepted:canonical"
			} else {
				outcome = "accepted:non-canonical"
				ch.obs["accepted_noncanonical_inputs"]++
				if ch.samples < 1 && len(input) < 400 {
					ch.samples++
					ch.emit(childRec{T: "s", Case: id, Sample: map[string]any{"case": id, "codec": c.name, "mutation": kind, "outcome": "accepted, re-encoding differs from the input", "input_hex": hexCap(input), "reencoded_hex": hexCap(re), "violations": len(vs)}})
				}
			}
			ch.obs["accepted_inputs"]++
			if report {
				for i := range vs {
					vs[i].Witness["mutation"] = kind
					ch.emit(childRec{T: "v", Case: id, V: &vs[i]})
				}
			}
			if len(vs) > 0 {
				outcome += ":violation"
			}
		}
	}
	ch.counts[c.name+"|"+kindClass(kind)+"|"+outcome]++
	return
}

var reAt = regexp.MustCompile(`@\d+`)

func kindClass(k string) string { return reAt.ReplaceAllString(k, "") }

// runGroup runs all cases derived from one generated seed value.
func (ch *child) runGroup(g int, skip int, fuzzPerGroup int) {
	ch.curGroup = g
	r := rng.New(fuzzStream + uint64(g)*4 + 1)
	c := ch.sched[g%len(ch.sched)]
	var seed, other []byte
	func() {
		defer func() { _ = recover() }()
		v, _ := c.gen(rng.New(fuzzStream + uint64(g)*4 + 2))
		seed, _ = c.enc(v)
		v2, _ := c.gen(rng.New(fuzzStream + uint64(g)*4 + 3))
		other, _ = c.enc(v2)
	}()
	if seed == nil {
		ch.counts[c.name+"|seed|generator-failed"]++
		return
	}
	j := -1
	run := func(kind string, input []byte) (bool, bool) {
		j++
		if j < skip {
			return false, false
		}
		id := fmt.Sprintf("f%d.%d", g, j)
		acc, same := ch.runCase(id, c, kind, input, seed)
		if c.fix != nil && kind != "seed" {
			if fixed := c.fix(input); fixed != nil && !bytes.Equal(fixed, input) {
				j++
				a2, s2 := ch.runCase(fmt.Sprintf("f%d.%d", g, j), c, kind+"+integrity-fields-repaired", fixed, seed)
				ch.obs["mutants_offered_with_repaired_integrity_fields"]++
				acc, same = acc || a2, same || s2
			}
		}
		return acc, same
	}
	run("seed", seed)
	var sites []int
	if !c.text {
		// probe for var-int fields: a position whose widening still decodes to
		// the same content is one
		pos := make([]int, 0, len(seed))
		for p := range seed {
			if seed[p] < 0xfd {
				pos = append(pos, p)
			}
		}
		if len(pos) > 160 {
			// keep the first 96 (headers, counts) and a sample of the rest
			rest := pos[96:]
			r.Shuffle(len(rest), func(a, b int) { rest[a], rest[b] = rest[b], rest[a] })
			pos = append(pos[:96:96], rest[:64]...)
			sort.Ints(pos)
		}
		for _, p := range pos {
			acc, same := run(fmt.Sprintf("varint-widen@%d", p), splice(seed, p, 1, widen(seed[p], r.Intn(3))))
			if acc && same {
				sites = append(sites, p)
			}
		}
		ch.obs["varint_sites_found"] += int64(len(sites))
		// non-0/1 booleans
		bp := []int{}
		for p := range seed {
			if seed[p] <= 1 {
				bp = append(bp, p)
			}
		}
		r.Shuffle(len(bp), func(a, b int) { bp[a], bp[b] = bp[b], bp[a] })
		for _, p := range bp[:min(len(bp), 24)] {
			if acc, same := run(fmt.Sprintf("nonbool@%d", p), splice(seed, p, 1, []byte{byte(2 + r.Intn(254))})); acc && same {
				ch.obs["nonbool_sites_found"]++
			}
		}
		// counts and lengths at the discovered fields
		r.Shuffle(len(sites), func(a, b int) { sites[a], sites[b] = sites[b], sites[a] })
		for _, p := range sites[:min(len(sites), 8)] {
			for _, bc := range bigCounts {
				if r.Chance(1, 4) {
					if ch.allocHits[c.name] >= 6 {
						ch.counts[c.name+"|count-max|skipped:allocation-bound-already-refuted-6-times"]++
						continue
					}
					run(fmt.Sprintf("count-max@%d", p), splice(seed, p, 1, bc))
				}
			}
			run(fmt.Sprintf("count-inc@%d", p), splice(seed, p, 1, []byte{seed[p] + 1}))
			if seed[p] > 0 {
				run(fmt.Sprintf("count-dec@%d", p), splice(seed, p, 1, []byte{seed[p] - 1}))
			}
			run(fmt.Sprintf("len-past-end@%d", p), splice(seed, p, 1, []byte{0xfc}))
		}
	}
	for k := 0; k < fuzzPerGroup; k++ {
		if c.text && r.Chance(2, 3) {
			kind, m := textMutant(r, seed)
			run(kind, m)
			continue
		}
		kind, m := byteMutant(r, seed, other)
		run(kind, m)
	}
	if c.text && g < len(ch.sched) {
		// a short number with a huge decimal exponent: a few bytes must not cost
		// minutes of CPU or hundreds of megabytes (one literal only - a decoder that
		// does expand it needs about a minute per call)
		for _, lit := range []string{"1E22538963", "0e99999999", `{"type":"Integer","value":"1e99999999"}`} {
			run("hostile-number", []byte(lit))
		}
	}
	for k := 0; k < 2; k++ {
		n := r.Intn(300)
		raw := r.Bytes(n)
		if len(seed) > 0 && n > 0 && r.Bool() {
			raw[0] = seed[0]
		}
		run("raw-random", raw)
	}
	if g%3 == 0 {
		if kind, in := deepInput(r, c); in != nil {
			run(kind, in)
		}
	}
	ch.emit(childRec{T: "g", G: g, Counts: ch.counts, Obs: ch.obs})
	ch.counts, ch.obs = map[string]int64{}, map[string]int64{}
}

func runChild(spec string) {
	var lo, hi, skip, per int
	if _, err := fmt.Sscanf(spec, "%d:%d:%d:%d", &lo, &hi, &skip, &per); err != nil {
		fmt.Fprintln(os.Stderr, "bad child spec", spec)
		os.Exit(2)
	}
	// a decode that needs more than this is reported through the fatal-error
	// path instead of taking the machine down
	_ = syscall.Setrlimit(syscall.RLIMIT_AS, &syscall.Rlimit{Cur: 8 << 30, Max: 8 << 30})
	outF, err := os.OpenFile(os.Getenv("VERIF_C17_OUT"), os.O_CREATE|os.O_WRONLY|os.O_APPEND, 0o644)
	if err != nil {
		fmt.Fprintln(os.Stderr, err)
		os.Exit(2)
	}
	last, err := os.OpenFile(os.Getenv("VERIF_C17_LAST"), os.O_CREATE|os.O_RDWR, 0o644)
	if err != nil {
		fmt.Fprintln(os.Stderr, err)
		os.Exit(2)
	}
	ch := &child{out: bufio.NewWriter(outF), outF: outF, last: last, counts: map[string]int64{}, obs: map[string]int64{}, only: os.Getenv("VERIF_ONLY_CASE"), sites: map[string][2]string{}, allocHits: map[string]int{}}
	for _, kv := range strings.Split(os.Getenv("VERIF_C17_SITES"), ";;") {
		if p := strings.SplitN(kv, "==", 3); len(p) == 3 {
			ch.sites[p[0]] = [2]string{p[1], p[2]}
		}
	}
	ch.codecs = allCodecs()
	ch.sched = schedule(ch.codecs)
	pubKeys()
	for g := lo; g < hi; g++ {
		s := 0
		if g == lo {
			s = skip
		}
		ch.runGroup(g, s, per)
	}
	ch.emit(childRec{T: "done"})
	ch.out.Flush()
	outF.Close()
}

// schedule expands the codec weights into a round-robin list.
func schedule(cs []*codec) []*codec {
	var s []*codec
	maxW := 0
	for _, c := range cs {
		maxW = max(maxW, c.weight)
	}
	for w := 0; w < maxW; w++ {
		for _, c := range cs {
			if c.weight > w {
				s = append(s, c)
			}
		}
	}
	return s
}

func seedOf() int64 { return ev.Seed() }

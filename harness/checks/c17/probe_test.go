package c17

import (
	"fmt"
	"testing"

	"github.com/nspcc-dev/neo-go/pkg/vm/stackitem"
)

func TestProbe(t *testing.T) {
	for _, b := range [][]byte{
		{0x48, 0x01, 0x40, 0x00, 0x00}, // map{ array[] : any }
		{0x48, 0x01, 0x00, 0x00},       // map{ any: any }
		{0x21, 0x21, 0x00},             // integer len 33
		{0x21, 0xfd, 0x01, 0x00, 0x05}, // non-minimal varint len
	} {
		func() {
			defer func() {
				if x := recover(); x != nil {
					fmt.Printf("%x PANIC %v\n", b, x)
				}
			}()
			it, err := stackitem.Deserialize(b)
			fmt.Printf("%x -> %v %v\n", b, it, err)
		}()
	}
}

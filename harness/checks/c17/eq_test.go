package c17

import (
	"bytes"
	"encoding/json"
	"fmt"
	"io"
	"math/big"
	"reflect"
	"unsafe"

	"github.com/nspcc-dev/neo-go/pkg/core/mpt"
	"github.com/nspcc-dev/neo-go/pkg/smartcontract/manifest"
	"github.com/nspcc-dev/neo-go/pkg/vm/stackitem"
)

// Value equality used by the round-trip laws. It is structural over all
// fields, exported or not, with these stated exceptions:
//   - caches that are *derived* from the content (hash / size memo fields) are
//     skipped here and compared explicitly through Hash()/Size() by the laws;
//   - a nil slice equals an empty slice (no wire format distinguishes them),
//     except manifest.WildStrings where nil means "wildcard";
//   - big integers are compared by value;
//   - stack items are compared by type, value and structure (itemDiff);
//   - MPT nodes are compared by type and own fields, children by emptiness and
//     hash (a child is referenced by hash on the wire).

var (
	bigIntT  = reflect.TypeOf(big.Int{})
	itemT    = reflect.TypeOf((*stackitem.Item)(nil)).Elem()
	mptNodeT = reflect.TypeOf((*mpt.Node)(nil)).Elem()
	wildStrT = reflect.TypeOf(manifest.WildStrings{})
	rawMsgT  = reflect.TypeOf(json.RawMessage{})
)

// derived cache fields, by "<pkg-qualified type>.<field>".
var skipFields = map[string]bool{
	"transaction.Transaction.size":       true,
	"transaction.Transaction.hash":       true,
	"transaction.Transaction.hashed":     true,
	"block.Header.hash":                  true,
	"payload.Extensible.hash":            true,
	"payload.P2PNotaryRequest.hash":      true,
	"network.Message.compressedPayload":  true,
	"state.ContractInvocation.Arguments": false,
}

func clean(v reflect.Value) reflect.Value {
	// make a value obtained through an unexported field usable
	if v.CanInterface() {
		return v
	}
	if v.CanAddr() {
		return reflect.NewAt(v.Type(), unsafe.Pointer(v.UnsafeAddr())).Elem()
	}
	return v
}

func addressable(v reflect.Value) reflect.Value {
	if v.CanAddr() {
		return v
	}
	nv := reflect.New(v.Type()).Elem()
	nv.Set(v)
	return nv
}

// valueDiff returns "" when *a equals *b, otherwise the path of the first
// difference. a and b must be pointers (so that everything is addressable).
func valueDiff(a, b any) string {
	va, vb := reflect.ValueOf(a), reflect.ValueOf(b)
	if va.Kind() != reflect.Pointer || vb.Kind() != reflect.Pointer {
		panic("valueDiff wants pointers")
	}
	return deq("", va, vb, 0)
}

func deq(path string, a, b reflect.Value, depth int) string {
	if depth > 200 {
		return path + ": too deep"
	}
	if !a.IsValid() || !b.IsValid() {
		if a.IsValid() != b.IsValid() {
			return path + ": one side invalid"
		}
		return ""
	}
	if a.Type() != b.Type() {
		return fmt.Sprintf("%s: type %s vs %s", path, a.Type(), b.Type())
	}
	t := a.Type()
	switch {
	case t == bigIntT:
		x := addressable(clean(a)).Addr().Interface().(*big.Int)
		y := addressable(clean(b)).Addr().Interface().(*big.Int)
		if x.Cmp(y) != 0 {
			return fmt.Sprintf("%s: %s vs %s", path, x, y)
		}
		return ""
	case t == wildStrT:
		x := clean(a).Interface().(manifest.WildStrings)
		y := clean(b).Interface().(manifest.WildStrings)
		if (x.Value == nil) != (y.Value == nil) {
			return fmt.Sprintf("%s: wildcard %v vs %v", path, x.Value == nil, y.Value == nil)
		}
	}
	if t == rawMsgT {
		// raw JSON is compared up to insignificant white space and the spelling
		// of string escapes ("<" and "\u003c" are one string): token by token, so
		// member order, repeated members and number literals still count
		x, y := clean(a).Bytes(), clean(b).Bytes()
		var cx, cy bytes.Buffer
		if json.Compact(&cx, x) == nil && json.Compact(&cy, y) == nil {
			x, y = cx.Bytes(), cy.Bytes()
		}
		// an absent value and an explicit null are the same JSON document part
		if len(x) == 0 {
			x = []byte("null")
		}
		if len(y) == 0 {
			y = []byte("null")
		}
		if !bytes.Equal(x, y) && !sameJSONTokens(x, y) {
			return fmt.Sprintf("%s: raw JSON %q vs %q", path, trunc(string(x)), trunc(string(y)))
		}
		return ""
	}
	switch a.Kind() {
	case reflect.Bool:
		if a.Bool() != b.Bool() {
			return fmt.Sprintf("%s: %v vs %v", path, a.Bool(), b.Bool())
		}
	case reflect.Int, reflect.Int8, reflect.Int16, reflect.Int32, reflect.Int64:
		if a.Int() != b.Int() {
			return fmt.Sprintf("%s: %d vs %d", path, a.Int(), b.Int())
		}
	case reflect.Uint, reflect.Uint8, reflect.Uint16, reflect.Uint32, reflect.Uint64, reflect.Uintptr:
		if a.Uint() != b.Uint() {
			return fmt.Sprintf("%s: %d vs %d", path, a.Uint(), b.Uint())
		}
	case reflect.Float32, reflect.Float64:
		if a.Float() != b.Float() {
			return fmt.Sprintf("%s: %v vs %v", path, a.Float(), b.Float())
		}
	case reflect.String:
		if a.String() != b.String() {
			return fmt.Sprintf("%s: %q vs %q", path, trunc(a.String()), trunc(b.String()))
		}
	case reflect.Slice:
		if a.Len() != b.Len() {
			return fmt.Sprintf("%s: len %d vs %d", path, a.Len(), b.Len())
		}
		if t.Elem().Kind() == reflect.Uint8 {
			x, y := clean(a).Bytes(), clean(b).Bytes()
			if !bytes.Equal(x, y) {
				return fmt.Sprintf("%s: bytes %x vs %x", path, truncB(x), truncB(y))
			}
			return ""
		}
		for i := 0; i < a.Len(); i++ {
			if d := deq(fmt.Sprintf("%s[%d]", path, i), a.Index(i), b.Index(i), depth+1); d != "" {
				return d
			}
		}
	case reflect.Array:
		for i := 0; i < a.Len(); i++ {
			if d := deq(fmt.Sprintf("%s[%d]", path, i), a.Index(i), b.Index(i), depth+1); d != "" {
				return d
			}
		}
	case reflect.Map:
		if a.Len() != b.Len() {
			return fmt.Sprintf("%s: map len %d vs %d", path, a.Len(), b.Len())
		}
		ca, cb := clean(a), clean(b)
		for _, k := range ca.MapKeys() {
			x, y := ca.MapIndex(k), cb.MapIndex(k)
			if !y.IsValid() {
				return fmt.Sprintf("%s: key %v missing", path, k)
			}
			if d := deq(fmt.Sprintf("%s[%v]", path, k), addressable(x), addressable(y), depth+1); d != "" {
				return d
			}
		}
	case reflect.Pointer:
		if a.IsNil() || b.IsNil() {
			if a.IsNil() != b.IsNil() {
				return fmt.Sprintf("%s: nil %v vs %v", path, a.IsNil(), b.IsNil())
			}
			return ""
		}
		if a.Pointer() == b.Pointer() {
			return ""
		}
		return deq(path, a.Elem(), b.Elem(), depth+1)
	case reflect.Interface:
		if a.IsNil() || b.IsNil() {
			if a.IsNil() != b.IsNil() {
				return fmt.Sprintf("%s: nil interface %v vs %v", path, a.IsNil(), b.IsNil())
			}
			return ""
		}
		if t == itemT || t.Implements(itemT) && t.Kind() == reflect.Interface {
			x := clean(a).Interface().(stackitem.Item)
			y := clean(b).Interface().(stackitem.Item)
			return itemDiff(path, x, y, 0)
		}
		if t == mptNodeT {
			x := clean(a).Interface().(mpt.Node)
			y := clean(b).Interface().(mpt.Node)
			return nodeDiff(path, x, y, true)
		}
		ea, eb := clean(a).Elem(), clean(b).Elem()
		if ea.Type() != eb.Type() {
			return fmt.Sprintf("%s: dynamic type %s vs %s", path, ea.Type(), eb.Type())
		}
		return deq(path, addressable(ea), addressable(eb), depth+1)
	case reflect.Struct:
		// stack items held by concrete pointer type (e.g. *stackitem.Array)
		if t.PkgPath() == "github.com/nspcc-dev/neo-go/pkg/vm/stackitem" {
			pa, pb := addressable(clean(a)).Addr(), addressable(clean(b)).Addr()
			x, ok1 := pa.Interface().(stackitem.Item)
			y, ok2 := pb.Interface().(stackitem.Item)
			if ok1 && ok2 {
				return itemDiff(path, x, y, 0)
			}
		}
		tn := t.String()
		for i := 0; i < t.NumField(); i++ {
			f := t.Field(i)
			if skipFields[tn+"."+f.Name] {
				continue
			}
			if d := deq(path+"."+f.Name, clean(a.Field(i)), clean(b.Field(i)), depth+1); d != "" {
				return d
			}
		}
	case reflect.Func, reflect.Chan, reflect.UnsafePointer:
		// not part of any wire value
	default:
		return fmt.Sprintf("%s: unsupported kind %s", path, a.Kind())
	}
	return ""
}

func trunc(s string) string {
	if len(s) > 40 {
		return s[:40] + "…"
	}
	return s
}

func truncB(b []byte) []byte {
	if len(b) > 40 {
		return b[:40]
	}
	return b
}

// itemDiff compares two stack items by type, value and structure.
func itemDiff(path string, a, b stackitem.Item, depth int) string {
	if depth > 1000000 {
		return path + ": item too deep"
	}
	if a == nil || b == nil {
		if (a == nil) != (b == nil) {
			return fmt.Sprintf("%s: nil item %v vs %v", path, a == nil, b == nil)
		}
		return ""
	}
	if a.Type() != b.Type() {
		return fmt.Sprintf("%s: item type %s vs %s", path, a.Type(), b.Type())
	}
	switch x := a.(type) {
	case stackitem.Null:
	case stackitem.Bool:
		if x != b.(stackitem.Bool) {
			return fmt.Sprintf("%s: bool %v vs %v", path, x, b)
		}
	case *stackitem.BigInteger:
		if x.Big().Cmp(b.(*stackitem.BigInteger).Big()) != 0 {
			return fmt.Sprintf("%s: int %s vs %s", path, x.Big(), b.(*stackitem.BigInteger).Big())
		}
	case *stackitem.ByteArray:
		if !bytes.Equal(x.Value().([]byte), b.Value().([]byte)) {
			return fmt.Sprintf("%s: bytestring %x vs %x", path, truncB(x.Value().([]byte)), truncB(b.Value().([]byte)))
		}
	case *stackitem.Buffer:
		if !bytes.Equal(x.Value().([]byte), b.Value().([]byte)) {
			return fmt.Sprintf("%s: buffer %x vs %x", path, truncB(x.Value().([]byte)), truncB(b.Value().([]byte)))
		}
	case *stackitem.Array, *stackitem.Struct:
		xs, ys := a.Value().([]stackitem.Item), b.Value().([]stackitem.Item)
		if len(xs) != len(ys) {
			return fmt.Sprintf("%s: %s len %d vs %d", path, a.Type(), len(xs), len(ys))
		}
		for i := range xs {
			if d := itemDiff(fmt.Sprintf("%s[%d]", path, i), xs[i], ys[i], depth+1); d != "" {
				return d
			}
		}
	case *stackitem.Map:
		xs, ys := x.Value().([]stackitem.MapElement), b.Value().([]stackitem.MapElement)
		if len(xs) != len(ys) {
			return fmt.Sprintf("%s: map len %d vs %d", path, len(xs), len(ys))
		}
		for i := range xs {
			if d := itemDiff(fmt.Sprintf("%s{key %d}", path, i), xs[i].Key, ys[i].Key, depth+1); d != "" {
				return d
			}
			if d := itemDiff(fmt.Sprintf("%s{val %d}", path, i), xs[i].Value, ys[i].Value, depth+1); d != "" {
				return d
			}
		}
	case *stackitem.Interop:
		if (x.Value() == nil) != (b.Value() == nil) {
			return path + ": interop value"
		}
	case *stackitem.Pointer:
		if x.Position() != b.(*stackitem.Pointer).Position() {
			return fmt.Sprintf("%s: pointer %d vs %d", path, x.Position(), b.(*stackitem.Pointer).Position())
		}
	default:
		return fmt.Sprintf("%s: unknown item %T", path, a)
	}
	return ""
}

func nodeEmpty(n mpt.Node) bool {
	if n == nil {
		return true
	}
	_, ok := n.(mpt.EmptyNode)
	return ok
}

// nodeDiff compares MPT nodes; children are compared by emptiness and hash.
func nodeDiff(path string, a, b mpt.Node, top bool) string {
	if nodeEmpty(a) || nodeEmpty(b) {
		if nodeEmpty(a) != nodeEmpty(b) {
			return fmt.Sprintf("%s: empty %v vs %v", path, nodeEmpty(a), nodeEmpty(b))
		}
		return ""
	}
	if !top {
		if a.Hash() != b.Hash() {
			return fmt.Sprintf("%s: child hash %s vs %s", path, a.Hash().StringLE(), b.Hash().StringLE())
		}
		return ""
	}
	if a.Type() != b.Type() {
		return fmt.Sprintf("%s: node type %d vs %d", path, a.Type(), b.Type())
	}
	switch x := a.(type) {
	case *mpt.BranchNode:
		y := b.(*mpt.BranchNode)
		for i := range x.Children {
			if d := nodeDiff(fmt.Sprintf("%s.child[%d]", path, i), x.Children[i], y.Children[i], false); d != "" {
				return d
			}
		}
	case *mpt.ExtensionNode, *mpt.LeafNode:
		// key/next and value are unexported: compare through the fields
		va, vb := reflect.ValueOf(a).Elem(), reflect.ValueOf(b).Elem()
		for i := 0; i < va.NumField(); i++ {
			f := va.Type().Field(i)
			if f.Name == "BaseNode" {
				continue
			}
			fa, fb := clean(va.Field(i)), clean(vb.Field(i))
			if f.Type == mptNodeT {
				var na, nb mpt.Node
				if !fa.IsNil() {
					na = fa.Interface().(mpt.Node)
				}
				if !fb.IsNil() {
					nb = fb.Interface().(mpt.Node)
				}
				if d := nodeDiff(path+"."+f.Name, na, nb, false); d != "" {
					return d
				}
				continue
			}
			if d := deq(path+"."+f.Name, fa, fb, 0); d != "" {
				return d
			}
		}
	case *mpt.HashNode:
		if a.Hash() != b.Hash() {
			return fmt.Sprintf("%s: hash node %s vs %s", path, a.Hash().StringLE(), b.Hash().StringLE())
		}
	}
	return ""
}

// sameJSONTokens tells whether two JSON texts are the same sequence of tokens
// (delimiters, member names and strings after unescaping, number literals as
// written, true / false / null).
func sameJSONTokens(x, y []byte) bool {
	dx, dy := json.NewDecoder(bytes.NewReader(x)), json.NewDecoder(bytes.NewReader(y))
	dx.UseNumber()
	dy.UseNumber()
	for {
		tx, ex := dx.Token()
		ty, ey := dy.Token()
		if ex != nil || ey != nil {
			return ex == io.EOF && ey == io.EOF
		}
		if tx != ty {
			return false
		}
	}
}

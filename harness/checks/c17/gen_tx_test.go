package c17

import (
	"crypto/sha256"
	"encoding/binary"
	"fmt"
	"sort"
	"strings"
	"sync"

	"github.com/nspcc-dev/neo-go/pkg/core/block"
	"github.com/nspcc-dev/neo-go/pkg/core/transaction"
	"github.com/nspcc-dev/neo-go/pkg/crypto/keys"
	"github.com/nspcc-dev/neo-go/pkg/util"
	"github.com/nspcc-dev/neo-go/verifharness/vlib/ev"
	"github.com/nspcc-dev/neo-go/verifharness/vlib/rng"
)

// ---- deterministic key pool -------------------------------------------------

var (
	keyOnce sync.Once
	keyPool []*keys.PublicKey
)

func pubKeys() []*keys.PublicKey {
	keyOnce.Do(func() {
		for i := 0; i < 48; i++ {
			var b [16]byte
			binary.LittleEndian.PutUint64(b[:], uint64(ev.Seed()))
			binary.LittleEndian.PutUint64(b[8:], uint64(i))
			h := sha256.Sum256(b[:])
			h[0] &= 0x7f // stay below the group order
			h[31] |= 1
			p, err := keys.NewPrivateKeyFromBytes(h[:])
			if err != nil {
				panic(err)
			}
			keyPool = append(keyPool, p.PublicKey())
		}
	})
	return keyPool
}

func genKey(r *rng.R) *keys.PublicKey {
	p := pubKeys()
	k := *p[r.Intn(len(p))] // copy: decoded keys are separate objects too
	return &k
}

// ---- primitive helpers ------------------------------------------------------

// blen returns a length ≤ max biased to the var-int boundaries (0xfc/0xfd,
// 0xffff/0x10000) and to small values.
func blen(r *rng.R, max int) int {
	var v int
	switch x := r.Intn(20); {
	case x < 11:
		v = r.Intn(40)
	case x < 14:
		v = r.Intn(300)
	case x < 18:
		c := []int{0, 1, 0xfc, 0xfd, 0xfe, 0xff, 0x100, 1023, 1024, 1025, 0xffff, 0x10000, max - 1, max}
		v = c[r.Intn(len(c))]
	default:
		v = r.Intn(max + 1)
	}
	if v > max {
		v = max
	}
	if v < 0 {
		v = 0
	}
	return v
}

func u160(r *rng.R) (u util.Uint160) { copy(u[:], r.Bytes(20)); return }
func u256(r *rng.R) (u util.Uint256) { copy(u[:], r.Bytes(32)); return }

func bu32(r *rng.R) uint32 {
	switch r.Intn(6) {
	case 0:
		return 0
	case 1:
		return 0xffffffff
	case 2:
		return uint32(r.Intn(256))
	}
	return r.Uint32()
}

func bu64(r *rng.R) uint64 {
	switch r.Intn(6) {
	case 0:
		return 0
	case 1:
		return ^uint64(0)
	case 2:
		return uint64(r.Intn(70000))
	}
	return r.Uint64()
}

func ident(r *rng.R, max int) string {
	const al = "abcdefghijklmnopqrstuvwxyzABCDEFGHIJKLMNOPQRSTUVWXYZ0123456789_"
	n := 1 + r.Intn(max)
	b := make([]byte, n)
	for i := range b {
		b[i] = al[r.Intn(len(al)-1)] // no '_' (method tokens reject a leading one)
	}
	return string(b)
}

// utf8 string with some multi-byte and escaped characters (JSON must keep it).
func text(r *rng.R, max int) string {
	parts := []string{"a", "Z", "0", " ", "é", "ж", "世", "\"", "\\", "/", "<", "&", "+", "\n", "\t", "😀", " "}
	n := r.Intn(max + 1)
	var sb strings.Builder
	for sb.Len() < n {
		p := parts[r.Intn(len(parts))]
		if sb.Len()+len(p) > max {
			break
		}
		sb.WriteString(p)
	}
	return sb.String()
}

// ---- witness conditions, rules, signers -------------------------------------

var leafConds = []transaction.WitnessConditionType{
	transaction.WitnessBoolean, transaction.WitnessScriptHash, transaction.WitnessGroup,
	transaction.WitnessCalledByEntry, transaction.WitnessCalledByContract, transaction.WitnessCalledByGroup,
}

// genCond builds a condition using at most `levels` nesting levels (≥1) and
// appends the type names used to shape.
func genCond(r *rng.R, levels int, shape *[]string) transaction.WitnessCondition {
	var t transaction.WitnessConditionType
	if levels > 1 && r.Chance(1, 2) {
		t = []transaction.WitnessConditionType{transaction.WitnessNot, transaction.WitnessAnd, transaction.WitnessOr}[r.Intn(3)]
	} else {
		t = leafConds[r.Intn(len(leafConds))]
	}
	*shape = append(*shape, t.String())
	switch t {
	case transaction.WitnessBoolean:
		v := transaction.ConditionBoolean(r.Bool())
		return &v
	case transaction.WitnessNot:
		return &transaction.ConditionNot{Condition: genCond(r, levels-1, shape)}
	case transaction.WitnessAnd, transaction.WitnessOr:
		n := 1 + r.Intn(3)
		if r.Chance(1, 12) {
			n = 16
		}
		cs := make([]transaction.WitnessCondition, n)
		for i := range cs {
			cs[i] = genCond(r, levels-1, shape)
		}
		if t == transaction.WitnessAnd {
			v := transaction.ConditionAnd(cs)
			return &v
		}
		v := transaction.ConditionOr(cs)
		return &v
	case transaction.WitnessScriptHash:
		v := transaction.ConditionScriptHash(u160(r))
		return &v
	case transaction.WitnessGroup:
		v := transaction.ConditionGroup(*genKey(r))
		return &v
	case transaction.WitnessCalledByEntry:
		return transaction.ConditionCalledByEntry{}
	case transaction.WitnessCalledByContract:
		v := transaction.ConditionCalledByContract(u160(r))
		return &v
	default:
		v := transaction.ConditionCalledByGroup(*genKey(r))
		return &v
	}
}

func genRule(r *rng.R, shape *[]string) transaction.WitnessRule {
	a := transaction.WitnessDeny
	if r.Bool() {
		a = transaction.WitnessAllow
	}
	return transaction.WitnessRule{Action: a, Condition: genCond(r, transaction.MaxConditionNesting, shape)}
}

func subN(r *rng.R) int {
	switch r.Intn(8) {
	case 0:
		return 16
	case 1:
		return 0
	}
	return 1 + r.Intn(3)
}

func genSigner(r *rng.R, shape *[]string) transaction.Signer {
	s := transaction.Signer{Account: u160(r)}
	switch x := r.Intn(10); {
	case x == 0:
		s.Scopes = transaction.None
	case x == 1:
		s.Scopes = transaction.Global
	case x == 2:
		s.Scopes = transaction.CalledByEntry
	default:
		for _, sc := range []transaction.WitnessScope{transaction.CalledByEntry, transaction.CustomContracts, transaction.CustomGroups, transaction.Rules} {
			if r.Bool() {
				s.Scopes |= sc
			}
		}
	}
	*shape = append(*shape, fmt.Sprintf("scope%02x", byte(s.Scopes)))
	if s.Scopes&transaction.CustomContracts != 0 {
		s.AllowedContracts = make([]util.Uint160, subN(r))
		for i := range s.AllowedContracts {
			s.AllowedContracts[i] = u160(r)
		}
	}
	if s.Scopes&transaction.CustomGroups != 0 {
		s.AllowedGroups = make([]*keys.PublicKey, subN(r))
		for i := range s.AllowedGroups {
			s.AllowedGroups[i] = genKey(r)
		}
	}
	if s.Scopes&transaction.Rules != 0 {
		s.Rules = make([]transaction.WitnessRule, subN(r))
		for i := range s.Rules {
			s.Rules[i] = genRule(r, shape)
		}
	}
	return s
}

func genWitness(r *rng.R) transaction.Witness {
	return transaction.Witness{
		InvocationScript:   r.Bytes(blen(r, transaction.MaxInvocationScript)),
		VerificationScript: r.Bytes(blen(r, transaction.MaxVerificationScript)),
	}
}

// ---- attributes ---------------------------------------------------------------

var oracleCodes = []transaction.OracleResponseCode{
	transaction.Success, transaction.ProtocolNotSupported, transaction.ConsensusUnreachable, transaction.NotFound,
	transaction.Timeout, transaction.Forbidden, transaction.ResponseTooLarge, transaction.InsufficientFunds,
	transaction.ContentTypeNotSupported, transaction.Error,
}

// genAttrs returns up to max attributes obeying the uniqueness rules;
// reserved=false leaves out the reserved (test-only, JSON-less) range.
func genAttrs(r *rng.R, max int, reserved bool, shape *[]string) []transaction.Attribute {
	attrs := []transaction.Attribute{}
	if max <= 0 {
		return attrs
	}
	n := r.Intn(4)
	if r.Chance(1, 8) {
		n = max
	}
	used := map[transaction.AttrType]bool{}
	for len(attrs) < n && len(attrs) < max {
		var a transaction.Attribute
		switch r.Intn(6) {
		case 0:
			a = transaction.Attribute{Type: transaction.HighPriority}
		case 1:
			o := &transaction.OracleResponse{ID: bu64(r), Code: oracleCodes[r.Intn(len(oracleCodes))]}
			if o.Code == transaction.Success {
				o.Result = r.Bytes(blen(r, transaction.MaxOracleResultSize))
			} else {
				o.Result = []byte{}
			}
			a = transaction.Attribute{Type: transaction.OracleResponseT, Value: o}
		case 2:
			a = transaction.Attribute{Type: transaction.NotValidBeforeT, Value: &transaction.NotValidBefore{Height: bu32(r)}}
		case 3:
			a = transaction.Attribute{Type: transaction.ConflictsT, Value: &transaction.Conflicts{Hash: u256(r)}}
		case 4:
			a = transaction.Attribute{Type: transaction.NotaryAssistedT, Value: &transaction.NotaryAssisted{NKeys: uint8(r.Intn(256))}}
		default:
			if !reserved {
				continue
			}
			a = transaction.Attribute{Type: transaction.AttrType(transaction.ReservedLowerBound + r.Intn(32)), Value: &transaction.Reserved{Value: r.Bytes(blen(r, 600))}}
		}
		if a.Type != transaction.ConflictsT {
			if used[a.Type] {
				continue
			}
			used[a.Type] = true
		}
		*shape = append(*shape, fmt.Sprintf("attr%02x", byte(a.Type)))
		attrs = append(attrs, a)
	}
	return attrs
}

// ---- transactions -------------------------------------------------------------

type txOpts struct {
	reserved bool // allow reserved attributes (no JSON form)
	small    bool // keep it small (used inside blocks / payloads)
}

func genTx(r *rng.R, o txOpts, shape *[]string) *transaction.Transaction {
	sl := blen(r, transaction.MaxScriptLength)
	if o.small {
		sl = r.Intn(40)
	}
	if sl == 0 {
		sl = 1
	}
	tx := &transaction.Transaction{
		Version:         0,
		Nonce:           bu32(r),
		ValidUntilBlock: bu32(r),
		Script:          r.Bytes(sl),
	}
	switch r.Intn(4) {
	case 0:
		tx.SystemFee, tx.NetworkFee = 0, 0
	case 1:
		tx.SystemFee = int64(r.Uint64() >> 1)
		tx.NetworkFee = int64(^uint64(0)>>1) - tx.SystemFee // sum = MaxInt64
	default:
		tx.SystemFee = int64(r.Uint64() >> uint(2+r.Intn(60)))
		tx.NetworkFee = int64(r.Uint64() >> uint(2+r.Intn(60)))
	}
	ns := 1 + r.Intn(3)
	if r.Chance(1, 10) {
		ns = 1 + r.Intn(transaction.MaxAttributes)
	}
	if o.small {
		ns = 1 + r.Intn(2)
	}
	tx.Signers = make([]transaction.Signer, ns)
	tx.Scripts = make([]transaction.Witness, ns)
	for i := range tx.Signers {
		tx.Signers[i] = genSigner(r, shape)
		tx.Signers[i].Account[0] = byte(i) // unique accounts
		tx.Signers[i].Account[1] = byte(r.Intn(256))
		tx.Scripts[i] = genWitness(r)
		if o.small {
			tx.Scripts[i] = transaction.Witness{InvocationScript: r.Bytes(r.Intn(70)), VerificationScript: r.Bytes(r.Intn(40))}
		}
	}
	tx.Attributes = genAttrs(r, transaction.MaxAttributes-ns, o.reserved, shape)
	return tx
}

func shapeSig(kind string, shape []string) string {
	m := map[string]bool{}
	for _, s := range shape {
		m[s] = true
	}
	u := make([]string, 0, len(m))
	for s := range m {
		u = append(u, s)
	}
	sort.Strings(u)
	return kind + ":" + strings.Join(u, ",")
}

// ---- headers and blocks -------------------------------------------------------

func genHeader(r *rng.R, stateRoot bool) *block.Header {
	h := &block.Header{
		Version:          bu32(r),
		PrevHash:         u256(r),
		MerkleRoot:       u256(r),
		Timestamp:        bu64(r),
		Nonce:            bu64(r),
		Index:            bu32(r),
		NextConsensus:    u160(r),
		PrimaryIndex:     byte(r.Intn(256)),
		StateRootEnabled: stateRoot,
		Script:           genWitness(r),
	}
	if stateRoot && r.Intn(4) != 0 {
		h.PrevStateRoot = u256(r) // else zero, as in a genesis block
	}
	return h
}

func genBlock(r *rng.R, stateRoot bool, reserved bool, shape *[]string) *block.Block {
	b := &block.Block{Header: *genHeader(r, stateRoot)}
	n := r.Intn(4)
	switch r.Intn(10) {
	case 0:
		n = 0
	case 1:
		n = 8 + r.Intn(8)
	}
	b.Transactions = make([]*transaction.Transaction, n)
	for i := range b.Transactions {
		b.Transactions[i] = genTx(r, txOpts{reserved: reserved, small: r.Chance(3, 4)}, shape)
	}
	if r.Bool() {
		b.RebuildMerkleRoot()
	}
	*shape = append(*shape, fmt.Sprintf("ntx%d", min(n, 8)), fmt.Sprint("sr", stateRoot))
	return b
}

package c17

import (
	"bytes"
	"fmt"
	"math/big"

	"github.com/nspcc-dev/neo-go/pkg/encoding/bigint"
	"github.com/nspcc-dev/neo-go/pkg/vm/stackitem"
	"github.com/nspcc-dev/neo-go/verifharness/vlib/rng"
)

// Stack items that are DAGs, not trees: the same compound object (Map, Array,
// Struct) is referenced several times, also from inside other shared
// compounds, with the true (tree-expanded) element count and byte size placed
// around the 2048-item and MaxSize limits. Serialize copies the bytes of an
// already seen compound and has to account for it exactly as Deserialize will
// count it; the laws below tie the two directions together through a model
// written here:
//
//	count(x) = 1 + Σ count(child)            (map keys and values are children)
//	size(x)  = length of the tree encoding
//
//	Serialize(x) succeeds  <=>  count(x) <= 2048 and size(x) <= MaxSize
//	Serialize(x) succeeds   =>  Deserialize(bytes) succeeds and equals x as a tree
//	SerializeLimited(x, l) succeeds <=> count(x) <= l <=> DeserializeLimited(bytes, l) succeeds
//	a reused SerializationContext gives the same bytes as Serialize
//	ToJSONWithTypes(x) succeeds => FromJSONWithTypes succeeds and equals x as a tree

type dagModel struct {
	count map[stackitem.Item]int
	size  map[stackitem.Item]int
}

func varintLen(n int) int {
	switch {
	case n < 0xfd:
		return 1
	case n <= 0xffff:
		return 3
	default:
		return 5
	}
}

// measure returns the tree-expanded element count and encoded size of it.
func (m *dagModel) measure(it stackitem.Item) (int, int) {
	switch t := it.(type) {
	case stackitem.Null:
		return 1, 1
	case stackitem.Bool:
		return 1, 2
	case *stackitem.BigInteger:
		return 1, 2 + len(bigint.ToBytes(t.Big()))
	case *stackitem.ByteArray:
		n := len(t.Value().([]byte))
		return 1, 1 + varintLen(n) + n
	case *stackitem.Buffer:
		n := len(t.Value().([]byte))
		return 1, 1 + varintLen(n) + n
	}
	if c, ok := m.count[it]; ok {
		return c, m.size[it]
	}
	c, s := 1, 1
	switch t := it.(type) {
	case *stackitem.Array, *stackitem.Struct:
		arr := it.Value().([]stackitem.Item)
		s += varintLen(len(arr))
		for _, e := range arr {
			ec, es := m.measure(e)
			c, s = c+ec, s+es
		}
	case *stackitem.Map:
		els := t.Value().([]stackitem.MapElement)
		s += varintLen(len(els))
		for _, e := range els {
			kc, ks := m.measure(e.Key)
			vc, vs := m.measure(e.Value)
			c, s = c+kc+vc, s+ks+vs
		}
	}
	m.count[it], m.size[it] = c, s
	return c, s
}

func dagPrim(r *rng.R) stackitem.Item {
	switch r.Intn(5) {
	case 0:
		return stackitem.Null{}
	case 1:
		return stackitem.NewBool(r.Bool())
	case 2:
		return stackitem.NewBigInteger(big.NewInt(int64(r.Intn(70000) - 35000)))
	case 3:
		return stackitem.NewBuffer(r.Bytes(r.Intn(4)))
	default:
		return stackitem.NewByteArray(r.Bytes(r.Intn(4)))
	}
}

// dagCompound builds a compound of the given kind (0 array, 1 struct, 2 map)
// over the given children.
func dagCompound(kind int, children []stackitem.Item) stackitem.Item {
	switch kind {
	case 0:
		return stackitem.NewArray(children)
	case 1:
		return stackitem.NewStruct(children)
	default:
		m := stackitem.NewMap()
		for i, c := range children {
			m.Add(stackitem.NewBigInteger(big.NewInt(int64(i))), c)
		}
		return m
	}
}

// genDAG returns an item with shared compounds whose tree-expanded count (or
// size) is steered towards the limits, and a shape description.
func genDAG(r *rng.R) (stackitem.Item, string) {
	m := &dagModel{count: map[stackitem.Item]int{}, size: map[stackitem.Item]int{}}
	if r.Chance(1, 8) {
		// size boundary: a shared compound holding one long byte string
		refs := 2 + r.Intn(4)
		l := (stackitem.MaxSize-40)/refs - r.Intn(50)
		kind := r.Intn(3)
		shared := dagCompound(kind, []stackitem.Item{stackitem.NewByteArray(bytes.Repeat([]byte{byte(r.Intn(256))}, l))})
		top := make([]stackitem.Item, refs)
		for i := range top {
			top[i] = shared
		}
		probe := stackitem.NewArray(append(append([]stackitem.Item{}, top...), stackitem.NewByteArray(nil)))
		_, s := (&dagModel{count: map[stackitem.Item]int{}, size: map[stackitem.Item]int{}}).measure(probe)
		pad := stackitem.MaxSize - s + r.Intn(7) - 3 // total size in MaxSize-3 … MaxSize+3
		if pad < 0 {
			pad = 0
		}
		top = append(top, stackitem.NewByteArray(make([]byte, pad)))
		return stackitem.NewArray(top), fmt.Sprintf("dag:size-boundary:kind%d:refs%d", kind, refs)
	}
	// level 1: shared compound over compound values
	k1, inner := r.Intn(3), r.Intn(3)
	m1, a := 1+r.Intn(12), r.Intn(6)
	if r.Chance(1, 4) {
		m1, a = 1+r.Intn(40), r.Intn(12)
	}
	ch := make([]stackitem.Item, m1)
	for i := range ch {
		if a == 0 && r.Bool() {
			ch[i] = dagPrim(r)
			continue
		}
		sub := make([]stackitem.Item, a)
		for j := range sub {
			sub[j] = dagPrim(r)
		}
		ch[i] = dagCompound(inner, sub)
	}
	shared1 := dagCompound(k1, ch)
	// level 2 (optional): a second shared compound that references the first
	// one several times itself
	var shared2 stackitem.Item
	k2 := -1
	if r.Chance(1, 2) {
		k2 = r.Intn(3)
		n := 1 + r.Intn(4)
		c2 := make([]stackitem.Item, 0, n+2)
		for i := 0; i < n; i++ {
			c2 = append(c2, shared1)
		}
		for i := r.Intn(3); i > 0; i-- {
			c2 = append(c2, dagPrim(r))
		}
		shared2 = dagCompound(k2, c2)
	}
	// target tree count
	var target int
	switch x := r.Intn(10); {
	case x < 6:
		target = stackitem.MaxDeserialized - 12 + r.Intn(25) // 2036 … 2060
	case x < 8:
		target = stackitem.MaxDeserialized + r.Intn(400)
	case x < 9:
		target = 20 + r.Intn(1900)
	default:
		target = stackitem.MaxDeserialized
	}
	c1, _ := m.measure(shared1)
	unit, unitItem := c1, shared1
	if shared2 != nil && r.Chance(2, 3) {
		c2, _ := m.measure(shared2)
		unit, unitItem = c2, shared2
	}
	topKind := r.Intn(3)
	perRef := unit
	if topKind == 2 {
		perRef++ // the key
	}
	refs := 2
	if mx := (target - 1) / perRef; mx > 2 {
		refs = 2 + r.Intn(mx-1)
		if r.Chance(1, 2) {
			refs = mx
		}
	}
	top := make([]stackitem.Item, 0, refs+64)
	for i := 0; i < refs; i++ {
		top = append(top, unitItem)
	}
	if shared2 != nil && unitItem != shared1 && r.Bool() {
		top = append(top, shared1)
	}
	it := dagCompound(topKind, top)
	// pad with primitives up to the target
	for {
		c, _ := (&dagModel{count: map[stackitem.Item]int{}, size: map[stackitem.Item]int{}}).measure(it)
		padUnit := 1
		if topKind == 2 {
			padUnit = 2
		}
		need := (target - c) / padUnit
		if need <= 0 {
			break
		}
		for i := 0; i < need; i++ {
			top = append(top, stackitem.Null{})
		}
		it = dagCompound(topKind, top)
		break
	}
	c, _ := (&dagModel{count: map[stackitem.Item]int{}, size: map[stackitem.Item]int{}}).measure(it)
	rel := "below"
	switch {
	case c == stackitem.MaxDeserialized:
		rel = "at"
	case c > stackitem.MaxDeserialized:
		rel = "above"
	case c < stackitem.MaxDeserialized-12:
		rel = "far-below"
	}
	return it, fmt.Sprintf("dag:shared%d/inner%d/second%d/top%d:refs%d:%s-limit", k1, inner, k2, topKind, min(refs, 6), rel)
}

var dagCodec = &codec{name: "item.dag", typ: "stack-item", entry: "stackitem.Serialize/Deserialize"}

// checkItemDAG evaluates the laws listed at the top of this file on one
// generated DAG item.
func checkItemDAG(stream uint64) (out []viol, shape string) {
	r := rng.New(stream)
	it, shape := genDAG(r)
	m := &dagModel{count: map[stackitem.Item]int{}, size: map[stackitem.Item]int{}}
	cnt, size := m.measure(it)
	wit := map[string]any{"shape": shape, "tree_count": cnt, "tree_size": size, "stream": stream}
	fail := func(sig, detail string, input []byte) {
		out = append(out, mkViol(sig, detail, dagCodec, input, wit))
	}
	var b []byte
	var err error
	if p := guard(dagCodec, "Serialize", nil, func() { b, err = stackitem.Serialize(it) }); p != nil {
		return append(out, *p), shape
	}
	within := cnt <= stackitem.MaxSerialized && size <= stackitem.MaxSize
	// one signature per limit whose accounting disagrees with the tree
	limSig := "limits:item.dag:serialize-element-accounting"
	if cnt <= stackitem.MaxSerialized {
		limSig = "limits:item.dag:serialize-size-accounting"
	}
	limitsOK := true
	switch {
	case err == nil && !within:
		limitsOK = false
		fail(limSig, fmt.Sprintf("Serialize accepted an item with shared compounds whose tree has %d elements / %d bytes (limits %d / %d); Deserialize of these bytes: %v", cnt, size, stackitem.MaxSerialized, stackitem.MaxSize, func() error { _, e := stackitem.Deserialize(b); return e }()), b)
	case err != nil && within:
		limitsOK = false
		fail(limSig, fmt.Sprintf("Serialize rejected (%v) an item with shared compounds whose tree has %d elements / %d bytes (limits %d / %d)", err, cnt, size, stackitem.MaxSerialized, stackitem.MaxSize), nil)
	}
	if err == nil {
		if len(b) != size {
			fail("size:item.dag:encoding-length", fmt.Sprintf("serialization has %d bytes, the tree encoding has %d", len(b), size), b)
		}
		var back stackitem.Item
		var derr error
		if p := guard(dagCodec, "Deserialize", b, func() { back, derr = stackitem.Deserialize(b) }); p != nil {
			return append(out, *p), shape
		}
		if derr != nil && !limitsOK {
			// already reported as a limit disagreement
		} else if derr != nil {
			fail("roundtrip:item.dag:decode-error", fmt.Sprintf("Serialize produced %d bytes for an item with shared compounds (tree: %d elements) that Deserialize rejects: %v", len(b), cnt, derr), b)
		} else if d := itemDiff("", it, back, 0); d != "" {
			fail("roundtrip:item.dag:value", "Deserialize(Serialize(x)) differs from x (as a tree) at "+d, b)
		}
		// a reused context (as the execution-result encoder uses it)
		sc := stackitem.NewSerializationContext()
		_, _ = sc.Serialize(stackitem.NewArray([]stackitem.Item{stackitem.NewBool(true)}), false)
		b2, e2 := sc.Serialize(it, false)
		if e2 != nil || !bytes.Equal(b2, b) {
			fail("roundtrip:item.dag:context-reuse", fmt.Sprintf("a reused SerializationContext gives a different result (err=%v)", e2), b)
		}
	}
	// explicit limits around the true count, both directions
	if size <= stackitem.MaxSize && cnt > 2 && limitsOK {
		for _, l := range []int{cnt - 1, cnt, cnt + 1} {
			lb, lerr := stackitem.SerializeLimited(it, l)
			if (lerr == nil) != (cnt <= l) {
				fail("limits:item.dag:serialize-element-accounting", fmt.Sprintf("SerializeLimited(limit %d) on a tree of %d elements: err=%v", l, cnt, lerr), nil)
				break
			}
			if err == nil {
				_, dlerr := stackitem.DeserializeLimited(b, l)
				if (dlerr == nil) != (cnt <= l) {
					fail("limits:item.dag:deserialize-limited", fmt.Sprintf("DeserializeLimited(limit %d) on a tree of %d elements: err=%v", l, cnt, dlerr), b)
					break
				}
			}
			if lerr == nil && err == nil && !bytes.Equal(lb, b) {
				fail("roundtrip:item.dag:serialize-limited-bytes", "SerializeLimited and Serialize disagree on the bytes", b)
				break
			}
		}
	}
	// typed JSON
	var j []byte
	var jerr error
	if p := guard(dagCodec, "ToJSONWithTypes", nil, func() { j, jerr = stackitem.ToJSONWithTypes(it) }); p != nil {
		return append(out, *p), shape
	}
	if jerr == nil && err == nil {
		if tree, derr := stackitem.Deserialize(b); derr == nil {
			if _, terr := stackitem.ToJSONWithTypes(tree); terr != nil {
				fail("roundtrip:item.dag-json:encode-error", "ToJSONWithTypes accepts an item with shared compounds but rejects the same value as a tree: "+terr.Error(), b)
			}
		}
	}
	if jerr == nil {
		var back stackitem.Item
		var derr error
		if p := guard(dagCodec, "FromJSONWithTypes", j, func() { back, derr = stackitem.FromJSONWithTypes(j) }); p != nil {
			return append(out, *p), shape
		}
		if derr != nil {
			fail("roundtrip:item.dag-json:decode-error", "ToJSONWithTypes output of an item with shared compounds is rejected: "+derr.Error(), j)
		} else if d := itemDiff("", it, back, 0); d != "" {
			fail("roundtrip:item.dag-json:value", "FromJSONWithTypes(ToJSONWithTypes(x)) differs from x (as a tree) at "+d, j)
		} else if j2, e2 := stackitem.ToJSONWithTypes(back); e2 != nil || !bytes.Equal(j, j2) {
			fail("roundtrip:item.dag-json:reencoding", fmt.Sprintf("typed JSON of the decoded tree differs from the typed JSON of the shared original (err=%v)", e2), j)
		}
	} else if err == nil {
		// the shared and the tree form of the same value must agree on whether
		// the typed JSON form exists
		if tree, derr := stackitem.Deserialize(b); derr == nil {
			if _, terr := stackitem.ToJSONWithTypes(tree); terr == nil {
				fail("roundtrip:item.dag-json:encode-error", "ToJSONWithTypes rejects an item with shared compounds ("+jerr.Error()+") but accepts the same value as a tree", b)
			}
		}
	}
	return out, shape
}

package c17

import (
	"bytes"
	"encoding/binary"
	"fmt"

	"github.com/nspcc-dev/neo-go/pkg/config/netmode"
	"github.com/nspcc-dev/neo-go/pkg/core/block"
	"github.com/nspcc-dev/neo-go/pkg/core/transaction"
	"github.com/nspcc-dev/neo-go/pkg/network"
	"github.com/nspcc-dev/neo-go/pkg/network/capability"
	"github.com/nspcc-dev/neo-go/pkg/network/payload"
	"github.com/nspcc-dev/neo-go/pkg/util"
	"github.com/nspcc-dev/neo-go/pkg/vm/opcode"
	"github.com/nspcc-dev/neo-go/verifharness/vlib/rng"
)

func genCaps(r *rng.R) capability.Capabilities {
	cs := capability.Capabilities{}
	used := map[capability.Type]bool{}
	n := r.Intn(5)
	if r.Chance(1, 10) {
		n = capability.MaxCapabilities
	}
	for len(cs) < n {
		var c capability.Capability
		switch r.Intn(6) {
		case 0:
			c = capability.Capability{Type: capability.TCPServer, Data: &capability.Server{Port: uint16(r.Intn(65536))}}
		case 1:
			c = capability.Capability{Type: capability.WSServer, Data: &capability.Server{Port: uint16(r.Intn(65536))}}
		case 2:
			c = capability.Capability{Type: capability.FullNode, Data: &capability.Node{StartHeight: bu32(r)}}
		case 3:
			c = capability.Capability{Type: capability.ArchivalNode, Data: &capability.Archival{}}
		case 4:
			c = capability.Capability{Type: capability.DisableCompressionNode, Data: &capability.DisableCompression{}}
		default:
			u := capability.Unknown(r.Bytes(blen(r, capability.MaxDataSize)))
			c = capability.Capability{Type: capability.Type(0x20 + r.Intn(0xd0)), Data: &u}
		}
		if c.Type <= capability.ArchivalNode && used[c.Type] {
			if len(used) >= 5 {
				u := capability.Unknown(r.Bytes(r.Intn(5)))
				c = capability.Capability{Type: capability.Type(0x20 + r.Intn(0xd0)), Data: &u}
			} else {
				continue
			}
		}
		used[c.Type] = true
		cs = append(cs, c)
	}
	return cs
}

func hashes(r *rng.R, n int) []util.Uint256 {
	h := make([]util.Uint256, n)
	for i := range h {
		h[i] = u256(r)
	}
	return h
}

func countN(r *rng.R, max int) int {
	switch r.Intn(8) {
	case 0:
		return max
	case 1:
		return 1
	}
	return 1 + r.Intn(min(max, 6))
}

func genExtensible(r *rng.R) *payload.Extensible {
	e := &payload.Extensible{
		Category:        text(r, 32),
		ValidBlockStart: bu32(r),
		ValidBlockEnd:   bu32(r),
		Sender:          u160(r),
		Data:            r.Bytes(blen(r, 70000)),
		Witness:         genWitness(r),
	}
	return e
}

// genNotaryRequest builds a request that passes P2PNotaryRequest.isValid.
func genNotaryRequest(r *rng.R, shape *[]string) *payload.P2PNotaryRequest {
	main := genTx(r, txOpts{small: r.Bool()}, shape)
	if len(main.Signers) == transaction.MaxAttributes {
		main.Signers, main.Scripts = main.Signers[:15], main.Scripts[:15]
	}
	// exactly one NotaryAssisted with NKeys>0
	attrs := main.Attributes[:0]
	for _, a := range main.Attributes {
		if a.Type != transaction.NotaryAssistedT {
			attrs = append(attrs, a)
		}
	}
	if len(attrs)+len(main.Signers) >= transaction.MaxAttributes {
		attrs = attrs[:0]
	}
	main.Attributes = append(attrs, transaction.Attribute{Type: transaction.NotaryAssistedT, Value: &transaction.NotaryAssisted{NKeys: uint8(1 + r.Intn(255))}})
	fb := genTx(r, txOpts{small: true}, shape)
	fb.Signers = []transaction.Signer{{Account: u160(r), Scopes: transaction.None}, {Account: u160(r), Scopes: transaction.None}}
	fb.Signers[0].Account[0], fb.Signers[1].Account[0] = 1, 2
	fb.Scripts = []transaction.Witness{
		{InvocationScript: append([]byte{byte(opcode.PUSHDATA1), 64}, r.Bytes(64)...), VerificationScript: []byte{}},
		genWitness(r),
	}
	fb.ValidUntilBlock = main.ValidUntilBlock
	fb.Attributes = []transaction.Attribute{
		{Type: transaction.NotaryAssistedT, Value: &transaction.NotaryAssisted{NKeys: 0}},
		{Type: transaction.NotValidBeforeT, Value: &transaction.NotValidBefore{Height: bu32(r)}},
		{Type: transaction.ConflictsT, Value: &transaction.Conflicts{Hash: main.Hash()}},
	}
	return &payload.P2PNotaryRequest{MainTransaction: main, FallbackTransaction: fb, Witness: genWitness(r)}
}

func genCount16(r *rng.R, max int) int16 {
	switch r.Intn(4) {
	case 0:
		return -1
	case 1:
		return int16(max)
	}
	return int16(1 + r.Intn(max))
}

// genMessage returns a P2P message with a payload of every supported command.
func genMessage(r *rng.R, shape *[]string) *network.Message {
	sr := r.Chance(1, 4)
	var m *network.Message
	switch k := r.Intn(22); k {
	case 0:
		m = network.NewMessage(network.CMDVersion, &payload.Version{Magic: netmode.Magic(r.Uint32()), Version: bu32(r), Timestamp: bu32(r), Nonce: bu32(r), UserAgent: r.Bytes(blen(r, payload.MaxUserAgentLength)), Capabilities: genCaps(r)})
	case 1:
		m = network.NewMessage([]network.CommandType{network.CMDVerack, network.CMDGetAddr, network.CMDMempool, network.CMDFilterClear}[r.Intn(4)], payload.NewNullPayload())
	case 2:
		al := &payload.AddressList{}
		for range countN(r, payload.MaxAddrsCount) {
			a := &payload.AddressAndTime{Timestamp: bu32(r), Capabilities: genCaps(r)}
			copy(a.IP[:], r.Bytes(16))
			al.Addrs = append(al.Addrs, a)
		}
		m = network.NewMessage(network.CMDAddr, al)
	case 3:
		m = network.NewMessage([]network.CommandType{network.CMDPing, network.CMDPong}[r.Intn(2)], &payload.Ping{LastBlockIndex: bu32(r), Timestamp: bu32(r), Nonce: bu32(r)})
	case 4:
		m = network.NewMessage(network.CMDGetHeaders, &payload.GetBlockByIndex{IndexStart: bu32(r), Count: genCount16(r, payload.MaxHeadersAllowed)})
	case 5:
		m = network.NewMessage(network.CMDGetBlockByIndex, &payload.GetBlockByIndex{IndexStart: bu32(r), Count: genCount16(r, payload.MaxHeadersAllowed)})
	case 6:
		hs := &payload.Headers{StateRootInHeader: sr}
		for range countN(r, 40) {
			hs.Hdrs = append(hs.Hdrs, genHeader(r, sr))
		}
		m = network.NewMessage(network.CMDHeaders, hs)
	case 7:
		m = network.NewMessage(network.CMDGetBlocks, &payload.GetBlocks{HashStart: u256(r), Count: genCount16(r, 32767)})
	case 8, 9, 10:
		typ := []payload.InventoryType{payload.TXType, payload.BlockType, payload.ExtensibleType, payload.P2PNotaryRequestType}[r.Intn(4)]
		cmd := []network.CommandType{network.CMDInv, network.CMDGetData, network.CMDNotFound}[k-8]
		m = network.NewMessage(cmd, &payload.Inventory{Type: typ, Hashes: hashes(r, countN(r, payload.MaxHashesCount)-r.Intn(2))})
	case 11, 12:
		m = network.NewMessage(network.CMDTX, genTx(r, txOpts{reserved: true}, shape))
	case 13, 14:
		m = network.NewMessage(network.CMDBlock, genBlock(r, sr, true, shape))
	case 15:
		m = network.NewMessage(network.CMDExtensible, genExtensible(r))
	case 16:
		m = network.NewMessage(network.CMDP2PNotaryRequest, genNotaryRequest(r, shape))
	case 17:
		m = network.NewMessage(network.CMDGetMPTData, &payload.MPTInventory{Hashes: hashes(r, countN(r, payload.MaxMPTHashesCount)-r.Intn(2))})
	case 18:
		d := &payload.MPTData{}
		for range countN(r, 20) {
			d.Nodes = append(d.Nodes, r.Bytes(blen(r, 2000)))
		}
		m = network.NewMessage(network.CMDMPTData, d)
	case 19:
		n := r.Intn(20)
		mb := &payload.MerkleBlock{Header: genHeader(r, false), TxCount: n, Hashes: hashes(r, n), Flags: r.Bytes((n + 7) / 8)}
		m = network.NewMessage(network.CMDMerkleBlock, mb)
	case 20:
		m = network.NewMessage(network.CMDExtensible, &genConsensusSpec(r, sr, shape).ext)
	default:
		m = network.NewMessage(network.CMDGetBlocks, &payload.GetBlocks{HashStart: u256(r), Count: -1})
	}
	m.StateRootInHeader = sr
	*shape = append(*shape, "cmd"+m.Command.String(), fmt.Sprint("sr", sr))
	return m
}

// ---- consensus payloads: an independent encoder written from the dBFT wire
// format (the message structs of pkg/consensus are unexported, so values are
// built as bytes here and decoded / re-encoded by the real code) ---------------

type wbuf struct{ bytes.Buffer }

func (w *wbuf) b(v byte)     { w.WriteByte(v) }
func (w *wbuf) u16(v uint16) { var x [2]byte; binary.LittleEndian.PutUint16(x[:], v); w.Write(x[:]) }
func (w *wbuf) u32(v uint32) { var x [4]byte; binary.LittleEndian.PutUint32(x[:], v); w.Write(x[:]) }
func (w *wbuf) u64(v uint64) { var x [8]byte; binary.LittleEndian.PutUint64(x[:], v); w.Write(x[:]) }

// varint is the canonical (minimal) variable-length integer of the protocol.
func (w *wbuf) varint(v uint64) {
	switch {
	case v < 0xfd:
		w.b(byte(v))
	case v <= 0xffff:
		w.b(0xfd)
		w.u16(uint16(v))
	case v <= 0xffffffff:
		w.b(0xfe)
		w.u32(uint32(v))
	default:
		w.b(0xff)
		w.u64(v)
	}
}
func (w *wbuf) varbytes(p []byte) { w.varint(uint64(len(p))); w.Write(p) }

const (
	cmChangeView      = 0x00
	cmPrepareRequest  = 0x20
	cmPrepareResponse = 0x21
	cmCommit          = 0x30
	cmRecoveryRequest = 0x40
	cmRecoveryMessage = 0x41
)

// consensusSpec is what the generator knows about a consensus payload.
type consensusSpec struct {
	ext        payload.Extensible // the extensible envelope carrying the message
	typ        byte
	blockIndex uint32
	validator  byte
	view       byte
	sr         bool
	// per type expectations, checked through the exported getters
	cvReason     byte
	cvTimestamp  uint64
	prTimestamp  uint64
	prNonce      uint64
	prHashes     []util.Uint256
	respHash     util.Uint256
	commitSig    []byte
	rrTimestamp  uint64
	recPrepHash  *util.Uint256
	recNChange   int
	recNPrep     int
	recNCommit   int
	recHasPrepRq bool
}

func encPrepareRequest(w *wbuf, r *rng.R, sr bool, cs *consensusSpec) {
	w.u32(bu32(r))
	w.Write(r.Bytes(32))
	ts, nonce := bu64(r)/1_000_000, bu64(r)
	w.u64(ts)
	w.u64(nonce)
	n := r.Intn(5)
	if r.Chance(1, 6) {
		// full and nearly full blocks: the default per-block limit is 512, the
		// inventory limit (which is not the one that applies here) 500
		n = []int{300, 499, 500, 501, 511, 512, 513, 2000}[r.Intn(8)]
	}
	hs := hashes(r, n)
	w.varint(uint64(n))
	for _, h := range hs {
		w.Write(h[:])
	}
	if sr {
		w.Write(r.Bytes(32))
	}
	if cs != nil {
		cs.prTimestamp, cs.prNonce, cs.prHashes = ts, nonce, hs
	}
}

func genConsensusSpec(r *rng.R, sr bool, shape *[]string) *consensusSpec {
	cs := &consensusSpec{sr: sr, blockIndex: bu32(r), validator: byte(r.Intn(256)), view: byte(r.Intn(256))}
	cs.typ = []byte{cmChangeView, cmPrepareRequest, cmPrepareResponse, cmCommit, cmRecoveryRequest, cmRecoveryMessage, cmRecoveryMessage}[r.Intn(7)]
	var w wbuf
	w.b(cs.typ)
	w.u32(cs.blockIndex)
	w.b(cs.validator)
	w.b(cs.view)
	switch cs.typ {
	case cmChangeView:
		cs.cvTimestamp = bu64(r)
		cs.cvReason = []byte{0, 1, 2, 3, 4, 5, 6, 7, 0xff}[r.Intn(9)]
		w.u64(cs.cvTimestamp)
		w.b(cs.cvReason)
		// dbft.CVTxRejectedByPolicy = 3, dbft.CVTxInvalid = 4 carry rejected hashes
		if cs.cvReason == 3 || cs.cvReason == 4 {
			n := r.Intn(4)
			w.varint(uint64(n))
			for range n {
				w.Write(r.Bytes(32))
			}
		}
	case cmPrepareRequest:
		encPrepareRequest(&w, r, sr, cs)
	case cmPrepareResponse:
		cs.respHash = u256(r)
		w.Write(cs.respHash[:])
	case cmCommit:
		cs.commitSig = r.Bytes(64)
		w.Write(cs.commitSig)
	case cmRecoveryRequest:
		cs.rrTimestamp = bu64(r) / 1_000_000
		w.u64(cs.rrTimestamp)
	case cmRecoveryMessage:
		cs.recNChange = r.Intn(4)
		w.varint(uint64(cs.recNChange))
		for range cs.recNChange {
			w.b(byte(r.Intn(256)))
			w.b(byte(r.Intn(256)))
			w.u64(bu64(r))
			w.varbytes(r.Bytes(blen(r, 1024)))
		}
		cs.recHasPrepRq = r.Bool()
		if cs.recHasPrepRq {
			w.b(1)
			w.b(cmPrepareRequest)
			w.u32(bu32(r))
			w.b(byte(r.Intn(256)))
			w.b(byte(r.Intn(256)))
			encPrepareRequest(&w, r, sr, nil)
		} else {
			w.b(0)
			if r.Bool() {
				h := u256(r)
				cs.recPrepHash = &h
				w.varint(32)
				w.Write(h[:])
			} else {
				w.varint(0)
			}
		}
		cs.recNPrep = r.Intn(4)
		w.varint(uint64(cs.recNPrep))
		for range cs.recNPrep {
			w.b(byte(r.Intn(256)))
			w.varbytes(r.Bytes(blen(r, 1024)))
		}
		cs.recNCommit = r.Intn(4)
		w.varint(uint64(cs.recNCommit))
		for range cs.recNCommit {
			w.b(byte(r.Intn(256)))
			w.b(byte(r.Intn(256)))
			w.Write(r.Bytes(64))
			w.varbytes(r.Bytes(blen(r, 1024)))
		}
	}
	cs.ext = payload.Extensible{
		Category:        payload.ConsensusCategory,
		ValidBlockStart: 0,
		ValidBlockEnd:   cs.blockIndex,
		Sender:          u160(r),
		Data:            bytes.Clone(w.Bytes()),
		Witness:         genWitness(r),
	}
	*shape = append(*shape, fmt.Sprintf("cons%02x", cs.typ), fmt.Sprint("sr", sr))
	return cs
}

// wrapTxInBlock builds the encoding of a block that contains exactly the
// given transaction bytes (as a peer would put them there).
func wrapTxInBlock(h *block.Header, txb []byte) []byte {
	var w wbuf
	w.Write(encode(h))
	w.varint(1)
	w.Write(txb)
	return w.Bytes()
}

// wrapInMessage frames payload bytes as an uncompressed P2P message.
func wrapInMessage(cmd network.CommandType, p []byte) []byte {
	var w wbuf
	w.b(0)
	w.b(byte(cmd))
	w.varbytes(p)
	return w.Bytes()
}

package c04

import (
	"testing"

	"github.com/nspcc-dev/neo-go/pkg/vm/stackitem"
	"github.com/nspcc-dev/neo-go/verifharness/vlib/ev"
)

type stackitemItem = stackitem.Item

func twinSession(t *testing.T, run *ev.Run, si, n int) *violation { return nil }

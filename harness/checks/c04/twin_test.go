package c04

import (
	"bytes"
	"encoding/json"
	"fmt"
	"math/big"
	"sort"
	"strings"
	"sync"
	"testing"

	"github.com/nspcc-dev/neo-go/pkg/core"
	"github.com/nspcc-dev/neo-go/pkg/smartcontract/trigger"

	"github.com/nspcc-dev/neo-go/pkg/core/native/nativehashes"
	"github.com/nspcc-dev/neo-go/pkg/core/native/nativeids"
	"github.com/nspcc-dev/neo-go/pkg/core/native/noderoles"
	"github.com/nspcc-dev/neo-go/pkg/core/state"
	"github.com/nspcc-dev/neo-go/pkg/core/transaction"
	"github.com/nspcc-dev/neo-go/pkg/crypto/keys"
	"github.com/nspcc-dev/neo-go/pkg/io"
	"github.com/nspcc-dev/neo-go/pkg/neotest"
	"github.com/nspcc-dev/neo-go/pkg/smartcontract/callflag"
	"github.com/nspcc-dev/neo-go/pkg/util"
	"github.com/nspcc-dev/neo-go/pkg/vm/emit"
	"github.com/nspcc-dev/neo-go/pkg/vm/opcode"
	"github.com/nspcc-dev/neo-go/pkg/vm/stackitem"
	"github.com/nspcc-dev/neo-go/pkg/vm/vmstate"
	"github.com/nspcc-dev/neo-go/verifharness/vlib/ev"
	"github.com/nspcc-dev/neo-go/verifharness/vlib/rng"
	"github.com/nspcc-dev/neo-go/verifharness/vlib/vchain"
)

type stackitemItem = stackitem.Item

// effect is one side effect a transaction script makes.
type effect struct {
	kind      string
	desc      string
	committee bool
	boolRes   bool // the call returns a boolean that must be true in the halting version
	emit      func(bw *io.BinWriter)
	// check returns "" when the effect is present on chain A after the halting
	// version; before is what prepare returned before the block.
	prepare func() any
	check   func(before any) string
}

// Fault kinds.
const (
	fThrow = iota
	fAbort
	fAssert
	fDivZero
	fMissingContract
	fContractThrow
	fCallbackThrow
	fOutOfGas
	fBadFlags
	nFaults
)

var faultNames = [...]string{"throw", "abort", "assert-false", "division-by-zero", "call-to-missing-contract", "contract-throws-after-writes", "payment-callback-throws", "out-of-gas-in-the-middle", "write-with-read-only-flags"}

type twinGen struct {
	w *world
	r *rng.R
	u int // signer user
	// committeeOK: the committee that signs now is the one the block will check
	// (it changes when the block starts a new epoch).
	committeeOK bool
	usedSlots   map[int]bool // contracts the effects chosen so far work with
	doomed      int          // contract destroyed by one of the effects (-1: none)
}

func (g *twinGen) user() *vchain.User { return g.w.A.Users[g.u] }

func appCall(bw *io.BinWriter, h util.Uint160, m string, args ...any) {
	emit.AppCall(bw, h, m, callflag.All, args...)
}

func (w *world) gasBal(a util.Uint160) *big.Int {
	return w.A.BC.GetUtilityTokenBalance(a, util.Uint160{})
}
func (w *world) neoBal(a util.Uint160) *big.Int {
	b, _ := w.A.BC.GetGoverningTokenBalance(a)
	return b
}
func (w *world) voteOf(a util.Uint160) *keys.PublicKey {
	si := w.A.BC.GetStorageItem(nativeids.NeoToken, append([]byte{20}, a.BytesBE()...))
	if si == nil {
		return nil
	}
	nb, err := state.NEOBalanceFromBytes(si)
	if err != nil {
		return nil
	}
	return nb.VoteTo
}
func (w *world) registered(pub *keys.PublicKey) bool {
	en, _ := w.A.BC.GetEnrollments()
	for _, v := range en {
		if v.Key.Equal(pub) {
			return true
		}
	}
	return false
}
func (w *world) isBlocked(a util.Uint160) bool {
	return w.A.BC.GetStorageItem(w.A.BC.NativePolicyID(), append([]byte{15}, a.BytesBE()...)) != nil
}

func deltaCheck(what string, get func() *big.Int, amt int64) (func() any, func(any) string) {
	return func() any { return get() }, func(b any) string {
		want := new(big.Int).Add(b.(*big.Int), big.NewInt(amt))
		if got := get(); got.Cmp(want) != 0 {
			return fmt.Sprintf("%s is %s, expected %s (+%d)", what, got, want, amt)
		}
		return ""
	}
}

// effects picks n distinct effects that are expected to succeed on the
// current state of chain A.
func (g *twinGen) effects(n int, used map[string]bool) []*effect {
	var out []*effect
	for tries := 0; len(out) < n && tries < 40; tries++ {
		e := g.effect()
		if e == nil || used[e.kind] || (e.committee && !g.committeeOK) {
			continue
		}
		used[e.kind] = true
		out = append(out, e)
	}
	return out
}

func (g *twinGen) liveSlot() int {
	for range 10 {
		s := g.r.Intn(nBase)
		if s != g.doomed && g.w.A.BC.GetContractState(g.w.slotHash[s]) != nil && !g.w.isBlocked(g.w.slotHash[s]) {
			g.usedSlots[s] = true
			return s
		}
	}
	return -1
}

func (g *twinGen) effect() *effect {
	w, r, p := g.w, g.r, g.w.A
	u := g.user()
	switch r.Intn(15) {
	case 0:
		sink := w.sinks[r.Intn(2)] // never holds NEO: its GAS changes by transfers only
		amt := int64(1 + r.Intn(1_0000_0000))
		e := &effect{kind: "gas-transfer", desc: fmt.Sprintf("GAS.transfer(u%d -> sink, %d)", g.u, amt), boolRes: true,
			emit: func(bw *io.BinWriter) { appCall(bw, p.GasH, "transfer", u.Hash(), sink, amt, nil) }}
		e.prepare, e.check = deltaCheck("GAS of the recipient", func() *big.Int { return w.gasBal(sink) }, amt)
		return e
	case 1:
		if w.neoBal(u.Hash()).Int64() < 1000 {
			return nil
		}
		sink := w.sinks[2]
		amt := int64(1 + r.Intn(100))
		e := &effect{kind: "neo-transfer", desc: fmt.Sprintf("NEO.transfer(u%d -> sink, %d)", g.u, amt), boolRes: true,
			emit: func(bw *io.BinWriter) { appCall(bw, p.NeoH, "transfer", u.Hash(), sink, amt, nil) }}
		e.prepare, e.check = deltaCheck("NEO of the recipient", func() *big.Int { return w.neoBal(sink) }, amt)
		return e
	case 2:
		if w.neoBal(u.Hash()).Sign() == 0 {
			return nil
		}
		en, _ := p.BC.GetEnrollments()
		cur := w.voteOf(u.Hash())
		var cands []*keys.PublicKey
		for _, v := range en {
			if cur == nil || !v.Key.Equal(cur) {
				cands = append(cands, v.Key)
			}
		}
		if len(cands) == 0 {
			return nil
		}
		if cur != nil && r.Intn(4) == 0 {
			return &effect{kind: "vote", desc: fmt.Sprintf("NEO.vote(u%d, nil)", g.u), boolRes: true,
				emit:    func(bw *io.BinWriter) { appCall(bw, p.NeoH, "vote", u.Hash(), nil) },
				prepare: func() any { return nil },
				check: func(any) string {
					if v := w.voteOf(u.Hash()); v != nil {
						return "the account still votes for " + v.StringCompressed()
					}
					return ""
				}}
		}
		c := cands[r.Intn(len(cands))]
		return &effect{kind: "vote", desc: fmt.Sprintf("NEO.vote(u%d, %s)", g.u, c.StringCompressed()[:10]), boolRes: true,
			emit:    func(bw *io.BinWriter) { appCall(bw, p.NeoH, "vote", u.Hash(), c.Bytes()) },
			prepare: func() any { return nil },
			check: func(any) string {
				if v := w.voteOf(u.Hash()); v == nil || !v.Equal(c) {
					return fmt.Sprintf("the account votes for %v, expected %s", v, c.StringCompressed())
				}
				return ""
			}}
	case 3:
		pub := u.Acc.PublicKey()
		if w.registered(pub) {
			return &effect{kind: "candidate", desc: fmt.Sprintf("NEO.unregisterCandidate(u%d)", g.u), boolRes: true,
				emit:    func(bw *io.BinWriter) { appCall(bw, p.NeoH, "unregisterCandidate", pub.Bytes()) },
				prepare: func() any { return nil },
				check: func(any) string {
					if w.registered(pub) {
						return "the key is still a registered candidate"
					}
					return ""
				}}
		}
		return &effect{kind: "candidate", desc: fmt.Sprintf("NEO.registerCandidate(u%d)", g.u), boolRes: true,
			emit:    func(bw *io.BinWriter) { appCall(bw, p.NeoH, "registerCandidate", pub.Bytes()) },
			prepare: func() any { return nil },
			check: func(any) string {
				if !w.registered(pub) {
					return "the key is not a registered candidate"
				}
				return ""
			}}
	case 4, 5:
		type setter struct {
			h      util.Uint160
			m      string
			v      int64
			getter func() int64
		}
		ss := []setter{
			{p.PolH, "setFeePerByte", int64(300 + r.Intn(3000)), func() int64 { return p.BC.FeePerByte() }},
			{p.PolH, "setStoragePrice", int64(40000 + r.Intn(100000)), func() int64 { return p.BC.GetStoragePrice() / 10000 }}, // the getter answers in picoGAS
			{p.NeoH, "setRegisterPrice", int64((1 + r.Intn(30)) * 100_0000), nil},
			{p.NeoH, "setGasPerBlock", int64((1 + r.Intn(9)) * 1_0000_0000), nil},
		}
		s := ss[r.Intn(len(ss))]
		e := &effect{kind: "policy-" + s.m, desc: fmt.Sprintf("%s(%d)", s.m, s.v), committee: true,
			emit:    func(bw *io.BinWriter) { appCall(bw, s.h, s.m, s.v) },
			prepare: func() any { return nil },
			check: func(any) string {
				if s.getter != nil && s.getter() != s.v {
					return fmt.Sprintf("%s: the getter returns %d, expected %d", s.m, s.getter(), s.v)
				}
				return ""
			}}
		if s.getter == nil {
			// checked through storage: NEO register price (prefix 13) / gas per block records (prefix 29)
			if s.m == "setRegisterPrice" {
				e.check = func(any) string {
					si := p.BC.GetStorageItem(nativeids.NeoToken, []byte{13})
					if si == nil || new(big.Int).SetBytes(reverse(si)).Int64() != s.v {
						return fmt.Sprintf("stored register price is %x, expected %d", []byte(si), s.v)
					}
					return ""
				}
			}
		}
		return e
	case 6:
		typ := []int64{0x20, 0x21, 0x22}[r.Intn(3)]
		v := int64(r.Intn(50_0000))
		return &effect{kind: "policy-setAttributeFee", desc: fmt.Sprintf("setAttributeFee(%#x,%d)", typ, v), committee: true,
			emit:    func(bw *io.BinWriter) { appCall(bw, p.PolH, "setAttributeFee", typ, v) },
			prepare: func() any { return nil },
			check: func(any) string {
				si := p.BC.GetStorageItem(p.BC.NativePolicyID(), []byte{20, byte(typ)})
				if si == nil || new(big.Int).SetBytes(reverse(si)).Int64() != v {
					return fmt.Sprintf("stored attribute fee is %x, expected %d", []byte(si), v)
				}
				return ""
			}}
	case 7:
		tg := w.dummies[r.Intn(len(w.dummies))]
		name := "dummy"
		if r.Intn(3) == 0 {
			k := 8 + r.Intn(2) // users 8 and 9: voted candidates that never sign here
			tg, name = p.Users[k].Hash(), fmt.Sprintf("candidate u%d", k)
		}
		if w.isBlocked(tg) {
			return &effect{kind: "unblock-account", desc: "unblockAccount(" + name + ")", committee: true, boolRes: true,
				emit:    func(bw *io.BinWriter) { appCall(bw, p.PolH, "unblockAccount", tg) },
				prepare: func() any { return nil },
				check: func(any) string {
					if w.isBlocked(tg) {
						return "the account is still blocked"
					}
					return ""
				}}
		}
		return &effect{kind: "block-account", desc: "blockAccount(" + name + ")", committee: true, boolRes: true,
			emit:    func(bw *io.BinWriter) { appCall(bw, p.PolH, "blockAccount", tg) },
			prepare: func() any { return nil },
			check: func(any) string {
				if !w.isBlocked(tg) {
					return "the account is not blocked"
				}
				return ""
			}}
	case 8:
		role := []int64{4, 8, 16, 32}[r.Intn(4)]
		n := 1 + r.Intn(3)
		var ks []any
		var want []string
		for _, k := range r.Perm(6)[:n] {
			ks = append(ks, w.roleKeys[k])
			want = append(want, fmt.Sprintf("%x", w.roleKeys[k]))
		}
		sort.Strings(want)
		return &effect{kind: "designate", desc: fmt.Sprintf("designateAsRole(%d, %d keys)", role, n), committee: true,
			emit:    func(bw *io.BinWriter) { appCall(bw, p.RoleH, "designateAsRole", role, ks) },
			prepare: func() any { return nil },
			check: func(any) string {
				got, _, err := p.BC.GetDesignatedByRole(noderoles.Role(role))
				var gs []string
				for _, k := range got {
					gs = append(gs, fmt.Sprintf("%x", k.Bytes()))
				}
				sort.Strings(gs)
				if err != nil || strings.Join(gs, ",") != strings.Join(want, ",") {
					return fmt.Sprintf("designated nodes are %v (%v), expected %v", gs, err, want)
				}
				return ""
			}}
	case 9:
		w.nonce++
		name := fmt.Sprintf("tw%d", w.nonce)
		c := vchain.StoreContract(w.t, u.Hash(), name, 1)
		mb, _ := json.Marshal(c.Manifest)
		nb, _ := c.NEF.Bytes()
		return &effect{kind: "deploy", desc: "ContractManagement.deploy(" + name + ")",
			emit: func(bw *io.BinWriter) {
				appCall(bw, p.MgmtH, "deploy", nb, mb, nil)
				emit.Opcodes(bw, opcode.DROP)
			},
			prepare: func() any { return nil },
			check: func(any) string {
				if p.BC.GetContractState(c.Hash) == nil {
					return "the deployed contract does not exist"
				}
				return ""
			}}
	case 10:
		s := g.liveSlot()
		if s < 0 {
			return nil
		}
		k, v, n := planKeys[r.Intn(len(planKeys))], fmt.Sprint(1000+r.Intn(1000)), 5000+r.Intn(1000)
		plan := []step{{Op: opPut, K: k, V: v}, {Op: opNotify, N: n}, {Op: opPut, K: "w" + k, V: v}, {Op: opDel, K: "gone"}}
		return &effect{kind: "contract-writes", desc: fmt.Sprintf("P%d.run[%s]", s, planString(plan)),
			emit: func(bw *io.BinWriter) {
				appCall(bw, w.slotHash[s], "run", w.encode(s, plan))
				emit.Opcodes(bw, opcode.DROP)
			},
			prepare: func() any { return nil },
			check: func(any) string {
				_, _, kv := w.storageOfSlot(p.BC, s)
				for _, x := range []string{k + "=" + v, "w" + k + "=" + v} {
					if !contains(kv, x) {
						return fmt.Sprintf("storage of P%d lacks %s: %v", s, x, kv)
					}
				}
				return ""
			}}
	case 11:
		s := g.liveSlot()
		if s < 0 {
			return nil
		}
		_, ver, _ := w.storageOfSlot(p.BC, s)
		plan := []step{{Op: opPut, K: "upd", V: fmt.Sprint(r.Intn(100))}, {Op: opUpdate, X: 3 - ver, Data: true, Sub: []step{{Op: opPut, K: "cb", V: fmt.Sprint(r.Intn(100))}}}}
		return &effect{kind: "update", desc: fmt.Sprintf("P%d.run[%s]", s, planString(plan)),
			emit: func(bw *io.BinWriter) {
				appCall(bw, w.slotHash[s], "run", w.encode(s, plan))
				emit.Opcodes(bw, opcode.DROP)
			},
			prepare: func() any { return p.BC.GetContractState(w.slotHash[s]).UpdateCounter },
			check: func(b any) string {
				cs := p.BC.GetContractState(w.slotHash[s])
				if cs == nil || cs.UpdateCounter != b.(uint16)+1 {
					return "the update counter did not advance"
				}
				if _, v, _ := w.storageOfSlot(p.BC, s); v != 3-ver {
					return fmt.Sprintf("the contract is at version %d, expected %d", v, 3-ver)
				}
				return ""
			}}
	case 12:
		if r.Intn(2) != 0 {
			return nil
		}
		if g.doomed >= 0 {
			return nil
		}
		s := -1
		for i := 0; i < nBase; i++ {
			if !g.usedSlots[i] && p.BC.GetContractState(w.slotHash[i]) != nil && !w.isBlocked(w.slotHash[i]) {
				s = i
			}
		}
		if s < 0 {
			return nil
		}
		alive := 0
		for i := 0; i < nBase; i++ {
			if p.BC.GetContractState(w.slotHash[i]) != nil {
				alive++
			}
		}
		if alive < 2 {
			return nil
		}
		g.doomed = s
		plan := []step{{Op: opPut, K: "last", V: "1"}, {Op: opDestroy}}
		return &effect{kind: "destroy", desc: fmt.Sprintf("P%d.run[%s]", s, planString(plan)),
			emit: func(bw *io.BinWriter) {
				appCall(bw, w.slotHash[s], "run", w.encode(s, plan))
				emit.Opcodes(bw, opcode.DROP)
			},
			prepare: func() any { return nil },
			check: func(any) string {
				if p.BC.GetContractState(w.slotHash[s]) != nil {
					return "the destroyed contract still exists"
				}
				return ""
			}}
	case 13:
		amt := int64((1 + r.Intn(5)) * 1_0000_0000)
		till := int64(p.BC.BlockHeight())
		if x := int64(p.BC.GetNotaryDepositExpiration(u.Hash())); x > till {
			till = x
		}
		till += int64(6 + r.Intn(8))
		e := &effect{kind: "notary-deposit", desc: fmt.Sprintf("GAS.transfer(u%d -> Notary, %d, till %d)", g.u, amt, till), boolRes: true,
			emit: func(bw *io.BinWriter) { appCall(bw, p.GasH, "transfer", u.Hash(), p.NotaryH, amt, []any{nil, till}) }}
		e.prepare, e.check = deltaCheck("Notary deposit", func() *big.Int { return p.BC.GetUtilityTokenBalance(nativehashes.Notary, u.Hash()) }, amt)
		return e
	default:
		s := g.liveSlot()
		if s < 0 {
			return nil
		}
		amt := int64(1 + r.Intn(1000))
		k, v := "paidGAS", fmt.Sprint(r.Intn(1000))
		tok, tokName := p.GasH, "GAS"
		bal := func() *big.Int { return w.gasBal(w.slotHash[s]) }
		if r.Intn(3) == 0 && w.neoBal(u.Hash()).Int64() > 1000 {
			tok, tokName, amt, k = p.NeoH, "NEO", int64(1+r.Intn(5)), "paidNEO"
			bal = func() *big.Int { return w.neoBal(w.slotHash[s]) }
		}
		plan := []step{{Op: opPut, K: k, V: v}, {Op: opNotify, N: 7000 + r.Intn(100)}}
		e := &effect{kind: "pay-contract-" + tokName, desc: fmt.Sprintf("%s.transfer(u%d -> P%d, %d, cb=[%s])", tokName, g.u, s, amt, planString(plan)), boolRes: true,
			emit: func(bw *io.BinWriter) { appCall(bw, tok, "transfer", u.Hash(), w.slotHash[s], amt, w.encode(s, plan)) }}
		pre, chk := deltaCheck(tokName+" of the contract", bal, amt)
		e.prepare = pre
		e.check = func(b any) string {
			if tokName == "GAS" {
				// the contract may also receive a GAS claim: only NEO deltas are exact
				if bal().Cmp(new(big.Int).Add(b.(*big.Int), big.NewInt(amt))) < 0 {
					return "the contract did not receive the GAS"
				}
			} else if d := chk(b); d != "" {
				return d
			}
			if _, _, kv := w.storageOfSlot(p.BC, s); !contains(kv, k+"="+v) {
				return fmt.Sprintf("the payment callback's write %s=%s is missing: %v", k, v, kv)
			}
			return ""
		}
		return e
	}
}

func reverse(b []byte) []byte {
	r := bytes.Clone(b)
	for i, j := 0, len(r)-1; i < j; i, j = i+1, j-1 {
		r[i], r[j] = r[j], r[i]
	}
	return r
}

func contains(l []string, x string) bool {
	for _, y := range l {
		if x == y {
			return true
		}
	}
	return false
}

// emitFault writes the code that stops the execution.
func (g *twinGen) emitFault(bw *io.BinWriter, kind int) string {
	w, r := g.w, g.r
	switch kind {
	case fThrow:
		emit.Opcodes(bw, opcode.PUSH1, opcode.THROW)
	case fAbort:
		emit.Opcodes(bw, opcode.ABORT)
	case fAssert:
		emit.Opcodes(bw, opcode.PUSH0, opcode.ASSERT)
	case fDivZero:
		emit.Opcodes(bw, opcode.PUSH1, opcode.PUSH0, opcode.DIV)
	case fMissingContract:
		appCall(bw, util.Uint160{0xaa, 0xbb}, "run", []any{})
	case fContractThrow, fBadFlags:
		s := g.liveSlot()
		if s < 0 {
			emit.Opcodes(bw, opcode.PUSH1, opcode.THROW)
			return "throw"
		}
		plan := []step{{Op: opPut, K: "f1", V: "x"}, {Op: opNotify, N: 9000 + r.Intn(100)}, {Op: opCall, C: s, F: fAll, Sub: []step{{Op: opPut, K: "f2", V: "y"}}}, {Op: opThrow}}
		if kind == fBadFlags {
			plan = []step{{Op: opNotify, N: 9100}, {Op: opCall, C: s, F: fReadStates | fAllowCall, Sub: []step{{Op: opPut, K: "f3", V: "z"}}}}
		}
		appCall(bw, w.slotHash[s], "run", w.encode(s, plan))
		return fmt.Sprintf("P%d.run[%s]", s, planString(plan))
	case fCallbackThrow:
		s := g.liveSlot()
		if s < 0 {
			emit.Opcodes(bw, opcode.PUSH1, opcode.THROW)
			return "throw"
		}
		plan := []step{{Op: opPut, K: "cbf", V: "x"}, {Op: opNotify, N: 9200 + r.Intn(100)}, {Op: opThrow}}
		tok := w.A.GasH
		if r.Intn(3) == 0 && w.neoBal(g.user().Hash()).Sign() > 0 {
			tok = w.A.NeoH
		}
		appCall(bw, tok, "transfer", g.user().Hash(), w.slotHash[s], int64(1+r.Intn(3)), w.encode(s, plan))
		return fmt.Sprintf("transfer(u%d -> P%d, cb=[%s])", g.u, s, planString(plan))
	}
	return faultNames[kind]
}

// readers imitates RPC clients: it reads, through the exported getters and
// through test invocations, what the native caches answer, until stop is closed.
func (w *world) readers(run *ev.Run, stop chan struct{}, wg *sync.WaitGroup) {
	for _, bc := range []*core.Blockchain{w.A.BC, w.B} {
		wg.Add(1)
		go func() {
			defer wg.Done()
			script := w.probeScript()
			for i := 0; ; i++ {
				select {
				case <-stop:
					return
				default:
				}
				h := bc.BlockHeight()
				for _, u := range w.A.Users[:4] {
					_, _ = bc.CalculateClaimable(u.Hash(), h+1)
					_, _ = bc.GetGoverningTokenBalance(u.Hash())
					_ = bc.GetUtilityTokenBalance(u.Hash(), util.Uint160{})
					_ = bc.GetNotaryDepositExpiration(u.Hash())
				}
				_, _ = bc.GetEnrollments()
				_, _ = bc.GetCommittee()
				_ = bc.ComputeNextBlockValidators()
				_, _ = bc.GetNextBlockValidators()
				_, _, _ = bc.FeePerByte(), bc.GetStoragePrice(), bc.GetBaseExecFee()
				for s := 0; s < nSlots; s++ {
					_ = bc.GetContractState(w.slotHash[s])
				}
				for _, r := range []noderoles.Role{noderoles.StateValidator, noderoles.Oracle, noderoles.NeoFSAlphabet, noderoles.P2PNotary} {
					_, _, _ = bc.GetDesignatedByRole(r)
				}
				if i%4 == 0 {
					tx := transaction.New(script, 0)
					tx.Signers = []transaction.Signer{{Account: w.A.Users[4].Hash(), Scopes: transaction.Global}}
					if ic, err := bc.GetTestVM(trigger.Application, tx, nil); err == nil {
						ic.VM.LoadWithFlags(script, callflag.ReadOnly)
						_ = ic.VM.Run()
						ic.Finalize()
						run.Obs("race_concurrent_test_invocations", 1)
					}
				}
				run.Obs("race_concurrent_read_rounds", 1)
			}
		}()
	}
}

// twinSession runs n twin-block cases on one world. With concurrent set,
// reader goroutines query both nodes all along (for the race detector).
func twinSession(t *testing.T, run *ev.Run, si, n int, concurrent bool) *violation {
	w, err := newWorld(t, 1000+si)
	defer w.close()
	if err != nil {
		return setupFailure(run, "twins", si, err)
	}
	w.A.Cfg.Observe = false
	w.opts.MaxContractID = 22
	r := rng.New(uint64(si)*17 + 9000)
	p := w.A
	var history []string
	if concurrent {
		stop := make(chan struct{})
		var wg sync.WaitGroup
		w.readers(run, stop, &wg)
		defer func() { close(stop); wg.Wait() }()
		// a candidate without votes registers, then a faulting transaction
		// unregisters it (its GAS-per-vote record and cache entry are dropped)
		u := p.Users[0]
		if err := w.addPair([]*transaction.Transaction{p.Call("race-register", []neotest.Signer{u.S}, p.NeoH, "registerCandidate", u.Acc.PublicKey().Bytes())}, nil, nil, nil); err != nil {
			return &violation{"later-block-rejected", err.Error(), nil}
		}
		bw := io.NewBufBinWriter()
		appCall(bw.BinWriter, p.NeoH, "unregisterCandidate", u.Acc.PublicKey().Bytes())
		emit.Opcodes(bw.BinWriter, opcode.ASSERT, opcode.PUSH1, opcode.THROW)
		ta, tb, err := w.txPair("race-unregister-fault", []neotest.Signer{u.S}, bw.Bytes(), abortScript, 5_0000_0000)
		if err == nil {
			if err := w.addPair(nil, ta, tb, nil); err != nil {
				return &violation{"block-rejected", err.Error(), nil}
			}
			if name, d := diffObs(w.obsA(), w.obsB(), 0); name != "" {
				return &violation{"fault-vs-abort-twin:" + name, d, nil}
			}
		}
	}
	for k := 0; k < n; k++ {
		h0 := p.BC.BlockHeight()
		g := &twinGen{w: w, r: r, u: []int{0, 1, 5, 6}[r.Intn(4)], committeeOK: (h0+1)%vchain.Epoch != 0 && (h0+3)%vchain.Epoch != 0, usedSlots: map[int]bool{}, doomed: -1}
		if w.isBlocked(g.user().Hash()) {
			continue
		}
		ne := 1 + r.Intn(4)
		effs := g.effects(ne, map[string]bool{})
		if len(effs) == 0 {
			continue
		}
		kind := r.Intn(nFaults)
		at := r.Intn(len(effs) + 1) // effects executed before the fault
		if k%3 == 0 {
			at = len(effs) // late fault: everything was done
		}
		needCommittee := false
		for _, e := range effs {
			needCommittee = needCommittee || e.committee
		}
		signers := []neotest.Signer{g.user().S}
		if needCommittee {
			cs := p.CommitteeSigner()
			if cs == nil {
				run.Inconclusive("twins/s%d: no committee signer", si)
				return nil
			}
			signers = append(signers, cs)
		}
		// the faulting script
		bw := io.NewBufBinWriter()
		faultDesc := ""
		var names []string
		for i, e := range effs {
			if i == at && kind != fOutOfGas {
				faultDesc = g.emitFault(bw.BinWriter, kind)
			}
			e.emit(bw.BinWriter)
			if e.boolRes {
				emit.Opcodes(bw.BinWriter, opcode.DROP)
			}
			if i < at || kind == fOutOfGas {
				names = append(names, e.kind)
			}
		}
		if kind == fOutOfGas {
			at = len(effs)
			s := g.liveSlot()
			if s >= 0 {
				var plan []step
				for i := 0; i < 25; i++ {
					plan = append(plan, step{Op: opPut, K: fmt.Sprintf("g%d", i), V: "vvvvvvvvvvvvvvvvvvvvvvvv"})
				}
				appCall(bw.BinWriter, w.slotHash[s], "run", w.encode(s, plan))
			}
			faultDesc = faultNames[kind]
		} else if at == len(effs) {
			faultDesc = g.emitFault(bw.BinWriter, kind)
		}
		sFault := bw.Bytes()
		sysFee := int64(60_0000_0000)
		if kind == fOutOfGas {
			// measure the whole script, then grant only a part of it
			tx := transaction.New(sFault, 0)
			for _, sg := range signers {
				tx.Signers = append(tx.Signers, transaction.Signer{Account: sg.ScriptHash(), Scopes: transaction.Global})
			}
			v, err := p.E.TestInvoke(tx)
			if err != nil || v.GasConsumed() < 1000 {
				continue
			}
			sysFee = v.GasConsumed() * int64(20+r.Intn(78)) / 100
		}
		ta, tb, err := w.txPair("twin-fault", signers, sFault, abortScript, sysFee)
		if err != nil {
			run.Inconclusive("twins/s%d: %v", si, err)
			return nil
		}
		// surrounding common transactions
		var pre, post []*transaction.Transaction
		for range r.Intn(3) {
			pre = append(pre, w.commonTx(r, g.u))
		}
		for range r.Intn(3) {
			post = append(post, w.commonTx(r, g.u))
		}
		if r.Intn(2) == 0 {
			post = append(post, w.probeTx(4))
		}
		if r.Intn(3) == 0 {
			// the same sender acts again in the same block
			b2 := io.NewBufBinWriter()
			appCall(b2.BinWriter, p.GasH, "transfer", g.user().Hash(), w.sinks[0], int64(1+r.Intn(1000)), nil)
			emit.Opcodes(b2.BinWriter, opcode.ASSERT)
			post = append(post, p.Tx("same-sender-again", []neotest.Signer{g.user().S}, b2.Bytes(), 1_0000_0000))
		}
		var descs []string
		for _, e := range effs {
			descs = append(descs, e.desc)
		}
		desc := fmt.Sprintf("#%d u%d effects=%v fault=%s after %d effect(s) [%s] position=%d/%d", k, g.u, descs, faultNames[kind], at, faultDesc, len(pre), len(pre)+1+len(post))
		history = append(history, desc)
		wit := func(extra map[string]any) map[string]any {
			h := history
			if len(h) > 10 {
				h = h[len(h)-10:]
			}
			m := map[string]any{"session": si, "protocol": w.proto, "case": k, "description": desc, "height": p.BC.BlockHeight(), "script_hex": fmt.Sprintf("%x", sFault), "system_fee": sysFee, "session_so_far": h}
			for k, v := range extra {
				m[k] = v
			}
			return m
		}
		if err := w.addPair(pre, ta, tb, post); err != nil {
			return &violation{"block-rejected", err.Error(), wit(nil)}
		}
		aerA := aerOf(p.BC, ta.Hash())
		if aerA == nil {
			run.Inconclusive("twins/s%d: execution result missing", si)
			return nil
		}
		sort.Strings(names)
		run.Case(fmt.Sprintf("%v|%s|%d|%d/%d", names, faultNames[kind], at, len(pre), len(post)), at > 0)
		run.Obs("twin_blocks", 1)
		run.Obs("twin_effects_before_fault", int64(at))
		run.Obs("twin_fault_"+faultNames[kind], 1)
		for _, nm := range names {
			run.Obs("twin_effect_before_fault_"+nm, 1)
		}
		if k == 0 && si < 3 {
			run.Sample(map[string]any{"twin_session": si, "case": desc, "vm_state": aerA.VMState.String(), "fault": aerA.FaultException})
		}
		if aerA.VMState == vmstate.Halt {
			// the script did not fault (e.g. out of gas margin too large): nothing to compare
			run.Obs("twin_fault_script_halted", 1)
			run.Inconclusive("twins/s%d: the faulting script halted: %s", si, desc)
			return nil
		}
		if len(aerA.Events) != 0 {
			run.Obs("faulted_execution_results_listing_events", 1)
		}
		run.Obs("observations_compared", 1)
		if name, d := diffObs(w.obsA(), w.obsB(), len(pre)); name != "" {
			return &violation{"fault-vs-abort-twin:" + name, d, wit(map[string]any{"fault_exception": aerA.FaultException})}
		}
		// token movements of the faulted execution must not reach the node's
		// per-account transfer history either (transfer log, last-updated heights)
		if d, n, _ := vchain.DiffTransferHistories(w.A.BC, w.B, false); d != "" {
			return &violation{"fault-vs-abort-twin:token-transfer-history", d, wit(map[string]any{"fault_exception": aerA.FaultException})}
		} else {
			run.Obs("twin_transfer_histories_compared", int64(n))
		}
		// next block 1: common probes
		if err := w.addPair([]*transaction.Transaction{w.probeTx(4), w.commonTx(r, g.u)}, nil, nil, nil); err != nil {
			return &violation{"later-block-rejected", err.Error(), wit(nil)}
		}
		run.Obs("observations_compared", 1)
		if name, d := diffObs(w.obsA(), w.obsB(), -1); name != "" {
			return &violation{"fault-vs-abort-twin:next-block:" + name, d, wit(map[string]any{"fault_exception": aerA.FaultException})}
		}
		// next block 2: the halting version of the same effects, on both chains
		bh := io.NewBufBinWriter()
		for _, e := range effs {
			e.emit(bh.BinWriter)
			if e.boolRes {
				emit.Opcodes(bh.BinWriter, opcode.ASSERT)
			}
		}
		var before []any
		for _, e := range effs {
			before = append(before, e.prepare())
		}
		if needCommittee {
			cs := p.CommitteeSigner()
			if cs == nil {
				run.Inconclusive("twins/s%d: no committee signer", si)
				return nil
			}
			signers = []neotest.Signer{g.user().S, cs}
		}
		th, _, err := w.txPair("twin-halt", signers, bh.Bytes(), bh.Bytes(), 60_0000_0000)
		if err != nil {
			run.Inconclusive("twins/s%d: %v", si, err)
			return nil
		}
		if err := w.addPair([]*transaction.Transaction{th}, nil, nil, nil); err != nil {
			return &violation{"later-block-rejected", err.Error(), wit(nil)}
		}
		aerH := aerOf(p.BC, th.Hash())
		if aerH == nil {
			run.Inconclusive("twins/s%d: execution result missing", si)
			return nil
		}
		run.Obs("observations_compared", 1)
		if name, d := diffObs(w.obsA(), w.obsB(), -1); name != "" {
			return &violation{"fault-vs-abort-twin:second-next-block:" + name, d, wit(map[string]any{"fault_exception": aerA.FaultException})}
		}
		if aerH.VMState != vmstate.Halt {
			run.Obs("twin_halting_version_faulted", 1)
			run.Note(fmt.Sprintf("halting_version_faulted_s%d_%d", si, k), desc+": "+aerH.FaultException)
			continue
		}
		run.Obs("twin_halting_versions", 1)
		for i, e := range effs {
			run.Obs("halting_effects_checked_present", 1)
			if d := e.check(before[i]); d != "" {
				return &violation{"halting-effect-missing:" + e.kind, e.desc + ": " + d, wit(nil)}
			}
		}
	}
	return nil
}

// commonTx returns a halting transaction both chains get, signed by a user
// other than avoid.
func (w *world) commonTx(r *rng.R, avoid int) *transaction.Transaction {
	p := w.A
	for {
		switch r.Intn(6) {
		case 4, 5:
			// a halting plan that calls under try, with and without the callee
			// throwing: its result depends on nothing the previous transaction of
			// the block may have left in the reused VM
			s := -1
			for _, i := range r.Perm(nBase) {
				if p.BC.GetContractState(w.slotHash[i]) != nil && !w.isBlocked(w.slotHash[i]) {
					s = i
				}
			}
			if s < 0 {
				continue
			}
			v := fmt.Sprint(r.Intn(1000))
			plan := []step{{Op: opPut, K: "t0", V: v}, {Op: opTryCall, C: s, F: fAll, Sub: []step{{Op: opPut, K: "t1", V: v}, {Op: opNotify, N: 6000 + r.Intn(100)}}},
				{Op: opTryCall, C: s, F: fAll, Sub: []step{{Op: opPut, K: "t2", V: v}, {Op: opNotify, N: 6100}, {Op: opThrow}}},
				{Op: opLocalTry, Sub: []step{{Op: opCall, C: s, F: fAll, Sub: []step{{Op: opPut, K: "t3", V: v}}}, {Op: opNotify, N: 6200}}}, {Op: opNotify, N: 6300}}
			bw := io.NewBufBinWriter()
			call := io.NewBufBinWriter()
			appCall(call.BinWriter, w.slotHash[s], "run", w.encode(s, plan))
			bw.BinWriter.WriteBytes(wrapCall([]int{wPlain, wTryCatch, wTryFinallyOnly}[r.Intn(3)], call.Bytes()))
			return p.Tx("side-try-plan", []neotest.Signer{p.Users[3].S}, bw.Bytes(), 10_0000_0000)
		case 0:
			return w.smallTransfer(3, 4, int64(1+r.Intn(100)))
		case 1:
			return w.smallTransfer(4, 3, int64(1+r.Intn(100)))
		case 2:
			u := 2 + r.Intn(2)
			if u == avoid || w.isBlocked(p.Users[u].Hash()) {
				continue
			}
			en, _ := p.BC.GetEnrollments()
			if len(en) == 0 {
				continue
			}
			bw := io.NewBufBinWriter()
			appCall(bw.BinWriter, p.NeoH, "vote", p.Users[u].Hash(), en[r.Intn(len(en))].Key.Bytes())
			return p.Tx("side-vote", []neotest.Signer{p.Users[u].S}, bw.Bytes(), 2_0000_0000)
		default:
			u := 2 + r.Intn(2)
			bw := io.NewBufBinWriter()
			appCall(bw.BinWriter, p.NeoH, "transfer", p.Users[u].Hash(), p.Users[7].Hash(), int64(1+r.Intn(50)), nil)
			return p.Tx("side-neo-transfer", []neotest.Signer{p.Users[u].S}, bw.Bytes(), 2_0000_0000)
		}
	}
}

package c04

import (
	"strings"
	"sync"
	"testing"

	"github.com/nspcc-dev/neo-go/pkg/compiler"
	"github.com/nspcc-dev/neo-go/pkg/core/state"
	"github.com/nspcc-dev/neo-go/pkg/neotest"
	"github.com/nspcc-dev/neo-go/pkg/smartcontract"
	"github.com/nspcc-dev/neo-go/pkg/smartcontract/manifest"
	"github.com/nspcc-dev/neo-go/pkg/util"
)

// planSrc is the generic plan interpreter. It is written with plain for / if
// only (DESIGN.md section 6: `range` and `switch` temporaries stay on the
// evaluation stack when a panic is recovered by an outer frame).
//
// A plan is an array of steps; a step is an array whose first element is the
// operation code (see the op* constants in plan_test.go).
const planSrc = `package plan

import (
	"github.com/nspcc-dev/neo-go/pkg/interop"
	"github.com/nspcc-dev/neo-go/pkg/interop/contract"
	"github.com/nspcc-dev/neo-go/pkg/interop/native/gas"
	"github.com/nspcc-dev/neo-go/pkg/interop/native/management"
	"github.com/nspcc-dev/neo-go/pkg/interop/native/neo"
	"github.com/nspcc-dev/neo-go/pkg/interop/native/policy"
	"github.com/nspcc-dev/neo-go/pkg/interop/native/roles"
	"github.com/nspcc-dev/neo-go/pkg/interop/runtime"
	"github.com/nspcc-dev/neo-go/pkg/interop/storage"
	"github.com/nspcc-dev/neo-go/pkg/interop/util"
)

func _deploy(data any, isUpdate bool) {
	if data != nil {
		exec(data.([]any))
	}
}

// Run executes a plan.
func Run(plan []any) {
	exec(plan)
}

// OnNEP17Payment runs the plan passed as data (if any).
func OnNEP17Payment(from interop.Hash160, amount int, data any) {
	if data != nil {
		exec(data.([]any))
	}
}

func exec(plan []any) {
	for i := 0; i < len(plan); i++ {
		step := plan[i].([]any)
		op := step[0].(int)
		if op == 0 {
			// the value is a Buffer of this frame; changing it after the put
			// must not reach the storage (the put took a copy)
			v := step[2].([]byte)
			storage.Put(storage.GetContext(), step[1].([]byte), v)
			if len(v) > 0 {
				v[0] = v[0] ^ 0x5a
			}
		} else if op == 1 {
			storage.Delete(storage.GetContext(), step[1].([]byte))
		} else if op == 2 {
			runtime.Notify("ev", step[1].(int))
		} else if op == 3 {
			contract.Call(step[1].(interop.Hash160), "run", contract.CallFlag(step[2].(int)), step[3])
		} else if op == 4 {
			callTry(step[1].(interop.Hash160), step[2].(int), step[3])
		} else if op == 5 {
			panic("planned throw")
		} else if op == 6 {
			localTry(step[1].([]any))
		} else if op == 7 {
			util.Abort()
		} else if op == 8 {
			gas.Transfer(runtime.GetExecutingScriptHash(), step[1].(interop.Hash160), step[2].(int), step[3])
		} else if op == 9 {
			neo.Transfer(runtime.GetExecutingScriptHash(), step[1].(interop.Hash160), step[2].(int), step[3])
		} else if op == 10 {
			if step[1] == nil {
				neo.Vote(runtime.GetExecutingScriptHash(), nil)
			} else {
				neo.Vote(runtime.GetExecutingScriptHash(), step[1].(interop.PublicKey))
			}
		} else if op == 11 {
			sub := step[1].(int)
			if sub == 0 {
				policy.SetFeePerByte(step[2].(int))
			} else if sub == 1 {
				policy.SetStoragePrice(step[2].(int))
			} else if sub == 2 {
				policy.SetAttributeFee(policy.AttributeType(step[2].(int)), step[3].(int))
			} else if sub == 3 {
				neo.SetGASPerBlock(step[2].(int))
			} else {
				neo.SetRegisterPrice(step[2].(int))
			}
		} else if op == 12 {
			policy.BlockAccount(step[1].(interop.Hash160))
		} else if op == 13 {
			policy.UnblockAccount(step[1].(interop.Hash160))
		} else if op == 14 {
			neo.RegisterCandidate(step[1].(interop.PublicKey))
		} else if op == 15 {
			neo.UnregisterCandidate(step[1].(interop.PublicKey))
		} else if op == 16 {
			roles.DesignateAsRole(roles.Role(step[1].(int)), step[2].([]interop.PublicKey))
		} else if op == 17 {
			management.DeployWithData(step[1].([]byte), step[2].([]byte), step[3])
		} else if op == 18 {
			management.UpdateWithData(step[1].([]byte), step[2].([]byte), step[3])
		} else if op == 19 {
			management.Destroy()
		} else if op == 20 {
			callInFinally(step[1].(interop.Hash160), step[2].(int), step[3])
		}
	}
}

// callTry makes the call inside a TRY block: the exception of the callee is
// caught here.
func callTry(h interop.Hash160, f int, sub any) {
	defer func() {
		recover()
	}()
	contract.Call(h, "run", contract.CallFlag(f), sub)
}

// localTry runs a sub-plan of this contract inside a TRY block that sits in
// another context (internal CALL) of the same contract invocation.
func localTry(sub []any) {
	defer func() {
		recover()
	}()
	exec(sub)
}

// The compiler does not support closures: the deferred function reads the
// call parameters from static fields (one set per contract invocation).
var (
	finH   interop.Hash160
	finF   int
	finSub any
)

// callInFinally makes the call from the finally part of an exception handler
// whose try part has already thrown (and been caught).
func callInFinally(h interop.Hash160, f int, sub any) {
	finH = h
	finF = f
	finSub = sub
	defer func() {
		if r := recover(); r != nil {
			contract.Call(finH, "run", contract.CallFlag(finF), finSub)
		}
	}()
	panic("enter the handler")
}
`

var (
	planOnce sync.Once
	planV1   *neotest.Contract
	planV2   *neotest.Contract
)

func planOpts() *compiler.Options {
	return &compiler.Options{
		Name:               "plan",
		NoPermissionsCheck: true,
		NoEventsCheck:      true,
		NoStandardCheck:    true,
		Permissions:        []manifest.Permission{*manifest.NewPermission(manifest.PermissionWildcard)},
		ContractEvents: []compiler.HybridEvent{{Name: "ev", Parameters: []compiler.HybridParameter{
			{Parameter: manifest.Parameter{Name: "x", Type: smartcontract.IntegerType}}}}},
	}
}

// planContract returns the compiled plan interpreter (version 1, or version 2
// which has one more method) under the given manifest name as deployed by
// sender.
func planContract(t testing.TB, sender util.Uint160, name string, version int) *neotest.Contract {
	planOnce.Do(func() {
		planV1 = neotest.CompileSource(t, util.Uint160{}, strings.NewReader(planSrc), planOpts())
		src2 := planSrc + "\n// Version is only present after an update.\nfunc Version() int {\n\treturn 2\n}\n"
		planV2 = neotest.CompileSource(t, util.Uint160{}, strings.NewReader(src2), planOpts())
	})
	base := planV1
	if version == 2 {
		base = planV2
	}
	m := *base.Manifest
	m.Name = name
	c := &neotest.Contract{NEF: base.NEF, Manifest: &m, DebugInfo: base.DebugInfo}
	c.Hash = state.CreateContractHash(sender, c.NEF.Checksum, name)
	return c
}

package c04

import (
	"encoding/json"
	"fmt"
	"github.com/nspcc-dev/neo-go/pkg/config"
	"os"
	"strings"
	"testing"

	"github.com/nspcc-dev/neo-go/pkg/core"
	"github.com/nspcc-dev/neo-go/pkg/core/state"
	"github.com/nspcc-dev/neo-go/pkg/core/storage"
	"github.com/nspcc-dev/neo-go/pkg/core/transaction"
	"github.com/nspcc-dev/neo-go/pkg/io"
	"github.com/nspcc-dev/neo-go/pkg/neotest"
	"github.com/nspcc-dev/neo-go/pkg/smartcontract"
	"github.com/nspcc-dev/neo-go/pkg/smartcontract/callflag"
	"github.com/nspcc-dev/neo-go/pkg/smartcontract/trigger"
	"github.com/nspcc-dev/neo-go/pkg/util"
	"github.com/nspcc-dev/neo-go/pkg/vm/emit"
	"github.com/nspcc-dev/neo-go/pkg/vm/opcode"
	"github.com/nspcc-dev/neo-go/verifharness/vlib/vchain"
)

const (
	nSlots      = 6 // plan interpreter instances: 0..2 deployed at set-up, 3..5 deployable by plans
	nBase       = 3
	nDummies    = 5 // accounts that only exist to be blocked / unblocked
	nPreBlocked = 3 // the last ones are blocked at set-up
)

// world is a pair of chains with identical history: A executes the
// transaction under test, B the reference transaction.
type world struct {
	t     testing.TB
	idx   int
	proto string
	h     *vchain.History
	A     *vchain.Producer
	B     *core.Blockchain
	eB    *neotest.Executor
	opts  vchain.ObsOpts
	nonce uint32

	slotHash [nSlots]util.Uint160
	nef      [3][]byte         // by version
	man      [nSlots][3][]byte // by slot and version
	sinks    []util.Uint160
	dummies  []util.Uint160
	roleKeys [][]byte
	log      []string // what was executed, for witnesses
}

func (w *world) close() {
	if w.A != nil {
		w.A.Close()
	}
	if w.B != nil {
		w.B.Close()
	}
}

// newWorld builds the common history: the governance bootstrap of
// vchain.BuildHistory (10 funded users, 8 candidates, 8 voters above the
// turnout threshold) followed by the deployment and funding of the plan
// interpreter contracts.
// nodeError marks a set-up failure that is a misbehaviour of the node (the
// set-up is a fixed script that passes on a correct node), not of the harness.
type nodeError struct {
	kind string
	err  error
}

func (e *nodeError) Error() string { return e.kind + ": " + e.err.Error() }

// partialForks returns a protocol configuration with the stable hardforks
// enabled from genesis only up to and including stage ("none": none of them).
func partialForks(stage string) func(*config.Blockchain) {
	return func(c *config.Blockchain) {
		c.MaxTraceableBlocks = 10
		c.MaxValidUntilBlockIncrement = 5
		m := map[string]uint32{}
		if stage != "none" {
			for _, hf := range config.StableHardforks {
				m[hf.String()] = 0
				if hf.String() == stage {
					break
				}
			}
		}
		if len(m) == 0 {
			m[config.StableHardforks[0].String()] = 1 << 30
		}
		c.Hardforks = m
	}
}

func newWorld(t testing.TB, idx int, stage ...string) (w *world, err error) {
	defer func() {
		if x := recover(); x != nil {
			err = fmt.Errorf("set-up panic: %v", x)
		}
	}()
	w = &world{t: t, idx: idx}
	hc := vchain.HistoryCfg{Idx: idx, Blocks: 4, NoQuiet: true}
	if len(stage) > 0 && stage[0] != "" {
		hc.Proto, hc.PName = partialForks(stage[0]), "forks-up-to-"+stage[0]
	} else if name, _ := vchain.ProtoFor(idx); strings.HasPrefix(name, "forks-up-to-") {
		// the effect catalogues of the twin sessions assume every native contract
		// is active: partial-hardfork chains are used only where asked for
		hc.PName, hc.Proto = vchain.ProtoFor(idx + 1)
	}
	w.h = vchain.BuildHistory(t, hc)
	w.A = w.h.P
	w.proto = w.h.PName
	if w.A.Rejected != nil {
		return w, &nodeError{"producer-rejected-own-block", w.A.Rejected}
	}
	w.nonce = 1 << 20
	p := w.A
	u0 := p.Users[0]
	for v := 1; v <= 2; v++ {
		c := planContract(t, u0.Hash(), "plan-0", v)
		w.nef[v], _ = c.NEF.Bytes()
	}
	for s := 0; s < nSlots; s++ {
		for v := 1; v <= 2; v++ {
			c := planContract(t, u0.Hash(), fmt.Sprintf("plan-%d", s), v)
			w.man[s][v], _ = json.Marshal(c.Manifest)
			if v == 1 {
				w.slotHash[s] = c.Hash
			}
		}
	}
	for k := 0; k < 3; k++ {
		w.sinks = append(w.sinks, util.Uint160{0xe0 + byte(k), 0x51})
	}
	for k := 0; k < nDummies; k++ {
		// interleaved with the contract hashes in the sorted list of blocked accounts
		w.dummies = append(w.dummies, util.Uint160{0x18 + 0x30*byte(k), 0x77})
	}
	for k := 0; k < 6; k++ {
		w.roleKeys = append(w.roleKeys, vchain.DetKey("role", k).PublicKey().Bytes())
	}
	// set-up block 1 (height 5, still the standby committee): cheap candidate
	// registration, some blocked accounts, base contracts
	var txs []*transaction.Transaction
	cs := w.committee()
	if cs == nil {
		return w, fmt.Errorf("no committee signer")
	}
	txs = append(txs, p.Call("setup-register-price", cs, p.NeoH, "setRegisterPrice", int64(1000_0000)))
	for k := nDummies - nPreBlocked; k < nDummies; k++ {
		txs = append(txs, p.Call("setup-block-account", cs, p.PolH, "blockAccount", w.dummies[k]))
	}
	for s := 0; s < nBase; s++ {
		if os.Getenv("C04_SETUP_FIXED_FEES") != "" {
			// diagnostic knob: no test invocation of the set-up deployments
			sc, _ := smartcontract.CreateCallScript(p.MgmtH, "deploy", w.nef[1], w.man[s][1], nil)
			txs = append(txs, p.Tx("setup-deploy", []neotest.Signer{u0.S}, sc, 40_0000_0000))
			continue
		}
		txs = append(txs, p.Call("setup-deploy", []neotest.Signer{u0.S}, p.MgmtH, "deploy", w.nef[1], w.man[s][1], nil))
	}
	if p.AddBlock(txs...) == nil {
		return w, &nodeError{"producer-rejected-own-block", p.Rejected}
	}
	// set-up block 2: the contracts get GAS and NEO
	txs = nil
	for s := 0; s < nBase; s++ {
		txs = append(txs, p.Call("setup-fund-gas", []neotest.Signer{u0.S}, p.GasH, "transfer", u0.Hash(), w.slotHash[s], int64(1000_0000_0000), nil))
		u := p.Users[2+s]
		txs = append(txs, p.Call("setup-fund-neo", []neotest.Signer{u.S}, p.NeoH, "transfer", u.Hash(), w.slotHash[s], int64(20000+7000*s), nil))
	}
	if p.AddBlock(txs...) == nil {
		return w, &nodeError{"producer-rejected-own-block", p.Rejected}
	}
	for _, kl := range p.KindLog[len(p.KindLog)-2:] {
		for _, k := range kl {
			if !strings.HasSuffix(k, ":HALT") {
				return w, &nodeError{"set-up-transaction-faulted:" + strings.TrimSuffix(k, ":FAULT"), fmt.Errorf("a set-up transaction that halts on a correct node faulted (it was test-invoked before being sealed): %s", k)}
			}
		}
	}
	// the twin
	bc, val, com, err := vchain.OpenChain(t, false, w.h.Proto, storage.NewMemoryStore())
	if err != nil {
		return w, err
	}
	w.B = bc
	w.eB = neotest.NewExecutor(t, bc, val, com)
	for i, raw := range p.Raw {
		b, err := vchain.DecodeBlock(raw, false)
		if err != nil {
			return w, err
		}
		if err := bc.AddBlock(b); err != nil {
			return w, &nodeError{"twin-rejects-set-up-block", fmt.Errorf("block %d: %w", i+1, err)}
		}
	}
	w.opts = p.ObsOpts()
	w.opts.MaxContractID = 14
	for s := 0; s < nSlots; s++ {
		w.opts.Accounts = append(w.opts.Accounts, w.slotHash[s])
	}
	w.opts.Accounts = append(w.opts.Accounts, w.sinks...)
	w.opts.Accounts = append(w.opts.Accounts, w.dummies...)
	if d := w.obsA().Diff(w.obsB()); d != "" {
		return w, &nodeError{"twin-differs-after-set-up", fmt.Errorf("%s", d)}
	}
	return w, nil
}

func (w *world) obsA() *vchain.Observation { return vchain.Observe(w.A.BC, w.opts) }
func (w *world) obsB() *vchain.Observation { return vchain.Observe(w.B, w.opts) }

// committee returns [validators (payer), current committee].
func (w *world) committee() []neotest.Signer {
	cs := w.A.CommitteeSigner()
	if cs == nil {
		return nil
	}
	return []neotest.Signer{w.A.Val, cs}
}

func (w *world) target(c int) util.Uint160 {
	if c >= 0 {
		return w.slotHash[c]
	}
	return w.sinks[(-1-c)%len(w.sinks)]
}

func (w *world) dummy(c int) util.Uint160 {
	if c >= 0 {
		return w.slotHash[c]
	}
	return w.dummies[(-1-c)%len(w.dummies)]
}

// encode turns a plan into the argument of the contract's run method. cur is
// the slot executing it (update steps carry that slot's manifest).
func (w *world) encode(cur int, plan []step) []any {
	out := []any{}
	for _, p := range plan {
		data := func(c int) any {
			if !p.Data {
				return nil
			}
			return w.encode(c, p.Sub)
		}
		switch p.Op {
		case opPut:
			out = append(out, []any{opPut, []byte(p.K), []byte(p.V)})
		case opDel:
			out = append(out, []any{opDel, []byte(p.K)})
		case opNotify:
			out = append(out, []any{opNotify, p.N})
		case opCall, opTryCall, opFinCall:
			out = append(out, []any{p.Op, w.slotHash[p.C], p.F, w.encode(p.C, p.Sub)})
		case opThrow, opAbort, opDestroy:
			out = append(out, []any{p.Op})
		case opLocalTry:
			out = append(out, []any{opLocalTry, w.encode(cur, p.Sub)})
		case opGasXfer, opNeoXfer:
			out = append(out, []any{p.Op, w.target(p.C), p.N, data(p.C)})
		case opVote:
			if p.X < 0 {
				out = append(out, []any{opVote, nil})
			} else {
				out = append(out, []any{opVote, w.A.Users[p.X].Acc.PublicKey().Bytes()})
			}
		case opPolicy:
			if p.X == 2 {
				out = append(out, []any{opPolicy, p.X, p.Y, p.N})
			} else {
				out = append(out, []any{opPolicy, p.X, p.N})
			}
		case opBlock, opUnblock:
			out = append(out, []any{p.Op, w.dummy(p.C)})
		case opRegister, opUnregister:
			out = append(out, []any{p.Op, w.A.Users[p.X].Acc.PublicKey().Bytes()})
		case opDesignate:
			var ks []any
			for _, k := range p.Keys {
				ks = append(ks, w.roleKeys[k])
			}
			out = append(out, []any{opDesignate, p.X, ks})
		case opDeploy:
			out = append(out, []any{opDeploy, w.nef[1], w.man[p.C][1], data(p.C)})
		case opUpdate:
			out = append(out, []any{opUpdate, w.nef[p.X], w.man[cur][p.X], data(cur)})
		}
	}
	return out
}

func le32(v int) []byte { return []byte{byte(v), byte(v >> 8), byte(v >> 16), byte(v >> 24)} }

func tryl(catch, finally int) []byte {
	return append(append([]byte{byte(opcode.TRYL)}, le32(catch)...), le32(finally)...)
}
func endtryl(off int) []byte { return append([]byte{byte(opcode.ENDTRYL)}, le32(off)...) }

// wrapCall wraps the bytes of one contract call into the exception handling
// construct w (offsets are relative to the start of the instruction).
func wrapCall(wr int, call []byte) []byte {
	var s []byte
	cat := func(bs ...[]byte) []byte {
		var r []byte
		for _, b := range bs {
			r = append(r, b...)
		}
		return r
	}
	drop := []byte{byte(opcode.DROP)}
	throw := []byte{byte(opcode.PUSH1), byte(opcode.THROW)}
	nop := []byte{byte(opcode.NOP)}
	endfin := []byte{byte(opcode.ENDFINALLY)}
	switch wr {
	case wPlain:
		s = call
	case wTryCatch:
		// TRYL catch; call; ENDTRYL end; catch: DROP; ENDTRYL end; end:
		body := cat(call, endtryl(5+1+5))
		s = cat(tryl(9+len(body), 0), body, drop, endtryl(5))
	case wInCatch:
		// TRYL catch; PUSH1 THROW; catch: DROP; call; ENDTRYL end
		s = cat(tryl(9+len(throw), 0), throw, drop, call, endtryl(5))
	case wInCatchOuter:
		// TRYL c2 { TRYL c1 f1 { THROW } c1: DROP call ENDTRYL->f1.. } ...
		innerCatch := cat(drop, call, endtryl(5+1)) // ENDTRYL with a finally: runs the finally block, then continues after it
		inner := cat(tryl(9+len(throw), 9+len(throw)+len(innerCatch)), throw, innerCatch, endfin)
		body := cat(inner, endtryl(5+1+5))
		s = cat(tryl(9+len(body), 0), body, drop, endtryl(5))
	case wInFinally:
		// TRYL 0 fin { NOP; ENDTRYL end } fin: call; ENDFINALLY; end:
		body := cat(nop, endtryl(5+len(call)+1))
		s = cat(tryl(0, 9+len(body)), body, call, endfin)
	case wAfterTry:
		body := cat(nop, endtryl(5+1+5))
		s = cat(tryl(9+len(body), 0), body, drop, endtryl(5), call)
	case wTryFinallyOnly:
		body := cat(call, endtryl(5+1))
		s = cat(tryl(0, 9+len(body)), body, endfin)
	}
	return s
}

// entryScript builds the transaction script of a root plan.
func (w *world) entryScript(root []step) []byte {
	var s []byte
	for _, p := range root {
		bw := io.NewBufBinWriter()
		emit.AppCall(bw.BinWriter, w.slotHash[p.C], "run", callflag.CallFlag(p.F), w.encode(p.C, p.Sub))
		s = append(s, wrapCall(p.W, bw.Bytes())...)
	}
	if len(s) == 0 {
		s = []byte{byte(opcode.PUSH1)}
	}
	return append(s, byte(opcode.RET))
}

// txPair builds two transactions with the same signers, nonce, validity and
// fees and different scripts.
func (w *world) txPair(kind string, signers []neotest.Signer, s1, s2 []byte, sysFee int64) (*transaction.Transaction, *transaction.Transaction, error) {
	w.nonce++
	var txs [2]*transaction.Transaction
	var net int64
	for i, s := range [][]byte{s1, s2} {
		tx := transaction.New(s, sysFee)
		tx.Nonce = w.nonce
		tx.ValidUntilBlock = w.A.BC.BlockHeight() + 1
		for _, sg := range signers {
			tx.Signers = append(tx.Signers, transaction.Signer{Account: sg.ScriptHash(), Scopes: transaction.Global})
		}
		neotest.AddNetworkFee(w.t, w.A.BC, tx, signers...)
		if tx.NetworkFee > net {
			net = tx.NetworkFee
		}
		txs[i] = tx
	}
	for _, tx := range txs {
		tx.NetworkFee = net + 1000_0000
		for _, sg := range signers {
			if err := sg.SignTx(w.A.BC.GetConfig().Magic, tx); err != nil {
				return nil, nil, err
			}
		}
		w.A.TxKinds[tx.Hash()] = kind
	}
	return txs[0], txs[1], nil
}

// addPair adds the next block to both chains: common transactions around
// position pos, where A gets ta and B gets tb.
func (w *world) addPair(pre []*transaction.Transaction, ta, tb *transaction.Transaction, post []*transaction.Transaction) error {
	var la, lb []*transaction.Transaction
	la = append(la, pre...)
	lb = append(lb, pre...)
	if ta != nil {
		la = append(la, ta)
		lb = append(lb, tb)
	}
	la = append(la, post...)
	lb = append(lb, post...)
	return w.addLists(la, lb)
}

// addLists adds the next block to both chains with the given transactions.
func (w *world) addLists(la, lb []*transaction.Transaction) error {
	if w.A.AddBlock(la...) == nil {
		return fmt.Errorf("chain A: %v", w.A.Rejected)
	}
	b := w.eB.NewUnsignedBlock(w.t, lb...)
	w.eB.SignBlock(b)
	if err := w.B.AddBlock(b); err != nil {
		return fmt.Errorf("chain B rejects block %d: %w", b.Index, err)
	}
	return nil
}

func skipName(n string, skipTx []int) bool {
	switch n {
	case "current_block_hash", "header_hash_at_height", "tip_block":
		return true
	}
	for _, x := range skipTx {
		if x >= 0 && n == fmt.Sprintf("tx_aer:%d", x) {
			return true
		}
	}
	return false
}

// diffObs compares two observations ignoring block hashes (the blocks hold
// different transactions) and the execution result of the transaction under
// test. It returns the normalised name of the most specific differing field
// and a description.
func diffObs(a, b *vchain.Observation, skipTx ...int) (string, string) {
	if a.Height != b.Height {
		return "height", fmt.Sprintf("height %d vs %d", a.Height, b.Height)
	}
	first, detail := "", ""
	var all []string
	for i := range a.Names {
		if i >= len(b.Names) || a.Names[i] != b.Names[i] {
			return "fields", "field lists differ at " + a.Names[i]
		}
		if skipName(a.Names[i], skipTx) || a.Vals[i] == b.Vals[i] {
			continue
		}
		n := a.Names[i]
		all = append(all, n)
		if j := strings.IndexByte(n, ':'); j > 0 && !strings.HasPrefix(n[j+1:], "-") {
			n = n[:j]
		}
		root := n == "state_root" || n == "local_state_root"
		if first == "" || (!root && (first == "state_root" || first == "local_state_root")) {
			first, detail = n, fmt.Sprintf("%s: %.400s vs %.400s", a.Names[i], a.Vals[i], b.Vals[i])
		}
	}
	if first == "" {
		return "", ""
	}
	return first, fmt.Sprintf("%s; all differing fields: %v", detail, all)
}

func aerOf(bc *core.Blockchain, h util.Uint256) *state.AppExecResult {
	as, err := bc.GetAppExecResults(h, trigger.Application)
	if err != nil || len(as) != 1 {
		return nil
	}
	return &as[0]
}

func eventsString(a *state.AppExecResult) []string {
	var r []string
	for _, e := range a.Events {
		r = append(r, fmt.Sprintf("%s:%s:%s", e.ScriptHash.StringLE()[:8], e.Name, vchain.ItemString(e.Item)))
	}
	return r
}

// storageOfSlot dumps the storage of the contract in slot s ("" keys sorted).
func (w *world) storageOfSlot(bc *core.Blockchain, s int) (exists bool, ver int, kv []string) {
	cs := bc.GetContractState(w.slotHash[s])
	if cs == nil {
		return false, 0, nil
	}
	ver = 1
	if cs.Manifest.ABI.GetMethod("version", 0) != nil {
		ver = 2
	}
	for _, e := range vchain.StorageOf(bc, cs.ID) {
		kv = append(kv, string(e.K)+"="+string(e.V))
	}
	return true, ver, kv
}

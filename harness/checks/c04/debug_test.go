package c04

import (
	"fmt"
	"os"
	"testing"

	"github.com/nspcc-dev/neo-go/pkg/util"
	"github.com/nspcc-dev/neo-go/pkg/vm"
	"github.com/nspcc-dev/neo-go/pkg/vm/opcode"
)

func TestDebugDump(t *testing.T) {
	if os.Getenv("C04_DEBUG") == "" {
		t.Skip()
	}
	c := planContract(t, util.Uint160{}, "x", 1)
	fmt.Println("script len", len(c.NEF.Script))
	for _, m := range c.Manifest.ABI.Methods {
		fmt.Println(m.Name, m.Offset)
	}
	v := vm.New()
	v.LoadScript(c.NEF.Script)
	ctx := v.Context()
	for {
		ip := ctx.NextIP()
		if ip >= len(c.NEF.Script) {
			break
		}
		op, par, err := ctx.Next()
		if err != nil {
			break
		}
		if op == opcode.SYSCALL || op == opcode.CALL || op == opcode.CALLL || op == opcode.TRY || op == opcode.TRYL || op == opcode.ENDTRY || op == opcode.ENDFINALLY || op == opcode.THROW || op == opcode.RET || op == opcode.CALLT || op == opcode.INITSLOT || ip > 1000 && ip < 1100 {
			fmt.Printf("%d %s %x\n", ip, op, par)
		}
	}
}

// Package c04 decides property C04 (failed execution leaves no trace:
// transaction atomicity and exception rollback) with two oracles that need no
// expected values: a reference interpreter of call-tree plans, and twin chains
// on which the transaction under test is replaced by a reference transaction
// (a lone ABORT for a faulting one, the pruned plan for a halting one).
package c04

import (
	"fmt"
	"os"
	"runtime"
	"sort"
	"strings"
	"sync"
	"testing"

	"github.com/nspcc-dev/neo-go/pkg/core/transaction"
	"github.com/nspcc-dev/neo-go/pkg/io"
	"github.com/nspcc-dev/neo-go/pkg/neotest"
	"github.com/nspcc-dev/neo-go/pkg/smartcontract/callflag"
	"github.com/nspcc-dev/neo-go/pkg/util"
	"github.com/nspcc-dev/neo-go/pkg/vm/emit"
	"github.com/nspcc-dev/neo-go/pkg/vm/opcode"
	"github.com/nspcc-dev/neo-go/pkg/vm/vmstate"
	"github.com/nspcc-dev/neo-go/verifharness/vlib/ev"
	"github.com/nspcc-dev/neo-go/verifharness/vlib/rng"
)

var abortScript = []byte{byte(opcode.ABORT)}

func structSig(p []step) string {
	var sb strings.Builder
	for _, s := range p {
		sb.WriteString(opNames[s.Op])
		if s.Op == opCall || s.Op == opTryCall || s.Op == opFinCall {
			fmt.Fprintf(&sb, "%d/%d/%d", s.C, s.F, s.W)
		}
		if len(s.Sub) > 0 || s.Data {
			sb.WriteString("[" + structSig(s.Sub) + "]")
		}
		sb.WriteByte(' ')
	}
	return sb.String()
}

func heavySteps(p []step) int {
	n := 0
	for _, s := range p {
		if s.Op == opDeploy || s.Op == opUpdate {
			n++
		}
		n += heavySteps(s.Sub)
	}
	return n
}

// probeScript reads, inside a transaction, what the native contracts answer
// from their caches: policy values, blocked accounts, candidates, account
// states, roles, contract existence.
func (w *world) probeScript() []byte {
	bw := io.NewBufBinWriter()
	p := w.A
	n := 0
	call := func(h util.Uint160, m string, args ...any) {
		emit.AppCall(bw.BinWriter, h, m, callflag.ReadOnly, args...)
		n++
	}
	call(p.PolH, "getFeePerByte")
	call(p.PolH, "getStoragePrice")
	call(p.PolH, "getExecFeeFactor")
	for _, a := range []int{0x20, 0x21, 0x22} {
		call(p.PolH, "getAttributeFee", a)
	}
	for _, d := range w.dummies {
		call(p.PolH, "isBlocked", d)
	}
	for s := 0; s < nSlots; s++ {
		call(p.PolH, "isBlocked", w.slotHash[s])
		call(p.MgmtH, "isContract", w.slotHash[s])
		call(p.MgmtH, "hasMethod", w.slotHash[s], "version", 0)
		call(p.NeoH, "getAccountState", w.slotHash[s])
		call(p.NeoH, "unclaimedGas", w.slotHash[s], int64(p.BC.BlockHeight()+1))
		call(p.GasH, "balanceOf", w.slotHash[s])
	}
	call(p.NeoH, "getCandidates")
	call(p.NeoH, "getCommittee")
	call(p.NeoH, "getNextBlockValidators")
	call(p.NeoH, "getGasPerBlock")
	call(p.NeoH, "getRegisterPrice")
	for _, u := range p.Users[:4] {
		call(p.NeoH, "getCandidateVote", u.Acc.PublicKey().Bytes())
		call(p.NeoH, "getAccountState", u.Hash())
	}
	for _, r := range []int{4, 8, 16, 32} {
		call(p.RoleH, "getDesignatedByRole", r, int64(p.BC.BlockHeight()+1))
	}
	for _, s := range w.sinks {
		call(p.GasH, "balanceOf", s)
		call(p.NeoH, "balanceOf", s)
	}
	emit.Int(bw.BinWriter, int64(n))
	emit.Opcodes(bw.BinWriter, opcode.PACK)
	return bw.Bytes()
}

func (w *world) probeTx(u int) *transaction.Transaction {
	return w.A.Tx("probe", []neotest.Signer{w.A.Users[u].S}, w.probeScript(), 20_0000_0000)
}

func (w *world) smallTransfer(from, to int, amt int64) *transaction.Transaction {
	p := w.A
	bw := io.NewBufBinWriter()
	emit.AppCall(bw.BinWriter, p.GasH, "transfer", callflag.All, p.Users[from].Hash(), p.Users[to].Hash(), amt, nil)
	emit.Opcodes(bw.BinWriter, opcode.ASSERT)
	return p.Tx("side-transfer", []neotest.Signer{p.Users[from].S}, bw.Bytes(), 1_0000_0000)
}

type violation struct {
	sig, detail string
	witness     map[string]any
}

// planSession runs nPlans random plans on one world and returns the first
// violation (the chains are out of step afterwards).
func planSession(t *testing.T, run *ev.Run, si, nPlans int) *violation {
	// one session in six runs on a chain with only the older hardforks enabled
	stage := ""
	if si%6 == 5 {
		stage = []string{"none", "Aspidochelone", "Cockatrice", "Echidna"}[(si/6)%4]
	}
	w, err := newWorld(t, si, stage)
	defer w.close()
	if err != nil {
		return setupFailure(run, "plans", si, err)
	}
	w.A.Cfg.Observe = false
	run.Obs("plan_sessions_on_"+w.proto, 1)
	r := rng.New(uint64(si)*13 + 7000)
	m := newModel(nSlots)
	m.funded = nBase
	for s := 0; s < nBase; s++ {
		m.exists[s] = true
	}
	for k := nDummies - nPreBlocked; k < nDummies; k++ {
		m.blocked[-1-k] = true
	}
	var history []string
	for k := 0; k < nPlans; k++ {
		committee := r.Intn(7) != 0
		// precede: a faulting transaction of another sender sits right before the
		// plan in the same block (the block's VM is reused); the plan should then
		// halt and make calls under try, with and without the callee throwing.
		precede := r.Intn(20) < 7
		var (
			root, pruned []step
			work         *model
			res          result
		)
		for attempt := 0; ; attempt++ {
			g := &gen{r: r, cfg: genCfg{slots: nSlots, base: nBase, users: 10, dummies: nDummies, maxDepth: 4, natives: r.Intn(5) != 0, committee: committee, oldForks: stage != ""}, m: m}
			if x := r.Intn(20); x < 3 {
				root = g.shaped(7) // notify-only callees under reduced flags
			} else if x < 8 {
				root = g.shaped(r.Intn(nShapes))
			} else {
				root = g.root()
			}
			work = m.clone()
			work.committee = committee
			work.desig = map[int]bool{}
			work.stats = &planStats{}
			res, pruned = work.run(rootSlot, fAll, root, false, 0)
			if res != rUnmodelled {
				if precede && attempt < 30 && (res != rOK || work.stats.wrappedOK == 0 || (k%2 == 0 && work.stats.caughtAtCaller+work.stats.caughtAtAncestor == 0)) {
					continue
				}
				break
			}
			run.Obs("plans_regenerated_unmodelled", 1)
			if attempt > 50 {
				run.Inconclusive("plans/s%d: generator cannot produce a modelled plan", si)
				return nil
			}
		}
		wantFault := res != rOK
		st := work.stats
		signers := []neotest.Signer{w.A.Users[0].S, w.A.Users[1].S}
		if committee {
			cs := w.A.CommitteeSigner()
			if cs == nil {
				run.Inconclusive("plans/s%d: no committee signer", si)
				return nil
			}
			signers = append(signers, cs)
		}
		sA := w.entryScript(root)
		sB := abortScript
		if !wantFault {
			sB = w.entryScript(pruned)
		}
		if len(sA) > 60000 || len(sB) > 60000 {
			run.Obs("plans_skipped_too_big", 1)
			continue
		}
		sysFee := int64(40+25*heavySteps(root)) * 1_0000_0000
		outOfGas := false
		if x := r.Intn(10); x < 4 && !precede {
			// chain A alone test-invokes the script first (as an RPC client would):
			// a discarded execution must leave nothing behind either
			tx := transaction.New(sA, sysFee)
			tx.ValidUntilBlock = w.A.BC.BlockHeight() + 1
			for _, sg := range signers {
				tx.Signers = append(tx.Signers, transaction.Signer{Account: sg.ScriptHash(), Scopes: transaction.Global})
			}
			v, terr := w.A.E.TestInvoke(tx)
			run.Obs("plans_test_invoked_on_one_chain_first", 1)
			if x < 2 && terr == nil && !wantFault && v.GasConsumed() > 2000_0000 {
				// grant only a part of the GAS the plan needs: it runs dry somewhere in the middle
				sysFee = v.GasConsumed() * int64(10+r.Intn(85)) / 100
				outOfGas, wantFault, sB = true, true, abortScript
				res = rAbort
				run.Obs("plans_out_of_gas_in_the_middle", 1)
			}
		}
		sameTwin := precede && !wantFault && r.Intn(2) == 0
		if sameTwin {
			sB = sA // the twin differs in the preceding transaction only
		}
		ta, tb, err := w.txPair("plan", signers, sA, sB, sysFee)
		if err != nil {
			run.Inconclusive("plans/s%d: %v", si, err)
			return nil
		}
		var fa, fb *transaction.Transaction
		precDesc := ""
		if precede {
			var fs []byte
			var fee int64
			fs, fee, precDesc = w.faultingScript(r, m)
			fa, fb, err = w.txPair("preceding-fault", []neotest.Signer{w.A.Users[6].S}, fs, abortScript, fee)
			if err != nil {
				run.Inconclusive("plans/s%d: %v", si, err)
				return nil
			}
		}
		var pre, post []*transaction.Transaction
		if r.Intn(3) == 0 {
			pre = append(pre, w.smallTransfer(3, 4, int64(1+r.Intn(100))))
		}
		if r.Intn(3) == 0 {
			post = append(post, w.probeTx(5))
		}
		if r.Intn(4) == 0 {
			post = append(post, w.smallTransfer(4, 3, int64(1+r.Intn(100))))
		}
		desc := fmt.Sprintf("#%d committee=%v oog=%v preceded-by=[%s] want=%s: %s", k, committee, outOfGas, precDesc, map[bool]string{true: "FAULT", false: "HALT"}[wantFault], planString(root))
		history = append(history, desc)
		wit := func(extra map[string]any) map[string]any {
			h := history
			if len(h) > 12 {
				h = h[len(h)-12:]
			}
			m := map[string]any{"session": si, "protocol": w.proto, "plan_index": k, "plan": planString(root), "pruned": planString(pruned), "reference_result": map[bool]string{true: "FAULT", false: "HALT"}[wantFault],
				"height": w.A.BC.BlockHeight(), "position_in_block": len(pre), "system_fee": sysFee, "out_of_gas_variant": outOfGas, "preceding_faulting_tx_in_block": precDesc, "twin_runs_the_same_plan": sameTwin, "script_hex": fmt.Sprintf("%x", sA), "session_so_far": h}
			for k, v := range extra {
				m[k] = v
			}
			return m
		}
		la := append([]*transaction.Transaction{}, pre...)
		lb := append([]*transaction.Transaction{}, pre...)
		skip := []int{len(pre)}
		if precede {
			la, lb = append(la, fa), append(lb, fb)
			skip = []int{len(pre), len(pre) + 1}
			if sameTwin {
				skip = skip[:1] // the plan's execution result must be identical too
			}
		}
		la, lb = append(append(la, ta), post...), append(append(lb, tb), post...)
		if err := w.addLists(la, lb); err != nil {
			return &violation{"block-rejected", err.Error(), wit(nil)}
		}
		sfx := ""
		vio := func(sig, detail string, wt map[string]any) *violation { return &violation{sig + sfx, detail, wt} }
		if precede {
			sfx = ":preceded-by-faulted-tx"
			run.Obs("plans_preceded_by_faulting_tx_in_block", 1)
			run.Obs("preceding_fault_"+strings.SplitN(precDesc, ":", 2)[0], 1)
			if af := aerOf(w.A.BC, fa.Hash()); af == nil || af.VMState == vmstate.Halt {
				run.Inconclusive("plans/s%d #%d: the preceding transaction did not fault: %s", si, k, precDesc)
				return nil
			}
			if !wantFault {
				run.Obs("plans_halting_after_faulted_tx_calls_under_try_returned", int64(st.wrappedOK))
				run.Obs("plans_halting_after_faulted_tx_calls_under_try_thrown", int64(st.caughtAtCaller+st.caughtAtAncestor))
			}
		}
		aerA, aerB := aerOf(w.A.BC, ta.Hash()), aerOf(w.B, tb.Hash())
		if aerA == nil || aerB == nil {
			run.Inconclusive("plans/s%d: execution result missing", si)
			return nil
		}
		gotFault := aerA.VMState != vmstate.Halt
		// evidence
		features := fmt.Sprintf("fault=%v rb=%v anc=%v nat=%v cb=%v", wantFault, st.rollbacks > 0, st.caughtAtAncestor > 0, st.nativeRolledBack > 0, st.callbackThrows > 0)
		nontrivial := st.rollbacks > 0 || (wantFault && countSteps(root) > 2)
		run.Case(structSig(root)+features, nontrivial)
		run.Obs("plans_executed", 1)
		if gotFault {
			run.Obs("plans_faulted", 1)
			if res == rAbort {
				run.Obs("plans_faulted_uncatchable", 1)
			} else {
				run.Obs("plans_faulted_uncaught_throw", 1)
			}
		} else {
			run.Obs("plans_halted", 1)
		}
		run.Obs("plan_rollbacks_in_reference", int64(st.rollbacks))
		run.Obs("plan_exceptions_caught_by_caller", int64(st.caughtAtCaller))
		run.Obs("plan_exceptions_caught_by_enclosing_frame", int64(st.caughtAtAncestor))
		run.Obs("plan_native_ops", int64(st.nativeOps))
		run.Obs("plan_rolled_back_calls_with_native_effects", int64(st.nativeRolledBack))
		run.Obs("plan_callback_throws", int64(st.callbackThrows))
		run.Obs("plan_calls", int64(st.calls))
		run.Obs("plan_calls_with_notify_but_no_write_flags", int64(st.notifyOnlyCalls))
		run.Obs("plan_calls_with_notify_but_no_write_flags_from_reduced_caller", int64(st.notifyOnlyNested))
		run.Obs("plan_notify_only_callee_exceptions_caught_by_caller", int64(st.notifyOnlyCaughtAtCaller))
		run.Obs("plan_notify_only_callee_exceptions_caught_by_enclosing_frame", int64(st.notifyOnlyCaughtAtAncestor))
		run.Obs("plan_notify_only_callee_notifications_rolled_back", int64(st.notifyOnlyNotesRolledBack))
		run.ObsMax("plan_max_depth", int64(st.maxDepth))
		for f, on := range map[string]bool{"shape_try_only_in_callers_caller": st.grandCallerOnly, "shape_try_ended_before_call": st.tryEndedBeforeCall, "shape_call_from_catch_or_finally": st.callFromFinally, "shape_reentrancy_with_open_try": st.reentrantOpenTry, "shape_native_callback_throws": st.callbackThrows > 0} {
			if on {
				run.Obs(f, 1)
			}
		}
		for op, n := range st.ops {
			if n > 0 && isNative(op) {
				run.Obs("plan_op_"+opNames[op], int64(n))
			}
		}
		if k == 0 && si < 3 {
			run.Sample(map[string]any{"session": si, "protocol": w.proto, "plan": planString(root), "pruned_twin": planString(pruned), "reference": map[bool]string{true: "FAULT", false: "HALT"}[wantFault], "chain": aerA.VMState.String()})
		}
		// 1. HALT / FAULT
		if gotFault != wantFault {
			if !wantFault && aerB.VMState != vmstate.Halt {
				// the pruned plan faults as well: the reference mispredicted a
				// native call, nothing to conclude about rollback.
				run.Obs("reference_mispredicted_native_failure", 1)
				run.Note(fmt.Sprintf("mispredicted_s%d_%d", si, k), map[string]any{"plan": planString(root), "fault_a": aerA.FaultException, "fault_b": aerB.FaultException})
				continue
			}
			if outOfGas {
				// it got by with less GAS than the test invocation used: nothing to
				// conclude about rollback, and the chains are out of step now
				run.Inconclusive("plans/s%d #%d: out-of-gas variant halted", si, k)
				return nil
			}
			sig := "plan:halt-expected-but-faulted"
			if wantFault {
				sig = "plan:fault-expected-but-halted"
			}
			return vio(sig, fmt.Sprintf("reference says %v, chain says %s (%s)", map[bool]string{true: "FAULT", false: "HALT"}[wantFault], aerA.VMState, aerA.FaultException), wit(map[string]any{"fault_exception": aerA.FaultException}))
		}
		if !wantFault && aerB.VMState != vmstate.Halt {
			run.Obs("reference_pruned_plan_faulted", 1)
			run.Inconclusive("plans/s%d #%d: pruned plan faulted (%s) while the plan halted: %s", si, k, aerB.FaultException, planString(root))
			return nil
		}
		if wantFault && aerB.VMState == vmstate.Halt {
			run.Inconclusive("plans/s%d: ABORT transaction halted", si)
			return nil
		}
		// 2. chain A against the reference
		exp := m
		if !wantFault {
			exp = work
		}
		for s := 0; s < nSlots; s++ {
			ex, ver, kv := w.storageOfSlot(w.A.BC, s)
			if ex != exp.exists[s] {
				return vio("plan-vs-reference:contract-existence", fmt.Sprintf("contract P%d exists=%v, reference says %v", s, ex, exp.exists[s]), wit(nil))
			}
			if !ex {
				continue
			}
			if ver != exp.ver[s] {
				return vio("plan-vs-reference:contract-version", fmt.Sprintf("contract P%d has version %d, reference says %d", s, ver, exp.ver[s]), wit(nil))
			}
			want := sortedKV(exp.st[s])
			if strings.Join(kv, ";") != strings.Join(want, ";") {
				return vio("plan-vs-reference:storage:"+classify(kv, want, wantFault), fmt.Sprintf("storage of P%d: chain %v, reference %v", s, kv, want), wit(map[string]any{"contract": s, "chain_storage": kv, "reference_storage": want}))
			}
		}
		run.Obs("storages_compared_with_reference", nSlots)
		var gotN []string
		for _, e := range aerA.Events {
			if e.Name != "ev" {
				continue
			}
			slot := -1
			for s := 0; s < nSlots; s++ {
				if w.slotHash[s] == e.ScriptHash {
					slot = s
				}
			}
			arr, _ := e.Item.Value().([]stackitemItem)
			v := "?"
			if len(arr) == 1 {
				if bi, err := arr[0].TryInteger(); err == nil {
					v = bi.String()
				}
			}
			gotN = append(gotN, fmt.Sprintf("%d:%s", slot, v))
		}
		if !wantFault {
			if strings.Join(gotN, ",") != strings.Join(work.notes, ",") {
				return vio("plan-vs-reference:notifications:"+classify(gotN, work.notes, false), fmt.Sprintf("notifications: chain %v, reference %v", gotN, work.notes), wit(map[string]any{"chain_notifications": gotN, "reference_notifications": work.notes}))
			}
			run.Obs("notifications_compared_with_reference", int64(len(gotN)))
			ea, eb := eventsString(aerA), eventsString(aerB)
			if strings.Join(ea, ",") != strings.Join(eb, ",") {
				return vio("plan-vs-pruned-twin:events:"+classify(ea, eb, false), fmt.Sprintf("all notifications incl. native ones: plan %v, pruned plan %v", ea, eb), wit(map[string]any{"plan_events": ea, "pruned_events": eb}))
			}
			run.Obs("events_compared_with_pruned_twin", int64(len(ea)))
		} else if len(aerA.Events) != 0 {
			run.Obs("faulted_execution_results_listing_events", 1)
		}
		// 3. chain A against the twin
		oa, ob := w.obsA(), w.obsB()
		run.Obs("observations_compared", 1)
		if name, d := diffObs(oa, ob, skip...); name != "" {
			twin := "pruned-twin"
			if wantFault {
				twin = "abort-twin"
			} else if sameTwin {
				twin = "same-plan-twin"
			}
			return vio("plan-vs-"+twin+":"+name, d, wit(nil))
		}
		if !wantFault {
			work.notes, work.stats = nil, nil
			m = work
		}
		// 4. a common block whose results depend on the native caches
		if k%3 == 2 || k == nPlans-1 {
			if err := w.addPair([]*transaction.Transaction{w.probeTx(5), w.smallTransfer(3, 4, 5)}, nil, nil, nil); err != nil {
				return &violation{"later-block-rejected", err.Error(), wit(nil)}
			}
			run.Obs("observations_compared", 1)
			run.Obs("probe_blocks", 1)
			if name, d := diffObs(w.obsA(), w.obsB(), -1); name != "" {
				return &violation{"later-block-diverged:" + name, d, wit(nil)}
			}
		}
	}
	return nil
}

// faultingScript builds a transaction script that faults in one of the ways
// that leave different things behind in the VM the block reuses for the next
// transaction. It returns the script, its system fee and "kind: description".
func (w *world) faultingScript(r *rng.R, m *model) ([]byte, int64, string) {
	bw := io.NewBufBinWriter()
	p := w.A
	live := -1
	for _, s := range r.Perm(nSlots) {
		if m.exists[s] && !m.blocked[s] {
			live = s
		}
	}
	kind := r.Intn(9)
	if live < 0 && (kind == 1 || kind == 4 || kind == 6 || kind == 7) {
		kind = 0
	}
	fee := int64(10_0000_0000)
	// an effect first, so that the fault discards something
	emit.AppCall(bw.BinWriter, p.GasH, "transfer", callflag.All, p.Users[6].Hash(), w.sinks[0], int64(1+r.Intn(1000)), nil)
	emit.Opcodes(bw.BinWriter, opcode.DROP)
	callPlan := func(plan []step, wr int) {
		b2 := io.NewBufBinWriter()
		emit.AppCall(b2.BinWriter, w.slotHash[live], "run", callflag.All, w.encode(live, plan))
		bw.BinWriter.WriteBytes(wrapCall(wr, b2.Bytes()))
	}
	put := step{Op: opPut, K: "pf", V: fmt.Sprint(r.Intn(100))}
	ntf := step{Op: opNotify, N: 8000 + r.Intn(100)}
	desc := ""
	switch kind {
	case 0:
		desc = "entry-throw: GAS transfer, then an uncaught THROW in the entry script"
		emit.Opcodes(bw.BinWriter, opcode.PUSH1, opcode.THROW)
	case 1:
		plan := []step{put, ntf, {Op: opCall, C: live, F: fAll, Sub: []step{put, {Op: opThrow}}}}
		desc = "callee-throw: no handler anywhere: " + planString(plan)
		callPlan(plan, wPlain)
	case 2:
		desc = "abort: ABORT"
		emit.Opcodes(bw.BinWriter, opcode.ABORT)
	case 3:
		desc = "interop-error: call to a missing contract"
		emit.AppCall(bw.BinWriter, util.Uint160{0xaa, 0xcc}, "run", callflag.All, []any{})
	case 4:
		var plan []step
		for i := 0; i < 25; i++ {
			plan = append(plan, step{Op: opPut, K: fmt.Sprintf("g%d", i), V: "vvvvvvvvvvvvvvvvvvvvvvvv"})
		}
		desc = "out-of-gas: in the middle of 25 writes"
		callPlan(plan, wPlain)
		fee = int64(300_0000 + r.Intn(1500_0000))
	case 5:
		desc = "vm-range-error: uncaught catchable PICKITEM out of range"
		emit.Opcodes(bw.BinWriter, opcode.NEWARRAY0, opcode.PUSH0, opcode.PICKITEM)
	case 6:
		plan := []step{put, ntf, {Op: opThrow}}
		desc = "rethrown-by-finally: TRY { callee throws } FINALLY { }: " + planString(plan)
		callPlan(plan, wTryFinallyOnly)
	case 7:
		plan := []step{put, {Op: opLocalTry, Sub: []step{ntf, {Op: opThrow}}}, {Op: opTryCall, C: live, F: fAll, Sub: []step{put, {Op: opThrow}}}, ntf, {Op: opThrow}}
		desc = "throw-after-caught-throws: " + planString(plan)
		callPlan(plan, wPlain)
	default:
		desc = "assert: ASSERT false inside an open TRY"
		bw.BinWriter.WriteBytes(wrapCall(wTryCatch, []byte{byte(opcode.PUSH0), byte(opcode.ASSERT)}))
	}
	return bw.Bytes(), fee, desc
}

// setupFailure turns a failed set-up into a violation when the node misbehaved
// on the fixed set-up script, and into an inconclusive note otherwise.
func setupFailure(run *ev.Run, part string, si int, err error) *violation {
	if ne, ok := err.(*nodeError); ok {
		run.Case("setup:"+ne.kind, true)
		return &violation{"setup:" + ne.kind, ne.err.Error(), map[string]any{"session": si, "part": part}}
	}
	run.Inconclusive("%s/s%d: set-up failed: %v", part, si, err)
	return nil
}

// classify names the direction of a difference between what the chain holds
// and what it should hold.
func classify(got, want []string, faulted bool) string {
	in := func(l []string, x string) bool {
		for _, y := range l {
			if x == y {
				return true
			}
		}
		return false
	}
	extra, missing := false, false
	for _, g := range got {
		if !in(want, g) {
			extra = true
		}
	}
	for _, x := range want {
		if !in(got, x) {
			missing = true
		}
	}
	switch {
	case extra && faulted:
		return "effect-of-faulted-execution-present"
	case extra && missing:
		return "discarded-effect-present-and-kept-effect-missing"
	case extra:
		return "discarded-effect-present"
	case missing:
		return "kept-effect-missing"
	}
	return "order-or-count"
}

func TestCheck(t *testing.T) {
	run := ev.Start("C04", "plans: a case is one random call-tree plan (put / delete / notify / native effect / deploy-update-destroy / call [in try] with flags / throw / abort; depth <= 4, fan-out <= 3, seven entry-script try/catch/finally wrappers) executed in one transaction by the plan interpreter contracts and compared with the reference interpreter (storage per contract, ordered notifications, HALT/FAULT) and with a twin chain executing the pruned plan (HALT) or a lone ABORT (FAULT); distinct by the plan's operation tree; non-trivial if the reference rolled back at least one call or the plan faulted after effects. twins: a case is one block holding a scripted faulting transaction (native / contract effects, then a fault of some kind) at a random position, compared with the twin block holding ABORT instead, through the full observation of that block and of the following blocks, then the halting version of the same effects is checked for presence; distinct by (effects, fault kind, position); non-trivial if the faulting transaction executed at least one effect before the fault")
	defer run.Finish()
	run.Assume("the plan interpreter contract is compiled by pkg/compiler (for / if only); a compiler defect would show as a disagreement to triage")
	run.Assume("the reference transaction of a twin has the same signers, nonce, validity and fees; block hashes and the execution result of the replaced transaction are excluded from the comparison")
	run.Assume("native calls that fail for reasons the reference does not model are detected by the pruned twin faulting too and counted as reference_mispredicted_native_failure, never as violations")
	part := os.Getenv("VERIF_PART")
	if part == "" {
		part = "all"
	}
	workers := runtime.NumCPU() / 2
	if workers < 2 {
		workers = 2
	}
	if part == "all" || part == "plans" {
		perSession := 12
		nSessions := ev.Pick(64, 9000)
		runSessions(t, run, "plans", nSessions, workers, func(si int) *violation { return planSession(t, run, si, perSession) })
	}
	if part == "all" || part == "twins" {
		perSession := 8
		nSessions := ev.Pick(12, 900)
		runSessions(t, run, "twins", nSessions, workers, func(si int) *violation { return twinSession(t, run, si, perSession, false) })
	}
	if part == "race" {
		// the twin workload under the race detector with concurrent readers: a
		// native cache layer that shares a container with the layer below it is
		// written by a (discarded) execution while RPC-like readers use it.
		nSessions := ev.Pick(5, 90)
		runSessions(t, run, "race", nSessions, 3, func(si int) *violation { return twinSession(t, run, 500+si, 6, true) })
	}
}

func runSessions(t *testing.T, run *ev.Run, kind string, n, workers int, f func(si int) *violation) {
	var wg sync.WaitGroup
	ch := make(chan int)
	for i := 0; i < workers; i++ {
		wg.Add(1)
		go func() {
			defer wg.Done()
			for si := range ch {
				id := fmt.Sprintf("%s/s%d", kind, si)
				if !run.Want(id) {
					continue
				}
				if v := f(si); v != nil {
					run.Violation(v.sig, id, v.detail, v.witness)
				}
				run.Obs(kind+"_sessions", 1)
			}
		}()
	}
	for si := 0; si < n; si++ {
		ch <- si
	}
	close(ch)
	wg.Wait()
}

var _ = sort.Strings

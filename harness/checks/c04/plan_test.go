package c04

import (
	"fmt"
	"sort"
	"strings"

	"github.com/nspcc-dev/neo-go/verifharness/vlib/rng"
)

// Operation codes understood by the plan interpreter contract.
const (
	opPut = iota
	opDel
	opNotify
	opCall    // call contract C with flags F, plan Sub
	opTryCall // the same inside a TRY block of the caller
	opThrow
	opLocalTry // run Sub in this contract inside a TRY block of another frame
	opAbort
	opGasXfer // GAS held by the contract -> C (slot or sink), callback plan Sub
	opNeoXfer
	opVote
	opPolicy
	opBlock
	opUnblock
	opRegister
	opUnregister
	opDesignate
	opDeploy
	opUpdate
	opDestroy
	opFinCall // call made from the finally part of a handler that already caught
	nOps
)

var opNames = [...]string{"put", "del", "ntf", "call", "trycall", "throw", "localtry", "abort", "gasxfer", "neoxfer", "vote", "policy", "block", "unblock", "register", "unregister", "designate", "deploy", "update", "destroy", "fincall"}

// Call flags.
const (
	fReadStates  = 1
	fWriteStates = 2
	fAllowCall   = 4
	fAllowNotify = 8
	fAll         = 15
)

// Entry script wrappers of a root call.
const (
	wPlain          = iota // call
	wTryCatch              // TRY { call } CATCH { }
	wInCatch               // TRY { throw } CATCH { call }: handler is in catch state, not wrapped
	wInCatchOuter          // TRY { TRY { throw } CATCH { call } FINALLY { } } CATCH { }: an outer try is open
	wInFinally             // TRY { } FINALLY { call }
	wAfterTry              // TRY { } CATCH { } ; call: the try has ended before the call
	wTryFinallyOnly        // TRY { call } FINALLY { }: rolled back and rethrown
	nWrappers
)

var wrapperNames = [...]string{"plain", "try-catch", "in-catch", "in-catch-outer-try", "in-finally", "after-try", "try-finally-only"}

func wrapperCatches(w int) bool { return w == wTryCatch || w == wInCatchOuter }

// step is one plan step.
type step struct {
	Op   int
	K, V string // put / delete
	N    int    // notify value, amount, policy value
	C    int    // contract slot; for transfers and block/unblock C<0 is sink/dummy account -1-C
	F    int    // call flags
	W    int    // wrapper (root calls only)
	X    int    // policy setter kind, role, target version, user index
	Y    int    // attribute type
	Keys []int  // designated key indices
	Data bool   // transfers / deploy / update: pass Sub as data (callback plan)
	Sub  []step
}

func (s step) String() string {
	sub := func() string { return "[" + planString(s.Sub) + "]" }
	tgt := func() string {
		if s.C < 0 {
			return fmt.Sprintf("acc%d", -1-s.C)
		}
		return fmt.Sprintf("P%d", s.C)
	}
	switch s.Op {
	case opPut:
		return fmt.Sprintf("put(%s=%s)", s.K, s.V)
	case opDel:
		return fmt.Sprintf("del(%s)", s.K)
	case opNotify:
		return fmt.Sprintf("ntf(%d)", s.N)
	case opCall, opTryCall, opFinCall:
		w := ""
		if s.W != 0 {
			w = "<" + wrapperNames[s.W] + ">"
		}
		return fmt.Sprintf("%s%s(%s,f=%d)%s", opNames[s.Op], w, tgt(), s.F, sub())
	case opLocalTry:
		return "localtry" + sub()
	case opGasXfer, opNeoXfer:
		d := ""
		if s.Data {
			d = ",cb=" + sub()
		}
		return fmt.Sprintf("%s(%s,%d%s)", opNames[s.Op], tgt(), s.N, d)
	case opVote:
		return fmt.Sprintf("vote(u%d)", s.X)
	case opPolicy:
		return fmt.Sprintf("policy(%d,%d,%d)", s.X, s.Y, s.N)
	case opBlock, opUnblock:
		return fmt.Sprintf("%s(%s)", opNames[s.Op], tgt())
	case opRegister, opUnregister:
		return fmt.Sprintf("%s(u%d)", opNames[s.Op], s.X)
	case opDesignate:
		return fmt.Sprintf("designate(%d,%v)", s.X, s.Keys)
	case opDeploy:
		d := ""
		if s.Data {
			d = ",cb=" + sub()
		}
		return fmt.Sprintf("deploy(P%d%s)", s.C, d)
	case opUpdate:
		d := ""
		if s.Data {
			d = ",cb=" + sub()
		}
		return fmt.Sprintf("update(v%d%s)", s.X, d)
	}
	return opNames[s.Op]
}

func planString(p []step) string {
	var sb strings.Builder
	for i, s := range p {
		if i > 0 {
			sb.WriteByte(' ')
		}
		sb.WriteString(s.String())
	}
	return sb.String()
}

// model is the reference state the plan semantics works on.
type model struct {
	st      []map[string]string // storage per contract slot
	exists  []bool
	dead    []bool // destroyed for good (hash blocked, never redeployed here)
	ver     []int
	blocked map[int]bool // slot (>=0) or dummy account (-1-k)
	desig   map[int]bool // roles designated in the current block
	notes   []string     // "slot:value" of every surviving "ev" notification
	// structural (not part of snapshots)
	active    []int
	committee bool
	funded    int // slots below hold GAS and NEO
	hops      int // contract frames the current exception has left so far
	stats     *planStats
}

type planStats struct {
	rollbacks, caughtAtCaller, caughtAtAncestor, callbackThrows, nativeOps, nativeRolledBack, calls, maxDepth int
	// calls whose effective flags allow notifications but no storage writes
	wrappedOK                                                                                                          int // calls under an open try that returned normally
	notifyOnlyCalls, notifyOnlyCaughtAtCaller, notifyOnlyCaughtAtAncestor, notifyOnlyNotesRolledBack, notifyOnlyNested int
	reentrantOpenTry, tryEndedBeforeCall, callFromFinally, grandCallerOnly                                             bool
	ops                                                                                                                [nOps]int
}

func newModel(slots int) *model {
	m := &model{blocked: map[int]bool{}, desig: map[int]bool{}}
	for i := 0; i < slots; i++ {
		m.st = append(m.st, map[string]string{})
		m.exists = append(m.exists, false)
		m.dead = append(m.dead, false)
		m.ver = append(m.ver, 1)
		m.active = append(m.active, 0)
	}
	return m
}

type snapshot struct {
	st      []map[string]string
	exists  []bool
	dead    []bool
	ver     []int
	blocked map[int]bool
	desig   map[int]bool
	nnotes  int
}

func (m *model) snap() *snapshot {
	s := &snapshot{exists: append([]bool{}, m.exists...), dead: append([]bool{}, m.dead...), ver: append([]int{}, m.ver...), blocked: map[int]bool{}, desig: map[int]bool{}, nnotes: len(m.notes)}
	for _, mm := range m.st {
		c := make(map[string]string, len(mm))
		for k, v := range mm {
			c[k] = v
		}
		s.st = append(s.st, c)
	}
	for k, v := range m.blocked {
		s.blocked[k] = v
	}
	for k, v := range m.desig {
		s.desig[k] = v
	}
	return s
}

func (m *model) restore(s *snapshot) {
	m.st, m.exists, m.dead, m.ver, m.blocked, m.desig = s.st, s.exists, s.dead, s.ver, s.blocked, s.desig
	m.notes = m.notes[:s.nnotes]
	if m.stats != nil {
		m.stats.rollbacks++
	}
}

// clone returns an independent copy of the state (fresh notification list).
func (m *model) clone() *model {
	c := &model{committee: m.committee, funded: m.funded}
	c.restore(m.snap())
	c.notes = nil
	c.active = make([]int, len(m.active))
	return c
}

type result int

const (
	rOK result = iota
	rThrow
	rAbort
	rUnmodelled
)

const rootSlot = -1

func isNative(op int) bool { return op >= opGasXfer && op <= opDestroy }

// run is the reference semantics. It executes plan as contract cur holding
// call flags, hasTry telling whether some frame of this contract invocation
// has an open TRY block. It returns how the frame ended and the *pruned* plan:
// the steps that survive, with every rolled back call removed and no try left.
//
// The rule: every cross-contract call takes a snapshot; when an exception
// leaves the callee the snapshot is restored iff the calling contract catches
// the exception — the call itself sits in a try, or an enclosing frame of the
// same contract invocation does. A try inside one contract never undoes that
// contract's own earlier writes. Exceptions leaving a callback invoked by a
// native contract, missing call flags, calls to absent or blocked contracts
// and ABORT are not catchable: the transaction faults.
func (m *model) run(cur, flags int, plan []step, hasTry bool, depth int) (result, []step) {
	var out []step
	if m.stats != nil && depth > m.stats.maxDepth {
		m.stats.maxDepth = depth
	}
	for idx, p := range plan {
		if m.stats != nil {
			m.stats.ops[p.Op]++
		}
		if cur != rootSlot && !m.exists[cur] && p.Op != opThrow && p.Op != opAbort {
			return rUnmodelled, nil // the contract destroyed itself earlier in this invocation
		}
		if isNative(p.Op) {
			if flags != fAll || cur == rootSlot {
				return rUnmodelled, nil
			}
			if m.stats != nil {
				m.stats.nativeOps++
			}
		}
		switch p.Op {
		case opPut, opDel:
			if flags&fReadStates == 0 || flags&fWriteStates == 0 {
				return rAbort, nil
			}
			if p.Op == opPut {
				m.st[cur][p.K] = p.V
			} else {
				delete(m.st[cur], p.K)
			}
			out = append(out, p)
		case opNotify:
			if flags&fAllowNotify == 0 {
				return rAbort, nil
			}
			m.notes = append(m.notes, fmt.Sprintf("%d:%d", cur, p.N))
			out = append(out, p)
		case opCall, opTryCall, opFinCall:
			if flags&fReadStates == 0 || flags&fAllowCall == 0 {
				return rAbort, nil
			}
			if !m.exists[p.C] || m.blocked[p.C] {
				return rAbort, nil
			}
			if m.stats != nil {
				m.stats.calls++
				if p.Op == opFinCall || p.W == wInFinally || p.W == wInCatch || p.W == wInCatchOuter {
					m.stats.callFromFinally = true
				}
				if p.W == wAfterTry {
					m.stats.tryEndedBeforeCall = true
				}
				if p.Op == opCall && !hasTry && idx > 0 && (plan[idx-1].Op == opTryCall || plan[idx-1].Op == opLocalTry) {
					m.stats.tryEndedBeforeCall = true
				}
			}
			s := m.snap()
			eff := flags & p.F
			notifyOnly := eff&fAllowNotify != 0 && eff&fWriteStates == 0
			if m.stats != nil && notifyOnly {
				m.stats.notifyOnlyCalls++
				if flags != fAll {
					m.stats.notifyOnlyNested++ // made by a caller that itself runs with reduced flags
				}
			}
			m.active[p.C]++
			r, sub := m.run(p.C, eff, p.Sub, false, depth+1)
			m.active[p.C]--
			switch r {
			case rAbort, rUnmodelled:
				return r, nil
			case rThrow:
				m.hops++
				own := p.Op == opTryCall || (cur == rootSlot && wrapperCatches(p.W))
				if own || hasTry {
					dropped := len(m.notes) - s.nnotes
					m.restore(s)
					if m.stats != nil {
						if own {
							m.stats.caughtAtCaller++
						} else {
							m.stats.caughtAtAncestor++
						}
						if notifyOnly {
							if own {
								m.stats.notifyOnlyCaughtAtCaller++
							} else {
								m.stats.notifyOnlyCaughtAtAncestor++
							}
							if dropped > 0 {
								m.stats.notifyOnlyNotesRolledBack++
							}
						}
						if m.hops >= 2 {
							m.stats.grandCallerOnly = true
						}
						if containsNative(p.Sub) {
							m.stats.nativeRolledBack++
						}
					}
				}
				if !own {
					return rThrow, out
				}
			case rOK:
				if m.stats != nil && (p.Op == opTryCall || hasTry || (cur == rootSlot && wrapperCatches(p.W)) || (cur == rootSlot && p.W == wTryFinallyOnly)) {
					m.stats.wrappedOK++ // returned normally from a call made under an open try
				}
				q := p
				q.Op, q.W, q.Sub = opCall, wPlain, sub
				out = append(out, q)
			}
		case opThrow:
			m.hops = 0
			return rThrow, out
		case opAbort:
			return rAbort, nil
		case opLocalTry:
			if m.stats != nil && m.active[cur] > 1 {
				m.stats.reentrantOpenTry = true
			}
			r, sub := m.run(cur, flags, p.Sub, true, depth)
			if r == rAbort || r == rUnmodelled {
				return r, nil
			}
			out = append(out, sub...)
		case opGasXfer, opNeoXfer:
			if m.blocked[cur] || (p.C >= 0 && m.blocked[p.C]) || cur >= m.funded {
				return rUnmodelled, nil // only the contracts funded at set-up are known to afford the transfer
			}
			q := p
			q.Sub = nil
			if p.C >= 0 && m.exists[p.C] && p.Data {
				m.active[p.C]++
				r, sub := m.run(p.C, fAll, p.Sub, false, depth+1)
				m.active[p.C]--
				if r == rThrow {
					if m.stats != nil {
						m.stats.callbackThrows++
					}
					return rAbort, nil
				}
				if r != rOK {
					return r, nil
				}
				q.Sub = sub
			}
			out = append(out, q)
		case opVote, opRegister, opUnregister:
			if m.blocked[cur] {
				return rUnmodelled, nil
			}
			out = append(out, p)
		case opPolicy:
			if !m.committee {
				return rAbort, nil
			}
			out = append(out, p)
		case opBlock, opUnblock:
			if !m.committee {
				return rAbort, nil
			}
			if p.C >= 0 && m.active[p.C] > 0 {
				return rUnmodelled, nil // blocking a contract that is executing
			}
			if p.Op == opBlock {
				m.blocked[p.C] = true
			} else {
				if p.C >= 0 && m.dead[p.C] {
					return rUnmodelled, nil
				}
				delete(m.blocked, p.C)
			}
			out = append(out, p)
		case opDesignate:
			if !m.committee {
				return rAbort, nil
			}
			if m.desig[p.X] {
				return rAbort, nil
			}
			m.desig[p.X] = true
			out = append(out, p)
		case opDeploy:
			if m.dead[p.C] || m.blocked[p.C] {
				return rUnmodelled, nil
			}
			if m.exists[p.C] {
				return rAbort, nil
			}
			m.exists[p.C], m.ver[p.C], m.st[p.C] = true, 1, map[string]string{}
			q := p
			q.Sub = nil
			if p.Data {
				m.active[p.C]++
				r, sub := m.run(p.C, fAll, p.Sub, false, depth+1)
				m.active[p.C]--
				if r == rThrow {
					if m.stats != nil {
						m.stats.callbackThrows++
					}
					return rAbort, nil
				}
				if r != rOK {
					return r, nil
				}
				q.Sub = sub
			}
			out = append(out, q)
		case opUpdate:
			if m.active[cur] > 1 {
				return rUnmodelled, nil
			}
			m.ver[cur] = p.X
			q := p
			q.Sub = nil
			if p.Data {
				r, sub := m.run(cur, fAll, p.Sub, false, depth+1)
				if r == rThrow {
					if m.stats != nil {
						m.stats.callbackThrows++
					}
					return rAbort, nil
				}
				if r != rOK {
					return r, nil
				}
				q.Sub = sub
			}
			out = append(out, q)
		case opDestroy:
			if m.active[cur] > 1 {
				return rUnmodelled, nil
			}
			m.st[cur] = map[string]string{}
			m.exists[cur], m.dead[cur] = false, true
			m.blocked[cur] = true
			out = append(out, p)
		}
	}
	return rOK, out
}

func containsNative(p []step) bool {
	for _, s := range p {
		if isNative(s.Op) || containsNative(s.Sub) {
			return true
		}
	}
	return false
}

func countSteps(p []step) int {
	n := 0
	for _, s := range p {
		n += 1 + countSteps(s.Sub)
	}
	return n
}

func sortedKV(m map[string]string) []string {
	var o []string
	for k, v := range m {
		o = append(o, k+"="+v)
	}
	sort.Strings(o)
	return o
}

// ---------------------------------------------------------------------------
// generator

type genCfg struct {
	slots     int // total contract slots
	base      int // slots deployed at set-up
	users     int // candidate keys usable by register / vote
	dummies   int // accounts to block / unblock
	maxDepth  int
	natives   bool
	committee bool
	oldForks  bool // the chain runs with only older hardforks: no arguments that newer ones introduced
}

var (
	planKeys = []string{"a", "b", "ab", "k1", "k2"}
	// every subset that still allows the notify without allowing writes appears often
	notifyOnlyFlags = []int{fAllowNotify, fReadStates | fAllowNotify, fAllowCall | fAllowNotify, fReadStates | fAllowCall | fAllowNotify}
	flagSets        = []int{fAll, fAll, fAll, fAll, fAll, fAll, fAll, fAll, fAll, fAll, fAll, fAll, fAll, fAll,
		fAllowNotify, fReadStates | fAllowNotify, fAllowCall | fAllowNotify, fReadStates | fAllowCall | fAllowNotify, fAllowNotify, fReadStates | fAllowNotify, fAllowCall | fAllowNotify, fReadStates | fAllowCall | fAllowNotify, fReadStates | fAllowCall | fAllowNotify,
		fAll &^ fAllowNotify, fReadStates | fAllowCall, fReadStates | fWriteStates | fAllowCall, fReadStates | fAllowCall | fAllowNotify, fReadStates | fWriteStates, 0}
)

type gen struct {
	r       *rng.R
	cfg     genCfg
	m       *model // state before the plan: which slots exist
	natives int
	heavy   int // deploy / update steps (they carry the contract image)
}

func (g *gen) target() int {
	for range 6 {
		c := g.r.Intn(g.cfg.slots)
		if (g.m.exists[c] && !g.m.blocked[c]) || g.r.Intn(40) == 0 {
			return c
		}
	}
	return g.r.Intn(g.cfg.base)
}

func (g *gen) calleeFlags() int { return flagSets[g.r.Intn(len(flagSets))] }

// body generates the steps of one contract invocation.
func (g *gen) body(cur, flags, depth int, inCallback bool) []step {
	r := g.r
	n := 1 + r.Intn(5)
	var out []step
	calls := 0
	for i := 0; i < n; i++ {
		x := r.Intn(100)
		if r.Intn(8) != 0 {
			// mostly avoid what the call flags forbid (it faults the transaction)
			if x < 28 && (flags&fWriteStates == 0 || flags&fReadStates == 0) {
				if flags&fAllowNotify != 0 {
					out = append(out, step{Op: opNotify, N: r.Intn(1000)})
				}
				continue
			}
			if x >= 28 && x < 40 && flags&fAllowNotify == 0 {
				continue
			}
			if x >= 40 && x < 65 && (flags&fAllowCall == 0 || flags&fReadStates == 0) {
				continue
			}
		}
		switch {
		case x < 22:
			out = append(out, step{Op: opPut, K: planKeys[r.Intn(len(planKeys))], V: fmt.Sprint(r.Intn(100))})
		case x < 28:
			out = append(out, step{Op: opDel, K: planKeys[r.Intn(len(planKeys))]})
		case x < 40:
			out = append(out, step{Op: opNotify, N: r.Intn(1000)})
		case x < 50 && depth > 0 && calls < 3:
			calls++
			c := g.target()
			f := g.calleeFlags()
			out = append(out, step{Op: opCall, C: c, F: f, Sub: g.body(c, flags&f, depth-1, inCallback)})
		case x < 62 && depth > 0 && calls < 3:
			calls++
			c := g.target()
			f := g.calleeFlags()
			out = append(out, step{Op: opTryCall, C: c, F: f, Sub: g.body(c, flags&f, depth-1, inCallback)})
		case x < 65 && depth > 0 && calls < 3:
			calls++
			c := g.target()
			f := g.calleeFlags()
			out = append(out, step{Op: opFinCall, C: c, F: f, Sub: g.body(c, flags&f, depth-1, inCallback)})
		case x < 74:
			if depth == g.cfg.maxDepth-1 && r.Intn(3) != 0 {
				continue // fewer throws directly in the entry contract
			}
			out = append(out, step{Op: opThrow})
			if r.Intn(3) != 0 {
				return out
			}
		case x < 76:
			if r.Intn(6) == 0 {
				out = append(out, step{Op: opAbort})
			}
		case x < 84 && depth > 0:
			out = append(out, step{Op: opLocalTry, Sub: g.body(cur, flags, depth-1, inCallback)})
		case x < 100 && g.cfg.natives && flags == fAll && g.natives < 4:
			if s, ok := g.native(cur, depth, inCallback); ok {
				g.natives++
				out = append(out, s)
				if s.Op == opDestroy {
					return out
				}
			}
		}
	}
	if flags&fAllowNotify != 0 && flags&fWriteStates == 0 && depth < g.cfg.maxDepth-1 && r.Intn(3) == 0 {
		// a callee that can only notify: notify, then throw
		out = append(out, step{Op: opNotify, N: r.Intn(1000)}, step{Op: opThrow})
	}
	return out
}

func (g *gen) sinkOrSlot() int {
	if g.r.Intn(2) == 0 {
		return -1 - g.r.Intn(3)
	}
	return g.target()
}

// blockTarget picks an account to block (unblock): mostly one that is not
// (is) blocked in the state the plan starts from.
func (g *gen) blockTarget(blocked bool) int {
	r := g.r
	c := 0
	for range 8 {
		c = -1 - r.Intn(g.cfg.dummies)
		if r.Intn(4) == 0 {
			c = g.target()
		}
		if g.m.blocked[c] == blocked || r.Intn(6) == 0 {
			break
		}
	}
	return c
}

// native generates one native-contract effect made by contract cur.
func (g *gen) native(cur, depth int, inCallback bool) (step, bool) {
	r := g.r
	cb := func(c int) (bool, []step) {
		// payment / deploy callbacks: mostly storage, notifications, calls and
		// throws; sometimes native effects too (no nested callbacks, no
		// deploy / update / destroy)
		if c < 0 || r.Intn(3) == 0 {
			return false, nil
		}
		sv := g.cfg.natives
		g.cfg.natives = sv && r.Intn(3) == 0
		d := depth - 1
		if d < 0 {
			d = 0
		}
		b := g.body(c, fAll, d, true)
		g.cfg.natives = sv
		return true, b
	}
	x := r.Intn(100)
	if inCallback {
		if x >= 89 {
			return step{}, false
		}
		cb = func(int) (bool, []step) { return false, nil }
	}
	if !g.cfg.committee && ((x >= 48 && x < 72) || (x >= 83 && x < 89)) && r.Intn(6) != 0 {
		return step{}, false
	}
	if x < 36 && cur >= g.cfg.base {
		return step{}, false
	}
	switch {
	case x < 22:
		c := g.sinkOrSlot()
		d, sub := cb(c)
		return step{Op: opGasXfer, C: c, N: 1 + r.Intn(1000), Data: d, Sub: sub}, true
	case x < 36:
		c := g.sinkOrSlot()
		d, sub := cb(c)
		return step{Op: opNeoXfer, C: c, N: r.Intn(4), Data: d, Sub: sub}, true
	case x < 48:
		return step{Op: opVote, X: r.Intn(g.cfg.users+1) - 1}, true
	case x < 58:
		k := r.Intn(5)
		s := step{Op: opPolicy, X: k}
		switch k {
		case 0:
			s.N = 500 + r.Intn(2000)
		case 1:
			s.N = 50000 + r.Intn(100000)
		case 2:
			s.Y = []int{0x20, 0x21, 0x22}[r.Intn(3)]
			if g.cfg.oldForks {
				s.Y = []int{0x20, 0x21}[r.Intn(2)] // NotaryAssisted (0x22) is not a known attribute before Echidna
			}
			s.N = r.Intn(100000)
		case 3:
			s.N = (1 + r.Intn(9)) * 1_0000_0000
		default:
			s.N = (1 + r.Intn(20)) * 1000_0000
		}
		return s, true
	case x < 66:
		return step{Op: opBlock, C: g.blockTarget(false)}, true
	case x < 72:
		return step{Op: opUnblock, C: g.blockTarget(true)}, true
	case x < 78:
		return step{Op: opRegister, X: r.Intn(2)}, true
	case x < 83:
		return step{Op: opUnregister, X: r.Intn(2)}, true
	case x < 89:
		n := 1 + r.Intn(3)
		ks := r.Perm(6)[:n]
		return step{Op: opDesignate, X: []int{4, 8, 16, 32}[r.Intn(4)], Keys: ks}, true
	case x < 94:
		if g.heavy >= 2 {
			return step{}, false
		}
		c := g.cfg.base + r.Intn(g.cfg.slots-g.cfg.base)
		if (g.m.exists[c] || g.m.dead[c]) && r.Intn(8) != 0 {
			return step{}, false
		}
		g.heavy++
		d, sub := cb(c)
		return step{Op: opDeploy, C: c, Data: d, Sub: sub}, true
	case x < 98:
		if g.heavy >= 2 {
			return step{}, false
		}
		g.heavy++
		d, sub := cb(cur)
		return step{Op: opUpdate, X: 1 + r.Intn(2), Data: d, Sub: sub}, true
	default:
		if r.Intn(3) != 0 {
			return step{}, false
		}
		return step{Op: opDestroy}, true
	}
}

// root generates the entry script: one to three wrapped calls.
func (g *gen) root() []step {
	r := g.r
	n := 1
	if r.Intn(4) == 0 {
		n = 2 + r.Intn(2)
	}
	var out []step
	for i := 0; i < n; i++ {
		c := g.target()
		w := wPlain
		if r.Intn(3) == 0 {
			w = r.Intn(nWrappers)
		}
		out = append(out, step{Op: opCall, C: c, F: fAll, W: w, Sub: g.body(c, fAll, g.cfg.maxDepth-1, false)})
	}
	return out
}

// shaped returns a plan built around one of the shapes aimed at the
// store-layering shortcut, filled with random bodies.
func (g *gen) shaped(kind int) []step {
	r := g.r
	b := g.cfg.base
	a, c2, c3 := r.Intn(b), r.Intn(b), r.Intn(b)
	put := func() step {
		return step{Op: opPut, K: planKeys[r.Intn(len(planKeys))], V: fmt.Sprint(100 + r.Intn(100))}
	}
	ntf := func() step { return step{Op: opNotify, N: 1000 + r.Intn(1000)} }
	thr := step{Op: opThrow}
	small := func(c int) []step { return g.body(c, fAll, 1, false) }
	var top []step
	switch kind {
	case 0: // try only in the caller's caller
		top = []step{put(), {Op: opTryCall, C: c2, F: fAll, Sub: []step{put(), ntf(), {Op: opCall, C: c3, F: fAll, Sub: []step{put(), ntf(), thr}}, put()}}, ntf(), put()}
	case 1: // try ended before the call
		top = []step{{Op: opTryCall, C: c2, F: fAll, Sub: append(small(c2), put())}, {Op: opLocalTry, Sub: []step{put(), thr}}, put(), {Op: opCall, C: c3, F: fAll, Sub: []step{put(), ntf(), thr}}}
	case 2: // call made from the finally part of a handler
		top = []step{put(), {Op: opFinCall, C: c2, F: fAll, Sub: []step{put(), ntf(), thr}}, put()}
		if r.Intn(2) == 0 {
			top = []step{put(), {Op: opLocalTry, Sub: top}, ntf()}
		}
	case 3: // re-entrancy into a contract that has an open try
		top = []step{put(), {Op: opLocalTry, Sub: []step{ntf(), {Op: opCall, C: c2, F: fAll, Sub: []step{put(), {Op: opCall, C: a, F: fAll, Sub: []step{put(), ntf(), {Op: opLocalTry, Sub: []step{put(), thr}}, put(), thr}}}}, put()}}, ntf()}
	case 4: // native -> contract payment callback that throws (under a try of the sender)
		if !g.cfg.natives {
			return g.shaped(r.Intn(4))
		}
		cbp := []step{put(), ntf(), thr}
		if r.Intn(3) == 0 {
			cbp = []step{put(), {Op: opLocalTry, Sub: []step{put(), thr}}, ntf()}
		}
		top = []step{put(), {Op: opTryCall, C: c2, F: fAll, Sub: []step{put(), {Op: []int{opGasXfer, opNeoXfer}[r.Intn(2)], C: c3, N: 1 + r.Intn(3), Data: true, Sub: cbp}, put()}}, ntf()}
	case 5: // native effects inside a call that is rolled back, then the same effects again
		if !g.cfg.natives {
			return g.shaped(r.Intn(4))
		}
		var eff []step
		for range 1 + r.Intn(3) {
			if s, ok := g.native(c2, 1, false); ok && s.Op != opDestroy && s.Op != opDeploy && s.Op != opUpdate {
				eff = append(eff, s)
			}
		}
		failing := append(append([]step{put()}, eff...), ntf(), thr)
		top = []step{put(), {Op: opTryCall, C: c2, F: fAll, Sub: failing}, ntf()}
		if r.Intn(2) == 0 {
			top = append(top, step{Op: opCall, C: c2, F: fAll, Sub: append([]step{}, eff...)})
		}
	case 6: // deploy / update / destroy inside a rolled back call
		if !g.cfg.natives {
			return g.shaped(r.Intn(4))
		}
		child := g.cfg.base + r.Intn(g.cfg.slots-g.cfg.base)
		var inner []step
		switch r.Intn(3) {
		case 0:
			inner = []step{put(), {Op: opDeploy, C: child, Data: true, Sub: []step{put(), ntf()}}, {Op: opCall, C: child, F: fAll, Sub: []step{put(), ntf()}}, thr}
		case 1:
			inner = []step{put(), {Op: opUpdate, X: 1 + r.Intn(2), Data: r.Intn(2) == 0, Sub: []step{put()}}, ntf(), thr}
		default:
			inner = []step{put(), {Op: opCall, C: c3, F: fAll, Sub: []step{put(), {Op: opDestroy}}}, ntf(), thr}
			if c3 == c2 || c3 == a {
				inner = []step{put(), ntf(), thr}
			}
		}
		top = []step{put(), {Op: opTryCall, C: c2, F: fAll, Sub: inner}, ntf(), {Op: opTryCall, C: c2, F: fAll, Sub: []step{put()}}}
		if r.Intn(2) == 0 {
			top = append(top, step{Op: opTryCall, C: child, F: fAll, Sub: []step{put()}})
		}
	case 7: // callees that may notify but not write throw after notifying; caught by the caller / an enclosing frame
		nf := func() int { return notifyOnlyFlags[r.Intn(len(notifyOnlyFlags))] }
		failing := func(c, f int, deeper bool) step {
			sub := []step{ntf(), ntf()}
			if deeper && f&fReadStates != 0 && f&fAllowCall != 0 {
				// deeper calls that themselves use reduced flags
				d := r.Intn(b)
				switch r.Intn(3) {
				case 0: // the deeper callee fails, the middle one catches it and goes on
					sub = append(sub, step{Op: opTryCall, C: d, F: nf(), Sub: []step{ntf(), ntf(), thr}}, ntf())
				case 1: // the deeper callee succeeds, then the middle one throws
					sub = append(sub, step{Op: opCall, C: d, F: nf(), Sub: []step{ntf(), ntf()}}, ntf())
				default: // the deeper callee's exception passes through the middle one
					sub = append(sub, step{Op: opCall, C: d, F: nf(), Sub: []step{ntf(), thr}})
				}
			}
			sub = append(sub, thr)
			return step{Op: opCall, C: c, F: f, Sub: sub}
		}
		t1 := failing(c2, nf(), true)
		t1.Op = opTryCall
		t2 := failing(c3, nf(), r.Intn(2) == 0)
		t3 := failing(c2, nf(), false)
		t3.Op = opFinCall
		top = []step{ntf(), t1, ntf(), {Op: opLocalTry, Sub: []step{ntf(), t2, ntf()}}, ntf()}
		switch r.Intn(4) {
		case 0:
			top = append(top, step{Op: opLocalTry, Sub: []step{ntf(), t3}}, put())
		case 1:
			// the same under a caller that already runs with reduced flags
			top = []step{ntf(), {Op: opCall, C: c3, F: fReadStates | fAllowCall | fAllowNotify, Sub: top}, put()}
		case 2:
			ok := failing(c3, nf(), false)
			ok.Op, ok.Sub = opTryCall, ok.Sub[:len(ok.Sub)-1] // notifies and returns: kept
			top = append(top, ok, ntf())
		}
	}
	// random surroundings
	if r.Intn(2) == 0 {
		top = append(g.body(a, fAll, 1, false), top...)
	}
	w := wPlain
	if r.Intn(4) == 0 {
		w = r.Intn(nWrappers)
	}
	return []step{{Op: opCall, C: a, F: fAll, W: w, Sub: top}}
}

const nShapes = 8

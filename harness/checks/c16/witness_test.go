package c16

import (
	"encoding/json"
	"fmt"

	"github.com/nspcc-dev/neo-go/pkg/core/block"
	"github.com/nspcc-dev/neo-go/pkg/core/native/nativenames"
	"github.com/nspcc-dev/neo-go/pkg/core/native/noderoles"
	"github.com/nspcc-dev/neo-go/pkg/core/transaction"
	"github.com/nspcc-dev/neo-go/pkg/neotest"
	"github.com/nspcc-dev/neo-go/pkg/smartcontract/callflag"
	"github.com/nspcc-dev/neo-go/pkg/util"
	"github.com/nspcc-dev/neo-go/pkg/vm/vmstate"
)

// Effect witnesses: hand-written argument tuples (and the chain state they
// need) under which, with all flags, a state-changing native method really
// writes / notifies / calls. Each is then run under all sixteen flag sets.

type setupLog struct {
	OK     []string
	Failed []string
}

// chainTx puts one invocation on the chain; a faulting set-up step is only
// recorded (older hardfork stages lack some methods).
func (v *env) chainTx(log *setupLog, label string, signers []neotest.Signer, h util.Uint160, method string, args ...any) bool {
	tx := v.e.NewUnsignedTx(v.t, h, method, args...)
	v.e.SignTx(v.t, tx, 3000_0000_0000, signers...)
	v.e.AddNewBlock(v.t, tx)
	aer, err := v.bc.GetAppExecResults(tx.Hash(), 0x40 /* Application */)
	if err != nil || len(aer) == 0 || aer[0].VMState != vmstate.Halt {
		msg := label
		if len(aer) > 0 {
			msg += ": " + aer[0].FaultException
		}
		log.Failed = append(log.Failed, msg)
		return false
	}
	log.OK = append(log.OK, label)
	return true
}

type witnessState struct {
	victim     neotest.SingleSigner
	blocked2   util.Uint160
	oracleReq  bool
	userTill   uint32
	otherDep   bool
	userDep    bool
	userCand   bool
	whitelistC bool
}

// setupWitnessState prepares the chain state the witness tuples rely on.
func (v *env) setupWitnessState() (*witnessState, *setupLog) {
	log := &setupLog{}
	ws := &witnessState{victim: detSigner("victim"), blocked2: util.Uint160{0xb1, 0x0c}}
	v.names[ws.victim.ScriptHash()] = "victim"
	gasH, neoH := v.native(nativenames.Gas), v.native(nativenames.Neo)
	polH := v.native(nativenames.Policy)
	val, com := v.val, v.com
	user, other := neotest.Signer(v.user), neotest.Signer(v.other)
	v.chainTx(log, "fund victim", []neotest.Signer{val}, gasH, "transfer", val.ScriptHash(), ws.victim.ScriptHash(), int64(7_0000_0000), nil)
	if _, ok := v.natives[nativenames.Neo]; ok {
		if v.natives[nativenames.Neo].Manifest.ABI.GetMethod("onNEP17Payment", 3) != nil {
			ws.userCand = v.chainTx(log, "register user as candidate (payment)", []neotest.Signer{user}, gasH, "transfer",
				user.ScriptHash(), neoH, int64(1000_0000_0000), v.user.Account().PublicKey().Bytes())
		} else {
			ws.userCand = v.chainTx(log, "register user as candidate", []neotest.Signer{user}, neoH, "registerCandidate", v.user.Account().PublicKey().Bytes())
		}
	}
	if nt, ok := v.natives[nativenames.Notary]; ok {
		h := v.bc.BlockHeight()
		ws.userTill = h + 1000
		ws.userDep = v.chainTx(log, "notary deposit user", []neotest.Signer{user}, gasH, "transfer", user.ScriptHash(), nt.Hash, int64(10_0000_0000), []any{nil, int64(ws.userTill)})
		ws.otherDep = v.chainTx(log, "notary deposit other", []neotest.Signer{other}, gasH, "transfer", other.ScriptHash(), nt.Hash, int64(10_0000_0000), []any{nil, int64(v.bc.BlockHeight() + 3)})
	}
	v.chainTx(log, "block victim", []neotest.Signer{val, com}, polH, "blockAccount", ws.victim.ScriptHash())
	v.chainTx(log, "block blocked2", []neotest.Signer{val, com}, polH, "blockAccount", ws.blocked2)
	if v.natives[nativenames.Policy].Manifest.ABI.GetMethod("setWhitelistFeeContract", 4) != nil {
		ws.whitelistC = v.chainTx(log, "whitelist probeC.flags", []neotest.Signer{val, com}, polH, "setWhitelistFeeContract", v.probes[2].Hash, "flags", 0, 1)
	}
	if or, ok := v.natives[nativenames.Oracle]; ok {
		ws.oracleReq = v.chainTx(log, "oracle request from probeA", []neotest.Signer{user}, v.probes[0].Hash, "callVoid",
			or.Hash, "request", int(callflag.All), []any{"https://x.y/z", nil, "oracleCb", nil, int64(1000_0000)})
	}
	// let the short notary deposit expire
	v.e.GenerateNewBlocks(v.t, 4)
	v.refreshNatives()
	return ws, log
}

// witnessCases returns the hand-written effect witnesses available at the
// chain's hardfork stage.
func (v *env) witnessCases(ws *witnessState) []*nativeCase {
	var res []*nativeCase
	add := func(c *nativeCase) {
		if c != nil {
			res = append(res, c)
		}
	}
	user, other := v.user.ScriptHash(), v.other.ScriptHash()
	userPub, otherPub := v.user.Account().PublicKey().Bytes(), v.other.Account().PublicKey().Bytes()
	A, B := v.probes[0], v.probes[1]
	mg, neo, gas, nt, or, pol, rm := nativenames.Management, nativenames.Neo, nativenames.Gas, nativenames.Notary, nativenames.Oracle, nativenames.Policy, nativenames.Designation

	// ContractManagement
	d := compileProbe(v.t, user, "probeD")
	nefD, _ := d.NEF.Bytes()
	mfD, _ := json.Marshal(d.Manifest)
	v.names[d.Hash] = "probeD"
	v.mfsMu.Lock()
	v.mfs[d.Hash] = d.Manifest
	v.mfsMu.Unlock()
	add(v.direct(mg, "deploy", "fresh-contract", nefD, mfD))
	add(v.direct(mg, "deploy", "fresh-contract-with-data", nefD, mfD, []any{8, []byte("k-wd"), []any{}}))
	nefA, _ := A.NEF.Bytes()
	mfA, _ := json.Marshal(A.Manifest)
	add(v.viaProbe(mg, "update", "probeA-updates-itself", nefA, mfA))
	add(v.viaProbe(mg, "update", "probeA-updates-itself-with-data", nefA, mfA, []any{8, []byte("k-wd"), []any{}}))
	add(v.viaProbe(mg, "destroy", "probeA-destroys-itself"))
	add(v.direct(mg, "setMinimumDeploymentFee", "committee", 5_0000_0000))

	// NEP-17 natives
	add(v.direct(gas, "transfer", "user-to-other", user, other, 5, nil))
	add(v.direct(gas, "transfer", "user-to-probeA-payment-callback", user, A.Hash, 5, nil))
	add(v.direct(neo, "transfer", "user-to-other", user, other, 1, nil))
	add(v.direct(neo, "transfer", "user-to-probeA-payment-callback", user, A.Hash, 1, nil))
	if cs := v.natives[neo]; cs != nil {
		add(v.direct(gas, "transfer", "other-registers-by-payment-to-NEO", other, cs.Hash, int64(1000_0000_0000), otherPub))
	}
	if cs := v.natives[nt]; cs != nil {
		add(v.direct(gas, "transfer", "victimless-deposit-to-Notary", other, cs.Hash, int64(2_0000_0000), []any{nil, int64(v.bc.BlockHeight() + 100)}))
	}

	// NEO governance
	add(v.direct(neo, "registerCandidate", "other", otherPub))
	if ws.userCand {
		add(v.direct(neo, "unregisterCandidate", "user", userPub))
		add(v.direct(neo, "vote", "user-for-user", user, userPub))
		add(v.direct(neo, "vote", "other-for-user", other, userPub))
	}
	add(v.direct(neo, "setGasPerBlock", "committee", 3_0000_0000))
	add(v.direct(neo, "setRegisterPrice", "committee", 500_0000_0000))

	// Notary
	if ws.userDep {
		add(v.direct(nt, "lockDepositUntil", "user", user, int64(ws.userTill+50)))
	}
	if ws.otherDep {
		add(v.direct(nt, "withdraw", "other-expired", other, other))
		add(v.direct(nt, "withdraw", "other-expired-to-probeB", other, B.Hash))
	}
	add(v.direct(nt, "setMaxNotValidBeforeDelta", "committee", 100))

	// Oracle
	add(v.viaProbe(or, "request", "from-probeA", "https://x.y/z", nil, "oracleCb", nil, int64(1000_0000)))
	add(v.direct(or, "setPrice", "committee", 1_0000_0000))
	if ws.oracleReq {
		c := v.direct(or, "finish", "response-to-request-0")
		if c != nil {
			inner := c.Build
			c.Build = func(f callflag.CallFlag) (*invocation, error) {
				inv, err := inner(f)
				if err != nil {
					return nil, err
				}
				inv.Attrs = []transaction.Attribute{{Type: transaction.OracleResponseT, Value: &transaction.OracleResponse{ID: 0, Code: transaction.Success, Result: []byte{1, 2}}}}
				return inv, nil
			}
			add(c)
		}
	}

	// Policy
	add(v.direct(pol, "setFeePerByte", "committee", 2000))
	add(v.direct(pol, "setExecFeeFactor", "committee", 40))
	add(v.direct(pol, "setStoragePrice", "committee", 20000))
	add(v.direct(pol, "setAttributeFee", "committee", int(transaction.HighPriority), 7))
	add(v.direct(pol, "setMaxValidUntilBlockIncrement", "committee", 100))
	add(v.direct(pol, "setMillisecondsPerBlock", "committee", 2000))
	add(v.direct(pol, "setMaxTraceableBlocks", "committee", int64(v.bc.GetMaxTraceableBlocks())-1))
	add(v.direct(pol, "blockAccount", "other", other))
	add(v.direct(pol, "unblockAccount", "blocked2", ws.blocked2))
	add(v.direct(pol, "setWhitelistFeeContract", "probeB.flags", B.Hash, "flags", 0, 5))
	if ws.whitelistC {
		add(v.direct(pol, "removeWhitelistFeeContract", "probeC.flags", v.probes[2].Hash, "flags", 0))
	}
	if c := v.direct(pol, "recoverFund", "victim-GAS-after-a-year", ws.victim.ScriptHash(), v.native(gas)); c != nil {
		inner := c.Build
		c.Build = func(f callflag.CallFlag) (*invocation, error) {
			inv, err := inner(f)
			if err != nil {
				return nil, err
			}
			inv.TimeShiftMs = 400 * 24 * 3600 * 1000
			return inv, nil
		}
		add(c)
	}

	// RoleManagement
	for _, r := range []noderoles.Role{noderoles.Oracle, noderoles.StateValidator, noderoles.P2PNotary} {
		add(v.direct(rm, "designateAsRole", fmt.Sprintf("role-%d", int(r)), int(r), []any{userPub}))
	}
	return res
}

func (v *env) fakeBlock(shiftMs uint64) (*block.Block, error) {
	b, err := v.bc.GetFakeNextBlock(v.bc.BlockHeight() + 1)
	if err != nil {
		return nil, err
	}
	b.Timestamp += shiftMs
	return b, nil
}

package c16

import (
	"encoding/binary"
	"encoding/hex"
	"fmt"
	"sort"
	"strings"
	"sync"

	"github.com/nspcc-dev/neo-go/pkg/core/dao"
	"github.com/nspcc-dev/neo-go/pkg/core/interop"
	"github.com/nspcc-dev/neo-go/pkg/core/interop/interopnames"
	"github.com/nspcc-dev/neo-go/pkg/core/storage"
	"github.com/nspcc-dev/neo-go/pkg/smartcontract/callflag"
	"github.com/nspcc-dev/neo-go/pkg/util"
	"github.com/nspcc-dev/neo-go/pkg/vm"
	"github.com/nspcc-dev/neo-go/pkg/vm/opcode"
	"github.com/nspcc-dev/neo-go/pkg/vm/stackitem"
)

// The effect monitor. It is attached to the VM of one invocation through the
// exported per-instruction hook and attributes every observable effect to the
// execution context (script hash + call flags) whose instruction produced it:
//
//   - storage: the change set of the interop context's private store layers
//     (contract storage keys only) is compared before / after every instruction;
//   - notifications: growth of ic.Notifications;
//   - calls: growth of the invocation stack caused by SYSCALL / CALLT (that is
//     a contract or script being entered, not an intra-script CALL);
//   - flags of every context that was entered vs. the flags of the context
//     that entered it.
//
// What is reported as refuting the property is decided at the end of the run
// (see verdicts): effects that were rolled back or belong to an execution that
// faulted changed nothing and are only counted.

// sysNames maps interop ids to names, filled from the interop table of the chain.
var sysNames sync.Map

type ctxInfo struct {
	Hash  util.Uint160
	Flags callflag.CallFlag
	Op    opcode.Opcode
	Off   int
	Depth int
	Sys   string // interop name when Op is SYSCALL
	// Entry is the offset at which the executing context was entered (the
	// method offset of a called contract), -1 when the monitor did not see the
	// context being entered (the entry script).
	Entry int
	// Via is the instruction that entered the executing context (nil for the
	// entry script): for a callback made by a native contract it is the native's
	// context.
	Via *ctxInfo
}

// ctxMeta is what the monitor remembers about a context it saw being entered.
type ctxMeta struct {
	By      ctxInfo
	EntryIP int
}

// flagReadEv is one answer of System.Contract.GetCallFlags, read from the
// evaluation stack of the context that asked.
type flagReadEv struct {
	By    ctxInfo
	Value callflag.CallFlag
}

type writeEv struct {
	By    ctxInfo
	Key   string // raw DAO key
	Val   []byte // nil = deleted
	Layer *dao.Simple
}

type notifEv struct {
	By   ctxInfo
	Idx  int
	Name string
	Item *stackitem.Array
}

type callEv struct {
	By          ctxInfo
	CalleeHash  util.Uint160
	CalleeFlags callflag.CallFlag
	Depth       int // depth of the callee context (entry = 1)
}

type monitor struct {
	ic      *interop.Context
	started bool
	prev    ctxInfo
	prevDAO *dao.Simple
	snaps   map[*dao.Simple]map[string]string
	seenKV  map[string]struct{}
	prevN   int
	prevStk []*vm.Context

	writes []writeEv
	notifs []notifEv
	calls  []callEv
	instrs int
	// contexts seen being entered -> who entered them and where they started
	meta      map[*vm.Context]*ctxMeta
	flagReads []flagReadEv
	// flags with which each script hash was seen executing
	seenFlags map[util.Uint160][]callflag.CallFlag
}

func attach(ic *interop.Context) *monitor {
	m := &monitor{ic: ic, snaps: map[*dao.Simple]map[string]string{}, seenKV: map[string]struct{}{}, seenFlags: map[util.Uint160][]callflag.CallFlag{}, meta: map[*vm.Context]*ctxMeta{}}
	ic.VM.SetOnExecHook(m.hook)
	return m
}

func isStorageKey(k string) bool {
	return len(k) >= 5 && (k[0] == byte(storage.STStorage) || k[0] == byte(storage.STTempStorage))
}

func fmtKey(k string) string {
	if len(k) < 5 {
		return hex.EncodeToString([]byte(k))
	}
	return fmt.Sprintf("id=%d key=%s", int32(binary.LittleEndian.Uint32([]byte(k[1:5]))), hex.EncodeToString([]byte(k[5:])))
}

func (m *monitor) diffLayer(d *dao.Simple, actor ctxInfo) {
	if d == nil {
		return
	}
	cur := d.Store.GetStorageChanges()
	old := m.snaps[d]
	if old == nil {
		old = map[string]string{}
	}
	changed := false
	for k, v := range cur {
		if !isStorageKey(k) {
			continue
		}
		enc := "D"
		if v != nil {
			enc = "P" + string(v)
		}
		if ov, ok := old[k]; ok && ov == enc {
			continue
		}
		changed = true
		id := k + "\x00" + enc
		if _, dup := m.seenKV[id]; dup {
			continue // the same write moved down from a committed inner layer
		}
		m.seenKV[id] = struct{}{}
		var val []byte
		if v != nil {
			val = append([]byte{}, v...)
		}
		m.writes = append(m.writes, writeEv{By: actor, Key: k, Val: val, Layer: d})
	}
	if changed || m.snaps[d] == nil {
		ns := make(map[string]string, len(cur))
		for k, v := range cur {
			if !isStorageKey(k) {
				continue
			}
			if v == nil {
				ns[k] = "D"
			} else {
				ns[k] = "P" + string(v)
			}
		}
		m.snaps[d] = ns
	}
}

// settle attributes everything that happened since the previous hook call to
// the context that executed the previous instruction.
func (m *monitor) settle() {
	if !m.started {
		return
	}
	ic := m.ic
	stk := ic.VM.Istack()
	// Who acted during the previous instruction: the context that executed it,
	// except when that instruction was the RET that unloaded a context entered
	// by a native contract - then the native's continuation ran (in Go, inside
	// the RET) and what it wrote / emitted is the native's doing.
	actor := m.prev
	if m.prev.Op == opcode.RET && len(m.prevStk) > 0 && len(stk) > 0 {
		q := 0
		for q < len(stk) && q < len(m.prevStk) && stk[q] == m.prevStk[q] {
			q++
		}
		if q > 0 && q < len(m.prevStk) {
			par := stk[q-1]
			if par.ScriptHash() != m.prev.Hash && atCallNative(par) {
				actor = ctxInfo{Hash: par.ScriptHash(), Flags: par.GetCallFlags(), Op: opcode.SYSCALL, Sys: interopnames.SystemContractCallNative, Off: par.IP(), Depth: q, Entry: -1}
				if mt := m.meta[par]; mt != nil {
					actor.Entry = mt.EntryIP
					actor.Via = &mt.By
				}
			}
		}
	}
	m.diffLayer(m.prevDAO, actor)
	if ic.DAO != m.prevDAO {
		m.diffLayer(ic.DAO, actor)
	}
	if n := len(ic.Notifications); n > m.prevN {
		for i := m.prevN; i < n; i++ {
			m.notifs = append(m.notifs, notifEv{By: actor, Idx: i, Name: ic.Notifications[i].Name, Item: ic.Notifications[i].Item})
		}
	}
	m.prevN = len(ic.Notifications)
	if m.prev.Sys == interopnames.SystemContractGetCallFlags && !ic.VM.HasFailed() && len(stk) > 0 && len(m.prevStk) == len(stk) && stk[len(stk)-1] == m.prevStk[len(stk)-1] {
		// the answer is on top of the asking context's evaluation stack
		if es := stk[len(stk)-1].Estack(); es.Len() > 0 {
			if n, err := es.Peek(0).Item().TryInteger(); err == nil && n.IsInt64() {
				m.flagReads = append(m.flagReads, flagReadEv{By: m.prev, Value: callflag.CallFlag(n.Int64())})
			}
		}
	}
	p := 0
	for p < len(stk) && p < len(m.prevStk) && stk[p] == m.prevStk[p] {
		p++
	}
	if p < len(stk) && p > 0 && (m.prev.Op == opcode.CALL || m.prev.Op == opcode.CALLL || m.prev.Op == opcode.CALLA) {
		// a function of the same script: same contract call, same flags
		for i := p; i < len(stk); i++ {
			if mt := m.meta[stk[i-1]]; mt != nil {
				m.meta[stk[i]] = mt
			}
		}
	}
	if p < len(stk) && p > 0 && m.prev.Op != opcode.CALL && m.prev.Op != opcode.CALLL && m.prev.Op != opcode.CALLA {
		// Contexts stk[p:] were entered during the previous instruction by the
		// context below them (for a native's deferred continuation that runs
		// while its callee unloads this is the native, not the unloading callee).
		par := stk[p-1]
		by := ctxInfo{Hash: par.ScriptHash(), Flags: par.GetCallFlags(), Op: m.prev.Op, Sys: m.prev.Sys, Off: m.prev.Off, Depth: p}
		if par.ScriptHash() != m.prev.Hash {
			by.Op, by.Sys = opcode.SYSCALL, interopnames.SystemContractCallNative
			by.Off = par.IP()
		}
		for i := p; i < len(stk); i++ {
			c := stk[i]
			m.calls = append(m.calls, callEv{By: by, CalleeHash: c.ScriptHash(), CalleeFlags: c.GetCallFlags(), Depth: i + 1})
			if i == p {
				m.meta[c] = &ctxMeta{By: by, EntryIP: c.NextIP()}
			} else {
				m.meta[c] = m.meta[stk[p]] // _initialize of the context just entered
			}
			by = ctxInfo{Hash: c.ScriptHash(), Flags: c.GetCallFlags(), Op: opcode.CALL, Depth: i + 1}
		}
	}
}

func (m *monitor) hook(scriptHash util.Uint160, offset int, op opcode.Opcode) {
	m.settle()
	ic := m.ic
	ctx := ic.VM.Context()
	m.prev = ctxInfo{Hash: scriptHash, Flags: ctx.GetCallFlags(), Op: op, Off: offset, Depth: len(ic.VM.Istack()), Entry: -1}
	if mt := m.meta[ctx]; mt != nil {
		m.prev.Entry = mt.EntryIP
		m.prev.Via = &mt.By
	}
	if op == opcode.SYSCALL {
		if prog := ctx.Program(); offset+5 <= len(prog) {
			id := binary.LittleEndian.Uint32(prog[offset+1:])
			if n, err := interopnames.FromID(id); err == nil {
				m.prev.Sys = n
			} else if n, ok := sysNames.Load(id); ok { // names missing from interopnames' own list
				m.prev.Sys = n.(string)
			}
		}
	}
	m.prevDAO = ic.DAO
	if m.snaps[ic.DAO] == nil {
		m.diffLayerBaseline(ic.DAO)
	}
	m.prevStk = append(m.prevStk[:0], ic.VM.Istack()...)
	m.started = true
	m.instrs++
	fl := m.seenFlags[scriptHash]
	found := false
	for _, f := range fl {
		if f == m.prev.Flags {
			found = true
			break
		}
	}
	if !found {
		m.seenFlags[scriptHash] = append(fl, m.prev.Flags)
	}
}

// diffLayerBaseline records the content a layer has when it is first seen
// without attributing it (a fresh layer is empty; the bottom one may carry
// what the harness staged before the run).
func (m *monitor) diffLayerBaseline(d *dao.Simple) {
	cur := d.Store.GetStorageChanges()
	ns := make(map[string]string, len(cur))
	for k, v := range cur {
		if !isStorageKey(k) {
			continue
		}
		if v == nil {
			ns[k] = "D"
		} else {
			ns[k] = "P" + string(v)
		}
	}
	m.snaps[d] = ns
}

// finish must be called after VM.Run returned.
func (m *monitor) finish() {
	m.settle()
	m.started = false
}

// outcome of one monitored invocation.
type outcome struct {
	Halted bool
	Fault  string
	// effects that are part of the final result of a HALTed run
	FinalWrites []writeEv
	FinalNotifs []notifEv
	Calls       []callEv
	FlagReads   []flagReadEv
	// attempted effects in faulted / rolled back parts
	TransientWrites int
	TransientNotifs int
	// discarded effects whose author lacked the flag (never persisted; counted)
	TransientFlagless int
	Instrs            int
	Stack             []stackitem.Item
	SeenFlags         map[util.Uint160][]callflag.CallFlag
}

func (m *monitor) outcome() *outcome {
	ic := m.ic
	o := &outcome{Halted: !ic.VM.HasFailed(), Calls: m.calls, FlagReads: m.flagReads, Instrs: m.instrs}
	if !o.Halted {
		o.TransientWrites = len(m.writes)
		o.TransientNotifs = len(m.notifs)
		for _, w := range m.writes {
			if w.By.Flags&callflag.WriteStates == 0 {
				o.TransientFlagless++
			}
		}
		for _, n := range m.notifs {
			if n.By.Flags&callflag.AllowNotify == 0 {
				o.TransientFlagless++
			}
		}
		return o
	}
	final := ic.DAO.Store.GetStorageChanges()
	for _, w := range m.writes {
		v, ok := final[w.Key]
		if ok && (v == nil) == (w.Val == nil) && string(v) == string(w.Val) {
			o.FinalWrites = append(o.FinalWrites, w)
		} else {
			o.TransientWrites++
			if w.By.Flags&callflag.WriteStates == 0 {
				o.TransientFlagless++
			}
		}
	}
	for _, n := range m.notifs {
		if n.Idx < len(ic.Notifications) && ic.Notifications[n.Idx].Item == n.Item && ic.Notifications[n.Idx].Name == n.Name {
			o.FinalNotifs = append(o.FinalNotifs, n)
		} else {
			o.TransientNotifs++
			if n.By.Flags&callflag.AllowNotify == 0 {
				o.TransientFlagless++
			}
		}
	}
	return o
}

// flagViolation is one refutation of a flag clause found in an outcome.
type flagViolation struct {
	Sig    string // <clause>:<actor>
	Detail string
}

func fstr(f callflag.CallFlag) string { return fmt.Sprintf("%04b", byte(f)) }

// verdicts applies the flag clauses of the property to an outcome.
func (o *outcome) verdicts(v *env) []flagViolation {
	var vs []flagViolation
	name := v.name
	if o.Halted {
		for _, w := range o.FinalWrites {
			if w.By.Flags&callflag.WriteStates == 0 {
				vs = append(vs, flagViolation{"write-without-WriteStates:" + v.actor(w.By),
					fmt.Sprintf("context %s flags=%s (%s at %d) changed storage %s and the execution HALTed with the change in its change set", name(w.By.Hash), fstr(w.By.Flags), v.actor(w.By), w.By.Off, fmtKey(w.Key))})
			}
		}
		for _, n := range o.FinalNotifs {
			if n.By.Flags&callflag.AllowNotify == 0 {
				vs = append(vs, flagViolation{"notify-without-AllowNotify:" + v.actor(n.By),
					fmt.Sprintf("context %s flags=%s (%s at %d) emitted notification %q kept in the HALTed result", name(n.By.Hash), fstr(n.By.Flags), v.actor(n.By), n.By.Off, n.Name)})
			}
		}
		// A method marked safe in the manifest of a deployed contract, whoever
		// entered it (System.Contract.Call, CALLT or a native contract calling
		// back), leaves no storage change.
		for _, w := range o.FinalWrites {
			if w.By.Via == nil {
				continue
			}
			if mn, safe := v.safeMethodAt(w.By.Hash, w.By.Entry); safe {
				sig := "safe-method-changed-state:entered-by:" + v.actor(*w.By.Via)
				if v.isNative(w.By.Via.Hash) {
					// one root cause whatever the native method: the callback path
					sig = "safe-method-changed-state:entered-by-a-native-contract's-callback"
				}
				vs = append(vs, flagViolation{sig,
					fmt.Sprintf("method %s of %s is marked safe; entered by %s (%s, flags=%s) it ran with flags=%s, changed storage %s (%s at %d) and the execution HALTed with the change in its change set",
						mn, name(w.By.Hash), name(w.By.Via.Hash), v.actor(*w.By.Via), fstr(w.By.Via.Flags), fstr(w.By.Flags), fmtKey(w.Key), v.actor(w.By), w.By.Off)})
			}
		}
	}
	// The flags a context reads by System.Contract.GetCallFlags: a second,
	// independent view of "flags only shrink along a call chain".
	for _, r := range o.FlagReads {
		if r.By.Via != nil && r.Value&^r.By.Via.Flags != 0 {
			vs = append(vs, flagViolation{"callee-flags-exceed-caller:read-by-GetCallFlags:entered-by:" + v.actor(*r.By.Via),
				fmt.Sprintf("context %s read flags=%s by System.Contract.GetCallFlags; it was entered by %s (%s) whose flags are %s", name(r.By.Hash), fstr(r.Value), name(r.By.Via.Hash), v.actor(*r.By.Via), fstr(r.By.Via.Flags))})
		}
	}
	// Entering a context and the flags it gets are events of their own: they
	// are decided when they happen, whatever the run ends with.
	for _, c := range o.Calls {
		if c.By.Op == opcode.CALL {
			continue // _initialize of a context that was just entered
		}
		if c.By.Flags&callflag.AllowCall == 0 {
			vs = append(vs, flagViolation{"call-without-AllowCall:" + v.actor(c.By),
				fmt.Sprintf("context %s flags=%s (%s) entered %s", name(c.By.Hash), fstr(c.By.Flags), v.actor(c.By), name(c.CalleeHash))})
		}
		if c.CalleeFlags&^c.By.Flags != 0 {
			vs = append(vs, flagViolation{"callee-flags-exceed-caller:" + v.actor(c.By),
				fmt.Sprintf("context %s flags=%s (%s) entered %s with flags=%s", name(c.By.Hash), fstr(c.By.Flags), v.actor(c.By), name(c.CalleeHash), fstr(c.CalleeFlags))})
		}
	}
	return vs
}

func (o *outcome) summary(name func(util.Uint160) string) string {
	var sb strings.Builder
	if o.Halted {
		sb.WriteString("HALT")
	} else {
		sb.WriteString("FAULT")
	}
	wr := map[string]bool{}
	for _, w := range o.FinalWrites {
		wr[name(w.By.Hash)] = true
	}
	nt := map[string]bool{}
	for _, n := range o.FinalNotifs {
		nt[name(n.By.Hash)] = true
	}
	keys := func(m map[string]bool) string {
		var s []string
		for k := range m {
			s = append(s, k)
		}
		sort.Strings(s)
		return strings.Join(s, ",")
	}
	fmt.Fprintf(&sb, " w[%s] n[%s] c[", keys(wr), keys(nt))
	for i, c := range o.Calls {
		if i > 0 {
			sb.WriteString(" ")
		}
		fmt.Fprintf(&sb, "%s>%s:%s", name(c.By.Hash), name(c.CalleeHash), fstr(c.CalleeFlags))
	}
	sb.WriteString("]")
	return sb.String()
}

// actor names who performed an effect, at the granularity at which the code
// decides about flags: a native method (its metadata carries the required
// flags), a system call of the interop table, or a plain opcode.
func (v *env) actor(c ctxInfo) string {
	if c.Op == opcode.SYSCALL && c.Sys == interopnames.SystemContractCallNative {
		if n, ok := v.names[c.Hash]; ok {
			if cs := v.natives[n]; cs != nil {
				best := ""
				bo := -1
				for _, md := range cs.Manifest.ABI.Methods {
					if md.Offset <= c.Off && md.Offset > bo {
						bo, best = md.Offset, md.Name
					}
				}
				return "native:" + n + "." + best
			}
		}
	}
	if c.Op == opcode.SYSCALL && c.Sys != "" {
		return "syscall:" + c.Sys
	}
	return "op:" + c.Op.String()
}

// safeMethodAt tells whether offset entry is the start of a method marked safe
// in the manifest of a contract the harness deployed.
func (v *env) safeMethodAt(h util.Uint160, entry int) (string, bool) {
	if entry < 0 {
		return "", false
	}
	v.mfsMu.RLock()
	mf := v.mfs[h]
	v.mfsMu.RUnlock()
	if mf == nil {
		return "", false
	}
	for i := range mf.ABI.Methods {
		if md := &mf.ABI.Methods[i]; md.Offset == entry {
			return md.Name, md.Safe
		}
	}
	return "", false
}

// atCallNative tells whether the context stands at a System.Contract.CallNative
// instruction, i.e. is a native contract's context in the middle of a method.
func atCallNative(c *vm.Context) bool {
	prog, ip := c.Program(), c.IP()
	if ip < 0 || ip+5 > len(prog) || opcode.Opcode(prog[ip]) != opcode.SYSCALL {
		return false
	}
	return binary.LittleEndian.Uint32(prog[ip+1:]) == interopnames.ToID([]byte(interopnames.SystemContractCallNative))
}

// Package c16 monitors property C16: call flags and manifest permissions
// confine what called code can do.
package c16

import (
	"os"
	"sort"
	"testing"

	"github.com/nspcc-dev/neo-go/pkg/core/native/nativenames"
	"github.com/nspcc-dev/neo-go/pkg/neotest"
	"github.com/nspcc-dev/neo-go/pkg/smartcontract/callflag"
	"github.com/nspcc-dev/neo-go/verifharness/vlib/ev"
)

func TestCheck(t *testing.T) {
	part := os.Getenv("VERIF_PART")
	if part == "" {
		part = "all"
	}
	run := ev.Start("C16", "flags: one case = one monitored invocation (native method or system call or probe call chain) under one combination of call flags; distinct by (target, arguments, flags, outcome: HALT/FAULT + who wrote / notified / which contexts were entered with which flags); non-trivial when the target context was really entered. permissions: one case = (caller manifest, callee, method, call kind); distinct by the shape of the permission set against the callee; non-trivial when the call reached the permission check")
	defer run.Finish()
	reporter = &stageReporter{run: run, deferred: map[string]*deferredViolation{}, current: map[string]bool{}}
	defer reporter.flush()
	run.Assume("effects are observed through the exported per-instruction VM hook, the interop context's private store change set, its notification list and the invocation stack; these are trusted to reflect what a block execution would persist")
	run.Assume("test invocations (Blockchain.GetTestVM) run the same interop / native code as block execution; a sample of permission cells is also executed in real blocks")
	run.Assume("effects of a run that FAULTs or of a callee whose exception was caught are discarded by the engine and are counted, not judged")
	if part == "all" || part == "flags" {
		flagsPart(t, run)
	}
	if part == "all" || part == "perm" {
		permPart(t, run)
	}
}

func flagsPart(t *testing.T, run *ev.Run) {
	run.Obs("discarded_effects_made_without_the_flag", 0)
	stages := []string{"all"}
	entry := []callflag.CallFlag{callflag.All}
	depth3 := 20000
	if ev.Tier() == "thorough" {
		stages = append(stages, stagesBefore()...)
		depth3 = 60000
	}
	for _, st := range stages {
		v := newEnv(t, st)
		ws, log := v.setupWitnessState()
		run.Note("setup_steps_failed_"+st, log.Failed)
		run.Obs("setup_steps_ok", int64(len(log.OK)))
		ef := entry
		if ev.Tier() == "thorough" {
			ef = nil
			for f := callflag.CallFlag(0); f <= callflag.All; f++ {
				ef = append(ef, f)
			}
		}
		runNatives(run, v, ws, ef)
		runSyscalls(run, v)
		d3 := depth3
		if st != "all" {
			d3 /= 4
		}
		runChains(run, v, d3, ev.Tier() == "thorough")
		// chains through callbacks made by native contracts (set up after the
		// tables above, whose chain state stays what it was)
		cbLog := &setupLog{}
		cs := v.setupCallbackState(ws, cbLog)
		run.Note("callback_setup_steps_failed_"+st, cbLog.Failed)
		run.Obs("callback_setup_steps_ok", int64(len(cbLog.OK)))
		runCallbacks(run, v, ws, cs)
		runCallbackBlocks(run, v, ws, cs)
		if st == "all" {
			// the same natives x flag sets table on a chain whose committee has put
			// every non-safe native method on Policy's fee whitelist: the call
			// path of a whitelisted method must still enforce its required flags
			w := newEnv(t, st)
			w.variant = "+fee-whitelisted"
			ws2, log2 := w.setupWitnessState()
			n := w.whitelistNativeMethods(log2)
			run.Obs("native_methods_put_on_the_fee_whitelist", int64(n))
			run.Note("setup_steps_failed_"+st+w.variant, log2.Failed)
			if n > 0 {
				runNatives(run, w, ws2, entry)
				// ... and the callback chains with the probes' callback and relay
				// methods on the whitelist too (a whitelisted method is loaded
				// through its own branch of the call path)
				cs2 := w.setupCallbackState(ws2, log2)
				run.Obs("probe_methods_put_on_the_fee_whitelist", int64(w.whitelistProbeMethods(cs2, log2)))
				run.Note("setup_steps_failed_"+st+w.variant+"_callbacks", log2.Failed)
				runCallbacks(run, w, ws2, cs2)
			}
		}
	}
}

// whitelistNativeMethods puts every non-safe method of every active native
// contract on Policy's fee whitelist (where that exists) and returns how many
// were accepted.
func (v *env) whitelistNativeMethods(log *setupLog) int {
	pol, ok := v.natives[nativenames.Policy]
	if !ok || pol.Manifest.ABI.GetMethod("setWhitelistFeeContract", 4) == nil {
		return 0
	}
	var names []string
	for n := range v.natives {
		names = append(names, n)
	}
	sort.Strings(names)
	n := 0
	for _, name := range names {
		c := v.natives[name]
		for _, m := range c.Manifest.ABI.Methods {
			if m.Safe {
				continue
			}
			if v.chainTx(log, "whitelist "+name+"."+m.Name, []neotest.Signer{v.val, v.com}, pol.Hash, "setWhitelistFeeContract", c.Hash, m.Name, len(m.Parameters), int64(n%3)) {
				n++
			}
		}
	}
	v.refreshNatives()
	return n
}

// whitelistProbeMethods puts the callback entry points of the callback probes
// and the relay methods of probes B and C on Policy's fee whitelist.
func (v *env) whitelistProbeMethods(cs *cbState, log *setupLog) int {
	pol := v.natives[nativenames.Policy]
	n := 0
	put := func(c *neotest.Contract, name string, methods ...string) {
		for _, m := range methods {
			for _, md := range c.Manifest.ABI.Methods {
				if md.Name != m {
					continue
				}
				if v.chainTx(log, "whitelist "+name+"."+m, []neotest.Signer{v.val, v.com}, pol.Hash, "setWhitelistFeeContract", c.Hash, m, len(md.Parameters), int64(n%3)) {
					n++
				}
			}
		}
	}
	for _, c := range []*neotest.Contract{cs.H, cs.V, cs.S, cs.T} {
		put(c, v.name(c.Hash), "onNEP17Payment", "oracleCb", "balanceOf", "transfer", "_deploy")
	}
	put(v.probes[1], "probeB", chainMethods...)
	put(v.probes[2], "probeC", chainMethods...)
	v.refreshNatives()
	return n
}

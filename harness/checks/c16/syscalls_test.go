package c16

import (
	"crypto/elliptic"
	"github.com/nspcc-dev/neo-go/pkg/crypto/keys"
	"sort"

	"github.com/nspcc-dev/neo-go/pkg/config"
	"github.com/nspcc-dev/neo-go/pkg/core/interop"
	"github.com/nspcc-dev/neo-go/pkg/core/interop/interopnames"
	istorage "github.com/nspcc-dev/neo-go/pkg/core/interop/storage"
	"github.com/nspcc-dev/neo-go/pkg/core/transaction"
	"github.com/nspcc-dev/neo-go/pkg/io"
	"github.com/nspcc-dev/neo-go/pkg/smartcontract/callflag"
	"github.com/nspcc-dev/neo-go/pkg/smartcontract/trigger"
	"github.com/nspcc-dev/neo-go/pkg/vm/emit"
	"github.com/nspcc-dev/neo-go/pkg/vm/opcode"
	"github.com/nspcc-dev/neo-go/pkg/vm/stackitem"
)

// sysCase is one way of executing one system call: a hand-assembled script
// (argument pushes + SYSCALL) that runs under the identity of the deployed
// probe A with the call flags under test, so that the flag table row of the
// call is exercised in isolation from System.Contract.Call.
type sysCase struct {
	Name    string // interop name
	Label   string
	Effect  bool // the call is able to write / notify / enter another context
	Script  []byte
	Preload func(ic *interop.Context)
}

func (c *sysCase) id() string { return c.Name + ":" + c.Label }

func asm(f func(w *io.BinWriter)) []byte {
	w := io.NewBufBinWriter()
	f(w.BinWriter)
	emit.Opcodes(w.BinWriter, opcode.RET)
	if w.Err != nil {
		panic(w.Err)
	}
	return w.Bytes()
}

// interopNames lists the system calls registered in the interop context of the
// chain under test (the table itself is unexported).
func (v *env) interopNames() ([]string, error) {
	ic, err := v.bc.GetTestVM(trigger.Application, transaction.New([]byte{byte(opcode.RET)}, 0), nil)
	if err != nil {
		return nil, err
	}
	defer ic.Finalize()
	var res []string
	for _, f := range ic.Functions {
		if f.ActiveFrom != config.HFDefault && !ic.IsHardforkEnabled(f.ActiveFrom) {
			continue
		}
		res = append(res, f.Name)
	}
	sort.Strings(res)
	return res, nil
}

func (v *env) sysCases() ([]*sysCase, []string, error) {
	names, err := v.interopNames()
	if err != nil {
		return nil, nil, err
	}
	A, B := v.probes[0], v.probes[1]
	idA := v.probeID[0]
	ctxRW := func(ic *interop.Context) {
		ic.VM.Estack().PushItem(stackitem.NewInterop(&istorage.Context{ID: idA}))
	}
	userPub := v.user.Account().PublicKey().Bytes()
	key, val := []byte("k-sys"), []byte("v-sys")
	notifyScript := asm(func(w *io.BinWriter) {
		emit.Array(w, 5)
		emit.String(w, "Ev")
		emit.Syscall(w, interopnames.SystemRuntimeNotify)
	})
	callPutScript := asm(func(w *io.BinWriter) {
		emit.AppCall(w, B.Hash, "probe", callflag.All, 1, []byte("k-inner"), []any{})
	})
	callFlagsScript := asm(func(w *io.BinWriter) {
		emit.AppCall(w, B.Hash, "flags", callflag.All)
	})
	sys := func(name string) func(w *io.BinWriter) {
		return func(w *io.BinWriter) { emit.Syscall(w, name) }
	}
	type variant struct {
		label   string
		effect  bool
		body    func(w *io.BinWriter)
		preload func(ic *interop.Context)
	}
	table := map[string][]variant{
		interopnames.SystemContractCall: {
			{"probeB.probe-put", true, func(w *io.BinWriter) { emit.AppCall(w, B.Hash, "probe", callflag.All, 1, key, []any{}) }, nil},
			{"probeB.probe-notify", true, func(w *io.BinWriter) { emit.AppCall(w, B.Hash, "probe", callflag.All, 2, key, []any{}) }, nil},
			{"probeB.probe-localput", true, func(w *io.BinWriter) { emit.AppCall(w, B.Hash, "probe", callflag.All, 3, key, []any{}) }, nil},
			{"probeB.flags", true, func(w *io.BinWriter) { emit.AppCall(w, B.Hash, "flags", callflag.All) }, nil},
			{"probeB.safeProbe-put", true, func(w *io.BinWriter) { emit.AppCall(w, B.Hash, "safeProbe", callflag.All, 1, key, []any{}) }, nil},
			{"GAS.transfer-from-probeA", true, func(w *io.BinWriter) {
				emit.AppCall(w, v.native("GasToken"), "transfer", callflag.All, A.Hash, v.user.ScriptHash(), 1, nil)
			}, nil},
		},
		interopnames.SystemContractCallNative: {{"version-0", false, func(w *io.BinWriter) { emit.Int(w, 0); emit.Syscall(w, interopnames.SystemContractCallNative) }, nil}},
		interopnames.SystemContractCreateMultisigAccount: {{"1-of-1", false, func(w *io.BinWriter) {
			emit.Array(w, userPub)
			emit.Int(w, 1)
			emit.Syscall(w, interopnames.SystemContractCreateMultisigAccount)
		}, nil}},
		interopnames.SystemContractCreateStandardAccount: {{"user", false, func(w *io.BinWriter) {
			emit.Bytes(w, userPub)
			emit.Syscall(w, interopnames.SystemContractCreateStandardAccount)
		}, nil}},
		interopnames.SystemCryptoCheckSig: {{"bad-sig", false, func(w *io.BinWriter) {
			emit.Bytes(w, make([]byte, 64))
			emit.Bytes(w, userPub)
			emit.Syscall(w, interopnames.SystemCryptoCheckSig)
		}, nil}},
		interopnames.SystemCryptoCheckMultisig: {{"bad-sig", false, func(w *io.BinWriter) {
			emit.Array(w, make([]byte, 64))
			emit.Array(w, userPub)
			emit.Syscall(w, interopnames.SystemCryptoCheckMultisig)
		}, nil},
			// several signatures (the parallel matcher) and a key that has the form of
			// a compressed point but is not on the curve, in each position: a FAULT of
			// this execution, never the end of the process
			{"two-sigs-malformed-first-key", false, func(w *io.BinWriter) {
				emit.Array(w, make([]byte, 64), make([]byte, 64))
				emit.Array(w, offCurveKey(), userPub)
				emit.Syscall(w, interopnames.SystemCryptoCheckMultisig)
			}, nil},
			{"two-sigs-malformed-last-key", false, func(w *io.BinWriter) {
				emit.Array(w, make([]byte, 64), make([]byte, 64))
				emit.Array(w, userPub, offCurveKey())
				emit.Syscall(w, interopnames.SystemCryptoCheckMultisig)
			}, nil},
			{"three-sigs-malformed-middle-key", false, func(w *io.BinWriter) {
				emit.Array(w, make([]byte, 64), make([]byte, 64), make([]byte, 64))
				emit.Array(w, userPub, offCurveKey(), userPub, userPub)
				emit.Syscall(w, interopnames.SystemCryptoCheckMultisig)
			}, nil}},
		interopnames.SystemIteratorNext: {{"after-find", false, func(w *io.BinWriter) {
			emit.Int(w, 0)
			emit.Bytes(w, []byte("se"))
			emit.Syscall(w, interopnames.SystemStorageGetReadOnlyContext)
			emit.Syscall(w, interopnames.SystemStorageFind)
			emit.Syscall(w, interopnames.SystemIteratorNext)
		}, nil}},
		interopnames.SystemIteratorValue: {{"after-find-next", false, func(w *io.BinWriter) {
			emit.Int(w, 0)
			emit.Bytes(w, []byte("se"))
			emit.Syscall(w, interopnames.SystemStorageGetReadOnlyContext)
			emit.Syscall(w, interopnames.SystemStorageFind)
			emit.Opcodes(w, opcode.DUP)
			emit.Syscall(w, interopnames.SystemIteratorNext)
			emit.Opcodes(w, opcode.DROP)
			emit.Syscall(w, interopnames.SystemIteratorValue)
		}, nil}},
		interopnames.SystemRuntimeBurnGas: {{"1", false, func(w *io.BinWriter) { emit.Int(w, 1); emit.Syscall(w, interopnames.SystemRuntimeBurnGas) }, nil}},
		interopnames.SystemRuntimeCheckWitness: {{"user", false, func(w *io.BinWriter) {
			emit.Bytes(w, v.user.ScriptHash().BytesBE())
			emit.Syscall(w, interopnames.SystemRuntimeCheckWitness)
		}, nil}},
		interopnames.SystemRuntimeGetNotifications: {{"all", false, func(w *io.BinWriter) {
			emit.Opcodes(w, opcode.PUSHNULL)
			emit.Syscall(w, interopnames.SystemRuntimeGetNotifications)
		}, nil}},
		interopnames.SystemRuntimeLoadScript: {
			{"inner-notifies", true, func(w *io.BinWriter) {
				emit.Array(w)
				emit.Int(w, int64(callflag.All))
				emit.Bytes(w, notifyScript)
				emit.Syscall(w, interopnames.SystemRuntimeLoadScript)
			}, nil},
			{"inner-calls-probeB-flags", true, func(w *io.BinWriter) {
				emit.Array(w)
				emit.Int(w, int64(callflag.All))
				emit.Bytes(w, callFlagsScript)
				emit.Syscall(w, interopnames.SystemRuntimeLoadScript)
			}, nil},
			{"inner-calls-probeB-put", true, func(w *io.BinWriter) {
				emit.Array(w)
				emit.Int(w, int64(callflag.All))
				emit.Bytes(w, callPutScript)
				emit.Syscall(w, interopnames.SystemRuntimeLoadScript)
			}, nil},
		},
		interopnames.SystemRuntimeLog: {{"msg", false, func(w *io.BinWriter) { emit.String(w, "hello"); emit.Syscall(w, interopnames.SystemRuntimeLog) }, nil}},
		interopnames.SystemRuntimeNotify: {{"Ev", true, func(w *io.BinWriter) {
			emit.Array(w, 5)
			emit.String(w, "Ev")
			emit.Syscall(w, interopnames.SystemRuntimeNotify)
		}, nil}},
		interopnames.SystemStorageAsReadOnly: {{"injected-context", false, sys(interopnames.SystemStorageAsReadOnly), ctxRW}},
		interopnames.SystemStorageGet: {
			{"own-context", false, func(w *io.BinWriter) {
				emit.Bytes(w, []byte("seed"))
				emit.Syscall(w, interopnames.SystemStorageGetContext)
				emit.Syscall(w, interopnames.SystemStorageGet)
			}, nil},
			{"injected-context", false, func(w *io.BinWriter) {
				emit.Bytes(w, []byte("seed"))
				emit.Opcodes(w, opcode.SWAP)
				emit.Syscall(w, interopnames.SystemStorageGet)
			}, ctxRW},
		},
		interopnames.SystemStorageFind: {
			{"injected-context", false, func(w *io.BinWriter) {
				emit.Bytes(w, []byte("se"))
				emit.Int(w, 0)
				emit.Opcodes(w, opcode.REVERSE3)
				emit.Syscall(w, interopnames.SystemStorageFind)
			}, ctxRW},
		},
		interopnames.SystemStoragePut: {
			{"own-context", true, func(w *io.BinWriter) {
				emit.Bytes(w, val)
				emit.Bytes(w, key)
				emit.Syscall(w, interopnames.SystemStorageGetContext)
				emit.Syscall(w, interopnames.SystemStoragePut)
			}, nil},
			{"injected-context", true, func(w *io.BinWriter) {
				emit.Bytes(w, key)
				emit.Bytes(w, val)
				emit.Opcodes(w, opcode.REVERSE3)
				emit.Syscall(w, interopnames.SystemStoragePut)
			}, ctxRW},
		},
		interopnames.SystemStorageDelete: {
			{"own-context", true, func(w *io.BinWriter) {
				emit.Bytes(w, []byte("seed"))
				emit.Syscall(w, interopnames.SystemStorageGetContext)
				emit.Syscall(w, interopnames.SystemStorageDelete)
			}, nil},
			{"injected-context", true, func(w *io.BinWriter) {
				emit.Bytes(w, []byte("seed"))
				emit.Opcodes(w, opcode.SWAP)
				emit.Syscall(w, interopnames.SystemStorageDelete)
			}, ctxRW},
		},
		interopnames.SystemStorageLocalGet: {{"seed", false, func(w *io.BinWriter) {
			emit.Bytes(w, []byte("seed"))
			emit.Syscall(w, interopnames.SystemStorageLocalGet)
		}, nil}},
		interopnames.SystemStorageLocalFind: {{"se", false, func(w *io.BinWriter) {
			emit.Int(w, 0)
			emit.Bytes(w, []byte("se"))
			emit.Syscall(w, interopnames.SystemStorageLocalFind)
		}, nil}},
		interopnames.SystemStorageLocalPut: {{"k", true, func(w *io.BinWriter) {
			emit.Bytes(w, val)
			emit.Bytes(w, key)
			emit.Syscall(w, interopnames.SystemStorageLocalPut)
		}, nil}},
		interopnames.SystemStorageLocalDelete: {{"seed", true, func(w *io.BinWriter) {
			emit.Bytes(w, []byte("seed"))
			emit.Syscall(w, interopnames.SystemStorageLocalDelete)
		}, nil}},
	}
	var res []*sysCase
	var bare []string
	for _, n := range names {
		vs, ok := table[n]
		if !ok {
			// argument-less call
			bare = append(bare, n)
			vs = []variant{{"no-args", false, sys(n), nil}}
		}
		for _, va := range vs {
			res = append(res, &sysCase{Name: n, Label: va.label, Effect: va.effect, Script: asm(va.body), Preload: va.preload})
		}
	}
	return res, bare, nil
}

// offCurveKey returns 33 bytes that look like a compressed P-256 point whose X
// has no point on the curve.
func offCurveKey() []byte {
	for x := byte(1); ; x++ {
		k := make([]byte, 33)
		k[0], k[32] = 2, x
		if _, err := keys.NewPublicKeyFromBytes(k, elliptic.P256()); err != nil {
			return k
		}
	}
}

package c16

import (
	"encoding/base64"
	"encoding/hex"
	"fmt"
	"github.com/nspcc-dev/neo-go/pkg/config"
	"os"
	"strings"
	"sync"
	"testing"

	"github.com/nspcc-dev/neo-go/pkg/config/netmode"
	"github.com/nspcc-dev/neo-go/pkg/core/interop/interopnames"
	"github.com/nspcc-dev/neo-go/pkg/core/state"
	"github.com/nspcc-dev/neo-go/pkg/core/transaction"
	"github.com/nspcc-dev/neo-go/pkg/crypto/keys"
	"github.com/nspcc-dev/neo-go/pkg/io"
	"github.com/nspcc-dev/neo-go/pkg/neotest"
	"github.com/nspcc-dev/neo-go/pkg/smartcontract"
	"github.com/nspcc-dev/neo-go/pkg/smartcontract/callflag"
	"github.com/nspcc-dev/neo-go/pkg/util"
	"github.com/nspcc-dev/neo-go/pkg/vm/emit"
	"github.com/nspcc-dev/neo-go/pkg/vm/opcode"
	"github.com/nspcc-dev/neo-go/pkg/vm/vmstate"
	"github.com/nspcc-dev/neo-go/verifharness/vlib/ev"
	"github.com/nspcc-dev/neo-go/verifharness/vlib/rng"
)

// Permission sequences: inside ONE transaction, calls between deployed
// contracts are interleaved with ContractManagement.update of the caller
// (its permissions change) or of the callee (its groups change). Every call
// must be decided by the manifests in force at the moment of that call: the
// reference keeps the current permissions / groups of every contract while it
// walks the sequence and applies refMayCall to each call step. Every step is a
// fresh invocation from the entry script, so the manifest in force for a
// caller is the stored one both before and after Domovoi.
//
// A failing call faults the whole transaction (interop errors are not
// catchable), so a sequence is observed as "how many of its calls reached the
// callee" (contexts entered, seen by the monitor) and compared with the number
// of leading calls the reference allows.

type seqStep struct {
	Kind   string // "call" | "update-caller" | "update-callee"
	Caller int    // index into seq callers (call / update-caller)
	Callee int    // index into seq callees (call / update-callee)
	Method string
	Perms  []permSpec // update-caller: the new permissions (the update permission is always kept)
	Groups []int      // update-callee: indexes of the new groups
}

func (s seqStep) String() string {
	switch s.Kind {
	case "call":
		return fmt.Sprintf("%c->A%d.%s", 'B'+s.Caller, s.Callee, s.Method)
	case "update-caller":
		var ps []string
		for _, p := range s.Perms {
			ps = append(ps, permText(p))
		}
		return fmt.Sprintf("update %c perms={%s}", 'B'+s.Caller, strings.Join(ps, ";"))
	default:
		return fmt.Sprintf("update A%d groups=%v", s.Callee, s.Groups)
	}
}

func permText(p permSpec) string {
	c := "*"
	switch p.Kind {
	case "hash":
		c = "hash:" + p.Hash.StringLE()[:6]
	case "group":
		c = "group:" + p.Key[:8]
	}
	m := "*"
	if !p.AnyMethod {
		m = "[" + strings.Join(p.Methods, ",") + "]"
	}
	return c + "/" + m
}

type seqWorld struct {
	v           *env
	stage       string
	g           []*keys.PrivateKey
	gkeys       []string
	mgmt        util.Uint160
	callees     []*calleeSpec
	callers     []*callerSpec
	calleeMeths []map[string]any
	callerMeths []map[string]any
	updPerm     permSpec
}

// updScript emits upd(nef, manifest): ContractManagement.update(nef, manifest), returns 1.
func emitUpd(w *io.BinWriter, mgmt util.Uint160) {
	emit.Instruction(w, opcode.INITSLOT, []byte{0, 2})
	emit.Opcodes(w, opcode.LDARG1, opcode.LDARG0, opcode.PUSH2, opcode.PACK)
	emit.Int(w, int64(callflag.All))
	emit.String(w, "update")
	emit.Bytes(w, mgmt.BytesBE())
	emit.Syscall(w, interopnames.SystemContractCall)
	emit.Opcodes(w, opcode.DROP, opcode.PUSH1, opcode.RET)
}

func (sw *seqWorld) calleeManifest(ci int, groups []int) []byte {
	c := sw.callees[ci]
	var gs []map[string]any
	for _, gi := range groups {
		k := sw.g[gi]
		gs = append(gs, map[string]any{"pubkey": sw.gkeys[gi], "signature": base64.StdEncoding.EncodeToString(k.Sign(c.Hash.BytesBE()))})
	}
	return manifestJSON(c.Name, gs, sw.calleeMeths, []permSpec{sw.updPerm})
}

func (sw *seqWorld) callerManifest(bi int, perms []permSpec) []byte {
	ps := append([]permSpec{}, perms...)
	ps = append(ps, sw.updPerm)
	return manifestJSON(sw.callers[bi].Name, nil, sw.callerMeths, ps)
}

// script renders a sequence (prefixed by the updates that establish its
// initial state) as one entry script.
func (sw *seqWorld) script(initPerms [][]permSpec, initGroups [][]int, steps []seqStep) []byte {
	w := io.NewBufBinWriter()
	call := func(h util.Uint160, m string, args ...any) {
		emit.AppCall(w.BinWriter, h, m, callflag.All, args...)
		emit.Opcodes(w.BinWriter, opcode.DROP)
	}
	for ci := range sw.callees {
		call(sw.callees[ci].Hash, "upd", nil, sw.calleeManifest(ci, initGroups[ci]))
	}
	for bi := range sw.callers {
		call(sw.callers[bi].Hash, "upd", nil, sw.callerManifest(bi, initPerms[bi]))
	}
	for _, s := range steps {
		switch s.Kind {
		case "call":
			call(sw.callers[s.Caller].Hash, "dyn", sw.callees[s.Callee].Hash, s.Method)
		case "update-caller":
			call(sw.callers[s.Caller].Hash, "upd", nil, sw.callerManifest(s.Caller, s.Perms))
		case "update-callee":
			call(sw.callees[s.Callee].Hash, "upd", nil, sw.calleeManifest(s.Callee, s.Groups))
		}
	}
	emit.Opcodes(w.BinWriter, opcode.PUSH1)
	if w.Err != nil {
		panic(w.Err)
	}
	return w.Bytes()
}

type seqCase struct {
	Family     string
	InitPerms  [][]permSpec
	InitGroups [][]int
	Steps      []seqStep
}

// reference walks the sequence; it returns for every call step whether it is
// allowed by the manifests in force at that moment, and a description of what
// happened before each call (used for violation signatures).
func (sw *seqWorld) reference(sc *seqCase) (allowed []bool, context []string) {
	perms := make([][]permSpec, len(sc.InitPerms))
	copy(perms, sc.InitPerms)
	groups := make([][]int, len(sc.InitGroups))
	copy(groups, sc.InitGroups)
	type key struct {
		b, a int
		m    string
	}
	// what changed since the last allowed identical call
	sinceAllowed := map[key]map[string]bool{}
	callerChanged := map[int]bool{}
	calleeChanged := map[int]bool{}
	for _, s := range sc.Steps {
		switch s.Kind {
		case "update-caller":
			perms[s.Caller] = s.Perms
			callerChanged[s.Caller] = true
			for k, ch := range sinceAllowed {
				if k.b == s.Caller {
					ch["caller-updated"] = true
				}
			}
		case "update-callee":
			groups[s.Callee] = s.Groups
			calleeChanged[s.Callee] = true
			for k, ch := range sinceAllowed {
				if k.a == s.Callee {
					ch["callee-updated"] = true
				}
			}
		case "call":
			var gk []string
			for _, gi := range groups[s.Callee] {
				gk = append(gk, sw.gkeys[gi])
			}
			safe := s.Method == "s"
			ok := safe || refMayCall(perms[s.Caller], sw.callees[s.Callee].Hash, gk, s.Method)
			k := key{s.Caller, s.Callee, s.Method}
			ctx := "no-earlier-identical-call-in-tx"
			if ch, seen := sinceAllowed[k]; seen {
				var l []string
				for _, n := range []string{"caller-updated", "callee-updated"} {
					if ch[n] {
						l = append(l, n)
					}
				}
				if len(l) == 0 {
					l = []string{"nothing-updated"}
				}
				ctx = "same-call-permitted-earlier-in-tx:then-" + strings.Join(l, "+")
			} else if callerChanged[s.Caller] || calleeChanged[s.Callee] {
				ctx += ":after-update-in-tx"
			}
			allowed = append(allowed, ok)
			context = append(context, ctx)
			if ok && !safe {
				sinceAllowed[k] = map[string]bool{}
			}
		}
	}
	return allowed, context
}

func permSequences(t *testing.T, run *ev.Run, stage string) {
	v := newEnv(t, stage)
	e, bc, val := v.e, v.bc, v.val
	sender := val.ScriptHash()
	sw := &seqWorld{v: v, stage: stage, mgmt: bc.ManagementContractHash()}
	sw.g = []*keys.PrivateKey{detKey("group1"), detKey("group2"), detKey("group-unrelated")}
	for _, k := range sw.g {
		sw.gkeys = append(sw.gkeys, hex.EncodeToString(k.PublicKey().Bytes()))
	}
	sw.updPerm = permSpec{Kind: "hash", Hash: sw.mgmt, Methods: []string{"update"}}

	// callee code: m1, m2, s (safe), upd
	w := io.NewBufBinWriter()
	for _, m := range calleeMethods {
		sw.calleeMeths = append(sw.calleeMeths, method(m.Name, w.Len(), m.Safe))
		emit.Int(w.BinWriter, m.Ret)
		emit.Opcodes(w.BinWriter, opcode.RET)
	}
	sw.calleeMeths = append(sw.calleeMeths, method("upd", w.Len(), false, [2]string{"n", "Any"}, [2]string{"m", "ByteArray"}))
	emitUpd(w.BinWriter, sw.mgmt)
	calleeNEF := mkNEF(w.Bytes(), nil)
	// caller code: dyn, upd
	w = io.NewBufBinWriter()
	sw.callerMeths = append(sw.callerMeths, method("dyn", 0, false, [2]string{"h", "Hash160"}, [2]string{"m", "String"}))
	emit.Instruction(w.BinWriter, opcode.INITSLOT, []byte{0, 2})
	emit.Opcodes(w.BinWriter, opcode.NEWARRAY0)
	emit.Int(w.BinWriter, int64(callflag.All))
	emit.Opcodes(w.BinWriter, opcode.LDARG1, opcode.LDARG0)
	emit.Syscall(w.BinWriter, interopnames.SystemContractCall)
	emit.Opcodes(w.BinWriter, opcode.RET)
	sw.callerMeths = append(sw.callerMeths, method("upd", w.Len(), false, [2]string{"n", "Any"}, [2]string{"m", "ByteArray"}))
	emitUpd(w.BinWriter, sw.mgmt)
	callerNEF := mkNEF(w.Bytes(), nil)

	sw.callees = []*calleeSpec{{Name: "seqCalleeA0"}, {Name: "seqCalleeA1"}}
	sw.callers = []*callerSpec{{Name: "seqCallerB"}, {Name: "seqCallerC"}}
	var deps []deployment
	for _, c := range sw.callees {
		c.Hash = state.CreateContractHash(sender, calleeNEF.Checksum, c.Name)
		v.names[c.Hash] = c.Name
	}
	for _, c := range sw.callers {
		c.Hash = state.CreateContractHash(sender, callerNEF.Checksum, c.Name)
		v.names[c.Hash] = c.Name
	}
	for ci, c := range sw.callees {
		deps = append(deps, deployment{c.Name, c.Hash, calleeNEF, sw.calleeManifest(ci, nil)})
	}
	for bi, c := range sw.callers {
		deps = append(deps, deployment{c.Name, c.Hash, callerNEF, sw.callerManifest(bi, nil)})
	}
	var txs []*transaction.Transaction
	for _, d := range deps {
		nb, err := d.nef.Bytes()
		if err != nil {
			t.Fatal(err)
		}
		script, err := smartcontract.CreateCallScript(sw.mgmt, "deploy", nb, d.mf, nil)
		if err != nil {
			t.Fatal(err)
		}
		tx := transaction.New(script, 0)
		tx.Nonce = neotest.Nonce()
		tx.ValidUntilBlock = bc.BlockHeight() + 1
		tx.Signers = []transaction.Signer{{Account: sender, Scopes: transaction.Global}}
		neotest.AddNetworkFee(t, bc, tx, val)
		e.AddSystemFee(tx, -1)
		if err := val.SignTx(netmode.UnitTestNet, tx); err != nil {
			t.Fatal(err)
		}
		txs = append(txs, tx)
	}
	e.AddNewBlock(t, txs...)
	for k, tx := range txs {
		aer, err := bc.GetAppExecResults(tx.Hash(), 0x40)
		if err != nil || len(aer) != 1 || aer[0].VMState != vmstate.Halt || bc.GetContractState(deps[k].hash) == nil {
			fe := ""
			if len(aer) == 1 {
				fe = aer[0].FaultException
			}
			t.Fatalf("deployment of %s failed: %v %s", deps[k].name, err, fe)
		}
	}

	// --- the sequences --------------------------------------------------------
	descFor := func(ci int) []permSpec {
		return []permSpec{
			{Kind: "*"},
			{Kind: "hash", Hash: sw.callees[ci].Hash},
			{Kind: "hash", Hash: sw.callees[1-ci].Hash},
			{Kind: "group", Key: sw.gkeys[0]}, {Kind: "group", Key: sw.gkeys[1]}, {Kind: "group", Key: sw.gkeys[2]},
		}
	}
	type ml struct {
		any bool
		l   []string
	}
	lists := []ml{{true, nil}, {false, []string{"m1"}}, {false, []string{"m2"}}, {false, []string{}}, {false, []string{"zz"}}}
	with := func(d permSpec, l ml) permSpec {
		d.AnyMethod, d.Methods = l.any, l.l
		return d
	}
	wild := []permSpec{{Kind: "*", AnyMethod: true}}
	initG := [][]int{nil, {0}} // A0 without groups, A1 in group 1
	callB := func(ci int, m string) seqStep { return seqStep{Kind: "call", Caller: 0, Callee: ci, Method: m} }
	callC := func(ci int, m string) seqStep { return seqStep{Kind: "call", Caller: 1, Callee: ci, Method: m} }
	var cases []*seqCase
	for ci := range sw.callees {
		for _, d := range descFor(ci) {
			for _, l := range lists {
				p1 := with(d, l)
				// (a) the caller is updated between two identical calls
				after := [][]permSpec{nil, {with(d, ml{false, []string{}})}, {with(d, ml{false, []string{"m2"}})}, {with(d, ml{true, nil})},
					{with(permSpec{Kind: "hash", Hash: util.Uint160{0xde, 0xad}}, ml{true, nil})}, {with(permSpec{Kind: "group", Key: sw.gkeys[2]}, ml{true, nil})}}
				for _, p2 := range after {
					upd := seqStep{Kind: "update-caller", Caller: 0, Perms: p2}
					cases = append(cases,
						&seqCase{"caller-updated-between-calls", [][]permSpec{{p1}, wild}, initG, []seqStep{callB(ci, "m1"), upd, callB(ci, "m1")}},
						// (c) control: the first call is made by another caller
						&seqCase{"caller-updated-first-call-by-other-caller", [][]permSpec{{p1}, wild}, initG, []seqStep{callC(ci, "m1"), upd, callB(ci, "m1")}},
						// permission added, then used
						&seqCase{"caller-gains-permission", [][]permSpec{p2, wild}, initG, []seqStep{callC(ci, "m1"), {Kind: "update-caller", Caller: 0, Perms: []permSpec{p1}}, callB(ci, "m1")}})
				}
				// (b) the callee's groups change between two identical calls
				for _, ng := range [][]int{nil, {1}, {0, 1}, {0}, {2}} {
					upd := seqStep{Kind: "update-callee", Callee: ci, Groups: ng}
					cases = append(cases,
						&seqCase{"callee-groups-updated-between-calls", [][]permSpec{{p1}, wild}, initG, []seqStep{callB(ci, "m1"), upd, callB(ci, "m1")}},
						&seqCase{"callee-groups-updated-first-call-by-other-caller", [][]permSpec{{p1}, wild}, initG, []seqStep{callC(ci, "m1"), upd, callB(ci, "m1")}})
				}
			}
		}
	}
	// seeded random sequences over both callers, both callees, all methods
	r := rng.New(0x5e9c16)
	randPerm := func(ci int) permSpec {
		ds := descFor(ci)
		return with(ds[r.Intn(len(ds))], lists[r.Intn(len(lists))])
	}
	randPerms := func() []permSpec {
		n := r.Intn(3)
		var ps []permSpec
		used := map[string]bool{}
		for len(ps) < n {
			p := randPerm(r.Intn(2))
			k := p.Kind + p.Hash.StringLE() + p.Key
			if used[k] {
				continue // a manifest may not carry two permissions for one descriptor
			}
			used[k] = true
			ps = append(ps, p)
		}
		return ps
	}
	randGroups := func() []int {
		return [][]int{nil, {0}, {1}, {0, 1}, {2}}[r.Intn(5)]
	}
	for range ev.Pick(1500, 120000) {
		sc := &seqCase{Family: "random", InitPerms: [][]permSpec{randPerms(), randPerms()}, InitGroups: [][]int{randGroups(), randGroups()}}
		n := 3 + r.Intn(5)
		for range n {
			switch r.Intn(10) {
			case 0, 1:
				sc.Steps = append(sc.Steps, seqStep{Kind: "update-caller", Caller: r.Intn(2), Perms: randPerms()})
			case 2, 3:
				sc.Steps = append(sc.Steps, seqStep{Kind: "update-callee", Callee: r.Intn(2), Groups: randGroups()})
			default:
				sc.Steps = append(sc.Steps, seqStep{Kind: "call", Caller: r.Intn(2), Callee: r.Intn(2), Method: []string{"m1", "m1", "m2", "s"}[r.Intn(4)]})
			}
		}
		cases = append(cases, sc)
	}

	// manifest-only updates that move a method's entry into the middle of an
	// instruction (the operand of the PUSHINT8 each callee method starts with) or
	// past the end of the script: the update itself must fail, nothing may ever be
	// executed from such an offset. The instruction-boundary rule is part of the
	// protocol from Basilisk on (chains before it accept such a manifest, and have
	// to: it is frozen history); the range rule holds on every chain.
	basilisk := config.HFBasilisk
	for bi, shift := range []int{1, 2000} {
		id := fmt.Sprintf("perm-seq/%s/manifest-update-with-method-offset-off-instruction-boundary/%d", stage, bi)
		if !run.Want(id) {
			continue
		}
		if shift == 1 && !bc.IsHardforkEnabled(&basilisk, bc.BlockHeight()+1) {
			run.Obs("manifest_updates_with_method_offset_off_boundary_not_judged_before_Basilisk", 1)
			continue
		}
		var meths []map[string]any
		for i, m := range sw.calleeMeths {
			mm := map[string]any{}
			for k, x := range m {
				mm[k] = x
			}
			if i == 1 {
				mm["offset"] = m["offset"].(int) + shift
			}
			meths = append(meths, mm)
		}
		bad := manifestJSON(sw.callees[0].Name, nil, meths, []permSpec{sw.updPerm})
		w := io.NewBufBinWriter()
		emit.AppCall(w.BinWriter, sw.callees[0].Hash, "upd", callflag.All, nil, bad)
		emit.Opcodes(w.BinWriter, opcode.DROP, opcode.PUSH1)
		o, err := v.run(&invocation{Script: w.Bytes(), EntryFlags: callflag.All})
		run.Case(id, true)
		run.Obs("manifest_updates_with_method_offset_off_boundary_offered", 1)
		if o != nil && os.Getenv("C16_DEBUG") != "" {
			fmt.Println("DEBUG bad-offset update:", o.Halted, o.Fault)
		}
		if err != nil {
			violation(stage, "panic-escaped-vm:manifest-update-with-bad-method-offset", id, err.Error(), nil)
		} else if o.Halted {
			violation(stage, "update-accepted:method-offset-off-instruction-boundary", id, fmt.Sprintf("ContractManagement.update(nil, manifest) with method %q at offset +%d was accepted", calleeMethods[1].Name, shift), map[string]any{"script": hex.EncodeToString(w.Bytes())})
		}
	}

	cnt := &counters{m: map[string]int64{}}
	calleeSet := map[util.Uint160]bool{}
	for _, c := range sw.callees {
		calleeSet[c.Hash] = true
	}
	callerSet := map[util.Uint160]bool{}
	for _, c := range sw.callers {
		callerSet[c.Hash] = true
	}
	describe := func(sc *seqCase) []string {
		var l []string
		for bi, ps := range sc.InitPerms {
			l = append(l, seqStep{Kind: "update-caller", Caller: bi, Perms: ps}.String()+" (initial)")
		}
		for ci, gs := range sc.InitGroups {
			l = append(l, seqStep{Kind: "update-callee", Callee: ci, Groups: gs}.String()+" (initial)")
		}
		for _, s := range sc.Steps {
			l = append(l, s.String())
		}
		return l
	}
	judge := func(sc *seqCase, id string, reached int, halted bool, fault, where string, script []byte) {
		allowed, ctxs := sw.reference(sc)
		want := 0
		for want < len(allowed) && allowed[want] {
			want++
		}
		wit := map[string]any{"stage": stage, "family": sc.Family, "sequence": describe(sc), "reference_allows_calls": allowed,
			"calls_that_reached_the_callee": reached, "halted": halted, "fault": fault, "executed": where, "script": hex.EncodeToString(script)}
		switch {
		case reached > want:
			violation(stage, "perm-seq:call-succeeded-without-matching-permission:"+ctxs[want], id,
				fmt.Sprintf("call #%d of the sequence reached the callee although no permission in force at that moment matches (%s); sequence: %s", want+1, ctxs[want], strings.Join(describe(sc), " | ")), wit)
		case reached < want:
			violation(stage, "perm-seq:call-failed-despite-matching-permission:"+ctxs[reached], id,
				fmt.Sprintf("call #%d of the sequence did not reach the callee (%s) although a permission in force matches (%s); sequence: %s", reached+1, fault, ctxs[reached], strings.Join(describe(sc), " | ")), wit)
		case halted != (want == len(allowed)):
			violation(stage, fmt.Sprintf("perm-seq:transaction-state-differs:halted=%v", halted), id,
				fmt.Sprintf("all calls decided as the reference says, but halted=%v (%s)", halted, fault), wit)
		}
	}
	var mu sync.Mutex
	shapes := map[string]bool{}
	ids := make([]string, len(cases))
	parallel(len(cases), func(i int) {
		sc := cases[i]
		id := fmt.Sprintf("perm-seq/%s/%s/%d", stage, sc.Family, i)
		ids[i] = id
		if !run.Want(id) {
			return
		}
		script := sw.script(sc.InitPerms, sc.InitGroups, sc.Steps)
		o, err := v.run(&invocation{Script: script, EntryFlags: callflag.All})
		if err != nil {
			violation(stage, "panic-escaped-vm:perm-seq", id, err.Error(), map[string]any{"script": hex.EncodeToString(script)})
			return
		}
		reached := 0
		for _, c := range o.Calls {
			if calleeSet[c.CalleeHash] && callerSet[c.By.Hash] {
				reached++
			}
		}
		allowed, ctxs := sw.reference(sc)
		sig := fmt.Sprintf("perm-seq/%s/%s/%v/%v/reached=%d/halt=%v", stage, sc.Family, allowed, ctxs, reached, o.Halted)
		run.Case(sig, len(o.Calls) > 0)
		cnt.add("sequences", 1)
		cnt.add("calls_that_reached_callee", int64(reached))
		denied := false
		for k, a := range allowed {
			if !a {
				denied = true
				if strings.HasPrefix(ctxs[k], "same-call-permitted-earlier") {
					cnt.add("sequences_where_reference_revokes_an_earlier_permitted_call", 1)
				}
				break
			}
		}
		if denied {
			cnt.add("sequences_with_a_denied_call", 1)
		}
		if o.Halted {
			cnt.add("sequences_halted", 1)
		} else if strings.Contains(o.Fault, "disallowed method call") {
			cnt.add("sequences_refused_by_permission_check", 1)
		} else {
			cnt.add("sequences_failed_otherwise", 1)
		}
		mu.Lock()
		shapes[sc.Family] = true
		mu.Unlock()
		judge(sc, id, reached, o.Halted, o.Fault, "test invocation", script)
		if i%397 == 0 {
			run.Sample(map[string]any{"case": id, "sequence": describe(sc), "reference_allows_calls": allowed, "reached": reached, "halted": o.Halted})
		}
	})

	// --- a sample in real transactions ----------------------------------------
	// Sequences are self-initialising (they start by updating every contract to
	// their initial state), so persisted updates of one do not disturb the next.
	user := neotest.Signer(v.user)
	var sample []int
	for i, sc := range cases {
		if !run.Want(ids[i]) {
			continue
		}
		if i%29 == 0 || (sc.Family != "random" && i%17 == 3) {
			sample = append(sample, i)
		}
	}
	if len(sample) > ev.Pick(96, 600) {
		sample = sample[:ev.Pick(96, 600)]
	}
	for _, i := range sample {
		sc := cases[i]
		script := sw.script(sc.InitPerms, sc.InitGroups, sc.Steps)
		tx := transaction.New(script, 0)
		tx.Nonce = neotest.Nonce()
		tx.ValidUntilBlock = bc.BlockHeight() + 1
		e.SignTx(t, tx, 20_0000_0000, user)
		// one transaction per block: every sequence starts from persisted state
		e.AddNewBlock(t, tx)
		aer, err := bc.GetAppExecResults(tx.Hash(), 0x40)
		if err != nil || len(aer) != 1 {
			run.Inconclusive("on-chain permission sequence: no execution result: %v", err)
			continue
		}
		// In a block only HALT / FAULT is visible: compare with "all calls allowed".
		allowed, ctxs := sw.reference(sc)
		all := true
		first := 0
		for k, a := range allowed {
			if !a {
				all = false
				first = k
				break
			}
		}
		halted := aer[0].VMState == vmstate.Halt
		cnt.add("sequences_executed_in_blocks", 1)
		run.Case("perm-seq-onchain/"+ids[i], true)
		wit := map[string]any{"stage": stage, "family": sc.Family, "sequence": describe(sc), "reference_allows_calls": allowed, "halted": halted,
			"fault": aer[0].FaultException, "executed": fmt.Sprintf("transaction %s in block %d", tx.Hash().StringLE(), bc.BlockHeight()), "script": hex.EncodeToString(script)}
		if halted && !all {
			violation(stage, "perm-seq:call-succeeded-without-matching-permission:"+ctxs[first], ids[i],
				fmt.Sprintf("transaction HALTed although call #%d has no matching permission in force (%s); sequence: %s", first+1, ctxs[first], strings.Join(describe(sc), " | ")), wit)
		} else if !halted && all {
			violation(stage, "perm-seq:call-failed-despite-matching-permission:in-block", ids[i],
				fmt.Sprintf("transaction FAULTed (%s) although every call has a matching permission in force; sequence: %s", aer[0].FaultException, strings.Join(describe(sc), " | ")), wit)
		}
	}
	cnt.flush(run, "permseq_")
	run.Obs("permseq_families_"+stage, int64(len(shapes)))
}

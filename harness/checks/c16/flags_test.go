package c16

import (
	"encoding/hex"
	"fmt"
	"runtime"
	"sort"
	"strings"
	"sync"

	"github.com/nspcc-dev/neo-go/pkg/core/interop/interopnames"
	"github.com/nspcc-dev/neo-go/pkg/io"
	"github.com/nspcc-dev/neo-go/pkg/smartcontract/callflag"
	"github.com/nspcc-dev/neo-go/pkg/smartcontract/trigger"
	"github.com/nspcc-dev/neo-go/pkg/util"
	"github.com/nspcc-dev/neo-go/pkg/vm/emit"
	"github.com/nspcc-dev/neo-go/pkg/vm/stackitem"
	"github.com/nspcc-dev/neo-go/verifharness/vlib/ev"
	"github.com/nspcc-dev/neo-go/verifharness/vlib/rng"
)

// parallel runs f(i) for i in [0,n) on all cores.
func parallel(n int, f func(i int)) {
	var wg sync.WaitGroup
	ch := make(chan int, 64)
	for range runtime.GOMAXPROCS(0) {
		wg.Add(1)
		go func() {
			defer wg.Done()
			for i := range ch {
				f(i)
			}
		}()
	}
	for i := range n {
		ch <- i
	}
	close(ch)
	wg.Wait()
}

type counters struct {
	mu sync.Mutex
	m  map[string]int64
}

func (c *counters) add(k string, n int64) {
	c.mu.Lock()
	c.m[k] += n
	c.mu.Unlock()
}

func (c *counters) flush(run *ev.Run, prefix string) {
	for k, n := range c.m {
		run.Obs(prefix+k, n)
	}
}

// report sends the monitor's verdicts of one outcome to the run.
func report(run *ev.Run, v *env, o *outcome, caseID string, witness map[string]any) {
	if o.TransientFlagless > 0 {
		run.Obs("discarded_effects_made_without_the_flag", int64(o.TransientFlagless))
	}
	for _, fv := range o.verdicts(v) {
		w := map[string]any{"stage": v.stage, "outcome": o.summary(v.name), "fault": o.Fault}
		for k, x := range witness {
			w[k] = x
		}
		violation(v.stage, fv.Sig, caseID, fv.Detail, w)
	}
}

func effectClass(o *outcome) string {
	s := ""
	if len(o.FinalWrites) > 0 {
		s += "W"
	}
	if len(o.FinalNotifs) > 0 {
		s += "N"
	}
	if len(o.Calls) > 1 {
		s += "C"
	}
	if s == "" {
		s = "-"
	}
	return s
}

// runNatives: every method of every active native × call flag sets.
func runNatives(run *ev.Run, v *env, ws *witnessState, entryFlags []callflag.CallFlag) {
	cases := append(v.typedCases(), v.witnessCases(ws)...)
	type cell struct {
		c *nativeCase
		e callflag.CallFlag
		f callflag.CallFlag
	}
	var cells []cell
	for _, c := range cases {
		for _, e := range entryFlags {
			for f := callflag.CallFlag(0); f <= callflag.All; f++ {
				cells = append(cells, cell{c, e, f})
			}
		}
	}
	cnt := &counters{m: map[string]int64{}}
	var mu sync.Mutex
	effects := map[string]string{}    // method -> union of effect classes seen under full flags
	minFlags := map[string][]string{} // case -> flag sets under which it halted with its full effect
	methods := map[string]bool{}
	safeMethods := map[string]bool{}
	asActor := map[string]bool{} // natives seen writing / notifying while being called by another native
	parallel(len(cells), func(i int) {
		cl := cells[i]
		c := cl.c
		id := fmt.Sprintf("native/%s/%s/e=%s/f=%s", v.stage+v.variant, c.id(), fstr(cl.e), fstr(cl.f))
		if !run.Want(id) {
			return
		}
		inv, err := c.Build(cl.f)
		if err != nil {
			cnt.add("script_build_failed", 1)
			return
		}
		inv.EntryFlags = cl.e
		o, err := v.run(inv)
		if err != nil {
			violation(v.stage, "panic-escaped-vm:native:"+c.Contract+"."+c.Method, id, err.Error(), map[string]any{"script": hex.EncodeToString(inv.Script)})
			return
		}
		reached := len(o.Calls) > 0
		run.Case(fmt.Sprintf("native/%s/%s/e=%s/f=%s/%s", v.stage+v.variant, c.id(), fstr(cl.e), fstr(cl.f), o.summary(v.name)), reached)
		cnt.add("cells", 1)
		if o.Halted {
			cnt.add("halted", 1)
		} else {
			cnt.add("faulted", 1)
			if strings.Contains(o.Fault, "missing call flags") {
				cnt.add("refused_for_missing_flags", 1)
			}
			if o.TransientWrites > 0 {
				cnt.add("writes_discarded_by_fault", int64(o.TransientWrites))
			}
		}
		cnt.add("final_writes", int64(len(o.FinalWrites)))
		cnt.add("final_notifications", int64(len(o.FinalNotifs)))
		cnt.add("contexts_entered", int64(len(o.Calls)))
		wit := map[string]any{"case": c.id(), "entry_flags": fstr(cl.e), "call_flags": fstr(cl.f), "script": hex.EncodeToString(inv.Script)}
		report(run, v, o, id, wit)
		if c.Safe && o.Halted && len(o.FinalWrites) > 0 {
			w := o.FinalWrites[0]
			violation(v.stage, "safe-method-changed-state:native:"+c.Contract+"."+c.Method, id,
				fmt.Sprintf("safe method %s.%s called with flags %s HALTed with storage change %s made by %s", c.Contract, c.Method, fstr(cl.f), fmtKey(w.Key), v.name(w.By.Hash)), wit)
		}
		mname := c.Contract + "." + c.Method + "/" + fmt.Sprint(c.NParams)
		mu.Lock()
		methods[mname] = true
		if c.Safe {
			safeMethods[mname] = true
		}
		if cl.e == callflag.All && cl.f == callflag.All && o.Halted {
			for _, w := range o.FinalWrites {
				asActor[v.actor(w.By)] = true
			}
			for _, n := range o.FinalNotifs {
				asActor[v.actor(n.By)] = true
			}
			ec := effectClass(o)
			for _, ch := range ec {
				if ch != '-' && !strings.ContainsRune(effects[mname], ch) {
					effects[mname] += string(ch)
				}
			}
			if _, ok := effects[mname]; !ok {
				effects[mname] = ""
			}
		}
		if cl.e == callflag.All && o.Halted && effectClass(o) != "-" && c.Label != "typed" {
			minFlags[c.id()] = append(minFlags[c.id()], fstr(cl.f))
		}
		mu.Unlock()
		if cl.e == callflag.All && cl.f == callflag.All && c.Label != "typed" {
			run.Sample(map[string]any{"case": id, "outcome": o.summary(v.name)})
		}
	})
	cnt.flush(run, "native_")
	notExercised, exercised := []string{}, []string{}
	nonSafe := 0
	for m := range methods {
		if safeMethods[m] {
			continue
		}
		nonSafe++
		if effects[m] == "" && asActor["native:"+m[:strings.LastIndex(m, "/")]] {
			exercised = append(exercised, m+":as-callee-of-another-native")
		} else if effects[m] == "" {
			notExercised = append(notExercised, m)
		} else {
			exercised = append(exercised, m+":"+effects[m])
		}
	}
	sort.Strings(notExercised)
	sort.Strings(exercised)
	if v.variant != "" {
		run.Obs("native_methods"+v.variant, int64(len(methods)))
		run.Obs("native_nonsafe_methods_with_effect_witness"+v.variant, int64(len(exercised)))
		cnt.flush(run, "native"+v.variant+"_")
		return
	}
	run.Obs("native_methods_"+v.stage, int64(len(methods)))
	run.Obs("native_safe_methods_"+v.stage, int64(len(safeMethods)))
	run.Obs("native_nonsafe_methods_with_effect_witness_"+v.stage, int64(len(exercised)))
	run.Obs("native_nonsafe_methods_without_effect_witness_"+v.stage, int64(len(notExercised)))
	run.Note("native_effect_witnesses_"+v.stage, exercised)
	run.Note("native_nonsafe_not_exercised_"+v.stage, notExercised)
	if v.stage == "all" {
		ks := make([]string, 0, len(minFlags))
		for k := range minFlags {
			sort.Strings(minFlags[k])
			ks = append(ks, k+" effectful under "+strings.Join(minFlags[k], ","))
		}
		sort.Strings(ks)
		run.Note("native_witness_flag_sets_with_effect", ks)
	}
}

// runSyscalls: every registered system call × sixteen flag sets, executed
// under the identity of probe A.
func runSyscalls(run *ev.Run, v *env) {
	cases, bare, err := v.sysCases()
	if err != nil {
		run.Inconclusive("syscall table not available: %v", err)
		return
	}
	run.Note("syscalls_called_without_arguments_"+v.stage, bare)
	cnt := &counters{m: map[string]int64{}}
	var mu sync.Mutex
	halts := map[string][]string{}
	names := map[string]bool{}
	// every cell under the Application trigger and again as witness verification
	// code (trigger Verification): the flags of a context confine it whatever the
	// execution is for
	parallel(len(cases)*32, func(i int) {
		c := cases[i/32]
		f := callflag.CallFlag(i % 16)
		trig, tname := trigger.Application, ""
		if (i/16)%2 == 1 {
			trig, tname = trigger.Verification, "/verification-trigger"
		}
		id := fmt.Sprintf("syscall/%s/%s/f=%s%s", v.stage, c.id(), fstr(f), tname)
		if !run.Want(id) {
			return
		}
		h := v.probes[0].Hash
		o, err := v.run(&invocation{Script: c.Script, EntryFlags: f, AsHash: &h, Preload: c.Preload, Trigger: trig})
		if err != nil {
			violation(v.stage, "panic-escaped-vm:syscall:"+c.Name, id, err.Error(), map[string]any{"script": hex.EncodeToString(c.Script)})
			return
		}
		run.Case(fmt.Sprintf("syscall/%s/%s/f=%s%s/%s", v.stage, c.id(), fstr(f), tname, o.summary(v.name)), o.Instrs > 0)
		cnt.add("cells", 1)
		if trig == trigger.Verification {
			cnt.add("cells_under_the_verification_trigger", 1)
		}
		if o.Halted {
			cnt.add("halted", 1)
		} else if strings.Contains(o.Fault, "missing call flags") {
			cnt.add("refused_for_missing_flags", 1)
		}
		cnt.add("final_writes", int64(len(o.FinalWrites)))
		cnt.add("final_notifications", int64(len(o.FinalNotifs)))
		cnt.add("contexts_entered", int64(len(o.Calls)))
		report(run, v, o, id, map[string]any{"syscall": c.id(), "flags": fstr(f), "script": hex.EncodeToString(c.Script), "runs_as": "probeA"})
		mu.Lock()
		names[c.Name] = true
		if o.Halted && trig == trigger.Application {
			halts[c.id()] = append(halts[c.id()], fstr(f))
		}
		mu.Unlock()
	})
	cnt.flush(run, "syscall_")
	run.Obs("syscalls_in_table_"+v.stage, int64(len(names)))
	if v.stage == "all" {
		var tab []string
		for _, c := range cases {
			if c.Effect {
				sort.Strings(halts[c.id()])
				tab = append(tab, c.id()+" halts under "+strings.Join(halts[c.id()], ","))
			}
		}
		run.Note("effectful_syscall_flag_sets_that_halt", tab)
	}
}

// hop is one link of a call chain: probe instance, method, requested flags.
type hop struct {
	Probe  int
	Method string
	Flags  callflag.CallFlag
}

var chainMethods = []string{"probe", "safeProbe", "tryProbe", "ovProbe", "voProbe"}

// safeChainMethod tells whether the three-parameter method of that name is
// marked safe in the probe's manifest.
func safeChainMethod(m string) bool { return m == "safeProbe" || m == "ovProbe" }

var actNames = map[int]string{0: "none", 1: "put", 2: "notify", 3: "localPut", 4: "delete", 5: "localDelete", 6: "loadScript-notify", 7: "CALLT-GAS.transfer"}

func (v *env) chainScript(hops []hop, act, mid int, key []byte) []byte {
	// innermost first
	var next []any = []any{}
	for i := len(hops) - 1; i >= 1; i-- {
		a := mid
		var k []byte = []byte("k-mid")
		if i == len(hops)-1 {
			a, k = act, key
		}
		next = []any{v.probes[hops[i].Probe].Hash, hops[i].Method, int(hops[i].Flags), a, k, next}
	}
	a := mid
	var k []byte = []byte("k-mid")
	if len(hops) == 1 {
		a, k = act, key
	}
	w := io.NewBufBinWriter()
	emit.AppCall(w.BinWriter, v.probes[hops[0].Probe].Hash, hops[0].Method, hops[0].Flags, a, k, next)
	if w.Err != nil {
		panic(w.Err)
	}
	return w.Bytes()
}

// reportedFlags unpacks the nested [flags, sub] answers of the probes.
func reportedFlags(it stackitem.Item) []int {
	var res []int
	for it != nil {
		arr, ok := it.Value().([]stackitem.Item)
		if !ok || len(arr) != 2 {
			break
		}
		n, err := arr[0].TryInteger()
		if err != nil {
			break
		}
		res = append(res, int(n.Int64()))
		it = arr[1]
	}
	return res
}

// runChains: call chains entry -> A -> B (-> C) with every combination of
// requested flags (all of them for depth 2, a seeded sample for depth 3), safe
// / plain / try-wrapped relays and an effect attempted by the last hop.
func runChains(run *ev.Run, v *env, depth3 int, exhaustive3 bool) {
	type cell struct {
		entry callflag.CallFlag
		hops  []hop
		act   int
		mid   int // effect attempted by every hop before it relays (0 none, 1 put, 2 notify)
	}
	var cells []cell
	acts := []int{0, 1, 2, 3, 4, 6, 7}
	// depth 1: entry flags × requested flags × method × act
	for e := callflag.CallFlag(0); e <= callflag.All; e++ {
		for f := callflag.CallFlag(0); f <= callflag.All; f++ {
			for _, m := range chainMethods {
				for _, a := range acts {
					cells = append(cells, cell{e, []hop{{0, m, f}}, a, 0})
				}
			}
		}
	}
	// depth 2, exhaustive over both requested flag sets
	for f1 := callflag.CallFlag(0); f1 <= callflag.All; f1++ {
		if f1&callflag.ReadOnly != callflag.ReadOnly {
			continue // hop 1 could not relay at all; covered by depth 1
		}
		for f2 := callflag.CallFlag(0); f2 <= callflag.All; f2++ {
			for _, m1 := range chainMethods {
				for _, m2 := range chainMethods {
					for _, a := range acts {
						for mid := 0; mid <= 2; mid++ {
							cells = append(cells, cell{callflag.All, []hop{{0, m1, f1}, {1, m2, f2}}, a, mid})
						}
					}
				}
			}
		}
	}
	if exhaustive3 {
		ro := []callflag.CallFlag{}
		for f := callflag.CallFlag(0); f <= callflag.All; f++ {
			if f&callflag.ReadOnly == callflag.ReadOnly {
				ro = append(ro, f)
			}
		}
		for _, f1 := range ro {
			for _, f2 := range ro {
				for f3 := callflag.CallFlag(0); f3 <= callflag.All; f3++ {
					for _, m1 := range chainMethods {
						for _, m2 := range chainMethods {
							for _, m3 := range chainMethods {
								for _, a := range acts {
									cells = append(cells, cell{callflag.All, []hop{{0, m1, f1}, {1, m2, f2}, {2, m3, f3}}, a, (int(f3) + a) % 3})
								}
							}
						}
					}
				}
			}
		}
	}
	// self-calls: a contract calling its own methods through System.Contract.Call
	// (the first hop does nothing itself, so every effect below belongs to the
	// second one): safety and flags of the called method apply as for any callee
	for f1 := callflag.CallFlag(0); f1 <= callflag.All; f1++ {
		if f1&callflag.ReadOnly != callflag.ReadOnly {
			continue
		}
		for f2 := callflag.CallFlag(0); f2 <= callflag.All; f2++ {
			for _, m1 := range []string{"probe", "tryProbe"} {
				for _, m2 := range chainMethods {
					for _, a := range acts {
						cells = append(cells, cell{callflag.All, []hop{{0, m1, f1}, {0, m2, f2}}, a, 0})
					}
				}
			}
		}
	}
	r := rng.New(0xc16c)
	for range depth3 {
		hs := make([]hop, 3)
		for i := range hs {
			f := callflag.CallFlag(r.Intn(16))
			if i < 2 && r.Chance(3, 4) {
				f |= callflag.ReadOnly
			}
			hs[i] = hop{i, chainMethods[r.Intn(3)], f}
		}
		e := callflag.All
		if r.Chance(1, 4) {
			e = callflag.CallFlag(r.Intn(16)) | callflag.ReadOnly
		}
		cells = append(cells, cell{e, hs, acts[r.Intn(len(acts))], r.Intn(3)})
	}
	notifyScript := asm(func(w *io.BinWriter) {
		emit.Array(w, 5)
		emit.String(w, "Ev")
		emit.Syscall(w, interopnames.SystemRuntimeNotify)
	})
	cnt := &counters{m: map[string]int64{}}
	parallel(len(cells), func(i int) {
		cl := cells[i]
		var sb strings.Builder
		for _, h := range cl.hops {
			fmt.Fprintf(&sb, ">%c.%s:%s", 'A'+h.Probe, h.Method, fstr(h.Flags))
		}
		id := fmt.Sprintf("chain/%s/e=%s%s/act=%s/mid=%s", v.stage, fstr(cl.entry), sb.String(), actNames[cl.act], actNames[cl.mid])
		if !run.Want(id) {
			return
		}
		key := []byte("k-chain")
		switch cl.act {
		case 6:
			key = notifyScript
		case 7:
			key = v.user.ScriptHash().BytesBE()
		}
		script := v.chainScript(cl.hops, cl.act, cl.mid, key)
		o, err := v.run(&invocation{Script: script, EntryFlags: cl.entry})
		if err != nil {
			violation(v.stage, "panic-escaped-vm:chain", id, err.Error(), map[string]any{"script": hex.EncodeToString(script)})
			return
		}
		last := cl.hops[len(cl.hops)-1]
		reached := o.SeenFlags[v.probes[last.Probe].Hash] != nil
		run.Case(id+"/"+o.summary(v.name), reached)
		cnt.add("cells", 1)
		if reached {
			cnt.add("last_hop_reached", 1)
		}
		if o.Halted {
			cnt.add("halted", 1)
		}
		cnt.add("final_writes", int64(len(o.FinalWrites)))
		cnt.add("final_notifications", int64(len(o.FinalNotifs)))
		cnt.add("rolled_back_writes", int64(o.TransientWrites))
		cnt.add("contexts_entered", int64(len(o.Calls)))
		wit := map[string]any{"chain": id, "script": hex.EncodeToString(script)}
		report(run, v, o, id, wit)
		// Flags as read by the callees themselves (GetCallFlags).
		if o.Halted && len(o.Stack) == 1 {
			fl := reportedFlags(o.Stack[0])
			prev := int(cl.entry)
			for k, got := range fl {
				if k >= len(cl.hops) {
					break
				}
				cnt.add("getcallflags_answers", 1)
				req := int(cl.hops[k].Flags)
				if got&^prev != 0 {
					violation(v.stage, "callee-flags-exceed-caller:read-by-GetCallFlags", id,
						fmt.Sprintf("hop %d read flags %04b inside the callee, its caller had %04b", k+1, got, prev), wit)
				}
				if got&^req != 0 {
					violation(v.stage, "callee-flags-exceed-requested:read-by-GetCallFlags", id,
						fmt.Sprintf("hop %d read flags %04b inside the callee, the caller requested %04b", k+1, got, req), wit)
				}
				if got != prev&req && !safeChainMethod(cl.hops[k].Method) {
					cnt.add("callee_flags_differ_from_intersection", 1)
				}
				prev = got
			}
		}
		// Safe methods: nothing written at or below a hop marked safe survives.
		safeFrom := -1
		for k, h := range cl.hops {
			if safeChainMethod(h.Method) {
				safeFrom = k
				break
			}
		}
		if safeFrom >= 0 && o.Halted {
			below := map[util.Uint160]bool{}
			for _, h := range cl.hops[safeFrom:] {
				below[v.probes[h.Probe].Hash] = true
			}
			for _, w := range o.FinalWrites {
				if below[w.By.Hash] {
					violation(v.stage, "safe-method-changed-state:"+v.actor(w.By), id,
						fmt.Sprintf("hop %d is a method marked safe; context %s flags=%s at or below it changed storage %s and the change is in the HALTed result", safeFrom+1, v.name(w.By.Hash), fstr(w.By.Flags), fmtKey(w.Key)), wit)
					break
				}
			}
			cnt.add("safe_hop_cells_halted", 1)
		}
		if i%997 == 0 {
			run.Sample(map[string]any{"case": id, "outcome": o.summary(v.name)})
		}
	})
	cnt.flush(run, "chain_")
}

package c16

import (
	"fmt"
	"sort"

	"github.com/nspcc-dev/neo-go/pkg/io"
	"github.com/nspcc-dev/neo-go/pkg/smartcontract"
	"github.com/nspcc-dev/neo-go/pkg/smartcontract/callflag"
	"github.com/nspcc-dev/neo-go/pkg/smartcontract/manifest"
	"github.com/nspcc-dev/neo-go/pkg/util"
	"github.com/nspcc-dev/neo-go/pkg/vm/emit"
)

// nativeCase is one way of invoking one native method: the arguments are fixed,
// the call flags passed to the native vary over all sixteen sets.
type nativeCase struct {
	Contract string
	Method   string
	NParams  int
	Label    string // "typed" = arguments synthesised from parameter types, else the name of a witness tuple
	Safe     bool
	Build    func(f callflag.CallFlag) (*invocation, error)
}

func (c *nativeCase) id() string {
	return fmt.Sprintf("%s.%s/%d:%s", c.Contract, c.Method, c.NParams, c.Label)
}

func callScript(h util.Uint160, method string, f callflag.CallFlag, args ...any) ([]byte, error) {
	w := io.NewBufBinWriter()
	emit.AppCall(w.BinWriter, h, method, f, args...)
	if w.Err != nil {
		return nil, w.Err
	}
	return w.Bytes(), nil
}

// typedArgs synthesises one argument per parameter from its declared type.
func (v *env) typedArgs(ps []manifest.Parameter) []any {
	args := make([]any, len(ps))
	for i, p := range ps {
		switch p.Type {
		case smartcontract.Hash160Type:
			args[i] = v.user.ScriptHash()
		case smartcontract.Hash256Type:
			args[i] = v.bc.CurrentBlockHash()
		case smartcontract.PublicKeyType:
			args[i] = v.user.Account().PublicKey().Bytes()
		case smartcontract.IntegerType:
			args[i] = 1
		case smartcontract.ByteArrayType:
			args[i] = []byte{1, 2, 3}
		case smartcontract.StringType:
			args[i] = "abc"
		case smartcontract.BoolType:
			args[i] = true
		case smartcontract.ArrayType:
			args[i] = []any{}
		case smartcontract.SignatureType:
			args[i] = make([]byte, 64)
		default:
			args[i] = nil
		}
	}
	return args
}

// direct builds a case calling the native straight from the entry script
// (entry flags All, the native gets f).
func (v *env) direct(contract, method, label string, args ...any) *nativeCase {
	cs := v.natives[contract]
	if cs == nil {
		return nil
	}
	md := cs.Manifest.ABI.GetMethod(method, len(args))
	if md == nil {
		return nil
	}
	h := cs.Hash
	return &nativeCase{Contract: contract, Method: method, NParams: len(args), Label: label, Safe: md.Safe,
		Build: func(f callflag.CallFlag) (*invocation, error) {
			s, err := callScript(h, method, f, args...)
			if err != nil {
				return nil, err
			}
			return &invocation{Script: s, EntryFlags: callflag.All}, nil
		}}
}

// viaProbe builds a case where probe A (called with All) calls the native with
// flags f: needed where the native looks at its calling contract.
func (v *env) viaProbe(contract, method, label string, args ...any) *nativeCase {
	cs := v.natives[contract]
	if cs == nil {
		return nil
	}
	md := cs.Manifest.ABI.GetMethod(method, len(args))
	if md == nil {
		return nil
	}
	h := cs.Hash
	relay := "call"
	if md.ReturnType == smartcontract.VoidType {
		relay = "callVoid"
	}
	return &nativeCase{Contract: contract, Method: method, NParams: len(args), Label: label, Safe: md.Safe,
		Build: func(f callflag.CallFlag) (*invocation, error) {
			s, err := callScript(v.probes[0].Hash, relay, callflag.All, h, method, int(f), args)
			if err != nil {
				return nil, err
			}
			return &invocation{Script: s, EntryFlags: callflag.All}, nil
		}}
}

// typedCases returns one type-driven case per method of every active native.
func (v *env) typedCases() []*nativeCase {
	var res []*nativeCase
	var names []string
	for n := range v.natives {
		names = append(names, n)
	}
	sort.Strings(names)
	for _, n := range names {
		cs := v.natives[n]
		for _, md := range cs.Manifest.ABI.Methods {
			c := v.direct(n, md.Name, "typed", v.typedArgs(md.Parameters)...)
			if c != nil {
				res = append(res, c)
			}
		}
	}
	return res
}

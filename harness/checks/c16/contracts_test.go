package c16

// Go-dialect source of the flag probe contract. Deployed several times under
// different names; every instance can write, notify, call, report its call
// flags, and relay a plan to the next instance of a call chain. The methods
// whose name starts with "safe" are marked Safe in the manifest although they
// try to write / notify / call: the engine must strip WriteStates and
// AllowNotify from them, whatever the caller passes.
const probeSrc = `package probe

import (
	"github.com/nspcc-dev/neo-go/pkg/interop"
	"github.com/nspcc-dev/neo-go/pkg/interop/contract"
	"github.com/nspcc-dev/neo-go/pkg/interop/native/gas"
	"github.com/nspcc-dev/neo-go/pkg/interop/runtime"
	"github.com/nspcc-dev/neo-go/pkg/interop/storage"
)

func _deploy(data any, isUpdate bool) {
	storage.Put(storage.GetContext(), "seed", 1)
	cb(data, 0)
}

// cb is the body of every entry point that native contracts call back
// (_deploy, onNEP17Payment, the oracle callback, balanceOf / transfer of a
// token handed to Policy.recoverFund). It reads the call flags of the
// executing context (step does), tries one effect and relays to other probes:
// the plan [act, key, next] comes with the data argument when there is one,
// else from what Arm stored, else the fixed effect dflt is attempted.
func cb(data any, dflt int) {
	if data != nil {
		p := data.([]any)
		step(p[0].(int), p[1].([]byte), p[2].([]any))
		return
	}
	ctx := storage.GetReadOnlyContext()
	if storage.Get(ctx, "cb-on") == nil {
		step(dflt, []byte("k-dflt"), []any{})
		return
	}
	a := storage.Get(ctx, "cb-act").(int)
	key := storage.Get(ctx, "cb-key").([]byte)
	next := []any{}
	nh := storage.Get(ctx, "cb-nh")
	if nh != nil {
		n2 := []any{}
		h2 := storage.Get(ctx, "cb-2h")
		if h2 != nil {
			n2 = []any{h2, storage.Get(ctx, "cb-2m"), storage.Get(ctx, "cb-2f").(int), storage.Get(ctx, "cb-2a").(int), storage.Get(ctx, "cb-2k"), []any{}}
		}
		next = []any{nh, storage.Get(ctx, "cb-nm"), storage.Get(ctx, "cb-nf").(int), storage.Get(ctx, "cb-na").(int), storage.Get(ctx, "cb-nk"), n2}
	}
	step(a, key, next)
}

// Arm stores the plan that the callbacks run when they get no data: effect a
// with key, then up to two relays next = [hash, method, flags, act, key, next].
func Arm(a int, key []byte, next []any) {
	ctx := storage.GetContext()
	storage.Put(ctx, "cb-on", 1)
	storage.Put(ctx, "cb-act", a)
	storage.Put(ctx, "cb-key", key)
	if len(next) > 0 {
		storage.Put(ctx, "cb-nh", next[0].(interop.Hash160))
		storage.Put(ctx, "cb-nm", next[1].(string))
		storage.Put(ctx, "cb-nf", next[2].(int))
		storage.Put(ctx, "cb-na", next[3].(int))
		storage.Put(ctx, "cb-nk", next[4].([]byte))
		n2 := next[5].([]any)
		if len(n2) > 0 {
			storage.Put(ctx, "cb-2h", n2[0].(interop.Hash160))
			storage.Put(ctx, "cb-2m", n2[1].(string))
			storage.Put(ctx, "cb-2f", n2[2].(int))
			storage.Put(ctx, "cb-2a", n2[3].(int))
			storage.Put(ctx, "cb-2k", n2[4].([]byte))
		}
	}
}

func act(a int, key []byte) {
	if a == 1 {
		storage.Put(storage.GetContext(), key, []byte{1})
	}
	if a == 2 {
		runtime.Notify("Ev", 2)
	}
	if a == 3 {
		storage.LocalPut(key, []byte{3})
	}
	if a == 4 {
		storage.Delete(storage.GetContext(), []byte("seed"))
	}
	if a == 5 {
		storage.LocalDelete([]byte("seed"))
	}
	if a == 6 {
		runtime.LoadScript(key, contract.All)
	}
	if a == 7 {
		gas.Transfer(runtime.GetExecutingScriptHash(), interop.Hash160(key), 1, nil)
	}
	if a == 8 {
		storage.Put(storage.GetContext(), key, []byte{8})
		runtime.Notify("Ev", 8)
	}
}

func step(a int, key []byte, next []any) []any {
	fl := int(contract.GetCallFlags())
	var sub any
	act(a, key)
	if len(next) > 0 {
		sub = contract.Call(next[0].(interop.Hash160), next[1].(string), contract.CallFlag(next[2].(int)), next[3], next[4], next[5])
	}
	return []any{fl, sub}
}

// Probe performs action a, then relays to the next hop of the plan
// [hash, method, flags, act, key, next]; returns [own flags, result of next].
func Probe(a int, key []byte, next []any) []any {
	return step(a, key, next)
}

// SafeProbe is Probe marked safe in the manifest.
func SafeProbe(a int, key []byte, next []any) []any {
	return step(a, key, next)
}

// Overloads: two pairs of methods that end up under one manifest name each
// (see compileProbe): "ovProbe" = a non-safe method of two parameters listed
// first and a SAFE one of three parameters; "voProbe" = a SAFE method of two
// parameters listed first and a non-safe one of three. Chains call the
// three-parameter ones: what the engine strips and checks must follow the
// overload that runs, not the first method of that name.
func OvShort(a int, key []byte) []any {
	return step(a, key, []any{})
}

func OvProbe(a int, key []byte, next []any) []any {
	return step(a, key, next)
}

func VoShort(a int, key []byte) []any {
	return step(a, key, []any{})
}

func VoProbe(a int, key []byte, next []any) []any {
	return step(a, key, next)
}

// TryProbe is Probe whose relayed call is wrapped in try/catch; a fault of the
// callee is swallowed and [flags, -1] returned.
func TryProbe(a int, key []byte, next []any) (res []any) {
	fl := int(contract.GetCallFlags())
	res = []any{fl, -1}
	defer func() {
		if r := recover(); r != nil {
			res = []any{fl, -1}
		}
	}()
	act(a, key)
	var sub any
	if len(next) > 0 {
		sub = contract.Call(next[0].(interop.Hash160), next[1].(string), contract.CallFlag(next[2].(int)), next[3], next[4], next[5])
	}
	res = []any{fl, sub}
	return res
}

// Call relays an arbitrary call with the given flags.
func Call(h interop.Hash160, method string, f int, args []any) any {
	return contract.Call(h, method, contract.CallFlag(f), args...)
}

// CallVoid relays a call of a method without return value.
func CallVoid(h interop.Hash160, method string, f int, args []any) {
	contract.Call(h, method, contract.CallFlag(f), args...)
}

// Flags returns the call flags of the executing context.
func Flags() int {
	return int(contract.GetCallFlags())
}

// OnNEP17Payment is the payment callback of the NEP-17 natives (transfers and
// mints); without a plan it writes and notifies.
func OnNEP17Payment(from interop.Hash160, amount int, data any) {
	cb(data, 8)
}

// OracleCb is the oracle response callback; without a plan it writes and notifies.
func OracleCb(url string, userData any, code int, result []byte) {
	cb(userData, 8)
}

// BalanceOf and Transfer let the probe be the token of Policy.recoverFund:
// both are entered by the native contract.
func BalanceOf(acc interop.Hash160) int {
	cb(nil, 0)
	return 7
}

func Transfer(from interop.Hash160, to interop.Hash160, amount int, data any) bool {
	cb(data, 8)
	return true
}

// Verify lets the contract be a transaction signer.
func Verify() bool {
	return true
}
`

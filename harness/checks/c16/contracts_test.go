package c16

// Go-dialect source of the flag probe contract. Deployed several times under
// different names; every instance can write, notify, call, report its call
// flags, and relay a plan to the next instance of a call chain. The methods
// whose name starts with "safe" are marked Safe in the manifest although they
// try to write / notify / call: the engine must strip WriteStates and
// AllowNotify from them, whatever the caller passes.
const probeSrc = `package probe

import (
	"github.com/nspcc-dev/neo-go/pkg/interop"
	"github.com/nspcc-dev/neo-go/pkg/interop/contract"
	"github.com/nspcc-dev/neo-go/pkg/interop/native/gas"
	"github.com/nspcc-dev/neo-go/pkg/interop/runtime"
	"github.com/nspcc-dev/neo-go/pkg/interop/storage"
)

func _deploy(data any, isUpdate bool) {
	storage.Put(storage.GetContext(), "seed", 1)
	if data != nil {
		storage.Put(storage.GetContext(), "deployed", 1)
		runtime.Notify("Ev", 7)
	}
}

func act(a int, key []byte) {
	if a == 1 {
		storage.Put(storage.GetContext(), key, []byte{1})
	}
	if a == 2 {
		runtime.Notify("Ev", 2)
	}
	if a == 3 {
		storage.LocalPut(key, []byte{3})
	}
	if a == 4 {
		storage.Delete(storage.GetContext(), []byte("seed"))
	}
	if a == 5 {
		storage.LocalDelete([]byte("seed"))
	}
	if a == 6 {
		runtime.LoadScript(key, contract.All)
	}
	if a == 7 {
		gas.Transfer(runtime.GetExecutingScriptHash(), interop.Hash160(key), 1, nil)
	}
}

func step(a int, key []byte, next []any) []any {
	fl := int(contract.GetCallFlags())
	var sub any
	act(a, key)
	if len(next) > 0 {
		sub = contract.Call(next[0].(interop.Hash160), next[1].(string), contract.CallFlag(next[2].(int)), next[3], next[4], next[5])
	}
	return []any{fl, sub}
}

// Probe performs action a, then relays to the next hop of the plan
// [hash, method, flags, act, key, next]; returns [own flags, result of next].
func Probe(a int, key []byte, next []any) []any {
	return step(a, key, next)
}

// SafeProbe is Probe marked safe in the manifest.
func SafeProbe(a int, key []byte, next []any) []any {
	return step(a, key, next)
}

// TryProbe is Probe whose relayed call is wrapped in try/catch; a fault of the
// callee is swallowed and [flags, -1] returned.
func TryProbe(a int, key []byte, next []any) (res []any) {
	fl := int(contract.GetCallFlags())
	res = []any{fl, -1}
	defer func() {
		if r := recover(); r != nil {
			res = []any{fl, -1}
		}
	}()
	act(a, key)
	var sub any
	if len(next) > 0 {
		sub = contract.Call(next[0].(interop.Hash160), next[1].(string), contract.CallFlag(next[2].(int)), next[3], next[4], next[5])
	}
	res = []any{fl, sub}
	return res
}

// Call relays an arbitrary call with the given flags.
func Call(h interop.Hash160, method string, f int, args []any) any {
	return contract.Call(h, method, contract.CallFlag(f), args...)
}

// CallVoid relays a call of a method without return value.
func CallVoid(h interop.Hash160, method string, f int, args []any) {
	contract.Call(h, method, contract.CallFlag(f), args...)
}

// Flags returns the call flags of the executing context.
func Flags() int {
	return int(contract.GetCallFlags())
}

// OnNEP17Payment writes and notifies: the effect of a payment callback.
func OnNEP17Payment(from interop.Hash160, amount int, data any) {
	storage.Put(storage.GetContext(), "paid", amount)
	runtime.Notify("Ev", amount)
}

// OracleCb is the oracle response callback.
func OracleCb(url string, userData any, code int, result []byte) {
	storage.Put(storage.GetContext(), "oracle", code)
	runtime.Notify("Ev", code)
}

// Verify lets the contract be a transaction signer.
func Verify() bool {
	return true
}
`

package c16

import (
	"crypto/sha256"
	"encoding/binary"
	"fmt"
	"sort"
	"strings"
	"sync"
	"testing"

	"github.com/nspcc-dev/neo-go/pkg/compiler"
	"github.com/nspcc-dev/neo-go/pkg/config"
	"github.com/nspcc-dev/neo-go/pkg/core"
	"github.com/nspcc-dev/neo-go/pkg/core/block"
	"github.com/nspcc-dev/neo-go/pkg/core/interop"
	"github.com/nspcc-dev/neo-go/pkg/core/interop/interopnames"
	"github.com/nspcc-dev/neo-go/pkg/core/native/nativenames"
	"github.com/nspcc-dev/neo-go/pkg/core/state"
	"github.com/nspcc-dev/neo-go/pkg/core/storage"
	"github.com/nspcc-dev/neo-go/pkg/core/transaction"
	"github.com/nspcc-dev/neo-go/pkg/crypto/keys"
	"github.com/nspcc-dev/neo-go/pkg/neotest"
	"github.com/nspcc-dev/neo-go/pkg/smartcontract"
	"github.com/nspcc-dev/neo-go/pkg/smartcontract/callflag"
	"github.com/nspcc-dev/neo-go/pkg/smartcontract/manifest"
	"github.com/nspcc-dev/neo-go/pkg/smartcontract/nef"
	"github.com/nspcc-dev/neo-go/pkg/smartcontract/trigger"
	"github.com/nspcc-dev/neo-go/pkg/util"
	"github.com/nspcc-dev/neo-go/pkg/wallet"
	"github.com/nspcc-dev/neo-go/verifharness/vlib/ev"
	"github.com/nspcc-dev/neo-go/verifharness/vlib/vchain"
)

// detKey derives a private key from the run seed and a label, so that every
// hash in a run is a pure function of VERIF_SEED.
func detKey(label string) *keys.PrivateKey {
	for i := uint32(0); ; i++ {
		var b [12]byte
		binary.LittleEndian.PutUint64(b[:], uint64(ev.Seed()))
		binary.LittleEndian.PutUint32(b[8:], i)
		h := sha256.Sum256(append(b[:], label...))
		k, err := keys.NewPrivateKeyFromBytes(h[:])
		if err == nil {
			return k
		}
	}
}

func detSigner(label string) neotest.SingleSigner {
	return neotest.NewSingleSigner(wallet.NewAccountFromPrivateKey(detKey(label)))
}

type env struct {
	t       testing.TB
	stage   string // name of the last enabled hardfork ("all" = every stable one)
	variant string // "" or a suffix naming a chain-state variant (used in case ids only)
	bc      *core.Blockchain
	e       *neotest.Executor
	val     neotest.Signer
	com     neotest.Signer
	user    neotest.SingleSigner // holds GAS and NEO, registered candidate, notary depositor
	other   neotest.SingleSigner // second funded account
	probes  []*neotest.Contract  // A, B, C (same code)
	probeID []int32
	names   map[util.Uint160]string
	natives map[string]*state.Contract // by name, manifests as active at the chain's height
	probeMf *manifest.Manifest
	probeNF []byte
	store   *vchain.RecStore
	closer  *sync.Once
	// manifests of the probe contracts (deployed, or deployed inside a monitored
	// invocation), by hash: used to tell which method a context runs
	mfs   map[util.Uint160]*manifest.Manifest
	mfsMu *sync.RWMutex
	cb    *cbState // callback probes (callbacks_test.go)
}

// restart stops the node gracefully (which persists everything) and opens a
// new Blockchain on the same database: all caches, the ContractManagement one
// included, are rebuilt from what was stored.
func (v *env) restart() (*env, error) {
	h := v.bc.BlockHeight()
	v.closer.Do(v.bc.Close)
	bc, val, com, err := vchain.OpenChain(v.t, false, hardforkConfig(v.stage), v.store)
	if err != nil {
		return nil, err
	}
	n := *v
	n.bc, n.val, n.com = bc, val, com
	n.e = neotest.NewExecutor(v.t, bc, val, com)
	n.e.DisableCoverage()
	n.closer = &sync.Once{}
	cl := n.closer
	v.t.Cleanup(func() { cl.Do(bc.Close) })
	if bc.BlockHeight() != h {
		return nil, fmt.Errorf("restarted node is at height %d, was at %d", bc.BlockHeight(), h)
	}
	n.natives = map[string]*state.Contract{}
	n.refreshNatives()
	return &n, nil
}

func (v *env) name(h util.Uint160) string {
	if n, ok := v.names[h]; ok {
		return n
	}
	return "script"
}

func (v *env) native(name string) util.Uint160 { return v.e.NativeHash(v.t, name) }

// compileProbe compiles the probe contract under the given name for a sender.
func compileProbe(t testing.TB, sender util.Uint160, name string) *neotest.Contract {
	c := neotest.CompileSource(t, sender, strings.NewReader(probeSrc), &compiler.Options{
		Name:               name,
		NoEventsCheck:      true,
		NoPermissionsCheck: true,
		Permissions:        []manifest.Permission{*manifest.NewPermission(manifest.PermissionWildcard)},
		ContractEvents: []compiler.HybridEvent{{Name: "Ev", Parameters: []compiler.HybridParameter{
			{Parameter: manifest.Parameter{Name: "x", Type: smartcontract.IntegerType}}}}},
	})
	for i := range c.Manifest.ABI.Methods {
		if strings.HasPrefix(c.Manifest.ABI.Methods[i].Name, "safe") {
			c.Manifest.ABI.Methods[i].Safe = true
		}
	}
	// the overload pairs: same name, different parameter counts and safety, the
	// two-parameter one listed first
	var short, rest []manifest.Method
	for _, m := range c.Manifest.ABI.Methods {
		switch m.Name {
		case "ovShort":
			m.Name = "ovProbe"
			short = append(short, m)
		case "voShort":
			m.Name, m.Safe = "voProbe", true
			short = append(short, m)
		case "ovProbe":
			m.Safe = true
			rest = append(rest, m)
		default:
			rest = append(rest, m)
		}
	}
	c.Manifest.ABI.Methods = append(short, rest...)
	return c
}

// hardforkConfig returns a config hook enabling hardforks up to and including
// stage from genesis ("all" = default set of stable hardforks, "none" = none).
func hardforkConfig(stage string) func(*config.Blockchain) {
	return func(c *config.Blockchain) {
		c.P2PSigExtensions = true
		switch stage {
		case "all":
			c.Hardforks = nil
		default:
			m := map[string]uint32{}
			if stage != "none" {
				for _, hf := range config.StableHardforks {
					m[hf.String()] = 0
					if hf.String() == stage {
						break
					}
				}
			}
			// An empty map means "all stable" to the config loader; "none" is
			// expressed by placing the first hardfork far in the future.
			if len(m) == 0 {
				m[config.StableHardforks[0].String()] = 1 << 30
			}
			c.Hardforks = m
		}
	}
}

func newEnv(t testing.TB, stage string) *env {
	// The store outlives the Blockchain (Close is a no-op on it), so that the
	// node can be restarted on its database.
	st := vchain.NewRecStore(storage.NewMemoryStore(), false)
	bc, val, com, err := vchain.OpenChain(t, false, hardforkConfig(stage), st)
	if err != nil {
		t.Fatalf("cannot create chain: %v", err)
	}
	e := neotest.NewExecutor(t, bc, val, com)
	e.DisableCoverage()
	v := &env{t: t, stage: stage, bc: bc, e: e, val: val, com: com, names: map[util.Uint160]string{}, natives: map[string]*state.Contract{}, mfs: map[util.Uint160]*manifest.Manifest{}, mfsMu: &sync.RWMutex{}}
	v.store = st
	v.closer = &sync.Once{}
	cl := v.closer
	t.Cleanup(func() { cl.Do(bc.Close) })
	v.user = detSigner("user")
	v.other = detSigner("other")
	v.names[v.user.ScriptHash()] = "user"
	v.names[v.other.ScriptHash()] = "other"
	gasH, neoH := v.native(nativenames.Gas), v.native(nativenames.Neo)
	e.AddNewBlock(t,
		e.NewTx(t, []neotest.Signer{val}, gasH, "transfer", val.ScriptHash(), v.user.ScriptHash(), int64(20000_0000_0000), nil),
		e.NewTx(t, []neotest.Signer{val}, gasH, "transfer", val.ScriptHash(), v.other.ScriptHash(), int64(5000_0000_0000), nil),
		e.NewTx(t, []neotest.Signer{val}, neoH, "transfer", val.ScriptHash(), v.user.ScriptHash(), int64(1000), nil),
		e.NewTx(t, []neotest.Signer{val}, neoH, "transfer", val.ScriptHash(), v.other.ScriptHash(), int64(10), nil))
	for i, n := range []string{"probeA", "probeB", "probeC"} {
		c := compileProbe(t, val.ScriptHash(), n)
		e.DeployContract(t, c, nil)
		v.probes = append(v.probes, c)
		v.names[c.Hash] = n
		v.mfs[c.Hash] = c.Manifest
		cs := bc.GetContractState(c.Hash)
		if cs == nil {
			t.Fatalf("probe %d not deployed", i)
		}
		v.probeID = append(v.probeID, cs.ID)
	}
	var fund []*transaction.Transaction
	for _, c := range v.probes {
		fund = append(fund, e.NewTx(t, []neotest.Signer{val}, gasH, "transfer", val.ScriptHash(), c.Hash, int64(100_0000_0000), nil))
	}
	e.AddBlockCheckHalt(t, fund...)
	v.refreshNatives()
	if ns, err := v.interopNames(); err == nil {
		for _, n := range ns {
			sysNames.Store(interopnames.ToID([]byte(n)), n)
		}
	}
	return v
}

func (v *env) refreshNatives() {
	for _, cs := range v.bc.GetNatives() {
		c := cs
		// only natives that are active now
		if v.bc.GetContractState(c.Hash) == nil {
			continue
		}
		live := v.bc.GetContractState(c.Hash)
		v.natives[live.Manifest.Name] = live
		v.names[live.Hash] = live.Manifest.Name
	}
}

// allSigners is the signer set used by test invocations: user, committee and
// validators with global scope, so that witness checks never mask a flag check.
func (v *env) allSigners() []transaction.Signer {
	return []transaction.Signer{
		{Account: v.user.ScriptHash(), Scopes: transaction.Global},
		{Account: v.com.ScriptHash(), Scopes: transaction.Global},
		{Account: v.val.ScriptHash(), Scopes: transaction.Global},
		{Account: v.other.ScriptHash(), Scopes: transaction.Global},
	}
}

// invocation describes one monitored test execution.
type invocation struct {
	Script      []byte
	EntryFlags  callflag.CallFlag
	AsHash      *util.Uint160 // run the script under the identity of a deployed contract
	Attrs       []transaction.Attribute
	Signers     []transaction.Signer
	Preload     func(ic *interop.Context) // push initial stack items
	TimeShiftMs uint64                    // move the fake block's timestamp forward
	GasLimit    int64
	Trigger     trigger.Type // zero value: Application
}

func (v *env) run(inv *invocation) (*outcome, error) {
	tx := transaction.New(inv.Script, 0)
	tx.Signers = inv.Signers
	if tx.Signers == nil {
		tx.Signers = v.allSigners()
	}
	tx.Attributes = inv.Attrs
	tx.ValidUntilBlock = v.bc.BlockHeight() + 1
	var blk *block.Block
	if inv.TimeShiftMs != 0 {
		b, err := v.fakeBlock(inv.TimeShiftMs)
		if err != nil {
			return nil, err
		}
		blk = b
	}
	trig := inv.Trigger
	if trig == 0 {
		trig = trigger.Application
	}
	ic, err := v.bc.GetTestVM(trig, tx, blk)
	if err != nil {
		return nil, err
	}
	if inv.AsHash != nil {
		// The script runs as the deployed contract: same hash, same manifest,
		// a NEF (so that the context counts as deployed), our code.
		cs := v.bc.GetContractState(*inv.AsHash)
		if cs == nil {
			return nil, fmt.Errorf("contract %s not deployed", inv.AsHash.StringLE())
		}
		ic.VM.LoadNEFMethod(&nef.File{Script: inv.Script}, &cs.Manifest, util.Uint160{}, cs.Hash, inv.EntryFlags, true, 0, -1, nil, nil, false)
	} else {
		ic.VM.LoadWithFlags(inv.Script, inv.EntryFlags)
	}
	if inv.Preload != nil {
		inv.Preload(ic)
	}
	ic.VM.SetGasLimit(4000_0000_0000)
	m := attach(ic)
	var runErr, vmErr error
	func() {
		defer func() {
			if r := recover(); r != nil {
				runErr = fmt.Errorf("panic escaped VM.Run: %v", r)
			}
		}()
		vmErr = ic.VM.Run()
	}()
	m.finish()
	o := m.outcome()
	if ic.VM.HasFailed() && vmErr != nil {
		o.Fault = vmErr.Error()
	}
	if o.Halted {
		o.Stack = ic.VM.Estack().ToArray()
	}
	o.SeenFlags = m.seenFlags
	ic.Finalize()
	return o, runErr
}

// stagesBefore lists the hardfork stages older than the default one, newest
// first ("none" = no hardfork enabled).
func stagesBefore() []string {
	var res []string
	hfs := config.StableHardforks
	for i := len(hfs) - 2; i >= 0; i-- {
		res = append(res, hfs[i].String())
	}
	return append(res, "none")
}

// stageReporter routes violations: what is observed with the current protocol
// (stage "all") is reported as is; what is observed only on chains configured
// with an older hardfork set is reported once, under a signature that names the
// hardfork from which it is no longer observed (such behaviour is frozen
// history of the protocol, not the behaviour of new blocks).
type stageReporter struct {
	mu       sync.Mutex
	run      *ev.Run
	deferred map[string]*deferredViolation
	current  map[string]bool
}

type deferredViolation struct {
	stages  map[string]bool
	caseID  string
	detail  string
	witness any
	count   int
}

var reporter *stageReporter

func violation(stage, sig, caseID, detail string, witness any) {
	r := reporter
	if stage == "all" {
		r.mu.Lock()
		r.current[sig] = true
		r.mu.Unlock()
		r.run.Violation(sig, caseID, detail, witness)
		return
	}
	r.mu.Lock()
	defer r.mu.Unlock()
	d := r.deferred[sig]
	if d == nil {
		d = &deferredViolation{stages: map[string]bool{}, caseID: caseID, detail: detail, witness: witness}
		r.deferred[sig] = d
	}
	d.stages[stage] = true
	d.count++
}

func (r *stageReporter) flush() {
	order := append([]string{"none"}, func() []string {
		var s []string
		for _, hf := range config.StableHardforks {
			s = append(s, hf.String())
		}
		return s
	}()...)
	var sigs []string
	for s := range r.deferred {
		sigs = append(sigs, s)
	}
	sort.Strings(sigs)
	for _, sig := range sigs {
		d := r.deferred[sig]
		if r.current[sig] {
			// also seen with the current protocol: same finding
			r.run.Violation(sig, d.caseID, d.detail, d.witness)
			continue
		}
		last := 0
		var st []string
		for i, s := range order {
			if d.stages[s] {
				last = i
				st = append(st, s)
			}
		}
		until := "later"
		if last+1 < len(order) {
			until = order[last+1]
		}
		r.run.Violation(sig+"@only-before-hardfork-"+until, d.caseID,
			fmt.Sprintf("%s [observed on chains whose last enabled hardfork is one of %v, %d cells; not observed with the current hardfork set]", d.detail, st, d.count), d.witness)
	}
}
